#!/bin/sh
# MANIFEST.setup_cmd: build the Lean project and the Go harness, offline.
set -e
cd "$(dirname "$0")"
exec python3 lib/setup.py "$@"
