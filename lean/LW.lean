import LW.Basic
import LW.Model.Mac
import LW.Model.Frame
import LW.Model.Crypto
