import LW.Driver.Verdict
open LW LW.Driver

/-- reads "op args… => goResult" lines; prints one line per anomaly:
    `<lineno>\t<M>\t<P>` when the model result differs from the Go result or the spec verdict is not ok. -/
partial def loop (prop : String) (h : IO.FS.Stream) (st : DState) (n mism notok : Nat) : IO Unit := do
  let line ← h.getLine
  if line.isEmpty then
    IO.println s!"STATS total={n} mismatches={mism} notok={notok}"
    return ()
  let line := String.ofList (line.toList.reverse.dropWhile (fun c => c == '\n' || c == '\r')).reverse
  if line.isEmpty || line.startsWith "#" then
    loop prop h st n mism notok
  else
    let (lhs, goRes) := match line.splitOn " => " with
      | [a, b] => (a, b)
      | a :: _ => (a, "")
      | [] => ("", "")
    match lhs.splitOn " " |>.filter (· ≠ "") with
    | [] => loop prop h st n mism notok
    | op :: args =>
      let (st', m) := runOp st op args
      let p := verdict prop st op args goRes
      let bad := m != goRes
      if bad || p != "ok" then
        IO.println s!"{n+1}\t{m}\t{p}"
      loop prop h st' (n+1) (if bad then mism+1 else mism) (if p != "ok" then notok+1 else notok)

def main (argv : List String) : IO Unit := do
  loop (argv.headD "") (← IO.getStdin) {} 0 0 0
