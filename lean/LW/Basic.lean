/-
  LW.Basic — bytes, outcomes (ok / err / panic), little-endian helpers, hex.
  Core Lean only (the compiled driver imports this).
-/
namespace LW

abbrev Byte := BitVec 8
abbrev Bytes := List Byte

/-- Result of a modelled Go function: a value, a returned `error`, or a run-time panic. -/
inductive Outcome (α : Type) where
  | ok (a : α)
  | err
  | panic
  deriving Repr, DecidableEq, Inhabited

namespace Outcome
@[inline] def bind {α β} (x : Outcome α) (f : α → Outcome β) : Outcome β :=
  match x with
  | ok a => f a
  | err => err
  | panic => panic
instance : Monad Outcome where
  pure := ok
  bind := bind
@[simp] theorem ok_bind {α β} (a : α) (f : α → Outcome β) : (ok a >>= f) = f a := rfl
@[simp] theorem err_bind {α β} (f : α → Outcome β) : ((err : Outcome α) >>= f) = err := rfl
@[simp] theorem panic_bind {α β} (f : α → Outcome β) : ((panic : Outcome α) >>= f) = panic := rfl
@[simp] theorem pure_eq {α} (a : α) : (pure a : Outcome α) = ok a := rfl
def isOk {α} : Outcome α → Bool | ok _ => true | _ => false
def toOption {α} : Outcome α → Option α | ok a => some a | _ => none
def map {α β} (f : α → β) : Outcome α → Outcome β
  | ok a => ok (f a) | err => err | panic => panic
/-- Go's `if cond { return err }`. -/
@[inline] def guardErr (c : Bool) : Outcome Unit := if c then err else ok ()
end Outcome

open Outcome

/-! ### byte helpers -/

@[inline] def byteOfNat (n : Nat) : Byte := BitVec.ofNat 8 n
@[inline] def bit (b : Byte) (i : Nat) : Bool := b.getLsbD i
@[inline] def boolBit (c : Bool) (i : Nat) : Byte := if c then byteOfNat (2 ^ i) else 0

/-- little-endian bytes of a natural number, `n` bytes (truncating like Go's `PutUintXX` on the low bytes). -/
def leBytes : (n : Nat) → Nat → Bytes
  | 0, _ => []
  | n+1, x => byteOfNat (x % 256) :: leBytes n (x / 256)

/-- natural number denoted by little-endian bytes. -/
def leNat : Bytes → Nat
  | [] => 0
  | b :: bs => b.toNat + 256 * leNat bs

@[simp] theorem leBytes_length (n x : Nat) : (leBytes n x).length = n := by
  induction n generalizing x with
  | zero => rfl
  | succ n ih => simp [leBytes, ih]

theorem leNat_lt (bs : Bytes) : leNat bs < 256 ^ bs.length := by
  induction bs with
  | nil => simp [leNat]
  | cons b bs ih =>
    have hb := b.isLt
    simp only [leNat, List.length_cons, Nat.pow_succ]
    omega

theorem leNat_leBytes (n x : Nat) : leNat (leBytes n x) = x % 256 ^ n := by
  induction n generalizing x with
  | zero => simp [leBytes, leNat, Nat.mod_one]
  | succ n ih =>
    simp only [leBytes, leNat, ih, byteOfNat, BitVec.toNat_ofNat, Nat.pow_succ]
    have h1 : x % (256 ^ n * 256) = x % 256 + 256 * (x / 256 % 256 ^ n) := by
      rw [Nat.mul_comm (256 ^ n) 256, Nat.mod_mul]
    rw [h1]
    omega

theorem leBytes_leNat (bs : Bytes) : leBytes bs.length (leNat bs) = bs := by
  induction bs with
  | nil => rfl
  | cons b bs ih =>
    have hb := b.isLt
    simp only [List.length_cons, leBytes, leNat]
    have h1 : (b.toNat + 256 * leNat bs) % 256 = b.toNat := by omega
    have h2 : (b.toNat + 256 * leNat bs) / 256 = leNat bs := by omega
    rw [h1, h2, ih]
    simp [byteOfNat]

theorem leNat_append (a b : Bytes) : leNat (a ++ b) = leNat a + 256 ^ a.length * leNat b := by
  induction a with
  | nil => simp [leNat]
  | cons x xs ih =>
    simp only [List.cons_append, leNat, ih, List.length_cons, Nat.pow_succ]
    rw [Nat.mul_add, ← Nat.mul_assoc, Nat.mul_comm 256 (256 ^ xs.length)]
    omega

/-! ### Go slice primitives (checked: they panic exactly when Go would) -/

/-- `s[lo:hi]` -/
def slice (s : Bytes) (lo hi : Nat) : Outcome Bytes :=
  if lo ≤ hi ∧ hi ≤ s.length then ok ((s.drop lo).take (hi - lo)) else panic

/-- `s[i]` -/
def index (s : Bytes) (i : Nat) : Outcome Byte :=
  match s[i]? with
  | some b => ok b
  | none => panic

/-! ### hex -/

def hexDigit (n : Nat) : Char :=
  if n < 10 then Char.ofNat (48 + n) else Char.ofNat (87 + n)

def hexOfByte (b : Byte) : List Char := [hexDigit (b.toNat / 16), hexDigit (b.toNat % 16)]

def hexOfBytes (bs : Bytes) : String := String.ofList (bs.flatMap hexOfByte)

def hexVal (c : Char) : Option Nat :=
  if '0' ≤ c ∧ c ≤ '9' then some (c.toNat - 48)
  else if 'a' ≤ c ∧ c ≤ 'f' then some (c.toNat - 87)
  else if 'A' ≤ c ∧ c ≤ 'F' then some (c.toNat - 55)
  else none

/-- `encoding/hex.DecodeString`: even length, every character a hex digit (either case). -/
def hexDecodeChars : List Char → Option Bytes
  | [] => some []
  | [_] => none
  | a :: b :: rest =>
    match hexVal a, hexVal b, hexDecodeChars rest with
    | some x, some y, some r => some (byteOfNat (x * 16 + y) :: r)
    | _, _, _ => none

def hexDecode (s : String) : Option Bytes := hexDecodeChars s.toList

/-- XOR of two byte strings, length of the shorter. -/
def xorBytes : Bytes → Bytes → Bytes
  | a :: as, b :: bs => (a ^^^ b) :: xorBytes as bs
  | _, _ => []

@[simp] theorem xorBytes_length (a b : Bytes) : (xorBytes a b).length = min a.length b.length := by
  induction a generalizing b with
  | nil => simp [xorBytes]
  | cons x xs ih => cases b with
    | nil => simp [xorBytes]
    | cons y ys => simp [xorBytes, ih, Nat.succ_min_succ]

def zeros (n : Nat) : Bytes := List.replicate n 0

end LW
