/-
  LW.Spec.Frag — TS004 (Fragmented Data Block Transport) parity matrix, transcribed from the specification's pseudo-code
  (DESIGN.md appendix A.7) with bit operations, independently of applayer/fragmentation/encode.go.
-/
import LW.Basic
namespace LW.Spec

/-- prbs23(x): b0 = x & 1; b1 = (x >> 5) & 1; x = (x >> 1) + ((b0 xor b1) << 22) -/
def prbs23 (x : Nat) : Nat := (x >>> 1) + (((x &&& 1) ^^^ ((x >>> 5) &&& 1)) <<< 22)

/-- is_power2(M) -/
def isPower2 (n : Nat) : Bool := n != 0 && Nat.land n (n - 1) == 0

/-- `r = 1 << 16; while (r >= M) { x = prbs23(x); r = x % (M + m); }` with fuel for the while loop -/
def drawCoeff (m md : Nat) : Nat → Nat → Option (Nat × Nat)
  | 0, _ => none
  | fuel+1, x =>
    let x' := prbs23 x
    let r := x' % md
    if r ≥ m then drawCoeff m md fuel x' else some (x', r)

/-- matrix_line(N, M): M/2 coefficients set to 1 at pseudo-random positions; x starts at 1 + 1001·N; the modulus is M + 1 when M is a power of two -/
def matrixLine (fuel n m : Nat) : Option (List Bool) :=
  let md := m + (if isPower2 m then 1 else 0)
  let rec go : Nat → Nat → List Bool → Option (List Bool)
    | 0, _, line => some line
    | k+1, x, line =>
      match drawCoeff m md fuel x with
      | some (x', r) => go k x' (line.set r true)
      | none => none
  go (m / 2) (1 + 1001 * n) (List.replicate m false)

end LW.Spec
