/-
  LW.Spec.Mac — the MAC-command payload formats of LoRaWAN 1.0.x / 1.1, written as bit-layout tables over
  the payload read as one little-endian integer (the specification's own convention), with a generic
  pack / unpack. Independent of LW.Model.Mac: no shifts, masks or per-byte code.
-/
import LW.Model.Mac
namespace LW.Spec
open LW

/-- a field: bits [off+width-1 : off] of the payload integer -/
structure Field where
  off : Nat
  width : Nat
  deriving Repr, DecidableEq

def fieldOf (n : Nat) (f : Field) : Nat := n / 2 ^ f.off % 2 ^ f.width

/-- read all fields of a payload -/
def unpack (fs : List Field) (bs : Bytes) : List Nat := fs.map (fieldOf (leNat bs))

def packNat : List Field → List Nat → Nat
  | f :: fs, v :: vs => v % 2 ^ f.width * 2 ^ f.off + packNat fs vs
  | _, _ => 0

/-- write fields (all other bits, i.e. RFU, are zero) -/
def pack (size : Nat) (fs : List Field) (vals : List Nat) : Bytes := leBytes size (packNat fs vals)

/-- size in bytes and field layout per payload kind (LoRaWAN 1.0.4 / 1.1 §5; DESIGN.md appendix A.2) -/
def layout : Kind → Nat × List Field
  | .resetInd | .resetConf | .rekeyInd | .rekeyConf => (1, [⟨0, 4⟩])                 -- Minor
  | .linkCheckAns => (2, [⟨0, 8⟩, ⟨8, 8⟩])                                              -- Margin, GwCnt
  | .linkADRReq => (4, [⟨4, 4⟩, ⟨0, 4⟩, ⟨8, 16⟩, ⟨28, 3⟩, ⟨24, 4⟩])                       -- DataRate, TXPower, ChMask, ChMaskCntl, NbTrans
  | .linkADRAns => (1, [⟨0, 1⟩, ⟨1, 1⟩, ⟨2, 1⟩])                                        -- ChMask ACK, DataRate ACK, Power ACK
  | .dutyCycleReq => (1, [⟨0, 8⟩])                                                     -- MaxDCycle (0..15, 255 = off in 1.0.x)
  | .rxParamSetupReq => (4, [⟨8, 24⟩, ⟨7, 1⟩, ⟨0, 4⟩, ⟨4, 3⟩])                           -- Frequency, (OptNeg/RFU bit), RX2DataRate, RX1DRoffset
  | .rxParamSetupAns => (1, [⟨0, 1⟩, ⟨1, 1⟩, ⟨2, 1⟩])                                   -- Channel ACK, RX2DataRate ACK, RX1DRoffset ACK
  | .devStatusAns => (2, [⟨0, 8⟩, ⟨8, 6⟩])                                              -- Battery, Margin (6-bit signed)
  | .newChannelReq => (5, [⟨0, 8⟩, ⟨8, 24⟩, ⟨36, 4⟩, ⟨32, 4⟩])                           -- ChIndex, Freq, MaxDR, MinDR
  | .newChannelAns => (1, [⟨0, 1⟩, ⟨1, 1⟩])                                             -- Channel frequency ok, Data-rate range ok
  | .rxTimingSetupReq => (1, [⟨0, 4⟩])                                                 -- Del
  | .txParamSetupReq => (1, [⟨5, 1⟩, ⟨4, 1⟩, ⟨0, 4⟩])                                   -- DownlinkDwellTime, UplinkDwellTime, MaxEIRP
  | .dlChannelReq => (4, [⟨0, 8⟩, ⟨8, 24⟩])                                             -- ChIndex, Freq
  | .dlChannelAns => (1, [⟨1, 1⟩, ⟨0, 1⟩])                                              -- Uplink frequency exists, Channel frequency ok
  | .pingSlotInfoReq => (1, [⟨0, 3⟩])                                                  -- Periodicity
  | .beaconFreqReq => (3, [⟨0, 24⟩])                                                   -- Frequency
  | .beaconFreqAns => (1, [⟨0, 1⟩])                                                    -- Beacon frequency ok
  | .pingSlotChannelReq => (4, [⟨0, 24⟩, ⟨24, 4⟩])                                      -- Frequency, DR
  | .pingSlotChannelAns => (1, [⟨1, 1⟩, ⟨0, 1⟩])                                        -- Data rate ok, Channel frequency ok
  | .deviceTimeAns => (5, [⟨0, 32⟩, ⟨32, 8⟩])                                           -- seconds since GPS epoch, fractional second (1/256 s)
  | .adrParamSetupReq => (1, [⟨4, 4⟩, ⟨0, 4⟩])                                          -- Limit_exp, Delay_exp
  | .forceRejoinReq => (2, [⟨11, 3⟩, ⟨8, 3⟩, ⟨4, 3⟩, ⟨0, 4⟩])                            -- Period, Max_Retries, RejoinType, DR
  | .rejoinParamSetupReq => (1, [⟨4, 4⟩, ⟨0, 4⟩])                                       -- MaxTimeN, MaxCountN
  | .rejoinParamSetupAns => (1, [⟨0, 1⟩])                                              -- TimeOK
  | .deviceModeInd | .deviceModeConf => (1, [⟨0, 8⟩])                                  -- Class
  | .proprietary => (0, [])

def b2n (b : Bool) : Nat := if b then 1 else 0

/-- frequency coding of all commands but NewChannelReq: unit 100 Hz, 24 bits -/
def freqCode (f : BitVec 32) : Option Nat :=
  if f.toNat % 100 = 0 ∧ f.toNat / 100 < 2 ^ 24 then some (f.toNat / 100) else none

/-- NewChannelReq (Semtech 2.4 GHz proposal cited by the code): unit 200 Hz from 2.4 GHz upwards, which are the codes
≥ 12 000 000; below that unit 100 Hz and only codes < 12 000 000. -/
def freqCodeNC (f : BitVec 32) : Option Nat :=
  if f.toNat ≥ 2400000000 then
    (if f.toNat % 200 = 0 ∧ f.toNat / 200 < 2 ^ 24 then some (f.toNat / 200) else none)
  else if f.toNat % 100 = 0 ∧ f.toNat / 100 < 12000000 then some (f.toNat / 100) else none

def lt (b : Byte) (n : Nat) : Bool := decide (b.toNat < n)

/-- the specification's field values of a payload value; `none` when a field is outside the range the
specification defines for it. -/
def toFields : MacP → Option (List Nat)
  | .resetInd m | .resetConf m | .rekeyInd m | .rekeyConf m => if lt m 8 then some [m.toNat] else none
  | .linkCheckAns a b => some [a.toNat, b.toNat]
  | .linkADRReq dr txp mask cntl nb =>
      if lt dr 16 ∧ lt txp 16 ∧ lt cntl 8 ∧ lt nb 16 then some [dr.toNat, txp.toNat, mask.toNat, cntl.toNat, nb.toNat] else none
  | .linkADRAns a b c | .rxParamSetupAns a b c => some [b2n a, b2n b, b2n c]
  | .dutyCycleReq d => if lt d 16 ∨ d.toNat = 255 then some [d.toNat] else none
  | .rxParamSetupReq f o r2 r1 =>
      match freqCode f with
      | some c => if lt r2 16 ∧ lt r1 8 then some [c, b2n o, r2.toNat, r1.toNat] else none
      | none => none
  | .devStatusAns b m => if -32 ≤ m.toInt ∧ m.toInt ≤ 31 then some [b.toNat, (m.toInt % 64).toNat] else none
  | .newChannelReq ch f mx mn =>
      match freqCodeNC f with
      | some c => if lt mx 16 ∧ lt mn 16 then some [ch.toNat, c, mx.toNat, mn.toNat] else none
      | none => none
  | .newChannelAns a b => some [b2n a, b2n b]
  | .rxTimingSetupReq d => if lt d 16 then some [d.toNat] else none
  | .txParamSetupReq dn up e =>
      if (dn = 0 ∨ dn = 1) ∧ (up = 0 ∨ up = 1) ∧ lt e 16 then some [dn.toNat, up.toNat, e.toNat] else none
  | .dlChannelReq ch f => match freqCode f with | some c => some [ch.toNat, c] | none => none
  | .dlChannelAns u c => some [b2n u, b2n c]
  | .pingSlotInfoReq p => if lt p 8 then some [p.toNat] else none
  | .beaconFreqReq f => match freqCode f with | some c => some [c] | none => none
  | .beaconFreqAns o | .rejoinParamSetupAns o => some [b2n o]
  | .pingSlotChannelReq f d => match freqCode f with | some c => (if lt d 16 then some [c, d.toNat] else none) | none => none
  | .pingSlotChannelAns d c => some [b2n d, b2n c]
  | .deviceTimeAns ns =>
      if 0 ≤ ns ∧ ns < 4294967296 * 1000000000 then some [(ns / 1000000000).toNat, (ns % 1000000000 / 3906250).toNat] else none
  | .adrParamSetupReq l d => if lt l 16 ∧ lt d 16 then some [l.toNat, d.toNat] else none
  | .forceRejoinReq p r t d =>
      if lt p 8 ∧ lt r 8 ∧ (t.toNat = 0 ∨ t.toNat = 2) ∧ lt d 16 then some [p.toNat, r.toNat, t.toNat, d.toNat] else none
  | .rejoinParamSetupReq t c => if lt t 16 ∧ lt c 16 then some [t.toNat, c.toNat] else none
  | .deviceModeInd c | .deviceModeConf c => some [c.toNat]
  | .proprietary _ => none

def n2b (n : Nat) : Bool := n != 0
def byteN (n : Nat) : Byte := BitVec.ofNat 8 n

/-- payload value denoted by specification field values -/
def ofFields : Kind → List Nat → Option MacP
  | .resetInd, [a] => some (.resetInd (byteN a))
  | .resetConf, [a] => some (.resetConf (byteN a))
  | .rekeyInd, [a] => some (.rekeyInd (byteN a))
  | .rekeyConf, [a] => some (.rekeyConf (byteN a))
  | .linkCheckAns, [a, b] => some (.linkCheckAns (byteN a) (byteN b))
  | .linkADRReq, [a, b, c, d, e] => some (.linkADRReq (byteN a) (byteN b) (BitVec.ofNat 16 c) (byteN d) (byteN e))
  | .linkADRAns, [a, b, c] => some (.linkADRAns (n2b a) (n2b b) (n2b c))
  | .dutyCycleReq, [a] => some (.dutyCycleReq (byteN a))
  | .rxParamSetupReq, [f, o, r2, r1] => some (.rxParamSetupReq (BitVec.ofNat 32 (f * 100)) (n2b o) (byteN r2) (byteN r1))
  | .rxParamSetupAns, [a, b, c] => some (.rxParamSetupAns (n2b a) (n2b b) (n2b c))
  | .devStatusAns, [b, m] => some (.devStatusAns (byteN b) (BitVec.ofInt 8 (if m ≥ 32 then (m : Int) - 64 else m)))
  | .newChannelReq, [ch, f, mx, mn] =>
      some (.newChannelReq (byteN ch) (BitVec.ofNat 32 (if f ≥ 12000000 then f * 200 else f * 100)) (byteN mx) (byteN mn))
  | .newChannelAns, [a, b] => some (.newChannelAns (n2b a) (n2b b))
  | .rxTimingSetupReq, [a] => some (.rxTimingSetupReq (byteN a))
  | .txParamSetupReq, [d, u, e] => some (.txParamSetupReq d u (byteN e))
  | .dlChannelReq, [ch, f] => some (.dlChannelReq (byteN ch) (BitVec.ofNat 32 (f * 100)))
  | .dlChannelAns, [u, c] => some (.dlChannelAns (n2b u) (n2b c))
  | .pingSlotInfoReq, [a] => some (.pingSlotInfoReq (byteN a))
  | .beaconFreqReq, [f] => some (.beaconFreqReq (BitVec.ofNat 32 (f * 100)))
  | .beaconFreqAns, [a] => some (.beaconFreqAns (n2b a))
  | .pingSlotChannelReq, [f, d] => some (.pingSlotChannelReq (BitVec.ofNat 32 (f * 100)) (byteN d))
  | .pingSlotChannelAns, [d, c] => some (.pingSlotChannelAns (n2b d) (n2b c))
  | .deviceTimeAns, [s, fr] => some (.deviceTimeAns ((s : Int) * 1000000000 + (fr : Int) * 3906250))
  | .adrParamSetupReq, [l, d] => some (.adrParamSetupReq (byteN l) (byteN d))
  | .forceRejoinReq, [p, r, t, d] => some (.forceRejoinReq (byteN p) (byteN r) (byteN t) (byteN d))
  | .rejoinParamSetupReq, [t, c] => some (.rejoinParamSetupReq (byteN t) (byteN c))
  | .rejoinParamSetupAns, [a] => some (.rejoinParamSetupAns (n2b a))
  | .deviceModeInd, [a] => some (.deviceModeInd (byteN a))
  | .deviceModeConf, [a] => some (.deviceModeConf (byteN a))
  | _, _ => none

/-- specification encoder: `none` iff the value is outside the specification's ranges -/
def enc (v : MacP) : Option Bytes :=
  match v with
  | .proprietary b => some b
  | _ => (toFields v).map (pack (layout v.kind).1 (layout v.kind).2)

/-- specification decoder (RFU bits are not looked at) -/
def dec (k : Kind) (bs : Bytes) : Option MacP :=
  match k with
  | .proprietary => some (.proprietary bs)
  | _ => if bs.length = (layout k).1 then ofFields k (unpack (layout k).2 bs) else none

/-- value as it can be represented on the wire (DeviceTimeAns: 1/256 s resolution) -/
def wireNorm : MacP → MacP
  | .deviceTimeAns ns => .deviceTimeAns (ns / 1000000000 * 1000000000 + ns % 1000000000 / 3906250 * 3906250)
  | v => v

/-- the specification's (CID, direction) table: CID, uplink kind, downlink kind (`none` = no payload / not defined) -/
def cidTable : List (Nat × Option Kind × Option Kind) :=
  [ (0x01, some .resetInd, some .resetConf), (0x02, none, some .linkCheckAns), (0x03, some .linkADRAns, some .linkADRReq),
    (0x04, none, some .dutyCycleReq), (0x05, some .rxParamSetupAns, some .rxParamSetupReq), (0x06, some .devStatusAns, none),
    (0x07, some .newChannelAns, some .newChannelReq), (0x08, none, some .rxTimingSetupReq), (0x09, none, some .txParamSetupReq),
    (0x0A, some .dlChannelAns, some .dlChannelReq), (0x0B, some .rekeyInd, some .rekeyConf), (0x0C, none, some .adrParamSetupReq),
    (0x0D, none, some .deviceTimeAns), (0x0E, none, some .forceRejoinReq), (0x0F, some .rejoinParamSetupAns, some .rejoinParamSetupReq),
    (0x10, some .pingSlotInfoReq, none), (0x11, some .pingSlotChannelAns, some .pingSlotChannelReq),
    (0x13, some .beaconFreqAns, some .beaconFreqReq), (0x20, some .deviceModeInd, some .deviceModeConf) ]

/-- the registry the specification prescribes (payload-carrying commands only) -/
def registry : Registry :=
  (cidTable.filterMap fun (c, _, d) => d.map fun k => ({ uplink := false, cid := c, size := (layout k).1, kind := k } : RegEntry)) ++
  (cidTable.filterMap fun (c, u, _) => u.map fun k => ({ uplink := true, cid := c, size := (layout k).1, kind := k } : RegEntry))

end LW.Spec
