/-
  LW.Spec.Layout — the wire layout of PHYPayload, MHDR, FHDR / FCtrl, join-request, join-accept, rejoin-requests and CFList
  (LoRaWAN 1.0.x / 1.1 sections 4 and 6.2), written like the MAC-command layouts of LW.Spec.Mac: every fixed part is ONE
  little-endian integer with fields at bit offsets, packed by the generic `pack`. No shifts, masks or per-byte code, and no use
  of the model's codec (FOpts / FRMPayload enter as the byte strings their own layouts give).
-/
import LW.Spec.Frame
namespace LW.Spec
open LW

/-! ## Frame-level layouts (LoRaWAN 1.0.x / 1.1 §4, §6.2): every fixed part is one little-endian integer with fields at bit
offsets — the same generic `pack` as the MAC-command layouts, no shifts, masks or per-byte code -/

/-- MHDR: MType[7:5] | RFU[4:2] | Major[1:0] -/
def mhdrLayout : List Field := [⟨5, 3⟩, ⟨0, 2⟩]
/-- FHDR without FOpts: DevAddr[31:0] | FCtrl (FOptsLen[35:32], FPending/ClassB[36], ACK[37], ADRACKReq[38], ADR[39]) | FCnt[55:40] -/
def fhdrLayout : List Field := [⟨0, 32⟩, ⟨32, 4⟩, ⟨36, 1⟩, ⟨37, 1⟩, ⟨38, 1⟩, ⟨39, 1⟩, ⟨40, 16⟩]
/-- join-request: JoinEUI | DevEUI | DevNonce -/
def joinReqLayout : List Field := [⟨0, 64⟩, ⟨64, 64⟩, ⟨128, 16⟩]
/-- join-accept without CFList: JoinNonce | NetID | DevAddr | DLSettings (RX2DR[83:80], RX1DROffset[86:84], OptNeg[87]) | RxDelay[91:88] -/
def joinAcceptLayout : List Field := [⟨0, 24⟩, ⟨24, 24⟩, ⟨48, 32⟩, ⟨80, 4⟩, ⟨84, 3⟩, ⟨87, 1⟩, ⟨88, 4⟩]
/-- rejoin-request type 0 / 2: RejoinType | NetID | DevEUI | RJcount0 -/
def rejoin02Layout : List Field := [⟨0, 8⟩, ⟨8, 24⟩, ⟨32, 64⟩, ⟨96, 16⟩]
/-- rejoin-request type 1: RejoinType | JoinEUI | DevEUI | RJcount1 -/
def rejoin1Layout : List Field := [⟨0, 8⟩, ⟨8, 64⟩, ⟨72, 64⟩, ⟨136, 16⟩]
/-- CFList of type 0: five frequencies in 100 Hz units, 24 bits each | CFListType[127:120] -/
def cfChannelsLayout : List Field := [⟨0, 24⟩, ⟨24, 24⟩, ⟨48, 24⟩, ⟨72, 24⟩, ⟨96, 24⟩, ⟨120, 8⟩]
/-- CFList of type 1: up to seven 16-bit channel masks | RFU | CFListType[127:120] -/
def cfMasksLayout : List Field := [⟨0, 16⟩, ⟨16, 16⟩, ⟨32, 16⟩, ⟨48, 16⟩, ⟨64, 16⟩, ⟨80, 16⟩, ⟨96, 16⟩, ⟨120, 8⟩]

def cfListBytes (l : CFList) : Option Bytes :=
  match l.payload with
  | .channels [f0, f1, f2, f3, f4] =>
    match freqCode f0, freqCode f1, freqCode f2, freqCode f3, freqCode f4 with
    | some c0, some c1, some c2, some c3, some c4 => some (pack 16 cfChannelsLayout [c0, c1, c2, c3, c4, l.typ.toNat])
    | _, _, _, _, _ => none
  | .channels _ => none
  | .masks ms =>
    if ms.length ≤ 6 then
      match (ms.map BitVec.toNat ++ List.replicate 7 0).take 7 with
      | [m0, m1, m2, m3, m4, m5, m6] => some (pack 16 cfMasksLayout [m0, m1, m2, m3, m4, m5, m6, l.typ.toNat])
      | _ => none
    else none

/-- MACPayload: FHDR | FOpts | FPort | FRMPayload -/
def macPayloadBytes (devAddr : BitVec 32) (adr adrAckReq ack pending : Bool) (fCnt : BitVec 32) (fOpts : Bytes) (fPort : Option Byte) (frm : Bytes) : Bytes :=
  pack 7 fhdrLayout [devAddr.toNat, fOpts.length, b2n pending, b2n ack, b2n adrAckReq, b2n adr, fCnt.toNat] ++ fOpts ++
    (match fPort with | some p => p :: frm | none => [])

/-- the bytes of MHDR | MACPayload-or-join-payload, from the frame's field values; `none` outside the specification's ranges -/
def payloadBytes : MacPL → Option Bytes
  | .mac h fPort frm =>
    -- FOpts and FRMPayload are byte strings at this level (their content is the subject of the MAC-command layouts)
    match encItems h.fOpts, frmEnc fPort frm with
    | .ok ob, .ok fb =>
      if ob.length ≤ 15 ∧ (fPort = none → frm.length = 0) ∧ (fPort = some 0 → h.fOpts.length = 0) then
        some (macPayloadBytes h.devAddr h.fCtrl.adr h.fCtrl.adrAckReq h.fCtrl.ack (h.fCtrl.classB || h.fCtrl.fPending) h.fCnt ob fPort fb)
      else none
    | _, _ => none
  | .joinReq j d n => some (pack 18 joinReqLayout [j.toNat, d.toNat, n.toNat])
  | .joinAccept ja =>
    if ja.joinNonce.toNat < 2 ^ 24 ∧ ja.rx2dr.toNat ≤ 15 ∧ ja.rx1off.toNat ≤ 7 ∧ ja.rxDelay.toNat ≤ 15 then
      let base := pack 12 joinAcceptLayout [ja.joinNonce.toNat, ja.homeNetID.toNat, ja.devAddr.toNat, ja.rx2dr.toNat, ja.rx1off.toNat, b2n ja.optNeg, ja.rxDelay.toNat]
      match ja.cfList with
      | none => some base
      | some l => (cfListBytes l).map (base ++ ·)
    else none
  | .rejoin02 t n d c => if t.toNat = 0 ∨ t.toNat = 2 then some (pack 14 rejoin02Layout [t.toNat, n.toNat, d.toNat, c.toNat]) else none
  | .rejoin1 t j d c => if t.toNat = 1 then some (pack 19 rejoin1Layout [t.toNat, j.toNat, d.toNat, c.toNat]) else none
  | .data b => some b

/-- PHYPayload: MHDR | payload | MIC -/
def frameBytes (f : PHY) : Option Bytes :=
  match f.payload with
  | none => none
  | some pl =>
    if f.mtype.toNat ≤ 7 ∧ f.major.toNat ≤ 3 then
      (payloadBytes pl).map fun b => pack 1 mhdrLayout [f.mtype.toNat, f.major.toNat] ++ b ++ f.mic
    else none

end LW.Spec
