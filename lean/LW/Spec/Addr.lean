/-
  LW.Spec.Addr — LoRaWAN addressing rules (DESIGN.md appendix A.5), arithmetic on natural numbers:
  a DevAddr of type t is  1^t 0 | NwkID (w_t bits) | NwkAddr (31 - t - w_t bits).
-/
namespace LW.Spec

/-- NwkID width per type -/
def nwkIDWidth : Nat → Nat
  | 0 => 6 | 1 => 6 | 2 => 9 | 3 => 11 | 4 => 12 | 5 => 13 | 6 => 15 | _ => 17

/-- ID width of a NetID per type -/
def netIDWidth : Nat → Nat
  | 0 => 6 | 1 => 6 | 2 => 9 | _ => 21

/-- NetID type: the top 3 of its 24 bits -/
def netIDTypeOf (netid : Nat) : Nat := netid / 2 ^ 21 % 8

def netIDIdOf (netid : Nat) : Nat := netid % 2 ^ netIDWidth (netIDTypeOf netid)

/-- the address prefix of type t: t ones followed by a zero -/
def typePrefix (t : Nat) : Nat := 2 ^ (t + 1) - 2

/-- the address obtained by giving `a` the prefix of `netid` -/
def addrWithPrefix (netid a : Nat) : Nat :=
  let t := netIDTypeOf netid
  let w := nwkIDWidth t
  let rest := 31 - t - w
  typePrefix t * 2 ^ (31 - t) + (netIDIdOf netid % 2 ^ w) * 2 ^ rest + a % 2 ^ rest

/-- type of an address: number of leading ones (0..7), none for 0xFF...... -/
def addrType (a : Nat) : Option Nat :=
  (List.range 8).find? (fun k => a / 2 ^ (31 - k) % 2 == 0)

def addrNwkID (a : Nat) (t : Nat) : Nat := a / 2 ^ (31 - t - nwkIDWidth t) % 2 ^ nwkIDWidth t

/-- membership: the address carries the NetID's type prefix and NwkID -/
def addrInNetID (netid a : Nat) : Bool :=
  let t := netIDTypeOf netid
  addrType a == some t && addrNwkID a t == netIDIdOf netid % 2 ^ nwkIDWidth t

/-- Bit i (0 = least significant) of the address obtained by giving address bits `a` the prefix of a NetID with bits `n`:
untouched NwkAddr below, then the low w_t bits of the NetID's ID field, then the type prefix 1^t 0 on top. -/
def addrBit (n : Nat → Bool) (t : Nat) (a : Nat → Bool) (i : Nat) : Bool :=
  let w := nwkIDWidth t
  if i < 31 - t - w then a i
  else if i < 31 - t then (n (i - (31 - t - w)) && decide (i - (31 - t - w) < netIDWidth t))
  else decide (i ≠ 31 - t)

end LW.Spec
