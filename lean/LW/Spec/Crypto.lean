/-
  LW.Spec.Crypto — LoRaWAN 1.0.x / 1.1 MIC, payload-encryption and join-accept-encryption definitions, written from
  the specification text (DESIGN.md appendix A.3) as literal block layouts over an arbitrary block cipher.
-/
import LW.Crypto.CMAC
import LW.Model.Frame
namespace LW.Spec
open LW

/-- B0 = 0x49 | ConfFCnt(2) | 0x0000 | Dir | DevAddr(4, LE) | FCnt(4, LE) | 0x00 | len(msg) -/
def B0 (confFCnt : Nat) (dir : Byte) (devAddr fCnt : BitVec 32) (len : Nat) : Bytes :=
  [0x49#8] ++ leBytes 2 confFCnt ++ [0#8, 0#8] ++ [dir] ++ leBytes 4 devAddr.toNat ++ leBytes 4 fCnt.toNat ++ [0#8, byteOfNat len]

/-- B1 = 0x49 | ConfFCnt(2) | TxDr | TxCh | Dir=0x00 | DevAddr(4) | FCntUp(4) | 0x00 | len(msg) -/
def B1 (confFCnt : Nat) (txDr txCh : Byte) (devAddr fCnt : BitVec 32) (len : Nat) : Bytes :=
  [0x49#8] ++ leBytes 2 confFCnt ++ [txDr, txCh] ++ [0#8] ++ leBytes 4 devAddr.toNat ++ leBytes 4 fCnt.toNat ++ [0#8, byteOfNat len]

/-- uplink data MIC over `msg = MHDR | FHDR | FPort | FRMPayload`.
1.0: cmac(NwkSKey, B0 | msg)[0..3]; 1.1: cmacS[0..1] | cmacF[0..1], ConfFCnt (mod 2^16) only when ACK is set. -/
def micUp (E : BlockCipher) (v11 : Bool) (confFCnt : BitVec 32) (txDr txCh : Byte) (fNwkSIntKey sNwkSIntKey : Bytes)
    (devAddr fCnt : BitVec 32) (ack : Bool) (msg : Bytes) : Bytes :=
  let cmacF := cmac (E.enc fNwkSIntKey) (B0 0 0#8 devAddr fCnt msg.length ++ msg)
  if !v11 then cmacF.take 4
  else
    let conf := if ack then confFCnt.toNat % 65536 else 0
    let cmacS := cmac (E.enc sNwkSIntKey) (B1 conf txDr txCh devAddr fCnt msg.length ++ msg)
    cmacS.take 2 ++ cmacF.take 2

/-- downlink data MIC: cmac(SNwkSIntKey, B0 | msg)[0..3], Dir = 1, ConfFCnt only in 1.1 and only when ACK is set -/
def micDown (E : BlockCipher) (v11 : Bool) (confFCnt : BitVec 32) (key : Bytes)
    (devAddr fCnt : BitVec 32) (ack : Bool) (msg : Bytes) : Bytes :=
  let conf := if v11 && ack then confFCnt.toNat % 65536 else 0
  (cmac (E.enc key) (B0 conf 1#8 devAddr fCnt msg.length ++ msg)).take 4

/-- A_i = 0x01 | 4 × 0x00 | Dir | DevAddr(4) | FCnt(4) | 0x00 | i -/
def Ablock (dir : Byte) (devAddr fCnt : BitVec 32) (i : Nat) : Bytes :=
  [0x01#8, 0#8, 0#8, 0#8, 0#8] ++ [dir] ++ leBytes 4 devAddr.toNat ++ leBytes 4 fCnt.toNat ++ [0#8, byteOfNat i]

/-- keystream S = S_1 | S_2 | … | S_k with S_i = aes128_encrypt(K, A_i) -/
def keystream (E : BlockCipher) (key : Bytes) (dir : Byte) (devAddr fCnt : BitVec 32) : Nat → Nat → Bytes
  | 0, _ => []
  | k+1, i => E.enc key (Ablock dir devAddr fCnt i) ++ keystream E key dir devAddr fCnt k (i + 1)

def dirByte (uplink : Bool) : Byte := if uplink then 0#8 else 1#8

/-- FRMPayload encryption: payload ⊕ keystream truncated to the payload length, k = ⌈len/16⌉ blocks, i = 1..k -/
def cryptFRM (E : BlockCipher) (key : Bytes) (uplink : Bool) (devAddr fCnt : BitVec 32) (data : Bytes) : Bytes :=
  xorBytes data (keystream E key (dirByte uplink) devAddr fCnt ((data.length + 15) / 16) 1)

/-- FOpts encryption (1.1, erratum form): A = 0x01 | 0x000000 | t | Dir | DevAddr | FCnt | 0x00 | 0x01,
t = 0x01 (FCntUp / NFCntDown) or 0x02 (AFCntDown) -/
def AFopts (aFCntDown uplink : Bool) (devAddr fCnt : BitVec 32) : Bytes :=
  [0x01#8, 0#8, 0#8, 0#8] ++ [if aFCntDown then 0x02#8 else 0x01#8] ++ [dirByte uplink] ++ leBytes 4 devAddr.toNat ++ leBytes 4 fCnt.toNat ++ [0#8, 0x01#8]

/-- the AFCntDown variant is used exactly for downlinks carrying an application port (FPort > 0) -/
def useAFCntDown (uplink : Bool) (fPort : Option Byte) : Bool :=
  match fPort with
  | some x => !uplink && decide (x.toNat > 0)
  | none => false

def cryptFOpts (E : BlockCipher) (key : Bytes) (aFCntDown uplink : Bool) (devAddr fCnt : BitVec 32) (data : Bytes) : Bytes :=
  xorBytes data (E.enc key (AFopts aFCntDown uplink devAddr fCnt))

/-- join-request / rejoin-request MIC = cmac(key, MHDR | payload)[0..3] -/
def micJoin (E : BlockCipher) (key : Bytes) (mhdr : Byte) (payload : Bytes) : Bytes :=
  (cmac (E.enc key) (mhdr :: payload)).take 4

/-- join-accept MIC: 1.0 form over MHDR | payload; with OptNeg the 1.1 form additionally covers JoinReqType | JoinEUI | DevNonce -/
def micJoinAccept (E : BlockCipher) (key : Bytes) (optNeg : Bool) (joinReqType : Byte) (joinEUI : BitVec 64) (devNonce : BitVec 16)
    (mhdr : Byte) (payload : Bytes) : Bytes :=
  let pre : Bytes := if optNeg then [joinReqType] ++ leBytes 8 joinEUI.toNat ++ leBytes 2 devNonce.toNat else []
  (cmac (E.enc key) (pre ++ [mhdr] ++ payload)).take 4

/-- 16-byte blocks of a byte string -/
def blocks : Nat → Bytes → List Bytes
  | 0, _ => []
  | n+1, d => d.take 16 :: blocks n (d.drop 16)

/-- join-accept encryption: aes128_decrypt in ECB over payload | MIC (so that the device uses aes128_encrypt) -/
def encryptJoinAccept (E : BlockCipher) (key : Bytes) (payloadAndMIC : Bytes) : Bytes :=
  ((blocks (payloadAndMIC.length / 16) payloadAndMIC).map (E.dec key)).flatten

/-- what the end-device does -/
def deviceDecryptJoinAccept (E : BlockCipher) (key : Bytes) (ct : Bytes) : Bytes :=
  ((blocks (ct.length / 16) ct).map (E.enc key)).flatten

end LW.Spec
