/-
  LW.Spec.Regional — rules of the LoRaWAN Regional Parameters (RP002) that C12 / C13 compare the band tables with,
  written as formulas (DESIGN.md appendix A.6), independently of the tables in /repo/band.
  Cells marked `pinned` could not be recalled with confidence and only freeze the reviewed value.
-/
import LW.Model.Band
namespace LW.Spec
open LW

/-- RX1 channel rule: same channel, or uplink index modulo 8 (US915, AU915) / 48 (CN470) -/
def rx1ChannelRule (f : Family) (i : Int) : Int :=
  match f with
  | .us915 | .au915 => i % 8
  | .cn470 => i % 48
  | _ => i

/-- frequency of downlink channel k in the regions with a separate downlink plan -/
def downlinkPlanFreq (f : Family) (k : Nat) : Option Nat :=
  match f with
  | .us915 | .au915 => if k < 8 then some (923300000 + 600000 * k) else none
  | .cn470 => if k < 48 then some (500300000 + 200000 * k) else none
  | _ => none

def clamp (lo hi x : Int) : Int := if x < lo then lo else if x > hi then hi else x

/-- effective offset of AS923 / IN865: 0..5, then -1, -2 -/
def effOffset (off : Int) : Option Int := ([0, 1, 2, 3, 4, 5, -1, -2] : List Int)[off.toNat]?

/-- RX1 data-rate rule where the region defines one (`none` = the region defines nothing for this pair) -/
def rx1DRRule (f : Family) (dwell : Nat) (dr off : Int) : Option Int :=
  if dr < 0 ∨ off < 0 then none else
  match f with
  | .eu868 =>
      if off > 5 then none
      else if dr ≤ 7 then some (max (dr - off) 0)
      else if dr = 8 ∨ dr = 10 then some (max (1 - off) 0)       -- LR-FHSS 137 kHz / 336 kHz CR1/3
      else if dr = 9 ∨ dr = 11 then some (max (2 - off) 0)       -- LR-FHSS CR2/3
      else none
  | .cn779 | .eu433 | .ru864 | .ism2400 => if off > 5 ∨ dr > 7 then none else some (max (dr - off) 0)
  | .cn470 | .kr920 => if off > 5 ∨ dr > 5 then none else some (max (dr - off) 0)
  | .us915 =>
      if off > 3 then none
      else if dr ≤ 4 then some (clamp 8 13 (dr + 10 - off))
      else if dr = 5 then some (clamp 8 13 (0 + 10 - off))        -- LR-FHSS: as DR0
      else if dr = 6 then some (clamp 8 13 (1 + 10 - off))        -- LR-FHSS: as DR1
      else none
  | .au915 =>
      if off > 5 then none
      else if dr ≤ 6 then some (clamp 8 13 (dr + 8 - off))
      else if dr = 7 then some (clamp 8 13 (1 + 8 - off))         -- LR-FHSS
      else none
  | .as923 =>
      if dr > 7 then none else
      match effOffset off with
      | some e => some (clamp (if dwell == 1 then 2 else 0) 5 (dr - e))
      | none => none
  | .in865 =>
      if dr > 7 ∨ dr = 6 then none else
      match effOffset off with
      | some e =>
        if dr = 7 then some (if e ≤ 0 then 7 else if e = 1 then 5 else clamp 0 5 (7 - e))   -- RP002 row of DR7: 7,5,5,4,3,2,7,7 (DR6 is RFU)
        else some (clamp 0 5 (dr - e))
      | none => none

/-- the offsets over which the RX1 data-rate must fall monotonically (the region's positive offsets) -/
def positiveOffsets (f : Family) : List Int :=
  match f with
  | .us915 => [0, 1, 2, 3]
  | _ => [0, 1, 2, 3, 4, 5]

/-- fixed ping-slot frequency per region (`none`: the region hops over its downlink channels) -/
def pingSlotFixed (name : String) : Option Nat :=
  match name with
  | "EU868" => some 869525000 | "CN779" => some 785000000 | "EU433" => some 434665000
  | "AS923" => some 923400000 | "AS923-2" => some 921600000 | "AS923-3" => some 916800000 | "AS923-4" => some 917500000
  | "KR920" => some 923100000 | "IN865" => some 866550000 | "RU864" => some 868900000 | "ISM2400" => some 2424000000
  | _ => none

/-- hopping regions: downlink channel index = (DevAddr + ⌊beacon time / 128 s⌋) mod 8 -/
def pingSlotChannel (devAddr : Nat) (beaconNs : Int) : Int := ((devAddr : Int) + beaconNs / 128000000000) % 8

def cn470PingFreq (k : Nat) : Nat := 508300000 + 200000 * k

/-! ### C13: defaults per region -/

structure RegionDefaults where
  upFreqs : List Nat          -- default uplink channel frequencies (a generator for the big plans)
  rx2Freq : Nat
  rx2DR : Int
  txPowerSteps : Nat          -- number of TX power entries 0, -2, -4, …
  deriving Repr

def us915Up : List Nat := (List.range 64).map (fun k => 902300000 + 200000 * k) ++ (List.range 8).map (fun k => 903000000 + 1600000 * k)
def au915Up : List Nat := (List.range 64).map (fun k => 915200000 + 200000 * k) ++ (List.range 8).map (fun k => 915900000 + 1600000 * k)
def cn470Up : List Nat := (List.range 96).map (fun k => 470300000 + 200000 * k)

def as923Offset (name : String) : Int :=
  match name with | "AS923-2" => -1800000 | "AS923-3" => -6600000 | "AS923-4" => -5900000 | _ => 0

def regionDefaults (name : String) : Option RegionDefaults :=
  match name with
  | "EU868" => some ⟨[868100000, 868300000, 868500000], 869525000, 0, 8⟩
  | "US915" => some ⟨us915Up, 923300000, 8, 11⟩           -- txPowerSteps pinned (LoRaWAN 1.0.x: TXPower 0..10)
  | "AU915" => some ⟨au915Up, 923300000, 8, 15⟩           -- txPowerSteps pinned
  | "CN470" => some ⟨cn470Up, 505300000, 0, 8⟩
  | "CN779" => some ⟨[779500000, 779700000, 779900000], 786000000, 0, 6⟩
  | "EU433" => some ⟨[433175000, 433375000, 433575000], 434665000, 0, 6⟩
  | "KR920" => some ⟨[922100000, 922300000, 922500000], 921900000, 0, 8⟩
  | "IN865" => some ⟨[865062500, 865402500, 865985000], 866550000, 2, 11⟩   -- txPowerSteps pinned
  | "RU864" => some ⟨[868900000, 869100000], 869100000, 0, 8⟩
  | "ISM2400" => some ⟨[2403000000, 2425000000, 2479000000], 2423000000, 0, 8⟩
  | "AS923" | "AS923-2" | "AS923-3" | "AS923-4" =>
      let o := as923Offset name
      some ⟨[((923200000 : Int) + o).toNat, ((923400000 : Int) + o).toNat], ((923200000 : Int) + o).toNat, 2, 8⟩
  | _ => none

/-- LoRa data-rate definitions (SF, BW kHz) per region for the indices that are plain LoRa; FSK / LR-FHSS rows are
compared by modulation only -/
def loraDR (f : Family) (dr : Int) : Option (Int × Int) :=
  match f with
  | .eu868 | .cn779 | .eu433 | .ru864 =>
      match dr with | 0 => some (12, 125) | 1 => some (11, 125) | 2 => some (10, 125) | 3 => some (9, 125) | 4 => some (8, 125) | 5 => some (7, 125) | 6 => some (7, 250) | _ => none
  | .kr920 | .in865 =>
      match dr with | 0 => some (12, 125) | 1 => some (11, 125) | 2 => some (10, 125) | 3 => some (9, 125) | 4 => some (8, 125) | 5 => some (7, 125) | _ => none
  | .cn470 =>   -- DR6 (SF7 / 500 kHz) pinned
      match dr with | 0 => some (12, 125) | 1 => some (11, 125) | 2 => some (10, 125) | 3 => some (9, 125) | 4 => some (8, 125) | 5 => some (7, 125) | 6 => some (7, 500) | _ => none
  | .as923 =>
      match dr with | 0 => some (12, 125) | 1 => some (11, 125) | 2 => some (10, 125) | 3 => some (9, 125) | 4 => some (8, 125) | 5 => some (7, 125) | 6 => some (7, 250) | _ => none
  | .us915 =>
      match dr with | 0 => some (10, 125) | 1 => some (9, 125) | 2 => some (8, 125) | 3 => some (7, 125) | 4 => some (8, 500)
                    | 8 => some (12, 500) | 9 => some (11, 500) | 10 => some (10, 500) | 11 => some (9, 500) | 12 => some (8, 500) | 13 => some (7, 500) | _ => none
  | .au915 =>
      match dr with | 0 => some (12, 125) | 1 => some (11, 125) | 2 => some (10, 125) | 3 => some (9, 125) | 4 => some (8, 125) | 5 => some (7, 125) | 6 => some (8, 500)
                    | 8 => some (12, 500) | 9 => some (11, 500) | 10 => some (10, 500) | 11 => some (9, 500) | 12 => some (8, 500) | 13 => some (7, 500) | _ => none
  | .ism2400 =>
      match dr with | 0 => some (12, 812) | 1 => some (11, 812) | 2 => some (10, 812) | 3 => some (9, 812) | 4 => some (8, 812) | 5 => some (7, 812) | 6 => some (6, 812) | 7 => some (5, 812) | _ => none

end LW.Spec
