/-
  LW.Spec.Backend — RFC 3394 (AES key wrap) as the RFC states it, for any number n of 64-bit blocks,
  written with indexed registers; independent of LW.Model.Backend (which mirrors go-aes-key-wrap for n = 2).
-/
import LW.Basic
import LW.Crypto.CMAC
namespace LW.Spec.Backend
open LW

def iv : Bytes := List.replicate 8 0xA6#8

/-- 64-bit big-endian encoding of t -/
def be64 (t : Nat) : Bytes := (List.range 8).map (fun i => byteOfNat (t / 256 ^ (7 - i) % 256))

/-- split into 8-byte blocks -/
def blocks : Nat → Bytes → List Bytes
  | 0, _ => []
  | n+1, b => b.take 8 :: blocks n (b.drop 8)

/-- inner loop of §2.2.1 step 2: for i = 1..n -/
def wrapInner (enc : Bytes → Bytes) (n j : Nat) : Nat → Bytes × List Bytes → Bytes × List Bytes
  | 0, s => s
  | fuel+1, (a, r) =>
    let i := n - fuel            -- 1-based register index
    let b := enc (a ++ r.getD (i - 1) [])
    wrapInner enc n j fuel (xorBytes (b.take 8) (be64 (n * j + i)), r.set (i - 1) (b.drop 8))

/-- outer loop: for j = 0..5 -/
def wrapOuter (enc : Bytes → Bytes) (n : Nat) : Nat → Bytes × List Bytes → Bytes × List Bytes
  | 0, s => s
  | fuel+1, s => wrapOuter enc n fuel (wrapInner enc n (6 - (fuel + 1)) n s)

/-- §2.2.1: C = A | R[1] | … | R[n] -/
def wrap (enc : Bytes → Bytes) (p : Bytes) : Bytes :=
  let n := p.length / 8
  let (a, r) := wrapOuter enc n 6 (iv, blocks n p)
  a ++ r.flatten

/-- inner loop of §2.2.2 step 2: for i = n..1 -/
def unwrapInner (dec : Bytes → Bytes) (n j : Nat) : Nat → Bytes × List Bytes → Bytes × List Bytes
  | 0, s => s
  | i+1, (a, r) =>
    let b := dec (xorBytes a (be64 (n * j + (i + 1))) ++ r.getD i [])
    unwrapInner dec n j i (b.take 8, r.set i (b.drop 8))

/-- outer loop: for j = 5..0 -/
def unwrapOuter (dec : Bytes → Bytes) (n : Nat) : Nat → Bytes × List Bytes → Bytes × List Bytes
  | 0, s => s
  | j+1, s => unwrapOuter dec n j (unwrapInner dec n j n s)

/-- §2.2.2: the plaintext if the integrity check A = IV passes -/
def unwrap (dec : Bytes → Bytes) (c : Bytes) : Option Bytes :=
  let n := c.length / 8 - 1
  let (a, r) := unwrapOuter dec n 6 (c.take 8, blocks n (c.drop 8))
  if a == iv then some r.flatten else none

end LW.Spec.Backend
