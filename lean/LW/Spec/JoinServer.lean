/-
  LW.Spec.JoinServer — the requesting end-device and the network / application servers, written from the LoRaWAN 1.0.x / 1.1
  specifications and the Backend Interfaces document, independently of the join-server code:
  what the device does with the join-accept it receives, and which session keys it derives.
-/
import LW.Spec.Crypto
import LW.Spec.Backend
namespace LW.Spec.JS
open LW

/-- JSIntKey = aes128_encrypt(NwkKey, 0x06 | DevEUI | pad16), JSEncKey with 0x05 (LoRaWAN 1.1 §6.1.1.4) -/
def jsIntKey (E : BlockCipher) (nwkKey : Bytes) (devEUI : BitVec 64) : Bytes := E.enc nwkKey (0x06#8 :: (leBytes 8 devEUI.toNat ++ List.replicate 7 0))
def jsEncKey (E : BlockCipher) (nwkKey : Bytes) (devEUI : BitVec 64) : Bytes := E.enc nwkKey (0x05#8 :: (leBytes 8 devEUI.toNat ++ List.replicate 7 0))

/-- LoRaWAN 1.1 §6.2.5 (OptNeg set): key = aes128_encrypt(root, type | JoinNonce | JoinEUI | DevNonce | pad16) -/
def skey11 (E : BlockCipher) (typ : Byte) (root : Bytes) (joinNonce : Nat) (joinEUI : BitVec 64) (devNonce : BitVec 16) : Bytes :=
  E.enc root (typ :: (leBytes 3 joinNonce ++ leBytes 8 joinEUI.toNat ++ leBytes 2 devNonce.toNat ++ List.replicate 2 0))

/-- LoRaWAN 1.0.x §6.2.5 (OptNeg unset): key = aes128_encrypt(AppKey, type | AppNonce | NetID | DevNonce | pad16) -/
def skey10 (E : BlockCipher) (typ : Byte) (root : Bytes) (appNonce : Nat) (netID : BitVec 24) (devNonce : BitVec 16) : Bytes :=
  E.enc root (typ :: (leBytes 3 appNonce ++ leBytes 3 netID.toNat ++ leBytes 2 devNonce.toNat ++ List.replicate 7 0))

/-- join-accept payload: JoinNonce | Home_NetID | DevAddr | DLSettings | RxDelay | [CFList] (all little-endian) -/
def joinAcceptBytes (joinNonce : Nat) (netID : BitVec 24) (devAddr : BitVec 32) (optNeg : Bool) (rx2dr rx1off rxDelay : Nat) (cfList : Bytes) : Bytes :=
  leBytes 3 joinNonce ++ leBytes 3 netID.toNat ++ leBytes 4 devAddr.toNat ++
    [byteOfNat ((if optNeg then 128 else 0) + rx1off * 16 + rx2dr), byteOfNat rxDelay] ++ cfList

/-- the device receives `frame` in answer to its (re)join-request: decrypt with aes128_encrypt under NwkKey (join-request)
or JSEncKey (rejoin-request), then check the MIC (JSIntKey and the 1.1 form when the OptNeg bit of the received
DLSettings is set, NwkKey and the 1.0 form otherwise). Returns the join-accept payload and whether the MIC is accepted. -/
def deviceReceive (E : BlockCipher) (nwkKey : Bytes) (devEUI joinEUI : BitVec 64) (devNonce : BitVec 16) (joinReqType : Byte)
    (rejoin : Bool) (frame : Bytes) : Option (Bytes × Bool) :=
  match frame with
  | [] => none
  | mhdr :: ct =>
    if ct.length % 16 != 0 || ct.length < 16 then none else
    let pt := Spec.deviceDecryptJoinAccept E (if rejoin then jsEncKey E nwkKey devEUI else nwkKey) ct
    let payload := pt.take (pt.length - 4)
    let mic := pt.drop (pt.length - 4)
    let optNeg := (payload.getD 10 0).getLsbD 7
    let key := if optNeg then jsIntKey E nwkKey devEUI else nwkKey
    some (payload, mic == Spec.micJoinAccept E key optNeg joinReqType joinEUI devNonce mhdr payload)

/-- the network / application server receives a key envelope: unwrap with its KEK when a label is present -/
def unwrapEnvelope (E : BlockCipher) (kek : Bytes) (label : Bool) (aesKey : Bytes) : Option Bytes :=
  if label then (if aesKey.length == 24 then Spec.Backend.unwrap (E.dec kek) aesKey else none) else some aesKey

end LW.Spec.JS
