/-
  LW.Spec.BandChecks — the clauses of C12 / C13 as computable enumerators of violating cells over a band configuration.
  `… cfg = []` is the per-run obligation on the regenerated data; when it fails the driver simply runs the enumerator
  and the check confirms each reported cell on the real accessor.
-/
import LW.Spec.Regional
namespace LW.Spec
open LW

def defined (c : BandCfg) (dr : Int) : Option DataRate := lookupInt c.dataRates dr
def definedDown (c : BandCfg) (dr : Int) : Bool := match defined c dr with | some d => d.downlink | none => false
def definedUp (c : BandCfg) (dr : Int) : Bool := match defined c dr with | some d => d.uplink | none => false

def drRange : List Int := intRange (-2) 16
def offRange : List Int := intRange (-2) 9

/-- C12 RX1 channel clause: violating uplink channel indices -/
def rx1ChanViolations (c : BandCfg) : List Int :=
  let b := c.init
  (intRange 0 ((c.up.length : Int) - 1)).filter fun i =>
    match b.rx1ChannelIndex i, b.getUplinkChannel i with
    | .ok r, .ok u =>
      !(r == rx1ChannelRule c.family i &&
        (match b.getDownlinkChannel r, b.rx1Frequency u.freq with
         | .ok d, .ok f => f == d.freq &&
            (match downlinkPlanFreq c.family r.toNat with
             | some pf => d.freq == pf
             | none => d.freq == u.freq)
         | _, _ => false))
    | _, _ => true

/-- C12 RX1 data-rate clauses: violating (uplink DR, offset, clause) cells -/
def rx1DRViolations (c : BandCfg) : List (Int × Int × String) :=
  drRange.flatMap fun dr => offRange.filterMap fun off =>
    match c.getRX1DR dr off with
    | .panic => some (dr, off, "panic")
    | .ok r =>
      if !definedDown c r then some (dr, off, "result-not-a-downlink-dr")
      else match rx1DRRule c.family c.dwell dr off with
        | some x => if r == x then none else some (dr, off, "differs-from-region-rule")
        | none => none
    | .err =>
      match rx1DRRule c.family c.dwell dr off with
      | some _ => if definedUp c dr then some (dr, off, "rejects-pair-the-region-defines") else none
      | none => none

/-- number of defined downlink data-rates d with lo < d < hi -/
def downBetween (c : BandCfg) (lo hi : Int) : Nat :=
  (c.dataRates.filter fun (i, d) => d.downlink && lo < i && i < hi).length

/-- C12 monotonicity over the region's positive offsets: never increases, at most one defined downlink DR per step -/
def rx1MonoViolations (c : BandCfg) : List (Int × Int) :=
  (c.dataRates.filter (·.2.uplink)).flatMap fun (dr, _) =>
    let offs := positiveOffsets c.family
    (offs.zip (offs.drop 1)).filterMap fun (o0, o1) =>
      match c.getRX1DR dr o0, c.getRX1DR dr o1 with
      | .ok r0, .ok r1 => if r1 ≤ r0 && downBetween c r1 r0 == 0 then none else some (dr, o1)
      | _, _ => none

/-- C12 ping-slot data clause: fixed frequency, or the 8 hopping channels -/
def pingViolations (c : BandCfg) : List String :=
  match pingSlotFixed c.name with
  | some f => if c.pingFixed == f then [] else ["fixed-frequency"]
  | none =>
    match c.family with
    | .us915 | .au915 =>
      if (List.range 8).all (fun k => (c.down[k]?).map (·.freq) == downlinkPlanFreq c.family k) then [] else ["hopping-channels"]
    | .cn470 => if (List.range 8).all (fun k => cn470PingSlots[k]? == some (cn470PingFreq k)) then [] else ["hopping-channels"]
    | _ => ["no-rule"]

/-! ### C13 -/

/-- closure: every data-rate the band refers to is defined -/
def closureViolations (c : BandCfg) : List String :=
  let b := c.init
  (c.up.flatMap fun ch => (intRange ch.minDR ch.maxDR).filterMap fun d => if definedUp c d then none else some s!"uplink-channel-range-dr-{d}") ++
  (c.down.flatMap fun ch => (intRange ch.minDR ch.maxDR).filterMap fun d => if (defined c d).isSome then none else some s!"downlink-channel-range-dr-{d}") ++
  (if definedDown c c.rx2DR then [] else [s!"rx2-default-dr-{c.rx2DR}"]) ++
  (b.enabledUplinkDataRates.filterMap fun d => if definedUp c d then none else some s!"enabled-uplink-dr-{d}") ++
  (c.rx1Table.flatMap fun (_, row) => row.filterMap fun r => if definedDown c r then none else some s!"rx1-result-{r}")

/-- looking a defined data-rate up by its parameters in a direction it supports returns its index -/
def lookupViolations (c : BandCfg) : List (Int × Bool) :=
  c.dataRates.flatMap fun (i, d) =>
    (if d.uplink then (match c.getDataRateIndex true d with | .ok j => if j == i then [] else [(i, true)] | _ => [(i, true)]) else []) ++
    (if d.downlink then (match c.getDataRateIndex false d with | .ok j => if j == i then [] else [(i, false)] | _ => [(i, false)]) else [])

/-- parameters identify at most one data-rate per direction (justifies modelling Go's random map iteration by a scan) -/
def ambiguousParams (c : BandCfg) : List (Int × Int) :=
  c.dataRates.flatMap fun (i, d) => c.dataRates.filterMap fun (j, e) =>
    if i < j && drParamsEq d e && ((d.uplink && e.uplink) || (d.downlink && e.downlink)) then some (i, j) else none

/-- latest-fallback completeness, and unknown version / revision resolve to the latest table -/
def latestViolations (c : BandCfg) : List (Int × String) :=
  c.dataRates.flatMap fun (i, _) =>
    (match c.getMaxPayload keyLatest keyLatest i with | .ok _ => [] | _ => [(i, "no-size-under-latest")]) ++
    (if c.getMaxPayload 99 99 i == c.getMaxPayload keyLatest keyLatest i then [] else [(i, "unknown-does-not-resolve-to-latest")])

def allCells (c : BandCfg) : List (Nat × Nat × Int × Int × Int) :=
  c.maxPayload.flatMap fun (v, revs) => revs.flatMap fun (r, cells) => cells.map fun (d, m, n) => (v, r, d, m, n)

/-- keys by kind (indices into `payloadKeys`): a protocol version (or "latest") / a regional-parameters revision (or "latest") -/
def isVersionKey (k : Nat) : Bool := k ≤ keyLatest
def isRevisionKey (k : Nat) : Bool := k ≥ keyLatest && k < payloadKeys.length

/-- the cell the property's fallback rule selects: the tables of the requested protocol version if it is one and the band lists
it, else those of "latest" (so also for any string that is not a protocol version); within them the requested revision if it
is one and is listed, else "latest" -/
def maxPayloadCell (c : BandCfg) (ver rev : Nat) (dr : Int) : Option (Int × Int) :=
  let latestV := c.maxPayload.find? (·.1 == keyLatest)
  let byVer := if isVersionKey ver then (c.maxPayload.find? (·.1 == ver)).orElse fun _ => latestV else latestV
  byVer.bind fun (_, revs) =>
    let latestR := revs.find? (·.1 == keyLatest)
    let byRev := if isRevisionKey rev then (revs.find? (·.1 == rev)).orElse fun _ => latestR else latestR
    byRev.bind fun (_, cells) => (cells.find? (·.1 == dr)).map fun (_, m, n) => (m, n)

/-- tables are filed under keys of the right kind: protocol versions (or "latest") on the outside, revisions (or "latest") inside.
A table under a key of the wrong kind is unreachable through the lookup the property describes. -/
def keyKindViolations (c : BandCfg) : List (Nat × Nat) :=
  c.maxPayload.flatMap fun (v, revs) =>
    (if isVersionKey v then [] else [(v, keyLatest)]) ++ revs.filterMap fun (r, _) => if isRevisionKey r then none else some (v, r)

/-- `(0,0)` is the Regional Parameters' "N/A" (data-rate not available under this dwell-time), not a size -/
def isNA (m n : Int) : Bool := m == 0 && n == 0

/-- M = N + 8 and N ≤ 242 -/
def sizeViolations (c : BandCfg) : List (Nat × Nat × Int × Int × Int) :=
  (allCells c).filter fun (_, _, _, m, n) => !isNA m n && !(m == n + 8 && n ≤ 242 && n ≥ 0)

/-- repeater-compatible sizes never exceed the non-repeater ones: cells of `cr` (repeater) above the same cell of `cn` -/
def repeaterViolations (cr cn : BandCfg) : List (Nat × Nat × Int) :=
  (allCells cr).filterMap fun (v, r, d, m, n) =>
    match (allCells cn).find? (fun (v', r', d', _, _) => v' == v && r' == r && d' == d) with
    | some (_, _, _, m', n') => if m ≤ m' && n ≤ n' then none else some (v, r, d)
    | none => none

/-- sizes never shrink as the spreading factor decreases at equal bandwidth, between LoRa data-rates usable in a common direction -/
def sfMonoViolations (c : BandCfg) : List (Nat × Nat × Int × Int) :=
  c.maxPayload.flatMap fun (v, revs) => revs.flatMap fun (r, cells) =>
    cells.flatMap fun (d1, _, n1) => cells.filterMap fun (d2, m2, n2) =>
      match defined c d1, defined c d2 with
      | some a, some b =>
        if a.modulation == 0 && b.modulation == 0 && a.bw == b.bw && b.sf < a.sf && ((a.uplink && b.uplink) || (a.downlink && b.downlink)) &&
           !isNA 0 n1 && !isNA m2 n2 && n2 < n1 then some (v, r, d1, d2) else none
      | _, _ => none

/-- equality with the Regional Parameters values -/
def defaultsViolations (c : BandCfg) : List String :=
  match regionDefaults c.name with
  | none => ["unknown-region-name"]
  | some d =>
    (if c.up.map (·.freq) == d.upFreqs then [] else ["default-uplink-frequencies"]) ++
    (if c.rx2Freq == d.rx2Freq then [] else ["rx2-frequency"]) ++
    (if c.rx2DR == d.rx2DR then [] else ["rx2-data-rate"]) ++
    (if c.txPower == (List.range c.txPower.length).map (fun (k : Nat) => -2 * Int.ofNat k) then [] else ["tx-power-not-2dB-steps"]) ++
    (if c.txPower.length == d.txPowerSteps then [] else ["tx-power-step-count"]) ++
    (c.dataRates.filterMap fun (i, dr) =>
      match loraDR c.family i with
      | some (sf, bw) => if dr.modulation == 0 && dr.sf == sf && dr.bw == bw then none else some s!"dr-{i}-definition"
      | none => if dr.modulation == 0 then some s!"dr-{i}-unexpected-lora" else none)

end LW.Spec
