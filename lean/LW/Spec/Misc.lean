/-
  LW.Spec.Misc — published GPS–UTC leap seconds, the Semtech AN1200.13 time-on-air formula, the TXParamSetup EIRP table
  (DESIGN.md appendix A.7), written independently of the code.
-/
import LW.Model.Misc
namespace LW.Spec
open LW

/-- days from 1970-01-01 to the first of the month (civil calendar, proleptic Gregorian) -/
def daysFromCivil (y m d : Int) : Int :=
  let y' := if m ≤ 2 then y - 1 else y
  let era := (if y' ≥ 0 then y' else y' - 399) / 400
  let yoe := y' - era * 400
  let mp := (m + 9) % 12
  let doy := (153 * mp + 2) / 5 + d - 1
  let doe := yoe * 365 + yoe / 4 - yoe / 100 + doy
  era * 146097 + doe - 719468

/-- the dates at 00:00:00 UTC from which GPS − UTC is one second larger (IERS Bulletin C), (year, month, day) -/
def leapDates : List (Int × Int × Int) :=
  [(1981, 7, 1), (1982, 7, 1), (1983, 7, 1), (1985, 7, 1), (1988, 1, 1), (1990, 1, 1), (1991, 1, 1), (1992, 7, 1), (1993, 7, 1),
   (1994, 7, 1), (1996, 1, 1), (1997, 7, 1), (1999, 1, 1), (2006, 1, 1), (2009, 1, 1), (2012, 7, 1), (2015, 7, 1), (2017, 1, 1)]

/-- Unix nanoseconds of those instants -/
def leapInstants : List Int := leapDates.map fun (y, m, d) => daysFromCivil y m d * 86400 * 1000000000

/-- GPS epoch 1980-01-06T00:00:00Z -/
def gpsEpoch : Int := daysFromCivil 1980 1 6 * 86400 * 1000000000

/-- published GPS − UTC (seconds since the GPS epoch started with 0) at Unix-ns instant t -/
def gpsUtcOffset (t : Int) : Nat := (leapInstants.filter (· ≤ t)).length

/-- ⌈a / b⌉ for b > 0 -/
def ceilDiv (a b : Int) : Int := -((-a) / b)

/-- Semtech AN1200.13: number of payload symbols (CRC on; H = 0 with explicit header) -/
def nPayload (pl sf cr : Int) (header ldro : Bool) : Int :=
  let de : Int := if ldro then 1 else 0
  let h : Int := if header then 0 else 1
  8 + max (ceilDiv (8 * pl - 4 * sf + 28 + 16 - 20 * h) (4 * (sf - 2 * de)) * (cr + 4)) 0

/-- time on air in ns with the same integer floors as a fixed-point implementation: Tsym = ⌊2^SF·10^6 / BW(kHz)⌋,
Tpreamble = ⌊(100·n + 425)·Tsym / 100⌋ -/
def timeOnAir (pl sf bw preamble cr : Int) (header ldro : Bool) : Int :=
  let tsym := (2 ^ sf.toNat * 1000000) / bw
  (100 * preamble + 425) * tsym / 100 + nPayload pl sf cr header ldro * tsym

def eirpTable : List Nat := [8, 10, 12, 13, 14, 16, 18, 20, 21, 24, 26, 27, 29, 30, 33, 36]

end LW.Spec
