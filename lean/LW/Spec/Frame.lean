/-
  LW.Spec.Frame — what "equal to the original" means for a frame after it went over the wire (C01),
  and the specification's validity predicate for frames.
-/
import LW.Model.Frame
import LW.Spec.Mac
namespace LW.Spec
open LW

def itemsBytes (is : List Item) : Bytes := match encItems is with | .ok b => b | _ => []
def frmBytes (fPort : Option Byte) (is : List Item) : Bytes := match frmEnc fPort is with | .ok b => b | _ => []

/-- A payload as the receiver sees it: FCnt modulo 2^16, FOpts / FRMPayload as the bytes they carry (one opaque
DataPayload, absent when empty), the shared FPending/ClassB bit, the FOptsLen actually on the wire; a join-accept is
opaque bytes until decrypted. Everything else is unchanged. -/
def wirePL : MacPL → MacPL
  | .mac h fPort frm =>
      let ob := itemsBytes h.fOpts
      let fb := frmBytes fPort frm
      let shared := h.fCtrl.classB || h.fCtrl.fPending
      .mac { devAddr := h.devAddr,
             fCtrl := { adr := h.fCtrl.adr, adrAckReq := h.fCtrl.adrAckReq, ack := h.fCtrl.ack, fPending := shared, classB := shared,
                        fOptsLen := byteOfNat ob.length },
             fCnt := BitVec.ofNat 32 (h.fCnt.toNat % 65536),
             fOpts := if ob.length > 0 then [.data ob] else [] }
           fPort (if fb.length > 0 then [.data fb] else [])
  | .joinAccept ja => .data (match ja.enc with | .ok b => b | _ => [])
  | pl => pl

def wire (f : PHY) : PHY := { f with payload := f.payload.map wirePL }

/-- MType / payload-kind agreement and field widths of the MHDR and MIC (LoRaWAN §4) -/
def shapeOK (f : PHY) : Bool :=
  f.mic.length == 4 && decide (f.mtype.toNat ≤ 7) && decide (f.major.toNat ≤ 3) &&
  (match f.payload with
   | some (.joinReq ..) => f.mtype == 0
   | some (.joinAccept _) => f.mtype == 1
   | some (.rejoin02 ..) | some (.rejoin1 ..) => f.mtype == 6
   | some (.data _) => f.mtype == 7
   | some (.mac h _ _) => (f.mtype == 2 || f.mtype == 3 || f.mtype == 4 || f.mtype == 5) && decide ((itemsBytes h.fOpts).length ≤ 15)
   | none => false)

/-- an FOpts / FRMPayload element the specification allows: opaque bytes, a command without payload, a command whose
payload is inside the specification's ranges, or a proprietary command -/
def itemOK : Item → Bool
  | .data _ => true
  | .cmd c => match c.payload with
    | none => true
    | some (.proprietary _) => true
    | some p => (toFields p).isSome

/-- CFList as the specification allows it: type 0 with five 100 Hz-multiple frequencies below 2^24·100 Hz, or type 1
with at most six channel masks -/
def cfListOK (l : CFList) : Bool :=
  match l.payload with
  | .channels fs => l.typ == 0 && (fs.length == 5 && fs.all (fun f => (freqCode f).isSome))
  | .masks ms => l.typ == 1 && decide (ms.length ≤ 6)

/-- the specification's validity of a frame value (the hypothesis of C01) -/
def frameValid (f : PHY) : Bool :=
  shapeOK f &&
  (match f.payload with
   | some (.mac h fPort frm) =>
       h.fOpts.all itemOK && frm.all itemOK &&
       (match fPort with
        | none => frm.isEmpty
        | some p => (p != 0 || h.fOpts.isEmpty) && (p == 0 || frm.all (fun i => !i.isCmd))) &&
       decide ((frmBytes fPort frm).length ≤ 242)
   | some (.joinAccept ja) =>
       decide (ja.joinNonce.toNat < 2 ^ 24) && decide (ja.rxDelay.toNat ≤ 15) && decide (ja.rx2dr.toNat ≤ 15) && decide (ja.rx1off.toNat ≤ 7) &&
       (match ja.cfList with | none => true | some l => cfListOK l)
   | some (.rejoin02 t ..) => t == 0 || t == 2
   | some (.rejoin1 t ..) => t == 1
   | _ => true)

end LW.Spec
