/-
  LW.Spec.App — what C18 quantifies over, stated independently of the codecs:
  * the bit widths the application-layer specifications give each field (TS003 clock sync, TS004 fragmentation,
    TS005 remote multicast setup, TS006 firmware management) and the Go field types,
  * which commands belong to a package and direction,
  * the multicast key derivations of TS005.
-/
import LW.Model.App
namespace LW.Spec.App
open LW LW.App

@[inline] def w (b : Byte) (bits : Nat) : Bool := decide (b.toNat < 2 ^ bits)
@[inline] def wn (n : Nat) (bits : Nat) : Bool := decide (n < 2 ^ bits)

def itemsOK : List (Byte × Bytes) → Bool
  | [] => true
  | (g, a) :: r => w g 2 && decide (a.length = 4) && itemsOK r

/-- every field inside its specified bit width (and inside its Go type), optional fields present exactly when the
status bits say so, frequency a multiple of 100 Hz that fits 24 bits -/
def inWidth : AP → Bool
  | .pkgVersionAns _ _ => true
  | .appTimeReq t _ k => wn t 32 && w k 4
  | .appTimeAns c k => decide (-2147483648 ≤ c) && decide (c < 2147483648) && w k 4
  | .devAppTimePeriodicityReq p => w p 4
  | .devAppTimePeriodicityAns _ t => wn t 32
  | .forceDeviceResyncReq n => w n 3
  | .mcGroupStatusReq _ => true
  | .mcGroupStatusAns nb m items => w nb 3 && decide (m.count = items.length) && itemsOK items
  | .mcGroupSetupReq id a k mn mx => w id 2 && decide (a.length = 4) && decide (k.length = 16) && wn mn 32 && wn mx 32
  | .mcGroupSetupAns _ id => w id 2
  | .mcGroupDeleteReq id => w id 2
  | .mcGroupDeleteAns _ id => w id 2
  | .mcClassCSessionReq id st t f _ => w id 2 && wn st 32 && w t 4 && decide (f % 100 = 0) && wn (f / 100) 24
  | .mcClassCSessionAns u f d id tts | .mcClassBSessionAns u f d id tts =>
      w id 2 && (match tts with | none => hasError u f d | some t => !hasError u f d && wn t 24)
  | .mcClassBSessionReq id st p t f _ => w id 2 && wn st 32 && w p 3 && w t 4 && decide (f % 100 = 0) && wn (f / 100) 24
  | .fragSessionSetupReq fi _ nb _ fm bad _ desc => w fi 2 && wn nb 16 && w fm 3 && w bad 3 && decide (desc.length = 4)
  | .fragSessionSetupAns fi _ _ _ _ => w fi 2
  | .fragSessionDeleteReq fi => w fi 2
  | .fragSessionDeleteAns fi _ => w fi 2
  | .dataFragment fi n _ => w fi 2 && wn n 14
  | .fragSessionStatusReq fi _ => w fi 2
  | .fragSessionStatusAns fi nb _ _ => w fi 2 && wn nb 14
  | .devVersionReq => true
  | .devVersionAns f h => wn f 32 && wn h 32
  | .devRebootTimeReq t | .devRebootTimeAns t => wn t 32
  | .devRebootCountdownReq c | .devRebootCountdownAns c => wn c 24
  | .devUpgradeImageReq => true
  | .devUpgradeImageAns s nx => w s 2 && (match nx with | none => s != 3#8 | some v => s == 3#8 && wn v 32)
  | .devDeleteImageReq v => wn v 32
  | .devDeleteImageAns iv nv => w iv 1 && w nv 1

/-- a command of package `p` in direction `uplink`: it carries exactly the payload type the package defines for its CID
(no payload when the package defines none, e.g. PackageVersionReq), with in-width fields -/
def cmdOK (p : Pkg) (uplink : Bool) (c : ACmd) : Bool :=
  match registry p uplink c.cid.toNat, c.payload with
  | none, none => true
  | some k, some v => v.kind == k && inWidth v
  | _, _ => false

/-- payload formats without a length of their own: the specification gives DataFragment "the rest of the frame";
the three firmware-management requests are decoded by `len(data) != Size()` (see known finding
`c18-fw-exact-length-commands`) -/
def restConsuming : Option AP → Bool
  | some (.dataFragment ..) => true
  | _ => false

def exactLength : Option AP → Bool
  | some .devVersionReq | some .devUpgradeImageReq | some (.devDeleteImageReq _) => true
  | _ => false

/-- DataFragment only as the last command (inherent in TS004: the fragment has no length field) -/
def seqShape : List ACmd → Bool
  | [] => true
  | [_] => true
  | c :: r => !restConsuming c.payload && seqShape r

/-- no exact-length firmware request before another command (the part of the sequence clause the code does not meet) -/
def noExactBeforeLast : List ACmd → Bool
  | [] => true
  | [_] => true
  | c :: r => !exactLength c.payload && noExactBeforeLast r

def seqOK (p : Pkg) (uplink : Bool) (cs : List ACmd) : Bool := cs.all (cmdOK p uplink) && seqShape cs

/-! ### TS005 §key derivation -/

def block (first : Byte) (addr : Bytes) : Bytes := (first :: addr.reverse) ++ List.replicate (15 - addr.length) 0

/-- McRootKey = aes128_encrypt(GenAppKey, 0x00 | pad16) for 1.0.x, aes128_encrypt(AppKey, 0x20 | pad16) for 1.1 -/
def mcRootKey10 (E : BlockCipher) (genAppKey : Bytes) : Bytes := E.enc genAppKey (block 0x00#8 [])
def mcRootKey11 (E : BlockCipher) (appKey : Bytes) : Bytes := E.enc appKey (block 0x20#8 [])
/-- McKEKey = aes128_encrypt(McRootKey, 0x00 | pad16) -/
def mcKEKey (E : BlockCipher) (root : Bytes) : Bytes := E.enc root (block 0x00#8 [])
/-- McAppSKey = aes128_encrypt(McKey, 0x01 | McAddr | pad16), McNetSKey with 0x02; McAddr little-endian -/
def mcAppSKey (E : BlockCipher) (mcKey addr : Bytes) : Bytes := E.enc mcKey (block 0x01#8 addr)
def mcNetSKey (E : BlockCipher) (mcKey addr : Bytes) : Bytes := E.enc mcKey (block 0x02#8 addr)

end LW.Spec.App
