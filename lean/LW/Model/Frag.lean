/-
  LW.Model.Frag — mirror of applayer/fragmentation/encode.go (FEC encoder of TS004).
-/
import LW.Basic
namespace LW
open Outcome

/-- `prbs23` on a Go int (non-negative here) -/
def prbs23 (x : Nat) : Nat := x / 2 + ((x % 2) ^^^ (x / 32 % 2)) * 2 ^ 22

/-- `isPower2` -/
def isPower2 (n : Nat) : Bool := n != 0 && Nat.land n (n - 1) == 0

/-- the inner `for r >= m` loop, with fuel: returns the new x and r (none when the fuel ran out) -/
def drawCoeff (m md : Nat) : Nat → Nat → Option (Nat × Nat)
  | 0, _ => none
  | fuel+1, x =>
    let x' := prbs23 x
    let r := x' % md
    if r ≥ m then drawCoeff m md fuel x' else some (x', r)

/-- `matrixLine(n, m)`: m/2 pseudo-random positions set to 1 (positions may repeat); `fuel` bounds each inner loop -/
def matrixLine (fuel n m : Nat) : Option (List Bool) :=
  let md := m + (if isPower2 m then 1 else 0)
  let rec go : Nat → Nat → List Bool → Option (List Bool)
    | 0, _, line => some line
    | k+1, x, line =>
      match drawCoeff m md fuel x with
      | some (x', r) => go k x' (line.set r true)
      | none => none
  go (m / 2) (1 + 1001 * n) (List.replicate m false)

/-- fragments of `size` bytes -/
def rowsOf : Nat → Nat → Bytes → List Bytes
  | 0, _, _ => []
  | k+1, size, data => data.take size :: rowsOf k size (data.drop size)

/-- XOR of the rows selected by a line -/
def xorSelected (size : Nat) (line : List Bool) (rows : List Bytes) : Bytes :=
  (line.zip rows).foldl (fun acc (sel, row) => if sel then xorBytes acc row else acc) (zeros size)

/-- the redundancy loop: parity fragments y, y+1, … (k of them) -/
def parityRows (line : Nat → Nat → Option (List Bool)) (size w : Nat) (rows : List Bytes) : Nat → Nat → Option (List Bytes)
  | 0, _ => some []
  | k+1, y =>
    match line (y + 1) w with
    | some l => (parityRows line size w rows k (y + 1)).map (xorSelected size l rows :: ·)
    | none => none

/-- `Encode(data, fragmentSize, redundancy)` with an arbitrary line function (the code uses `matrixLine (y+1) w`) -/
def encodeWith (line : Nat → Nat → Option (List Bool)) (data : Bytes) (size red : Int) : Outcome (List Bytes) :=
  if size ≤ 0 then err
  else if data.length % size.toNat != 0 then err
  else
    let w := data.length / size.toNat
    let rows := rowsOf w size.toNat data
    match parityRows line size.toNat w rows red.toNat 0 with
    | some ps => ok (rows ++ ps)
    | none => panic     -- fuel exhausted: the Go loop would still be running

def fragFuel : Nat := 100000

def encode (data : Bytes) (size red : Int) : Outcome (List Bytes) := encodeWith (matrixLine fragFuel) data size red

end LW
