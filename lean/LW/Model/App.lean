/-
  LW.Model.App — mirror of /repo/applayer/{clocksync,multicastsetup,fragmentation,firmwaremanagement}:
  the payload codecs, `Command` / `Commands` codecs (with the per-package, per-direction registry) and the multicast
  key derivations of multicastsetup/keys.go.

  Field types follow the Go field types: `uint8` ↦ `Byte`, `uint16` / `uint32` ↦ `Nat` (`InType` bounds them),
  `int32` ↦ `Int`, `[4]bool` ↦ `Mask4`, `*uint32` ↦ `Option Nat`, `DevAddr` / `[n]byte` / `[]byte` ↦ `Bytes`.
  Decoders are modelled on a fresh receiver (what `Command.UnmarshalBinary` does: the registry constructor returns a zero value).
-/
import LW.Basic
import LW.Crypto.CMAC
namespace LW.App
open LW Outcome

inductive Pkg where
  | cs | mc | fr | fw
  deriving DecidableEq, Repr, Inhabited

def Pkg.name : Pkg → String
  | .cs => "clocksync" | .mc => "multicastsetup" | .fr => "fragmentation" | .fw => "firmwaremanagement"
def Pkg.all : List Pkg := [.cs, .mc, .fr, .fw]
def Pkg.ofName (s : String) : Option Pkg := Pkg.all.find? (fun p => p.name == s)

structure Mask4 where
  b0 : Bool
  b1 : Bool
  b2 : Bool
  b3 : Bool
  deriving DecidableEq, Repr, Inhabited

/-- `for i, m := range mask { if m { b |= 1 << i } }` -/
def Mask4.byte (m : Mask4) : Byte := boolBit m.b0 0 ||| boolBit m.b1 1 ||| boolBit m.b2 2 ||| boolBit m.b3 3
/-- `mask[i] = data&(1<<i) != 0` -/
def Mask4.ofByte (b : Byte) : Mask4 := ⟨bit b 0, bit b 1, bit b 2, bit b 3⟩
def Mask4.count (m : Mask4) : Nat := m.b0.toNat + m.b1.toNat + m.b2.toNat + m.b3.toNat

/-- payload kinds (Go payload struct types; `PackageVersionAnsPayload` exists in all four packages with one layout) -/
inductive AKind where
  | pkgVersionAns
  | appTimeReq | appTimeAns | devAppTimePeriodicityReq | devAppTimePeriodicityAns | forceDeviceResyncReq
  | mcGroupStatusReq | mcGroupStatusAns | mcGroupSetupReq | mcGroupSetupAns | mcGroupDeleteReq | mcGroupDeleteAns
  | mcClassCSessionReq | mcClassCSessionAns | mcClassBSessionReq | mcClassBSessionAns
  | fragSessionSetupReq | fragSessionSetupAns | fragSessionDeleteReq | fragSessionDeleteAns | dataFragment
  | fragSessionStatusReq | fragSessionStatusAns
  | devVersionReq | devVersionAns | devRebootTimeReq | devRebootTimeAns | devRebootCountdownReq | devRebootCountdownAns
  | devUpgradeImageReq | devUpgradeImageAns | devDeleteImageReq | devDeleteImageAns
  deriving DecidableEq, Repr, Inhabited

def AKind.all : List AKind :=
  [.pkgVersionAns, .appTimeReq, .appTimeAns, .devAppTimePeriodicityReq, .devAppTimePeriodicityAns, .forceDeviceResyncReq,
   .mcGroupStatusReq, .mcGroupStatusAns, .mcGroupSetupReq, .mcGroupSetupAns, .mcGroupDeleteReq, .mcGroupDeleteAns,
   .mcClassCSessionReq, .mcClassCSessionAns, .mcClassBSessionReq, .mcClassBSessionAns,
   .fragSessionSetupReq, .fragSessionSetupAns, .fragSessionDeleteReq, .fragSessionDeleteAns, .dataFragment,
   .fragSessionStatusReq, .fragSessionStatusAns,
   .devVersionReq, .devVersionAns, .devRebootTimeReq, .devRebootTimeAns, .devRebootCountdownReq, .devRebootCountdownAns,
   .devUpgradeImageReq, .devUpgradeImageAns, .devDeleteImageReq, .devDeleteImageAns]

/-- Go type name without the `Payload` suffix -/
def AKind.name : AKind → String
  | .pkgVersionAns => "PackageVersionAns"
  | .appTimeReq => "AppTimeReq" | .appTimeAns => "AppTimeAns"
  | .devAppTimePeriodicityReq => "DeviceAppTimePeriodicityReq" | .devAppTimePeriodicityAns => "DeviceAppTimePeriodicityAns"
  | .forceDeviceResyncReq => "ForceDeviceResyncReq"
  | .mcGroupStatusReq => "McGroupStatusReq" | .mcGroupStatusAns => "McGroupStatusAns"
  | .mcGroupSetupReq => "McGroupSetupReq" | .mcGroupSetupAns => "McGroupSetupAns"
  | .mcGroupDeleteReq => "McGroupDeleteReq" | .mcGroupDeleteAns => "McGroupDeleteAns"
  | .mcClassCSessionReq => "McClassCSessionReq" | .mcClassCSessionAns => "McClassCSessionAns"
  | .mcClassBSessionReq => "McClassBSessionReq" | .mcClassBSessionAns => "McClassBSessionAns"
  | .fragSessionSetupReq => "FragSessionSetupReq" | .fragSessionSetupAns => "FragSessionSetupAns"
  | .fragSessionDeleteReq => "FragSessionDeleteReq" | .fragSessionDeleteAns => "FragSessionDeleteAns"
  | .dataFragment => "DataFragment"
  | .fragSessionStatusReq => "FragSessionStatusReq" | .fragSessionStatusAns => "FragSessionStatusAns"
  | .devVersionReq => "DevVersionReq" | .devVersionAns => "DevVersionAns"
  | .devRebootTimeReq => "DevRebootTimeReq" | .devRebootTimeAns => "DevRebootTimeAns"
  | .devRebootCountdownReq => "DevRebootCountdownReq" | .devRebootCountdownAns => "DevRebootCountdownAns"
  | .devUpgradeImageReq => "DevUpgradeImageReq" | .devUpgradeImageAns => "DevUpgradeImageAns"
  | .devDeleteImageReq => "DevDeleteImageReq" | .devDeleteImageAns => "DevDeleteImageAns"

def AKind.ofName (s : String) : Option AKind := AKind.all.find? (fun k => k.name == s)

/-- payload values; argument order = flattened Go field order -/
inductive AP where
  | pkgVersionAns (id ver : Byte)
  | appTimeReq (deviceTime : Nat) (ansRequired : Bool) (tokenReq : Byte)
  | appTimeAns (timeCorrection : Int) (tokenAns : Byte)
  | devAppTimePeriodicityReq (period : Byte)
  | devAppTimePeriodicityAns (notSupported : Bool) (time : Nat)
  | forceDeviceResyncReq (nbTransmissions : Byte)
  | mcGroupStatusReq (mask : Mask4)
  | mcGroupStatusAns (nbTotalGroups : Byte) (mask : Mask4) (items : List (Byte × Bytes))
  | mcGroupSetupReq (id : Byte) (addr key : Bytes) (minFCnt maxFCnt : Nat)
  | mcGroupSetupAns (idError : Bool) (id : Byte)
  | mcGroupDeleteReq (id : Byte)
  | mcGroupDeleteAns (undefined : Bool) (id : Byte)
  | mcClassCSessionReq (id : Byte) (sessionTime : Nat) (timeOut : Byte) (dlFreq : Nat) (dr : Byte)
  | mcClassCSessionAns (undefined freqError drError : Bool) (id : Byte) (timeToStart : Option Nat)
  | mcClassBSessionReq (id : Byte) (sessionTime : Nat) (periodicity timeOut : Byte) (dlFreq : Nat) (dr : Byte)
  | mcClassBSessionAns (undefined freqError drError : Bool) (id : Byte) (timeToStart : Option Nat)
  | fragSessionSetupReq (fragIndex : Byte) (mask : Mask4) (nbFrag : Nat) (fragSize fragMatrix blockAckDelay padding : Byte)
      (descriptor : Bytes)
  | fragSessionSetupAns (fragIndex : Byte) (wrongDescriptor indexNotSupported notEnoughMemory encodingUnsupported : Bool)
  | fragSessionDeleteReq (fragIndex : Byte)
  | fragSessionDeleteAns (fragIndex : Byte) (sessionDoesNotExist : Bool)
  | dataFragment (fragIndex : Byte) (n : Nat) (payload : Bytes)
  | fragSessionStatusReq (fragIndex : Byte) (participants : Bool)
  | fragSessionStatusAns (fragIndex : Byte) (nbFragReceived : Nat) (missingFrag : Byte) (notEnoughMatrixMemory : Bool)
  | devVersionReq
  | devVersionAns (fwVersion hwVersion : Nat)
  | devRebootTimeReq (rebootTime : Nat)
  | devRebootTimeAns (rebootTime : Nat)
  | devRebootCountdownReq (countdown : Nat)
  | devRebootCountdownAns (countdown : Nat)
  | devUpgradeImageReq
  | devUpgradeImageAns (status : Byte) (nextFirmwareVersion : Option Nat)
  | devDeleteImageReq (version : Nat)
  | devDeleteImageAns (errorInvalidVersion errorNoValidImage : Byte)
  deriving DecidableEq, Repr, Inhabited

def AP.kind : AP → AKind
  | .pkgVersionAns .. => .pkgVersionAns
  | .appTimeReq .. => .appTimeReq | .appTimeAns .. => .appTimeAns
  | .devAppTimePeriodicityReq .. => .devAppTimePeriodicityReq | .devAppTimePeriodicityAns .. => .devAppTimePeriodicityAns
  | .forceDeviceResyncReq .. => .forceDeviceResyncReq
  | .mcGroupStatusReq .. => .mcGroupStatusReq | .mcGroupStatusAns .. => .mcGroupStatusAns
  | .mcGroupSetupReq .. => .mcGroupSetupReq | .mcGroupSetupAns .. => .mcGroupSetupAns
  | .mcGroupDeleteReq .. => .mcGroupDeleteReq | .mcGroupDeleteAns .. => .mcGroupDeleteAns
  | .mcClassCSessionReq .. => .mcClassCSessionReq | .mcClassCSessionAns .. => .mcClassCSessionAns
  | .mcClassBSessionReq .. => .mcClassBSessionReq | .mcClassBSessionAns .. => .mcClassBSessionAns
  | .fragSessionSetupReq .. => .fragSessionSetupReq | .fragSessionSetupAns .. => .fragSessionSetupAns
  | .fragSessionDeleteReq .. => .fragSessionDeleteReq | .fragSessionDeleteAns .. => .fragSessionDeleteAns
  | .dataFragment .. => .dataFragment
  | .fragSessionStatusReq .. => .fragSessionStatusReq | .fragSessionStatusAns .. => .fragSessionStatusAns
  | .devVersionReq => .devVersionReq | .devVersionAns .. => .devVersionAns
  | .devRebootTimeReq .. => .devRebootTimeReq | .devRebootTimeAns .. => .devRebootTimeAns
  | .devRebootCountdownReq .. => .devRebootCountdownReq | .devRebootCountdownAns .. => .devRebootCountdownAns
  | .devUpgradeImageReq => .devUpgradeImageReq | .devUpgradeImageAns .. => .devUpgradeImageAns
  | .devDeleteImageReq .. => .devDeleteImageReq | .devDeleteImageAns .. => .devDeleteImageAns

/-! ### helpers -/

/-- `binary.LittleEndian.PutUint32(b, uint32(x))` -/
@[inline] def le32 (x : Nat) : Bytes := leBytes 4 x
/-- the low three bytes of `PutUint32` (`ttsB[:3]`, `countdownB[:3]`, `dlFreqB[:3]`) -/
@[inline] def le24 (x : Nat) : Bytes := leBytes 3 x
@[inline] def le16 (x : Nat) : Bytes := leBytes 2 x
/-- `uint32(int32)` -/
def u32OfInt (i : Int) : Nat := (i % 4294967296).toNat
/-- `int32(uint32)` -/
def intOfU32 (n : Nat) : Int := if n < 2147483648 then (n : Int) else (n : Int) - 4294967296

/-- `DevAddr.MarshalBinary` / `UnmarshalBinary`: byte order reversed -/
@[inline] def addrWire (a : Bytes) : Bytes := a.reverse

def hasError (u f d : Bool) : Bool := u || f || d

/-- status byte of McClass{C,B}SessionAns -/
def sessionAnsByte (u f d : Bool) (id : Byte) : Byte :=
  (id &&& 0x03#8) ||| (if d then 0x04#8 else 0) ||| (if f then 0x08#8 else 0) ||| (if u then 0x10#8 else 0)

/-! ### Size() -/

def AP.size : AP → Nat
  | .pkgVersionAns .. => 2
  | .appTimeReq .. => 5 | .appTimeAns .. => 5
  | .devAppTimePeriodicityReq .. => 1 | .devAppTimePeriodicityAns .. => 5
  | .forceDeviceResyncReq .. => 1
  | .mcGroupStatusReq .. => 1
  | .mcGroupStatusAns _ m _ => 1 + 5 * m.count
  | .mcGroupSetupReq .. => 29 | .mcGroupSetupAns .. => 1
  | .mcGroupDeleteReq .. => 1 | .mcGroupDeleteAns .. => 1
  | .mcClassCSessionReq .. => 10
  | .mcClassCSessionAns u f d _ _ => if hasError u f d then 1 else 4
  | .mcClassBSessionReq .. => 10
  | .mcClassBSessionAns u f d _ _ => if hasError u f d then 1 else 4
  | .fragSessionSetupReq .. => 10 | .fragSessionSetupAns .. => 1
  | .fragSessionDeleteReq .. => 1 | .fragSessionDeleteAns .. => 1
  | .dataFragment _ _ p => 2 + p.length
  | .fragSessionStatusReq .. => 1 | .fragSessionStatusAns .. => 4
  | .devVersionReq => 0 | .devVersionAns .. => 8
  | .devRebootTimeReq .. => 4 | .devRebootTimeAns .. => 4
  | .devRebootCountdownReq .. => 3 | .devRebootCountdownAns .. => 3
  | .devUpgradeImageReq => 0
  | .devUpgradeImageAns s _ => if s == 3#8 then 5 else 1
  | .devDeleteImageReq .. => 4 | .devDeleteImageAns .. => 1

/-! ### MarshalBinary -/

def encItems : List (Byte × Bytes) → Bytes
  | [] => []
  | (g, a) :: r => (g &&& 0x03#8) :: (addrWire a ++ encItems r)

def sessionAnsEnc (u f d : Bool) (id : Byte) (tts : Option Nat) : Outcome Bytes :=
  if hasError u f d && tts.isSome then err
  else if !hasError u f d && tts.isNone then err
  else
    let b0 := sessionAnsByte u f d id
    match tts with
    | some t => if hasError u f d then ok [b0] else ok (b0 :: le24 t)
    | none => ok [b0]

def AP.enc : AP → Outcome Bytes
  | .pkgVersionAns i v => ok [i, v]
  | .appTimeReq t a tok => ok (le32 t ++ [(tok &&& 0x0f#8) ||| (if a then 0x10#8 else 0)])
  | .appTimeAns c tok => ok (le32 (u32OfInt c) ++ [tok &&& 0x0f#8])
  | .devAppTimePeriodicityReq p => ok [p &&& 0x0f#8]
  | .devAppTimePeriodicityAns n t => ok ((if n then 1#8 else 0) :: le32 t)
  | .forceDeviceResyncReq n => ok [n &&& 0x17#8]
  | .mcGroupStatusReq m => ok [m.byte]
  | .mcGroupStatusAns nb m items =>
      if items.length > 4 then err
      else if m.count ≠ items.length then err
      else ok ((m.byte ||| ((nb &&& 0x07#8) <<< 4)) :: encItems items)
  | .mcGroupSetupReq id a k mn mx => ok ((id &&& 0x03#8) :: (addrWire a ++ k ++ le32 mn ++ le32 mx))
  | .mcGroupSetupAns e id => ok [(id &&& 0x03#8) ||| (if e then 0x04#8 else 0)]
  | .mcGroupDeleteReq id => ok [id &&& 0x03#8]
  | .mcGroupDeleteAns u id => ok [(id &&& 0x03#8) ||| (if u then 0x04#8 else 0)]
  | .mcClassCSessionReq id st to f dr =>
      if f % 100 ≠ 0 then err
      else ok ((id &&& 0x03#8) :: (le32 st ++ [to &&& 0x0f#8] ++ le24 (f / 100) ++ [dr]))
  | .mcClassCSessionAns u f d id tts => sessionAnsEnc u f d id tts
  | .mcClassBSessionReq id st per to f dr =>
      if f % 100 ≠ 0 then err
      else ok ((id &&& 0x03#8) :: (le32 st ++ [(to &&& 0x0f#8) ||| ((per &&& 0x07#8) <<< 4)] ++ le24 (f / 100) ++ [dr]))
  | .mcClassBSessionAns u f d id tts => sessionAnsEnc u f d id tts
  | .fragSessionSetupReq fi m nb fs fm bad pad desc =>
      ok ((m.byte ||| ((fi &&& 0x03#8) <<< 4)) :: (le16 nb ++ [fs, (bad &&& 0x07#8) ||| ((fm &&& 0x07#8) <<< 3), pad] ++ desc))
  | .fragSessionSetupAns fi w i n e =>
      ok [(if e then 0x01#8 else 0) ||| (if n then 0x02#8 else 0) ||| (if i then 0x04#8 else 0) ||| (if w then 0x08#8 else 0)
          ||| ((fi &&& 0x03#8) <<< 6)]
  | .fragSessionDeleteReq fi => ok [fi &&& 0x03#8]
  | .fragSessionDeleteAns fi s => ok [(fi &&& 0x03#8) ||| (if s then 0x04#8 else 0)]
  | .dataFragment fi n p =>
      ok (byteOfNat (n % 16384 % 256) :: (byteOfNat (n % 16384 / 256) ||| ((fi &&& 0x03#8) <<< 6)) :: p)
  | .fragSessionStatusReq fi p => ok [(if p then 0x01#8 else 0) ||| ((fi &&& 0x03#8) <<< 1)]
  | .fragSessionStatusAns fi nb mf ne =>
      ok [byteOfNat (nb % 16384 % 256), byteOfNat (nb % 16384 / 256) ||| ((fi &&& 0x03#8) <<< 6), mf, if ne then 0x01#8 else 0]
  | .devVersionReq => ok []
  | .devVersionAns f h => ok (le32 f ++ le32 h)
  | .devRebootTimeReq t => ok (le32 t)
  | .devRebootTimeAns t => ok (le32 t)
  | .devRebootCountdownReq c => ok (le24 c)
  | .devRebootCountdownAns c => ok (le24 c)
  | .devUpgradeImageReq => ok []
  | .devUpgradeImageAns s nx =>
      if s != 3#8 && nx.isSome then err
      else match nx with
        | none => if s == 3#8 then err else ok [s &&& 0x03#8]
        | some v => ok ((s &&& 0x03#8) :: le32 v)
  | .devDeleteImageReq v => ok (le32 v)
  | .devDeleteImageAns iv nv => ok [(nv &&& 0x01#8) ||| ((iv &&& 0x01#8) <<< 1)]

/-! ### UnmarshalBinary (fresh receiver) -/

def decItems : Nat → Bytes → Option (List (Byte × Bytes))
  | 0, _ => some []
  | n+1, g :: a0 :: a1 :: a2 :: a3 :: r =>
      match decItems n r with
      | some l => some ((g &&& 0x03#8, [a3, a2, a1, a0]) :: l)
      | none => none
  | _+1, _ => none

def sessionAnsDec (mk : Bool → Bool → Bool → Byte → Option Nat → AP) : Bytes → Outcome AP
  | [] => err
  | b0 :: r =>
    let id := b0 &&& 0x03#8
    let d := (b0 &&& 0x04#8) != 0
    let f := (b0 &&& 0x08#8) != 0
    let u := (b0 &&& 0x10#8) != 0
    if hasError u f d then ok (mk u f d id none)
    else match r with
      | t0 :: t1 :: t2 :: _ => ok (mk u f d id (some (leNat [t0, t1, t2])))
      | _ => err

def AKind.dec : AKind → Bytes → Outcome AP
  | .pkgVersionAns, i :: v :: _ => ok (.pkgVersionAns i v)
  | .appTimeReq, a :: b :: c :: d :: e :: _ =>
      ok (.appTimeReq (leNat [a, b, c, d]) ((e &&& 0x10#8) != 0) (e &&& 0x0f#8))
  | .appTimeAns, a :: b :: c :: d :: e :: _ => ok (.appTimeAns (intOfU32 (leNat [a, b, c, d])) (e &&& 0x0f#8))
  | .devAppTimePeriodicityReq, p :: _ => ok (.devAppTimePeriodicityReq (p &&& 0x0f#8))
  | .devAppTimePeriodicityAns, s :: a :: b :: c :: d :: _ => ok (.devAppTimePeriodicityAns ((s &&& 1#8) != 0) (leNat [a, b, c, d]))
  | .forceDeviceResyncReq, n :: _ => ok (.forceDeviceResyncReq (n &&& 0x17#8))
  | .mcGroupStatusReq, m :: _ => ok (.mcGroupStatusReq (Mask4.ofByte m))
  | .mcGroupStatusAns, b0 :: r =>
      let m := Mask4.ofByte b0
      match decItems m.count r with
      | some items => ok (.mcGroupStatusAns ((b0 &&& 0x70#8) >>> 4) m items)
      | none => err
  | .mcGroupSetupReq, data =>
      if data.length < 29 then err
      else ok (.mcGroupSetupReq (data.headD 0 &&& 0x03#8) (addrWire ((data.drop 1).take 4)) ((data.drop 5).take 16)
        (leNat ((data.drop 21).take 4)) (leNat ((data.drop 25).take 4)))
  | .mcGroupSetupAns, b :: _ => ok (.mcGroupSetupAns ((b &&& 0x04#8) != 0) (b &&& 0x03#8))
  | .mcGroupDeleteReq, b :: _ => ok (.mcGroupDeleteReq (b &&& 0x03#8))
  | .mcGroupDeleteAns, b :: _ => ok (.mcGroupDeleteAns ((b &&& 0x04#8) != 0) (b &&& 0x03#8))
  | .mcClassCSessionReq, id :: s0 :: s1 :: s2 :: s3 :: to :: f0 :: f1 :: f2 :: dr :: _ =>
      ok (.mcClassCSessionReq (id &&& 0x03#8) (leNat [s0, s1, s2, s3]) (to &&& 0x0f#8) (leNat [f0, f1, f2] * 100 % 4294967296) dr)
  | .mcClassCSessionAns, data => sessionAnsDec .mcClassCSessionAns data
  | .mcClassBSessionReq, id :: s0 :: s1 :: s2 :: s3 :: tp :: f0 :: f1 :: f2 :: dr :: _ =>
      ok (.mcClassBSessionReq (id &&& 0x03#8) (leNat [s0, s1, s2, s3]) ((tp >>> 4) &&& 0x07#8) (tp &&& 0x0f#8)
        (leNat [f0, f1, f2] * 100 % 4294967296) dr)
  | .mcClassBSessionAns, data => sessionAnsDec .mcClassBSessionAns data
  | .fragSessionSetupReq, b0 :: n0 :: n1 :: fs :: c :: pad :: d0 :: d1 :: d2 :: d3 :: _ =>
      ok (.fragSessionSetupReq ((b0 >>> 4) &&& 0x03#8) (Mask4.ofByte b0) (leNat [n0, n1]) fs ((c >>> 3) &&& 0x07#8) (c &&& 0x07#8) pad
        [d0, d1, d2, d3])
  | .fragSessionSetupAns, b :: _ =>
      ok (.fragSessionSetupAns ((b >>> 6) &&& 0x03#8) ((b &&& 0x08#8) != 0) ((b &&& 0x04#8) != 0) ((b &&& 0x02#8) != 0) ((b &&& 0x01#8) != 0))
  | .fragSessionDeleteReq, b :: _ => ok (.fragSessionDeleteReq (b &&& 0x03#8))
  | .fragSessionDeleteAns, b :: _ => ok (.fragSessionDeleteAns (b &&& 0x03#8) ((b &&& 0x04#8) != 0))
  | .dataFragment, a :: b :: p => ok (.dataFragment (b >>> 6) (leNat [a, b] % 16384) p)
  | .fragSessionStatusReq, b :: _ => ok (.fragSessionStatusReq ((b >>> 1) &&& 0x03#8) ((b &&& 0x01#8) != 0))
  | .fragSessionStatusAns, a :: b :: mf :: s :: _ => ok (.fragSessionStatusAns (b >>> 6) (leNat [a, b] % 16384) mf ((s &&& 0x01#8) != 0))
  | .devVersionReq, data => if data.length != 0 then err else ok .devVersionReq
  | .devVersionAns, a :: b :: c :: d :: e :: f :: g :: h :: _ => ok (.devVersionAns (leNat [a, b, c, d]) (leNat [e, f, g, h]))
  | .devRebootTimeReq, a :: b :: c :: d :: _ => ok (.devRebootTimeReq (leNat [a, b, c, d]))
  | .devRebootTimeAns, a :: b :: c :: d :: _ => ok (.devRebootTimeAns (leNat [a, b, c, d]))
  | .devRebootCountdownReq, a :: b :: c :: _ => ok (.devRebootCountdownReq (leNat [a, b, c]))
  | .devRebootCountdownAns, a :: b :: c :: _ => ok (.devRebootCountdownAns (leNat [a, b, c]))
  | .devUpgradeImageReq, data => if data.length != 0 then err else ok .devUpgradeImageReq
  | .devUpgradeImageAns, s :: r =>
      if (s &&& 0x03#8) == 3#8 then
        match r with
        | a :: b :: c :: d :: _ => ok (.devUpgradeImageAns (s &&& 0x03#8) (some (leNat [a, b, c, d])))
        | _ => err
      else ok (.devUpgradeImageAns (s &&& 0x03#8) none)
  | .devDeleteImageReq, data =>
      match data with
      | [a, b, c, d] => ok (.devDeleteImageReq (leNat [a, b, c, d]))
      | _ => err
  | .devDeleteImageAns, b :: _ => ok (.devDeleteImageAns ((b >>> 1) &&& 0x01#8) (b &&& 0x01#8))
  | _, _ => err

/-! ### registry, Command, Commands -/

/-- `commandPayloadRegistry[uplink][cid]` of each package (hand-written mirror; `LW.Generated.AppRegistry` is the dump
of the real maps and `LW.Props.C18.registry_regenerated` states that the two agree) -/
def registry (p : Pkg) (uplink : Bool) (cid : Nat) : Option AKind :=
  match p, uplink, cid with
  | .cs, true, 0 => some .pkgVersionAns | .cs, true, 1 => some .appTimeReq | .cs, true, 2 => some .devAppTimePeriodicityAns
  | .cs, false, 1 => some .appTimeAns | .cs, false, 2 => some .devAppTimePeriodicityReq | .cs, false, 3 => some .forceDeviceResyncReq
  | .mc, true, 0 => some .pkgVersionAns | .mc, true, 1 => some .mcGroupStatusAns | .mc, true, 2 => some .mcGroupSetupAns
  | .mc, true, 3 => some .mcGroupDeleteAns | .mc, true, 4 => some .mcClassCSessionAns | .mc, true, 5 => some .mcClassBSessionAns
  | .mc, false, 1 => some .mcGroupStatusReq | .mc, false, 2 => some .mcGroupSetupReq | .mc, false, 3 => some .mcGroupDeleteReq
  | .mc, false, 4 => some .mcClassCSessionReq | .mc, false, 5 => some .mcClassBSessionReq
  | .fr, true, 0 => some .pkgVersionAns | .fr, true, 1 => some .fragSessionStatusAns | .fr, true, 2 => some .fragSessionSetupAns
  | .fr, true, 3 => some .fragSessionDeleteAns
  | .fr, false, 1 => some .fragSessionStatusReq | .fr, false, 2 => some .fragSessionSetupReq | .fr, false, 3 => some .fragSessionDeleteReq
  | .fr, false, 8 => some .dataFragment
  | .fw, true, 0 => some .pkgVersionAns | .fw, true, 1 => some .devVersionAns | .fw, true, 2 => some .devRebootTimeAns
  | .fw, true, 3 => some .devRebootCountdownAns | .fw, true, 4 => some .devUpgradeImageAns | .fw, true, 5 => some .devDeleteImageAns
  | .fw, false, 1 => some .devVersionReq | .fw, false, 2 => some .devRebootTimeReq | .fw, false, 3 => some .devRebootCountdownReq
  | .fw, false, 4 => some .devUpgradeImageReq | .fw, false, 5 => some .devDeleteImageReq
  | _, _, _ => none

structure ACmd where
  cid : Byte
  payload : Option AP
  deriving DecidableEq, Repr, Inhabited

/-- `Command.MarshalBinary` -/
def ACmd.enc (c : ACmd) : Outcome Bytes :=
  match c.payload with
  | none => ok [c.cid]
  | some p => do let b ← p.enc; ok (c.cid :: b)

/-- `Command.Size` -/
def ACmd.size (c : ACmd) : Nat :=
  match c.payload with
  | none => 1
  | some p => p.size + 1

/-- `Command.UnmarshalBinary(uplink, data)`: an unknown CID is a command without payload -/
def cmdDec (p : Pkg) (uplink : Bool) : Bytes → Outcome ACmd
  | [] => err
  | cid :: r =>
    match registry p uplink cid.toNat with
    | none => ok ⟨cid, none⟩
    | some k => do let v ← k.dec r; ok ⟨cid, some v⟩

/-- `Commands.MarshalBinary` -/
def cmdsEnc : List ACmd → Outcome Bytes
  | [] => ok []
  | c :: r => do let b ← c.enc; let rest ← cmdsEnc r; ok (b ++ rest)

/-- `Commands.UnmarshalBinary`: every command decoder sees the whole remaining buffer, the cursor advances by `Size()`.
(`fuel` bounds the loop; each command is at least one byte, so `data.length` suffices.) -/
def cmdsDecFuel (p : Pkg) (uplink : Bool) : Nat → Bytes → Outcome (List ACmd)
  | _, [] => ok []
  | 0, _ => panic
  | fuel+1, data => do
    let c ← cmdDec p uplink data
    let rest ← cmdsDecFuel p uplink fuel (data.drop c.size)
    ok (c :: rest)

def cmdsDec (p : Pkg) (uplink : Bool) (data : Bytes) : Outcome (List ACmd) := cmdsDecFuel p uplink data.length data

/-! ### multicast keys (keys.go): one AES block each -/

def pad16 (b : Bytes) : Bytes := b ++ zeros (16 - b.length)

def mcRootKeyForGenAppKey (E : BlockCipher) (genAppKey : Bytes) : Bytes := E.enc genAppKey (zeros 16)
def mcRootKeyForAppKey (E : BlockCipher) (appKey : Bytes) : Bytes := E.enc appKey (pad16 [0x20#8])
def mcKEKey (E : BlockCipher) (mcRootKey : Bytes) : Bytes := E.enc mcRootKey (zeros 16)
def mcAppSKey (E : BlockCipher) (mcKey addr : Bytes) : Bytes := E.enc mcKey (pad16 (0x01#8 :: addrWire addr))
def mcNetSKey (E : BlockCipher) (mcKey addr : Bytes) : Bytes := E.enc mcKey (pad16 (0x02#8 :: addrWire addr))

end LW.App
