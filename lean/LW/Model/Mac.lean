/-
  LW.Model.Mac — mirror of /repo/mac_commands.go: the 29 MAC-command payload codecs,
  DLSettings, ChMask, Redundancy, MACCommand and the stream decoder.

  Every decoder takes the *previous* value of the receiver (Go's UnmarshalBinary mutates *p).
-/
import LW.Basic
namespace LW
open Outcome

/-- payload kinds (Go payload struct types). -/
inductive Kind where
  | resetInd | resetConf | linkCheckAns | linkADRReq | linkADRAns | dutyCycleReq
  | rxParamSetupReq | rxParamSetupAns | devStatusAns | newChannelReq | newChannelAns
  | rxTimingSetupReq | txParamSetupReq | dlChannelReq | dlChannelAns | pingSlotInfoReq
  | beaconFreqReq | beaconFreqAns | pingSlotChannelReq | pingSlotChannelAns | deviceTimeAns
  | rekeyInd | rekeyConf | adrParamSetupReq | forceRejoinReq | rejoinParamSetupReq
  | rejoinParamSetupAns | deviceModeInd | deviceModeConf | proprietary
  deriving DecidableEq, Repr, Inhabited

def Kind.all : List Kind :=
  [.resetInd, .resetConf, .linkCheckAns, .linkADRReq, .linkADRAns, .dutyCycleReq,
   .rxParamSetupReq, .rxParamSetupAns, .devStatusAns, .newChannelReq, .newChannelAns,
   .rxTimingSetupReq, .txParamSetupReq, .dlChannelReq, .dlChannelAns, .pingSlotInfoReq,
   .beaconFreqReq, .beaconFreqAns, .pingSlotChannelReq, .pingSlotChannelAns, .deviceTimeAns,
   .rekeyInd, .rekeyConf, .adrParamSetupReq, .forceRejoinReq, .rejoinParamSetupReq,
   .rejoinParamSetupAns, .deviceModeInd, .deviceModeConf, .proprietary]

/-- Go type name of the payload struct (what `%T` prints, without the package). -/
def Kind.name : Kind → String
  | .resetInd => "ResetIndPayload" | .resetConf => "ResetConfPayload"
  | .linkCheckAns => "LinkCheckAnsPayload" | .linkADRReq => "LinkADRReqPayload"
  | .linkADRAns => "LinkADRAnsPayload" | .dutyCycleReq => "DutyCycleReqPayload"
  | .rxParamSetupReq => "RXParamSetupReqPayload" | .rxParamSetupAns => "RXParamSetupAnsPayload"
  | .devStatusAns => "DevStatusAnsPayload" | .newChannelReq => "NewChannelReqPayload"
  | .newChannelAns => "NewChannelAnsPayload" | .rxTimingSetupReq => "RXTimingSetupReqPayload"
  | .txParamSetupReq => "TXParamSetupReqPayload" | .dlChannelReq => "DLChannelReqPayload"
  | .dlChannelAns => "DLChannelAnsPayload" | .pingSlotInfoReq => "PingSlotInfoReqPayload"
  | .beaconFreqReq => "BeaconFreqReqPayload" | .beaconFreqAns => "BeaconFreqAnsPayload"
  | .pingSlotChannelReq => "PingSlotChannelReqPayload" | .pingSlotChannelAns => "PingSlotChannelAnsPayload"
  | .deviceTimeAns => "DeviceTimeAnsPayload" | .rekeyInd => "RekeyIndPayload"
  | .rekeyConf => "RekeyConfPayload" | .adrParamSetupReq => "ADRParamSetupReqPayload"
  | .forceRejoinReq => "ForceRejoinReqPayload" | .rejoinParamSetupReq => "RejoinParamSetupReqPayload"
  | .rejoinParamSetupAns => "RejoinParamSetupAnsPayload" | .deviceModeInd => "DeviceModeIndPayload"
  | .deviceModeConf => "DeviceModeConfPayload" | .proprietary => "ProprietaryMACCommandPayload"

def Kind.ofName (s : String) : Option Kind := Kind.all.find? (fun k => k.name == s)

/-- MAC-command payload values. Field types follow the Go field types:
`uint8` ↦ `Byte`, `uint32` ↦ `BitVec 32`, `int8` ↦ `BitVec 8` (two's complement),
`DwellTime` (Go `int`) ↦ `Int`, `time.Duration` ↦ `Int` nanoseconds, `ChMask [16]bool` ↦ `BitVec 16`. -/
inductive MacP where
  | resetInd (minor : Byte)
  | resetConf (minor : Byte)
  | linkCheckAns (margin gwCnt : Byte)
  | linkADRReq (dr txp : Byte) (chMask : BitVec 16) (cntl nb : Byte)
  | linkADRAns (chAck drAck pwAck : Bool)
  | dutyCycleReq (maxDC : Byte)
  | rxParamSetupReq (freq : BitVec 32) (optNeg : Bool) (rx2dr rx1off : Byte)
  | rxParamSetupAns (chAck rx2Ack rx1Ack : Bool)
  | devStatusAns (battery : Byte) (margin : BitVec 8)
  | newChannelReq (chIndex : Byte) (freq : BitVec 32) (maxDR minDR : Byte)
  | newChannelAns (freqOK drOK : Bool)
  | rxTimingSetupReq (delay : Byte)
  | txParamSetupReq (down up : Int) (maxEIRP : Byte)
  | dlChannelReq (chIndex : Byte) (freq : BitVec 32)
  | dlChannelAns (upExists freqOK : Bool)
  | pingSlotInfoReq (periodicity : Byte)
  | beaconFreqReq (freq : BitVec 32)
  | beaconFreqAns (ok : Bool)
  | pingSlotChannelReq (freq : BitVec 32) (dr : Byte)
  | pingSlotChannelAns (drOK freqOK : Bool)
  | deviceTimeAns (ns : Int)
  | rekeyInd (minor : Byte)
  | rekeyConf (minor : Byte)
  | adrParamSetupReq (limitExp delayExp : Byte)
  | forceRejoinReq (period maxRetries rejoinType dr : Byte)
  | rejoinParamSetupReq (maxTimeN maxCountN : Byte)
  | rejoinParamSetupAns (timeOK : Bool)
  | deviceModeInd (cls : Byte)
  | deviceModeConf (cls : Byte)
  | proprietary (bytes : Bytes)
  deriving DecidableEq, Repr, Inhabited

def MacP.kind : MacP → Kind
  | .resetInd .. => .resetInd | .resetConf .. => .resetConf | .linkCheckAns .. => .linkCheckAns
  | .linkADRReq .. => .linkADRReq | .linkADRAns .. => .linkADRAns | .dutyCycleReq .. => .dutyCycleReq
  | .rxParamSetupReq .. => .rxParamSetupReq | .rxParamSetupAns .. => .rxParamSetupAns
  | .devStatusAns .. => .devStatusAns | .newChannelReq .. => .newChannelReq
  | .newChannelAns .. => .newChannelAns | .rxTimingSetupReq .. => .rxTimingSetupReq
  | .txParamSetupReq .. => .txParamSetupReq | .dlChannelReq .. => .dlChannelReq
  | .dlChannelAns .. => .dlChannelAns | .pingSlotInfoReq .. => .pingSlotInfoReq
  | .beaconFreqReq .. => .beaconFreqReq | .beaconFreqAns .. => .beaconFreqAns
  | .pingSlotChannelReq .. => .pingSlotChannelReq | .pingSlotChannelAns .. => .pingSlotChannelAns
  | .deviceTimeAns .. => .deviceTimeAns | .rekeyInd .. => .rekeyInd | .rekeyConf .. => .rekeyConf
  | .adrParamSetupReq .. => .adrParamSetupReq | .forceRejoinReq .. => .forceRejoinReq
  | .rejoinParamSetupReq .. => .rejoinParamSetupReq | .rejoinParamSetupAns .. => .rejoinParamSetupAns
  | .deviceModeInd .. => .deviceModeInd | .deviceModeConf .. => .deviceModeConf
  | .proprietary .. => .proprietary

/-- the Go zero value of each payload struct (`&XPayload{}`) -/
def Kind.zero : Kind → MacP
  | .resetInd => .resetInd 0 | .resetConf => .resetConf 0 | .linkCheckAns => .linkCheckAns 0 0
  | .linkADRReq => .linkADRReq 0 0 0 0 0 | .linkADRAns => .linkADRAns false false false
  | .dutyCycleReq => .dutyCycleReq 0 | .rxParamSetupReq => .rxParamSetupReq 0 false 0 0
  | .rxParamSetupAns => .rxParamSetupAns false false false | .devStatusAns => .devStatusAns 0 0
  | .newChannelReq => .newChannelReq 0 0 0 0 | .newChannelAns => .newChannelAns false false
  | .rxTimingSetupReq => .rxTimingSetupReq 0 | .txParamSetupReq => .txParamSetupReq 0 0 0
  | .dlChannelReq => .dlChannelReq 0 0 | .dlChannelAns => .dlChannelAns false false
  | .pingSlotInfoReq => .pingSlotInfoReq 0 | .beaconFreqReq => .beaconFreqReq 0
  | .beaconFreqAns => .beaconFreqAns false | .pingSlotChannelReq => .pingSlotChannelReq 0 0
  | .pingSlotChannelAns => .pingSlotChannelAns false false | .deviceTimeAns => .deviceTimeAns 0
  | .rekeyInd => .rekeyInd 0 | .rekeyConf => .rekeyConf 0 | .adrParamSetupReq => .adrParamSetupReq 0 0
  | .forceRejoinReq => .forceRejoinReq 0 0 0 0 | .rejoinParamSetupReq => .rejoinParamSetupReq 0 0
  | .rejoinParamSetupAns => .rejoinParamSetupAns false | .deviceModeInd => .deviceModeInd 0
  | .deviceModeConf => .deviceModeConf 0 | .proprietary => .proprietary []

/-! ### small pieces -/

/-- `ChMask.MarshalBinary`: bit i of the little-endian uint16 = channel i. -/
def chMaskEnc (m : BitVec 16) : Bytes := leBytes 2 m.toNat

/-- `ChMask.UnmarshalBinary` on a receiver holding `prev`: every bit is assigned
(before the repair c10-decode-into-used-value bits were only ever *set*: `prev ||| …`). -/
def chMaskDec (_prev : BitVec 16) (data : Bytes) : Outcome (BitVec 16) :=
  if data.length != 2 then err else ok (BitVec.ofNat 16 (leNat data))

/-- `Redundancy.MarshalBinary` -/
def redundancyEnc (cntl nb : Byte) : Outcome Bytes :=
  if nb.toNat > 15 then err
  else if cntl.toNat > 7 then err
  else ok [nb ^^^ (cntl <<< 4)]

/-- `DLSettings.MarshalBinary` -/
def dlSettingsEnc (optNeg : Bool) (rx2dr rx1off : Byte) : Outcome Byte :=
  if rx2dr.toNat > 15 then err
  else if rx1off.toNat > 7 then err
  else ok ((rx2dr ||| (rx1off <<< 4)) ||| (if optNeg then 0x80#8 else 0#8))

/-- `DLSettings.UnmarshalBinary` fields (optNeg, rx2dr, rx1off) of one byte -/
def dlSettingsDec (b : Byte) : Bool × Byte × Byte :=
  (b &&& 0x80#8 != 0#8, b &&& 0x0f#8, (b &&& 0x70#8) >>> 4)

/-- the frequency checks shared by RXParamSetupReq / DLChannelReq / BeaconFreqReq / PingSlotChannelReq:
`f/100 >= 2^24` then `f%100 != 0`. -/
def freq100Enc (f : BitVec 32) : Outcome Bytes :=
  if f.toNat / 100 ≥ 16777216 then err
  else if f.toNat % 100 != 0 then err
  else ok (leBytes 3 (f.toNat / 100))

/-- 3 little-endian bytes × 100 as a Go `uint32` (cannot overflow: < 2^24·100 < 2^32) -/
def freq100Dec (b : Bytes) : BitVec 32 := BitVec.ofNat 32 (leNat b * 100)

/-- Go `int64` wrap-around -/
def wrap64 (x : Int) : Int := (x + 9223372036854775808) % 18446744073709551616 - 9223372036854775808

/-- Go `/` on signed integers truncates toward zero -/
def tdiv (a b : Int) : Int := Int.tdiv a b

def second : Int := 1000000000

/-! ### encoders (`MarshalBinary`) -/

def MacP.enc : MacP → Outcome Bytes
  | .resetInd m | .resetConf m | .rekeyInd m | .rekeyConf m =>
      if m.toNat > 7 then err else ok [m]
  | .linkCheckAns margin gw => ok [margin, gw]
  | .linkADRReq dr txp mask cntl nb =>
      if dr.toNat > 15 then err
      else if txp.toNat > 15 then err
      else do
        let r ← redundancyEnc cntl nb
        ok ([txp ^^^ (dr <<< 4)] ++ chMaskEnc mask ++ r)
  | .linkADRAns a b c =>
      ok [(boolBit a 0 ^^^ boolBit b 1) ^^^ boolBit c 2]
  | .dutyCycleReq d =>
      if d.toNat > 15 ∧ d.toNat < 255 then err else ok [d]
  | .rxParamSetupReq f optNeg rx2 rx1 =>
      -- order of checks as in Go: frequency range, multiple of 100, then DLSettings
      if f.toNat / 100 ≥ 16777216 then err
      else if f.toNat % 100 != 0 then err
      else do
        let d ← dlSettingsEnc optNeg rx2 rx1
        ok (d :: leBytes 3 (f.toNat / 100))
  | .rxParamSetupAns a b c =>
      ok [(boolBit a 0 ^^^ boolBit b 1) ^^^ boolBit c 2]
  | .devStatusAns bat margin =>
      if margin.toInt < -32 then err
      else if margin.toInt > 31 then err
      else if margin.toInt < 0 then ok [bat, 64#8 + margin]
      else ok [bat, margin]
  | .newChannelReq ch f maxDR minDR =>
      let freq := if f.toNat ≥ 2400000000 then f.toNat / 2 else f.toNat
      if freq / 100 ≥ 16777216 then err
      else if f.toNat % 100 != 0 then err
      else if f.toNat ≥ 2400000000 ∧ f.toNat % 200 != 0 then err
      else if f.toNat < 2400000000 ∧ f.toNat / 100 ≥ 12000000 then err
      else if maxDR.toNat > 15 then err
      else if minDR.toNat > 15 then err
      else ok ([ch] ++ leBytes 3 (freq / 100) ++ [minDR ^^^ (maxDR <<< 4)])
  | .newChannelAns fOK dOK => ok [boolBit fOK 0 ^^^ boolBit dOK 1]
  | .rxTimingSetupReq d => if d.toNat > 15 then err else ok [d]
  | .txParamSetupReq down up eirp =>
      if eirp.toNat > 15 then err
      else if up != 0 ∧ up != 1 then err
      else if down != 0 ∧ down != 1 then err
      else ok [(eirp ^^^ (if up == 1 then 0x10#8 else 0#8)) ^^^ (if down == 1 then 0x20#8 else 0#8)]
  | .dlChannelReq ch f => do
      let fb ← freq100Enc f
      ok (ch :: fb)
  | .dlChannelAns upEx fOK => ok [boolBit fOK 0 ^^^ boolBit upEx 1]
  | .pingSlotInfoReq p => if p.toNat > 7 then err else ok [p]
  | .beaconFreqReq f => freq100Enc f
  | .beaconFreqAns o => ok [boolBit o 0]
  | .pingSlotChannelReq f dr => do
      let fb ← freq100Enc f
      if dr.toNat ≥ 16 then err else ok (fb ++ [dr])
  | .pingSlotChannelAns drOK fOK => ok [boolBit fOK 0 ||| boolBit drOK 1]
  | .deviceTimeAns ns =>
      -- seconds := uint32(d / time.Second); b[4] = uint8((d - Duration(seconds)*Second) / 3906250)
      if ns < 0 ∨ tdiv ns second > 4294967295 then err
      else
        let seconds : Nat := ((tdiv ns second) % 4294967296).toNat
        let rest : Int := wrap64 (ns - (seconds : Int) * second)
        ok (leBytes 4 seconds ++ [BitVec.ofInt 8 (tdiv rest 3906250)])
  | .adrParamSetupReq lim del =>
      if lim.toNat > 15 then err
      else if del.toNat > 15 then err
      else ok [del ||| (lim <<< 4)]
  | .forceRejoinReq period retries rtype dr =>
      if period.toNat > 7 then err
      else if retries.toNat > 7 then err
      else if rtype != 0 ∧ rtype != 2 then err
      else if dr.toNat > 15 then err
      else ok [dr ||| (rtype <<< 4), retries ||| (period <<< 3)]
  | .rejoinParamSetupReq t c =>
      if t.toNat > 15 then err
      else if c.toNat > 15 then err
      else ok [c ||| (t <<< 4)]
  | .rejoinParamSetupAns o => ok [boolBit o 0]
  | .deviceModeInd c | .deviceModeConf c => ok [c]
  | .proprietary bs => ok bs

/-! ### decoders (`UnmarshalBinary`), receiver-passing -/

/-- decode `data` into a receiver of kind `k` currently holding `prev`
(`prev` of another kind cannot occur in Go; the zero value is used then). -/
def Kind.dec (k : Kind) (prev : MacP) (data : Bytes) : Outcome MacP :=
  match k, data with
  | .resetInd, [b] => ok (.resetInd (b &&& 0x0f#8))
  | .resetConf, [b] => ok (.resetConf (b &&& 0x0f#8))
  | .rekeyInd, [b] => ok (.rekeyInd (b &&& 0x0f#8))
  | .rekeyConf, [b] => ok (.rekeyConf (b &&& 0x0f#8))
  | .linkCheckAns, [a, b] => ok (.linkCheckAns a b)
  | .linkADRReq, [b0, b1, b2, b3] =>
      ok (.linkADRReq ((b0 &&& 0xf0#8) >>> 4) (b0 &&& 0x0f#8) (BitVec.ofNat 16 (leNat [b1, b2]))
            ((b3 &&& 0x70#8) >>> 4) (b3 &&& 0x0f#8))
  | .linkADRAns, [b] =>
      ok (.linkADRAns (bit b 0) (bit b 1) (bit b 2))
  | .dutyCycleReq, [b] => ok (.dutyCycleReq b)
  | .rxParamSetupReq, [b0, b1, b2, b3] =>
      let (o, r2, r1) := dlSettingsDec b0
      ok (.rxParamSetupReq (freq100Dec [b1, b2, b3]) o r2 r1)
  | .rxParamSetupAns, [b] => ok (.rxParamSetupAns (bit b 0) (bit b 1) (bit b 2))
  | .devStatusAns, [bat, m] =>
      let m6 := m &&& 0x3f#8
      ok (.devStatusAns bat (if m6.toNat > 31 then m6 - 64#8 else m6))
  | .newChannelReq, [b0, b1, b2, b3, b4] =>
      let f := leNat [b1, b2, b3]
      let freq : BitVec 32 := if f ≥ 12000000 then BitVec.ofNat 32 (f * 200) else BitVec.ofNat 32 (f * 100)
      ok (.newChannelReq b0 freq ((b4 &&& 0xf0#8) >>> 4) (b4 &&& 0x0f#8))
  | .newChannelAns, [b] => ok (.newChannelAns (bit b 0) (bit b 1))
  | .rxTimingSetupReq, [b] => ok (.rxTimingSetupReq (b &&& 0x0f#8))
  | .txParamSetupReq, [b] =>
      ok (.txParamSetupReq (if bit b 5 then 1 else 0) (if bit b 4 then 1 else 0) (b &&& 15#8))
  | .dlChannelReq, [b0, b1, b2, b3] => ok (.dlChannelReq b0 (freq100Dec [b1, b2, b3]))
  | .dlChannelAns, [b] => ok (.dlChannelAns (bit b 1) (bit b 0))
  | .pingSlotInfoReq, [b] => ok (.pingSlotInfoReq (b &&& 7#8))
  | .beaconFreqReq, [b0, b1, b2] => ok (.beaconFreqReq (freq100Dec [b0, b1, b2]))
  | .beaconFreqAns, [b] => ok (.beaconFreqAns (bit b 0))
  | .pingSlotChannelReq, [b0, b1, b2, b3] => ok (.pingSlotChannelReq (freq100Dec [b0, b1, b2]) (b3 &&& 0x0f#8))
  | .pingSlotChannelAns, [b] => ok (.pingSlotChannelAns (bit b 1) (bit b 0))
  | .deviceTimeAns, [b0, b1, b2, b3, b4] =>
      ok (.deviceTimeAns ((leNat [b0, b1, b2, b3] : Int) * second + (b4.toNat : Int) * 3906250))
  | .adrParamSetupReq, [b] => ok (.adrParamSetupReq (b >>> 4) (b &&& 0x0f#8))
  | .forceRejoinReq, [b0, b1] =>
      ok (.forceRejoinReq ((b1 &&& 0x38#8) >>> 3) (b1 &&& 7#8) ((b0 &&& 0x70#8) >>> 4) (b0 &&& 0x0f#8))
  | .rejoinParamSetupReq, [b] => ok (.rejoinParamSetupReq ((b &&& 0xf0#8) >>> 4) (b &&& 0x0f#8))
  | .rejoinParamSetupAns, [b] => ok (.rejoinParamSetupAns (bit b 0))
  | .deviceModeInd, [b] => ok (.deviceModeInd b)
  | .deviceModeConf, [b] => ok (.deviceModeConf b)
  | .proprietary, bs => ok (.proprietary bs)
  | _, _ => err

/-- decode into a fresh value -/
def Kind.dec0 (k : Kind) (data : Bytes) : Outcome MacP := k.dec k.zero data

/-- the length each decoder insists on (`none` = any) -/
def Kind.wireSize : Kind → Option Nat
  | .linkCheckAns | .devStatusAns | .forceRejoinReq => some 2
  | .linkADRReq | .rxParamSetupReq | .dlChannelReq | .pingSlotChannelReq => some 4
  | .newChannelReq | .deviceTimeAns => some 5
  | .beaconFreqReq => some 3
  | .proprietary => none
  | _ => some 1

/-! ### registry, MACCommand, stream decoder -/

/-- one registry row: direction, CID, size, payload kind -/
structure RegEntry where
  uplink : Bool
  cid : Nat
  size : Int
  kind : Kind
  deriving DecidableEq, Repr, Inhabited

abbrev Registry := List RegEntry

def Registry.lookup (r : Registry) (uplink : Bool) (cid : Nat) : Option RegEntry :=
  r.find? (fun e => e.uplink == uplink && e.cid == cid)

/-- `RegisterProprietaryMACCommand` -/
def Registry.register (r : Registry) (uplink : Bool) (cid : Nat) (size : Int) : Outcome Registry :=
  if !(cid ≥ 128 ∧ cid ≤ 255) then err
  else if size < 0 then err
  else if size == 0 then ok r
  else ok ({ uplink, cid, size, kind := .proprietary } :: r.filter (fun e => !(e.uplink == uplink && e.cid == cid)))

/-- a MAC command: CID and optional payload (`nil` interface when absent) -/
structure MacCmd where
  cid : Byte
  payload : Option MacP
  deriving DecidableEq, Repr, Inhabited

/-- `MACCommand.MarshalBinary` -/
def MacCmd.enc (c : MacCmd) : Outcome Bytes :=
  match c.payload with
  | none => ok [c.cid]
  | some p => do let b ← p.enc; ok (c.cid :: b)

/-- `MACCommand.UnmarshalBinary` into a fresh `&MACCommand{}`. On a payload error Go has already
assigned `m.CID` and `m.Payload`; the stream decoder keeps that partially filled command, so the
model returns the command together with the error flag. -/
def MacCmd.dec (reg : Registry) (uplink : Bool) (data : Bytes) : Outcome (MacCmd × Bool) :=
  match data with
  | [] => err
  | [c] => ok ({ cid := c, payload := none }, true)
  | c :: rest =>
    match reg.lookup uplink c.toNat with
    | none => ok ({ cid := c, payload := none }, false)
    | some e =>
      match e.kind.dec0 rest with
      | .ok p => ok ({ cid := c, payload := some p }, true)
      | _ => ok ({ cid := c, payload := some e.kind.zero }, false)

/-- `decodeDataPayloadToMACCommands` on the bytes of the single DataPayload.
`fuel` bounds the number of loop iterations (each consumes ≥ 1 byte when sizes are ≥ 0). -/
def decodeStreamAux (reg : Registry) (uplink : Bool) : Nat → Bytes → List MacCmd → Outcome (List MacCmd)
  | 0, _, acc => ok acc.reverse
  | _, [], acc => ok acc.reverse
  | fuel+1, c :: rest, acc =>
    let plLen : Int := match reg.lookup uplink c.toNat with | some e => e.size | none => 0
    if plLen < 0 then panic  -- negative size: slice bounds out of range / non-termination in Go
    else
      let n := plLen.toNat
      if rest.length < n then err
      else
        match MacCmd.dec reg uplink (c :: rest.take n) with
        | .ok (mc, _) => decodeStreamAux reg uplink fuel (rest.drop n) (mc :: acc)
        | _ => panic

def decodeStream (reg : Registry) (uplink : Bool) (data : Bytes) : Outcome (List MacCmd) :=
  decodeStreamAux reg uplink data.length data []

/-- encode a list of commands and concatenate -/
def encodeCmds : List MacCmd → Outcome Bytes
  | [] => ok []
  | c :: cs => do
    let b ← c.enc
    let r ← encodeCmds cs
    ok (b ++ r)

end LW
