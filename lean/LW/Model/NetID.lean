/-
  LW.Model.NetID — mirror of netid.go (Type, ID) and the DevAddr prefix code of fhdr.go
  (NetIDType, NwkID, SetAddrPrefix, IsNetID) plus the text / binary / database representations of
  EUI64, DevAddr, NetID and AES128Key.
  NetID [3]byte ↦ BitVec 24, DevAddr [4]byte ↦ BitVec 32 (byte 0 = most significant).
-/
import LW.Basic
namespace LW
open Outcome

/-- `NetID.Type`: `n[0] >> 5` -/
def netIDType (n : BitVec 24) : Nat := (n >>> 21).toNat

/-- width of the ID field per NetID type (`NetID.ID` switch) -/
def netIDIdBits (t : Nat) : Nat := if t ≤ 1 then 6 else if t = 2 then 9 else 21

/-- `NetID.getID(bits)` as a number: `temp << (32-bits) >> (32-bits)` on the uint32 holding the NetID -/
def netIDgetID (n : BitVec 24) (bits : Nat) : BitVec 32 :=
  ((n.zeroExtend 32) <<< (32 - bits)) >>> (32 - bits)

/-- `NetID.ID()` as a number (Go returns the low ⌈bits/8⌉ bytes big-endian) -/
def netIDID (n : BitVec 24) : BitVec 32 := netIDgetID n (netIDIdBits (netIDType n))

def byteLenOfBits (bits : Nat) : Nat := bits / 8 + (if bits % 8 != 0 then 1 else 0)

/-- the bytes `NetID.ID()` returns -/
def netIDIDBytes (n : BitVec 24) : Bytes :=
  let bits := netIDIdBits (netIDType n)
  ((leBytes 4 (netIDID n).toNat).reverse).drop (4 - byteLenOfBits bits)

/-- per NetID type: (prefixLength, nwkIDBits) — the table duplicated in `NwkID` and `SetAddrPrefix` -/
def prefixTable : Nat → Nat × Nat
  | 0 => (1, 6) | 1 => (2, 6) | 2 => (3, 9) | 3 => (4, 11) | 4 => (5, 12) | 5 => (6, 13) | 6 => (7, 15) | _ => (8, 17)

/-- `DevAddr.setAddrPrefix(prefixLength, nwkIDBits, netID)` on the big-endian uint32 -/
def setAddrPrefixRaw (a : BitVec 32) (pl nb : Nat) (n : BitVec 24) : BitVec 32 :=
  let cleared := a &&& ~~~((0xffffffff#32) <<< (32 - pl - nb))
  let pre := (254#32) <<< (32 - pl)
  -- id bytes copied right-aligned into 4 bytes = the ID as a number
  let nwk := ((netIDID n) <<< (32 - nb)) >>> pl
  (cleared ||| pre) ||| nwk

/-- `DevAddr.SetAddrPrefix(netID)` -/
def setAddrPrefix (a : BitVec 32) (n : BitVec 24) : BitVec 32 :=
  let (pl, nb) := prefixTable (netIDType n)
  setAddrPrefixRaw a pl nb n

/-- `DevAddr.NetIDType`: position of the first 0 bit of byte 0 from the top, -1 when byte 0 is 0xff -/
def devAddrNetIDType (a : BitVec 32) : Int :=
  match (List.range 8).find? (fun k => !a.getLsbD (31 - k)) with
  | some k => k
  | none => -1

/-- `DevAddr.getNwkID` as a number -/
def getNwkIDRaw (a : BitVec 32) (pl nb : Nat) : BitVec 32 := (a <<< pl) >>> (32 - nb)

/-- `DevAddr.NwkID()`: bytes (nil for type -1) -/
def devAddrNwkID (a : BitVec 32) : Option Bytes :=
  let t := devAddrNetIDType a
  if t < 0 then none else
  let (pl, nb) := prefixTable t.toNat
  some (((leBytes 4 (getNwkIDRaw a pl nb).toNat).reverse).drop (4 - byteLenOfBits nb))

/-- `DevAddr.IsNetID` -/
def isNetID (a : BitVec 32) (n : BitVec 24) : Bool := a == setAddrPrefix a n

/-! ### representations (`MarshalText`/`UnmarshalText`, `MarshalBinary`/`UnmarshalBinary`, `Scan`/`Value`) of an
identifier of `k` bytes held big-endian in a number -/

/-- big-endian bytes of an identifier -/
def idBytes (k : Nat) (v : Nat) : Bytes := (leBytes k v).reverse

def idText (k v : Nat) : String := hexOfBytes (idBytes k v)

/-- `strings.TrimPrefix(text, "0x")` -/
def strip0x : List Char → List Char
  | '0' :: 'x' :: rest => rest
  | cs => cs

/-- `UnmarshalText`: optional "0x" prefix, hex, exactly k bytes -/
def idOfText (k : Nat) (s : String) : Outcome Nat :=
  match hexDecodeChars (strip0x s.toList) with
  | some b => if b.length != k then err else ok (leNat b.reverse)
  | none => err

/-- `MarshalBinary`: byte-reversed (little-endian) -/
def idBinary (k v : Nat) : Bytes := leBytes k v

def idOfBinary (k : Nat) (b : Bytes) : Outcome Nat := if b.length != k then err else ok (leNat b)

/-- `Scan` of a []byte / `Value` -/
def idOfScan (k : Nat) (b : Bytes) : Outcome Nat := if b.length != k then err else ok (leNat b.reverse)

end LW
