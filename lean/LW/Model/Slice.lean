/-
  LW.Model.Slice — a Go slice as (backing array, length); capacity = length of the backing array.
  Used where the property is about memory *outside* the slice: EncryptFRMPayload pads its argument, EncryptFOpts XORs in place.
  `goAppend` is Go's append: in place when the capacity suffices (the caller's backing array changes), otherwise a new array.
-/
import LW.Model.Crypto
namespace LW.Slice
open LW

structure GoSlice where
  arr : Bytes      -- backing array from the slice's first element to its capacity
  len : Nat
  deriving Repr

def GoSlice.bytes (s : GoSlice) : Bytes := s.arr.take s.len

/-- `append(s, xs...)`: (resulting slice, the caller's backing array afterwards) -/
def goAppend (s : GoSlice) (xs : Bytes) : GoSlice × Bytes :=
  if s.len + xs.length ≤ s.arr.length then
    let arr' := s.arr.take s.len ++ xs ++ s.arr.drop (s.len + xs.length)
    (⟨arr', s.len + xs.length⟩, arr')
  else (⟨s.arr.take s.len ++ xs, s.len + xs.length⟩, s.arr)

/-- write `v` over the first `v.length` bytes of an array (the in-place XOR loop) -/
def overwrite (arr v : Bytes) : Bytes := v ++ arr.drop v.length

/-- `EncryptFRMPayload` as repaired (c10-encryptfrm-spare-capacity): a non block-aligned payload is copied into a fresh padded
array, so the caller's array is untouched; an aligned payload is XORed in place. Returns (result, caller's array afterwards). -/
def encryptFRMPayloadMem (E : BlockCipher) (key : Bytes) (uplink : Bool) (devAddr fCnt : BitVec 32) (s : GoSlice) : Bytes × Bytes :=
  let out := encryptFRMPayload E key uplink devAddr fCnt s.bytes
  if s.len % 16 = 0 then (out, overwrite s.arr out) else (out, s.arr)

/-- the code before the repair: pad with `append` on the caller's slice, XOR the whole padded length in place -/
def encryptFRMPayloadMemOld (E : BlockCipher) (key : Bytes) (uplink : Bool) (devAddr fCnt : BitVec 32) (s : GoSlice) : Bytes × Bytes :=
  let pad := if s.len % 16 = 0 then 0 else 16 - s.len % 16
  let (padded, callerArr) := goAppend s (zeros pad)
  let outPadded := encryptFRMPayload E key uplink devAddr fCnt padded.bytes
  let callerArr' := if s.len + pad ≤ s.arr.length then overwrite callerArr outPadded else callerArr
  (outPadded.take s.len, callerArr')

/-- `EncryptFOpts`: at most 15 bytes, XORed in place by a loop over `range data`. Returns (result, caller's array afterwards). -/
def encryptFOptsMem (E : BlockCipher) (key : Bytes) (aFCntDown uplink : Bool) (devAddr fCnt : BitVec 32) (s : GoSlice) : Outcome Bytes × Bytes :=
  match LW.encryptFOpts E key aFCntDown uplink devAddr fCnt s.bytes with
  | .ok out => (.ok out, overwrite s.arr out)
  | r => (r, s.arr)

end LW.Slice
