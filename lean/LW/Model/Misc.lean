/-
  LW.Model.Misc — mirrors of gps/gps.go, airtime/airtime.go and eirp.go.
  `time.Time` / `time.Duration` are integers (nanoseconds; Unix nanoseconds for instants). The float64 expression of the
  payload-symbol formula is modelled EXACTLY (IEEE-754 binary64 round-to-nearest-even division on integers); no Lean
  `Float` is used anywhere.
-/
import LW.Basic
namespace LW
open Outcome

/-! ### GPS time -/

/-- GPS epoch (Unix ns) and the leap-second table: (instant, duration) pairs, in the order of the Go slice -/
structure LeapTable where
  epoch : Int
  entries : List (Int × Int)
  deriving Repr, Inhabited

def nsPerSec : Int := 1000000000

/-- `Time.TimeSinceGPSEpoch`: t - epoch + Σ durations of the entries whose offset already applies at t
(`!t.Before(ls.Time.Add(time.Second))`) -/
def toGPS (tbl : LeapTable) (t : Int) : Int :=
  t - tbl.epoch + (tbl.entries.foldl (fun acc (ls : Int × Int) => if ls.1 + nsPerSec ≤ t then acc + ls.2 else acc) 0)

/-- `NewTimeFromTimeSinceGPSEpoch`: sequential correction -/
def fromGPS (tbl : LeapTable) (d : Int) : Int :=
  tbl.entries.foldl (fun t (ls : Int × Int) => if ls.1 + nsPerSec ≤ t then t - ls.2 else t) (tbl.epoch + d)

/-! ### airtime -/

/-- ⌈fl(a / b)⌉ for integers a, b (b > 0), where fl is IEEE-754 binary64 division with round-to-nearest-even -/
def fdivCeil (a b : Int) : Int :=
  if a == 0 ∨ b ≤ 0 then 0 else
  let n := a.natAbs
  let d := b.toNat
  -- scale so that the mantissa has 53 bits
  let k0 : Int := 52 - ((Nat.log2 n : Int) - (Nat.log2 d : Int))
  let scaled (k : Int) : Nat × Nat := if k ≥ 0 then (n * 2 ^ k.toNat, d) else (n, d * 2 ^ (-k).toNat)
  let k : Int :=
    let (nu, de) := scaled k0
    let t := nu / de
    if t ≥ 2 ^ 53 then k0 - 1 else if t < 2 ^ 52 then k0 + 1 else k0
  let (nu, de) := scaled k
  let m0 := nu / de
  let r := nu % de
  let m := if 2 * r > de ∨ (2 * r == de ∧ m0 % 2 == 1) then m0 + 1 else m0
  -- value = ± m · 2^(-k)
  let (vn, vd) : Nat × Nat := if k ≥ 0 then (m, 2 ^ k.toNat) else (m * 2 ^ (-k).toNat, 1)
  if a > 0 then ((vn + vd - 1) / vd : Nat) else -((vn / vd : Nat) : Int)

/-- `CalculateLoRaSymbolDuration`: `(1 << sf) * 1000000 / bandwidth` (Go int; panics on bandwidth 0) -/
def symbolDuration (sf bw : Int) : Outcome Int :=
  if bw == 0 then panic
  else if sf < 0 ∨ sf > 40 then err   -- outside the modelled range (shift counts the property does not reach)
  else ok (Int.tdiv (2 ^ sf.toNat * 1000000) bw)

/-- `CalculateLoRaPreambleDuration` -/
def preambleDuration (sym preamble : Int) : Int := Int.tdiv ((100 * preamble + 425) * sym) 100

/-- `CalculateLoRaPayloadSymbolNumber` for sf - 2·de > 0 (the float division by zero / NaN cases are not modelled) -/
def payloadSymbols (pl sf cr : Int) (header ldro : Bool) : Outcome Int :=
  if cr < 1 ∨ cr > 4 then err
  else
    let de : Int := if ldro then 1 else 0
    let h : Int := if !header then 1 else 0
    let a := 8 * pl - 4 * sf + 28 + 16 - 20 * h
    let b := 4 * (sf - 2 * de)
    if b ≤ 0 then panic   -- unmodelled (±Inf / NaN in Go); never generated
    else
      let q := fdivCeil a b * (cr + 4)
      ok (8 + (if q > 0 then q else 0))

/-- `CalculateLoRaAirtime` -/
def airtime (pl sf bw preamble cr : Int) (header ldro : Bool) : Outcome Int := do
  let sym ← symbolDuration sf bw
  let n ← payloadSymbols pl sf cr header ldro
  ok (preambleDuration sym preamble + n * sym)

/-! ### TXParamSetup EIRP -/

/-- a float32 given by its bits, as (negative, numerator, log2 denominator) or non-finite -/
inductive F32 where
  | fin (neg : Bool) (num : Nat) (den2 : Nat) (scale2 : Nat)   -- value = ± num · 2^scale2 / 2^den2
  | inf (neg : Bool)
  | nan
  deriving Repr, DecidableEq

def f32OfBits (bits : Nat) : F32 :=
  let s := bits / 2 ^ 31 % 2 == 1
  let e := bits / 2 ^ 23 % 256
  let m := bits % 2 ^ 23
  if e == 255 then (if m == 0 then .inf s else .nan)
  else if e == 0 then .fin s m 149 0
  else if e ≥ 150 then .fin s (m + 2 ^ 23) 0 (e - 150)
  else .fin s (m + 2 ^ 23) (150 - e) 0

/-- `e > x` for a table entry e (a natural number) and a float32 x -/
def natGtF32 (e : Nat) : F32 → Bool
  | .nan => false
  | .inf neg => neg
  | .fin neg num den2 scale2 => if neg then (e > 0 ∨ num > 0) else e * 2 ^ den2 > num * 2 ^ scale2

/-- `GetTXParamSetupEIRPIndex` -/
def eirpIndex (table : List Nat) (x : F32) : Nat :=
  let rec go : List Nat → Nat → Nat → Nat
    | [], _, out => out
    | e :: es, i, out => if natGtF32 e x then out else go es (i + 1) i
  go table 0 0

/-- `GetTXParamSetupEIRP` -/
def eirpOfIndex (table : List Nat) (i : Nat) : Outcome Nat :=
  if i > table.length - 1 then err else match table[i]? with | some v => ok v | none => err

end LW
