/-
  LW.Model.Exchange — the sender / receiver call sequence of C05 composed from the model functions
  (mirror of harness/ops_exchange.go, which performs the same calls on the real library).
-/
import LW.Model.Crypto
namespace LW
open Outcome

inductive RxResult where
  | decErr | notData | valErr | rejected | acceptedFOptsErr | acceptedFrmErr
  | accepted (f : PHY)
  deriving DecidableEq, Repr, Inhabited

structure LinkParams where
  ver : Byte
  conf : BitVec 32
  txDr : Byte
  txCh : Byte
  fKey : Bytes
  sKey : Bytes
  deriving DecidableEq, Repr, Inhabited

def isUpData (mt : Byte) : Bool := mt == 2 || mt == 4

def frmKeyOf (fPort : Option Byte) (encKey appKey : Bytes) : Bytes :=
  if fPort == some 0 then encKey else appKey

/-- sender: encrypt FRMPayload → (1.1) encrypt FOpts → set MIC → marshal -/
def sender (E : BlockCipher) (lp : LinkParams) (encKey appKey : Bytes) (p : PHY) : Outcome Bytes :=
  match p.payload with
  | some (.mac _ fPort _) => do
    let p1 ← p.encryptFRM E (frmKeyOf fPort encKey appKey)
    let p2 ← if lp.ver != 0 then p1.encryptFOpts E encKey else ok p1
    let p3 ← if isUpData p.mtype then setMIC p2 (calcUplinkDataMIC E lp.ver lp.conf lp.txDr lp.txCh lp.fKey lp.sKey p2)
             else setMIC p2 (calcDownlinkDataMIC E lp.ver lp.conf lp.sKey p2)
    p3.enc
  | _ => err

/-- receiver: unmarshal → set the 32-bit FCnt → validate MIC → (1.1) decrypt / (1.0) decode FOpts → decrypt FRMPayload -/
def receiver (E : BlockCipher) (reg : Registry) (lp : LinkParams) (encKey appKey : Bytes) (fcntHi : BitVec 32) (bs : Bytes) : RxResult :=
  match PHY.dec bs with
  | .ok q =>
    match q.payload with
    | some (.mac h fPort frm) =>
      let h' := { h with fCnt := fcntHi ||| (h.fCnt &&& 0xffff#32) }
      let q := { q with payload := some (.mac h' fPort frm) }
      let v := if isUpData q.mtype then validateMIC q (calcUplinkDataMIC E lp.ver lp.conf lp.txDr lp.txCh lp.fKey lp.sKey q)
               else validateMIC q (calcDownlinkDataMIC E lp.ver lp.conf lp.sKey q)
      match v with
      | .ok true =>
        match (if lp.ver != 0 then q.decryptFOpts E reg encKey else q.decodeFOpts reg) with
        | .ok q2 =>
          match q2.decryptFRM E reg (frmKeyOf fPort encKey appKey) with
          | .ok q3 => .accepted q3
          | _ => .acceptedFrmErr
        | _ => .acceptedFOptsErr
      | .ok false => .rejected
      | _ => .valErr
    | _ => .notData
  | _ => .decErr

/-- the receiver, taking the frame for the opposite direction when `other` is set (a device that validates what it hears with the
downlink function whatever the MType says, and the reverse); `receiverDir false = receiver` -/
def receiverDir (other : Bool) (E : BlockCipher) (reg : Registry) (lp : LinkParams) (encKey appKey : Bytes) (fcntHi : BitVec 32) (bs : Bytes) : RxResult :=
  match PHY.dec bs with
  | .ok q =>
    match q.payload with
    | some (.mac h fPort frm) =>
      let h' := { h with fCnt := fcntHi ||| (h.fCnt &&& 0xffff#32) }
      let q := { q with payload := some (.mac h' fPort frm) }
      let v := if isUpData q.mtype != other then validateMIC q (calcUplinkDataMIC E lp.ver lp.conf lp.txDr lp.txCh lp.fKey lp.sKey q)
               else validateMIC q (calcDownlinkDataMIC E lp.ver lp.conf lp.sKey q)
      match v with
      | .ok true =>
        match (if lp.ver != 0 then q.decryptFOpts E reg encKey else q.decodeFOpts reg) with
        | .ok q2 =>
          match q2.decryptFRM E reg (frmKeyOf fPort encKey appKey) with
          | .ok q3 => .accepted q3
          | _ => .acceptedFrmErr
        | _ => .acceptedFOptsErr
      | .ok false => .rejected
      | _ => .valErr
    | _ => .notData
  | _ => .decErr

/-- tamper codes from 2^40 on: nothing is corrupted, the receiver assumes the other direction -/
def otherDirOf (t : Nat) : Bool := decide (2 ^ 40 ≤ t)

def flipBit (bs : Bytes) (bit : Nat) : Bytes :=
  bs.set (bit / 8) ((bs.getD (bit / 8) 0) ^^^ byteOfNat (2 ^ (bit % 8)))

def flipKeyBit (k : Bytes) (bit : Nat) : Bytes := flipBit k (((bit / 8) % 16) * 8 + bit % 8)

/-- the tampering applied between sender and receiver (0 = none) -/
def tamperOf (t : Nat) (lp : LinkParams) (fcntHi : BitVec 32) (bs : Bytes) : LinkParams × BitVec 32 × Bytes :=
  if t == 0 then (lp, fcntHi, bs) else
  let kind := t % 8
  let arg := t / 8
  match kind with
  | 0 => (lp, fcntHi, flipBit bs (arg % (bs.length * 8)))
  | 1 => ({ lp with fKey := flipKeyBit lp.fKey arg }, fcntHi, bs)
  | 2 => ({ lp with sKey := flipKeyBit lp.sKey arg }, fcntHi, bs)
  | 3 => (lp, fcntHi ^^^ (BitVec.ofNat 32 (1 + arg % 65535) <<< 16), bs)
  | 4 => ({ lp with conf := lp.conf ^^^ BitVec.ofNat 32 (1 + arg % 65535) }, fcntHi, bs)
  | 5 => ({ lp with txDr := lp.txDr ^^^ byteOfNat (1 + arg % 255) }, fcntHi, bs)
  | 6 => ({ lp with txCh := lp.txCh ^^^ byteOfNat (1 + arg % 255) }, fcntHi, bs)
  | _ => ({ lp with ver := lp.ver ^^^ 1#8 }, fcntHi, bs)

end LW
