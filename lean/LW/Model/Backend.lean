/-
  LW.Model.Backend — mirror of the value types of /repo/backend/backend.go:
  Frequency / Percentage (JSON numbers through binary64), HEXBytes, ISO8601Time (RFC 3339 text), KeyEnvelope (RFC 3394).

  binary64 is modelled exactly on integers: a finite non-negative double is a pair (m, k) with value m / 2^k
  (m < 2^53 after normalisation, k ≤ 1074), rounding is round-to-nearest-even of an exact rational.
  Trusted (not modelled): strconv's shortest decimal printing and correctly rounded parsing — `json.Marshal(float64)` followed by
  `strconv.ParseFloat` is the identity on finite doubles, so the JSON text in between is skipped; the harness hands the
  model the bits of the double that the marshalled text denotes, and decimal texts are parsed here as exact rationals.
-/
import LW.Basic
import LW.Crypto.CMAC
namespace LW.Backend
open LW Outcome

/-! ### exact binary64 rounding -/

/-- round-to-nearest-even of a / b -/
def rne (a b : Nat) : Nat :=
  let q := a / b
  let r := a % b
  if 2 * r < b then q else if 2 * r > b then q + 1 else if q % 2 = 0 then q else q + 1

/-- n / d scaled by 2^k, as a fraction -/
def scaled (n d : Nat) (k : Int) : Nat × Nat :=
  if k ≥ 0 then (n * 2 ^ k.toNat, d) else (n, d * 2 ^ (-k).toNat)

/-- exponent k with 2^52 ≤ ⌊n · 2^k / d⌋ < 2^53, capped at 1074 (subnormals) -/
def expOf (n d : Nat) : Int :=
  let k0 : Int := 52 - ((Nat.log2 n : Int) - (Nat.log2 d : Int))
  let t := (scaled n d k0).1 / (scaled n d k0).2
  let k := if t ≥ 2 ^ 53 then k0 - 1 else if t < 2 ^ 52 then k0 + 1 else k0
  if k > 1074 then 1074 else k

/-- fl(n / d) for n, d > 0: `some (m, k)` is the double m / 2^k, `none` is overflow (+Inf) -/
def roundPos (n d : Nat) : Option (Nat × Int) :=
  if n = 0 then some (0, 0) else
  let k := expOf n d
  let m := rne (scaled n d k).1 (scaled n d k).2
  -- overflow: m / 2^k ≥ 2^1024
  if k ≤ -971 ∧ m ≥ 2 ^ (1024 + k).toNat then none else some (m, k)

/-- IEEE-754 bit pattern of a non-negative double -/
def bitsOf (m : Nat) (k : Int) : Nat :=
  if m = 0 then 0 else
  let (m, k) := if m = 2 ^ 53 then (2 ^ 52, k - 1) else (m, k)
  if m < 2 ^ 52 then m   -- subnormal (k = 1074)
  else ((1075 - k).toNat) * 2 ^ 52 + (m - 2 ^ 52)

/-- (m, k) ↦ (m · c) rounded: multiplication of a double by the integer c (c itself exactly representable) -/
def mulInt (x : Nat × Int) (c : Nat) : Option (Nat × Int) :=
  if x.2 ≥ 0 then roundPos (x.1 * c) (2 ^ x.2.toNat) else roundPos (x.1 * c * 2 ^ (-x.2).toNat) 1

/-- (m, k) ↦ x / c rounded -/
def divInt (x : Nat × Int) (c : Nat) : Option (Nat × Int) :=
  if x.2 ≥ 0 then roundPos x.1 (c * 2 ^ x.2.toNat) else roundPos (x.1 * 2 ^ (-x.2).toNat) c

/-- `math.Round`: nearest integer, halves away from zero (on the magnitude) -/
def roundHalfAway (x : Nat × Int) : Nat :=
  if x.2 ≤ 0 then x.1 * 2 ^ (-x.2).toNat
  else
    let q := x.1 / 2 ^ x.2.toNat
    let r := x.1 % 2 ^ x.2.toNat
    if 2 * r ≥ 2 ^ x.2.toNat then q + 1 else q

/-! ### Frequency / Percentage -/

/-- the double `float64(v) / scale` that MarshalJSON prints (sign, magnitude) -/
def marshalScaled (scale : Nat) (v : Int) : Option (Bool × (Nat × Int)) := do
  let x ← roundPos v.natAbs 1          -- float64(int)
  let y ← divInt x scale
  pure (decide (v < 0), y)

/-- `T(math.Round(x * scale))` for a finite double x -/
def unmarshalScaled (scale : Nat) (neg : Bool) (x : Nat × Int) : Option Int := do
  let y ← mulInt x scale
  let n := roundHalfAway y
  pure (if neg then -(n : Int) else n)

/-- marshal then unmarshal of the integer v (Hz for Frequency with scale 10^6, percent for Percentage with scale 100) -/
def roundTripScaled (scale : Nat) (v : Int) : Option Int := do
  let (neg, x) ← marshalScaled scale v
  unmarshalScaled scale neg x

def signedBits (neg : Bool) (x : Nat × Int) : Nat := (if neg then 2 ^ 63 else 0) + bitsOf x.1 x.2

/-! ### JSON number text -/

def isDigit (c : Char) : Bool := '0' ≤ c ∧ c ≤ '9'
def digitsVal (cs : List Char) : Nat := cs.foldl (fun a c => a * 10 + (c.toNat - 48)) 0
def isJSONSpace (c : Char) : Bool := c == ' ' || c == '\t' || c == '\n' || c == '\r'

/-- a JSON number `-? int frac? exp?` as sign, digit string, decimal exponent: value = ± digits · 10^exp -/
def parseJSONNumber (s : List Char) : Option (Bool × Nat × Int) :=
  let s := (s.dropWhile isJSONSpace).reverse.dropWhile isJSONSpace |>.reverse
  let (neg, s) := match s with | '-' :: r => (true, r) | _ => (false, s)
  let ip := s.takeWhile isDigit
  let s := s.dropWhile isDigit
  if ip.isEmpty then none
  else if ip.length > 1 ∧ ip.head? = some '0' then none
  else
    let fracRes : Option (List Char × List Char) := match s with
      | '.' :: r =>
        let fp := r.takeWhile isDigit
        if fp.isEmpty then none else some (fp, r.dropWhile isDigit)
      | _ => some ([], s)
    match fracRes with
    | none => none
    | some (fp, s) =>
      let expRes : Option Int := match s with
        | [] => some 0
        | c :: r =>
          if c == 'e' || c == 'E' then
            let (eneg, r) := match r with | '-' :: r' => (true, r') | '+' :: r' => (false, r') | _ => (false, r)
            if r.isEmpty || !r.all isDigit then none
            else some (if eneg then -(digitsVal r : Int) else (digitsVal r : Int))
          else none
      match expRes with
      | none => none
      | some e => some (neg, digitsVal (ip ++ fp), e - fp.length)

/-- `strconv.ParseFloat` on a valid JSON number: correctly rounded; `none` = out of range (error) -/
def floatOfDecimal (d : Nat) (e : Int) : Option (Nat × Int) :=
  if d = 0 then some (0, 0)
  else if e > 400 then none
  else if e < -2000 then some (0, 0)      -- far below the smallest subnormal for the digit strings that occur (≤ 1000 digits)
  else if e ≥ 0 then roundPos (d * 10 ^ e.toNat) 1 else roundPos d (10 ^ (-e).toNat)

/-- `json.Unmarshal(text, &v)` for Frequency (scale 10^6) / Percentage (scale 100):
`err` = not a JSON number or out of float range; `ok none` = beyond int64 (conversion undefined, outside the property) -/
def decodeScaled (scale : Nat) (text : List Char) : Outcome (Option Int) :=
  match parseJSONNumber text with
  | none => err
  | some (neg, d, e) =>
    match floatOfDecimal d e with
    | none => err
    | some x =>
      match unmarshalScaled scale neg x with
      | none => ok none
      | some v => if v.natAbs ≥ 9200000000000000000 then ok none else ok (some v)

/-! ### HEXBytes -/

def hexText (b : Bytes) : List Char := b.flatMap hexOfByte

/-- `UnmarshalText`: one optional "0x" prefix, then `hex.DecodeString` -/
def hexParse (t : List Char) : Outcome Bytes :=
  let t := match t with | '0' :: 'x' :: r => r | _ => t
  match hexDecodeChars t with
  | some b => ok b
  | none => err

/-! ### ISO8601Time: RFC 3339 text of an instant in a fixed zone -/

/-- (era, day of era) ↦ (year, month, day): the part of the civil-date algorithm after the split into 400-year eras -/
def civilOfDoe (era doe : Int) : Int × Int × Int :=
  let yoe := (doe - doe / 1460 + doe / 36524 - doe / 146096) / 365
  let y := yoe + era * 400
  let doy := doe - (365 * yoe + yoe / 4 - yoe / 100)
  let mp := (5 * doy + 2) / 153
  let d := doy - (153 * mp + 2) / 5 + 1
  let m := if mp < 10 then mp + 3 else mp - 9
  (if m ≤ 2 then y + 1 else y, m, d)

/-- days since 1970-01-01 ↦ (year, month, day), proleptic Gregorian -/
def civilFromDays (z : Int) : Int × Int × Int :=
  civilOfDoe ((z + 719468) / 146097) ((z + 719468) % 146097)

def daysFromCivil (y m d : Int) : Int :=
  let y := if m ≤ 2 then y - 1 else y
  let era := y / 400
  let yoe := y - era * 400
  let doy := (153 * (if m > 2 then m - 3 else m + 9) + 2) / 5 + d - 1
  let doe := yoe * 365 + yoe / 4 - yoe / 100 + doy
  era * 146097 + doe - 719468

def isLeap (y : Int) : Bool := y % 4 == 0 && (y % 100 != 0 || y % 400 == 0)
def daysIn (y m : Int) : Int :=
  if m == 2 then (if isLeap y then 29 else 28)
  else if m == 4 || m == 6 || m == 9 || m == 11 then 30 else 31

def dig (n : Nat) : Char := Char.ofNat (48 + n % 10)

/-- `appendInt(x, width)`: zero padded decimal; the two widths RFC 3339 uses are written digit by digit -/
def pad (w : Nat) (n : Nat) : List Char :=
  if w = 2 ∧ n < 100 then [dig (n / 10), dig n]
  else if w = 4 ∧ n < 10000 then [dig (n / 1000), dig (n / 100), dig (n / 10), dig n]
  else
    let s := (toString n).toList
    List.replicate (w - s.length) '0' ++ s

/-- `time.Time.Format(time.RFC3339)` of the instant `sec` (Unix seconds) shown in a zone `offMin` minutes east of UTC -/
def formatRFC3339 (sec : Int) (offMin : Int) : List Char :=
  let l := sec + offMin * 60
  let days := l / 86400
  let rem := l - days * 86400
  let (y, m, d) := civilFromDays days
  let year : List Char := if y < 0 then '-' :: pad 4 (-y).toNat else pad 4 y.toNat
  let zone : List Char :=
    if offMin == 0 then ['Z']
    else (if offMin < 0 then '-' else '+') :: (pad 2 (offMin.natAbs / 60) ++ [':'] ++ pad 2 (offMin.natAbs % 60))
  year ++ ['-'] ++ pad 2 m.toNat ++ ['-'] ++ pad 2 d.toNat ++ ['T'] ++ pad 2 (rem / 3600).toNat ++ [':'] ++
    pad 2 (rem % 3600 / 60).toNat ++ [':'] ++ pad 2 (rem % 60).toNat ++ zone

def dval (c : Char) : Nat := c.toNat - 48

/-- `getnum(s, fixed)` of package time -/
def getnum (s : List Char) (fixed : Bool) : Option (Nat × List Char) :=
  match s with
  | a :: b :: r =>
    if !isDigit a then none
    else if isDigit b then some (dval a * 10 + dval b, r)
    else if fixed then none else some (dval a, b :: r)
  | [a] => if isDigit a && !fixed then some (dval a, []) else none
  | [] => none

def expect (c : Char) (s : List Char) : Option (List Char) :=
  match s with
  | x :: r => if x == c then some r else none
  | [] => none

/-- year (four digits), month and day (two digits each) -/
def parseDate (s : List Char) : Option ((Int × Nat × Nat) × List Char) := do
  let (yc, s) ← (if s.length ≥ 4 then some (s.take 4, s.drop 4) else none)
  if !yc.all isDigit then none
  let year : Int := digitsVal yc
  let s ← expect '-' s
  let (month, s) ← getnum s true
  if month = 0 ∨ month > 12 then none
  let s ← expect '-' s
  let (day, s) ← getnum s true
  pure ((year, month, day), s)

/-- hh:mm:ss; the hour may be one digit -/
def parseClock (s : List Char) : Option ((Nat × Nat × Nat) × List Char) := do
  let (hour, s) ← getnum s false
  if hour ≥ 24 then none
  let s ← expect ':' s
  let (minute, s) ← getnum s true
  if minute ≥ 60 then none
  let s ← expect ':' s
  let (second, s) ← getnum s true
  if second ≥ 60 then none
  pure ((hour, minute, second), s)

/-- optional fractional second although the layout has none -/
def parseFrac (s : List Char) : Nat × List Char :=
  match s with
  | c :: d :: r =>
    if (c == '.' || c == ',') && isDigit d then
      let ds := (d :: r).takeWhile isDigit
      let used := ds.take 9
      (digitsVal used * 10 ^ (9 - used.length), (d :: r).dropWhile isDigit)
    else (0, s)
  | _ => (0, s)

/-- zone: Z or ±hh:mm, as seconds east of UTC -/
def parseZone (s : List Char) : Option (Int × List Char) :=
  match s with
  | 'Z' :: r => some (0, r)
  | sg :: h1 :: h2 :: ':' :: m1 :: m2 :: r =>
    if !(sg == '+' || sg == '-') then none
    else if !(isDigit h1 && isDigit h2 && isDigit m1 && isDigit m2) then none
    else
      let hr := dval h1 * 10 + dval h2
      let mm := dval m1 * 10 + dval m2
      if hr > 24 ∨ mm > 60 then none
      else
        let o : Int := ((hr * 60 + mm) * 60 : Nat)
        some (if sg == '-' then -o else o, r)
  | _ => none

/-- `time.Parse(time.RFC3339, text)`: Unix seconds and nanoseconds; `none` = error -/
def parseRFC3339 (s : List Char) : Option (Int × Nat) := do
  let ((year, month, day), s) ← parseDate s
  let s ← expect 'T' s
  let ((hour, minute, second), s) ← parseClock s
  let (nsec, s) := parseFrac s
  let (off, s) ← parseZone s
  if !s.isEmpty then none
  if day < 1 ∨ (day : Int) > daysIn year month then none
  pure (daysFromCivil year month day * 86400 + hour * 3600 + minute * 60 + second - off, nsec)

/-! ### key envelope: RFC 3394 as implemented by go-aes-key-wrap, for a two-block (128-bit) key -/

def defaultIV : Bytes := List.replicate 8 0xA6#8

/-- 8-byte big-endian counter -/
def be64 (t : Nat) : Bytes := (leBytes 8 t).reverse

/-- one wrapping step: B = AES(K, A | R[i]); A = MSB64(B) xor t; R[i] = LSB64(B) -/
def wrapStep (enc : Bytes → Bytes) (a r : Bytes) (t : Nat) : Bytes × Bytes :=
  let b := enc (a ++ r)
  (xorBytes (b.take 8) (be64 t), b.drop 8)

/-- `keywrap.Wrap` for n = 2: j = 0..5, i = 1..2, t = 2j + i -/
def wrapLoop (enc : Bytes → Bytes) : Nat → Nat → Bytes × Bytes × Bytes → Bytes × Bytes × Bytes
  | 0, _, s => s
  | fuel+1, j, (a, r1, r2) =>
    let (a, r1) := wrapStep enc a r1 (2 * j + 1)
    let (a, r2) := wrapStep enc a r2 (2 * j + 2)
    wrapLoop enc fuel (j + 1) (a, r1, r2)

def wrap16 (enc : Bytes → Bytes) (key : Bytes) : Bytes :=
  let (a, r1, r2) := wrapLoop enc 6 0 (defaultIV, key.take 8, key.drop 8)
  a ++ r1 ++ r2

/-- one unwrapping step: B = AES⁻¹(K, (A xor t) | R[i]); A = MSB64(B); R[i] = LSB64(B) -/
def unwrapStep (dec : Bytes → Bytes) (a r : Bytes) (t : Nat) : Bytes × Bytes :=
  let b := dec (xorBytes a (be64 t) ++ r)
  (b.take 8, b.drop 8)

/-- j = 5..0, i = 2..1 -/
def unwrapLoop (dec : Bytes → Bytes) : Nat → Bytes × Bytes × Bytes → Bytes × Bytes × Bytes
  | 0, s => s
  | j+1, (a, r1, r2) =>
    let (a, r2) := unwrapStep dec a r2 (2 * j + 2)
    let (a, r1) := unwrapStep dec a r1 (2 * j + 1)
    unwrapLoop dec j (a, r1, r2)

/-- `NewKeyEnvelope(label, kek, key)`: (label present, AESKey); `kekLen` valid AES key sizes only -/
def newKeyEnvelope (E : BlockCipher) (label : Bool) (kek key : Bytes) : Outcome (Bool × Bytes) :=
  if !label || kek.length == 0 then ok (false, key)
  else if !(kek.length == 16 || kek.length == 24 || kek.length == 32) then err
  else ok (true, wrap16 (E.enc kek) key)

/-- `KeyEnvelope.Unwrap(kek)`: 24-byte AESKey only (after the repair c17-unwrap-length), valid KEK size, integrity check -/
def unwrapEnvelope (E : BlockCipher) (kek aesKey : Bytes) : Outcome Bytes :=
  if aesKey.length != 24 then err
  else if !(kek.length == 16 || kek.length == 24 || kek.length == 32) then err
  else
    let (a, r1, r2) := unwrapLoop (E.dec kek) 6 (aesKey.take 8, (aesKey.drop 8).take 8, aesKey.drop 16)
    if a == defaultIV then ok (r1 ++ r2) else err

end LW.Backend
