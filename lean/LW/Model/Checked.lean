/-
  LW.Model.Checked — the frame decoders once more, this time with the *index expressions of the Go source*:
  every `data[i]` is `index`, every `data[lo:hi]` is `slice` (LW.Basic), which yield `panic` exactly when Go's
  bounds check would. LW.Proofs.Checked proves that these transcriptions never panic and equal the total
  decoders of LW.Model.Frame (whose results are compared with the Go code on every run), for every byte string.
-/
import LW.Model.Frame
import LW.Model.App
namespace LW.Checked
open LW Outcome

/-- `FHDR.UnmarshalBinary`: data[0:4], data[4:5], data[5:7], data[7:] -/
def fhdrDec (data : Bytes) : Outcome FHDR :=
  if data.length < 7 then err
  else do
    let a ← slice data 0 4
    let c ← slice data 4 5
    let f ← slice data 5 7
    let c0 ← index c 0
    let opts ← (if data.length > 7 then do let o ← slice data 7 data.length; pure [Item.data o] else pure [])
    ok { devAddr := BitVec.ofNat 32 (leNat a), fCtrl := FCtrl.dec c0, fCnt := BitVec.ofNat 32 (leNat f), fOpts := opts }

/-- `MACPayload.UnmarshalBinary`: data[4:5], data[0:7+fOptsLen], data[7+fOptsLen], data[7+fOptsLen+1:] -/
def macDec (data : Bytes) : Outcome MacPL :=
  let n := data.length
  if n < 7 then err
  else do
    let c ← slice data 4 5
    let c0 ← index c 0
    let fol := (c0 &&& 0x0f#8).toNat
    if n < 7 + fol then err
    else do
      let hd ← slice data 0 (7 + fol)
      let h ← fhdrDec hd
      if n > 7 + fol then do
        let port ← index data (7 + fol)
        if port == 0 ∧ fol > 0 then err
        else if n > 7 + fol + 1 then do
          let frm ← slice data (7 + fol + 1) n
          ok (.mac h (some port) [.data frm])
        else ok (.mac h (some port) [])
      else ok (.mac h none [])

/-- `PHYPayload.UnmarshalBinary`: data[0:1], data[1], data[1:len-4], data[len-4+i] -/
def phyDec (data : Bytes) : Outcome PHY :=
  let n := data.length
  if n < 5 then err
  else do
    let h ← slice data 0 1
    let b0 ← index h 0
    let mtype := b0 >>> 5
    let major := b0 &&& 3#8
    let body ← slice data 1 (n - 4)
    let m0 ← index data (n - 4)
    let m1 ← index data (n - 4 + 1)
    let m2 ← index data (n - 4 + 2)
    let m3 ← index data (n - 4 + 3)
    let fin (pl : MacPL) : Outcome PHY := ok { mtype, major, payload := some pl, mic := [m0, m1, m2, m3] }
    if mtype == 0 then
      if body.length != 18 then err
      else do
        let j ← slice body 0 8
        let d ← slice body 8 16
        let nn ← slice body 16 18
        fin (.joinReq (BitVec.ofNat 64 (leNat j)) (BitVec.ofNat 64 (leNat d)) (BitVec.ofNat 16 (leNat nn)))
    else if mtype == 1 ∨ mtype == 7 then fin (.data body)
    else if mtype == 6 then do
      let t ← index data 1
      if t == 0 ∨ t == 2 then
        if body.length != 14 then err
        else do
          let nid ← slice body 1 4
          let d ← slice body 4 12
          let c ← slice body 12 14
          fin (.rejoin02 t (BitVec.ofNat 24 (leNat nid)) (BitVec.ofNat 64 (leNat d)) (BitVec.ofNat 16 (leNat c)))
      else if t == 1 then
        if body.length != 19 then err
        else do
          let j ← slice body 1 9
          let d ← slice body 9 17
          let c ← slice body 17 19
          fin (.rejoin1 t (BitVec.ofNat 64 (leNat j)) (BitVec.ofNat 64 (leNat d)) (BitVec.ofNat 16 (leNat c)))
      else err
    else do
      let pl ← macDec body
      fin pl


/-! ### the MAC-command stream loop with its cursor arithmetic -/

/-- `decodeDataPayloadToMACCommands`: `Bytes[i]`, `len(Bytes[i:]) < plLen+1`, `Bytes[i:i+1+plLen]`, `i = i + plLen` then `i++`.
`plLen` is the registered size (an `int`, possibly of a proprietary registration). -/
def regSize (reg : Registry) (uplink : Bool) (c : Byte) : Int :=
  match reg.lookup uplink c.toNat with | some e => e.size | none => 0

def streamLoop (reg : Registry) (uplink : Bool) (data : Bytes) : Nat → Nat → List MacCmd → Outcome (List MacCmd)
  | 0, _, acc => ok acc.reverse
  | fuel+1, i, acc =>
    if i < data.length then do
      let c ← index data i
      let plLen : Int := regSize reg uplink c
      let rest ← slice data i data.length
      if (rest.length : Int) < plLen + 1 then err
      else if plLen + 1 < 0 then panic          -- data[i : i+1+plLen] with a high bound below the low bound
      else do
        let chunk ← slice data i (i + (plLen + 1).toNat)
        match MacCmd.dec reg uplink chunk with
        | .ok (mc, _) => streamLoop reg uplink data fuel (i + (plLen + 1).toNat) (mc :: acc)
        | _ => panic
    else ok acc.reverse

def stream (reg : Registry) (uplink : Bool) (data : Bytes) : Outcome (List MacCmd) :=
  streamLoop reg uplink data (data.length + 1) 0 []

/-! ### application-layer decoders that compute offsets -/

/-- `McGroupStatusAnsPayload.UnmarshalBinary`: count from the mask bits, `len(data) < Size()`, then for i < count:
`offset := 1 + i*5`, `data[offset]`, `data[offset+1 : offset+5]` -/
def statusAnsItems (data : Bytes) : Nat → Nat → Outcome (List (Byte × Bytes))
  | 0, _ => ok []
  | k+1, i => do
    let off := 1 + i * 5
    let g ← index data off
    let a ← slice data (off + 1) (off + 5)
    let r ← statusAnsItems data k (i + 1)
    ok ((g &&& 0x03#8, a.reverse) :: r)

def statusAnsDec (data : Bytes) : Outcome App.AP :=
  if data.length == 0 then err
  else do
    let b0 ← index data 0
    let m := App.Mask4.ofByte b0
    if data.length < 1 + 5 * m.count then err
    else do
      let items ← statusAnsItems data m.count 0
      ok (.mcGroupStatusAns ((b0 &&& 0x70#8) >>> 4) m items)

/-- `Mc{ClassC,ClassB}SessionAnsPayload.UnmarshalBinary`: `data[0]`, `data[1:4]` -/
def sessionAnsDec (mk : Bool → Bool → Bool → Byte → Option Nat → App.AP) (data : Bytes) : Outcome App.AP :=
  if data.length == 0 then err
  else do
    let b0 ← index data 0
    let id := b0 &&& 0x03#8
    let d := (b0 &&& 0x04#8) != 0
    let f := (b0 &&& 0x08#8) != 0
    let u := (b0 &&& 0x10#8) != 0
    if App.hasError u f d then ok (mk u f d id none)
    else if data.length < 4 then err
    else do
      let t ← slice data 1 4
      ok (mk u f d id (some (leNat t)))

/-- `DevUpgradeImageAnsPayload.UnmarshalBinary`: `data[0]`, `data[1:5]` -/
def upgradeAnsDec (data : Bytes) : Outcome App.AP :=
  if data.length < 1 then err
  else do
    let s ← index data 0
    if (s &&& 0x03#8) == 3#8 then
      if data.length < 5 then err
      else do
        let v ← slice data 1 5
        ok (.devUpgradeImageAns (s &&& 0x03#8) (some (leNat v)))
    else ok (.devUpgradeImageAns (s &&& 0x03#8) none)

/-- `DataFragmentPayload.UnmarshalBinary`: `data[0:2]`, `data[1]`, `data[2:]` -/
def dataFragmentDec (data : Bytes) : Outcome App.AP :=
  if data.length < 2 then err
  else do
    let n ← slice data 0 2
    let b1 ← index data 1
    let p ← slice data 2 data.length
    ok (.dataFragment (b1 >>> 6) (leNat n % 16384) p)

/-! ### CFList and join-accept payload (payload.go) -/

/-- the channel loop of `CFListChannelPayload.UnmarshalBinary`: data[i*3], data[i*3+1], data[i*3+2] for i < len/3 -/
def cfChannelsLoop (data : Bytes) : Nat → Nat → Outcome (List (BitVec 32))
  | 0, _ => ok []
  | k+1, i => do
    let b0 ← index data (i * 3)
    let b1 ← index data (i * 3 + 1)
    let b2 ← index data (i * 3 + 2)
    let r ← cfChannelsLoop data k (i + 1)
    ok (freq100Dec [b0, b1, b2] :: r)

/-- `CFListChannelPayload.UnmarshalBinary` -/
def cfChannelsDec (data : Bytes) : Outcome (List (BitVec 32)) :=
  if data.length > 15 then err
  else if data.length % 3 != 0 then err
  else do
    let new ← cfChannelsLoop data (data.length / 3) 0
    ok (new ++ (List.replicate 5 (0 : BitVec 32)).drop (data.length / 3))

/-- the mask loop of `CFListChannelMaskPayload.UnmarshalBinary`: data[i*2 : i*2+2] for i < len/2 (after `data = data[:len-len%2]`) -/
def cfMasksSlices (data : Bytes) : Nat → Nat → Outcome (List (BitVec 16))
  | 0, _ => ok []
  | k+1, i => do
    let s ← slice data (i * 2) (i * 2 + 2)
    let m ← chMaskDec 0 s
    let r ← cfMasksSlices data k (i + 1)
    ok (m :: r)

/-- `CFListChannelMaskPayload.UnmarshalBinary` -/
def cfMasksDec (data : Bytes) : Outcome (List (BitVec 16)) :=
  if data.length > 15 then err
  else do
    let d ← slice data 0 (data.length - data.length % 2)
    let ms ← cfMasksSlices d (d.length / 2) 0
    ok (cfMasksLoop ms [] [])

/-- `CFList.UnmarshalBinary`: data[15], data[:15] -/
def cfListDec (data : Bytes) : Outcome CFList :=
  if data.length != 16 then err
  else do
    let t ← index data 15
    let body ← slice data 0 15
    if t == 1 then do
      let m ← cfMasksDec body
      ok { payload := .masks m, typ := t }
    else do
      let c ← cfChannelsDec body
      ok { payload := .channels c, typ := t }

/-- `JoinAcceptPayload.UnmarshalBinary`: data[0:3], data[3:6], data[6:10], data[10:11], data[11], data[12:] -/
def joinAcceptDec (data : Bytes) : Outcome JoinAccept :=
  if data.length != 12 ∧ data.length != 28 then err
  else do
    let jn ← slice data 0 3
    let nid ← slice data 3 6
    let addr ← slice data 6 10
    let dl ← slice data 10 11
    let dl0 ← index dl 0
    let rxd ← index data 11
    let (o, r2, r1) := dlSettingsDec dl0
    let base : JoinAccept :=
      { joinNonce := BitVec.ofNat 32 (leNat jn), homeNetID := BitVec.ofNat 24 (leNat nid), devAddr := BitVec.ofNat 32 (leNat addr),
        optNeg := o, rx2dr := r2, rx1off := r1, rxDelay := rxd, cfList := none }
    if data.length == 28 then do
      let rest ← slice data 12 data.length
      let l ← cfListDec rest
      ok { base with cfList := some l }
    else ok base


end LW.Checked
