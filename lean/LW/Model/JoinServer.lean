/-
  LW.Model.JoinServer — mirror of /repo/backend/joinserver: the JoinReq / RejoinReq flows of the HTTP handler as a pure
  function of the request and of what the configuration callbacks return (device keys, KEKs).
  Built on the frame / MIC / join-accept-encryption model (LW.Model.Frame, LW.Model.Crypto) and the key-envelope model
  (LW.Model.Backend). Not modelled: HTTP and JSON transport (the harness builds the JSON request with the repo's own
  payload structs and parses the JSON answer), logging.
-/
import LW.Model.Crypto
import LW.Model.NetID
import LW.Model.Backend
namespace LW.JS
open LW Outcome

structure Req where
  rejoin : Bool
  sender : String
  receiver : String
  txid : Nat
  phy : Bytes
  devEUI : BitVec 64
  devAddr : BitVec 32
  optNeg : Bool
  rx2dr : Byte
  rx1off : Byte
  rxDelay : Int
  cfList : Bytes
  deriving Repr

/-- what the configuration callbacks return for this request -/
structure Conf where
  device : Option (Bytes × Bytes × Int)   -- NwkKey, AppKey, JoinNonce; none = ErrDevEUINotFound
  nsKEK : Bytes                            -- GetKEKByLabel(SenderID), empty when none
  asLabel : Bool                           -- GetASKEKLabelByDevEUI returned a label
  asKEK : Bytes
  lookupFails : Bool := false              -- one of GetKEKByLabel / GetASKEKLabelByDevEUI returned an error
  deriving Repr

structure Ans where
  code : Nat
  result : String
  sender : String
  receiver : String
  txid : Nat
  msgType : String
  phy : Bytes := []
  sNwkSIntKey : Option (Bool × Bytes) := none
  fNwkSIntKey : Option (Bool × Bytes) := none
  nwkSEncKey : Option (Bool × Bytes) := none
  nwkSKey : Option (Bool × Bytes) := none
  appSKey : Option (Bool × Bytes) := none
  deriving Repr, DecidableEq

/-- what the task pipeline contributes to a Success answer (the wrapper adds the mirrored base payload) -/
structure Body where
  phy : Bytes
  sNwkSIntKey : Option (Bool × Bytes) := none
  fNwkSIntKey : Option (Bool × Bytes) := none
  nwkSEncKey : Option (Bool × Bytes) := none
  nwkSKey : Option (Bool × Bytes) := none
  appSKey : Option (Bool × Bytes) := none

/-- `getSKey`: one AES block; OptNeg selects the JoinEUI-based (1.1) or NetID-based (1.0) input -/
def getSKey (E : BlockCipher) (optNeg : Bool) (typ : Byte) (key : Bytes) (netID : BitVec 24) (joinEUI : BitVec 64)
    (joinNonce : Nat) (devNonce : BitVec 16) : Bytes :=
  let b := if optNeg then typ :: (leBytes 3 joinNonce ++ leBytes 8 joinEUI.toNat ++ leBytes 2 devNonce.toNat ++ zeros 2)
           else typ :: (leBytes 3 joinNonce ++ leBytes 3 netID.toNat ++ leBytes 2 devNonce.toNat ++ zeros 7)
  E.enc key b

/-- `getJSKey`: 0x06 = JSIntKey, 0x05 = JSEncKey -/
def getJSKey (E : BlockCipher) (typ : Byte) (devEUI : BitVec 64) (nwkKey : Bytes) : Bytes :=
  E.enc nwkKey (typ :: (leBytes 8 devEUI.toNat ++ zeros 7))

inductive Fail where
  | mic | other
  deriving Repr, DecidableEq

abbrev R := Except Fail

def liftO {α} : Outcome α → R α
  | .ok a => .ok a
  | _ => .error .other

structure Keys where
  fNwkSIntKey : Bytes
  appSKey : Bytes
  sNwkSIntKey : Bytes
  nwkSEncKey : Bytes

/-- `setSessionKeys` with the OptNeg flag it reads (for the rejoin flow that is the zero value: see known finding
c16-rejoin-session-keys) -/
def sessionKeys (E : BlockCipher) (optNeg : Bool) (nwkKey appKey : Bytes) (netID : BitVec 24) (joinEUI : BitVec 64)
    (joinNonce : Nat) (devNonce : BitVec 16) : Keys :=
  { fNwkSIntKey := getSKey E optNeg 0x01 nwkKey netID joinEUI joinNonce devNonce,
    appSKey := getSKey E optNeg 0x02 (if optNeg then appKey else nwkKey) netID joinEUI joinNonce devNonce,
    sNwkSIntKey := getSKey E optNeg 0x03 nwkKey netID joinEUI joinNonce devNonce,
    nwkSEncKey := getSKey E optNeg 0x04 nwkKey netID joinEUI joinNonce devNonce }

def envelope (E : BlockCipher) (label : Bool) (kek key : Bytes) : R (Option (Bool × Bytes)) :=
  match Backend.newKeyEnvelope E label kek key with
  | .ok e => .ok (some e)
  | _ => .error .other

/-- the join-accept frame both flows build: fields echoed from the request, MIC, encryption, serialisation -/
def buildJoinAccept (E : BlockCipher) (q : Req) (netID : BitVec 24) (joinNonce : Nat) (joinType : Byte) (joinEUI : BitVec 64)
    (devNonce : BitVec 16) (micKey encKey : Bytes) : R Bytes := do
  let cf : Option CFList ← (if q.cfList.isEmpty then pure none else do let l ← liftO (CFList.dec q.cfList); pure (some l))
  let ja : JoinAccept :=
    { joinNonce := BitVec.ofNat 32 joinNonce, homeNetID := netID, devAddr := q.devAddr, optNeg := q.optNeg, rx2dr := q.rx2dr,
      rx1off := q.rx1off, rxDelay := BitVec.ofInt 8 q.rxDelay, cfList := cf }
  let phy : PHY := { mtype := 1, major := 0, payload := some (.joinAccept ja) }
  let phy ← liftO (setMIC phy (calcDownlinkJoinMIC E joinType joinEUI devNonce micKey phy))
  let phy ← liftO (phy.encryptJA E encKey)
  liftO phy.enc

/-- what setJoinContext / setRejoinContext, validateMIC and setJoinNonce establish -/
structure Ctx where
  netID : BitVec 24
  joinEUI : BitVec 64
  devNonce : BitVec 16
  joinType : Byte
  joinNonce : Nat

/-- tasks setJoinContext, validateMIC, setJoinNonce -/
def joinContext (E : BlockCipher) (q : Req) (nwkKey : Bytes) (nonce : Int) : R Ctx := do
  let phy ← liftO (PHY.dec q.phy)
  let netID ← liftO (idOfText 3 q.sender)
  let joinEUI ← liftO (idOfText 8 q.receiver)
  let devNonce ← (match phy.payload with | some (.joinReq _ _ dn) => pure dn | _ => .error .other)
  let okMic ← liftO (validateMIC phy (calcUplinkJoinMIC E nwkKey phy))
  if !okMic then .error .mic
  if nonce > 16777215 then .error .other
  -- lorawan.JoinNonce(uint32) conversion of the Go int
  pure { netID := BitVec.ofNat 24 netID, joinEUI := BitVec.ofNat 64 joinEUI, devNonce, joinType := 0xff, joinNonce := (BitVec.ofInt 32 nonce).toNat }

/-- tasks setRejoinContext, setJoinNonce (the rejoin pipeline has no MIC task) -/
def rejoinContext (q : Req) (nonce : Int) : R Ctx := do
  let phy ← liftO (PHY.dec q.phy)
  let netID ← liftO (idOfText 3 q.sender)
  let joinEUI ← liftO (idOfText 8 q.receiver)
  let (joinType, devNonce) ← (match phy.payload with
    | some (.rejoin02 t _ _ cnt) => pure (t, cnt)
    | some (.rejoin1 t _ _ cnt) => pure (t, cnt)
    | _ => .error .other)
  if nonce > 16777215 then .error .other
  pure { netID := BitVec.ofNat 24 netID, joinEUI := BitVec.ofNat 64 joinEUI, devNonce, joinType, joinNonce := (BitVec.ofInt 32 nonce).toNat }

/-- the key envelopes of createJoinAnsPayload -/
def joinBody (E : BlockCipher) (q : Req) (c : Conf) (ks : Keys) (b : Bytes) : R Body := do
  let appS ← envelope E c.asLabel c.asKEK ks.appSKey
  if q.optNeg then do
    let f ← envelope E true c.nsKEK ks.fNwkSIntKey
    let s ← envelope E true c.nsKEK ks.sNwkSIntKey
    let n ← envelope E true c.nsKEK ks.nwkSEncKey
    pure { phy := b, sNwkSIntKey := s, fNwkSIntKey := f, nwkSEncKey := n, appSKey := appS }
  else do
    let k ← envelope E true c.nsKEK ks.fNwkSIntKey
    pure { phy := b, nwkSKey := k, appSKey := appS }

/-- the key envelopes of createRejoinAnsPayload -/
def rejoinBody (E : BlockCipher) (c : Conf) (ks : Keys) (b : Bytes) : R Body := do
  let appS ← envelope E c.asLabel c.asKEK ks.appSKey
  let f ← envelope E true c.nsKEK ks.fNwkSIntKey
  let s ← envelope E true c.nsKEK ks.sNwkSIntKey
  let n ← envelope E true c.nsKEK ks.nwkSEncKey
  pure { phy := b, sNwkSIntKey := s, fNwkSIntKey := f, nwkSEncKey := n, appSKey := appS }

/-- `handleJoinRequest` (tasks setJoinContext, validateMIC, setJoinNonce, setSessionKeys, createJoinAnsPayload) -/
def joinFlow (E : BlockCipher) (q : Req) (c : Conf) (nwkKey appKey : Bytes) (nonce : Int) : R Body := do
  let x ← joinContext E q nwkKey nonce
  let ks := sessionKeys E q.optNeg nwkKey appKey x.netID x.joinEUI x.joinNonce x.devNonce
  let micKey := if q.optNeg then getJSKey E 0x06 q.devEUI nwkKey else nwkKey
  let b ← buildJoinAccept E q x.netID x.joinNonce x.joinType x.joinEUI x.devNonce micKey nwkKey
  joinBody E q c ks b

/-- `handleRejoinRequest` (tasks setRejoinContext, setJoinNonce, setSessionKeys, createRejoinAnsPayload) -/
def rejoinFlow (E : BlockCipher) (q : Req) (c : Conf) (nwkKey appKey : Bytes) (nonce : Int) : R Body := do
  let x ← rejoinContext q nonce
  -- setSessionKeys reads ctx.joinReqPayload.DLSettings.OptNeg, which the rejoin flow never fills: false
  let ks := sessionKeys E false nwkKey appKey x.netID x.joinEUI x.joinNonce x.devNonce
  let b ← buildJoinAccept E q x.netID x.joinNonce x.joinType x.joinEUI x.devNonce (getJSKey E 0x06 q.devEUI nwkKey) (getJSKey E 0x05 q.devEUI nwkKey)
  rejoinBody E c ks b

/-- `handler.ServeHTTP` for a JoinReq / RejoinReq body -/
def serve (E : BlockCipher) (q : Req) (c : Conf) : Ans :=
  let msgType := if q.rejoin then "RejoinAns" else "JoinAns"
  let base (code : Nat) (res : String) : Ans :=
    { code := code, result := res, sender := q.receiver, receiver := q.sender, txid := q.txid, msgType := msgType }
  match c.device with
  | none => base 400 "UnknownDevEUI"
  | some (nwkKey, appKey, nonce) =>
    if c.lookupFails then base 500 "Other" else
    match (if q.rejoin then rejoinFlow E q c nwkKey appKey nonce else joinFlow E q c nwkKey appKey nonce) with
    | .ok b => { base 200 "Success" with phy := b.phy, sNwkSIntKey := b.sNwkSIntKey, fNwkSIntKey := b.fNwkSIntKey, nwkSEncKey := b.nwkSEncKey,
                                         nwkSKey := b.nwkSKey, appSKey := b.appSKey }
    | .error .mic => base 200 "MICFailed"
    | .error .other => base 200 "Other"

/-- … with a device-key store that may fail with an error other than "not found" (`GetDeviceKeysByDevEUIFunc`): answered 400 "Other",
mirrored, without frame or keys -/
def serveStore (storeFails : Bool) (E : BlockCipher) (q : Req) (c : Conf) : Ans :=
  if storeFails then
    { code := 400, result := "Other", sender := q.receiver, receiver := q.sender, txid := q.txid, msgType := if q.rejoin then "RejoinAns" else "JoinAns" }
  else serve E q c

/-- `handleHomeNSReq`: (code, result, sender, receiver, txid, message type, HNetID); the callback returned `netID` or ErrDevEUINotFound -/
def serveHomeNS (netID : Option Bytes) (sender receiver : String) (txid : Nat) : Nat × String × String × String × Nat × String × Bytes :=
  match netID with
  | some n => (200, "Success", receiver, sender, txid, "HomeNSAns", n)
  | none => (400, "UnknownDevEUI", receiver, sender, txid, "HomeNSAns", [0, 0, 0])

end LW.JS
