/-
  LW.Model.Crypto — mirror of the MIC, FRMPayload/FOpts encryption and join-accept encryption code
  of phypayload.go, generic in the block cipher.
-/
import LW.Model.Frame
import LW.Crypto.CMAC
namespace LW
open Outcome

/-- `copy(dst[at:at+len src], src)` on a list -/
def copyAt (dst : Bytes) (at_ : Nat) (src : Bytes) : Bytes :=
  dst.take at_ ++ src ++ dst.drop (at_ + src.length)

/-- `dst[i] = b` -/
def setAt (dst : Bytes) (i : Nat) (b : Byte) : Bytes := dst.set i b

/-- the bytes the data MICs are computed over: MHDR | MACPayload -/
def micBytesOf (p : PHY) (h : FHDR) (fPort : Option Byte) (frm : List Item) : Outcome Bytes := do
  let b ← macEnc h fPort frm
  ok (mhdrEnc p.mtype p.major :: b)

/-- `calculateUplinkDataMIC`. `ver = 0` is LoRaWAN 1.0, anything else takes the 1.1 branch. -/
def calcUplinkDataMIC (E : BlockCipher) (ver : Byte) (confFCnt : BitVec 32) (txDR txCh : Byte)
    (fKey sKey : Bytes) (p : PHY) : Outcome Bytes :=
  match p.payload with
  | some (.mac h fPort frm) => do
    let conf : Nat := (if !h.fCtrl.ack then 0 else confFCnt.toNat) % 65536
    let micBytes ← micBytesOf p h fPort frm
    let addr := leBytes 4 h.devAddr.toNat
    let fcnt := leBytes 4 h.fCnt.toNat
    let b0 := setAt (copyAt (copyAt (setAt (zeros 16) 0 0x49#8) 6 addr) 10 fcnt) 15 (byteOfNat micBytes.length)
    let b1 := setAt (copyAt (copyAt (setAt (zeros 16) 0 0x49#8) 6 addr) 10 fcnt) 15 (byteOfNat micBytes.length)
    let b1 := setAt (setAt (copyAt b1 1 (leBytes 2 conf)) 3 txDR) 4 txCh
    let cmacS := cmac (E.enc sKey) (b1 ++ micBytes)
    let cmacF := cmac (E.enc fKey) (b0 ++ micBytes)
    if ver == 0 then ok (cmacF.take 4) else ok (cmacS.take 2 ++ cmacF.take 2)
  | _ => err

/-- `calculateDownlinkDataMIC` -/
def calcDownlinkDataMIC (E : BlockCipher) (ver : Byte) (confFCnt : BitVec 32) (key : Bytes) (p : PHY) : Outcome Bytes :=
  match p.payload with
  | some (.mac h fPort frm) => do
    let conf : Nat := (if ver == 0 || !h.fCtrl.ack then 0 else confFCnt.toNat) % 65536
    let micBytes ← micBytesOf p h fPort frm
    let b0 := setAt (copyAt (setAt (zeros 16) 0 0x49#8) 1 (leBytes 2 conf)) 5 1#8
    let b0 := setAt (copyAt (copyAt b0 6 (leBytes 4 h.devAddr.toNat)) 10 (leBytes 4 h.fCnt.toNat)) 15 (byteOfNat micBytes.length)
    ok ((cmac (E.enc key) (b0 ++ micBytes)).take 4)
  | _ => err

/-- `calculateUplinkJoinMIC` (join-request and all rejoin-requests; any payload type is accepted) -/
def calcUplinkJoinMIC (E : BlockCipher) (key : Bytes) (p : PHY) : Outcome Bytes :=
  match p.payload with
  | none => err
  | some pl => do
    let b ← pl.enc
    ok ((cmac (E.enc key) (mhdrEnc p.mtype p.major :: b)).take 4)

/-- `calculateDownlinkJoinMIC` -/
def calcDownlinkJoinMIC (E : BlockCipher) (joinReqType : Byte) (joinEUI : BitVec 64) (devNonce : BitVec 16)
    (key : Bytes) (p : PHY) : Outcome Bytes :=
  match p.payload with
  | some (.joinAccept ja) => do
    let pre : Bytes := if ja.optNeg then [joinReqType] ++ leBytes 8 joinEUI.toNat ++ leBytes 2 devNonce.toNat else []
    let b ← ja.enc
    ok ((cmac (E.enc key) (pre ++ [mhdrEnc p.mtype p.major] ++ b)).take 4)
  | _ => err

/-! ### set / validate wrappers -/

def setMIC (p : PHY) (m : Outcome Bytes) : Outcome PHY := do let mic ← m; ok { p with mic := mic }
def validateMIC (p : PHY) (m : Outcome Bytes) : Outcome Bool := do let mic ← m; ok (p.mic == mic)

/-- `ValidateUplinkDataMICF`: compares only the cmacF half -/
def validateUplinkDataMICF (E : BlockCipher) (fKey : Bytes) (p : PHY) : Outcome Bool := do
  let mic ← calcUplinkDataMIC E 1 0 0 0 fKey fKey p
  ok (p.mic.drop 2 == mic.drop 2)

/-! ### FRMPayload / FOpts encryption -/

def aBlock (b4 : Byte) (uplink : Bool) (devAddr fCnt : BitVec 32) (ctr : Byte) : Bytes :=
  let a := setAt (setAt (zeros 16) 0 1#8) 4 b4
  let a := if !uplink then setAt a 5 1#8 else a
  setAt (copyAt (copyAt a 6 (leBytes 4 devAddr.toNat)) 10 (leBytes 4 fCnt.toNat)) 15 ctr

/-- the XOR loop of `EncryptFRMPayload` over `n` 16-byte blocks starting with block index `i` -/
def frmLoop (E : Bytes → Bytes) (uplink : Bool) (devAddr fCnt : BitVec 32) : Nat → Nat → Bytes → Bytes
  | 0, _, _ => []
  | n+1, i, data =>
    xorBytes (data.take 16) (E (aBlock 0 uplink devAddr fCnt (byteOfNat (i + 1))))
      ++ frmLoop E uplink devAddr fCnt n (i + 1) (data.drop 16)

/-- `EncryptFRMPayload` (returned slice only; effects on spare capacity are modelled in LW.Model.Alias) -/
def encryptFRMPayload (E : BlockCipher) (key : Bytes) (uplink : Bool) (devAddr fCnt : BitVec 32) (data : Bytes) : Bytes :=
  let pLen := data.length
  let padded := if pLen % 16 != 0 then data ++ zeros (16 - pLen % 16) else data
  (frmLoop (E.enc key) uplink devAddr fCnt (padded.length / 16) 0 padded).take pLen

/-- `EncryptFOpts` -/
def encryptFOpts (E : BlockCipher) (key : Bytes) (aFCntDown uplink : Bool) (devAddr fCnt : BitVec 32) (data : Bytes) : Outcome Bytes :=
  if data.length > 15 then err
  else ok (xorBytes data (E.enc key (aBlock (if aFCntDown then 2#8 else 1#8) uplink devAddr fCnt 1#8)))

/-- `decodeDataPayloadToMACCommands` on a `[]Payload` -/
def decodeItems (reg : Registry) (uplink : Bool) (items : List Item) : Outcome (List Item) :=
  match items with
  | [.data b] => do let cs ← decodeStream reg uplink b; ok (cs.map Item.cmd)
  | _ => err

def PHY.encryptFOpts (E : BlockCipher) (key : Bytes) (p : PHY) : Outcome PHY :=
  match p.payload with
  | some (.mac h fPort frm) =>
    if h.fOpts.length == 0 then ok p
    else do
      let macB ← encItems h.fOpts
      let aFCntDown := !p.isUplink && (match fPort with | some x => x.toNat > 0 | none => false)
      let data ← LW.encryptFOpts E key aFCntDown p.isUplink h.devAddr h.fCnt macB
      ok { p with payload := some (.mac { h with fOpts := [.data data] } fPort frm) }
  | _ => err

def PHY.decodeFOpts (reg : Registry) (p : PHY) : Outcome PHY :=
  match p.payload with
  | some (.mac h fPort frm) =>
    if h.fOpts.length == 0 then ok p
    else do
      let f ← decodeItems reg p.isUplink h.fOpts
      ok { p with payload := some (.mac { h with fOpts := f } fPort frm) }
  | _ => err

/-- `PHYPayload.DecryptFOpts` -/
def PHY.decryptFOpts (E : BlockCipher) (reg : Registry) (key : Bytes) (p : PHY) : Outcome PHY := do
  let p' ← p.encryptFOpts E key
  p'.decodeFOpts reg

def PHY.encryptFRM (E : BlockCipher) (key : Bytes) (p : PHY) : Outcome PHY :=
  match p.payload with
  | some (.mac h fPort frm) =>
    if frm.length == 0 then ok p
    else do
      let data ← frmEnc fPort frm
      let ct := encryptFRMPayload E key p.isUplink h.devAddr h.fCnt data
      ok { p with payload := some (.mac h fPort [.data ct]) }
  | _ => err

def PHY.decodeFRM (reg : Registry) (p : PHY) : Outcome PHY :=
  match p.payload with
  | some (.mac h fPort frm) =>
    if frm.length == 0 then ok p
    else do
      let f ← decodeItems reg p.isUplink frm
      ok { p with payload := some (.mac h fPort f) }
  | _ => err

/-- `PHYPayload.DecryptFRMPayload` -/
def PHY.decryptFRM (E : BlockCipher) (reg : Registry) (key : Bytes) (p : PHY) : Outcome PHY := do
  let p' ← p.encryptFRM E key
  match p'.payload with
  | some (.mac _ (some port) _) => if port == 0 then p'.decodeFRM reg else ok p'
  | _ => ok p'

/-! ### join-accept encryption -/

/-- ECB over 16-byte blocks -/
def ecb (f : Bytes → Bytes) : Nat → Bytes → Bytes
  | 0, _ => []
  | n+1, data => f (data.take 16) ++ ecb f n (data.drop 16)

/-- `EncryptJoinAcceptPayload` -/
def PHY.encryptJA (E : BlockCipher) (key : Bytes) (p : PHY) : Outcome PHY :=
  match p.payload with
  | some (.joinAccept ja) => do
    let b ← ja.enc
    let pt := b ++ p.mic.take 4
    if pt.length % 16 != 0 then err
    else
      let ct := ecb (E.dec key) (pt.length / 16) pt
      ok { p with payload := some (.data (ct.take (ct.length - 4))), mic := ct.drop (ct.length - 4) }
  | _ => err

/-- `DecryptJoinAcceptPayload` -/
def PHY.decryptJA (E : BlockCipher) (key : Bytes) (p : PHY) : Outcome PHY :=
  match p.payload with
  | some (.data bytes) =>
    let ct := bytes ++ p.mic
    if ct.length % 16 != 0 then err
    else
      let pt := ecb (E.enc key) (ct.length / 16) ct
      -- pt[len-4:len] panics when ct is empty
      if pt.length < 4 then panic
      else do
        let ja ← JoinAccept.dec {} (pt.take (pt.length - 4))
        ok { p with payload := some (.joinAccept ja), mic := pt.drop (pt.length - 4) }
  | _ => err

end LW
