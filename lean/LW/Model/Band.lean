/-
  LW.Model.Band — mirror of /repo/band/band.go and of the per-band method overrides in band_*.go.
  The *data* of every configuration (data-rates, payload sizes, RX1 table, channels, defaults …) is not written here:
  it is regenerated from /repo into LW/Generated/BandData.lean on every run. The *logic* below is hand-written and tied
  to the Go code by exhaustive / generated correspondence runs.

  Go `int` ↦ `Int`; indices are checked against the upper bound only, exactly as the code does, so a negative index
  reaches the slice access and panics.
-/
import LW.Model.Frame
namespace LW
open Outcome

/-- which Go struct implements the band (selects the overridden methods) -/
inductive Family where
  | eu868 | us915 | cn779 | eu433 | au915 | cn470 | as923 | kr920 | in865 | ru864 | ism2400
  deriving DecidableEq, Repr, Inhabited

structure DataRate where
  uplink : Bool
  downlink : Bool
  modulation : Nat      -- 0 = LORA, 1 = FSK, 2 = LR_FHSS
  sf : Int
  bw : Int
  bitRate : Int
  codingRate : Nat      -- 0 = "", 1 = "1/3", 2 = "4/6" (index into the dump's string table)
  ocw : Int
  deriving DecidableEq, Repr, Inhabited

structure Channel where
  freq : Nat
  minDR : Int
  maxDR : Int
  enabled : Bool
  custom : Bool
  deriving DecidableEq, Repr, Inhabited

/-- keys of `maxPayloadSizePerDR` as indices into this table -/
def payloadKeys : List String :=
  ["1.0.0", "1.0.1", "1.0.2", "1.0.3", "1.0.4", "1.1.0", "latest", "A", "B", "C",
   "RP002-1.0.0", "RP002-1.0.1", "RP002-1.0.2", "RP002-1.0.3"]

def keyLatest : Nat := 6
/-- index of a version / revision string; unknown strings get an index outside the table -/
def keyIndex (s : String) : Nat := (payloadKeys.findIdx? (· == s)).getD 99

structure BandCfg where
  key : String            -- the name passed to GetConfig
  name : String           -- Name()
  family : Family
  repeater : Bool
  dwell : Nat
  freqOffset : Int        -- AS923 group offset (0 elsewhere)
  supportsExtra : Bool
  cfMin : Int
  cfMax : Int
  dataRates : List (Int × DataRate)
  maxPayload : List (Nat × List (Nat × List (Int × Int × Int)))
  rx1Table : List (Int × List Int)
  txPower : List Int
  up : List Channel
  down : List Channel
  rx2Freq : Nat
  rx2DR : Int
  delays : List Int
  txParamSetup : List Bool
  eirpBits : Nat
  pingFixed : Nat
  deriving Repr, Inhabited

/-- mutable part of a band: the two channel lists -/
structure BandState where
  cfg : BandCfg
  up : List Channel
  down : List Channel
  deriving Repr, Inhabited

def BandCfg.init (c : BandCfg) : BandState := { cfg := c, up := c.up, down := c.down }

def lookupInt {α} (l : List (Int × α)) (k : Int) : Option α := (l.find? (·.1 == k)).map (·.2)
def lookupNat {α} (l : List (Nat × α)) (k : Nat) : Option α := (l.find? (·.1 == k)).map (·.2)

/-- Go `s[i]` for an `int` index on a list: panics when out of range (including negative) -/
def idxInt {α} (l : List α) (i : Int) : Outcome α :=
  if i < 0 then panic else match l[i.toNat]? with | some a => ok a | none => panic

/-! ### band.go -/

def BandCfg.getDataRate (c : BandCfg) (dr : Int) : Outcome DataRate :=
  match lookupInt c.dataRates dr with | some d => ok d | none => err

def drParamsEq (d q : DataRate) : Bool :=
  d.modulation == q.modulation && d.bw == q.bw && d.bitRate == q.bitRate && d.sf == q.sf && d.ocw == q.ocw && d.codingRate == q.codingRate

/-- `GetDataRateIndex`: Go iterates a map in random order; the model scans in key order. The two agree when the
parameters identify at most one data-rate per direction — an obligation of C13, checked on the regenerated data. -/
def BandCfg.getDataRateIndex (c : BandCfg) (uplink : Bool) (q : DataRate) : Outcome Int :=
  match c.dataRates.find? (fun (_, d) => (if uplink then d.uplink else d.downlink) && drParamsEq d q) with
  | some (i, _) => ok i
  | none => err

/-- `GetMaxPayloadSizeForDataRateIndex` with the two-level "latest" fallback -/
def BandCfg.getMaxPayload (c : BandCfg) (ver rev : Nat) (dr : Int) : Outcome (Int × Int) :=
  match (match lookupNat c.maxPayload ver with | some m => some m | none => lookupNat c.maxPayload keyLatest) with
  | none => err
  | some revMap =>
    match (match lookupNat revMap rev with | some m => some m | none => lookupNat revMap keyLatest) with
    | none => err
    | some drMap =>
      match drMap.find? (fun (d, _, _) => d == dr) with
      | some (_, m, n) => ok (m, n)
      | none => err

/-- generic `GetRX1DataRateIndex`: only the upper bound of the offset is checked -/
def BandCfg.getRX1DRGeneric (c : BandCfg) (dr off : Int) : Outcome Int :=
  match lookupInt c.rx1Table dr with
  | none => err
  | some row => if off < 0 ∨ off > (row.length : Int) - 1 then err else idxInt row off

/-- AS923 override: computed, with the dwell-time floor and effective offsets {0..5,-1,-2} -/
def as923RX1DR (dwell : Nat) (dr off : Int) : Outcome Int :=
  if off < 0 ∨ off > 7 then err
  else if dr < 0 ∨ dr > 7 then err
  else
    let minDR : Int := if dwell == 1 then 2 else 0
    let eff : Int := ([0, 1, 2, 3, 4, 5, -1, -2] : List Int).getD off.toNat 0
    let d := dr - eff
    let d := if d < minDR then minDR else d
    let d := if d > 5 then 5 else d
    ok d

def BandCfg.getRX1DR (c : BandCfg) (dr off : Int) : Outcome Int :=
  match c.family with
  | .as923 => as923RX1DR c.dwell dr off
  | _ => c.getRX1DRGeneric dr off

def BandCfg.getTXPowerOffset (c : BandCfg) (i : Int) : Outcome Int :=
  if i < 0 ∨ i > (c.txPower.length : Int) - 1 then err else idxInt c.txPower i

def BandState.addChannel (b : BandState) (freq : Nat) (minDR maxDR : Int) : Outcome BandState :=
  if !b.cfg.supportsExtra then err
  else
    let ch : Channel := { freq, minDR, maxDR, custom := true, enabled := freq != 0 }
    ok { b with up := b.up ++ [ch], down := b.down ++ [ch] }

def BandState.getUplinkChannel (b : BandState) (i : Int) : Outcome Channel :=
  if i < 0 ∨ i > (b.up.length : Int) - 1 then err else idxInt b.up i

def BandState.getDownlinkChannel (b : BandState) (i : Int) : Outcome Channel :=
  if i < 0 ∨ i > (b.down.length : Int) - 1 then err else idxInt b.down i

def BandState.getUplinkChannelIndex (b : BandState) (freq : Nat) (defaultChannel : Bool) : Outcome Int :=
  match b.up.findIdx? (fun c => c.freq == freq && c.custom != defaultChannel) with
  | some i => ok i
  | none => err

/-- `GetUplinkChannelIndexForFrequencyDR`: default channel first, then custom -/
def BandState.getUplinkChannelIndexForFrequencyDR (b : BandState) (freq : Nat) (dr : Int) : Outcome Int :=
  let try1 (dflt : Bool) : Option Int :=
    match b.getUplinkChannelIndex freq dflt with
    | .ok i => (match b.getUplinkChannel i with
      | .ok c => if c.minDR ≤ dr ∧ c.maxDR ≥ dr then some i else none
      | _ => none)
    | _ => none
  match try1 true with
  | some i => ok i
  | none => match try1 false with
    | some i => ok i
    | none => err

def setEnabled (l : List Channel) (i : Nat) (v : Bool) : List Channel :=
  match l[i]? with
  | some c => l.set i { c with enabled := v }
  | none => l

def BandState.setUplinkEnabled (b : BandState) (i : Int) (v : Bool) : Outcome BandState :=
  if i < 0 ∨ i > (b.up.length : Int) - 1 then err
  else ok { b with up := setEnabled b.up i.toNat v }

def indicesWhere (l : List Channel) (p : Channel → Bool) : List Int :=
  (List.range l.length).filterMap fun (i : Nat) => match l[i]? with | some c => if p c then some (Int.ofNat i) else none | none => none

def BandState.allIdx (b : BandState) : List Int := indicesWhere b.up (fun _ => true)
def BandState.stdIdx (b : BandState) : List Int := indicesWhere b.up (fun c => !c.custom)
def BandState.customIdx (b : BandState) : List Int := indicesWhere b.up (fun c => c.custom)
def BandState.enabledIdx (b : BandState) : List Int := indicesWhere b.up (fun c => c.enabled)
def BandState.disabledIdx (b : BandState) : List Int := indicesWhere b.up (fun c => !c.enabled)

def intRange (lo hi : Int) : List Int := (List.range (hi - lo + 1).toNat).map (fun (k : Nat) => lo + Int.ofNat k)

def insertSorted (x : Int) : List Int → List Int
  | [] => [x]
  | y :: ys => if x < y then x :: y :: ys else if x == y then y :: ys else y :: insertSorted x ys

def sortDedup (l : List Int) : List Int := l.foldr insertSorted []

/-- `GetEnabledUplinkDataRates`: all data-rates in any channel's range (enabled or not), sorted -/
def BandState.enabledUplinkDataRates (b : BandState) : List Int :=
  sortDedup (b.up.flatMap fun c => intRange c.minDR c.maxDR)

/-! ### CFList -/

def BandState.cfListChannels (b : BandState) : Option CFList :=
  let fs := ((b.up.filter fun c => c.custom && c.minDR == b.cfg.cfMin && c.maxDR == b.cfg.cfMax).take 5).map (fun c => BitVec.ofNat 32 c.freq)
  let chans := fs ++ List.replicate (5 - fs.length) (0 : BitVec 32)
  if chans.headD 0 == 0 then none else some { payload := .channels chans, typ := 0 }

def maskOf (cs : List Channel) : BitVec 16 :=
  BitVec.ofNat 16 ((List.range cs.length).foldl (fun acc i => if (cs.getD i default).enabled then acc + 2 ^ i else acc) 0)

def chunks16 : Nat → List Channel → List (List Channel)
  | 0, _ => []
  | fuel+1, l => if l.isEmpty then [] else l.take 16 :: chunks16 fuel (l.drop 16)

/-- `getCFListChannelMask`: one mask per started block of 16 channels (a single all-zero mask for an empty plan) -/
def BandState.cfListMasks (b : BandState) : Option CFList :=
  let ms := (chunks16 (b.up.length + 1) b.up).map maskOf
  some { payload := .masks (if ms.isEmpty then [0] else ms), typ := 1 }

/-- `GetCFList(protocolVersion)`; `ver` is the index of the version string in `payloadKeys` -/
def BandState.getCFList (b : BandState) (ver : Nat) : Option CFList :=
  if !b.cfg.supportsExtra && (ver == 0 || ver == 1 || ver == 2) then none
  else if b.cfg.supportsExtra then b.cfListChannels
  else b.cfListMasks

/-! ### LinkADRReq planning -/

/-- a planned LinkADRReq payload: ChMaskCntl (Go `uint8`) and the 16-bit mask; DataRate/TXPower/NbRep are zero -/
structure Plan where
  cntl : Byte
  mask : BitVec 16
  deriving DecidableEq, Repr, Inhabited

/-- `intSliceDiff(x, y)`: elements of x not in y, then elements of y not in x -/
def intSliceDiff (x y : List Int) : List Int :=
  x.filter (fun a => !y.contains a) ++ y.filter (fun a => !x.contains a)

/-- `b.uplinkChannels[c].custom`. In the Go code this index expression is only ever evaluated for an index taken from the
band's own enabled-channel list (or guarded by a short-circuit `channelIsActive(dev, c) ||`), so it cannot go out of range;
the model therefore uses a total lookup. -/
def customAt (up : List Channel) (c : Int) : Bool := (up.getD c.toNat default).custom

/-- the `filteredDiff` loop -/
def filterDiff (up : List Channel) (dev : List Int) (diff : List Int) : List Int :=
  diff.filter fun c => dev.contains c || !customAt up c

/-- mask of block `k`: enabled channels of the block that are standard or already active on the device -/
def blockMask (up : List Channel) (dev enabled : List Int) (k : Int) : BitVec 16 :=
  enabled.foldl (fun (acc : BitVec 16) ec =>
    if (!customAt up ec || dev.contains ec) && decide (ec ≥ k * 16) && decide (ec < (k + 1) * 16) then acc ||| BitVec.ofNat 16 (2 ^ (ec % 16).toNat) else acc) 0

/-- the block loop over the sorted diff -/
def planLoop (up : List Channel) (dev enabled : List Int) : List Int → Int → List Plan
  | [], _ => []
  | c :: cs, cur =>
    if Int.tdiv c 16 != cur then
      { cntl := BitVec.ofInt 8 (Int.tdiv c 16), mask := blockMask up dev enabled (Int.tdiv c 16) } :: planLoop up dev enabled cs (Int.tdiv c 16)
    else planLoop up dev enabled cs cur

def insertKeep (x : Int) : List Int → List Int
  | [] => [x]
  | y :: ys => if x ≤ y then x :: y :: ys else y :: insertKeep x ys

/-- `sort.Ints` (duplicates kept) -/
def sortInts (l : List Int) : List Int := l.foldr insertKeep []

/-- generic `GetLinkADRReqPayloadsForEnabledUplinkChannelIndices` -/
def BandState.planGeneric (b : BandState) (dev : List Int) : List Plan :=
  let enabled := b.enabledIdx
  let diff := intSliceDiff dev enabled
  let filtered := filterDiff b.up dev diff
  if diff.length == 0 || filtered.length == 0 then []
  else planLoop b.up dev enabled (sortInts diff) (-1)

/-- one payload of `GetEnabledUplinkChannelIndicesForLinkADRReqPayloads`: the Go loop over the 16 mask bits returns an error
at the first set bit beyond the plan and otherwise overwrites positions base..base+15 that exist. `base` is
`int(pl.Redundancy.ChMaskCntl*16)`, a uint8 multiplication. -/
def applyBlock (n base : Nat) (mask : BitVec 16) (m : List Bool) : Outcome (List Bool) :=
  if (List.range 16).any (fun i => decide (base + i ≥ n) && mask.getLsbD i) then err
  else ok ((List.range m.length).map fun j => if base ≤ j ∧ j < base + 16 then mask.getLsbD (j - base) else m.getD j false)

def applyGenericLoop (n : Nat) : List Plan → List Bool → Outcome (List Bool)
  | [], m => ok m
  | p :: ps, m => do
    let m' ← applyBlock n (p.cntl * 16#8).toNat p.mask m
    applyGenericLoop n ps m'

/-- the device's channel mask: channels beyond the plan (or negative) are ignored -/
def devMask (n : Nat) (dev : List Int) : List Bool := (List.range n).map fun j => dev.contains (Int.ofNat j)

def maskToIdx (m : List Bool) : List Int :=
  (List.range m.length).filterMap fun (i : Nat) => if m.getD i false then some (Int.ofNat i) else none

def BandState.applyGeneric (b : BandState) (dev : List Int) (pls : List Plan) : Outcome (List Int) := do
  let m' ← applyGenericLoop b.up.length pls (devMask b.up.length dev)
  ok (maskToIdx m')

/-! ### US915 / AU915 overrides -/

/-- the alternative plan: ChMaskCntl=7 (all 125 kHz off, mask = channels 64..71) then re-enable blocks -/
def planB (enabledSorted : List Int) : List Plan :=
  let first : BitVec 16 := enabledSorted.foldl (fun acc c => if c ≥ 64 then acc ||| BitVec.ofNat 16 (2 ^ (c % 16).toNat) else acc) 0
  let rec loop : List Int → Int → List Plan
    | [], _ => []
    | c :: cs, cur =>
      if c ≥ 64 then loop cs cur
      else if Int.tdiv c 16 != cur then
        let k := Int.tdiv c 16
        let m : BitVec 16 := enabledSorted.foldl (fun acc ec => if ec ≥ k * 16 && ec < (k + 1) * 16 then acc ||| BitVec.ofNat 16 (2 ^ (ec % 16).toNat) else acc) 0
        { cntl := BitVec.ofInt 8 k, mask := m } :: loop cs k
      else loop cs cur
  { cntl := 7, mask := first } :: loop enabledSorted (-1)

def BandState.planUS (b : BandState) (dev : List Int) : List Plan :=
  let a := b.planGeneric dev
  let bb := planB (sortInts b.enabledIdx)
  if a.length < bb.length then a else bb

/-- US915/AU915 apply: ChMaskCntl 6 / 7 switch all 125 kHz channels on / off and set 64..71 from the mask -/
def applyUSLoop (n : Nat) : List Plan → List Bool → Outcome (List Bool)
  | [], m => ok m
  | p :: ps, m =>
    if p.cntl == 6 ∨ p.cntl == 7 then
      -- `chMask[i]` for i < 64 and `chMask[64+i]` for the first 8 mask bits are unchecked index expressions
      if m.length < 72 then panic
      else
        applyUSLoop n ps ((List.range m.length).map fun i =>
          if i < 64 then (p.cntl == 6) else if i < 72 then p.mask.getLsbD (i - 64) else m.getD i false)
    else do
      let m' ← applyBlock n (p.cntl * 16#8).toNat p.mask m
      applyUSLoop n ps m'

def BandState.plan (b : BandState) (dev : List Int) : List Plan :=
  match b.cfg.family with
  | .us915 | .au915 => b.planUS dev
  | _ => b.planGeneric dev

def BandState.apply (b : BandState) (dev : List Int) (pls : List Plan) : Outcome (List Int) :=
  match b.cfg.family with
  | .us915 | .au915 => do
    let m' ← applyUSLoop b.up.length pls (devMask b.up.length dev)
    ok (maskToIdx m')
  | _ => b.applyGeneric dev pls

/-! ### RX1 channel / frequency, ping-slot -/

def BandState.rx1ChannelIndex (b : BandState) (i : Int) : Outcome Int :=
  match b.cfg.family with
  | .us915 | .au915 => ok (Int.tmod i 8)
  | .cn470 => ok (Int.tmod i 48)
  | _ => ok i

def BandState.rx1Frequency (b : BandState) (f : Nat) : Outcome Nat :=
  match b.cfg.family with
  | .us915 | .au915 | .cn470 => do
    let i ← b.getUplinkChannelIndex f true
    let r ← b.rx1ChannelIndex i
    let c ← idxInt b.down r
    ok c.freq
  | _ => ok f

def cn470PingSlots : List Nat := [508300000, 508500000, 508700000, 508900000, 509100000, 509300000, 509500000, 509700000]

/-- Go `int(beaconTime / (128*time.Second))` on an int64 duration in nanoseconds -/
def beaconPeriod (beaconNs : Int) : Int := Int.tdiv beaconNs 128000000000


/-- `GetPingSlotFrequency(devAddr, beaconTime)` -/
def BandState.pingSlot (b : BandState) (devAddr : BitVec 32) (beaconNs : Int) : Outcome Nat :=
  let k := Int.tmod ((devAddr.toNat : Int) + beaconPeriod beaconNs) 8
  match b.cfg.family with
  | .us915 | .au915 => do let c ← idxInt b.down k; ok c.freq
  | .cn470 => idxInt cn470PingSlots k
  | _ => ok b.cfg.pingFixed

end LW
