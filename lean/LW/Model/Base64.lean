/-
  LW.Model.Base64 — `encoding/base64.StdEncoding` (RFC 4648 §4, with padding, strict decoding) as used by
  PHYPayload.MarshalText / UnmarshalText. Modelled, validated by the correspondence run (stdlib contract).
-/
import LW.Basic
namespace LW.Base64

def alphabet : Array Char := "ABCDEFGHIJKLMNOPQRSTUVWXYZabcdefghijklmnopqrstuvwxyz0123456789+/".toList.toArray

def enc6 (n : Nat) : Char := alphabet.getD (n % 64) 'A'

def dec6 (c : Char) : Option Nat :=
  if 'A' ≤ c ∧ c ≤ 'Z' then some (c.toNat - 65)
  else if 'a' ≤ c ∧ c ≤ 'z' then some (c.toNat - 97 + 26)
  else if '0' ≤ c ∧ c ≤ '9' then some (c.toNat - 48 + 52)
  else if c = '+' then some 62
  else if c = '/' then some 63
  else none

def encode : Bytes → List Char
  | a :: b :: c :: rest =>
    let n := a.toNat * 65536 + b.toNat * 256 + c.toNat
    enc6 (n / 262144) :: enc6 (n / 4096) :: enc6 (n / 64) :: enc6 n :: encode rest
  | [a, b] =>
    let n := a.toNat * 65536 + b.toNat * 256
    [enc6 (n / 262144), enc6 (n / 4096), enc6 (n / 64), '=']
  | [a] =>
    let n := a.toNat * 65536
    [enc6 (n / 262144), enc6 (n / 4096), '=', '=']
  | [] => []

/-- strict decoding: length multiple of 4, padding only at the end, no trailing garbage; like Go (non-strict mode of
StdEncoding) the unused low bits of a padded quantum are not checked; '\r' and '\n' are skipped. -/
def decodeQuads : List Char → Option Bytes
  | [] => some []
  | [a, b, '=', '='] => do
    let x ← dec6 a; let y ← dec6 b
    some [byteOfNat ((x * 64 + y) / 16)]
  | [a, b, c, '='] => do
    let x ← dec6 a; let y ← dec6 b; let z ← dec6 c
    let n := (x * 64 + y) * 64 + z
    some [byteOfNat (n / 1024), byteOfNat (n / 4)]
  | a :: b :: c :: d :: rest => do
    let x ← dec6 a; let y ← dec6 b; let z ← dec6 c; let w ← dec6 d
    let n := ((x * 64 + y) * 64 + z) * 64 + w
    let r ← decodeQuads rest
    some (byteOfNat (n / 65536) :: byteOfNat (n / 256) :: byteOfNat n :: r)
  | _ => none

def decode (s : List Char) : Option Bytes := decodeQuads (s.filter (fun c => c != '\n' && c != '\r'))

end LW.Base64
