/-
  LW.Model.Frame — mirror of phypayload.go (MHDR, PHYPayload codec), macpayload.go, fhdr.go (FCtrl, FHDR)
  and payload.go (join-request, join-accept, rejoin, CFList, DataPayload).
-/
import LW.Model.Mac
namespace LW
open Outcome

/-- an element of FOpts / FRMPayload (`[]Payload`): a `*DataPayload` or a `*MACCommand`. -/
inductive Item where
  | data (b : Bytes)
  | cmd (c : MacCmd)
  deriving DecidableEq, Repr, Inhabited

def Item.enc : Item → Outcome Bytes
  | .data b => ok b
  | .cmd c => c.enc

def Item.isCmd : Item → Bool | .cmd _ => true | _ => false

structure FCtrl where
  adr : Bool := false
  adrAckReq : Bool := false
  ack : Bool := false
  fPending : Bool := false
  classB : Bool := false
  fOptsLen : Byte := 0
  deriving DecidableEq, Repr, Inhabited

/-- `FCtrl.MarshalBinary` -/
def FCtrl.enc (c : FCtrl) : Outcome Byte :=
  if c.fOptsLen.toNat > 15 then err
  else ok ((((boolBit c.adr 7 ||| boolBit c.adrAckReq 6) ||| boolBit c.ack 5) |||
            boolBit (c.classB || c.fPending) 4) ||| (c.fOptsLen &&& 0x0f#8))

/-- `FCtrl.UnmarshalBinary` (overwrites every field) -/
def FCtrl.dec (b : Byte) : FCtrl :=
  { adr := bit b 7, adrAckReq := bit b 6, ack := bit b 5, fPending := bit b 4, classB := bit b 4,
    fOptsLen := b &&& 0x0f#8 }

structure FHDR where
  devAddr : BitVec 32 := 0
  fCtrl : FCtrl := {}
  fCnt : BitVec 32 := 0
  fOpts : List Item := []
  deriving DecidableEq, Repr, Inhabited

def encItems : List Item → Outcome Bytes
  | [] => ok []
  | i :: is => do
    let b ← i.enc
    let r ← encItems is
    ok (b ++ r)

/-- `FHDR.MarshalBinary`. `uint8(len(opts))` wraps modulo 256 exactly as in Go. -/
def FHDR.enc (h : FHDR) : Outcome Bytes := do
  let opts ← encItems h.fOpts
  let fOptsLen : Byte := byteOfNat opts.length
  if fOptsLen.toNat > 15 then err
  else
    let c ← ({ h.fCtrl with fOptsLen := fOptsLen } : FCtrl).enc
    ok (leBytes 4 h.devAddr.toNat ++ [c] ++ leBytes 2 h.fCnt.toNat ++ opts)

/-- `FHDR.UnmarshalBinary` into a receiver holding `prev` (every field is assigned; FOpts is cleared when absent). -/
def FHDR.dec (_prev : FHDR) (data : Bytes) : Outcome FHDR :=
  if data.length < 7 then err
  else
    let addr := leNat (data.take 4)
    let c := FCtrl.dec (data.getD 4 0)
    let fcnt := leNat ((data.drop 5).take 2)
    ok { devAddr := BitVec.ofNat 32 addr, fCtrl := c, fCnt := BitVec.ofNat 32 fcnt,
         fOpts := if data.length > 7 then [.data (data.drop 7)] else [] }

/-! ### join / rejoin / join-accept -/

inductive CFListP where
  | channels (f : List (BitVec 32))   -- Go: [5]uint32
  | masks (m : List (BitVec 16))      -- Go: []ChMask
  deriving DecidableEq, Repr, Inhabited

structure CFList where
  payload : CFListP
  typ : Byte
  deriving DecidableEq, Repr, Inhabited

/-- `CFListChannelPayload.MarshalBinary` -/
def cfChannelsEnc : List (BitVec 32) → Outcome Bytes
  | [] => ok []
  | f :: fs =>
    if f.toNat % 100 != 0 then err
    else if f.toNat / 100 > 16777215 then err
    else do
      let r ← cfChannelsEnc fs
      ok (leBytes 3 (f.toNat / 100) ++ r)

/-- `CFListChannelMaskPayload.MarshalBinary` -/
def cfMasksEnc (ms : List (BitVec 16)) : Outcome Bytes :=
  if ms.length > 6 then err else ok (ms.flatMap chMaskEnc)

def CFListP.enc : CFListP → Outcome Bytes
  | .channels f => cfChannelsEnc f
  | .masks m => cfMasksEnc m

/-- `CFList.MarshalBinary`: `copy(out, b)` into 16 zero bytes, then `out[15] = type`. -/
def CFList.enc (l : CFList) : Outcome Bytes := do
  let b ← l.payload.enc
  let b16 := (b ++ zeros 16).take 16
  ok (b16.take 15 ++ [l.typ])

/-- `CFListChannelPayload.UnmarshalBinary` on a receiver holding `prev` (5 entries). -/
def cfChannelsDec (_prev : List (BitVec 32)) (data : Bytes) : Outcome (List (BitVec 32)) :=
  if data.length > 15 then err
  else if data.length % 3 != 0 then err
  else
    let n := data.length / 3
    let new := (List.range n).map (fun i => freq100Dec ((data.drop (3*i)).take 3))
    ok (new ++ (List.replicate 5 0).drop n)

/-- the mask loop of `CFListChannelMaskPayload.UnmarshalBinary`: trailing all-zero masks stay pending. -/
def cfMasksLoop : List (BitVec 16) → (pending acc : List (BitVec 16)) → List (BitVec 16)
  | [], _, acc => acc
  | m :: ms, pending, acc =>
    if m != 0 then cfMasksLoop ms [] (acc ++ pending ++ [m])
    else cfMasksLoop ms (pending ++ [m]) acc

def pairsLE : Bytes → List (BitVec 16)
  | a :: b :: rest => BitVec.ofNat 16 (leNat [a, b]) :: pairsLE rest
  | _ => []

/-- `CFListChannelMaskPayload.UnmarshalBinary` (appends to the receiver's existing masks). -/
def cfMasksDec (_prev : List (BitVec 16)) (data : Bytes) : Outcome (List (BitVec 16)) :=
  if data.length > 15 then err
  else ok (cfMasksLoop (pairsLE data) [] [])

/-- `CFList.UnmarshalBinary`: always installs a fresh payload struct. -/
def CFList.dec (data : Bytes) : Outcome CFList :=
  if data.length != 16 then err
  else
    let t := data.getD 15 0
    if t == 1 then do
      let m ← cfMasksDec [] (data.take 15)
      ok { payload := .masks m, typ := t }
    else do
      let c ← cfChannelsDec (List.replicate 5 0) (data.take 15)
      ok { payload := .channels c, typ := t }

structure JoinAccept where
  joinNonce : BitVec 32 := 0
  homeNetID : BitVec 24 := 0
  devAddr : BitVec 32 := 0
  optNeg : Bool := false
  rx2dr : Byte := 0
  rx1off : Byte := 0
  rxDelay : Byte := 0
  cfList : Option CFList := none
  deriving DecidableEq, Repr, Inhabited

/-- `JoinAcceptPayload.MarshalBinary` -/
def JoinAccept.enc (p : JoinAccept) : Outcome Bytes :=
  if p.rxDelay.toNat > 15 then err
  else if p.joinNonce.toNat ≥ 16777216 then err
  else do
    let d ← dlSettingsEnc p.optNeg p.rx2dr p.rx1off
    let base := leBytes 3 p.joinNonce.toNat ++ leBytes 3 p.homeNetID.toNat ++ leBytes 4 p.devAddr.toNat ++ [d, p.rxDelay]
    match p.cfList with
    | none => ok base
    | some l => do
      let c ← l.enc
      ok (base ++ c)

/-- `JoinAcceptPayload.UnmarshalBinary` into a receiver holding `prev` (CFList only assigned for 28 bytes;
on a CFList error the earlier fields have already been assigned, but the error is returned). -/
def JoinAccept.dec (_prev : JoinAccept) (data : Bytes) : Outcome JoinAccept :=
  if data.length != 12 ∧ data.length != 28 then err
  else
    let (o, r2, r1) := dlSettingsDec (data.getD 10 0)
    let base : JoinAccept :=
      { joinNonce := BitVec.ofNat 32 (leNat (data.take 3)),
        homeNetID := BitVec.ofNat 24 (leNat ((data.drop 3).take 3)),
        devAddr := BitVec.ofNat 32 (leNat ((data.drop 6).take 4)),
        optNeg := o, rx2dr := r2, rx1off := r1, rxDelay := data.getD 11 0, cfList := none }
    if data.length == 28 then do
      let l ← CFList.dec (data.drop 12)
      ok { base with cfList := some l }
    else ok base

/-- the payload of a PHYPayload (`Payload` interface values the library itself creates) -/
inductive MacPL where
  | mac (fhdr : FHDR) (fPort : Option Byte) (frm : List Item)
  | joinReq (joinEUI devEUI : BitVec 64) (devNonce : BitVec 16)
  | joinAccept (ja : JoinAccept)
  | rejoin02 (typ : Byte) (netID : BitVec 24) (devEUI : BitVec 64) (cnt : BitVec 16)
  | rejoin1 (typ : Byte) (joinEUI devEUI : BitVec 64) (cnt : BitVec 16)
  | data (b : Bytes)
  deriving DecidableEq, Repr, Inhabited

/-- `MACPayload.marshalPayload` -/
def frmEnc (fPort : Option Byte) : List Item → Outcome Bytes
  | [] => ok []
  | i :: is =>
    if i.isCmd ∧ fPort != some 0 then err
    else do
      let b ← i.enc
      let r ← frmEnc fPort is
      ok (b ++ r)

/-- `MACPayload.MarshalBinary` -/
def macEnc (h : FHDR) (fPort : Option Byte) (frm : List Item) : Outcome Bytes := do
  let hb ← h.enc
  match fPort with
  | none => if frm.length != 0 then err else ok hb
  | some p =>
    if h.fOpts.length != 0 ∧ p == 0 then err
    else do
      let pb ← frmEnc fPort frm
      ok (hb ++ [p] ++ pb)

def MacPL.enc : MacPL → Outcome Bytes
  | .mac h p f => macEnc h p f
  | .joinReq j d n => ok (leBytes 8 j.toNat ++ leBytes 8 d.toNat ++ leBytes 2 n.toNat)
  | .joinAccept ja => ja.enc
  | .rejoin02 t n d c =>
      if t != 0 ∧ t != 2 then err
      else ok ([t] ++ leBytes 3 n.toNat ++ leBytes 8 d.toNat ++ leBytes 2 c.toNat)
  | .rejoin1 t j d c =>
      if t != 1 then err
      else ok ([t] ++ leBytes 8 j.toNat ++ leBytes 8 d.toNat ++ leBytes 2 c.toNat)
  | .data b => ok b

/-- `MACPayload.UnmarshalBinary` into a receiver holding `(ph, pp, pf)`. -/
def macDec (ph : FHDR) (_pp : Option Byte) (_pf : List Item) (data : Bytes) : Outcome MacPL :=
  let n := data.length
  if n < 7 then err
  else
    let fol := ((data.getD 4 0) &&& 0x0f#8).toNat
    if n < 7 + fol then err
    else do
      let h ← FHDR.dec ph (data.take (7 + fol))
      let fPort : Option Byte := if n > 7 + fol then some (data.getD (7 + fol) 0) else none
      if n > 7 + fol ∧ data.getD (7 + fol) 0 == 0 ∧ fol > 0 then err
      else if n > 7 + fol + 1 then ok (.mac h fPort [.data (data.drop (7 + fol + 1))])
      else ok (.mac h fPort [])

structure PHY where
  mtype : Byte := 0
  major : Byte := 0
  payload : Option MacPL := none
  mic : Bytes := [0, 0, 0, 0]
  deriving DecidableEq, Repr, Inhabited

/-- `MHDR.MarshalBinary` -/
def mhdrEnc (mtype major : Byte) : Byte := (mtype <<< 5) ||| (major &&& 3#8)

/-- `PHYPayload.isUplink` -/
def isUplinkMType (mtype : Byte) : Bool :=
  mtype == 0 || mtype == 2 || mtype == 4 || mtype == 6

def PHY.isUplink (p : PHY) : Bool := isUplinkMType p.mtype

/-- `PHYPayload.MarshalBinary` -/
def PHY.enc (p : PHY) : Outcome Bytes :=
  match p.payload with
  | none => err
  | some pl => do
    let b ← pl.enc
    ok ([mhdrEnc p.mtype p.major] ++ b ++ p.mic)

/-- `PHYPayload.UnmarshalBinary` into a fresh value (every case installs a fresh payload struct). -/
def PHY.dec (data : Bytes) : Outcome PHY :=
  let n := data.length
  if n < 5 then err
  else
    let b0 := data.getD 0 0
    let mtype := b0 >>> 5
    let major := b0 &&& 3#8
    let body := (data.drop 1).take (n - 5)
    let mic := data.drop (n - 4)
    let fin (pl : MacPL) : Outcome PHY := ok { mtype, major, payload := some pl, mic }
    if mtype == 0 then
      if body.length != 18 then err
      else fin (.joinReq (BitVec.ofNat 64 (leNat (body.take 8))) (BitVec.ofNat 64 (leNat ((body.drop 8).take 8)))
                  (BitVec.ofNat 16 (leNat (body.drop 16))))
    else if mtype == 1 ∨ mtype == 7 then fin (.data body)
    else if mtype == 6 then
      let t := data.getD 1 0
      if t == 0 ∨ t == 2 then
        if body.length != 14 then err
        else fin (.rejoin02 t (BitVec.ofNat 24 (leNat ((body.drop 1).take 3)))
                    (BitVec.ofNat 64 (leNat ((body.drop 4).take 8))) (BitVec.ofNat 16 (leNat (body.drop 12))))
      else if t == 1 then
        if body.length != 19 then err
        else fin (.rejoin1 t (BitVec.ofNat 64 (leNat ((body.drop 1).take 8)))
                    (BitVec.ofNat 64 (leNat ((body.drop 9).take 8))) (BitVec.ofNat 16 (leNat (body.drop 17))))
      else err
    else do
      let pl ← macDec {} none [] body
      fin pl

end LW
