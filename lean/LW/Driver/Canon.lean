/-
  LW.Driver.Canon — canonical text form of model values (the same grammar as harness/canon.go).
-/
import LW.Model.Crypto
namespace LW.Canon
open LW

def hx (b : Bytes) : String := "x" ++ hexOfBytes b

def unhx (s : String) : Option Bytes :=
  match s.toList with
  | 'x' :: rest => hexDecodeChars rest
  | _ => none

def b2i (b : Bool) : Int := if b then 1 else 0

def sdrop (s : String) (n : Nat) : String := String.ofList (s.toList.drop n)
def stripRParen (s : String) : String :=
  String.ofList ((s.toList.reverse.dropWhile (· == ')')).reverse)

/-- canonical integer fields of a payload (order = constructor argument order) -/
def fields : MacP → List Int
  | .resetInd m | .resetConf m | .rekeyInd m | .rekeyConf m => [m.toNat]
  | .linkCheckAns a b => [a.toNat, b.toNat]
  | .linkADRReq dr txp m c n => [dr.toNat, txp.toNat, m.toNat, c.toNat, n.toNat]
  | .linkADRAns a b c | .rxParamSetupAns a b c => [b2i a, b2i b, b2i c]
  | .dutyCycleReq d => [d.toNat]
  | .rxParamSetupReq f o r2 r1 => [f.toNat, b2i o, r2.toNat, r1.toNat]
  | .devStatusAns b m => [b.toNat, m.toInt]
  | .newChannelReq c f mx mn => [c.toNat, f.toNat, mx.toNat, mn.toNat]
  | .newChannelAns a b | .dlChannelAns a b | .pingSlotChannelAns a b => [b2i a, b2i b]
  | .rxTimingSetupReq d => [d.toNat]
  | .txParamSetupReq d u e => [d, u, e.toNat]
  | .dlChannelReq c f => [c.toNat, f.toNat]
  | .pingSlotInfoReq p => [p.toNat]
  | .beaconFreqReq f => [f.toNat]
  | .beaconFreqAns o | .rejoinParamSetupAns o => [b2i o]
  | .pingSlotChannelReq f d => [f.toNat, d.toNat]
  | .deviceTimeAns ns => [ns]
  | .adrParamSetupReq l d => [l.toNat, d.toNat]
  | .forceRejoinReq p r t d => [p.toNat, r.toNat, t.toNat, d.toNat]
  | .rejoinParamSetupReq t c => [t.toNat, c.toNat]
  | .deviceModeInd c | .deviceModeConf c => [c.toNat]
  | .proprietary _ => []

def by_ (i : Int) : Byte := BitVec.ofInt 8 i
def u32 (i : Int) : BitVec 32 := BitVec.ofInt 32 i
def bo (i : Int) : Bool := i != 0

def ofFields : Kind → List Int → Option MacP
  | .resetInd, [a] => some (.resetInd (by_ a))
  | .resetConf, [a] => some (.resetConf (by_ a))
  | .rekeyInd, [a] => some (.rekeyInd (by_ a))
  | .rekeyConf, [a] => some (.rekeyConf (by_ a))
  | .linkCheckAns, [a, b] => some (.linkCheckAns (by_ a) (by_ b))
  | .linkADRReq, [a, b, c, d, e] => some (.linkADRReq (by_ a) (by_ b) (BitVec.ofInt 16 c) (by_ d) (by_ e))
  | .linkADRAns, [a, b, c] => some (.linkADRAns (bo a) (bo b) (bo c))
  | .dutyCycleReq, [a] => some (.dutyCycleReq (by_ a))
  | .rxParamSetupReq, [a, b, c, d] => some (.rxParamSetupReq (u32 a) (bo b) (by_ c) (by_ d))
  | .rxParamSetupAns, [a, b, c] => some (.rxParamSetupAns (bo a) (bo b) (bo c))
  | .devStatusAns, [a, b] => some (.devStatusAns (by_ a) (by_ b))
  | .newChannelReq, [a, b, c, d] => some (.newChannelReq (by_ a) (u32 b) (by_ c) (by_ d))
  | .newChannelAns, [a, b] => some (.newChannelAns (bo a) (bo b))
  | .rxTimingSetupReq, [a] => some (.rxTimingSetupReq (by_ a))
  | .txParamSetupReq, [a, b, c] => some (.txParamSetupReq a b (by_ c))
  | .dlChannelReq, [a, b] => some (.dlChannelReq (by_ a) (u32 b))
  | .dlChannelAns, [a, b] => some (.dlChannelAns (bo a) (bo b))
  | .pingSlotInfoReq, [a] => some (.pingSlotInfoReq (by_ a))
  | .beaconFreqReq, [a] => some (.beaconFreqReq (u32 a))
  | .beaconFreqAns, [a] => some (.beaconFreqAns (bo a))
  | .pingSlotChannelReq, [a, b] => some (.pingSlotChannelReq (u32 a) (by_ b))
  | .pingSlotChannelAns, [a, b] => some (.pingSlotChannelAns (bo a) (bo b))
  | .deviceTimeAns, [a] => some (.deviceTimeAns a)
  | .adrParamSetupReq, [a, b] => some (.adrParamSetupReq (by_ a) (by_ b))
  | .forceRejoinReq, [a, b, c, d] => some (.forceRejoinReq (by_ a) (by_ b) (by_ c) (by_ d))
  | .rejoinParamSetupReq, [a, b] => some (.rejoinParamSetupReq (by_ a) (by_ b))
  | .rejoinParamSetupAns, [a] => some (.rejoinParamSetupAns (bo a))
  | .deviceModeInd, [a] => some (.deviceModeInd (by_ a))
  | .deviceModeConf, [a] => some (.deviceModeConf (by_ a))
  | _, _ => none

def fmtPayload (p : MacP) : String :=
  match p with
  | .proprietary b => p.kind.name ++ "(" ++ hx b ++ ")"
  | _ => p.kind.name ++ "(" ++ ",".intercalate ((fields p).map toString) ++ ")"

def parsePayload (s : String) : Option MacP := do
  let parts := s.splitOn "("
  match parts with
  | [name, body] =>
    let k ← Kind.ofName name
    let body := stripRParen body
    if k == .proprietary then
      let b ← unhx body
      some (.proprietary b)
    else
      let toks := if body.isEmpty then [] else body.splitOn ","
      let nums ← toks.mapM String.toInt?
      ofFields k nums
  | _ => none

def fmtItem : Item → String
  | .data b => "D:" ++ hx b
  | .cmd c => match c.payload with
    | none => s!"C:{c.cid.toNat}:-"
    | some p => s!"C:{c.cid.toNat}:{fmtPayload p}"

def parseItem (s : String) : Option Item :=
  if s.startsWith "D:" then do
    let b ← unhx (sdrop s 2)
    some (.data b)
  else if s.startsWith "C:" then
    let rest := sdrop s 2
    match rest.splitOn ":" with
    | cid :: more =>
      let pl := ":".intercalate more
      match cid.toNat? with
      | some c =>
        if pl == "-" then some (.cmd { cid := byteOfNat c, payload := none })
        else match parsePayload pl with
          | some p => some (.cmd { cid := byteOfNat c, payload := some p })
          | none => none
      | none => none
    | _ => none
  else none

def fmtItems (is : List Item) : List String := toString is.length :: is.map fmtItem

def fmtCFList : Option CFList → String
  | none => "-"
  | some l => match l.payload with
    | .channels f => s!"CH:{l.typ.toNat}:" ++ ",".intercalate (f.map (fun x => toString x.toNat))
    | .masks m => s!"CM:{l.typ.toNat}:" ++ ",".intercalate (m.map (fun x => toString x.toNat))

def parseCFList (s : String) : Option (Option CFList) :=
  if s == "-" then some none else
  match s.splitOn ":" with
  | [k, t, body] => do
    let t ← t.toNat?
    let nums ← (if body.isEmpty then [] else body.splitOn ",").mapM String.toNat?
    if k == "CH" then some (some { payload := .channels (nums.map (BitVec.ofNat 32)), typ := byteOfNat t })
    else if k == "CM" then some (some { payload := .masks (nums.map (BitVec.ofNat 16)), typ := byteOfNat t })
    else none
  | _ => none

def bitStr (bs : List Bool) : String := String.ofList (bs.map (fun b => if b then '1' else '0'))

def fmtFrame (p : PHY) : String :=
  let head := [toString p.mtype.toNat, toString p.major.toNat, hx p.mic]
  let body : List String := match p.payload with
    | none => ["NIL"]
    | some (.mac h fp frm) =>
      ["MAC", toString h.devAddr.toNat,
        bitStr [h.fCtrl.adr, h.fCtrl.adrAckReq, h.fCtrl.ack, h.fCtrl.fPending, h.fCtrl.classB],
        toString h.fCnt.toNat] ++ fmtItems h.fOpts ++
      [match fp with | none => "-" | some x => toString x.toNat] ++ fmtItems frm
    | some (.joinReq j d n) => ["JR", toString j.toNat, toString d.toNat, toString n.toNat]
    | some (.joinAccept ja) =>
      ["JA", toString ja.joinNonce.toNat, toString ja.homeNetID.toNat, toString ja.devAddr.toNat,
        toString (b2i ja.optNeg), toString ja.rx2dr.toNat, toString ja.rx1off.toNat, toString ja.rxDelay.toNat,
        fmtCFList ja.cfList]
    | some (.rejoin02 t n d c) => ["RJ02", toString t.toNat, toString n.toNat, toString d.toNat, toString c.toNat]
    | some (.rejoin1 t j d c) => ["RJ1", toString t.toNat, toString j.toNat, toString d.toNat, toString c.toNat]
    | some (.data b) => ["DATA", hx b]
  " ".intercalate (head ++ body)

/-- token reader -/
abbrev P := StateT (List String) Option

def next : P String := fun s => match s with | [] => none | t :: r => some (t, r)
def nat : P Nat := do let t ← next; match t.toNat? with | some n => pure n | none => failure
def int : P Int := do let t ← next; match t.toInt? with | some n => pure n | none => failure
def hex : P Bytes := do let t ← next; match unhx t with | some b => pure b | none => failure
def boolean : P Bool := do let n ← nat; pure (n != 0)
def rest : P (List String) := fun s => some (s, [])

def items : P (List Item) := do
  let n ← nat
  let rec go : Nat → P (List Item)
    | 0 => pure []
    | k+1 => do
      let t ← next
      match parseItem t with
      | some i => do let r ← go k; pure (i :: r)
      | none => failure
  go n

def frame : P PHY := do
  let mt ← nat
  let mj ← nat
  let mic ← hex
  let kind ← next
  let payload : Option MacPL ← match kind with
    | "NIL" => pure none
    | "MAC" => do
      let a ← nat
      let fc ← next
      let cnt ← nat
      let fopts ← items
      let fp ← next
      let fport : Option Byte ← if fp == "-" then pure none else
        match fp.toNat? with | some n => pure (some (byteOfNat n)) | none => failure
      let frm ← items
      let c := fc.toList.map (· == '1')
      let fctrl : FCtrl := { adr := c.getD 0 false, adrAckReq := c.getD 1 false, ack := c.getD 2 false,
                             fPending := c.getD 3 false, classB := c.getD 4 false, fOptsLen := 0 }
      pure (some (.mac { devAddr := BitVec.ofNat 32 a, fCtrl := fctrl, fCnt := BitVec.ofNat 32 cnt, fOpts := fopts } fport frm))
    | "JR" => do
      let a ← nat; let b ← nat; let c ← nat
      pure (some (.joinReq (BitVec.ofNat 64 a) (BitVec.ofNat 64 b) (BitVec.ofNat 16 c)))
    | "JA" => do
      let jn ← nat; let nid ← nat; let da ← nat; let o ← nat; let r2 ← nat; let r1 ← nat; let rd ← nat
      let cs ← next
      match parseCFList cs with
      | some cf =>
        let ja : JoinAccept :=
          { joinNonce := BitVec.ofNat 32 jn, homeNetID := BitVec.ofNat 24 nid, devAddr := BitVec.ofNat 32 da,
            optNeg := (o != 0), rx2dr := byteOfNat r2, rx1off := byteOfNat r1, rxDelay := byteOfNat rd, cfList := cf }
        pure (some (.joinAccept ja))
      | none => failure
    | "RJ02" => do
      let t ← nat; let n ← nat; let d ← nat; let c ← nat
      pure (some (.rejoin02 (byteOfNat t) (BitVec.ofNat 24 n) (BitVec.ofNat 64 d) (BitVec.ofNat 16 c)))
    | "RJ1" => do
      let t ← nat; let j ← nat; let d ← nat; let c ← nat
      pure (some (.rejoin1 (byteOfNat t) (BitVec.ofNat 64 j) (BitVec.ofNat 64 d) (BitVec.ofNat 16 c)))
    | "DATA" => do let b ← hex; pure (some (.data b))
    | _ => failure
  pure { mtype := byteOfNat mt, major := byteOfNat mj, payload := payload, mic := mic }

end LW.Canon
