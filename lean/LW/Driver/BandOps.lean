/-
  LW.Driver.BandOps — model results of the `bq` band queries (same text format as harness/ops_band.go).
-/
import LW.Driver.Canon
import LW.Generated.BandData
namespace LW.Driver
open LW LW.Canon

def intList (xs : List Int) : String := if xs.isEmpty then "-" else ",".intercalate (xs.map toString)

def parseIntList (s : String) : Option (List Int) :=
  if s == "-" then some [] else (s.splitOn ",").mapM String.toInt?

def chanStr (c : Channel) : String := s!"{c.freq}:{c.minDR}:{c.maxDR}:{b2i c.enabled}:{b2i c.custom}"
def chanList (cs : List Channel) : String := if cs.isEmpty then "-" else ";".intercalate (cs.map chanStr)

def planTok (p : Plan) : String := s!"{p.cntl.toNat}:{p.mask.toNat}:0:0:0"
def planList (ps : List Plan) : String := if ps.isEmpty then "-" else ",".intercalate (ps.map planTok)

def parsePlans (s : String) : Option (List Plan) :=
  if s == "-" then some [] else
  (s.splitOn ",").mapM fun t =>
    match (t.splitOn ":").mapM String.toInt? with
    | some [c, m, _, _, _] => some { cntl := BitVec.ofInt 8 c, mask := BitVec.ofInt 16 m }
    | _ => none

def findCfg (key : String) (rep : Bool) (dw : Nat) : Option BandCfg :=
  Generated.allConfigs.find? fun c => c.key == key && c.repeater == rep && c.dwell == dw

/-- apply a history; returns the state and one code per op (0 ok, E error, P panic) -/
def applyHistory (b : BandState) (hist : String) : Option (BandState × String) :=
  if hist == "-" then some (b, "-") else
  (hist.splitOn ",").foldlM (fun (acc : BandState × String) t =>
    let (st, codes) := acc
    match t.splitOn ":" with
    | ["a", f, mn, mx] =>
      (match f.toNat?, mn.toInt?, mx.toInt? with
       | some f, some mn, some mx =>
         (match st.addChannel f mn mx with
          | .ok st' => some (st', codes ++ "0")
          | .err => some (st, codes ++ "E")
          | .panic => some (st, codes ++ "P"))
       | _, _, _ => none)
    | [k, i] =>
      if k == "d" || k == "e" then
        (match i.toInt? with
         | some i =>
           (match st.setUplinkEnabled i (k == "e") with
            | .ok st' => some (st', codes ++ "0")
            | .err => some (st, codes ++ "E")
            | .panic => some (st, codes ++ "P"))
         | none => none)
      else none
    | _ => none) (b, "")

def outStr {α} (f : α → String) : Outcome α → String
  | .ok a => f a | .err => "ERR" | .panic => "PANIC"

def bandQuery (args : List String) : String :=
  match args with
  | key :: rep :: dw :: hist :: q :: rest =>
    match rep.toNat?, dw.toNat? with
    | some rep, some dw =>
      match findCfg key (rep != 0) dw with
      | none => "ERR"
      | some cfg =>
        match applyHistory cfg.init hist with
        | none => "BADOP history"
        | some (b, h) =>
          let ai (i : Nat) : Option Int := (rest[i]?).bind String.toInt?
          let au (i : Nat) : Option Nat := (rest[i]?).bind String.toNat?
          let res : Option String :=
            match q with
            | "rx1dr" => do let d ← ai 0; let o ← ai 1; pure (outStr toString (cfg.getRX1DR d o))
            | "rx1chan" => do let i ← ai 0; pure (outStr toString (b.rx1ChannelIndex i))
            | "rx1freq" => do let f ← au 0; pure (outStr toString (b.rx1Frequency (f % 4294967296)))
            | "maxpl" => do
                let v ← rest[0]?; let r ← rest[1]?; let d ← ai 2
                pure (outStr (fun (m, n) => s!"{m} {n}") (cfg.getMaxPayload (keyIndex v) (keyIndex r) d))
            | "dr" => do
                let i ← ai 0
                pure (outStr (fun (d : DataRate) => s!"{b2i d.uplink} {b2i d.downlink} {d.modulation} {d.sf} {d.bw} {d.bitRate} {d.codingRate} {d.ocw}") (cfg.getDataRate i))
            | "dridx" => do
                let u ← ai 0; let m ← au 1; let sf ← ai 2; let bw ← ai 3; let br ← ai 4; let cr ← au 5; let ocw ← ai 6
                pure (outStr toString (cfg.getDataRateIndex (u != 0) { uplink := false, downlink := false, modulation := m, sf := sf, bw := bw, bitRate := br, codingRate := cr, ocw := ocw }))
            | "txpow" => do let i ← ai 0; pure (outStr toString (cfg.getTXPowerOffset i))
            | "ping" => do let a ← au 0; let ns ← ai 1; pure (outStr toString (b.pingSlot (BitVec.ofNat 32 a) ns))
            | "defaults" => some s!"{cfg.rx2Freq} {cfg.rx2DR} {" ".intercalate (cfg.delays.map toString)}"
            | "txparam" => do
                let v ← rest[0]?
                let i := keyIndex v
                pure (toString (b2i (cfg.txParamSetup.getD (if i < 6 then i else 6) false)))
            | "state" => some s!"up={chanList b.up} down={chanList b.down} all={intList b.allIdx} std={intList b.stdIdx} cus={intList b.customIdx} en={intList b.enabledIdx} dis={intList b.disabledIdx} drs={intList b.enabledUplinkDataRates}"
            | "chan" => do
                let i ← ai 0
                let one (o : Outcome Channel) : String := outStr (fun c => s!"{c.freq}:{c.minDR}:{c.maxDR}") o
                pure (one (b.getUplinkChannel i) ++ " " ++ one (b.getDownlinkChannel i))
            | "chanmac" => do
                let i ← ai 0
                pure (match b.getUplinkChannel i with
                  | .ok c =>
                    let hd := s!"{c.freq}:{c.minDR}:{c.maxDR}"
                    if i < 0 || i > 255 || c.minDR < 0 || c.minDR > 255 || c.maxDR < 0 || c.maxDR > 255 then hd ++ " na" else
                    let p := MacP.newChannelReq (BitVec.ofNat 8 i.toNat) (BitVec.ofNat 32 c.freq) (BitVec.ofNat 8 c.maxDR.toNat) (BitVec.ofNat 8 c.minDR.toNat)
                    (match p.enc with
                     | .ok bs => (match Kind.dec .newChannelReq (.newChannelReq 0 0 0 0) bs with
                        | .ok q => if q == p then hd ++ " enc=1 rt=1" else hd ++ " enc=1 rt=0"
                        | _ => hd ++ " enc=1 rt=0")
                     | _ => hd ++ " enc=0")
                  | .err => "ERR"
                  | .panic => "PANIC")
            | "idx" => do let f ← au 0; let d ← ai 1; pure (outStr toString (b.getUplinkChannelIndex (f % 4294967296) (d != 0)))
            | "idxdr" => do let f ← au 0; let d ← ai 1; pure (outStr toString (b.getUplinkChannelIndexForFrequencyDR (f % 4294967296) d))
            | "cflist" => do
                let v ← rest[0]?
                let cf := b.getCFList (keyIndex v)
                -- the MAC-layer round trip of the model: inside a join-accept payload and back
                let mac := match cf with
                  | none => "-"
                  | some l => match ({ cfList := some l } : JoinAccept).enc with
                    | .ok bs => (match JoinAccept.dec {} bs with | .ok ja => if ja.cfList == some l then "1" else "0" | _ => "0")
                    | _ => "0"
                pure (fmtCFList cf ++ " mac=" ++ mac)
            | "plan" => do let dev ← (rest[0]?).bind parseIntList; pure (planList (b.plan dev))
            | "apply" => do
                let dev ← (rest[0]?).bind parseIntList; let pls ← (rest[1]?).bind parsePlans
                pure (outStr intList (b.apply dev pls))
            | "planapply" => do
                let dev ← (rest[0]?).bind parseIntList
                let pls := b.plan dev
                let enc := if pls.all (fun p => p.cntl.toNat ≤ 7) then "1" else "0"
                pure (planList pls ++ " " ++ enc ++ " " ++ outStr intList (b.apply dev pls))
            | _ => none
          match res with
          | none => "BADOP band query"
          | some "PANIC" => "PANIC"
          | some r => s!"ok h={h} {r}"
    | _, _ => "BADOP band args"
  | _ => "BADOP band args"

end LW.Driver
