/-
  LW.Driver.JSOps — line-protocol ops of the join-server model (C16). Grammar: harness/ops_joinserver.go.
-/
import LW.Driver.Canon
import LW.Model.JoinServer
namespace LW.Driver.JSOps
open LW LW.JS LW.Canon

def strTok : P String := do let t ← next; if t.startsWith "s" then pure (sdrop t 1) else failure

/-- the `known` token: 5 = the device-key store fails -/
def storeFailsOf (args : List String) : Bool := args[1]? == some "5"

def request : P (Req × Conf) := do
  let kind ← next
  let known ← nat   -- 0 unknown device, 1 known, 2..4 known with a failing KEK / label lookup, 5 known but the device-key store fails
  let nwk ← hex
  let app ← hex
  let nonce ← int
  let sender ← strTok
  let receiver ← strTok
  let txid ← nat
  let phy ← hex
  let devEUI ← hex
  let devAddr ← hex
  let optNeg ← boolean
  let rx2dr ← nat
  let rx1off ← nat
  let rxDelay ← int
  let cfList ← hex
  let nsKEK ← hex
  let asLabel ← boolean
  let asKEK ← hex
  let q : Req := { rejoin := kind == "R", sender, receiver, txid, phy, devEUI := BitVec.ofNat 64 (leNat devEUI.reverse),
                   devAddr := BitVec.ofNat 32 (leNat devAddr.reverse), optNeg, rx2dr := byteOfNat rx2dr, rx1off := byteOfNat rx1off,
                   rxDelay, cfList }
  let c : Conf := { device := if known ≥ 1 then some (nwk, app, nonce) else none, nsKEK, asLabel, asKEK := if asLabel then asKEK else [],
                    lookupFails := known ≥ 2 && known ≤ 4 }
  pure (q, c)

def fmtKey : Option (Bool × Bytes) → String
  | none => "-"
  | some (l, k) => s!"{b2i l}:{hx k}"

def fmtAns (a : Ans) : String :=
  s!"{a.code} {a.result} s{a.sender} s{a.receiver} {a.txid} {a.msgType} {hx a.phy} {fmtKey a.sNwkSIntKey} {fmtKey a.fNwkSIntKey} {fmtKey a.nwkSEncKey} {fmtKey a.nwkSKey} {fmtKey a.appSKey}"

def isJSOp (op : String) : Bool := op == "jsreq" || op == "jsconc" || op == "jshome" || op == "jsraw"

def jsQuery (E : BlockCipher) (op : String) (args : List String) : String :=
  if op == "jsconc" then "ok same"
  else if op == "jshome" then
    match (do let k ← boolean; let _e ← hex; let n ← hex; let s ← strTok; let r ← strTok; let t ← nat; pure (k, n, s, r, t) : P _) args with
    | some ((k, n, s, r, t), _) =>
      let (code, res, snd, rcv, tx, mt, nid) := serveHomeNS (if k then some n else none) s r t
      s!"ok {code} {res} s{snd} s{rcv} {tx} {mt} {hx nid}"
    | none => "BADOP parse"
  else if op == "jsraw" then "ok 400 Other"   -- a body that is not a JoinReq / RejoinReq / HomeNSReq object: bare Result, code 400
  else match request args with
    | some ((q, c), _) => "ok " ++ fmtAns (serveStore (storeFailsOf args) E q c)
    | none => "BADOP parse"

end LW.Driver.JSOps
