/-
  LW.Driver.AppOps — canonical text form and line-protocol ops of the application-layer model (C18).
  Grammar: harness/ops_app.go.
-/
import LW.Driver.Canon
import LW.Model.App
import LW.Model.Checked
namespace LW.Driver.AppOps
open LW LW.App LW.Canon

inductive ATok where
  | i (n : Int)
  | x (b : Bytes)
  | nil
  deriving Repr

def fmtTok : ATok → String
  | .i n => toString n
  | .x b => hx b
  | .nil => "nil"

def parseTok (s : String) : Option ATok :=
  if s == "nil" then some .nil
  else if s.startsWith "x" then (unhx s).map .x
  else s.toInt?.map .i

def tb (b : Byte) : ATok := .i b.toNat
def tn (n : Nat) : ATok := .i n
def tB (b : Bool) : ATok := .i (b2i b)
def tm (m : Mask4) : List ATok := [tB m.b0, tB m.b1, tB m.b2, tB m.b3]
def to (o : Option Nat) : ATok := match o with | some n => .i n | none => .nil

def fields : AP → List ATok
  | .pkgVersionAns i v => [tb i, tb v]
  | .appTimeReq t a k => [tn t, tB a, tb k]
  | .appTimeAns c k => [.i c, tb k]
  | .devAppTimePeriodicityReq p => [tb p]
  | .devAppTimePeriodicityAns n t => [tB n, tn t]
  | .forceDeviceResyncReq n => [tb n]
  | .mcGroupStatusReq m => tm m
  | .mcGroupStatusAns nb m items => [tb nb] ++ tm m ++ [tn items.length] ++ items.flatMap (fun (g, a) => [tb g, .x a])
  | .mcGroupSetupReq id a k mn mx => [tb id, .x a, .x k, tn mn, tn mx]
  | .mcGroupSetupAns e id => [tB e, tb id]
  | .mcGroupDeleteReq id => [tb id]
  | .mcGroupDeleteAns u id => [tB u, tb id]
  | .mcClassCSessionReq id st t f dr => [tb id, tn st, tb t, tn f, tb dr]
  | .mcClassCSessionAns u f d id tts => [tB u, tB f, tB d, tb id, to tts]
  | .mcClassBSessionReq id st p t f dr => [tb id, tn st, tb p, tb t, tn f, tb dr]
  | .mcClassBSessionAns u f d id tts => [tB u, tB f, tB d, tb id, to tts]
  | .fragSessionSetupReq fi m nb fs fm bad pad desc => [tb fi] ++ tm m ++ [tn nb, tb fs, tb fm, tb bad, tb pad, .x desc]
  | .fragSessionSetupAns fi w i n e => [tb fi, tB w, tB i, tB n, tB e]
  | .fragSessionDeleteReq fi => [tb fi]
  | .fragSessionDeleteAns fi s => [tb fi, tB s]
  | .dataFragment fi n p => [tb fi, tn n, .x p]
  | .fragSessionStatusReq fi p => [tb fi, tB p]
  | .fragSessionStatusAns fi nb mf ne => [tb fi, tn nb, tb mf, tB ne]
  | .devVersionReq => []
  | .devVersionAns f h => [tn f, tn h]
  | .devRebootTimeReq t => [tn t]
  | .devRebootTimeAns t => [tn t]
  | .devRebootCountdownReq c => [tn c]
  | .devRebootCountdownAns c => [tn c]
  | .devUpgradeImageReq => []
  | .devUpgradeImageAns s nx => [tb s, to nx]
  | .devDeleteImageReq v => [tn v]
  | .devDeleteImageAns iv nv => [tb iv, tb nv]

def optNat : ATok → Option (Option Nat)
  | .nil => some none
  | .i n => some (some n.toNat)
  | .x _ => none

def itemsOf : Nat → List ATok → Option (List (Byte × Bytes))
  | 0, [] => some []
  | n+1, .i g :: .x a :: r => (itemsOf n r).map ((by_ g, a) :: ·)
  | _, _ => none

def m4 (a b c d : Int) : Mask4 := ⟨bo a, bo b, bo c, bo d⟩

def ofFields : AKind → List ATok → Option AP
  | .pkgVersionAns, [.i a, .i b] => some (.pkgVersionAns (by_ a) (by_ b))
  | .appTimeReq, [.i t, .i a, .i k] => some (.appTimeReq t.toNat (bo a) (by_ k))
  | .appTimeAns, [.i c, .i k] => some (.appTimeAns c (by_ k))
  | .devAppTimePeriodicityReq, [.i p] => some (.devAppTimePeriodicityReq (by_ p))
  | .devAppTimePeriodicityAns, [.i n, .i t] => some (.devAppTimePeriodicityAns (bo n) t.toNat)
  | .forceDeviceResyncReq, [.i n] => some (.forceDeviceResyncReq (by_ n))
  | .mcGroupStatusReq, [.i a, .i b, .i c, .i d] => some (.mcGroupStatusReq (m4 a b c d))
  | .mcGroupStatusAns, .i nb :: .i a :: .i b :: .i c :: .i d :: .i n :: r =>
      (itemsOf n.toNat r).map (.mcGroupStatusAns (by_ nb) (m4 a b c d) ·)
  | .mcGroupSetupReq, [.i id, .x a, .x k, .i mn, .i mx] => some (.mcGroupSetupReq (by_ id) a k mn.toNat mx.toNat)
  | .mcGroupSetupAns, [.i e, .i id] => some (.mcGroupSetupAns (bo e) (by_ id))
  | .mcGroupDeleteReq, [.i id] => some (.mcGroupDeleteReq (by_ id))
  | .mcGroupDeleteAns, [.i u, .i id] => some (.mcGroupDeleteAns (bo u) (by_ id))
  | .mcClassCSessionReq, [.i id, .i st, .i t, .i f, .i dr] => some (.mcClassCSessionReq (by_ id) st.toNat (by_ t) f.toNat (by_ dr))
  | .mcClassCSessionAns, [.i u, .i f, .i d, .i id, tts] => (optNat tts).map (.mcClassCSessionAns (bo u) (bo f) (bo d) (by_ id) ·)
  | .mcClassBSessionReq, [.i id, .i st, .i p, .i t, .i f, .i dr] =>
      some (.mcClassBSessionReq (by_ id) st.toNat (by_ p) (by_ t) f.toNat (by_ dr))
  | .mcClassBSessionAns, [.i u, .i f, .i d, .i id, tts] => (optNat tts).map (.mcClassBSessionAns (bo u) (bo f) (bo d) (by_ id) ·)
  | .fragSessionSetupReq, [.i fi, .i a, .i b, .i c, .i d, .i nb, .i fs, .i fm, .i bad, .i pad, .x desc] =>
      some (.fragSessionSetupReq (by_ fi) (m4 a b c d) nb.toNat (by_ fs) (by_ fm) (by_ bad) (by_ pad) desc)
  | .fragSessionSetupAns, [.i fi, .i w, .i i, .i n, .i e] => some (.fragSessionSetupAns (by_ fi) (bo w) (bo i) (bo n) (bo e))
  | .fragSessionDeleteReq, [.i fi] => some (.fragSessionDeleteReq (by_ fi))
  | .fragSessionDeleteAns, [.i fi, .i s] => some (.fragSessionDeleteAns (by_ fi) (bo s))
  | .dataFragment, [.i fi, .i n, .x p] => some (.dataFragment (by_ fi) n.toNat p)
  | .fragSessionStatusReq, [.i fi, .i p] => some (.fragSessionStatusReq (by_ fi) (bo p))
  | .fragSessionStatusAns, [.i fi, .i nb, .i mf, .i ne] => some (.fragSessionStatusAns (by_ fi) nb.toNat (by_ mf) (bo ne))
  | .devVersionReq, [] => some .devVersionReq
  | .devVersionAns, [.i f, .i h] => some (.devVersionAns f.toNat h.toNat)
  | .devRebootTimeReq, [.i t] => some (.devRebootTimeReq t.toNat)
  | .devRebootTimeAns, [.i t] => some (.devRebootTimeAns t.toNat)
  | .devRebootCountdownReq, [.i c] => some (.devRebootCountdownReq c.toNat)
  | .devRebootCountdownAns, [.i c] => some (.devRebootCountdownAns c.toNat)
  | .devUpgradeImageReq, [] => some .devUpgradeImageReq
  | .devUpgradeImageAns, [.i s, nx] => (optNat nx).map (.devUpgradeImageAns (by_ s) ·)
  | .devDeleteImageReq, [.i v] => some (.devDeleteImageReq v.toNat)
  | .devDeleteImageAns, [.i iv, .i nv] => some (.devDeleteImageAns (by_ iv) (by_ nv))
  | _, _ => none

def fmtAP (p : AP) : String := p.kind.name ++ "(" ++ ",".intercalate ((fields p).map fmtTok) ++ ")"

def parseAP (s : String) : Option AP := do
  match s.splitOn "(" with
  | [name, body] =>
    let k ← AKind.ofName name
    let body := stripRParen body
    let toks ← (if body.isEmpty then [] else body.splitOn ",").mapM parseTok
    ofFields k toks
  | _ => none

def fmtCmd (c : ACmd) : String :=
  match c.payload with
  | none => s!"A:{c.cid.toNat}:-"
  | some p => s!"A:{c.cid.toNat}:{fmtAP p}"

def parseCmd (s : String) : Option ACmd :=
  if s.startsWith "A:" then
    match (sdrop s 2).splitOn ":" with
    | [cid, pl] =>
      match cid.toNat? with
      | some c =>
        if pl == "-" then some ⟨byteOfNat c, none⟩
        else (parseAP pl).map (fun p => ⟨byteOfNat c, some p⟩)
      | none => none
    | _ => none
  else none

def fmtCmds (cs : List ACmd) : String := " ".intercalate (toString cs.length :: cs.map fmtCmd)

def pkg : P Pkg := do let t ← next; match Pkg.ofName t with | some p => pure p | none => failure

def cmd : P ACmd := do let t ← next; match parseCmd t with | some c => pure c | none => failure

def cmds : P (List ACmd) := do
  let n ← nat
  let rec go : Nat → P (List ACmd)
    | 0 => pure []
    | k+1 => do let c ← cmd; let r ← go k; pure (c :: r)
  go n

def outStr {α} (f : α → String) : Outcome α → String
  | .ok a => f a
  | .err => "ERR"
  | .panic => "PANIC"

/-- parsed form of the app ops (shared by the model runner and the verdicts) -/
inductive AOp where
  | enc (p : Pkg) (c : ACmd)
  | dec (p : Pkg) (up : Bool) (b : Bytes)
  | decs (p : Pkg) (up : Bool) (b : Bytes)
  | seq (p : Pkg) (up : Bool) (cs : List ACmd)
  | keys (k a : Bytes)

def parseOp (op : String) (args : List String) : Option AOp :=
  let run {α} (p : P α) : Option α := (p args).map (·.1)
  match op with
  | "appenc" => run (do let p ← pkg; let c ← cmd; pure (AOp.enc p c))
  | "appdec" => run (do let p ← pkg; let u ← boolean; let b ← hex; pure (AOp.dec p u b))
  | "appdecs" => run (do let p ← pkg; let u ← boolean; let b ← hex; pure (AOp.decs p u b))
  | "appseq" => run (do let p ← pkg; let u ← boolean; let cs ← cmds; pure (AOp.seq p u cs))
  | "mckeys" => run (do let k ← hex; let a ← hex; pure (AOp.keys k a))
  | _ => none

def runAOp (E : BlockCipher) : AOp → String
  | .enc _ c => match c.enc with
      | .ok b => s!"ok {c.size} {hx b}"
      | .err => s!"ok {c.size} ERR" | .panic => "PANIC"
  | .dec p u b =>
      -- offset-arithmetic transcriptions of LW.Model.Checked against the total payload decoders
      let consistent : Bool := match b with
        | [] => true
        | cid :: r => match registry p u cid.toNat with
          | some .mcGroupStatusAns => Checked.statusAnsDec r == AKind.dec .mcGroupStatusAns r
          | some .mcClassCSessionAns => Checked.sessionAnsDec .mcClassCSessionAns r == AKind.dec .mcClassCSessionAns r
          | some .mcClassBSessionAns => Checked.sessionAnsDec .mcClassBSessionAns r == AKind.dec .mcClassBSessionAns r
          | some .devUpgradeImageAns => Checked.upgradeAnsDec r == AKind.dec .devUpgradeImageAns r
          | some .dataFragment => Checked.dataFragmentDec r == AKind.dec .dataFragment r
          | _ => true
      if !consistent then "MODEL-INCONSISTENT checked-app" else
      match cmdDec p u b with
      | .ok c => s!"ok {fmtCmd c} {c.size}"
      | .err => "ERR" | .panic => "PANIC"
  | .decs p u b => match cmdsDec p u b with
      | .ok cs => "ok " ++ fmtCmds cs
      | .err => "ERR" | .panic => "PANIC"
  | .seq p u cs => match cmdsEnc cs with
      | .ok b => "ok " ++ hx b ++ " | " ++ outStr fmtCmds (cmdsDec p u b)
      | .err => "ERR" | .panic => "PANIC"
  | .keys k a => "ok " ++ " ".intercalate
      [hx (mcRootKeyForGenAppKey E k), hx (mcRootKeyForAppKey E k), hx (mcKEKey E k), hx (mcAppSKey E k a), hx (mcNetSKey E k a)]

def isAppOp (op : String) : Bool := op == "appenc" || op == "appdec" || op == "appdecs" || op == "appseq" || op == "mckeys"

def appQuery (E : BlockCipher) (op : String) (args : List String) : String :=
  match parseOp op args with
  | some o => runAOp E o
  | none => "BADOP parse"

end LW.Driver.AppOps
