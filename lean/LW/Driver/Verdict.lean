/-
  LW.Driver.Verdict — spec verdict P on the *implementation's* result of an op:
  "ok", "VIOL:<property>:<clause>" or "KNOWN:<finding id>".
  The verdict never looks at the model's result: it is the property predicate evaluated with the
  independent specification (LW.Spec.*) on what the Go code returned.
-/
import LW.Driver.Ops
import LW.Spec.Mac
import LW.Spec.Frame
import LW.Spec.Layout
import LW.Spec.Crypto
import LW.Spec.Addr
import LW.Spec.BandChecks
import LW.Spec.Misc
import LW.Spec.Frag
import LW.Known
import LW.Driver.AppVerdict
import LW.Driver.BackendVerdict
import LW.Driver.JSVerdict
namespace LW.Driver
open LW LW.Canon

/-- parse the Go result: `some (some toks)` = ok with tokens, `some none` = ERR, `none` = PANIC/HANG/other -/
def goOk (goRes : String) : Option (Option (List String)) :=
  if goRes == "ERR" then some none
  else if goRes == "ok" then some (some [])
  else if goRes.startsWith "ok " then some (some ((sdrop goRes 3).splitOn " " |>.filter (· ≠ "")))
  else none

def viol (prop clause : String) : String := s!"VIOL:{prop}:{clause}"


/-- serialised MHDR | MACPayload of a data frame (what the MICs are computed over), via the frame encoder -/
def msgOf (p : PHY) : Option (FHDR × Option Byte × List Item × Bytes) :=
  match p.payload with
  | some (.mac h fp frm) => match macEnc h fp frm with
    | .ok b => some (h, fp, frm, mhdrEnc p.mtype p.major :: b)
    | _ => none
  | _ => none

def parseArgs {α} (args : List String) (p : P α) : Option α := (p args).map (·.1)

def specMicUp (v c dr ch : Nat) (fk sk : Bytes) (p : PHY) : Option Bytes :=
  (msgOf p).map fun (h, _, _, msg) => Spec.micUp E (v != 0) (BitVec.ofNat 32 c) (byteOfNat dr) (byteOfNat ch) fk sk h.devAddr h.fCnt h.fCtrl.ack msg

def specMicDown (v c : Nat) (k : Bytes) (p : PHY) : Option Bytes :=
  (msgOf p).map fun (h, _, _, msg) => Spec.micDown E (v != 0) (BitVec.ofNat 32 c) k h.devAddr h.fCnt h.fCtrl.ack msg

/-- compare a Go result that should be `ok x<mic>` / ERR with the specification value -/
def cmpBytes (prop clause : String) (res : Option (List String)) (want : Option Bytes) : List (String × String) :=
  match res, want with
  | some [h], some w => if unhx h == some w then [] else [(prop, clause)]
  | none, none => []
  | some _, none => [(prop, clause ++ "-accepts-what-spec-rejects")]
  | none, some _ => [(prop, clause ++ "-rejects-what-spec-accepts")]
  | _, _ => [("*", "unparsable-result")]

def cmpBool (prop clause : String) (res : Option (List String)) (want : Option Bool) : List (String × String) :=
  match res, want with
  | some [b], some w => if (b == "1") == w then [] else [(prop, clause)]
  | none, none => []
  | some _, none => [(prop, clause ++ "-accepts-what-spec-rejects")]
  | none, some _ => [(prop, clause ++ "-rejects-what-spec-accepts")]
  | _, _ => [("*", "unparsable-result")]

def splitBar (toks : List String) : List String × List String :=
  (toks.takeWhile (· != "|"), (toks.dropWhile (· != "|")).drop 1)

/-- the items of a frame as the sender meant them, in wire form (commands normalised to wire resolution) -/
def normItems (is : List Item) : List String :=
  is.map fun i => match i with
    | .cmd c => fmtItem (.cmd { c with payload := c.payload.map Spec.wireNorm })
    | d => fmtItem d

def allCmds (is : List Item) : Bool := is.all Item.isCmd

/-- a command list is valid for the direction under the registry and the specification's ranges -/
def cmdsValid (reg : Registry) (up : Bool) (is : List Item) : Bool :=
  is.all fun i => match i with
    | .cmd c => (match c.payload, reg.lookup up c.cid.toNat with
      | none, none => true
      | some (.proprietary b), some e => e.kind == .proprietary && (b.length : Int) == e.size
      | some p, some e => e.kind == p.kind && (Spec.enc p).isSome
      | _, _ => false)
    | _ => false


/-- split "k=v" tokens of a `state` result -/
def kvOf (toks : List String) (k : String) : Option String :=
  (toks.find? (·.startsWith (k ++ "="))).map (fun t => sdrop t (k.length + 1))

def sortedInts (l : List Int) : List Int := sortInts l

/-- every AddChannel of the history has specification-valid arguments: a frequency that is a multiple of 100 Hz (inside
2.4–2.4835 GHz for ISM2400, below 2^24·100 Hz elsewhere) and a data-rate range inside 0..15 -/
def histAddsValid (ism : Bool) (hist : String) : Bool :=
  hist == "-" || (hist.splitOn ",").all fun t =>
    match t.splitOn ":" with
    | ["a", f, mn, mx] =>
      (match f.toNat?, mn.toInt?, mx.toInt? with
       | some f, some mn, some mx =>
         f % 100 == 0 && (if ism then (2400000000 ≤ f && f ≤ 2483500000) else f / 100 < 16777216) && 0 ≤ mn && mn ≤ mx && mx ≤ 15
       | _, _, _ => false)
    | _ => true

def bandVerdicts (args : List String) (res : Option (List String)) : List (String × String) :=
  match args with
  | key :: rep :: dw :: hist :: q :: rest =>
    match rep.toNat?, dw.toNat? with
    | some rep, some dw =>
      match findCfg key (rep != 0) dw with
      | none => []
      | some cfg =>
        match applyHistory cfg.init hist, res with
        | some (b, _), some (_h :: out) =>
          let ai (i : Nat) : Option Int := (rest[i]?).bind String.toInt?
          match q with
          | "rx1dr" =>
            (match ai 0, ai 1, out with
             | some dr, some off, [r] =>
               let rule := Spec.rx1DRRule cfg.family cfg.dwell dr off
               if r == "ERR" then
                 (match rule with | some _ => if Spec.definedUp cfg dr then [("C12", "rx1dr-rejects-pair-the-region-defines")] else [] | none => [])
               else match r.toInt? with
                 | some v =>
                   (if Spec.definedDown cfg v then [] else [("C12", "rx1dr-result-not-a-defined-downlink-datarate"), ("C13", "rx1dr-result-not-defined")]) ++
                   (match rule with | some x => if x == v then [] else [("C12", "rx1dr-differs-from-region-rule")] | none => [])
                 | none => []
             | _, _, _ => [])
          | "rx1chan" =>
            (match ai 0, out with
             | some i, [r] => if i ≥ 0 && i < b.up.length then (if r.toInt? == some (Spec.rx1ChannelRule cfg.family i) then [] else [("C12", "rx1-channel-differs-from-region-rule")]) else []
             | _, _ => [])
          | "rx1freq" =>
            (match (rest[0]?).bind String.toNat?, out with
             | some f, [r] =>
               (match b.up.findIdx? (fun c => c.freq == f && !c.custom) with
                | some i =>
                  let k := Spec.rx1ChannelRule cfg.family i
                  let want := match Spec.downlinkPlanFreq cfg.family k.toNat with | some pf => pf | none => f
                  if r.toNat? == some want then [] else [("C12", "rx1-frequency-differs-from-region-rule")]
                | none => [])
             | _, _ => [])
          | "ping" =>
            (match (rest[0]?).bind String.toNat?, ai 1, out with
             | some a, some t, [r] =>
               if t < 0 then [] else
               let want : Option Nat := match Spec.pingSlotFixed cfg.name with
                 | some f => some f
                 | none => match cfg.family with
                   | .cn470 => some (Spec.cn470PingFreq (Spec.pingSlotChannel a t).toNat)
                   | _ => Spec.downlinkPlanFreq cfg.family (Spec.pingSlotChannel a t).toNat
               if r.toNat? == want then [] else [("C12", "ping-slot-frequency-differs-from-region-rule")]
             | _, _, _ => [])
          | "dridx" =>
            -- a data-rate looked up by its parameters (in a direction it is defined for) is found, and what is found has these parameters
            (match ai 0, (rest[1]?).bind String.toNat?, ai 2, ai 3, ai 4, (rest[5]?).bind String.toNat?, ai 6, out with
             | some u, some m, some sf, some bw, some br, some cr, some ocw, [r] =>
               let q : DataRate := { uplink := false, downlink := false, modulation := m, sf := sf, bw := bw, bitRate := br, codingRate := cr, ocw := ocw }
               let matching := (cfg.dataRates.filter fun (_, d) => (if u != 0 then d.uplink else d.downlink) && drParamsEq d q).map (·.1)
               if r == "ERR" then (if matching.isEmpty then [] else [("C13", "defined-data-rate-not-found-by-its-parameters")])
               else (match r.toInt? with
                 | some i => if matching.contains i then [] else [("C13", "data-rate-index-does-not-match-the-parameters")]
                 | none => [])
             | _, _, _, _, _, _, _, _ => [])
          | "defaults" =>
            -- C13: RX2 defaults are the Regional Parameters values
            (match Spec.regionDefaults cfg.name, out with
             | some d, f :: r :: _ =>
               (if f.toNat? == some d.rx2Freq then [] else [("C13", "rx2-default-frequency-differs-from-regional-parameters")]) ++
               (if r.toInt? == some d.rx2DR then [] else [("C13", "rx2-default-data-rate-differs-from-regional-parameters")])
             | _, _ => [])
          | "txpow" =>
            -- C13: TX-power table: steps of -2 dB, as many as the region defines
            (match Spec.regionDefaults cfg.name, ai 0, out with
             | some d, some i, [r] =>
               if 0 ≤ i && i < d.txPowerSteps then (if r.toInt? == some (-2 * i) then [] else [("C13", "tx-power-offset-is-not-minus-2-dB-per-step")])
               else if r == "ERR" then [] else [("C13", "tx-power-index-beyond-the-regional-table-accepted")]
             | _, _, _ => [])
          | "dr" =>
            -- C13: LoRa data-rate definitions (spreading factor, bandwidth) are the Regional Parameters values
            (match ai 0, out with
             | some i, [_, _, m, sf, bw, _, _, _] =>
               (match Spec.loraDR cfg.family i with
                | some (wsf, wbw) => if m == "0" && sf.toInt? == some wsf && bw.toInt? == some wbw then [] else [("C13", "data-rate-definition-differs-from-regional-parameters")]
                | none => if m == "0" then [("C13", "lora-data-rate-the-region-does-not-define")] else [])
             | _, _ => [])
          | "maxpl" =>
            (match out with
             | [m, n] =>
               (match m.toInt?, n.toInt? with
                | some m, some n =>
                  (if Spec.isNA m n || (m == n + 8 && n ≤ 242 && n ≥ 0) then [] else [("C13", "max-payload-size-not-N-plus-8-or-N-above-242")]) ++
                  -- the size returned is the cell of the (regenerated) tables that the fallback rule of the property selects
                  (match rest[0]?, rest[1]?, ai 2 with
                   | some v, some r, some d =>
                     (match Spec.maxPayloadCell cfg (keyIndex v) (keyIndex r) d with
                      | some (m', n') => if m == m' && n == n' then [] else [("C13", "max-payload-size-is-not-the-cell-the-version-revision-fallback-selects")]
                      | none => [("C13", "max-payload-size-returned-for-a-cell-the-tables-do-not-have")])
                   | _, _, _ => []) ++
                  -- repeater-compatible sizes never exceed the non-repeater ones: the same cell of the sibling configuration
                  (match rest[0]?, rest[1]?, ai 2, findCfg key (rep == 0) dw with
                   | some v, some r, some d, some sib =>
                     (match Spec.maxPayloadCell sib (keyIndex v) (keyIndex r) d with
                      | some (m', n') =>
                        let (rm, rn, nm, nn) := if rep != 0 then (m, n, m', n') else (m', n', m, n)
                        if rm ≤ nm && rn ≤ nn then [] else [("C13", "repeater-compatible-size-exceeds-the-non-repeater-size")]
                      | none => [])
                   | _, _, _, _ => [])
                | _, _ => [])
             | ["ERR"] =>
               (match rest[0]?, rest[1]?, ai 2 with
                | some v, some r, some d =>
                  (match Spec.maxPayloadCell cfg (keyIndex v) (keyIndex r) d with
                   | some _ => [("C13", "max-payload-size-refused-for-a-cell-the-fallback-selects")]
                   | none => [])
                | _, _, _ => [])
             | _ => [])
          | "planapply" =>
            (match (rest[0]?).bind parseIntList, out with
             | some dev, [plans, enc, applied] =>
               let n : Int := b.up.length
               if !(dev.all (fun c => c ≥ 0 && c < n)) || dev.eraseDups.length != dev.length then [] else
               if b.up.length > 128 then [] else
               let target := b.enabledIdx.filter fun c => (match b.up[c.toNat]? with | some ch => !ch.custom || dev.contains c | none => false)
               let np := if plans == "-" then 0 else (plans.splitOn ",").length
               (if applied == intList (sortedInts target) then [] else [("C14", "applied-payloads-do-not-reach-the-network-channel-set")]) ++
               (if enc == "1" then [] else [("C14", "generated-payload-not-encodable")]) ++
               (if np ≤ (b.up.length + 15) / 16 + 1 then [] else [("C14", "more-payloads-than-blocks-plus-one")]) ++
               (if sortedInts dev == sortedInts target && np != 0 then [("C14", "payloads-produced-although-device-matches")] else [])
             | _, _ => [])
          | "state" =>
            (match kvOf out "all", kvOf out "std", kvOf out "cus", kvOf out "en", kvOf out "dis", kvOf out "up" with
             | some all, some std, some cus, some en, some dis, some up =>
               (match parseIntList all, parseIntList std, parseIntList cus, parseIntList en, parseIntList dis with
                | some all, some std, some cus, some en, some dis =>
                  let part (x y : List Int) := sortedInts (x ++ y) == all && x.all (fun c => !y.contains c)
                  -- C13: with no history, the channels are the region's default uplink frequencies
                  (match Spec.regionDefaults cfg.name with
                   | some d =>
                     if hist != "-" then [] else
                     let fs := (if up == "-" then [] else up.splitOn ";").map fun t => ((t.splitOn ":")[0]?).bind String.toNat?
                     if fs == d.upFreqs.map some then [] else [("C13", "default-uplink-frequencies-differ-from-regional-parameters")]
                   | none => []) ++
                  (if part en dis then [] else [("C15", "enabled-disabled-do-not-partition-channels")]) ++
                  (if part std cus then [] else [("C15", "standard-custom-do-not-partition-channels")]) ++
                  -- standard channels are never altered: the initial prefix keeps frequency / DR range / custom flag
                  (let chans := if up == "-" then [] else up.splitOn ";"
                   let init := cfg.up.map fun c => s!"{c.freq}:{c.minDR}:{c.maxDR}"
                   if (chans.take init.length).map (fun t => ":".intercalate ((t.splitOn ":").take 3)) == init &&
                      (chans.take init.length).all (fun t => (t.splitOn ":")[4]? == some "0")
                   then [] else [("C15", "standard-channel-altered")])
                | _, _, _, _, _ => [])
             | _, _, _, _, _, _ => [])
          | "chan" =>
            -- where RX1 uses the uplink channel itself (RX1 index = uplink index, RX1 frequency = uplink frequency), the two must denote
            -- the same existing downlink channel: downlink channel i exists whenever uplink channel i does, with its frequency
            (match cfg.family, out with
             | .us915, _ | .au915, _ | .cn470, _ => []
             | _, [u, d] =>
               if u == "ERR" then [] else
               if d == "ERR" then [("C12", "rx1-channel-index-denotes-no-downlink-channel"), ("C15", "rx1-channel-index-denotes-no-downlink-channel")] else
               if (u.splitOn ":")[0]? == (d.splitOn ":")[0]? then []
               else [("C12", "rx1-channel-and-rx1-frequency-denote-different-downlink-channels"), ("C15", "rx1-channel-and-rx1-frequency-denote-different-downlink-channels")]
             | _, _ => [])
          | "chanmac" =>
            -- a channel the band reports whose frequency lies on the grid the specification gives NewChannelReq (100 Hz below
            -- 2.4 GHz, 200 Hz from there on) and whose data-rates fit their 4-bit fields is carried by that command unchanged
            (match out with
             | [hd, "enc=1", "rt=1"] => let _ := hd; []
             | hd :: tl =>
               if tl == ["na"] || tl == [] then [] else
               (match (hd.splitOn ":").map String.toNat? with
                | [some f, some mn, some mx] =>
                  if f < 4294967296 && (Spec.freqCodeNC (BitVec.ofNat 32 f)).isSome && mn < 16 && mx < 16
                  then [("C15", "reported-channel-not-carried-by-newchannelreq")] else []
                | _ => [])
             | _ => [])
          | "idx" =>
            (match (rest[0]?).bind String.toNat?, ai 1, out with
             | some f, some d, [r] =>
               (match r.toInt? with
                | some i => (match b.up[i.toNat]? with
                  | some ch => if i ≥ 0 && ch.freq == f && ch.custom == (d == 0) then [] else [("C15", "lookup-by-frequency-returns-non-matching-channel")]
                  | none => [("C15", "lookup-by-frequency-returns-non-matching-channel")])
                | none => [])
             | _, _, _ => [])
          | "idxdr" =>
            (match (rest[0]?).bind String.toNat?, ai 1, out with
             | some f, some d, [r] =>
               (match r.toInt? with
                | some i => (match b.up[i.toNat]? with
                  | some ch => if i ≥ 0 && ch.freq == f && ch.minDR ≤ d && d ≤ ch.maxDR then [] else [("C15", "lookup-by-frequency-dr-returns-non-matching-channel")]
                  | none => [("C15", "lookup-by-frequency-dr-returns-non-matching-channel")])
                | none => [])
             | _, _, _ => [])
          | "cflist" =>
            (match out with
             | [tok, macTok] =>
               -- what the implementation's own MAC layer did with this CFList (join-accept payload encoded and decoded back)
               (if macTok == "mac=0" then
                  (if cfg.family == .ism2400 then [("C15", "KNOWN:c15-ism2400-frequencies-not-encodable")]
                   else if !histAddsValid false hist then [] else [("C15", "cflist-not-carried-by-the-mac-layer")])
                else []) ++
               (match parseCFList tok with
                | some (some l) =>
                  (match l.payload with
                   | .channels fs =>
                     let custom := (b.up.filter (·.custom)).map (fun c => BitVec.ofNat 32 c.freq)
                     let nz := fs.filter (· != 0)
                     (if nz.all (custom.contains ·) then [] else [("C15", "cflist-contains-a-non-custom-channel")]) ++
                     -- "first five, in order": the custom channels a CFList can describe (the band's CFList data-rate range), in index
                     -- order, the first five of them in the first slots, zero after them
                     (let el := (b.up.filter fun c => c.custom && c.minDR == cfg.cfMin && c.maxDR == cfg.cfMax).map (fun c => BitVec.ofNat 32 c.freq)
                      if fs == (el.take 5 ++ List.replicate 5 (0 : BitVec 32)).take 5 then [] else [("C15", "cflist-is-not-the-first-five-custom-channels-in-order")]) ++
                     (if !histAddsValid (cfg.family == .ism2400) hist then [] else
                      match ({ payload := .channels fs, typ := l.typ } : CFList).enc with
                      | .ok bs => (match CFList.dec bs with | .ok l' => if l' == l then [] else [("C15", "cflist-not-decodable-to-same-values")] | _ => [("C15", "cflist-not-decodable-to-same-values")])
                      | _ => if cfg.family == .ism2400 then [("C15", "KNOWN:c15-ism2400-frequencies-not-encodable")] else [("C15", "cflist-not-encodable-by-mac-layer")])
                   | .masks ms =>
                     -- stated bit by bit, not through the model's own mask builder: bit i of mask j <-> channel 16 j + i enabled,
                     -- one mask per started block of 16 channels (a single empty mask for an empty plan), no other bit set
                     let n := b.up.length
                     let bitsOK := (List.range (ms.length * 16)).all fun k =>
                       (ms.getD (k / 16) 0).getLsbD (k % 16) == (decide (k < n) && (b.up.getD k default).enabled)
                     let countOK := ms.length == (if n == 0 then 1 else (n + 15) / 16)
                     (if bitsOK && countOK then [] else [("C15", "cflist-masks-differ-from-enabled-channels")]) ++
                     (if ms.length ≤ 6 then [] else [("C15", "cflist-not-encodable-by-mac-layer")]))
                | some none =>
                  -- no CFList offered although the first describable custom channel has a frequency
                  (let el := (b.up.filter fun c => c.custom && c.minDR == cfg.cfMin && c.maxDR == cfg.cfMax).map (·.freq)
                   if cfg.supportsExtra && el.headD 0 != 0 then [("C15", "no-cflist-although-custom-channels-exist")] else [])
                | _ => [])
             | _ => [])
          | _ => []
        | _, _ => []
    | _, _ => []
  | _ => []

/-- all clause verdicts of an op, as (property, verdict) pairs; only those of the property under check are reported -/
def verdicts (st : DState) (op : String) (args : List String) (goRes : String) : List (String × String) :=
  match goOk goRes with
  | none => [("*", if goRes.startsWith "BADOP" then "ok" else "panic-or-hang")]
  | some res =>
    -- a run-time panic inside a composite observation (band ops print PANIC for the accessor that panicked)
    if (res.getD []).contains "PANIC" then [("*", "panic-in-observation")] else
    -- C09 / C10 observations made by the harness on the implementation (harness/ops_iso.go, canon.go guardedBuf)
    if (res.getD []).contains "WROTE-INPUT" then [("*", "decoder-or-inspector-wrote-to-its-input-buffer")] else
    if (res.getD []).contains "CAPACITY-DEPENDENT" then [("*", "result-depends-on-bytes-behind-the-input-slice")] else
    if IsoOps.isIsoOp op && (res.getD []).contains "CHANGED" then
      [("C10", if op == "bandiso" then "band-instances-share-mutable-state" else if op == "inspect" then "inspect-only-operation-modified-the-frame"
               else "value-shares-memory-with-caller-buffer")] else
    if IsoOps.isIsoOp op && (res.getD []).contains "DIFF" then [("C10", "decoding-into-a-used-value-differs-from-a-fresh-one")] else
    if IsoOps.isIsoOp op && (res.getD []).contains "DIRTY" then [("C10", "encryption-wrote-outside-the-slice-it-was-given")] else
    match op, args with
    | "macenc", [tok] =>
      match parsePayload tok with
      | none => []
      | some v =>
        match res with
        | some [h] =>
          match unhx h with
          | none => [("*", "unparsable-result")]
          | some bs =>
            -- C06: in-range values produce exactly the specification's bytes
            (match Spec.enc v with
             | some sb => if sb == bs then [] else [("C06", "enc-bytes-differ-from-spec")]
             | none => []) ++
            -- C07: lossless or error: what was produced must decode (by the specification) to the same value
            (match Spec.dec v.kind bs with
             | some v' => if v' == Spec.wireNorm v then [] else [("C07", "enc-lossy-without-error")]
             | none => [("C07", "enc-produced-undecodable-bytes")]) ++
            (if bs.length == (Spec.layout v.kind).1 then [] else [("C07", "enc-length-differs-from-registered-size")])
        | some _ => [("*", "unparsable-result")]
        | none =>
          match Spec.enc v with
          | some _ => [("C07", "enc-rejects-in-range-value"), ("C06", "enc-rejects-in-range-value")]
          | none => []
    | "macdec", [name, h] =>
      match Kind.ofName name, unhx h with
      | some k, some bs =>
        match res, Spec.dec k bs with
        | some [tok], some v =>
          (match parsePayload tok with
           | some g => if g == v then [] else [("C06", "dec-fields-differ-from-spec")]
           | none => [("*", "unparsable-result")])
        | some _, none => [("C06", "dec-accepts-wrong-length")]
        | none, some _ => [("C06", "dec-rejects-spec-bytes")]
        | none, none => []
        | _, _ => [("*", "unparsable-result")]
      | _, _ => []
    | "macdecinto", [prevTok, h] =>
      -- decoding into a used value: the result is what the specification says for these bytes, whatever the receiver held
      (match parsePayload prevTok, unhx h with
       | some prev, some bs =>
         (match res, Spec.dec prev.kind bs with
          | some [tok], some v =>
            (match parsePayload tok with
             | some g => if g == v then [] else [("C10", "decoding-into-a-used-value-differs-from-a-fresh-one")]
             | none => [("*", "unparsable-result")])
          | some _, none => [("C10", "decoding-into-a-used-value-differs-from-a-fresh-one")]
          | none, some _ => [("C10", "decoding-into-a-used-value-differs-from-a-fresh-one")]
          | _, _ => [])
       | _, _ => [])
    | "getsize", [u, c] =>
      match u.toNat?, c.toNat? with
      | some u, some c =>
        let up := u != 0
        if c ≥ 128 then [] else
        match Spec.registry.lookup up c, res with
        | some e, some [sz, nm] =>
          if sz == toString e.size && nm == e.kind.name then [] else [("C06", "registry-entry-differs-from-spec"), ("C07", "registered-size-differs-from-spec")]
        | some _, _ => [("C06", "registry-entry-missing"), ("C07", "registry-entry-missing")]
        | none, none => []
        | none, some _ => [("C06", "registry-entry-not-in-spec"), ("C07", "registry-entry-not-in-spec")]
      | _, _ => []
    | "register", [_, c, s] =>
      match c.toNat?, s.toInt? with
      | some c, some s =>
        let shouldOk := decide (128 ≤ c ∧ c ≤ 255) && decide (s ≥ 0)
        if shouldOk == res.isSome then [] else [("C07", "register-accepts-or-rejects-wrongly")]
      | _, _ => []
    | "streamrt", u :: _n :: items =>
      -- C07: a sequence of spec-valid commands decodes into exactly that sequence
      match u.toNat?, items.mapM parseItem with
      | some u, some its =>
        let up := u != 0
        let cmds := its.filterMap (fun i => match i with | .cmd c => some c | _ => none)
        let valid := cmds.all fun c =>
          match c.payload, st.reg.lookup up c.cid.toNat with
          | none, none => true
          | some (.proprietary b), some e => e.kind == .proprietary && (b.length : Int) == e.size
          | some p, some e => e.kind == p.kind && (Spec.enc p).isSome
          | _, _ => false
        if !valid then [] else
        match res with
        | some (_hex :: _cnt :: outItems) =>
          let want := cmds.map fun c => fmtItem (.cmd { c with payload := c.payload.map Spec.wireNorm })
          if outItems == want then [] else [("C07", "stream-does-not-decode-to-the-encoded-sequence")]
        | _ => [("C07", "stream-of-valid-commands-rejected")]
      | _, _ => []
    | "phyrt", toks =>
      match parseArgs toks frame with
      | none => []
      | some f =>
        match res with
        | none => (if Spec.frameValid f then [("C01", "encoder-refuses-spec-valid-frame")] else []) ++
                  (if (Spec.frameBytes f).isSome && Spec.frameValid f then [("C06", "encoder-refuses-frame-the-layout-defines")] else [])
        | some out =>
          let (enc, back) := splitBar out
          (match Spec.frameBytes f with
           | some sb => if enc == [hx sb] then [] else [("C06", "frame-bytes-differ-from-layout-spec")]
           | none => []) ++
          (if !Spec.shapeOK f then [] else
           if back == ["ERR"] then [("C01", "decoder-refuses-own-encoding")]
           else if " ".intercalate back == fmtFrame (Spec.wire f) then [] else [("C01", "roundtrip-differs")])
    | "phyenc", toks =>
      -- C06, frame level: the bytes are those the layout tables (LW.Spec.Layout) prescribe
      match parseArgs toks frame with
      | none => []
      | some f =>
        match Spec.frameBytes f, res with
        | some sb, some out => if out == [hx sb] then [] else [("C06", "frame-bytes-differ-from-layout-spec")]
        | some _, none => if Spec.frameValid f then [("C06", "encoder-refuses-frame-the-layout-defines")] else []
        | none, _ => []
    | "phydec", [h] =>
      -- C06, frame level: the decoded field values are the fields the layout tables read out of the input (reserved MHDR bits zero)
      match unhx h, res with
      | some bs, some out =>
        if (bs.getD 0 0) &&& 0x1c#8 != 0#8 then [] else
        (match parseArgs out frame with
         | some f => (match Spec.frameBytes f with
           | some sb => if sb == bs then [] else [("C06", "decoded-fields-are-not-the-layout-fields-of-the-input")]
           | none => [("C06", "decoded-frame-has-no-layout")])
         | none => [])
      | _, _ => []
    | "phytextrt", toks =>
      match parseArgs toks frame with
      | none => []
      | some f =>
        match res with
        | none => if Spec.frameValid f then [("C01", "encoder-refuses-spec-valid-frame")] else []
        | some out =>
          let (_, back) := splitBar out
          if !Spec.shapeOK f then [] else
          if back == ["ERR"] then [("C01", "text-form-of-own-encoding-refused")]
          else if " ".intercalate back == fmtFrame (Spec.wire f) then [] else [("C01", "text-roundtrip-differs")]
    | "phycanon", [h] =>
      match unhx h, res with
      | some bs, some out =>
        let (_, back) := splitBar out
        if (bs.getD 0 0) &&& 0x1c#8 != 0#8 then [] else
        if back == ["ERR"] then [("C08", "accepted-frame-not-encodable")]
        else if back == [hx bs] then [] else [("C08", "reencoding-differs-from-input")]
      | _, _ => []
    | "micup", toks =>
      match parseArgs toks (do let v ← nat; let c ← nat; let dr ← nat; let ch ← nat; let fk ← hex; let sk ← hex; let p ← frame; pure (v, c, dr, ch, fk, sk, p)) with
      | some (v, c, dr, ch, fk, sk, p) => cmpBytes "C02" "uplink-mic-differs-from-spec" res (specMicUp v c dr ch fk sk p)
      | none => []
    | "valup", toks =>
      match parseArgs toks (do let v ← nat; let c ← nat; let dr ← nat; let ch ← nat; let fk ← hex; let sk ← hex; let p ← frame; pure (v, c, dr, ch, fk, sk, p)) with
      | some (v, c, dr, ch, fk, sk, p) => cmpBool "C02" "uplink-validate-differs-from-spec" res ((specMicUp v c dr ch fk sk p).map (p.mic == ·))
      | none => []
    | "valupf", toks =>
      match parseArgs toks (do let fk ← hex; let p ← frame; pure (fk, p)) with
      | some (fk, p) => cmpBool "C02" "cmacF-validate-differs-from-spec" res ((specMicUp 1 0 0 0 fk fk p).map (fun m => p.mic.drop 2 == m.drop 2))
      | none => []
    | "micdown", toks =>
      match parseArgs toks (do let v ← nat; let c ← nat; let k ← hex; let p ← frame; pure (v, c, k, p)) with
      | some (v, c, k, p) => cmpBytes "C02" "downlink-mic-differs-from-spec" res (specMicDown v c k p)
      | none => []
    | "valdown", toks =>
      match parseArgs toks (do let v ← nat; let c ← nat; let k ← hex; let p ← frame; pure (v, c, k, p)) with
      | some (v, c, k, p) => cmpBool "C02" "downlink-validate-differs-from-spec" res ((specMicDown v c k p).map (p.mic == ·))
      | none => []
    | "encfrm", toks =>
      match parseArgs toks (do let k ← hex; let u ← boolean; let a ← nat; let c ← nat; let d ← hex; pure (k, u, a, c, d)) with
      | some (k, u, a, c, d) => cmpBytes "C03" "frmpayload-differs-from-spec-keystream" res (some (Spec.cryptFRM E k u (BitVec.ofNat 32 a) (BitVec.ofNat 32 c) d))
      | none => []
    | "encfopts", toks =>
      match parseArgs toks (do let k ← hex; let af ← boolean; let u ← boolean; let a ← nat; let c ← nat; let d ← hex; pure (k, af, u, a, c, d)) with
      | some (k, af, u, a, c, d) =>
        cmpBytes "C03" "fopts-differs-from-spec" res (if d.length > 15 then none else some (Spec.cryptFOpts E k af u (BitVec.ofNat 32 a) (BitVec.ofNat 32 c) d))
      | none => []
    | "phyencfopts", toks | "phydecfopts", toks =>
      match parseArgs toks (do let k ← hex; let p ← frame; pure (k, p)) with
      | some (k, p) =>
        match p.payload with
        | some (.mac h fp frm) =>
          if h.fOpts.isEmpty then [] else
          match encItems h.fOpts with
          | .ok macB =>
            let want : Option Bytes := if macB.length > 15 then none else
              some (Spec.cryptFOpts E k (Spec.useAFCntDown p.isUplink fp) p.isUplink h.devAddr h.fCnt macB)
            match res, want with
            | some _, none => [("C03", "phy-fopts-success-without-transform")]
            | some out, some w =>
              if op == "phyencfopts" then
                (match parseArgs out frame with
                 | some q => if q.payload == some (.mac { h with fOpts := [.data w] } fp frm) then [] else [("C03", "phy-fopts-differs-from-spec")]
                 | none => [("*", "unparsable-result")])
              else []
            | none, some _ => if op == "phyencfopts" then [("C03", "phy-fopts-rejects-valid")] else []
            | none, none => []
          | _ => (if res.isSome then [("C03", "phy-fopts-success-without-transform")] else [])
        | _ => if res.isSome then [("C03", "phy-fopts-success-on-non-data-frame")] else []
      | none => []
    | "phyencfrm", toks =>
      match parseArgs toks (do let k ← hex; let p ← frame; pure (k, p)) with
      | some (k, p) =>
        match p.payload with
        | some (.mac h fp frm) =>
          if frm.isEmpty then [] else
          match frmEnc fp frm, res with
          | .ok d, some out =>
            (match parseArgs out frame with
             | some q => if q.payload == some (.mac h fp [.data (Spec.cryptFRM E k p.isUplink h.devAddr h.fCnt d)]) then [] else [("C03", "phy-frm-differs-from-spec")]
             | none => [("*", "unparsable-result")])
          | .ok _, none => [("C03", "phy-frm-rejects-valid")]
          | _, some _ => [("C03", "phy-frm-success-without-transform")]
          | _, none => []
        | _ => if res.isSome then [("C03", "phy-frm-success-on-non-data-frame")] else []
      | none => []
    | "micjoin", toks =>
      match parseArgs toks (do let k ← hex; let p ← frame; pure (k, p)) with
      | some (k, p) =>
        cmpBytes "C04" "join-mic-differs-from-spec" res
          (match p.payload with
           | some pl => (match pl.enc with | .ok b => some (Spec.micJoin E k (mhdrEnc p.mtype p.major) b) | _ => none)
           | none => none)
      | none => []
    | "micja", toks =>
      match parseArgs toks (do let t ← nat; let e ← nat; let n ← nat; let k ← hex; let p ← frame; pure (t, e, n, k, p)) with
      | some (t, e, n, k, p) =>
        cmpBytes "C04" "join-accept-mic-differs-from-spec" res
          (match p.payload with
           | some (.joinAccept ja) => (match ja.enc with
             | .ok b => some (Spec.micJoinAccept E k ja.optNeg (byteOfNat t) (BitVec.ofNat 64 e) (BitVec.ofNat 16 n) (mhdrEnc p.mtype p.major) b)
             | _ => none)
           | _ => none)
      | none => []
    | "valjoin", toks =>
      match parseArgs toks (do let k ← hex; let p ← frame; pure (k, p)) with
      | some (k, p) =>
        cmpBool "C04" "join-validate-differs-from-spec" res
          (match p.payload with
           | some pl => (match pl.enc with | .ok b => some (p.mic == Spec.micJoin E k (mhdrEnc p.mtype p.major) b) | _ => none)
           | none => none)
      | none => []
    | "valja", toks =>
      match parseArgs toks (do let t ← nat; let e ← nat; let n ← nat; let k ← hex; let p ← frame; pure (t, e, n, k, p)) with
      | some (t, e, n, k, p) =>
        cmpBool "C04" "join-accept-validate-differs-from-spec" res
          (match p.payload with
           | some (.joinAccept ja) => (match ja.enc with
             | .ok b => some (p.mic == Spec.micJoinAccept E k ja.optNeg (byteOfNat t) (BitVec.ofNat 64 e) (BitVec.ofNat 16 n) (mhdrEnc p.mtype p.major) b)
             | _ => none)
           | _ => none)
      | none => []
    | "encja", toks =>
      match parseArgs toks (do let k ← hex; let p ← frame; pure (k, p)) with
      | some (k, p) =>
        match p.payload, res with
        | some (.joinAccept ja), some out =>
          (match ja.enc, parseArgs out frame with
           | .ok b, some q =>
             let ct := Spec.encryptJoinAccept E k (b ++ p.mic)
             (if q.payload == some (.data (ct.take (ct.length - 4))) && q.mic == ct.drop (ct.length - 4) then [] else [("C04", "join-accept-ciphertext-differs-from-spec")]) ++
             (if Spec.deviceDecryptJoinAccept E k ct == b ++ p.mic then [] else [("C04", "device-cannot-recover-join-accept")])
           | _, _ => [("C04", "join-accept-encrypt-accepts-what-spec-rejects")])
        | _, _ => []
      | none => []
    | "jart", toks =>
      -- the join-accept payload as the device sees it: a value the encoder accepts decodes to itself (CFList absent, five
      -- frequencies, or channel masks without a trailing all-zero mask, which the wire cannot tell from padding)
      (match parseArgs toks frame with
       | some p =>
         (match p.payload with
          | some (.joinAccept ja) =>
            let canonical := match ja.cfList with
              | none => true
              | some l => (match l.payload with
                | .channels fs => fs.length == 5 && l.typ != 1
                | .masks ms => l.typ == 1 && (ms.isEmpty || ms.getLast? != some 0))
            (match res with
             | some (encTok :: "|" :: out) =>
               (if !canonical || out == (fmtFrame p).splitOn " " then [] else [("C01", "join-accept-payload-does-not-decode-to-itself")]) ++
               -- C06, payload level: the encoder's bytes are the layout's, and the decoded fields are the layout fields of those bytes
               (match unhx encTok with
                | some eb =>
                  (match Spec.payloadBytes (.joinAccept ja) with
                   | some sb => if sb == eb then [] else [("C06", "frame-bytes-differ-from-layout-spec")]
                   | none => []) ++
                  (match (parseArgs out frame).bind (fun q => q.payload.bind Spec.payloadBytes) with
                   | some sb => if sb == eb then [] else [("C06", "decoded-fields-are-not-the-layout-fields-of-the-input")]
                   | none => [])
                | none => [])
             | _ => [])
          | _ => [])
       | none => [])
    | "decja", toks =>
      match parseArgs toks (do let k ← hex; let p ← frame; pure (k, p)) with
      | some (k, p) =>
        match p.payload, res with
        | some (.data ct), some out =>
          (match parseArgs out frame with
           | some q =>
             let pt := Spec.deviceDecryptJoinAccept E k (ct ++ p.mic)
             (match q.payload, JoinAccept.dec {} (pt.take (pt.length - 4)) with
              | some (.joinAccept ja), .ok want =>
                if ja == want && q.mic == pt.drop (pt.length - 4) then [] else [("C04", "join-accept-decrypt-differs-from-spec")]
              | some (.joinAccept _), _ => [("C04", "join-accept-decrypt-accepts-what-spec-rejects")]
              | _, _ => [])
           | none => [("*", "unparsable-result")])
        | _, _ => []
      | none => []
    | "exchange", toks =>
      match parseArgs toks (do
        let v ← nat; let c ← nat; let dr ← nat; let ch ← nat; let fk ← hex; let sk ← hex; let ek ← hex; let ak ← hex
        let t ← nat; let p ← frame
        pure (v, c, dr, ch, fk, sk, ek, ak, t, p)) with
      | some (v, c, dr, ch, fk, sk, ek, ak, t, p) =>
        match p.payload, res with
        | some (.mac h fp frm), some (bsHex :: rest) =>
          let lp : LinkParams := { ver := byteOfNat v, conf := BitVec.ofNat 32 c, txDr := byteOfNat dr, txCh := byteOfNat ch, fKey := fk, sKey := sk }
          if t == 0 then
            -- untampered: a valid frame must be accepted and yield the original commands / payload
            let up := isUpData p.mtype
            let foptsOk := h.fOpts.isEmpty || (allCmds h.fOpts && cmdsValid st.reg up h.fOpts)
            let frmOk := frm.isEmpty || (if fp == some 0 then allCmds frm && cmdsValid st.reg up frm else frm.all (fun i => !i.isCmd))
            if !(foptsOk && frmOk && Spec.frameValid p) then [] else
            match rest with
            | "accepted" :: ftoks =>
              (match parseArgs ftoks frame with
               | some q =>
                 (match q.payload with
                  | some (.mac h' fp' frm') =>
                    let wantF := normItems h.fOpts
                    let wantR := if fp == some 0 then normItems frm
                                 else (let b := Spec.frmBytes fp frm; if b.isEmpty then [] else [fmtItem (.data b)])
                    if h'.fOpts.map fmtItem == wantF && frm'.map fmtItem == wantR && fp' == fp && h'.devAddr == h.devAddr && h'.fCnt == h.fCnt
                    then [] else [("C05", "receiver-content-differs-from-sender")]
                  | _ => [("C05", "receiver-content-differs-from-sender")])
               | none => [("C05", "receiver-failed-on-valid-frame")])
            | _ => [("C05", "receiver-rejects-or-fails-on-untampered-valid-frame")]
          else
            -- tampered: accepted exactly when the specification's MIC over the received bytes, with the receiver's parameters, matches
            match unhx bsHex with
            | some bs =>
              let fcnt := h.fCnt
              let (lp', hi, _) := if otherDirOf t then (lp, fcnt &&& 0xffff0000#32, []) else tamperOf t lp (fcnt &&& 0xffff0000#32) []
              (match PHY.dec bs with
               | .ok q => (match q.payload with
                 | some (.mac hq _ _) =>
                   let fc := hi ||| (hq.fCnt &&& 0xffff#32)
                   let msg := bs.take (bs.length - 4)
                   let mic := bs.drop (bs.length - 4)
                   let want := if isUpData q.mtype != otherDirOf t then Spec.micUp E (lp'.ver != 0) lp'.conf lp'.txDr lp'.txCh lp'.fKey lp'.sKey hq.devAddr fc hq.fCtrl.ack msg
                               else Spec.micDown E (lp'.ver != 0) lp'.conf lp'.sKey hq.devAddr fc hq.fCtrl.ack msg
                   let canonical := (bs.getD 0 0) &&& 0x1c#8 == 0#8
                   if !canonical then [] else
                   (match rest with
                    | "accepted" :: _ => if want == mic then [] else [("C05", "tampered-frame-accepted-although-spec-mic-differs")]
                    | ["rejected"] => if want == mic then [("C05", "frame-rejected-although-spec-mic-matches")] else []
                    | _ => [])
                 | _ => [])
               | _ => [])
            | none => []
        | _, _ => []
      | none => []
    | "setprefix", [n, a] =>
      match n.toNat?, a.toNat?, res with
      | some n, some a, some [r] => if r.toNat? == some (Spec.addrWithPrefix n a) then [] else [("C11", "prefix-differs-from-addressing-rules")]
      | _, _, _ => []
    | "isnetid", [n, a] =>
      match n.toNat?, a.toNat?, res with
      | some n, some a, some [r] => if (r == "1") == Spec.addrInNetID n a then [] else [("C11", "membership-differs-from-addressing-rules")]
      | _, _, _ => []
    | "netidinfo", [n] =>
      match n.toNat?, res with
      | some n, some [t, idh] =>
        let idw := Spec.netIDWidth (Spec.netIDTypeOf n)
        let want := (leBytes ((idw + 7) / 8) (Spec.netIDIdOf n)).reverse
        if t.toNat? == some (Spec.netIDTypeOf n) && unhx idh == some want then [] else [("C11", "netid-type-or-id-differs")]
      | _, _ => []
    | "nwkid", [a] =>
      match a.toNat?, res with
      | some a, some [t, idh] =>
        (match Spec.addrType a with
         | some ty =>
           let want := (leBytes ((Spec.nwkIDWidth ty + 7) / 8) (Spec.addrNwkID a ty)).reverse
           if t.toInt? == some (ty : Int) && unhx idh == some want then [] else [("C11", "nwkid-differs")]
         | none => if t == "-1" && idh == "nil" then [] else [("C11", "nwkid-differs")])
      | _, _ => []
    | "idrepr", [_, h] =>
      match unhx h, res with
      | some b, some [t, bin, val] =>
        if t == "t" ++ hexOfBytes b && unhx bin == some b.reverse && unhx val == some b then [] else [("C11", "representation-differs")]
      | some _, _ => [("C11", "representation-failed")]
      | _, _ => []
    | "idparse", [k, how, a] =>
      let len := if k == "EUI64" then 8 else if k == "DevAddr" then 4 else if k == "NetID" then 3 else 16
      let want : Option Bytes :=
        if how == "text" then
          (let cs := (sdrop a 1).toList
           let cs := match cs with | '0' :: 'x' :: r => r | _ => cs
           match hexDecodeChars cs with | some b => (if b.length == len then some b else none) | none => none)
        else if how == "bin" then (match unhx a with | some b => (if b.length == len then some b.reverse else none) | none => none)
        else if how == "scan" then (match unhx a with | some b => (if b.length == len then some b else none) | none => none)
        else none
      match res, want with
      | some [r], some w => if unhx r == some w then [] else [("C11", "parsed-value-differs")]
      | none, none => []
      | some _, none => [("C11", "accepts-malformed-identifier")]
      | none, some _ => [("C11", "rejects-wellformed-identifier")]
      | _, _ => []
    | "bq", toks => bandVerdicts toks res
    | "gpsto", [t] =>
      (match t.toInt?, res with
       | some t, some [r] => if r.toInt? == some (t - Spec.gpsEpoch + (Spec.gpsUtcOffset t : Int) * 1000000000) then [] else [("C20", "gps-offset-differs-from-published-leap-seconds")]
       | _, _ => [])
    | "gpsfrom", [d] =>
      (match d.toInt?, res with
       | some d, some [r] =>
         (match r.toInt? with
          | some t =>
            let back := t - Spec.gpsEpoch + (Spec.gpsUtcOffset t : Int) * 1000000000
            -- durations inside an inserted leap second have no UTC instant
            let inLeap := (List.range Spec.leapInstants.length).any fun i =>
              let g := Spec.leapInstants.getD i 0 - Spec.gpsEpoch + (i : Int) * 1000000000
              g ≤ d && d < g + 1000000000
            if back == d || inLeap then [] else [("C20", "gps-duration-to-utc-and-back-is-not-identity")]
          | none => [])
       | _, _ => [])
    | "paysym", [pl, sf, cr, h, de] =>
      (match pl.toInt?, sf.toInt?, cr.toInt?, h.toInt?, de.toInt? with
       | some pl, some sf, some cr, some h, some de =>
         if cr < 1 || cr > 4 then (if res.isNone then [] else [("C20", "invalid-coding-rate-accepted")]) else
         if sf - 2 * (if de != 0 then 1 else 0) ≤ 0 then [] else
         (match res with
          | some [r] => if r.toInt? == some (Spec.nPayload pl sf cr (h != 0) (de != 0)) then [] else [("C20", "payload-symbols-differ-from-semtech-formula")]
          | _ => [("C20", "payload-symbols-rejected")])
       | _, _, _, _, _ => [])
    | "airtime", [pl, sf, bw, pre, cr, h, de] =>
      (match pl.toInt?, sf.toInt?, bw.toInt?, pre.toInt?, cr.toInt?, h.toInt?, de.toInt? with
       | some pl, some sf, some bw, some pre, some cr, some h, some de =>
         if cr < 1 || cr > 4 then (if res.isNone then [] else [("C20", "invalid-coding-rate-accepted")]) else
         if sf - 2 * (if de != 0 then 1 else 0) ≤ 0 || bw ≤ 0 || sf < 0 || pre < 0 then [] else
         (match res with
          | some [r] => if r.toInt? == some (Spec.timeOnAir pl sf bw pre cr (h != 0) (de != 0)) then [] else [("C20", "airtime-differs-from-semtech-formula")]
          | _ => [("C20", "airtime-rejected")])
       | _, _, _, _, _, _, _ => [])
    | "eirpidx", [b] =>
      (match b.toNat?, res with
       | some b, some [r] =>
         let x := f32OfBits b
         if natGtF32 8 x || x == .nan then [] else
         let want := ((List.range 16).filter fun i => !natGtF32 (Spec.eirpTable.getD i 0) x).getLast?.getD 0
         if r.toNat? == some want then [] else [("C20", "eirp-index-is-not-the-largest-entry-not-exceeding-the-power")]
       | _, _ => [])
    | "eirpval", [i] =>
      (match i.toNat?, res with
       | some i, some [r] => if i < 16 && r.toNat? == Spec.eirpTable[i]? then [] else [("C20", "eirp-table-differs")]
       | some i, none => if i ≥ 16 then [] else [("C20", "eirp-index-rejected")]
       | _, _ => [])
    | "fragenc", [sz, rd, h] =>
      (match sz.toInt?, rd.toInt?, unhx h with
       | some size, some red, some data =>
         let valid := size > 0 && data.length % size.toNat == 0
         (match res with
          | none => if valid then [("C19", "valid-request-rejected")] else []
          | some (_n :: rows) =>
            if !valid then [("C19", "invalid-size-not-reported-as-error")] else
            (match rows.mapM unhx with
             | some rs =>
               let w := data.length / size.toNat
               let dataRows := rowsOf w size.toNat data
               (if rs.take w == dataRows then [] else [("C19", "data-fragments-changed-or-reordered")]) ++
               (if rs.length == w + red.toNat then [] else [("C19", "wrong-number-of-parity-fragments")]) ++
               (if (List.range red.toNat).all (fun y =>
                    match Spec.matrixLine 100000 (y + 1) w with
                    | some l => rs[w + y]? == some (xorSelected size.toNat l dataRows)
                    | none => false) then [] else [("C19", "parity-fragment-is-not-the-xor-selected-by-the-ts004-matrix-line")])
             | none => [("*", "unparsable-result")])
          | _ => [])
       | _, _, _ => [])
    | _, _ => if AppOps.isAppOp op then AppVerdict.verdicts E op args res
              else if BackendOps.isBackendOp op then BackendVerdict.verdicts E op args res
              else if JSOps.isJSOp op then JSVerdict.verdicts E op args res else []

def verdict (prop : String) (st : DState) (op : String) (args : List String) (goRes : String) : String :=
  let vs := (verdicts st op args goRes).filter (fun (p, v) => (p == prop || p == "*") && v != "ok")
  -- a genuine violation takes precedence over a known finding
  match vs.find? (fun (_, v) => !v.startsWith "KNOWN:") with
  | some (_, v) => viol prop v
  | none => match vs with
    | (_, v) :: _ => v
    | [] => "ok"

end LW.Driver
