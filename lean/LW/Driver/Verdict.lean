/-
  LW.Driver.Verdict — spec verdict P on the *implementation's* result of an op:
  "ok", "VIOL:<property>:<clause>" or "KNOWN:<finding id>".
  The verdict never looks at the model's result: it is the property predicate evaluated with the
  independent specification (LW.Spec.*) on what the Go code returned.
-/
import LW.Driver.Ops
import LW.Spec.Mac
import LW.Known
namespace LW.Driver
open LW LW.Canon

/-- parse the Go result: `some (some toks)` = ok with tokens, `some none` = ERR, `none` = PANIC/HANG/other -/
def goOk (goRes : String) : Option (Option (List String)) :=
  if goRes == "ERR" then some none
  else if goRes == "ok" then some (some [])
  else if goRes.startsWith "ok " then some (some ((sdrop goRes 3).splitOn " " |>.filter (· ≠ "")))
  else none

def viol (prop clause : String) : String := s!"VIOL:{prop}:{clause}"

/-- all clause verdicts of an op, as (property, verdict) pairs; only those of the property under check are reported -/
def verdicts (st : DState) (op : String) (args : List String) (goRes : String) : List (String × String) :=
  match goOk goRes with
  | none => [("*", if goRes.startsWith "BADOP" then "ok" else "panic-or-hang")]
  | some res =>
    match op, args with
    | "macenc", [tok] =>
      match parsePayload tok with
      | none => []
      | some v =>
        match res with
        | some [h] =>
          match unhx h with
          | none => [("*", "unparsable-result")]
          | some bs =>
            -- C06: in-range values produce exactly the specification's bytes
            (match Spec.enc v with
             | some sb => if sb == bs then [] else [("C06", "enc-bytes-differ-from-spec")]
             | none => []) ++
            -- C07: lossless or error: what was produced must decode (by the specification) to the same value
            (match Spec.dec v.kind bs with
             | some v' => if v' == Spec.wireNorm v then [] else [("C07", "enc-lossy-without-error")]
             | none => [("C07", "enc-produced-undecodable-bytes")]) ++
            (if bs.length == (Spec.layout v.kind).1 then [] else [("C07", "enc-length-differs-from-registered-size")])
        | some _ => [("*", "unparsable-result")]
        | none =>
          match Spec.enc v with
          | some _ => [("C07", "enc-rejects-in-range-value"), ("C06", "enc-rejects-in-range-value")]
          | none => []
    | "macdec", [name, h] =>
      match Kind.ofName name, unhx h with
      | some k, some bs =>
        match res, Spec.dec k bs with
        | some [tok], some v =>
          (match parsePayload tok with
           | some g => if g == v then [] else [("C06", "dec-fields-differ-from-spec")]
           | none => [("*", "unparsable-result")])
        | some _, none => [("C06", "dec-accepts-wrong-length")]
        | none, some _ => [("C06", "dec-rejects-spec-bytes")]
        | none, none => []
        | _, _ => [("*", "unparsable-result")]
      | _, _ => []
    | "getsize", [u, c] =>
      match u.toNat?, c.toNat? with
      | some u, some c =>
        let up := u != 0
        if c ≥ 128 then [] else
        match Spec.registry.lookup up c, res with
        | some e, some [sz, nm] =>
          if sz == toString e.size && nm == e.kind.name then [] else [("C06", "registry-entry-differs-from-spec"), ("C07", "registered-size-differs-from-spec")]
        | some _, _ => [("C06", "registry-entry-missing"), ("C07", "registry-entry-missing")]
        | none, none => []
        | none, some _ => [("C06", "registry-entry-not-in-spec"), ("C07", "registry-entry-not-in-spec")]
      | _, _ => []
    | "register", [_, c, s] =>
      match c.toNat?, s.toInt? with
      | some c, some s =>
        let shouldOk := decide (128 ≤ c ∧ c ≤ 255) && decide (s ≥ 0)
        if shouldOk == res.isSome then [] else [("C07", "register-accepts-or-rejects-wrongly")]
      | _, _ => []
    | "streamrt", u :: _n :: items =>
      -- C07: a sequence of spec-valid commands decodes into exactly that sequence
      match u.toNat?, items.mapM parseItem with
      | some u, some its =>
        let up := u != 0
        let cmds := its.filterMap (fun i => match i with | .cmd c => some c | _ => none)
        let valid := cmds.all fun c =>
          match c.payload, st.reg.lookup up c.cid.toNat with
          | none, none => true
          | some (.proprietary b), some e => e.kind == .proprietary && (b.length : Int) == e.size
          | some p, some e => e.kind == p.kind && (Spec.enc p).isSome
          | _, _ => false
        if !valid then [] else
        match res with
        | some (_hex :: _cnt :: outItems) =>
          let want := cmds.map fun c => fmtItem (.cmd { c with payload := c.payload.map Spec.wireNorm })
          if outItems == want then [] else [("C07", "stream-does-not-decode-to-the-encoded-sequence")]
        | _ => [("C07", "stream-of-valid-commands-rejected")]
      | _, _ => []
    | _, _ => []

def verdict (prop : String) (st : DState) (op : String) (args : List String) (goRes : String) : String :=
  match (verdicts st op args goRes).find? (fun (p, v) => (p == prop || p == "*") && v != "ok") with
  | some (_, v) => viol prop v
  | none => "ok"

end LW.Driver
