/-
  LW.Driver.JSVerdict — C16 clauses evaluated on what the Go join-server answered, with the device / server side of
  LW.Spec.JoinServer.
-/
import LW.Driver.JSOps
import LW.Spec.JoinServer
import LW.Spec.Addr
namespace LW.Driver.JSVerdict
open LW LW.JS LW.Canon LW.Driver.JSOps

def validKEK (k : Bytes) : Bool := k.isEmpty || k.length == 16 || k.length == 24 || k.length == 32

/-- a 3 / 8 byte identifier written as plain hex -/
def hexID (k : Nat) (s : String) : Option Nat :=
  match hexDecodeChars s.toList with
  | some b => if b.length == k then some (leNat b.reverse) else none
  | none => none

def validCFList (c : Bytes) : Bool :=
  c.isEmpty || (c.length == 16 && (c.getD 15 0 == 0 || (c.getD 15 0 == 1 && c.getD 14 0 == 0)))

structure Uplink where
  joinReqType : Byte
  devEUI : BitVec 64
  joinEUI : Option (BitVec 64)
  netID : Option (BitVec 24)
  devNonce : BitVec 16
  micOK : Bool

/-- parse the uplink frame as the specification lays it out (join-request: JoinEUI | DevEUI | DevNonce; rejoin 0/2:
type | NetID | DevEUI | RJcount0; rejoin 1: type | JoinEUI | DevEUI | RJcount1) -/
def parseUplink (E : BlockCipher) (nwkKey : Bytes) (rejoin : Bool) (f : Bytes) : Option Uplink :=
  match f with
  | [] => none
  | mhdr :: rest =>
    let body := rest.take (rest.length - 4)
    let mic := rest.drop (rest.length - 4)
    let micOK := mic == Spec.micJoin E nwkKey mhdr body
    if !rejoin then
      if mhdr == 0x00#8 && body.length == 18 then
        some ⟨0xff, BitVec.ofNat 64 (leNat ((body.drop 8).take 8)), some (BitVec.ofNat 64 (leNat (body.take 8))), none,
              BitVec.ofNat 16 (leNat (body.drop 16)), micOK⟩
      else none
    else if mhdr == 0xc0#8 then
      let t := body.getD 0 0
      if (t == 0 || t == 2) && body.length == 14 then
        some ⟨t, BitVec.ofNat 64 (leNat ((body.drop 4).take 8)), none, some (BitVec.ofNat 24 (leNat ((body.drop 1).take 3))),
              BitVec.ofNat 16 (leNat (body.drop 12)), micOK⟩
      else if t == 1 && body.length == 19 then
        some ⟨t, BitVec.ofNat 64 (leNat ((body.drop 9).take 8)), some (BitVec.ofNat 64 (leNat ((body.drop 1).take 8))), none,
              BitVec.ofNat 16 (leNat (body.drop 17)), micOK⟩
      else none
    else none

def parseKey (t : String) : Option (Option (Bool × Bytes)) :=
  if t == "-" then some none
  else match t.splitOn ":" with
    | [l, k] => (unhx k).map (fun b => some (l == "1", b))
    | _ => none

def knownRejoin : String := "KNOWN:c16-rejoin-session-keys"

def verdicts (E : BlockCipher) (op : String) (args : List String) (res : Option (List String)) : List (String × String) :=
  if op == "jsconc" then
    (match res with | some ["same"] => [] | _ => [("C16", "concurrent-requests-influence-one-another")])
  else if op == "jshome" then
    (match args, res with
     | [k, _, n, s, r, t], some [_, result, snd, rcv, tx, mt, nid] =>
       (if snd == "s" ++ sdrop r 1 && rcv == "s" ++ sdrop s 1 && tx == t && mt == "HomeNSAns" then [] else [("C16", "answer-does-not-mirror-sender-receiver-transaction")]) ++
       (if k == "0" then (if result == "UnknownDevEUI" then [] else [("C16", "unknown-deveui-not-reported")])
        else (if result == "Success" && nid == n then [] else [("C16", "home-netid-not-returned")]))
     | _, _ => [])
  else if op == "jsraw" then []
  else
  match request args, res with
  | some ((q, c), _), some [code, result, sender, receiver, txid, msgType, phyT, k1, k2, k3, k4, k5] =>
    let mirror : List (String × String) :=
      if msgType == "-" then [] else
      if sender == "s" ++ q.receiver && receiver == "s" ++ q.sender && txid == toString q.txid &&
         msgType == (if q.rejoin then "RejoinAns" else "JoinAns") then [] else [("C16", "answer-does-not-mirror-sender-receiver-transaction")]
    mirror ++
    (if JSOps.storeFailsOf args then
       -- the device-key store failed: no Success answer, no frame, no keys
       (if result == "Success" || phyT != "x" || [k1, k2, k3, k4, k5].any (· != "-") then [("C16", "success-or-keys-although-the-device-key-lookup-failed")] else [])
     else
     match c.device with
     | none => if result == "UnknownDevEUI" then [] else [("C16", "unknown-deveui-not-reported")]
     | some (nwkKey, appKey, nonce) =>
       -- a key-encryption-key the server could not look up: no Success answer (it would carry keys in clear or under a wrong KEK)
       if c.lookupFails then (if result == "Success" then [("C16", "success-although-a-kek-lookup-failed")] else []) else
       -- the request as the specification sees it
       match hexID 3 q.sender, hexID 8 q.receiver, parseUplink E nwkKey q.rejoin q.phy with
       | some netID, some joinEUI, some up =>
         let consistent := up.devEUI == q.devEUI && (up.joinEUI.all (· == BitVec.ofNat 64 joinEUI)) && (up.netID.all (· == BitVec.ofNat 24 netID))
         let wellFormed := consistent && 0 ≤ nonce && nonce < 16777216 && 0 ≤ q.rxDelay && q.rxDelay ≤ 15 && q.rx2dr.toNat ≤ 15 && q.rx1off.toNat ≤ 7 &&
           validCFList q.cfList && validKEK c.nsKEK && validKEK c.asKEK && nwkKey.length == 16 && appKey.length == 16
         -- a join-request with a wrong MIC yields MICFailed, whatever else is wrong with what the server would have answered
         -- (JoinNonce overflow, RxDelay, CFList, KEK): the MIC is checked on the parsed request before anything is built
         if !q.rejoin && !up.micOK then (if result == "MICFailed" then [] else [("C16", "wrong-mic-not-reported-as-micfailed")]) else
         if !wellFormed then [] else
         if q.rejoin && !q.optNeg then [] else      -- a rejoin-request only exists in 1.1: OptNeg is set
         if result != "Success" || code != "200" then [("C16", "valid-request-not-answered-with-success")] else
         (match unhx phyT, parseKey k1, parseKey k2, parseKey k3, parseKey k4, parseKey k5 with
          | some frame, some sK, some fK, some eK, some nK, some aK =>
            let jn := nonce.toNat
            let nid := BitVec.ofNat 24 netID
            let jeui := BitVec.ofNat 64 joinEUI
            (match Spec.JS.deviceReceive E nwkKey q.devEUI jeui up.devNonce up.joinReqType q.rejoin frame with
             | none => [("C16", "device-cannot-decrypt-join-accept")]
             | some (payload, micOK) =>
               (if micOK then [] else [("C16", "device-rejects-join-accept-mic")]) ++
               (if frame.getD 0 0 == 0x20#8 then [] else [("C16", "answer-is-not-a-join-accept-frame")]) ++
               (if payload == Spec.JS.joinAcceptBytes jn nid q.devAddr q.optNeg q.rx2dr.toNat q.rx1off.toNat q.rxDelay.toNat q.cfList then []
                else [("C16", "join-accept-does-not-echo-the-requested-fields")])) ++
            -- session keys as the servers unwrap them vs as the device derives them
            (let un (kek : Bytes) (e : Option (Bool × Bytes)) : Option Bytes := e.bind (fun (l, k) => Spec.JS.unwrapEnvelope E kek l k)
             let labelOK (kek : Bytes) (e : Option (Bool × Bytes)) : Bool := match e with | some (l, _) => l == !kek.isEmpty | none => true
             let labels := if labelOK c.nsKEK sK && labelOK c.nsKEK fK && labelOK c.nsKEK eK && labelOK c.nsKEK nK && labelOK c.asKEK aK then []
                           else [("C16", "kek-label-does-not-match-configuration")]
             if q.optNeg then
               let want := [Spec.JS.skey11 E 0x03 nwkKey jn jeui up.devNonce, Spec.JS.skey11 E 0x01 nwkKey jn jeui up.devNonce,
                            Spec.JS.skey11 E 0x04 nwkKey jn jeui up.devNonce, Spec.JS.skey11 E 0x02 appKey jn jeui up.devNonce]
               let got := [un c.nsKEK sK, un c.nsKEK fK, un c.nsKEK eK, un c.asKEK aK]
               labels ++
               (if got == want.map some && nK == none then []
                else if q.rejoin then [("C16", knownRejoin)] else [("C16", "session-keys-differ-from-the-keys-the-device-derives")])
             else
               let want := [Spec.JS.skey10 E 0x01 nwkKey jn nid up.devNonce, Spec.JS.skey10 E 0x02 nwkKey jn nid up.devNonce]
               let got := [un c.nsKEK nK, un c.asKEK aK]
               labels ++
               (if got == want.map some && sK == none && fK == none && eK == none then []
                else [("C16", "session-keys-differ-from-the-keys-the-device-derives")]))
          | _, _, _, _, _, _ => [("*", "unparsable-result")])
       | _, _, _ => [])
  | some _, some _ => [("*", "unparsable-result")]
  | _, _ => []

end LW.Driver.JSVerdict
