/-
  LW.Driver.BackendVerdict — C17 clauses evaluated on what the Go code returned.
-/
import LW.Driver.BackendOps
import LW.Spec.Backend
namespace LW.Driver.BackendVerdict
open LW LW.Canon LW.Driver.BackendOps

def validKEKLen (n : Nat) : Bool := n == 16 || n == 24 || n == 32

def verdicts (E : BlockCipher) (op : String) (args : List String) (res : Option (List String)) : List (String × String) :=
  match parseOp op args with
  | none => []
  | some (.rt scale v) =>
    let inRange := if scale == 1000000 then 0 ≤ v && v < 4294967296 else 0 ≤ v && v ≤ 1000   -- the range of C17_percentage_roundtrip
    if !inRange then [] else
    (match res with
     | some [r] => if r.toInt? == some v then [] else [("C17", if scale == 1000000 then "frequency-does-not-round-trip" else "percentage-does-not-round-trip")]
     | _ => [("C17", "in-range-value-rejected")])
  | some (.hexenc b) =>
    (match res with
     | some [t] => (match unhx t with
        | some tb => if hexDecodeChars (charsOf tb) == some b then [] else [("C17", "hex-text-does-not-denote-the-bytes")]
        | none => [("*", "unparsable-result")])
     | _ => [("C17", "hex-encode-rejected")])
  | some (.timert s _ off) =>
    let l := s + off * 60
    if l < -62167219200 || l > 253402300799 || off.natAbs ≥ 1440 then [] else   -- local year 0..9999, RFC 3339 offsets
    (match res with
     | some [_, r] => if r.toInt? == some s then [] else [("C17", "timestamp-does-not-round-trip-to-the-second")]
     | _ => [("C17", "timestamp-rejected")])
  | some (.kwrap label kek key) =>
    if key.length != 16 then [] else
    if !label || kek.isEmpty then
      (match res with
       | some [l, c] => if l == "0" && unhx c == some key then [] else [("C17", "key-not-carried-in-clear-without-kek-label")]
       | _ => [("C17", "clear-envelope-rejected")])
    else if validKEKLen kek.length then
      (match res with
       | some [l, c] =>
         (match unhx c with
          | some ct =>
            (if l == "1" then [] else [("C17", "kek-label-dropped")]) ++
            (if Spec.Backend.unwrap (E.dec kek) ct == some key then [] else [("C17", "wrapped-key-does-not-unwrap-per-rfc3394")]) ++
            (if ct == Spec.Backend.wrap (E.enc kek) key then [] else [("C17", "wrapped-key-differs-from-rfc3394")])
          | none => [("*", "unparsable-result")])
       | _ => [("C17", "wrap-with-valid-kek-rejected")])
    else []
  | some (.kunwrap kek ct) =>
    if !validKEKLen kek.length then [] else
    let want := if ct.length == 24 then Spec.Backend.unwrap (E.dec kek) ct else none
    (match res, want with
     | some [k], some w => if unhx k == some w then [] else [("C17", "unwrapped-key-differs-from-rfc3394")]
     | none, none => []
     | some _, none => [("C17", "unwrap-succeeds-although-integrity-check-fails")]
     | none, some _ => [("C17", "unwrap-fails-although-integrity-check-passes")]
     | _, _ => [("*", "unparsable-result")])
  | some .payloadrt =>
    (match res with
     | some ["same"] => []
     | _ => [("C17", "payload-struct-does-not-survive-json")])
  | some _ => []

end LW.Driver.BackendVerdict
