/-
  LW.Driver.BackendOps — line-protocol ops of the backend value types (C17). Grammar: harness/ops_backend.go.
  Text arguments and results travel as x<hex of the bytes>.
-/
import LW.Driver.Canon
import LW.Model.Backend
namespace LW.Driver.BackendOps
open LW LW.Backend LW.Canon

def charsOf (b : Bytes) : List Char := b.map (fun x => Char.ofNat x.toNat)
def bytesOfChars (cs : List Char) : Bytes := cs.map (fun c => byteOfNat c.toNat)

inductive BOp where
  | enc (scale : Nat) (v : Int)
  | dec (scale : Nat) (t : Bytes)
  | rt (scale : Nat) (v : Int)
  | hexenc (b : Bytes)
  | hexdec (t : Bytes)
  | timeenc (s ns off : Int)
  | timedec (t : Bytes)
  | timert (s ns off : Int)
  | kwrap (label : Bool) (kek key : Bytes)
  | kunwrap (kek ct : Bytes)
  | payloadrt

def parseOp (op : String) (args : List String) : Option BOp :=
  let run {α} (p : P α) : Option α := (p args).map (·.1)
  match op with
  | "freqenc" => run (do let v ← int; pure (BOp.enc 1000000 v))
  | "pctenc" => run (do let v ← int; pure (BOp.enc 100 v))
  | "freqdec" => run (do let t ← hex; pure (BOp.dec 1000000 t))
  | "pctdec" => run (do let t ← hex; pure (BOp.dec 100 t))
  | "freqrt" => run (do let v ← int; pure (BOp.rt 1000000 v))
  | "pctrt" => run (do let v ← int; pure (BOp.rt 100 v))
  | "hexenc" => run (do let b ← hex; pure (BOp.hexenc b))
  | "hexdec" => run (do let b ← hex; pure (BOp.hexdec b))
  | "timeenc" => run (do let s ← int; let n ← int; let o ← int; pure (BOp.timeenc s n o))
  | "timedec" => run (do let b ← hex; pure (BOp.timedec b))
  | "timert" => run (do let s ← int; let n ← int; let o ← int; pure (BOp.timert s n o))
  | "kwrap" => run (do let l ← boolean; let k ← hex; let key ← hex; pure (BOp.kwrap l k key))
  | "kunwrap" => run (do let k ← hex; let c ← hex; pure (BOp.kunwrap k c))
  | "payloadrt" => some BOp.payloadrt
  | _ => none

def isBackendOp (op : String) : Bool := (parseOp op ["0", "0", "0"]).isSome || op == "freqdec" || op == "pctdec" || op == "hexenc" ||
  op == "hexdec" || op == "timedec" || op == "kwrap" || op == "kunwrap"

def runBOp (E : BlockCipher) : BOp → String
  | .enc scale v => match marshalScaled scale v with
      | some (neg, x) => s!"ok {signedBits neg x}"
      | none => "ERR"
  | .dec scale t => match decodeScaled scale (charsOf t) with
      | .ok (some v) => s!"ok {v}"
      | .ok none => "ok huge"
      | .err => "ERR" | .panic => "PANIC"
  | .rt scale v => match roundTripScaled scale v with
      | some r => s!"ok {r}"
      | none => "ERR"
  | .hexenc b => "ok " ++ hx (bytesOfChars (hexText b))
  | .hexdec t => match hexParse (charsOf t) with
      | .ok b => "ok " ++ hx b
      | .err => "ERR" | .panic => "PANIC"
  | .timeenc s _ off => "ok " ++ hx (bytesOfChars (formatRFC3339 s off))
  | .timedec t => match parseRFC3339 (charsOf t) with
      | some (s, ns) => s!"ok {s} {ns}"
      | none => "ERR"
  | .timert s _ off =>
      let t := formatRFC3339 s off
      "ok " ++ hx (bytesOfChars t) ++ " " ++ (match parseRFC3339 t with | some (s', _) => toString s' | none => "ERR")
  | .kwrap l kek key => match newKeyEnvelope E l kek key with
      | .ok (lab, b) => s!"ok {b2i lab} {hx b}"
      | .err => "ERR" | .panic => "PANIC"
  | .kunwrap kek ct => match unwrapEnvelope E kek ct with
      | .ok b => "ok " ++ hx b
      | .err => "ERR" | .panic => "PANIC"
  | .payloadrt => "ok same"

def backendQuery (E : BlockCipher) (op : String) (args : List String) : String :=
  match parseOp op args with
  | some o => runBOp E o
  | none => "BADOP parse"

end LW.Driver.BackendOps
