/-
  LW.Driver.AppVerdict — C18 clauses evaluated on what the Go code returned (never on the model's result).
-/
import LW.Driver.AppOps
import LW.Spec.App
namespace LW.Driver.AppVerdict
open LW LW.App LW.Canon LW.Driver.AppOps

def knownExact : String := "KNOWN:c18-fw-exact-length-commands"

/-- `res`: tokens after "ok" (`none` = the op returned ERR) -/
def verdicts (E : BlockCipher) (op : String) (args : List String) (res : Option (List String)) : List (String × String) :=
  match parseOp op args with
  | none => []
  | some (.enc p c) =>
    if Spec.App.cmdOK p true c || Spec.App.cmdOK p false c then
      match res with
      | some [n, h] =>
        if h == "ERR" then [("C18", "in-width-command-not-encodable")]
        else match unhx h, n.toNat? with
          | some b, some n => if b.length == n then [] else [("C18", "size-differs-from-encoded-length")]
          | _, _ => [("*", "unparsable-result")]
      | _ => [("*", "unparsable-result")]
    else []
  | some (.seq p up cs) =>
    if Spec.App.seqOK p up cs then
      match res with
      | none => [("C18", "in-width-sequence-not-encodable")]
      | some (_h :: "|" :: out) =>
        if out == (toString cs.length :: cs.map fmtCmd) then []
        else if !Spec.App.noExactBeforeLast cs && out == ["ERR"] then [("C18", knownExact)]
        else [("C18", if cs.length == 1 then "command-does-not-decode-to-itself" else "sequence-does-not-decode-to-itself")]
      | _ => [("*", "unparsable-result")]
    else []
  | some (.keys k a) =>
    if k.length == 16 && a.length == 4 then
      let want := [Spec.App.mcRootKey10 E k, Spec.App.mcRootKey11 E k, Spec.App.mcKEKey E k, Spec.App.mcAppSKey E k a, Spec.App.mcNetSKey E k a]
      match res with
      | some out => if out == want.map hx then [] else [("C18", "multicast-key-differs-from-ts005-derivation")]
      | none => [("C18", "multicast-key-derivation-rejected")]
    else []
  | some _ => []

end LW.Driver.AppVerdict
