/-
  LW.Driver.IsoOps — model answers for the C09 / C10 ops of harness/ops_iso.go.
  The model's decoders and encoders are pure functions of their byte arguments, so "the decoded value does not change
  when the input buffer is overwritten", "the input is not written" and "decoding into a used value equals decoding
  into a fresh one" are what the model says by construction: the model answer is `same` / `clean` whenever the op
  applies; the observation is made on the implementation by the harness.
-/
import LW.Driver.Canon
import LW.Driver.AppOps
import LW.Model.Exchange
import LW.Model.Slice
namespace LW.Driver.IsoOps
open LW LW.Canon

def isIsoOp (op : String) : Bool :=
  ["cflistdec", "cmddec", "rawcrypt", "rawja", "jsonpl", "subdec", "alias_dec", "alias_prop", "alias_data", "alias_app", "alias_enc", "alias_crypt",
   "guardfrm", "guardfopts", "inspect", "reuse_phy", "reuse_macpl", "reuse_ja", "reuse_cfl", "reuse_app", "reuse_apppl", "bandiso"].contains op

def run {α} (args : List String) (p : P α) (k : α → String) : String :=
  match p args with
  | some (a, _) => k a
  | none => "BADOP parse"

def isoQuery (E : BlockCipher) (reg : Registry) (op : String) (args : List String) : String :=
  match op with
  | "cflistdec" => run args hex fun b =>
      if Checked.cfListDec b != CFList.dec b || Checked.joinAcceptDec b != JoinAccept.dec {} b then "MODEL-INCONSISTENT checked-cflist" else
      match CFList.dec b with
      | .ok l => "ok " ++ fmtCFList (some l) | .err => "ERR" | .panic => "PANIC"
  | "cmddec" => run args (do let u ← boolean; let b ← hex; pure (u, b)) fun (u, b) =>
      match MacCmd.dec reg u b with
      | .ok (c, true) => "ok " ++ fmtItem (.cmd c)
      | .ok (_, false) => "ERR" | .err => "ERR" | .panic => "PANIC"
  | "rawcrypt" => run args (do let k ← hex; let b ← hex; pure (k, b)) fun (k, b) =>
      match PHY.dec b with
      | .ok p =>
        -- DecryptFOpts = EncryptFOpts then decode: on a decode error the frame keeps the decrypted bytes
        let (p1, s1) := match p.encryptFOpts E k with
          | .ok p' => (match p'.decodeFOpts reg with
              | .ok p'' => (p'', "fopts-ok")
              | _ => -- `macPL.FHDR.FOpts, err = decode…`: the failed decode leaves FOpts nil
                ((match p'.payload with | some (.mac h fp frm) => { p' with payload := some (.mac { h with fOpts := [] } fp frm) } | _ => p'), "fopts-ERR"))
          | _ => (p, "fopts-ERR")
        let (p2, s2) := match p1.encryptFRM E k with
          | .ok p' =>
            (match p'.payload with
             | some (.mac _ (some port) _) =>
               if port == 0 then (match p'.decodeFRM reg with
                 | .ok p'' => (p'', "frm-ok")
                 | _ => ((match p'.payload with | some (.mac h fp _) => { p' with payload := some (.mac h fp []) } | _ => p'), "frm-ERR"))
               else (p', "frm-ok")
             | _ => (p', "frm-ok"))
          | _ => (p1, "frm-ERR")
        s!"ok {s1} {s2} {fmtFrame p2}"
      | .err => "ERR" | .panic => "PANIC"
  | "rawja" => run args (do let k ← hex; let b ← hex; pure (k, b)) fun (k, b) =>
      match PHY.dec b with
      | .ok p => (match p.decryptJA E k with | .ok q => "ok " ++ fmtFrame q | .err => "ok ja-ERR" | .panic => "PANIC")
      | .err => "ERR" | .panic => "PANIC"
  | "jsonpl" => "ok done"
  | "subdec" => "ok done"   -- implementation-only: sub-structure decoders called directly; judged by PANIC / HANG
  | "alias_dec" => run args hex fun b => match PHY.dec b with | .ok _ => "ok same" | .err => "ERR" | .panic => "PANIC"
  | "alias_prop" | "alias_data" => "ok same"
  | "alias_app" => run args (do let p ← AppOps.pkg; let u ← boolean; let b ← hex; pure (p, u, b)) fun (p, u, b) =>
      match App.cmdsDec p u b with | .ok _ => "ok same" | .err => "ERR" | .panic => "PANIC"
  | "alias_enc" | "inspect" | "alias_crypt" => "ok same"
  | "guardfrm" => run args (do let k ← hex; let u ← boolean; let a ← nat; let c ← nat; let d ← hex; pure (k, u, a, c, d))
      fun (k, u, a, c, d) =>
        -- the slice sits in a buffer with 16 canary bytes of spare capacity behind it (harness guardedBuf)
        let canary : Bytes := List.replicate 16 0x5a#8
        let (out, arr) := Slice.encryptFRMPayloadMem E k u (BitVec.ofNat 32 a) (BitVec.ofNat 32 c) ⟨d ++ canary, d.length⟩
        "ok " ++ hx out ++ (if arr.drop d.length == canary then " clean" else " DIRTY")
  | "guardfopts" => run args (do let k ← hex; let af ← boolean; let u ← boolean; let a ← nat; let c ← nat; let d ← hex; pure (k, af, u, a, c, d))
      fun (k, af, u, a, c, d) =>
        let canary : Bytes := List.replicate 16 0x5a#8
        match Slice.encryptFOptsMem E k af u (BitVec.ofNat 32 a) (BitVec.ofNat 32 c) ⟨d ++ canary, d.length⟩ with
        | (.ok o, arr) => "ok " ++ hx o ++ (if arr.drop d.length == canary then " clean" else " DIRTY")
        | (.err, _) => "ERR" | (.panic, _) => "PANIC"
  | "reuse_phy" | "reuse_macpl" | "reuse_ja" | "reuse_cfl" | "reuse_app" | "bandiso" => "ok same"
  | "reuse_apppl" => run args (do let p ← AppOps.pkg; let u ← boolean; let c ← nat; pure (p, u, c)) fun (p, u, c) =>
      match App.registry p u c with | some _ => "ok same" | none => "ERR"
  | _ => "BADOP unknown"

end LW.Driver.IsoOps
