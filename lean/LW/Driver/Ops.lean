/-
  LW.Driver.Ops — the line-protocol oracle: for each op the model's result (M) in canonical form.
  Spec verdicts (P) live in LW.Driver.Verdict.
-/
import LW.Driver.Canon
import LW.Generated.Registry
import LW.Model.Base64
import LW.Model.Exchange
import LW.Model.NetID
import LW.Driver.BandOps
import LW.Model.Misc
import LW.Model.Frag
import LW.Generated.LeapTable
import LW.Generated.EirpTable
import LW.Driver.AppOps
import LW.Driver.BackendOps
import LW.Driver.JSOps
import LW.Driver.IsoOps
import LW.Model.Checked
namespace LW.Driver
open LW LW.Canon

structure DState where
  reg : Registry := Generated.registry

def E : BlockCipher := aesCipher

def fmtOut {α} (f : α → String) : Outcome α → String
  | .ok a => let s := f a; if s.isEmpty then "ok" else "ok " ++ s
  | .err => "ERR"
  | .panic => "PANIC"

def badop (msg : String) : String := "BADOP " ++ msg

/-- run a parser over the argument tokens -/
def withArgs {α} (args : List String) (p : P α) (k : α → String) : String :=
  match p args with
  | some (a, _) => k a
  | none => badop "parse"

def key : P Bytes := hex

def frameOut (o : Outcome PHY) : String := fmtOut fmtFrame o
def bytesOut (o : Outcome Bytes) : String := fmtOut hx o
def boolOut (o : Outcome Bool) : String := fmtOut (fun b => if b then "1" else "0") o

/-- model result of one op; may change the driver state (proprietary registrations). -/
def runOp (st : DState) (op : String) (args : List String) : DState × String :=
  match op with
  | "macenc" => (st, withArgs args next fun s =>
      match parsePayload s with
      | some p => bytesOut p.enc
      | none => badop "payload")
  | "macdec" => (st, withArgs args (do let n ← next; let b ← hex; pure (n, b)) fun (n, b) =>
      match Kind.ofName n with
      | some k => fmtOut fmtPayload (k.dec0 b)
      | none => badop "kind")
  | "macdecinto" => (st, withArgs args (do let n ← next; let b ← hex; pure (n, b)) fun (n, b) =>
      match parsePayload n with
      | some prev => fmtOut fmtPayload (prev.kind.dec prev b)
      | none => badop "payload")
  | "cmdenc" => (st, withArgs args next fun s =>
      match parseItem s with
      | some i => bytesOut i.enc
      | none => badop "item")
  | "stream" => (st, withArgs args (do let u ← boolean; let b ← hex; pure (u, b)) fun (u, b) =>
      -- the cursor-arithmetic transcription (LW.Model.Checked) must agree with the total decoder on every input
      if Checked.stream st.reg u b != decodeStream st.reg u b then "MODEL-INCONSISTENT checked-stream"
      else fmtOut (fun cs => " ".intercalate (fmtItems (cs.map Item.cmd))) (decodeStream st.reg u b))
  | "streamrt" => (st, withArgs args (do let u ← boolean; let is ← items; pure (u, is)) fun (u, is) =>
      fmtOut (fun (b, cs) => " ".intercalate (hx b :: fmtItems (cs.map Item.cmd)))
        (do let b ← encItems is; let cs ← decodeStream st.reg u b; pure (b, cs) : Outcome _))
  | "register" =>
      match (do let u ← boolean; let c ← nat; let s ← int; pure (u, c, s) : P _) args with
      | some ((u, c, s), _) =>
        match st.reg.register u c s with
        | .ok r => ({ st with reg := r }, "ok")
        | .err => (st, "ERR")
        | .panic => (st, "PANIC")
      | none => (st, badop "parse")
  | "getsize" => (st, withArgs args (do let u ← boolean; let c ← nat; pure (u, c)) fun (u, c) =>
      match st.reg.lookup u c with
      | some e => s!"ok {e.size} {e.kind.name}"
      | none => "ERR")
  | "phydec" => (st, withArgs args hex fun b =>
      if Checked.phyDec b != PHY.dec b then "MODEL-INCONSISTENT checked-phy" else frameOut (PHY.dec b))
  | "phyenc" => (st, withArgs args frame fun p => bytesOut p.enc)
  | "phycanon" => (st, withArgs args hex fun b =>
      match PHY.dec b with
      | .ok f => "ok " ++ fmtFrame f ++ " | " ++ (match f.enc with | .ok o => hx o | .err => "ERR" | .panic => "PANIC")
      | .err => "ERR" | .panic => "PANIC")
  | "phyrt" => (st, withArgs args frame fun p =>
      match p.enc with
      | .ok b => "ok " ++ hx b ++ " | " ++ (match PHY.dec b with | .ok f => fmtFrame f | .err => "ERR" | .panic => "PANIC")
      | .err => "ERR" | .panic => "PANIC")
  | "phytextrt" => (st, withArgs args frame fun p =>
      match p.enc with
      | .ok b => "ok t" ++ String.ofList (Base64.encode b) ++ " | " ++
          (match Base64.decode (Base64.encode b) with
           | some b' => (match PHY.dec b' with | .ok f => fmtFrame f | .err => "ERR" | .panic => "PANIC")
           | none => "ERR")
      | .err => "ERR" | .panic => "PANIC")
  | "jart" => (st, withArgs args frame fun p =>
      match p.payload with
      | some (.joinAccept ja) =>
        (match ja.enc with
         | .ok b => "ok " ++ hx b ++ " | " ++ (match JoinAccept.dec {} b with
             | .ok q => fmtFrame { p with payload := some (.joinAccept q) } | .err => "ERR" | .panic => "PANIC")
         | .err => "ERR" | .panic => "PANIC")
      | _ => badop "join-accept")
  | "phytextenc" => (st, withArgs args frame fun p => fmtOut (fun b => "t" ++ String.ofList (Base64.encode b)) p.enc)
  | "phytextdec" => (st, withArgs args next fun t =>
      match Base64.decode (sdrop t 1).toList with
      | some b => frameOut (PHY.dec b)
      | none => "ERR")
  | "micup" => (st, withArgs args (do
        let v ← nat; let c ← nat; let dr ← nat; let ch ← nat; let fk ← key; let sk ← key; let p ← frame
        pure (v, c, dr, ch, fk, sk, p)) fun (v, c, dr, ch, fk, sk, p) =>
      bytesOut (calcUplinkDataMIC E (byteOfNat v) (BitVec.ofNat 32 c) (byteOfNat dr) (byteOfNat ch) fk sk p))
  | "valup" => (st, withArgs args (do
        let v ← nat; let c ← nat; let dr ← nat; let ch ← nat; let fk ← key; let sk ← key; let p ← frame
        pure (v, c, dr, ch, fk, sk, p)) fun (v, c, dr, ch, fk, sk, p) =>
      boolOut (validateMIC p (calcUplinkDataMIC E (byteOfNat v) (BitVec.ofNat 32 c) (byteOfNat dr) (byteOfNat ch) fk sk p)))
  | "valupf" => (st, withArgs args (do let fk ← key; let p ← frame; pure (fk, p)) fun (fk, p) =>
      boolOut (validateUplinkDataMICF E fk p))
  | "micdown" => (st, withArgs args (do let v ← nat; let c ← nat; let k ← key; let p ← frame; pure (v, c, k, p)) fun (v, c, k, p) =>
      bytesOut (calcDownlinkDataMIC E (byteOfNat v) (BitVec.ofNat 32 c) k p))
  | "valdown" => (st, withArgs args (do let v ← nat; let c ← nat; let k ← key; let p ← frame; pure (v, c, k, p)) fun (v, c, k, p) =>
      boolOut (validateMIC p (calcDownlinkDataMIC E (byteOfNat v) (BitVec.ofNat 32 c) k p)))
  | "micjoin" => (st, withArgs args (do let k ← key; let p ← frame; pure (k, p)) fun (k, p) =>
      bytesOut (calcUplinkJoinMIC E k p))
  | "valjoin" => (st, withArgs args (do let k ← key; let p ← frame; pure (k, p)) fun (k, p) =>
      boolOut (validateMIC p (calcUplinkJoinMIC E k p)))
  | "micja" => (st, withArgs args (do let t ← nat; let e ← nat; let n ← nat; let k ← key; let p ← frame; pure (t, e, n, k, p))
      fun (t, e, n, k, p) => bytesOut (calcDownlinkJoinMIC E (byteOfNat t) (BitVec.ofNat 64 e) (BitVec.ofNat 16 n) k p))
  | "valja" => (st, withArgs args (do let t ← nat; let e ← nat; let n ← nat; let k ← key; let p ← frame; pure (t, e, n, k, p))
      fun (t, e, n, k, p) => boolOut (validateMIC p (calcDownlinkJoinMIC E (byteOfNat t) (BitVec.ofNat 64 e) (BitVec.ofNat 16 n) k p)))
  | "encfrm" => (st, withArgs args (do let k ← key; let u ← boolean; let a ← nat; let c ← nat; let d ← hex; pure (k, u, a, c, d))
      fun (k, u, a, c, d) => bytesOut (.ok (encryptFRMPayload E k u (BitVec.ofNat 32 a) (BitVec.ofNat 32 c) d)))
  | "encfopts" => (st, withArgs args (do let k ← key; let af ← boolean; let u ← boolean; let a ← nat; let c ← nat; let d ← hex; pure (k, af, u, a, c, d))
      fun (k, af, u, a, c, d) => bytesOut (encryptFOpts E k af u (BitVec.ofNat 32 a) (BitVec.ofNat 32 c) d))
  | "phyencfopts" => (st, withArgs args (do let k ← key; let p ← frame; pure (k, p)) fun (k, p) => frameOut (p.encryptFOpts E k))
  | "phydecfopts" => (st, withArgs args (do let k ← key; let p ← frame; pure (k, p)) fun (k, p) => frameOut (p.decryptFOpts E st.reg k))
  | "phyencfrm" => (st, withArgs args (do let k ← key; let p ← frame; pure (k, p)) fun (k, p) => frameOut (p.encryptFRM E k))
  | "phydecfrm" => (st, withArgs args (do let k ← key; let p ← frame; pure (k, p)) fun (k, p) => frameOut (p.decryptFRM E st.reg k))
  | "encja" => (st, withArgs args (do let k ← key; let p ← frame; pure (k, p)) fun (k, p) => frameOut (p.encryptJA E k))
  | "decja" => (st, withArgs args (do let k ← key; let p ← frame; pure (k, p)) fun (k, p) => frameOut (p.decryptJA E k))
  | "phydecodefopts" => (st, withArgs args frame fun p => frameOut (p.decodeFOpts st.reg))
  | "phydecodefrm" => (st, withArgs args frame fun p => frameOut (p.decodeFRM st.reg))
  | "setprefix" => (st, withArgs args (do let n ← nat; let a ← nat; pure (n, a)) fun (n, a) =>
      s!"ok {(setAddrPrefix (BitVec.ofNat 32 a) (BitVec.ofNat 24 n)).toNat}")
  | "isnetid" => (st, withArgs args (do let n ← nat; let a ← nat; pure (n, a)) fun (n, a) =>
      if isNetID (BitVec.ofNat 32 a) (BitVec.ofNat 24 n) then "ok 1" else "ok 0")
  | "nwkid" => (st, withArgs args nat fun a =>
      match devAddrNwkID (BitVec.ofNat 32 a) with
      | some b => s!"ok {devAddrNetIDType (BitVec.ofNat 32 a)} {hx b}"
      | none => s!"ok {devAddrNetIDType (BitVec.ofNat 32 a)} nil")
  | "netidinfo" => (st, withArgs args nat fun n =>
      s!"ok {netIDType (BitVec.ofNat 24 n)} {hx (netIDIDBytes (BitVec.ofNat 24 n))}")
  | "idrepr" => (st, withArgs args (do let k ← next; let b ← hex; pure (k, b)) fun (_, b) =>
      let k := b.length
      let v := leNat b.reverse
      s!"ok t{idText k v} {hx (idBinary k v)} {hx (idBytes k v)}")
  | "idparse" => (st, withArgs args (do let k ← next; let how ← next; let a ← next; pure (k, how, a)) fun (k, how, a) =>
      let len := if k == "EUI64" then 8 else if k == "DevAddr" then 4 else if k == "NetID" then 3 else 16
      let out (o : Outcome Nat) : String := fmtOut (fun v => hx (idBytes len v)) o
      if how == "text" then out (idOfText len (sdrop a 1))
      else if how == "bin" then (match unhx a with | some b => out (idOfBinary len b) | none => badop "hex")
      else if how == "scan" then (match unhx a with | some b => out (idOfScan len b) | none => badop "hex")
      else "ERR")
  | "bq" => (st, bandQuery args)
  | "gpsto" => (st, withArgs args int fun t => s!"ok {toGPS Generated.leapTable t}")
  | "gpsfrom" => (st, withArgs args int fun d => s!"ok {fromGPS Generated.leapTable d}")
  | "airtime" => (st, withArgs args (do let a ← int; let b ← int; let c ← int; let d ← int; let e ← int; let f ← int; let g ← int; pure (a, b, c, d, e, f, g))
      fun (pl, sf, bw, pre, cr, h, de) => fmtOut toString (airtime pl sf bw pre cr (h != 0) (de != 0)))
  | "paysym" => (st, withArgs args (do let a ← int; let b ← int; let c ← int; let d ← int; let e ← int; pure (a, b, c, d, e))
      fun (pl, sf, cr, h, de) => fmtOut toString (payloadSymbols pl sf cr (h != 0) (de != 0)))
  | "eirpidx" => (st, withArgs args nat fun b => s!"ok {eirpIndex Generated.eirpTable (f32OfBits b)}")
  | "eirpval" => (st, withArgs args nat fun i => fmtOut toString (eirpOfIndex Generated.eirpTable i))
  | "fragenc" => (st, withArgs args (do let s ← int; let r ← int; let d ← hex; pure (s, r, d)) fun (s, r, d) =>
      fmtOut (fun rows => " ".intercalate (toString rows.length :: rows.map hx)) (encode d s r))
  | "exchange" => (st, withArgs args (do
        let v ← nat; let c ← nat; let dr ← nat; let ch ← nat; let fk ← key; let sk ← key; let ek ← key; let ak ← key
        let t ← nat; let p ← frame
        pure (v, c, dr, ch, fk, sk, ek, ak, t, p)) fun (v, c, dr, ch, fk, sk, ek, ak, t, p) =>
      let lp : LinkParams := { ver := byteOfNat v, conf := BitVec.ofNat 32 c, txDr := byteOfNat dr, txCh := byteOfNat ch, fKey := fk, sKey := sk }
      match sender E lp ek ak p with
      | .ok bs =>
        let fcnt : BitVec 32 := match p.payload with | some (.mac h _ _) => h.fCnt | _ => 0
        let (lp', hi, bs') := if otherDirOf t then (lp, fcnt &&& 0xffff0000#32, bs) else tamperOf t lp (fcnt &&& 0xffff0000#32) bs
        "ok " ++ hx bs' ++ " " ++ (match receiverDir (otherDirOf t) E st.reg lp' ek ak hi bs' with
          | .decErr => "dec-ERR" | .notData => "notdata" | .valErr => "val-ERR" | .rejected => "rejected"
          | .acceptedFOptsErr => "accepted fopts-ERR" | .acceptedFrmErr => "accepted frm-ERR"
          | .accepted f => "accepted " ++ fmtFrame f)
      | .err => "ERR" | .panic => "PANIC")
  | _ => if AppOps.isAppOp op then (st, AppOps.appQuery E op args)
         else if BackendOps.isBackendOp op then (st, BackendOps.backendQuery E op args)
         else if JSOps.isJSOp op then (st, JSOps.jsQuery E op args)
         else if IsoOps.isIsoOp op then (st, IsoOps.isoQuery E st.reg op args)
         else (st, badop ("unknown " ++ op))

end LW.Driver
