/-
  LW.Proofs.Plan — the LinkADRReq planner / apply refinement (C14): blocks emitted, masks bit by bit, pointwise effect of apply.
-/
import LW.Proofs.Band
namespace LW.PlanProofs
open LW Outcome BandProofs

/-! ### membership lemmas -/

theorem mem_intSliceDiff (x y : List Int) (c : Int) : c ∈ intSliceDiff x y ↔ (c ∈ x ∧ c ∉ y) ∨ (c ∈ y ∧ c ∉ x) := by
  simp [intSliceDiff, List.mem_append, List.mem_filter]

theorem mem_insertKeep (x : Int) (l : List Int) (c : Int) : c ∈ insertKeep x l ↔ c = x ∨ c ∈ l := by
  induction l with
  | nil => simp [insertKeep]
  | cons y ys ih =>
    simp only [insertKeep]
    split
    · simp
    · simp only [List.mem_cons, ih]
      constructor
      · rintro (h | h | h) <;> simp [h]
      · rintro (h | h | h) <;> simp [h]

theorem mem_sortInts (l : List Int) (c : Int) : c ∈ sortInts l ↔ c ∈ l := by
  induction l with
  | nil => simp [sortInts]
  | cons x xs ih =>
    have : sortInts (x :: xs) = insertKeep x (sortInts xs) := rfl
    rw [this, mem_insertKeep, ih]; simp

theorem mem_enabledIdx (b : BandState) (c : Int) :
    c ∈ b.enabledIdx ↔ ∃ j : Nat, c = (j : Int) ∧ ∃ ch, b.up[j]? = some ch ∧ ch.enabled = true := by
  simp only [BandState.enabledIdx, mem_indicesWhere]

/-! ### the mask of a block, bit by bit -/

theorem single_bit (e i : Nat) (he : e < 16) (hi : i < 16) : (BitVec.ofNat 16 (2 ^ e)).getLsbD i = decide (i = e) := by
  have : ∀ e i : Fin 16, (BitVec.ofNat 16 (2 ^ e.val)).getLsbD i.val = decide (i.val = e.val) := by decide
  exact this ⟨e, he⟩ ⟨i, hi⟩

theorem foldl_or_bit (l : List Int) (p : Int → Bool) (a : BitVec 16) (i : Nat) (hi : i < 16) :
    (l.foldl (fun (acc : BitVec 16) ec => if p ec then acc ||| BitVec.ofNat 16 (2 ^ (ec % 16).toNat) else acc) a).getLsbD i
      = (a.getLsbD i || l.any (fun ec => p ec && decide ((ec % 16).toNat = i))) := by
  induction l generalizing a with
  | nil => simp
  | cons x xs ih =>
    simp only [List.foldl_cons, List.any_cons]
    rw [ih]
    by_cases hp : p x = true
    · simp only [hp, if_true, BitVec.getLsbD_or, Bool.true_and]
      have he : (x % 16).toNat < 16 := by omega
      rw [single_bit _ _ he hi]
      by_cases hx : (x % 16).toNat = i
      · simp [hx]
      · have : ¬ i = (x % 16).toNat := fun h => hx h.symm
        simp [hx, this]
    · simp [hp]

/-- bit j of the target: channel j is enabled on the network and is standard or already active on the device -/
def tbit (b : BandState) (dev : List Int) (j : Nat) : Bool :=
  match b.up[j]? with
  | some ch => ch.enabled && (!ch.custom || dev.contains (Int.ofNat j))
  | none => false

theorem customAt_eq (up : List Channel) (j : Nat) (ch : Channel) (h : up[j]? = some ch) : customAt up (Int.ofNat j) = ch.custom := by
  simp [customAt, List.getD, h]

theorem blockMask_bit (b : BandState) (dev : List Int) (K i : Nat) (hi : i < 16) :
    (blockMask b.up dev b.enabledIdx (Int.ofNat K)).getLsbD i = tbit b dev (16 * K + i) := by
  simp only [blockMask]
  rw [foldl_or_bit b.enabledIdx _ 0 i hi]
  have hz : (0 : BitVec 16).getLsbD i = false := by simp
  rw [hz, Bool.false_or, Bool.eq_iff_iff, List.any_eq_true]
  constructor
  · rintro ⟨ec, hmem, hc⟩
    obtain ⟨j, rfl, ch, hl, hen⟩ := (mem_enabledIdx b ec).mp hmem
    simp only [Bool.and_eq_true, decide_eq_true_eq] at hc
    obtain ⟨⟨⟨hcond, hlo⟩, hhi⟩, hmod⟩ := hc
    have hj : j = 16 * K + i := by
      have : ((j : Int) % 16).toNat = j % 16 := by omega
      rw [this] at hmod
      have h1 : (Int.ofNat K) * 16 ≤ (j : Int) := hlo
      have h2 : (j : Int) < (Int.ofNat K + 1) * 16 := hhi
      simp only [Int.ofNat_eq_natCast] at h1 h2
      omega
    subst hj
    simp only [tbit, hl, hen, Bool.true_and]
    rw [← customAt_eq b.up _ ch hl]
    simpa using hcond
  · intro ht
    simp only [tbit] at ht
    cases hl : b.up[16 * K + i]? with
    | none => simp [hl] at ht
    | some ch =>
      simp only [hl, Bool.and_eq_true] at ht
      refine ⟨Int.ofNat (16 * K + i), (mem_enabledIdx b _).mpr ⟨16 * K + i, rfl, ch, hl, ht.1⟩, ?_⟩
      simp only [Bool.and_eq_true, decide_eq_true_eq]
      refine ⟨⟨⟨?_, ?_⟩, ?_⟩, ?_⟩
      · rw [customAt_eq b.up _ ch hl]; simpa using ht.2
      · simp only [Int.ofNat_eq_natCast]; omega
      · simp only [Int.ofNat_eq_natCast]; omega
      · simp only [Int.ofNat_eq_natCast]; omega

/-! ### what the planner emits -/

def mkPlan (b : BandState) (dev : List Int) (k : Int) : Plan :=
  { cntl := BitVec.ofInt 8 k, mask := blockMask b.up dev b.enabledIdx k }

theorem planLoop_sound (b : BandState) (dev : List Int) (l : List Int) (cur : Int) (p : Plan)
    (h : p ∈ planLoop b.up dev b.enabledIdx l cur) : ∃ c ∈ l, p = mkPlan b dev (Int.tdiv c 16) := by
  induction l generalizing cur with
  | nil => simp [planLoop] at h
  | cons c cs ih =>
    simp only [planLoop] at h
    split at h
    · rcases List.mem_cons.mp h with h1 | h1
      · exact ⟨c, List.mem_cons_self, h1⟩
      · obtain ⟨c', hc', hp⟩ := ih _ h1
        exact ⟨c', List.mem_cons_of_mem _ hc', hp⟩
    · obtain ⟨c', hc', hp⟩ := ih _ h
      exact ⟨c', List.mem_cons_of_mem _ hc', hp⟩

theorem planLoop_complete (b : BandState) (dev : List Int) (l : List Int) (cur : Int) (c : Int) (hc : c ∈ l) :
    Int.tdiv c 16 = cur ∨ mkPlan b dev (Int.tdiv c 16) ∈ planLoop b.up dev b.enabledIdx l cur := by
  induction l generalizing cur with
  | nil => simp at hc
  | cons x xs ih =>
    simp only [planLoop]
    rcases List.mem_cons.mp hc with rfl | hmem
    · by_cases hx : (Int.tdiv c 16 != cur) = true
      · right; simp only [hx, if_true]; exact List.mem_cons_self
      · left; simpa using hx
    · by_cases hx : (Int.tdiv x 16 != cur) = true
      · simp only [hx, if_true]
        rcases ih (Int.tdiv x 16) hmem with h1 | h1
        · right; rw [h1]; exact List.mem_cons_self
        · right; exact List.mem_cons_of_mem _ h1
      · simp only [hx, if_false]
        have hxc : Int.tdiv x 16 = cur := by simpa using hx
        rcases ih cur hmem with h1 | h1
        · left; exact h1
        · right; exact h1

/-! ### applying payloads -/

theorem applyBlock_ok (n base : Nat) (mask : BitVec 16) (m : List Bool)
    (hov : ∀ i, i < 16 → base + i ≥ n → mask.getLsbD i = false) :
    applyBlock n base mask m = ok ((List.range m.length).map fun j => if base ≤ j ∧ j < base + 16 then mask.getLsbD (j - base) else m.getD j false) := by
  simp only [applyBlock]
  have : ¬ ((List.range 16).any (fun i => decide (base + i ≥ n) && mask.getLsbD i)) = true := by
    rw [List.any_eq_true]
    rintro ⟨i, hi, hc⟩
    simp only [List.mem_range] at hi
    simp only [Bool.and_eq_true, decide_eq_true_eq] at hc
    rw [hov i hi hc.1] at hc
    exact absurd hc.2 (by simp)
  rw [if_neg this]

theorem getD_map_range (n : Nat) (f : Nat → Bool) (j : Nat) (hj : j < n) : ((List.range n).map f).getD j false = f j := by
  simp [List.getD, hj]

/-- all payloads have the form (block K ≤ 7, mask f K) and set no bit beyond the plan: then applying them succeeds and is
pointwise — position j takes bit j%16 of f (j/16) when a payload for its block is present, and keeps its value otherwise -/
theorem applyLoop_char (n : Nat) (hn : n ≤ 128) (f : Nat → BitVec 16) (pls : List Plan) :
    ∀ (m : List Bool), m.length = n →
    (∀ p ∈ pls, ∃ K : Nat, K ≤ 7 ∧ p.cntl = BitVec.ofNat 8 K ∧ p.mask = f K ∧ ∀ i, i < 16 → 16 * K + i ≥ n → (f K).getLsbD i = false) →
    ∃ m', applyGenericLoop n pls m = ok m' ∧ m'.length = n ∧
      ∀ j, j < n → m'.getD j false =
        if pls.any (fun p => p.cntl == BitVec.ofNat 8 (j / 16)) then (f (j / 16)).getLsbD (j % 16) else m.getD j false := by
  induction pls with
  | nil => intro m hm _; exact ⟨m, rfl, hm, by intro j _; simp⟩
  | cons p ps ih =>
    intro m hm hp
    obtain ⟨K, hK, hc, hmask, hov⟩ := hp p List.mem_cons_self
    have hbase : (p.cntl * 16#8).toNat = 16 * K := by
      rw [hc]
      have : ∀ k : Fin 8, ((BitVec.ofNat 8 k.val) * 16#8).toNat = 16 * k.val := by decide
      exact this ⟨K, by omega⟩
    simp only [applyGenericLoop, hbase]
    rw [applyBlock_ok n (16 * K) p.mask m (by rw [hmask]; exact hov)]
    simp only [Outcome.ok_bind]
    generalize hm1 : ((List.range m.length).map fun j => if 16 * K ≤ j ∧ j < 16 * K + 16 then p.mask.getLsbD (j - 16 * K) else m.getD j false) = m1
    have hlen1 : m1.length = n := by rw [← hm1, List.length_map, List.length_range, hm]
    obtain ⟨m', h1, h2, h3⟩ := ih m1 hlen1 (fun q hq => hp q (List.mem_cons_of_mem _ hq))
    refine ⟨m', h1, h2, ?_⟩
    intro j hj
    rw [h3 j hj, List.any_cons]
    by_cases hps : ps.any (fun q => q.cntl == BitVec.ofNat 8 (j / 16)) = true
    · rw [if_pos hps, if_pos (by rw [hps, Bool.or_true])]
    · rw [if_neg hps]
      have hpsf : ps.any (fun q => q.cntl == BitVec.ofNat 8 (j / 16)) = false := by simpa using hps
      rw [hpsf, Bool.or_false, ← hm1, hm, getD_map_range n _ j hj]
      have hjb : j / 16 ≤ 7 := by omega
      by_cases hblk : K = j / 16
      · subst hblk
        have hcc : (p.cntl == BitVec.ofNat 8 (j / 16)) = true := by rw [hc]; simp
        have hin : 16 * (j / 16) ≤ j ∧ j < 16 * (j / 16) + 16 := by omega
        have hsub : j - 16 * (j / 16) = j % 16 := by omega
        rw [if_pos hin, if_pos hcc, hmask, hsub]
      · have hne : ¬ (p.cntl == BitVec.ofNat 8 (j / 16)) = true := by
          rw [hc]
          intro hx
          have hx' : BitVec.ofNat 8 K = BitVec.ofNat 8 (j / 16) := by simpa using hx
          have := congrArg BitVec.toNat hx'
          simp only [BitVec.toNat_ofNat] at this
          omega
        have hout : ¬ (16 * K ≤ j ∧ j < 16 * K + 16) := by omega
        rw [if_neg hout, if_neg hne]

/-! ### the refinement theorem -/

def targetMask (b : BandState) (dev : List Int) : List Bool := (List.range b.up.length).map (tbit b dev)

theorem list_ext_getD (l1 l2 : List Bool) (hl : l1.length = l2.length) (h : ∀ j, j < l1.length → l1.getD j false = l2.getD j false) : l1 = l2 := by
  apply List.ext_getElem hl
  intro i h1 h2
  have := h i h1
  simp only [List.getD, List.getElem?_eq_getElem h1, List.getElem?_eq_getElem h2, Option.getD_some] at this
  exact this

theorem mem_en_iff (b : BandState) (j : Nat) (ch : Channel) (hl : b.up[j]? = some ch) : (Int.ofNat j) ∈ b.enabledIdx ↔ ch.enabled = true := by
  rw [mem_enabledIdx]
  constructor
  · rintro ⟨j', hj, ch', hl', he⟩
    have : j = j' := by simp only [Int.ofNat_eq_natCast] at hj; omega
    subst this; rw [hl] at hl'; cases hl'; exact he
  · intro he; exact ⟨j, rfl, ch, hl, he⟩

/-- where the device and the network agree on a channel, the device's bit is already the target bit -/
theorem agree_bit (b : BandState) (dev : List Int) (j : Nat) (hj : j < b.up.length)
    (h : (Int.ofNat j) ∈ dev ↔ (Int.ofNat j) ∈ b.enabledIdx) : dev.contains (Int.ofNat j) = tbit b dev j := by
  have hl := List.getElem?_eq_getElem hj
  simp only [tbit, hl]
  have hen := mem_en_iff b j _ hl
  by_cases hd : (Int.ofNat j) ∈ dev
  · have : dev.contains (Int.ofNat j) = true := by simpa using hd
    rw [this, (hen.mp (h.mp hd))]; simp
  · have : dev.contains (Int.ofNat j) = false := by simpa using hd
    rw [this]
    have : ¬ b.up[j].enabled = true := fun he => hd (h.mpr (hen.mpr he))
    simp [this]

theorem tdiv_nonneg_eq (c : Int) (h : 0 ≤ c) : Int.tdiv c 16 = Int.ofNat (c.toNat / 16) := by
  rw [Int.tdiv_eq_ediv_of_nonneg h]
  simp only [Int.ofNat_eq_natCast]; omega

/-- C14 (generic planner): for any band state with at most 128 channels and any device channel set inside the plan, applying the
generated payloads to the device's set yields exactly the target — enabled on the network and (standard or already active on the device). -/
theorem plan_apply_generic (b : BandState) (dev : List Int) (hn : b.up.length ≤ 128)
    (hdev : ∀ c ∈ dev, 0 ≤ c ∧ c < (b.up.length : Int)) :
    b.applyGeneric dev (b.planGeneric dev) = ok (maskToIdx (targetMask b dev)) := by
  have hen_range : ∀ c ∈ b.enabledIdx, 0 ≤ c ∧ c < (b.up.length : Int) := by
    intro c hc
    obtain ⟨j, rfl, ch, hl, _⟩ := (mem_enabledIdx b c).mp hc
    have : j < b.up.length := by
      rcases Nat.lt_or_ge j b.up.length with h | h
      · exact h
      · rw [List.getElem?_eq_none h] at hl; contradiction
    omega
  have hdiff_range : ∀ c ∈ intSliceDiff dev b.enabledIdx, 0 ≤ c ∧ c < (b.up.length : Int) := by
    intro c hc
    rcases (mem_intSliceDiff _ _ c).mp hc with h | h
    · exact hdev c h.1
    · exact hen_range c h.1
  -- pointwise goal
  suffices hmain : ∃ m', applyGenericLoop b.up.length (b.planGeneric dev) (devMask b.up.length dev) = ok m' ∧ m' = targetMask b dev by
    obtain ⟨m', h1, h2⟩ := hmain
    simp only [BandState.applyGeneric, h1, Outcome.ok_bind, h2]
  have hlen_dev : (devMask b.up.length dev).length = b.up.length := by simp [devMask]
  have hlen_t : (targetMask b dev).length = b.up.length := by simp [targetMask]
  have hdev_get : ∀ j, j < b.up.length → (devMask b.up.length dev).getD j false = dev.contains (Int.ofNat j) := by
    intro j hj; simp only [devMask]; rw [getD_map_range _ _ j hj]
  have ht_get : ∀ j, j < b.up.length → (targetMask b dev).getD j false = tbit b dev j := by
    intro j hj; simp only [targetMask]; rw [getD_map_range _ _ j hj]
  by_cases hempty : ((intSliceDiff dev b.enabledIdx).length == 0 || (filterDiff b.up dev (intSliceDiff dev b.enabledIdx)).length == 0) = true
  · -- nothing to send
    have hplan : b.planGeneric dev = [] := by simp only [BandState.planGeneric, hempty, if_true]
    rw [hplan]
    refine ⟨_, rfl, ?_⟩
    apply list_ext_getD _ _ (by rw [hlen_dev, hlen_t])
    intro j hj
    rw [hlen_dev] at hj
    rw [hdev_get j hj, ht_get j hj]
    simp only [Bool.or_eq_true, beq_iff_eq, List.length_eq_zero_iff] at hempty
    rcases hempty with h0 | h0
    · apply agree_bit b dev j hj
      have hnd : (Int.ofNat j) ∉ intSliceDiff dev b.enabledIdx := by rw [h0]; simp
      rw [mem_intSliceDiff] at hnd
      constructor
      · intro h; exact Classical.byContradiction fun hne => hnd (Or.inl ⟨h, hne⟩)
      · intro h; exact Classical.byContradiction fun hne => hnd (Or.inr ⟨h, hne⟩)
    · -- every differing channel is a custom channel the device does not have
      have hall : ∀ c ∈ intSliceDiff dev b.enabledIdx, ¬ (dev.contains c || !customAt b.up c) = true := by
        intro c hc hcond
        have : c ∈ filterDiff b.up dev (intSliceDiff dev b.enabledIdx) := by
          simp only [filterDiff, List.mem_filter]; exact ⟨hc, hcond⟩
        rw [h0] at this; simp at this
      have hl := List.getElem?_eq_getElem hj
      by_cases hd : (Int.ofNat j) ∈ dev
      · apply agree_bit b dev j hj
        constructor
        · intro _
          apply Classical.byContradiction
          intro hne
          have hc : (Int.ofNat j) ∈ intSliceDiff dev b.enabledIdx := (mem_intSliceDiff _ _ _).mpr (Or.inl ⟨hd, hne⟩)
          exact hall _ hc (by simp only [Bool.or_eq_true]; left; simpa using hd)
        · intro _; exact hd
      · have hcf : dev.contains (Int.ofNat j) = false := by simpa using hd
        rw [hcf]
        simp only [tbit, hl, hcf, Bool.or_false]
        by_cases he : b.up[j].enabled = true
        · have hin : (Int.ofNat j) ∈ b.enabledIdx := (mem_en_iff b j _ hl).mpr he
          have hc : (Int.ofNat j) ∈ intSliceDiff dev b.enabledIdx := (mem_intSliceDiff _ _ _).mpr (Or.inr ⟨hin, hd⟩)
          have := hall _ hc
          rw [customAt_eq b.up j _ hl] at this
          simp only [hcf, Bool.false_or, Bool.not_eq_true', Bool.not_eq_false] at this
          simp [this]
        · simp [he]
  · -- payloads are generated
    have hplan : b.planGeneric dev = planLoop b.up dev b.enabledIdx (sortInts (intSliceDiff dev b.enabledIdx)) (-1) := by
      simp only [BandState.planGeneric, hempty, if_false, Bool.false_eq_true]
    rw [hplan]
    have hgood : ∀ p ∈ planLoop b.up dev b.enabledIdx (sortInts (intSliceDiff dev b.enabledIdx)) (-1),
        ∃ K : Nat, K ≤ 7 ∧ p.cntl = BitVec.ofNat 8 K ∧ p.mask = blockMask b.up dev b.enabledIdx (Int.ofNat K) ∧
          ∀ i, i < 16 → 16 * K + i ≥ b.up.length → (blockMask b.up dev b.enabledIdx (Int.ofNat K)).getLsbD i = false := by
      intro p hp
      obtain ⟨c, hc, rfl⟩ := planLoop_sound b dev _ _ p hp
      have hcr := hdiff_range c ((mem_sortInts _ c).mp hc)
      refine ⟨c.toNat / 16, by omega, ?_, ?_, ?_⟩
      · simp only [mkPlan, tdiv_nonneg_eq c hcr.1, Int.ofNat_eq_natCast, BitVec.ofInt_natCast]
      · simp only [mkPlan, tdiv_nonneg_eq c hcr.1]
      · intro i hi hge
        rw [blockMask_bit b dev _ i hi]
        simp only [tbit, List.getElem?_eq_none hge]
    obtain ⟨m', h1, h2, h3⟩ := applyLoop_char b.up.length hn (fun K => blockMask b.up dev b.enabledIdx (Int.ofNat K)) _ _ hlen_dev hgood
    refine ⟨m', h1, ?_⟩
    apply list_ext_getD _ _ (by rw [h2, hlen_t])
    intro j hj
    rw [h2] at hj
    rw [h3 j hj, ht_get j hj]
    split
    · rw [blockMask_bit b dev _ _ (by omega)]
      congr 1; omega
    · rename_i hany
      rw [hdev_get j hj]
      apply agree_bit b dev j hj
      have hnd : (Int.ofNat j) ∉ intSliceDiff dev b.enabledIdx := by
        intro hc
        have hc' := (mem_sortInts _ _).mpr hc
        rcases planLoop_complete b dev _ (-1) _ hc' with h | h
        · rw [tdiv_nonneg_eq _ (by simp)] at h
          simp only [Int.ofNat_eq_natCast] at h; omega
        · apply hany
          rw [List.any_eq_true]
          refine ⟨_, h, ?_⟩
          have e := tdiv_nonneg_eq (Int.ofNat j) (by simp)
          simp only [Int.ofNat_eq_natCast, Int.toNat_natCast] at e
          simp only [mkPlan, Int.ofNat_eq_natCast, e, BitVec.ofInt_natCast, beq_self_eq_true]
      rw [mem_intSliceDiff] at hnd
      constructor
      · intro h; exact Classical.byContradiction fun hne => hnd (Or.inl ⟨h, hne⟩)
      · intro h; exact Classical.byContradiction fun hne => hnd (Or.inr ⟨h, hne⟩)

/-- nothing is produced when the device already matches the target -/
theorem plan_noop (b : BandState) (dev : List Int)
    (hdev : ∀ c ∈ dev, 0 ≤ c ∧ c < (b.up.length : Int))
    (hmatch : ∀ j, j < b.up.length → dev.contains (Int.ofNat j) = tbit b dev j) : b.planGeneric dev = [] := by
  simp only [BandState.planGeneric]
  split
  · rfl
  · rename_i hne
    exfalso
    simp only [Bool.or_eq_true, beq_iff_eq, List.length_eq_zero_iff, not_or] at hne
    obtain ⟨_, hf⟩ := hne
    obtain ⟨c, hc⟩ := List.exists_mem_of_ne_nil _ hf
    simp only [filterDiff, List.mem_filter] at hc
    obtain ⟨hcd, hcond⟩ := hc
    rcases (mem_intSliceDiff _ _ c).mp hcd with ⟨hd, hne⟩ | ⟨hen, hnd⟩
    · -- on the device, not enabled on the network: target bit is false but the device bit is true
      obtain ⟨h0, h1⟩ := hdev c hd
      obtain ⟨j, rfl⟩ := Int.eq_ofNat_of_zero_le h0
      have hj : j < b.up.length := by omega
      have hm := hmatch j hj
      have hl := List.getElem?_eq_getElem hj
      have hdc : dev.contains (Int.ofNat j) = true := by simpa using hd
      rw [hdc] at hm
      simp only [tbit, hl] at hm
      have : b.up[j].enabled = true := by
        cases he : b.up[j].enabled <;> simp [he] at hm; rfl
      exact hne ((mem_en_iff b j _ hl).mpr this)
    · obtain ⟨j, rfl, ch, hl, he⟩ := (mem_enabledIdx b c).mp hen
      have hj : j < b.up.length := by
        rcases Nat.lt_or_ge j b.up.length with h | h
        · exact h
        · rw [List.getElem?_eq_none h] at hl; contradiction
      have hm := hmatch j hj
      have hdc : dev.contains (Int.ofNat j) = false := by simpa using hnd
      have hdc' : dev.contains (j : Int) = false := hdc
      rw [hdc] at hm
      simp only [tbit, hl, he, Bool.true_and, hdc, Bool.or_false] at hm
      rw [hdc', Bool.false_or] at hcond
      have hcu : customAt b.up (Int.ofNat j) = ch.custom := customAt_eq b.up j ch hl
      have hcu' : customAt b.up (j : Int) = ch.custom := hcu
      rw [hcu'] at hcond
      rw [hcond] at hm
      exact absurd hm (by simp)

/-- every generated payload addresses a block 0..7 (hence is encodable as a LinkADRReq: ChMaskCntl ≤ 7, DataRate = TXPower = NbRep = 0) -/
theorem plan_encodable (b : BandState) (dev : List Int) (hn : b.up.length ≤ 128)
    (hdev : ∀ c ∈ dev, 0 ≤ c ∧ c < (b.up.length : Int)) :
    ∀ p ∈ b.planGeneric dev, p.cntl.toNat ≤ 7 ∧ ((MacP.linkADRReq 0 0 p.mask p.cntl 0).enc).isOk = true := by
  intro p hp
  simp only [BandState.planGeneric] at hp
  split at hp
  · simp at hp
  · obtain ⟨c, hc, rfl⟩ := planLoop_sound b dev _ _ p hp
    have hcd := (mem_sortInts _ c).mp hc
    have hr : 0 ≤ c ∧ c < (b.up.length : Int) := by
      rcases (mem_intSliceDiff _ _ c).mp hcd with h | h
      · exact hdev c h.1
      · obtain ⟨j, rfl, ch, hl, _⟩ := (mem_enabledIdx b c).mp h.1
        have : j < b.up.length := by
          rcases Nat.lt_or_ge j b.up.length with h | h
          · exact h
          · rw [List.getElem?_eq_none h] at hl; contradiction
        omega
    have hk : (mkPlan b dev (Int.tdiv c 16)).cntl.toNat = c.toNat / 16 := by
      simp only [mkPlan, tdiv_nonneg_eq c hr.1, Int.ofNat_eq_natCast, BitVec.ofInt_natCast, BitVec.toNat_ofNat]
      omega
    have h7 : (mkPlan b dev (Int.tdiv c 16)).cntl.toNat ≤ 7 := by rw [hk]; omega
    refine ⟨h7, ?_⟩
    have g : ¬ (mkPlan b dev (Int.tdiv c 16)).cntl.toNat > 7 := by omega
    simp [MacP.enc, redundancyEnc, g, Outcome.isOk]

theorem insertKeep_sorted (x : Int) (l : List Int) (h : l.Pairwise (· ≤ ·)) : (insertKeep x l).Pairwise (· ≤ ·) := by
  induction l with
  | nil => simp [insertKeep]
  | cons y ys ih =>
    simp only [insertKeep]
    split
    · rename_i hxy
      refine List.Pairwise.cons ?_ h
      intro z hz
      rcases List.mem_cons.mp hz with rfl | hz'
      · exact hxy
      · exact Int.le_trans hxy ((List.pairwise_cons.mp h).1 z hz')
    · rename_i hxy
      have hy := List.pairwise_cons.mp h
      refine List.Pairwise.cons ?_ (ih hy.2)
      intro z hz
      rcases (mem_insertKeep x ys z).mp hz with rfl | hz'
      · omega
      · exact hy.1 z hz'

theorem sortInts_sorted (l : List Int) : (sortInts l).Pairwise (· ≤ ·) := by
  induction l with
  | nil => simp [sortInts]
  | cons x xs ih =>
    have : sortInts (x :: xs) = insertKeep x (sortInts xs) := rfl
    rw [this]; exact insertKeep_sorted x _ ih

theorem tdiv_mono (a c : Int) (ha : 0 ≤ a) (h : a ≤ c) : Int.tdiv a 16 ≤ Int.tdiv c 16 := by
  rw [Int.tdiv_eq_ediv_of_nonneg ha, Int.tdiv_eq_ediv_of_nonneg (by omega)]; omega

/-- over a sorted list every block is emitted at most once -/
theorem planLoop_count (b : BandState) (dev : List Int) (l : List Int) (cur M : Int)
    (hs : l.Pairwise (· ≤ ·)) (hb : ∀ c ∈ l, 0 ≤ c ∧ cur ≤ Int.tdiv c 16 ∧ Int.tdiv c 16 ≤ M) (hcm : cur ≤ M) :
    ((planLoop b.up dev b.enabledIdx l cur).length : Int) ≤ M - cur := by
  induction l generalizing cur with
  | nil => simp [planLoop]; omega
  | cons c cs ih =>
    have hc := hb c List.mem_cons_self
    have hp := List.pairwise_cons.mp hs
    simp only [planLoop]
    split
    · rename_i hne
      have hlt : cur < Int.tdiv c 16 := by
        have : Int.tdiv c 16 ≠ cur := by simpa using hne
        omega
      have := ih (Int.tdiv c 16) hp.2 (by
        intro c' hc'
        have h1 := hb c' (List.mem_cons_of_mem _ hc')
        exact ⟨h1.1, tdiv_mono c c' hc.1 (hp.1 c' hc'), h1.2.2⟩) hc.2.2
      simp only [List.length_cons]
      omega
    · exact ih cur hp.2 (fun c' hc' => hb c' (List.mem_cons_of_mem _ hc')) hcm

/-- at most one payload per 16-channel block -/
theorem plan_count (b : BandState) (dev : List Int) (hdev : ∀ c ∈ dev, 0 ≤ c ∧ c < (b.up.length : Int)) :
    (b.planGeneric dev).length ≤ (b.up.length + 15) / 16 := by
  simp only [BandState.planGeneric]
  split
  · simp
  · have hrange : ∀ c ∈ sortInts (intSliceDiff dev b.enabledIdx), 0 ≤ c ∧ c < (b.up.length : Int) := by
      intro c hc
      rcases (mem_intSliceDiff _ _ c).mp ((mem_sortInts _ c).mp hc) with h | h
      · exact hdev c h.1
      · obtain ⟨j, rfl, ch, hl, _⟩ := (mem_enabledIdx b c).mp h.1
        have : j < b.up.length := by
          rcases Nat.lt_or_ge j b.up.length with h | h
          · exact h
          · rw [List.getElem?_eq_none h] at hl; contradiction
        omega
    by_cases hz : b.up.length = 0
    · have : sortInts (intSliceDiff dev b.enabledIdx) = [] := by
        cases hl : sortInts (intSliceDiff dev b.enabledIdx) with
        | nil => rfl
        | cons x xs => have := hrange x (by rw [hl]; exact List.mem_cons_self); omega
      rw [this]; simp [planLoop]
    · have := planLoop_count b dev _ (-1) (((b.up.length - 1) / 16 : Nat) : Int) (sortInts_sorted _) (by
        intro c hc
        have hr := hrange c hc
        rw [Int.tdiv_eq_ediv_of_nonneg hr.1]
        refine ⟨hr.1, by omega, by omega⟩) (by omega)
      omega

/-! ### US915 / AU915: the alternative plan (ChMaskCntl 7 first) and the choice of the shorter plan -/

theorem applyUS_eq_generic (n : Nat) (pls : List Plan) (m : List Bool) (h : ∀ p ∈ pls, p.cntl ≠ 6 ∧ p.cntl ≠ 7) :
    applyUSLoop n pls m = applyGenericLoop n pls m := by
  induction pls generalizing m with
  | nil => rfl
  | cons p ps ih =>
    have hp := h p List.mem_cons_self
    have hc : ¬ ((p.cntl == 6) = true ∨ (p.cntl == 7) = true) := by
      simp only [beq_iff_eq, not_or]; exact hp
    simp only [applyUSLoop, applyGenericLoop, hc, if_false]
    cases applyBlock n (p.cntl * 16#8).toNat p.mask m with
    | ok m' => simp only [Outcome.ok_bind]; exact ih m' (fun q hq => h q (List.mem_cons_of_mem _ hq))
    | err => rfl
    | panic => rfl

/-- mask of all enabled channels of block k -/
def maskAll (en : List Int) (k : Int) : BitVec 16 :=
  en.foldl (fun (acc : BitVec 16) ec => if decide (ec ≥ k * 16) && decide (ec < (k + 1) * 16) then acc ||| BitVec.ofNat 16 (2 ^ (ec % 16).toNat) else acc) 0

def firstMask (en : List Int) : BitVec 16 :=
  en.foldl (fun (acc : BitVec 16) c => if decide (c ≥ 64) then acc ||| BitVec.ofNat 16 (2 ^ (c % 16).toNat) else acc) 0

def planBLoop (en : List Int) : List Int → Int → List Plan
  | [], _ => []
  | c :: cs, cur =>
    if c ≥ 64 then planBLoop en cs cur
    else if Int.tdiv c 16 != cur then { cntl := BitVec.ofInt 8 (Int.tdiv c 16), mask := maskAll en (Int.tdiv c 16) } :: planBLoop en cs (Int.tdiv c 16)
    else planBLoop en cs cur

theorem planB_eq (en : List Int) : planB en = { cntl := 7, mask := firstMask en } :: planBLoop en en (-1) := by
  have hl : ∀ (l : List Int) (cur : Int), planB.loop en l cur = planBLoop en l cur := by
    intro l
    induction l with
    | nil => intro cur; simp [planB.loop, planBLoop]
    | cons c cs ih =>
      intro cur
      simp only [planB.loop, planBLoop, ih, maskAll]
  simp only [planB, hl, firstMask]
  congr 3
  funext acc c
  by_cases h : c ≥ 64 <;> simp [h]

theorem sorted_mem (b : BandState) (c : Int) : c ∈ sortInts b.enabledIdx ↔ c ∈ b.enabledIdx := mem_sortInts _ c

theorem maskAll_bit (b : BandState) (K i : Nat) (hi : i < 16) :
    (maskAll (sortInts b.enabledIdx) (Int.ofNat K)).getLsbD i =
      (match b.up[16 * K + i]? with | some ch => ch.enabled | none => false) := by
  simp only [maskAll]
  rw [foldl_or_bit _ _ 0 i hi]
  have hz : (0 : BitVec 16).getLsbD i = false := by simp
  rw [hz, Bool.false_or, Bool.eq_iff_iff, List.any_eq_true]
  constructor
  · rintro ⟨ec, hmem, hc⟩
    obtain ⟨j, rfl, ch, hl, hen⟩ := (mem_enabledIdx b ec).mp ((sorted_mem b ec).mp hmem)
    simp only [Bool.and_eq_true, decide_eq_true_eq] at hc
    obtain ⟨⟨hlo, hhi⟩, hmod⟩ := hc
    have hj : j = 16 * K + i := by
      have : ((j : Int) % 16).toNat = j % 16 := by omega
      rw [this] at hmod
      simp only [Int.ofNat_eq_natCast] at hlo hhi
      omega
    subst hj
    simp [hl, hen]
  · intro ht
    cases hl : b.up[16 * K + i]? with
    | none => simp [hl] at ht
    | some ch =>
      simp only [hl] at ht
      refine ⟨Int.ofNat (16 * K + i), (sorted_mem b _).mpr ((mem_enabledIdx b _).mpr ⟨16 * K + i, rfl, ch, hl, ht⟩), ?_⟩
      simp only [Bool.and_eq_true, decide_eq_true_eq, Int.ofNat_eq_natCast]
      omega

theorem firstMask_bit (b : BandState) (i : Nat) (hi : i < 16) (hn : b.up.length = 72) :
    (firstMask (sortInts b.enabledIdx)).getLsbD i =
      (decide (i < 8) && (match b.up[64 + i]? with | some ch => ch.enabled | none => false)) := by
  simp only [firstMask]
  rw [foldl_or_bit _ _ 0 i hi]
  have hz : (0 : BitVec 16).getLsbD i = false := by simp
  rw [hz, Bool.false_or, Bool.eq_iff_iff, List.any_eq_true]
  constructor
  · rintro ⟨ec, hmem, hc⟩
    obtain ⟨j, rfl, ch, hl, hen⟩ := (mem_enabledIdx b ec).mp ((sorted_mem b ec).mp hmem)
    have hj72 : j < 72 := by
      rcases Nat.lt_or_ge j b.up.length with h | h
      · omega
      · rw [List.getElem?_eq_none h] at hl; contradiction
    simp only [Bool.and_eq_true, decide_eq_true_eq] at hc
    obtain ⟨hlo, hmod⟩ := hc
    have hj : j = 64 + i := by
      have : ((j : Int) % 16).toNat = j % 16 := by omega
      rw [this] at hmod
      omega
    subst hj
    have : i < 8 := by omega
    simp [hl, hen, this]
  · intro ht
    simp only [Bool.and_eq_true, decide_eq_true_eq] at ht
    cases hl : b.up[64 + i]? with
    | none => simp [hl] at ht
    | some ch =>
      simp only [hl] at ht
      refine ⟨Int.ofNat (64 + i), (sorted_mem b _).mpr ((mem_enabledIdx b _).mpr ⟨64 + i, rfl, ch, hl, ht.2⟩), ?_⟩
      simp only [Bool.and_eq_true, decide_eq_true_eq, Int.ofNat_eq_natCast]
      omega

theorem planBLoop_sound (en l : List Int) (cur : Int) (p : Plan) (h : p ∈ planBLoop en l cur) :
    ∃ c ∈ l, c < 64 ∧ p = { cntl := BitVec.ofInt 8 (Int.tdiv c 16), mask := maskAll en (Int.tdiv c 16) } := by
  induction l generalizing cur with
  | nil => simp [planBLoop] at h
  | cons c cs ih =>
    simp only [planBLoop] at h
    split at h
    · obtain ⟨c', hc', hp⟩ := ih _ h; exact ⟨c', List.mem_cons_of_mem _ hc', hp⟩
    · rename_i hlt
      split at h
      · rcases List.mem_cons.mp h with h1 | h1
        · exact ⟨c, List.mem_cons_self, by omega, h1⟩
        · obtain ⟨c', hc', hp⟩ := ih _ h1; exact ⟨c', List.mem_cons_of_mem _ hc', hp⟩
      · obtain ⟨c', hc', hp⟩ := ih _ h; exact ⟨c', List.mem_cons_of_mem _ hc', hp⟩

theorem planBLoop_complete (en l : List Int) (cur : Int) (c : Int) (hc : c ∈ l) (h64 : c < 64) :
    Int.tdiv c 16 = cur ∨ ({ cntl := BitVec.ofInt 8 (Int.tdiv c 16), mask := maskAll en (Int.tdiv c 16) } : Plan) ∈ planBLoop en l cur := by
  induction l generalizing cur with
  | nil => simp at hc
  | cons x xs ih =>
    simp only [planBLoop]
    rcases List.mem_cons.mp hc with rfl | hmem
    · have : ¬ c ≥ 64 := by omega
      simp only [this, if_false]
      by_cases hx : (Int.tdiv c 16 != cur) = true
      · right; simp only [hx, if_true]; exact List.mem_cons_self
      · left; simpa using hx
    · by_cases hx64 : x ≥ 64
      · simp only [hx64, if_true]; exact ih cur hmem
      · simp only [hx64, if_false]
        by_cases hx : (Int.tdiv x 16 != cur) = true
        · simp only [hx, if_true]
          rcases ih (Int.tdiv x 16) hmem with h1 | h1
          · right; rw [h1]; exact List.mem_cons_self
          · right; exact List.mem_cons_of_mem _ h1
        · simp only [hx, if_false]
          exact ih cur hmem

theorem tbit_nocustom (b : BandState) (dev : List Int) (hnc : ∀ ch ∈ b.up, ch.custom = false) (j : Nat) :
    tbit b dev j = (match b.up[j]? with | some ch => ch.enabled | none => false) := by
  simp only [tbit]
  cases hl : b.up[j]? with
  | none => rfl
  | some ch =>
    have : ch.custom = false := hnc ch (List.mem_of_getElem? hl)
    simp [this]

/-- the alternative US915 / AU915 plan reaches the network's enabled set from ANY device set -/
theorem planB_apply (b : BandState) (dev : List Int) (hn : b.up.length = 72) (hnc : ∀ ch ∈ b.up, ch.custom = false) :
    applyUSLoop 72 (planB (sortInts b.enabledIdx)) (devMask 72 dev) = ok (targetMask b dev) := by
  rw [planB_eq]
  have hlen_dev : (devMask 72 dev).length = 72 := by simp [devMask]
  have h72 : ¬ (devMask 72 dev).length < 72 := by omega
  simp only [applyUSLoop, show ((7 : BitVec 8) == 6 ∨ (7 : BitVec 8) == 7) from Or.inr rfl, if_true, h72, if_false]
  generalize hm1 : ((List.range (devMask 72 dev).length).map fun i =>
      if i < 64 then ((7 : BitVec 8) == 6) else if i < 72 then (firstMask (sortInts b.enabledIdx)).getLsbD (i - 64) else (devMask 72 dev).getD i false) = m1
  have hlen1 : m1.length = 72 := by rw [← hm1, List.length_map, List.length_range, hlen_dev]
  have hrest : ∀ p ∈ planBLoop (sortInts b.enabledIdx) (sortInts b.enabledIdx) (-1),
      ∃ K : Nat, K ≤ 7 ∧ p.cntl = BitVec.ofNat 8 K ∧ p.mask = maskAll (sortInts b.enabledIdx) (Int.ofNat K) ∧
        (∀ i, i < 16 → 16 * K + i ≥ 72 → (maskAll (sortInts b.enabledIdx) (Int.ofNat K)).getLsbD i = false) ∧ K ≤ 3 := by
    intro p hp
    obtain ⟨c, hc, h64, rfl⟩ := planBLoop_sound _ _ _ p hp
    obtain ⟨j, rfl, _⟩ := (mem_enabledIdx b c).mp ((sorted_mem b c).mp hc)
    have e := tdiv_nonneg_eq (Int.ofNat j) (by simp)
    simp only [Int.ofNat_eq_natCast, Int.toNat_natCast] at e
    refine ⟨j / 16, by omega, ?_, ?_, ?_, by omega⟩
    · simp only [e, BitVec.ofInt_natCast]
    · simp only [e, Int.ofNat_eq_natCast]
    · intro i hi hge; omega
  have hno67 : ∀ p ∈ planBLoop (sortInts b.enabledIdx) (sortInts b.enabledIdx) (-1), p.cntl ≠ 6 ∧ p.cntl ≠ 7 := by
    intro p hp
    obtain ⟨K, _, hc, _, _, h3⟩ := hrest p hp
    rw [hc]
    have : ∀ k : Fin 4, BitVec.ofNat 8 k.val ≠ (6 : BitVec 8) ∧ BitVec.ofNat 8 k.val ≠ (7 : BitVec 8) := by decide
    exact this ⟨K, by omega⟩
  rw [applyUS_eq_generic 72 _ m1 hno67]
  obtain ⟨m', h1, h2, h3⟩ := applyLoop_char 72 (by omega) (fun K => maskAll (sortInts b.enabledIdx) (Int.ofNat K)) _ m1 hlen1
    (fun p hp => by obtain ⟨K, a, b', c, d, _⟩ := hrest p hp; exact ⟨K, a, b', c, d⟩)
  rw [h1]
  congr 1
  have hlen_t : (targetMask b dev).length = 72 := by simp [targetMask, hn]
  apply list_ext_getD _ _ (by rw [h2, hlen_t])
  intro j hj
  rw [h2] at hj
  have ht : (targetMask b dev).getD j false = tbit b dev j := by
    simp only [targetMask]; rw [getD_map_range _ _ j (by omega)]
  rw [h3 j hj, ht, tbit_nocustom b dev hnc]
  split
  · rw [maskAll_bit b _ _ (by omega)]
    have : 16 * (j / 16) + j % 16 = j := by omega
    rw [this]
  · rename_i hany
    rw [← hm1, hlen_dev, getD_map_range 72 _ j hj]
    by_cases h64 : j < 64
    · simp only [h64, if_true]
      have hnotin : ¬ (Int.ofNat j) ∈ b.enabledIdx := by
        intro hin
        rcases planBLoop_complete (sortInts b.enabledIdx) _ (-1) _ ((sorted_mem b _).mpr hin) (by simp only [Int.ofNat_eq_natCast]; omega) with h | h
        · have e := tdiv_nonneg_eq (Int.ofNat j) (by simp)
          rw [e] at h; simp only [Int.ofNat_eq_natCast] at h; omega
        · apply hany
          rw [List.any_eq_true]
          refine ⟨_, h, ?_⟩
          have e := tdiv_nonneg_eq (Int.ofNat j) (by simp)
          simp only [Int.ofNat_eq_natCast, Int.toNat_natCast] at e
          simp only [Int.ofNat_eq_natCast, e, BitVec.ofInt_natCast, beq_self_eq_true]
      have hl := List.getElem?_eq_getElem (show j < b.up.length by omega)
      rw [hl]
      have : ¬ b.up[j].enabled = true := fun he => hnotin ((mem_en_iff b j _ hl).mpr he)
      simp [this]
    · have h72' : j < 72 := hj
      simp only [h64, if_false, h72', if_true]
      rw [firstMask_bit b (j - 64) (by omega) hn]
      have h8 : j - 64 < 8 := by omega
      have hj' : 64 + (j - 64) = j := by omega
      simp [h8, hj']

theorem plan_block_bound (b : BandState) (dev : List Int) (hdev : ∀ c ∈ dev, 0 ≤ c ∧ c < (b.up.length : Int)) :
    ∀ p ∈ b.planGeneric dev, p.cntl.toNat * 16 < b.up.length := by
  intro p hp
  simp only [BandState.planGeneric] at hp
  split at hp
  · simp at hp
  · obtain ⟨c, hc, rfl⟩ := planLoop_sound b dev _ _ p hp
    have hcd := (mem_sortInts _ c).mp hc
    have hr : 0 ≤ c ∧ c < (b.up.length : Int) := by
      rcases (mem_intSliceDiff _ _ c).mp hcd with h | h
      · exact hdev c h.1
      · obtain ⟨j, rfl, ch, hl, _⟩ := (mem_enabledIdx b c).mp h.1
        have : j < b.up.length := by
          rcases Nat.lt_or_ge j b.up.length with h | h
          · exact h
          · rw [List.getElem?_eq_none h] at hl; contradiction
        omega
    have hk : (mkPlan b dev (Int.tdiv c 16)).cntl.toNat = (c.toNat / 16) % 256 := by
      simp only [mkPlan, tdiv_nonneg_eq c hr.1, Int.ofNat_eq_natCast, BitVec.ofInt_natCast, BitVec.toNat_ofNat]
    rw [hk]
    have : c.toNat / 16 % 256 ≤ c.toNat / 16 := Nat.mod_le _ _
    omega

/-- C14 for US915 / AU915 (72 channels, no custom channels): whichever of the two plans is chosen, applying it reaches the target -/
theorem plan_apply_us (b : BandState) (dev : List Int) (hf : b.cfg.family = .us915 ∨ b.cfg.family = .au915)
    (hn : b.up.length = 72) (hnc : ∀ ch ∈ b.up, ch.custom = false)
    (hdev : ∀ c ∈ dev, 0 ≤ c ∧ c < (b.up.length : Int)) :
    b.apply dev (b.plan dev) = ok (maskToIdx (targetMask b dev)) := by
  have hplan : b.plan dev = b.planUS dev := by rcases hf with h | h <;> simp [BandState.plan, h]
  have happly : ∀ pls, b.apply dev pls = (do let m' ← applyUSLoop b.up.length pls (devMask b.up.length dev); ok (maskToIdx m')) := by
    intro pls; rcases hf with h | h <;> simp [BandState.apply, h]
  rw [hplan, happly, hn]
  simp only [BandState.planUS]
  split
  · -- the generic plan is shorter
    have hno67 : ∀ p ∈ b.planGeneric dev, p.cntl ≠ 6 ∧ p.cntl ≠ 7 := by
      intro p hp
      have := plan_block_bound b dev hdev p hp
      rw [hn] at this
      constructor <;> intro h <;> rw [h] at this <;> simp at this
    rw [applyUS_eq_generic 72 _ _ hno67]
    have := plan_apply_generic b dev (by omega) hdev
    simp only [BandState.applyGeneric, hn] at this
    exact this
  · rw [planB_apply b dev hn hnc]; rfl

/-! ### reachable states of bands without extra channels -/

theorem step_static_noextra (b : BandState) (op : BandOp) (h : b.cfg.supportsExtra = false) :
    (step b op).cfg = b.cfg ∧ (step b op).up.map chStatic = b.up.map chStatic := by
  cases op with
  | add f mn mx => simp [step, BandState.addChannel, h]
  | disable i =>
    simp only [step, BandState.setUplinkEnabled]
    split
    · rename_i hx; split at hx
      · contradiction
      · cases ok_inj' hx; exact ⟨rfl, setEnabled_static _ _ _⟩
    · exact ⟨rfl, rfl⟩
  | enable i =>
    simp only [step, BandState.setUplinkEnabled]
    split
    · rename_i hx; split at hx
      · contradiction
      · cases ok_inj' hx; exact ⟨rfl, setEnabled_static _ _ _⟩
    · exact ⟨rfl, rfl⟩

theorem run_static_noextra (c : BandCfg) (ops : List BandOp) (h : c.supportsExtra = false) :
    (run c.init ops).cfg = c ∧ (run c.init ops).up.map chStatic = c.up.map chStatic := by
  suffices hs : ∀ b : BandState, b.cfg = c → b.up.map chStatic = c.up.map chStatic →
      (run b ops).cfg = c ∧ (run b ops).up.map chStatic = c.up.map chStatic from hs c.init rfl rfl
  induction ops with
  | nil => intro b h1 h2; exact ⟨h1, h2⟩
  | cons op ops ih =>
    intro b h1 h2
    have := step_static_noextra b op (by rw [h1]; exact h)
    exact ih (step b op) (by rw [this.1, h1]) (by rw [this.2, h2])

end LW.PlanProofs
