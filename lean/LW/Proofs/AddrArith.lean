/-
  LW.Proofs.AddrArith — the arithmetic form of the addressing rules (LW.Spec.Addr.addrWithPrefix / addrInNetID: what every Go
  result is compared with at run time) is, for all NetIDs and addresses, what the bit-level rule says and what the code computes.
-/
import LW.Proofs.Addr
import Mathlib.Tactic.IntervalCases
namespace LW.Spec

theorem testBit_split (hi lo n j : Nat) (h : lo < 2 ^ n) :
    (hi * 2 ^ n + lo).testBit j = if j < n then lo.testBit j else hi.testBit (j - n) := by
  rw [Nat.mul_comm]; exact Nat.testBit_two_pow_mul_add hi h j

/-- one type at a time: rest = 31 − t − w bits of NwkAddr, w bits of NwkID, t + 1 bits of prefix -/
theorem bits_of_type (t w nw rest netid a i : Nat) (hsum : rest + w + (t + 1) = 32) (ht : t < 8) (hi : i < 32) :
    ((2 ^ (t + 1) - 2) * 2 ^ (w + rest) + netid % 2 ^ nw % 2 ^ w * 2 ^ rest + a % 2 ^ rest).testBit i =
      (if i < rest then a.testBit i
       else if i < rest + w then (netid.testBit (i - rest) && decide (i - rest < nw))
       else decide (i ≠ rest + w)) := by
  have hM : netid % 2 ^ nw % 2 ^ w < 2 ^ w := Nat.mod_lt _ (Nat.two_pow_pos _)
  have hA : a % 2 ^ rest < 2 ^ rest := Nat.mod_lt _ (Nat.two_pow_pos _)
  have e : (2 ^ (t + 1) - 2) * 2 ^ (w + rest) + netid % 2 ^ nw % 2 ^ w * 2 ^ rest + a % 2 ^ rest =
      ((2 ^ (t + 1) - 2) * 2 ^ w + netid % 2 ^ nw % 2 ^ w) * 2 ^ rest + a % 2 ^ rest := by
    have : (2 : Nat) ^ (w + rest) = 2 ^ w * 2 ^ rest := Nat.pow_add 2 w rest
    rw [this, Nat.add_mul, Nat.mul_assoc]
  rw [e, testBit_split _ _ rest i hA]
  by_cases h1 : i < rest
  · simp only [h1, if_true, Nat.testBit_mod_two_pow]; simp [h1]
  · simp only [h1, if_false]
    rw [testBit_split _ _ w (i - rest) hM]
    by_cases h2 : i < rest + w
    · have : i - rest < w := by omega
      simp only [this, h2, if_true, Nat.testBit_mod_two_pow]
      simp only [this, decide_true, Bool.true_and]
      rw [Bool.and_comm]
    · have : ¬ i - rest < w := by omega
      simp only [this, h2, if_false]
      -- the prefix 1^t 0: bit m of 2^(t+1) − 2 for m ≤ t
      obtain ⟨m, hm⟩ : ∃ m, i - rest - w = m := ⟨_, rfl⟩
      have hmt : m ≤ t := by omega
      have hne : (i ≠ rest + w) ↔ m ≠ 0 := by omega
      rw [hm]
      simp only [hne]
      interval_cases t <;> interval_cases m <;> decide


/-- the arithmetic form of the addressing rule (what every Go result is compared with) has, bit by bit, the bits the rule names:
NwkAddr below, the low w_t bits of the NetID's ID field in the middle, the type prefix 1^t 0 on top -/
theorem addrWithPrefix_bits (netid a i : Nat) (hi : i < 32) :
    (addrWithPrefix netid a).testBit i = addrBit netid.testBit (netIDTypeOf netid) a.testBit i := by
  unfold addrWithPrefix addrBit netIDIdOf typePrefix
  have ht : netIDTypeOf netid < 8 := by unfold netIDTypeOf; omega
  generalize netIDTypeOf netid = t at ht ⊢
  interval_cases t
  · exact bits_of_type 0 6 6 25 netid a i rfl (by decide) hi
  · exact bits_of_type 1 6 6 24 netid a i rfl (by decide) hi
  · exact bits_of_type 2 9 9 20 netid a i rfl (by decide) hi
  · exact bits_of_type 3 11 21 17 netid a i rfl (by decide) hi
  · exact bits_of_type 4 12 21 15 netid a i rfl (by decide) hi
  · exact bits_of_type 5 13 21 13 netid a i rfl (by decide) hi
  · exact bits_of_type 6 15 21 10 netid a i rfl (by decide) hi
  · exact bits_of_type 7 17 21 7 netid a i rfl (by decide) hi

end LW.Spec

namespace LW.Spec
open LW

theorem addrWithPrefix_lt (netid a : Nat) : addrWithPrefix netid a < 2 ^ 32 := by
  unfold addrWithPrefix netIDIdOf typePrefix
  have ht : netIDTypeOf netid < 8 := by unfold netIDTypeOf; omega
  generalize netIDTypeOf netid = t at ht ⊢
  interval_cases t <;> simp only [nwkIDWidth, netIDWidth] <;> omega

/-- the arithmetic form of the rule IS what the code computes -/
theorem setAddrPrefix_arith (n : BitVec 24) (a : BitVec 32) : (setAddrPrefix a n).toNat = addrWithPrefix n.toNat a.toNat := by
  apply Nat.eq_of_testBit_eq
  intro i
  by_cases hi : i < 32
  · have h1 := AddrProofs.setPrefix_bits n a i hi
    have h2 := addrWithPrefix_bits n.toNat a.toNat i hi
    have ht : netIDTypeOf n.toNat = n.toNat / 2 ^ 21 := by
      unfold netIDTypeOf; have := n.isLt; omega
    rw [ht] at h2
    rw [h2]
    have e1 : n.getLsbD = n.toNat.testBit := rfl
    have e2 : a.getLsbD = a.toNat.testBit := rfl
    rw [e1, e2] at h1
    exact h1
  · have hb1 : (setAddrPrefix a n).toNat < 2 ^ i := Nat.lt_of_lt_of_le (setAddrPrefix a n).isLt (Nat.pow_le_pow_right (by omega) (by omega))
    have hb2 : addrWithPrefix n.toNat a.toNat < 2 ^ i := Nat.lt_of_lt_of_le (addrWithPrefix_lt _ _) (Nat.pow_le_pow_right (by omega) (by omega))
    rw [Nat.testBit_lt_two_pow hb1, Nat.testBit_lt_two_pow hb2]
end LW.Spec

namespace LW.Spec
open LW

theorem addrType_iff (a t : Nat) (ha : a < 2 ^ 32) (ht : t < 8) : addrType a = some t ↔ a / 2 ^ (31 - t) = 2 ^ (t + 1) - 2 := by
  unfold addrType
  have r8 : List.range 8 = [0, 1, 2, 3, 4, 5, 6, 7] := rfl
  rw [r8]
  simp only [List.find?, beq_iff_eq]
  interval_cases t <;> (repeat' split) <;> simp_all <;> omega

end LW.Spec

namespace LW.Spec
open LW

/-- membership, arithmetic form: "carries the type prefix and the NwkID" ⇔ "is a fixed point of prefix assignment" -/
theorem addrInNetID_iff (netid a : Nat) (ha : a < 2 ^ 32) : addrInNetID netid a = true ↔ a = addrWithPrefix netid a := by
  unfold addrInNetID addrWithPrefix addrNwkID netIDIdOf typePrefix
  have ht : netIDTypeOf netid < 8 := by unfold netIDTypeOf; omega
  generalize netIDTypeOf netid = t at ht ⊢
  simp only [Bool.and_eq_true, beq_iff_eq]
  rw [addrType_iff a t ha ht]
  interval_cases t <;> simp only [nwkIDWidth, netIDWidth] <;> omega

/-- the membership test of the code = the arithmetic form of the rule -/
theorem isNetID_arith (n : BitVec 24) (a : BitVec 32) : isNetID a n = addrInNetID n.toNat a.toNat := by
  have h := addrInNetID_iff n.toNat a.toNat a.isLt
  rw [← setAddrPrefix_arith n a] at h
  cases hb : addrInNetID n.toNat a.toNat with
  | true =>
    have := h.mp hb
    simp only [isNetID, beq_iff_eq]
    exact BitVec.eq_of_toNat_eq this
  | false =>
    simp only [isNetID]
    cases hi : (a == setAddrPrefix a n) with
    | false => rfl
    | true =>
      have : a.toNat = (setAddrPrefix a n).toNat := by rw [beq_iff_eq] at hi; rw [← hi]
      rw [h.mpr this] at hb; cases hb
end LW.Spec
