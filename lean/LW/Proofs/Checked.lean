/-
  LW.Proofs.Checked — C09: the decoders written with the Go source's index expressions (LW.Model.Checked) never panic,
  for every byte string; the frame decoders equal the total decoders that the correspondence runs compare with Go.
-/
import LW.Model.Checked
namespace LW.Checked
open LW Outcome

theorem slice_ok (s : Bytes) (lo hi : Nat) (h : lo ≤ hi ∧ hi ≤ s.length) : slice s lo hi = ok ((s.drop lo).take (hi - lo)) := by
  unfold slice; rw [if_pos h]

theorem index_ok (s : Bytes) (i : Nat) (h : i < s.length) : index s i = ok (s.getD i 0) := by
  unfold index
  have : s[i]? = some s[i] := List.getElem?_eq_getElem h
  simp [this, List.getD]

theorem index_take_drop (s : Bytes) (i : Nat) (h : i < s.length) : index ((s.drop i).take 1) 0 = ok (s.getD i 0) := by
  rw [index_ok _ 0 (by simp; omega)]
  congr 1
  simp [List.getD, List.getElem?_take, List.getElem?_drop]

theorem fhdrDec_eq (data : Bytes) : fhdrDec data = FHDR.dec {} data := by
  unfold fhdrDec FHDR.dec
  by_cases h : data.length < 7
  · simp [h]
  · simp only [h, if_false]
    rw [slice_ok data 0 4 (by omega), slice_ok data 4 5 (by omega), slice_ok data 5 7 (by omega)]
    simp only [Outcome.ok_bind, show 5 - 4 = 1 from rfl, index_take_drop data 4 (by omega)]
    by_cases h7 : data.length > 7
    · simp only [h7, if_true]
      rw [slice_ok data 7 data.length (by omega)]
      simp [List.take_of_length_le]
    · simp [h7]

theorem macDec_eq (data : Bytes) : macDec data = LW.macDec {} none [] data := by
  unfold macDec LW.macDec
  by_cases h : data.length < 7
  · simp [h]
  · simp only [h, if_false]
    rw [slice_ok data 4 5 (by omega)]
    simp only [Outcome.ok_bind, show 5 - 4 = 1 from rfl, index_take_drop data 4 (by omega)]
    generalize hfol : ((data.getD 4 0) &&& 0x0f#8).toNat = fol
    by_cases h2 : data.length < 7 + fol
    · simp [h2]
    · simp only [h2, if_false]
      rw [slice_ok data 0 (7 + fol) (by omega)]
      simp only [Outcome.ok_bind, List.drop_zero, Nat.sub_zero, fhdrDec_eq]
      cases hh : FHDR.dec {} (data.take (7 + fol)) with
      | err => simp
      | panic => simp
      | ok hdr =>
        simp only [Outcome.ok_bind]
        by_cases h3 : data.length > 7 + fol
        · have hi := index_ok data (7 + fol) (by omega)
          by_cases hz : (data.getD (7 + fol) 0 == 0) = true <;> by_cases hf : fol > 0 <;> by_cases h5 : data.length > 7 + fol + 1 <;>
            simp [h3, hi, hz, hf, h5, slice_ok data (7 + fol + 1) data.length (by omega), List.take_of_length_le]
        · have h5 : ¬ data.length > 7 + fol + 1 := by omega
          simp [h3, h5]

theorem mic_eq (data : Bytes) (h : 4 ≤ data.length) :
    [data.getD (data.length - 4) 0, data.getD (data.length - 4 + 1) 0, data.getD (data.length - 4 + 2) 0, data.getD (data.length - 4 + 3) 0] =
      data.drop (data.length - 4) := by
  obtain ⟨pre, suf, hd, hp⟩ : ∃ pre suf : Bytes, data = pre ++ suf ∧ pre.length = data.length - 4 :=
    ⟨data.take (data.length - 4), data.drop (data.length - 4), (List.take_append_drop _ _).symm, by simp⟩
  have hs : suf.length = 4 := by
    have := congrArg List.length hd
    simp at this; omega
  match suf, hs with
  | [a, b, c, d], _ =>
    rw [← hp]
    subst hd
    simp [List.getD, List.getElem?_append_right]

theorem phyDec_eq (data : Bytes) : phyDec data = PHY.dec data := by
  unfold phyDec PHY.dec
  by_cases h : data.length < 5
  · simp [h]
  · simp only [h, if_false]
    rw [slice_ok data 0 1 (by omega)]
    simp only [Outcome.ok_bind, List.drop_zero, Nat.sub_zero]
    have hh : index (data.take 1) 0 = ok (data.getD 0 0) := by
      have := index_take_drop data 0 (by omega); simpa using this
    rw [hh, slice_ok data 1 (data.length - 4) (by omega)]
    simp only [Outcome.ok_bind]
    rw [index_ok data (data.length - 4) (by omega), index_ok data (data.length - 4 + 1) (by omega),
      index_ok data (data.length - 4 + 2) (by omega), index_ok data (data.length - 4 + 3) (by omega)]
    simp only [Outcome.ok_bind, mic_eq data (by omega), show data.length - 4 - 1 = data.length - 5 by omega]
    generalize hb : (data.drop 1).take (data.length - 5) = body
    have hbl : body.length = data.length - 5 := by rw [← hb]; simp; omega
    split
    · -- join-request
      by_cases h18 : (body.length != 18) = true
      · simp [h18]
      · have h18' : body.length = 18 := by simpa using h18
        simp only [h18, if_false, Bool.false_eq_true]
        rw [slice_ok body 0 8 (by omega), slice_ok body 8 16 (by omega), slice_ok body 16 18 (by omega)]
        simp only [Outcome.ok_bind, List.drop_zero, Nat.sub_zero, show 16 - 8 = 8 from rfl, show 18 - 16 = 2 from rfl]
        have : (body.drop 16).take 2 = body.drop 16 := List.take_of_length_le (by simp; omega)
        rw [this]
    · split
      · rfl
      · split
        · rw [index_ok data 1 (by omega)]
          simp only [Outcome.ok_bind]
          split
          · by_cases h14 : (body.length != 14) = true
            · simp [h14]
            · have h14' : body.length = 14 := by simpa using h14
              simp only [h14, if_false, Bool.false_eq_true]
              rw [slice_ok body 1 4 (by omega), slice_ok body 4 12 (by omega), slice_ok body 12 14 (by omega)]
              simp only [Outcome.ok_bind, show 4 - 1 = 3 from rfl, show 12 - 4 = 8 from rfl, show 14 - 12 = 2 from rfl]
              have : (body.drop 12).take 2 = body.drop 12 := List.take_of_length_le (by simp; omega)
              rw [this]
          · split
            · by_cases h19 : (body.length != 19) = true
              · simp [h19]
              · have h19' : body.length = 19 := by simpa using h19
                simp only [h19, if_false, Bool.false_eq_true]
                rw [slice_ok body 1 9 (by omega), slice_ok body 9 17 (by omega), slice_ok body 17 19 (by omega)]
                simp only [Outcome.ok_bind, show 9 - 1 = 8 from rfl, show 17 - 9 = 8 from rfl, show 19 - 17 = 2 from rfl]
                have : (body.drop 17).take 2 = body.drop 17 := List.take_of_length_le (by simp; omega)
                rw [this]
            · rfl
        · rw [macDec_eq]

theorem fhdr_ne_panic (p : FHDR) (d : Bytes) : FHDR.dec p d ≠ panic := by
  unfold FHDR.dec; split <;> simp

theorem macDec_ne_panic (ph : FHDR) (pp : Option Byte) (pf : List Item) (d : Bytes) : LW.macDec ph pp pf d ≠ panic := by
  unfold LW.macDec
  simp only
  split
  · simp
  · split
    · simp
    · have := fhdr_ne_panic ph (d.take (7 + ((d.getD 4 0) &&& 0x0f#8).toNat))
      cases hh : FHDR.dec ph (d.take (7 + ((d.getD 4 0) &&& 0x0f#8).toNat)) with
      | panic => exact absurd hh this
      | err => simp
      | ok h => simp only [Outcome.ok_bind]; split <;> (try split) <;> simp

theorem phy_ne_panic (d : Bytes) : PHY.dec d ≠ panic := by
  unfold PHY.dec
  simp only
  split
  · simp
  · split
    · split <;> simp
    · split
      · simp
      · split
        · split
          · split <;> simp
          · split
            · split <;> simp
            · simp
        · have := macDec_ne_panic {} none [] ((d.drop 1).take (d.length - 5))
          cases hh : LW.macDec {} none [] ((d.drop 1).take (d.length - 5)) with
          | panic => exact absurd hh this
          | err => simp
          | ok pl => simp

/-- the Go index expressions of the frame decoder never go out of bounds, for every byte string -/
theorem phyDec_never_panics (data : Bytes) : phyDec data ≠ panic := by
  rw [phyDec_eq]; exact phy_ne_panic data

theorem macDec_never_panics (data : Bytes) : macDec data ≠ panic := by
  rw [macDec_eq]; exact macDec_ne_panic _ _ _ data

theorem fhdrDec_never_panics (data : Bytes) : fhdrDec data ≠ panic := by
  rw [fhdrDec_eq]; exact fhdr_ne_panic _ data

/-! ### the MAC-command stream loop -/

theorem macCmdDec_ok (reg : Registry) (up : Bool) (d : Bytes) (h : d ≠ []) : ∃ r, MacCmd.dec reg up d = ok r := by
  unfold MacCmd.dec
  match d, h with
  | [c], _ => exact ⟨_, rfl⟩
  | c :: x :: rest, _ =>
    simp only
    split
    · exact ⟨_, rfl⟩
    · split <;> exact ⟨_, rfl⟩

def RegNonneg (reg : Registry) : Prop := ∀ up cid e, reg.lookup up cid = some e → 0 ≤ e.size

/-- with a registry whose sizes are non-negative (what `RegisterProprietaryMACCommand` guarantees, C07_register_range) the
cursor arithmetic of the stream loop never leaves the buffer, for every byte string and every cursor position -/
theorem streamLoop_never_panics (reg : Registry) (hreg : RegNonneg reg) (up : Bool) (data : Bytes) (fuel i : Nat) (acc : List MacCmd) :
    streamLoop reg up data fuel i acc ≠ panic := by
  induction fuel generalizing i acc with
  | zero => simp [streamLoop]
  | succ fuel ih =>
    unfold streamLoop
    by_cases hi : i < data.length
    · rw [if_pos hi, index_ok data i hi]
      simp only [Outcome.ok_bind]
      rw [slice_ok data i data.length (by omega)]
      simp only [Outcome.ok_bind]
      have hnn0 : 0 ≤ regSize reg up (data.getD i 0) := by
        unfold regSize
        split
        · rename_i e he; exact hreg _ _ _ he
        · exact Int.le_refl 0
      generalize regSize reg up (data.getD i 0) = plLen at hnn0 ⊢
      have hnn : 0 ≤ plLen := hnn0
      have hrl : ((data.drop i).take (data.length - i)).length = data.length - i := by simp
      by_cases hshort : (((data.drop i).take (data.length - i)).length : Int) < plLen + 1
      · rw [if_pos hshort]; simp
      · rw [if_neg hshort, if_neg (by omega)]
        have hb : i + (plLen + 1).toNat ≤ data.length := by rw [hrl] at hshort; omega
        rw [slice_ok data i (i + (plLen + 1).toNat) (by omega)]
        simp only [Outcome.ok_bind]
        have hne : (data.drop i).take (i + (plLen + 1).toNat - i) ≠ [] := by
          intro hc
          have := congrArg List.length hc
          simp at this
          omega
        obtain ⟨⟨mc, b⟩, hd⟩ := macCmdDec_ok reg up _ hne
        rw [hd]
        exact ih _ _
    · rw [if_neg hi]; simp

theorem stream_never_panics (reg : Registry) (hreg : RegNonneg reg) (up : Bool) (data : Bytes) : stream reg up data ≠ panic :=
  streamLoop_never_panics reg hreg up data _ _ _

/-! ### application-layer offset arithmetic -/

theorem statusAnsItems_never_panics (data : Bytes) (k i : Nat) (h : 1 + 5 * (i + k) ≤ data.length) : statusAnsItems data k i ≠ panic := by
  induction k generalizing i with
  | zero => simp [statusAnsItems]
  | succ k ih =>
    unfold statusAnsItems
    simp only
    rw [index_ok data (1 + i * 5) (by omega), slice_ok data (1 + i * 5 + 1) (1 + i * 5 + 5) (by omega)]
    simp only [Outcome.ok_bind]
    have := ih (i + 1) (by omega)
    cases hh : statusAnsItems data k (i + 1) with
    | panic => exact absurd hh this
    | err => simp
    | ok r => simp

theorem statusAnsDec_never_panics (data : Bytes) : statusAnsDec data ≠ panic := by
  unfold statusAnsDec
  by_cases h0 : (data.length == 0) = true
  · simp [h0]
  · have hl : 0 < data.length := by simp at h0; exact List.length_pos_iff.mpr h0
    rw [if_neg h0, index_ok data 0 hl]
    simp only [Outcome.ok_bind]
    split
    · simp
    · rename_i hlen
      have := statusAnsItems_never_panics data (App.Mask4.ofByte (data.getD 0 0)).count 0 (by omega)
      cases hh : statusAnsItems data (App.Mask4.ofByte (data.getD 0 0)).count 0 with
      | panic => exact absurd hh this
      | err => simp
      | ok r => simp

theorem sessionAnsDec_never_panics (mk) (data : Bytes) : sessionAnsDec mk data ≠ panic := by
  unfold sessionAnsDec
  by_cases h0 : (data.length == 0) = true
  · simp [h0]
  · have hl : 0 < data.length := by simp at h0; exact List.length_pos_iff.mpr h0
    rw [if_neg h0, index_ok data 0 hl]
    simp only [Outcome.ok_bind]
    split
    · simp
    · split
      · simp
      · rw [slice_ok data 1 4 (by omega)]; simp

theorem upgradeAnsDec_never_panics (data : Bytes) : upgradeAnsDec data ≠ panic := by
  unfold upgradeAnsDec
  by_cases h0 : data.length < 1
  · simp [h0]
  · rw [if_neg h0, index_ok data 0 (by omega)]
    simp only [Outcome.ok_bind]
    split
    · split
      · simp
      · rw [slice_ok data 1 5 (by omega)]; simp
    · simp

theorem dataFragmentDec_never_panics (data : Bytes) : dataFragmentDec data ≠ panic := by
  unfold dataFragmentDec
  by_cases h0 : data.length < 2
  · simp [h0]
  · rw [if_neg h0, slice_ok data 0 2 (by omega), index_ok data 1 (by omega), slice_ok data 2 data.length (by omega)]
    simp
/-! ### CFList and join-accept payload: the index expressions never leave the buffer and equal the total decoders -/

theorem three_bytes (data : Bytes) (p : Nat) (h : p + 2 < data.length) :
    [data.getD p 0, data.getD (p + 1) 0, data.getD (p + 2) 0] = (data.drop p).take 3 := by
  apply List.ext_getElem?
  intro j
  rcases j with _ | _ | _ | j
  · simp [List.getElem?_take, List.getElem?_drop, List.getD]; rw [List.getElem?_eq_getElem (by omega)]; rfl
  · simp [List.getElem?_take, List.getElem?_drop, List.getD]; rw [List.getElem?_eq_getElem (by omega)]; rfl
  · simp [List.getElem?_take, List.getElem?_drop, List.getD]; rw [List.getElem?_eq_getElem (by omega)]; rfl
  · simp [List.getElem?_take]; omega

theorem cfChannelsLoop_eq (data : Bytes) (k i : Nat) (h : 3 * (i + k) ≤ data.length) :
    cfChannelsLoop data k i = ok ((List.range k).map (fun j => freq100Dec ((data.drop (3 * (i + j))).take 3))) := by
  induction k generalizing i with
  | zero => rfl
  | succ k ih =>
    simp only [cfChannelsLoop]
    rw [index_ok data (i * 3) (by omega), index_ok data (i * 3 + 1) (by omega), index_ok data (i * 3 + 2) (by omega)]
    simp only [Outcome.ok_bind]
    rw [ih (i + 1) (by omega)]
    simp only [Outcome.ok_bind, List.range_succ_eq_map, List.map_cons, List.map_map]
    congr 2
    · rw [three_bytes data (i * 3) (by omega)]
      have : i * 3 = 3 * (i + 0) := by omega
      rw [this]
    · apply List.map_congr_left; intro j _
      simp only [Function.comp]
      have : 3 * (i + 1 + j) = 3 * (i + (j + 1)) := by omega
      rw [this]

theorem cfChannelsDec_eq (data : Bytes) : cfChannelsDec data = LW.cfChannelsDec (List.replicate 5 0) data := by
  unfold cfChannelsDec LW.cfChannelsDec
  by_cases h1 : data.length > 15
  · simp [h1]
  · simp only [h1, if_false]
    by_cases h2 : (data.length % 3 != 0) = true
    · simp [h2]
    · simp only [h2, if_false]
      rw [cfChannelsLoop_eq data (data.length / 3) 0 (by omega)]
      simp

theorem pairsLE_drop (d : Bytes) (k i : Nat) (h : 2 * (i + k) ≤ d.length) (hk : d.length < 2 * (i + k) + 2) :
    cfMasksSlices d k i = ok (pairsLE (d.drop (2 * i))) := by
  induction k generalizing i with
  | zero =>
    simp only [cfMasksSlices]
    have hl : (d.drop (2 * i)).length < 2 := by rw [List.length_drop]; omega
    cases hd : d.drop (2 * i) with
    | nil => rfl
    | cons a t =>
      cases t with
      | nil => rfl
      | cons b t' => rw [hd] at hl; simp at hl; omega
  | succ k ih =>
    simp only [cfMasksSlices]
    rw [slice_ok d (i * 2) (i * 2 + 2) (by omega)]
    simp only [Outcome.ok_bind]
    have e2 : i * 2 + 2 - i * 2 = 2 := by omega
    rw [e2]
    have hl : 2 ≤ (d.drop (i * 2)).length := by rw [List.length_drop]; omega
    cases hd : d.drop (i * 2) with
    | nil => rw [hd] at hl; simp at hl
    | cons a t =>
      cases t with
      | nil => rw [hd] at hl; simp at hl
      | cons b t' =>
        have hdd : d.drop (2 * (i + 1)) = t' := by
          have : 2 * (i + 1) = i * 2 + 2 := by omega
          rw [this, ← List.drop_drop, hd]; rfl
        have htk : List.take 2 (a :: b :: t') = [a, b] := rfl
        rw [htk]
        have hcm : chMaskDec 0 [a, b] = ok (BitVec.ofNat 16 (leNat [a, b])) := rfl
        rw [hcm]
        simp only [Outcome.ok_bind]
        rw [ih (i + 1) (by omega) (by omega), hdd]
        have : 2 * i = i * 2 := by omega
        rw [this, hd]
        simp [pairsLE]

theorem pairsLE_take_even (data : Bytes) : pairsLE (data.take (data.length - data.length % 2)) = pairsLE data := by
  induction data using pairsLE.induct with
  | case1 a b rest ih =>
    have e : (a :: b :: rest).length - (a :: b :: rest).length % 2 = (rest.length - rest.length % 2) + 2 := by
      simp only [List.length_cons]; omega
    rw [e]
    simp only [List.take_succ_cons, pairsLE, ih]
  | case2 l hne =>
    match l, hne with
    | [], _ => rfl
    | [a], _ => rfl
    | a :: b :: r, hne => exact absurd rfl (hne a b r)

theorem cfMasksDec_eq (data : Bytes) : cfMasksDec data = LW.cfMasksDec [] data := by
  unfold cfMasksDec LW.cfMasksDec
  by_cases h1 : data.length > 15
  · simp [h1]
  · simp only [h1, if_false]
    rw [slice_ok data 0 _ (by omega)]
    simp only [Outcome.ok_bind, List.drop_zero, Nat.sub_zero]
    have hl : (data.take (data.length - data.length % 2)).length = data.length - data.length % 2 := by simp
    rw [pairsLE_drop _ _ 0 (by rw [hl]; omega) (by rw [hl]; omega)]
    simp only [Outcome.ok_bind, Nat.mul_zero, List.drop_zero, pairsLE_take_even]


theorem cfListDec_eq (data : Bytes) : cfListDec data = CFList.dec data := by
  unfold cfListDec CFList.dec
  by_cases h : (data.length != 16) = true
  · simp [h]
  · have hl : data.length = 16 := by simpa using h
    simp only [h, if_false]
    rw [index_ok data 15 (by omega), slice_ok data 0 15 (by omega)]
    simp only [Outcome.ok_bind, List.drop_zero, Nat.sub_zero, cfMasksDec_eq, cfChannelsDec_eq]

theorem joinAcceptDec_eq (data : Bytes) : joinAcceptDec data = JoinAccept.dec {} data := by
  unfold joinAcceptDec JoinAccept.dec
  by_cases h : data.length ≠ 12 ∧ data.length ≠ 28
  · simp [h]
  · have hl : data.length = 12 ∨ data.length = 28 := by omega
    simp only [h, if_false]
    rw [slice_ok data 0 3 (by omega), slice_ok data 3 6 (by omega), slice_ok data 6 10 (by omega), slice_ok data 10 11 (by omega)]
    simp only [Outcome.ok_bind, show 11 - 10 = 1 from rfl, index_take_drop data 10 (by omega)]
    rw [index_ok data 11 (by omega)]
    simp only [Outcome.ok_bind, List.drop_zero, Nat.sub_zero, show 6 - 3 = 3 from rfl, show 10 - 6 = 4 from rfl]
    by_cases h28 : (data.length == 28) = true
    · have : data.length = 28 := by simpa using h28
      simp only [h28, if_true]
      rw [slice_ok data 12 data.length (by omega)]
      simp only [Outcome.ok_bind, cfListDec_eq]
      rw [List.take_of_length_le (by simp)]
    · simp only [h28, Bool.false_eq_true, if_false]

theorem cfMasks_ne_panic (p : List (BitVec 16)) (d : Bytes) : LW.cfMasksDec p d ≠ panic := by
  unfold LW.cfMasksDec; split <;> simp

theorem cfChannels_ne_panic (p : List (BitVec 32)) (d : Bytes) : LW.cfChannelsDec p d ≠ panic := by
  unfold LW.cfChannelsDec
  split
  · simp
  · split <;> simp

theorem cfListTotal_ne_panic (d : Bytes) : CFList.dec d ≠ panic := by
  unfold CFList.dec
  split
  · simp
  · simp only
    split
    · cases h : LW.cfMasksDec [] (d.take 15) with
      | ok m => simp [Outcome.bind]
      | err => simp [Outcome.bind]
      | panic => exact absurd h (cfMasks_ne_panic _ _)
    · cases h : LW.cfChannelsDec (List.replicate 5 0) (d.take 15) with
      | ok m => simp [Outcome.bind]
      | err => simp [Outcome.bind]
      | panic => exact absurd h (cfChannels_ne_panic _ _)

theorem cfList_never_panics (d : Bytes) : cfListDec d ≠ panic := by
  rw [cfListDec_eq]; exact cfListTotal_ne_panic d

theorem joinAcceptTotal_ne_panic (p : JoinAccept) (d : Bytes) : JoinAccept.dec p d ≠ panic := by
  unfold JoinAccept.dec
  split
  · simp
  · simp only
    split
    · cases h : CFList.dec (d.drop 12) with
      | ok l => simp [Outcome.bind]
      | err => simp [Outcome.bind]
      | panic => exact absurd h (cfListTotal_ne_panic _)
    · simp

theorem joinAccept_never_panics (d : Bytes) : joinAcceptDec d ≠ panic := by
  rw [joinAcceptDec_eq]; exact joinAcceptTotal_ne_panic {} d

end LW.Checked
