import LW.Model.Backend
import Mathlib.Tactic.IntervalCases

/-!
ISO8601Time: `time.Parse(time.RFC3339, t.Format(time.RFC3339)) = t` for every instant whose year in its
zone is 0..9999 and every zone offset of whole minutes below a day.

The calendar part is the correctness of the days ↔ civil-date algorithm over a whole 400-year era.  `omega`
proves it once the three quotients `doe/1460`, `doe/36524`, `doe/146096` are constants, so the era is cut into
4 × 26 pieces (`core_f`), and the month into its 12 values (`civil_of_yd`).
-/
namespace LW.Backend
set_option maxRecDepth 10000

/-! ### the calendar -/

theorem isLeap_iff (y : Int) : isLeap y = true ↔ y % 4 = 0 ∧ (y % 100 ≠ 0 ∨ y % 400 = 0) := by
  simp [isLeap]

set_option maxHeartbeats 1000000 in
theorem core_f (f e doe : Int) (hf0 : 0 ≤ f) (hf1 : f ≤ 3) (he0 : 0 ≤ e) (he1 : e ≤ 25)
    (hf : doe / 36524 = f) (he : doe / 1460 = 25 * f + e) :
    0 ≤ (doe - (25 * f + e) + f) / 365 ∧ (doe - (25 * f + e) + f) / 365 ≤ 399 ∧
    0 ≤ doe - (365 * ((doe - (25 * f + e) + f) / 365) + (doe - (25 * f + e) + f) / 365 / 4 - (doe - (25 * f + e) + f) / 365 / 100) ∧
      (doe - (365 * ((doe - (25 * f + e) + f) / 365) + (doe - (25 * f + e) + f) / 365 / 4 - (doe - (25 * f + e) + f) / 365 / 100) ≤ 364 ∨
       (doe - (365 * ((doe - (25 * f + e) + f) / 365) + (doe - (25 * f + e) + f) / 365 / 4 - (doe - (25 * f + e) + f) / 365 / 100) = 365 ∧
        ((doe - (25 * f + e) + f) / 365 + 1) % 4 = 0 ∧ (((doe - (25 * f + e) + f) / 365 + 1) % 100 ≠ 0 ∨ (doe - (25 * f + e) + f) / 365 = 399))) := by
  interval_cases f <;> interval_cases e <;> omega

/-- year of era and day of year (years starting 1 March) of a day of the era -/
def yoeOf (doe : Int) : Int := (doe - doe / 1460 + doe / 36524 - doe / 146096) / 365
def doyOf (doe : Int) : Int := doe - (365 * yoeOf doe + yoeOf doe / 4 - yoeOf doe / 100)

theorem yoe_core (doe : Int) (h0 : 0 ≤ doe) (h1 : doe < 146097) :
    0 ≤ yoeOf doe ∧ yoeOf doe ≤ 399 ∧ 0 ≤ doyOf doe ∧
      (doyOf doe ≤ 364 ∨ (doyOf doe = 365 ∧ (yoeOf doe + 1) % 4 = 0 ∧ ((yoeOf doe + 1) % 100 ≠ 0 ∨ yoeOf doe = 399))) := by
  by_cases hl : doe = 146096
  · subst hl; decide
  · have hg : doe / 146096 = 0 := by omega
    have := core_f (doe / 36524) (doe / 1460 - 25 * (doe / 36524)) doe (by omega) (by omega) (by omega) (by omega) rfl (by omega)
    have e : doe - (25 * (doe / 36524) + (doe / 1460 - 25 * (doe / 36524))) + doe / 36524 = doe - doe / 1460 + doe / 36524 - doe / 146096 := by
      omega
    rw [e] at this
    exact this

/-- the calendar part once year-of-era and day-of-year are known to be in range -/
theorem civil_of_yd (era yoe doy : Int) (hy0 : 0 ≤ yoe) (hy1 : yoe ≤ 399) (hd0 : 0 ≤ doy)
    (hd1 : doy ≤ 364 ∨ (doy = 365 ∧ (yoe + 1) % 4 = 0 ∧ ((yoe + 1) % 100 ≠ 0 ∨ yoe = 399))) :
    let mp := (5 * doy + 2) / 153
    let d := doy - (153 * mp + 2) / 5 + 1
    let m := if mp < 10 then mp + 3 else mp - 9
    let y := if m ≤ 2 then yoe + era * 400 + 1 else yoe + era * 400
    1 ≤ m ∧ m ≤ 12 ∧ 1 ≤ d ∧ d ≤ daysIn y m ∧
      daysFromCivil y m d = era * 146097 + (yoe * 365 + yoe / 4 - yoe / 100 + doy) - 719468 := by
  intro mp d m y
  obtain ⟨k, hk⟩ : ∃ k, (5 * doy + 2) / 153 = k := ⟨_, rfl⟩
  have hk0 : 0 ≤ k := by omega
  have hk1 : k ≤ 11 := by omega
  simp only [y, m, d, mp, hk]
  clear y m d mp
  interval_cases k <;> simp only [daysIn, daysFromCivil] <;> norm_num <;>
    first | omega | (simp only [isLeap_iff]; split <;> omega)

/-- days → civil date → days is the identity, and the civil date is a real one -/
theorem civilOfDoe_ok (era doe : Int) (h0 : 0 ≤ doe) (h1 : doe < 146097) :
    1 ≤ (civilOfDoe era doe).2.1 ∧ (civilOfDoe era doe).2.1 ≤ 12 ∧ 1 ≤ (civilOfDoe era doe).2.2 ∧
      (civilOfDoe era doe).2.2 ≤ daysIn (civilOfDoe era doe).1 (civilOfDoe era doe).2.1 ∧
      daysFromCivil (civilOfDoe era doe).1 (civilOfDoe era doe).2.1 (civilOfDoe era doe).2.2 = era * 146097 + doe - 719468 := by
  obtain ⟨a, b, c, d⟩ := yoe_core doe h0 h1
  have := civil_of_yd era (yoeOf doe) (doyOf doe) a b c d
  have e : yoeOf doe * 365 + yoeOf doe / 4 - yoeOf doe / 100 + doyOf doe = doe := by
    unfold doyOf; omega
  rw [e] at this
  exact this

theorem civilFromDays_ok (z : Int) :
    1 ≤ (civilFromDays z).2.1 ∧ (civilFromDays z).2.1 ≤ 12 ∧ 1 ≤ (civilFromDays z).2.2 ∧
      (civilFromDays z).2.2 ≤ daysIn (civilFromDays z).1 (civilFromDays z).2.1 ∧
      daysFromCivil (civilFromDays z).1 (civilFromDays z).2.1 (civilFromDays z).2.2 = z := by
  have := civilOfDoe_ok ((z + 719468) / 146097) ((z + 719468) % 146097) (by omega) (by omega)
  have e : (z + 719468) / 146097 * 146097 + (z + 719468) % 146097 - 719468 = z := by omega
  rw [e] at this
  exact this

theorem daysIn_le (y m : Int) : daysIn y m ≤ 31 := by
  unfold daysIn; split
  · split <;> omega
  · split <;> omega

/-! ### the text -/

def dg (k : Nat) : Char := Char.ofNat (48 + k)
theorem dig_eq (n : Nat) : dig n = dg (n % 10) := rfl
theorem isDigit_dg (k : Nat) (h : k < 10) : isDigit (dg k) = true := by
  interval_cases k <;> decide
theorem dval_dg (k : Nat) (h : k < 10) : dval (dg k) = k := by
  interval_cases k <;> decide
theorem toNat_dg (k : Nat) (h : k < 10) : (dg k).toNat - 48 = k := dval_dg k h

theorem pad2 (n : Nat) (h : n < 100) : pad 2 n = [dg (n / 10), dg (n % 10)] := by
  have : n / 10 % 10 = n / 10 := by omega
  simp [pad, h, dig_eq, this]
theorem pad4 (n : Nat) (h : n < 10000) : pad 4 n = [dg (n / 1000), dg (n / 100 % 10), dg (n / 10 % 10), dg (n % 10)] := by
  have : n / 1000 % 10 = n / 1000 := by omega
  simp [pad, h, dig_eq, this]

theorem getnum_pad2 (n : Nat) (h : n < 100) (fixed : Bool) (rest : List Char) :
    getnum (pad 2 n ++ rest) fixed = some (n, rest) := by
  rw [pad2 n h]
  simp [getnum, isDigit_dg (n / 10) (by omega), isDigit_dg (n % 10) (by omega), dval_dg (n / 10) (by omega), dval_dg (n % 10) (by omega)]
  omega

theorem parseDate_fmt (Y Mo D : Nat) (hY : Y < 10000) (hMo0 : 1 ≤ Mo) (hMo1 : Mo ≤ 12) (hD : D < 100) (rest : List Char) :
    parseDate (pad 4 Y ++ ['-'] ++ pad 2 Mo ++ ['-'] ++ pad 2 D ++ rest) = some (((Y : Int), Mo, D), rest) := by
  have e : pad 4 Y ++ ['-'] ++ pad 2 Mo ++ ['-'] ++ pad 2 D ++ rest
      = dg (Y / 1000) :: dg (Y / 100 % 10) :: dg (Y / 10 % 10) :: dg (Y % 10) :: '-' :: (pad 2 Mo ++ ('-' :: (pad 2 D ++ rest))) := by
    rw [pad4 Y hY]; simp
  rw [e]
  simp [parseDate, expect, getnum_pad2 Mo (by omega), getnum_pad2 D hD, isDigit_dg (Y / 1000) (by omega), isDigit_dg (Y / 100 % 10) (by omega),
    isDigit_dg (Y / 10 % 10) (by omega), isDigit_dg (Y % 10) (by omega), digitsVal, toNat_dg (Y / 1000) (by omega), toNat_dg (Y / 100 % 10) (by omega),
    toNat_dg (Y / 10 % 10) (by omega), toNat_dg (Y % 10) (by omega)]
  omega

theorem parseClock_fmt (H Mi S : Nat) (hH : H < 24) (hMi : Mi < 60) (hS : S < 60) (rest : List Char) :
    parseClock (pad 2 H ++ [':'] ++ pad 2 Mi ++ [':'] ++ pad 2 S ++ rest) = some ((H, Mi, S), rest) := by
  have e : pad 2 H ++ [':'] ++ pad 2 Mi ++ [':'] ++ pad 2 S ++ rest = pad 2 H ++ (':' :: (pad 2 Mi ++ (':' :: (pad 2 S ++ rest)))) := by simp
  rw [e]
  simp [parseClock, expect, getnum_pad2 H (by omega), getnum_pad2 Mi (by omega), getnum_pad2 S (by omega)]
  omega

theorem parseFrac_Z : parseFrac ['Z'] = (0, ['Z']) := rfl
theorem parseFrac_sign (neg : Bool) (r : List Char) :
    parseFrac ((if neg then '-' else '+') :: r) = (0, (if neg then '-' else '+') :: r) := by
  cases neg <;> cases r with
  | nil => rfl
  | cons d r => simp [parseFrac]

theorem parseZone_Z : parseZone ['Z'] = some (0, []) := rfl
theorem parseZone_fmt (neg : Bool) (hh mm : Nat) (hhh : hh < 24) (hmm : mm < 60) :
    parseZone ((if neg then '-' else '+') :: (pad 2 hh ++ [':'] ++ pad 2 mm))
      = some ((if neg then -(((hh * 60 + mm) * 60 : Nat) : Int) else (((hh * 60 + mm) * 60 : Nat) : Int)), []) := by
  rw [pad2 hh (by omega), pad2 mm (by omega)]
  cases neg <;>
  simp [parseZone, isDigit_dg (hh / 10) (by omega), isDigit_dg (hh % 10) (by omega), isDigit_dg (mm / 10) (by omega), isDigit_dg (mm % 10) (by omega),
    dval_dg (hh / 10) (by omega), dval_dg (hh % 10) (by omega), dval_dg (mm / 10) (by omega), dval_dg (mm % 10) (by omega)] <;> omega

/-- the text of (date, clock, zone) parses to the instant it names -/
theorem parse_fields (Y Mo D H Mi S : Nat) (hY : Y < 10000) (hMo0 : 1 ≤ Mo) (hMo1 : Mo ≤ 12) (hD0 : 1 ≤ D)
    (hD1 : (D : Int) ≤ daysIn Y Mo) (hH : H < 24) (hMi : Mi < 60) (hS : S < 60) (zone : List Char) (off : Int)
    (hf : parseFrac zone = (0, zone)) (hz : parseZone zone = some (off, [])) :
    parseRFC3339 (pad 4 Y ++ ['-'] ++ pad 2 Mo ++ ['-'] ++ pad 2 D ++ ['T'] ++ pad 2 H ++ [':'] ++ pad 2 Mi ++ [':'] ++ pad 2 S ++ zone)
      = some (daysFromCivil Y Mo D * 86400 + H * 3600 + Mi * 60 + S - off, 0) := by
  have hD2 : D < 100 := by have := daysIn_le Y Mo; omega
  have e : pad 4 Y ++ ['-'] ++ pad 2 Mo ++ ['-'] ++ pad 2 D ++ ['T'] ++ pad 2 H ++ [':'] ++ pad 2 Mi ++ [':'] ++ pad 2 S ++ zone
      = pad 4 Y ++ ['-'] ++ pad 2 Mo ++ ['-'] ++ pad 2 D ++ ('T' :: (pad 2 H ++ [':'] ++ pad 2 Mi ++ [':'] ++ pad 2 S ++ zone)) := by simp
  rw [e]
  simp only [parseRFC3339, parseDate_fmt Y Mo D hY hMo0 hMo1 hD2, Option.bind_eq_bind, Option.bind_some, expect, beq_self_eq_true, if_true,
    parseClock_fmt H Mi S hH hMi hS, hf, hz]
  simp
  omega

/-- the instant `sec` shown `offMin` minutes east of UTC: text → instant is the inverse of instant → text -/
theorem parse_format (sec offMin : Int) (ho0 : -1440 < offMin) (ho1 : offMin < 1440)
    (hy0 : 0 ≤ (civilFromDays ((sec + offMin * 60) / 86400)).1) (hy1 : (civilFromDays ((sec + offMin * 60) / 86400)).1 ≤ 9999) :
    parseRFC3339 (formatRFC3339 sec offMin) = some (sec, 0) := by
  obtain ⟨hm0, hm1, hd0, hd1, hinv⟩ := civilFromDays_ok ((sec + offMin * 60) / 86400)
  rcases hc : civilFromDays ((sec + offMin * 60) / 86400) with ⟨y, m, d⟩
  rw [hc] at hm0 hm1 hd0 hd1 hinv hy0 hy1
  simp only at hm0 hm1 hd0 hd1 hinv hy0 hy1
  have hd2 := daysIn_le y m
  obtain ⟨Y, rfl⟩ : ∃ Y : Nat, y = Y := ⟨y.toNat, by omega⟩
  obtain ⟨Mo, rfl⟩ : ∃ Mo : Nat, m = Mo := ⟨m.toNat, by omega⟩
  obtain ⟨D, rfl⟩ : ∃ D : Nat, d = D := ⟨d.toNat, by omega⟩
  obtain ⟨R, hR⟩ : ∃ R : Nat, sec + offMin * 60 - (sec + offMin * 60) / 86400 * 86400 = R := ⟨_, (Int.toNat_of_nonneg (by omega)).symm⟩
  have hR1 : R < 86400 := by omega
  have hyn : ¬ ((Y : Int) < 0) := by omega
  simp only [formatRFC3339, hc, hR, if_neg hyn, Int.toNat_natCast]
  have e1 : ((R : Int) / 3600).toNat = R / 3600 := by omega
  have e2 : ((R : Int) % 3600 / 60).toNat = R % 3600 / 60 := by omega
  have e3 : ((R : Int) % 60).toNat = R % 60 := by omega
  rw [e1, e2, e3]
  by_cases hz : offMin = 0
  · subst hz
    simp only [beq_self_eq_true, if_true]
    rw [parse_fields Y Mo D (R / 3600) (R % 3600 / 60) (R % 60) (by omega) (by omega) (by omega) (by omega) hd1 (by omega) (by omega) (by omega)
      ['Z'] 0 parseFrac_Z parseZone_Z]
    rw [hinv]
    congr 2
    omega
  · have hb : (offMin == 0) = false := by simpa using hz
    rw [hb]
    obtain ⟨N, hN⟩ : ∃ N : Nat, offMin.natAbs = N := ⟨_, rfl⟩
    have hN1 : (N : Int) = if offMin < 0 then -offMin else offMin := by split <;> omega
    rw [hN]
    simp only [Bool.false_eq_true, if_false]
    have hs : (if offMin < 0 then '-' else '+') = (if decide (offMin < 0) = true then '-' else '+') := by
      by_cases h : offMin < 0 <;> simp [h]
    rw [hs]
    rw [parse_fields Y Mo D (R / 3600) (R % 3600 / 60) (R % 60) (by omega) (by omega) (by omega) (by omega) hd1 (by omega) (by omega) (by omega)
      _ _ (parseFrac_sign _ _) (parseZone_fmt (decide (offMin < 0)) (N / 60) (N % 60) (by split at hN1 <;> omega) (by omega))]
    rw [hinv]
    congr 2
    by_cases h : offMin < 0 <;> simp only [h, if_true, if_false, decide_true, decide_false, Bool.false_eq_true] at hN1 ⊢ <;> omega

end LW.Backend
