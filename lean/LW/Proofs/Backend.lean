/-
  LW.Proofs.Backend — C17 helper proofs (core Lean only): RFC 3394 key wrap (round trip for any lawful block cipher,
  model = RFC text), HEXBytes, Percentage by kernel evaluation.
-/
import LW.Model.Backend
import LW.Spec.Backend
import LW.Proofs.Addr
namespace LW.Backend
open LW Outcome LW.AddrProofs

/-! ### key wrap -/

theorem be64_eq (t : Nat) : Spec.Backend.be64 t = be64 t := by
  simp only [Spec.Backend.be64, be64, leBytes, List.range, List.range.loop, List.map, List.reverse_cons, List.reverse_nil, List.nil_append, List.cons_append]
  simp only [byteOfNat]
  refine List.cons_eq_cons.mpr ⟨?_, List.cons_eq_cons.mpr ⟨?_, List.cons_eq_cons.mpr ⟨?_, List.cons_eq_cons.mpr ⟨?_,
    List.cons_eq_cons.mpr ⟨?_, List.cons_eq_cons.mpr ⟨?_, List.cons_eq_cons.mpr ⟨?_, List.cons_eq_cons.mpr ⟨?_, rfl⟩⟩⟩⟩⟩⟩⟩⟩ <;>
  (apply congrArg; omega)

theorem be64_length (t : Nat) : (be64 t).length = 8 := by simp [be64]

theorem xor_xor_cancel (x t : Bytes) (h : x.length ≤ t.length) : xorBytes (xorBytes x t) t = x := by
  induction x generalizing t with
  | nil => cases t <;> rfl
  | cons a as ih =>
    cases t with
    | nil => simp at h
    | cons b bs =>
      simp only [xorBytes, List.cons.injEq]
      refine ⟨?_, ih bs (by simpa using h)⟩
      rw [BitVec.xor_assoc, BitVec.xor_self, BitVec.xor_zero]


theorem unwrapStep_wrapStep (E : BlockCipher) (hE : E.Lawful) (kek a r : Bytes) (t : Nat) (ha : a.length = 8) (hr : r.length = 8) :
    unwrapStep (E.dec kek) (wrapStep (E.enc kek) a r t).1 (wrapStep (E.enc kek) a r t).2 t = (a, r) := by
  have hb : (E.enc kek (a ++ r)).length = 16 := hE.enc_len _ _
  simp only [wrapStep, unwrapStep]
  rw [xor_xor_cancel _ _ (by simp [be64_length]; omega), List.take_append_drop, hE.dec_enc _ _ (by simp [ha, hr])]
  simp [ha]

theorem wrapStep_lengths (E : BlockCipher) (hE : E.Lawful) (kek a r : Bytes) (t : Nat) :
    (wrapStep (E.enc kek) a r t).1.length = 8 ∧ (wrapStep (E.enc kek) a r t).2.length = 8 := by
  have hb : (E.enc kek (a ++ r)).length = 16 := hE.enc_len _ _
  simp [wrapStep, hb, be64_length]

/-- one round j of wrapping (i = 1, 2) and of unwrapping (i = 2, 1) -/
def wrapRound (enc : Bytes → Bytes) (j : Nat) (s : Bytes × Bytes × Bytes) : Bytes × Bytes × Bytes :=
  let x := wrapStep enc s.1 s.2.1 (2 * j + 1)
  let y := wrapStep enc x.1 s.2.2 (2 * j + 2)
  (y.1, x.2, y.2)
def unwrapRound (dec : Bytes → Bytes) (j : Nat) (s : Bytes × Bytes × Bytes) : Bytes × Bytes × Bytes :=
  let y := unwrapStep dec s.1 s.2.2 (2 * j + 2)
  let x := unwrapStep dec y.1 s.2.1 (2 * j + 1)
  (x.1, x.2, y.2)

def Len8 (s : Bytes × Bytes × Bytes) : Prop := s.1.length = 8 ∧ s.2.1.length = 8 ∧ s.2.2.length = 8

theorem wrapLoop_succ (enc : Bytes → Bytes) (fuel j : Nat) (s : Bytes × Bytes × Bytes) :
    wrapLoop enc (fuel + 1) j s = wrapLoop enc fuel (j + 1) (wrapRound enc j s) := by
  obtain ⟨a, r1, r2⟩ := s; rfl

theorem wrapLoop_last (enc : Bytes → Bytes) (fuel j : Nat) (s : Bytes × Bytes × Bytes) :
    wrapLoop enc (fuel + 1) j s = wrapRound enc (j + fuel) (wrapLoop enc fuel j s) := by
  induction fuel generalizing j s with
  | zero => obtain ⟨a, r1, r2⟩ := s; rfl
  | succ n ih =>
    rw [wrapLoop_succ, ih, wrapLoop_succ]
    congr 1; omega

theorem unwrapLoop_succ (dec : Bytes → Bytes) (j : Nat) (s : Bytes × Bytes × Bytes) :
    unwrapLoop dec (j + 1) s = unwrapLoop dec j (unwrapRound dec j s) := by
  obtain ⟨a, r1, r2⟩ := s; rfl

theorem round_inv (E : BlockCipher) (hE : E.Lawful) (kek : Bytes) (j : Nat) (s : Bytes × Bytes × Bytes) (h : Len8 s) :
    unwrapRound (E.dec kek) j (wrapRound (E.enc kek) j s) = s ∧ Len8 (wrapRound (E.enc kek) j s) := by
  obtain ⟨a, r1, r2⟩ := s
  obtain ⟨ha, h1, h2⟩ := h
  have l1 := wrapStep_lengths E hE kek a r1 (2 * j + 1)
  have l2 := wrapStep_lengths E hE kek (wrapStep (E.enc kek) a r1 (2 * j + 1)).1 r2 (2 * j + 2)
  constructor
  · simp only [wrapRound, unwrapRound]
    rw [unwrapStep_wrapStep E hE kek _ r2 _ l1.1 h2]
    simp only
    rw [unwrapStep_wrapStep E hE kek a r1 _ ha h1]
  · exact ⟨l2.1, l1.2, l2.2⟩

theorem loops_inv (E : BlockCipher) (hE : E.Lawful) (kek : Bytes) (n : Nat) (s : Bytes × Bytes × Bytes) (h : Len8 s) :
    unwrapLoop (E.dec kek) n (wrapLoop (E.enc kek) n 0 s) = s ∧ Len8 (wrapLoop (E.enc kek) n 0 s) := by
  induction n with
  | zero => obtain ⟨a, r1, r2⟩ := s; exact ⟨rfl, h⟩
  | succ n ih =>
    rw [wrapLoop_last, unwrapLoop_succ, Nat.zero_add]
    obtain ⟨h1, h2⟩ := round_inv E hE kek n _ ih.2
    rw [h1]
    exact ⟨ih.1, h2⟩

def validKEK (kek : Bytes) : Prop := kek.length = 16 ∨ kek.length = 24 ∨ kek.length = 32

/-- a key wrapped into an envelope with a KEK unwraps to the same key with that KEK -/
theorem envelope_roundtrip (E : BlockCipher) (hE : E.Lawful) (kek key : Bytes) (hk : validKEK kek) (hkey : key.length = 16) :
    ∃ ct, newKeyEnvelope E true kek key = ok (true, ct) ∧ ct.length = 24 ∧ unwrapEnvelope E kek ct = ok key := by
  have hk0 : ¬ (kek.length == 0) = true := by rcases hk with h | h | h <;> simp [h]
  have hkv : (kek.length == 16 || kek.length == 24 || kek.length == 32) = true := by rcases hk with h | h | h <;> simp [h]
  have hs : Len8 (defaultIV, key.take 8, key.drop 8) := by simp [Len8, defaultIV, hkey]
  obtain ⟨hinv, hlen⟩ := loops_inv E hE kek 6 _ hs
  refine ⟨wrap16 (E.enc kek) key, ?_, ?_, ?_⟩
  · simp [newKeyEnvelope, hk0, hkv]
  · simp only [wrap16]; obtain ⟨l1, l2, l3⟩ := hlen; simp [l1, l2, l3]
  · obtain ⟨l1, l2, l3⟩ := hlen
    have e1 : (wrap16 (E.enc kek) key).take 8 = (wrapLoop (E.enc kek) 6 0 (defaultIV, key.take 8, key.drop 8)).1 := by
      simp only [wrap16, List.append_assoc]; exact List.take_left' l1
    have e2 : ((wrap16 (E.enc kek) key).drop 8).take 8 = (wrapLoop (E.enc kek) 6 0 (defaultIV, key.take 8, key.drop 8)).2.1 := by
      simp only [wrap16, List.append_assoc]; rw [List.drop_left' l1]; exact List.take_left' l2
    have e3 : (wrap16 (E.enc kek) key).drop 16 = (wrapLoop (E.enc kek) 6 0 (defaultIV, key.take 8, key.drop 8)).2.2 := by
      simp only [wrap16, List.append_assoc]
      have : (16 : Nat) = 8 + 8 := rfl
      rw [this, ← List.drop_drop, List.drop_left' l1, List.drop_left' l2]
    have hl24 : (wrap16 (E.enc kek) key).length = 24 := by simp only [wrap16]; simp [l1, l2, l3]
    simp only [unwrapEnvelope, hl24, hkv, e1, e2, e3]
    simp only [bne_self_eq_false, Bool.false_eq_true, if_false, Bool.not_true]
    rw [show ((wrapLoop (E.enc kek) 6 0 (defaultIV, key.take 8, key.drop 8)).1, (wrapLoop (E.enc kek) 6 0 (defaultIV, key.take 8, key.drop 8)).2.1,
          (wrapLoop (E.enc kek) 6 0 (defaultIV, key.take 8, key.drop 8)).2.2) = wrapLoop (E.enc kek) 6 0 (defaultIV, key.take 8, key.drop 8) from rfl, hinv]
    simp

/-! ### the model (go-aes-key-wrap, two blocks) is RFC 3394 -/

theorem wrapInner_two (enc : Bytes → Bytes) (j : Nat) (a r1 r2 : Bytes) :
    Spec.Backend.wrapInner enc 2 j 2 (a, [r1, r2]) =
      ((wrapRound enc j (a, r1, r2)).1, [(wrapRound enc j (a, r1, r2)).2.1, (wrapRound enc j (a, r1, r2)).2.2]) := by
  simp [Spec.Backend.wrapInner, wrapRound, wrapStep, be64_eq]

theorem wrapOuter_two (enc : Bytes → Bytes) (fuel : Nat) (hf : fuel ≤ 6) (a r1 r2 : Bytes) :
    Spec.Backend.wrapOuter enc 2 fuel (a, [r1, r2]) =
      ((wrapLoop enc fuel (6 - fuel) (a, r1, r2)).1, [(wrapLoop enc fuel (6 - fuel) (a, r1, r2)).2.1, (wrapLoop enc fuel (6 - fuel) (a, r1, r2)).2.2]) := by
  induction fuel generalizing a r1 r2 with
  | zero => rfl
  | succ n ih =>
    simp only [Spec.Backend.wrapOuter]
    rw [wrapInner_two, ih (by omega), wrapLoop_succ]
    have : 6 - (n + 1) + 1 = 6 - n := by omega
    rw [this]

theorem wrap16_is_rfc3394 (enc : Bytes → Bytes) (key : Bytes) (h : key.length = 16) : wrap16 enc key = Spec.Backend.wrap enc key := by
  have hb : Spec.Backend.blocks 2 key = [key.take 8, key.drop 8] := by
    simp only [Spec.Backend.blocks, List.cons.injEq, and_true, true_and]
    exact List.take_of_length_le (by simp [h])
  simp only [Spec.Backend.wrap, h, hb, wrap16, Spec.Backend.iv, defaultIV]
  rw [wrapOuter_two enc 6 (Nat.le_refl _)]
  simp

theorem unwrapInner_two (dec : Bytes → Bytes) (j : Nat) (a r1 r2 : Bytes) :
    Spec.Backend.unwrapInner dec 2 j 2 (a, [r1, r2]) =
      ((unwrapRound dec j (a, r1, r2)).1, [(unwrapRound dec j (a, r1, r2)).2.1, (unwrapRound dec j (a, r1, r2)).2.2]) := by
  simp [Spec.Backend.unwrapInner, unwrapRound, unwrapStep, be64_eq]

theorem unwrapOuter_two (dec : Bytes → Bytes) (n : Nat) (a r1 r2 : Bytes) :
    Spec.Backend.unwrapOuter dec 2 n (a, [r1, r2]) =
      ((unwrapLoop dec n (a, r1, r2)).1, [(unwrapLoop dec n (a, r1, r2)).2.1, (unwrapLoop dec n (a, r1, r2)).2.2]) := by
  induction n generalizing a r1 r2 with
  | zero => rfl
  | succ n ih =>
    simp only [Spec.Backend.unwrapOuter]
    rw [unwrapInner_two, ih, unwrapLoop_succ]

/-- unwrapping succeeds exactly when the RFC 3394 integrity check passes, and then returns the RFC's plaintext -/
theorem unwrap_is_rfc3394 (E : BlockCipher) (kek ct : Bytes) (hk : validKEK kek) (h : ct.length = 24) :
    unwrapEnvelope E kek ct = (match Spec.Backend.unwrap (E.dec kek) ct with | some p => ok p | none => err) := by
  have hkv : (kek.length == 16 || kek.length == 24 || kek.length == 32) = true := by rcases hk with h | h | h <;> simp [h]
  have hb : Spec.Backend.blocks 2 (ct.drop 8) = [(ct.drop 8).take 8, ct.drop 16] := by
    simp only [Spec.Backend.blocks, List.cons.injEq, and_true, true_and, List.drop_drop]
    exact List.take_of_length_le (by simp [h])
  simp only [unwrapEnvelope, h, hkv, Spec.Backend.unwrap, hb]
  rw [unwrapOuter_two]
  simp only [bne_self_eq_false, Bool.false_eq_true, if_false, Bool.not_true, show Spec.Backend.iv = defaultIV from rfl]
  generalize unwrapLoop (E.dec kek) 6 (List.take 8 ct, List.take 8 (List.drop 8 ct), List.drop 16 ct) = s
  by_cases hc : (s.1 == defaultIV) = true
  · rw [if_pos hc, if_pos hc]; simp
  · rw [if_neg hc, if_neg hc]

/-! ### HEXBytes -/

theorem hex_text_roundtrip (b : Bytes) : hexParse (hexText b) = ok b := by
  unfold hexParse hexText
  have h0 := flatMap_hex_ne_0x b
  split
  · rename_i r heq; exact absurd heq (h0 r)
  · simp only [hex_roundtrip]

theorem hex_text_roundtrip_0x (b : Bytes) : hexParse ('0' :: 'x' :: hexText b) = ok b := by
  simp only [hexParse, hexText, hex_roundtrip]

/-! ### Percentage: the whole range by kernel evaluation -/

theorem percentage_roundtrip : ∀ p : Fin 1001, roundTripScaled 100 (p.val : Int) = some (p.val : Int) := by
  decide +kernel

end LW.Backend
