/-
  LW.Proofs.App — helper lemmas for C18: byte facts (kernel-decided over the whole in-width domain and lifted),
  per-payload decode∘encode, the sequence induction.
-/
import LW.Spec.App
import LW.Proofs.Bits
namespace LW.App
open LW Outcome LW.Spec.App

/-! ### little-endian integers as explicit byte lists -/

theorem le32_cons (x : Nat) : le32 x = [byteOfNat (x % 256), byteOfNat (x / 256 % 256), byteOfNat (x / 256 / 256 % 256), byteOfNat (x / 256 / 256 / 256 % 256)] := rfl
theorem le24_cons (x : Nat) : le24 x = [byteOfNat (x % 256), byteOfNat (x / 256 % 256), byteOfNat (x / 256 / 256 % 256)] := rfl
theorem le16_cons (x : Nat) : le16 x = [byteOfNat (x % 256), byteOfNat (x / 256 % 256)] := rfl

theorem leNat_le32 (x : Nat) (h : x < 2 ^ 32) :
    leNat [byteOfNat (x % 256), byteOfNat (x / 256 % 256), byteOfNat (x / 256 / 256 % 256), byteOfNat (x / 256 / 256 / 256 % 256)] = x := by
  rw [← le32_cons, le32, leNat_leBytes]; omega
theorem leNat_le24 (x : Nat) (h : x < 2 ^ 24) :
    leNat [byteOfNat (x % 256), byteOfNat (x / 256 % 256), byteOfNat (x / 256 / 256 % 256)] = x := by
  rw [← le24_cons, le24, leNat_leBytes]; omega
theorem leNat_le16 (x : Nat) (h : x < 2 ^ 16) :
    leNat [byteOfNat (x % 256), byteOfNat (x / 256 % 256)] = x := by
  rw [← le16_cons, le16, leNat_leBytes]; omega

theorem int32_rt (c : Int) (h1 : -2147483648 ≤ c) (h2 : c < 2147483648) : intOfU32 (u32OfInt c) = c := by
  unfold intOfU32 u32OfInt; split <;> omega
theorem u32OfInt_lt (c : Int) : u32OfInt c < 2 ^ 32 := by unfold u32OfInt; omega

/-! ### byte facts -/

theorem lift2 {P : Byte → Byte → Prop} (n m : Nat) (key : ∀ (a : Fin n) (b : Fin m), P (BitVec.ofNat 8 a) (BitVec.ofNat 8 b))
    (x y : Byte) (hx : x.toNat < n) (hy : y.toNat < m) : P x y := by
  have := key ⟨x.toNat, hx⟩ ⟨y.toNat, hy⟩
  simpa using this

theorem lift1 {P : Byte → Prop} (n : Nat) (key : ∀ (a : Fin n), P (BitVec.ofNat 8 a)) (x : Byte) (hx : x.toNat < n) : P x := by
  have := key ⟨x.toNat, hx⟩
  simpa using this

theorem mask_rt (m : Mask4) : Mask4.ofByte m.byte = m := by
  rcases m with ⟨a, b, c, d⟩; cases a <;> cases b <;> cases c <;> cases d <;> decide

theorem tok_flag : ∀ (k : Byte) (a : Bool), k.toNat < 16 →
    (((k &&& 0x0f#8) ||| (if a then 0x10#8 else 0)) &&& 0x10#8 != 0) = a ∧ ((k &&& 0x0f#8) ||| (if a then 0x10#8 else 0)) &&& 0x0f#8 = k := by
  decide
theorem and15 : ∀ (k : Byte), k.toNat < 16 → k &&& 0x0f#8 = k := by decide
theorem and3 : ∀ (k : Byte), k.toNat < 4 → k &&& 0x03#8 = k := by decide
theorem and23 : ∀ (k : Byte), k.toNat < 8 → (k &&& 0x17#8) &&& 0x17#8 = k := by decide
theorem flag1 : ∀ (n : Bool), (((if n then 1#8 else 0) &&& 1#8) != 0) = n := by decide
theorem id_flag4 : ∀ (id : Byte) (e : Bool), id.toNat < 4 →
    ((((id &&& 0x03#8) ||| (if e then 0x04#8 else 0)) &&& 0x04#8) != 0) = e ∧ ((id &&& 0x03#8) ||| (if e then 0x04#8 else 0)) &&& 0x03#8 = id := by
  decide
theorem status_byte (nb : Byte) (m : Mask4) (h : nb.toNat < 8) :
    Mask4.ofByte (m.byte ||| ((nb &&& 0x07#8) <<< 4)) = m ∧ ((m.byte ||| ((nb &&& 0x07#8) <<< 4)) &&& 0x70#8) >>> 4 = nb := by
  rcases m with ⟨a, b, c, d⟩
  revert h nb a b c d
  decide
theorem session_byte : ∀ (id : Byte) (u f d : Bool), id.toNat < 4 →
    sessionAnsByte u f d id &&& 3#8 = id ∧ ((sessionAnsByte u f d id &&& 4#8) != 0) = d ∧
    ((sessionAnsByte u f d id &&& 8#8) != 0) = f ∧ ((sessionAnsByte u f d id &&& 16#8) != 0) = u := by
  decide
theorem timeout_periodicity (t p : Byte) (ht : t.toNat < 16) (hp : p.toNat < 8) :
    (((t &&& 0x0f#8) ||| ((p &&& 0x07#8) <<< 4)) >>> 4) &&& 0x07#8 = p ∧ ((t &&& 0x0f#8) ||| ((p &&& 0x07#8) <<< 4)) &&& 0x0f#8 = t :=
  lift2 (P := fun t p => (((t &&& 0x0f#8) ||| ((p &&& 0x07#8) <<< 4)) >>> 4) &&& 0x07#8 = p ∧ ((t &&& 0x0f#8) ||| ((p &&& 0x07#8) <<< 4)) &&& 0x0f#8 = t)
    16 8 (by decide) t p ht hp
theorem frag_b0 (fi : Byte) (m : Mask4) (h : fi.toNat < 4) :
    ((m.byte ||| ((fi &&& 0x03#8) <<< 4)) >>> 4) &&& 0x03#8 = fi ∧ Mask4.ofByte (m.byte ||| ((fi &&& 0x03#8) <<< 4)) = m := by
  rcases m with ⟨a, b, c, d⟩
  revert h fi a b c d
  decide
theorem frag_control (bad fm : Byte) (hb : bad.toNat < 8) (hf : fm.toNat < 8) :
    (((bad &&& 0x07#8) ||| ((fm &&& 0x07#8) <<< 3)) >>> 3) &&& 0x07#8 = fm ∧ ((bad &&& 0x07#8) ||| ((fm &&& 0x07#8) <<< 3)) &&& 0x07#8 = bad :=
  lift2 (P := fun bad fm => (((bad &&& 0x07#8) ||| ((fm &&& 0x07#8) <<< 3)) >>> 3) &&& 0x07#8 = fm ∧ ((bad &&& 0x07#8) ||| ((fm &&& 0x07#8) <<< 3)) &&& 0x07#8 = bad)
    8 8 (by decide) bad fm hb hf
theorem setup_ans_byte : ∀ (fi : Byte) (w i n e : Bool), fi.toNat < 4 →
    let b := (if e then 0x01#8 else 0) ||| (if n then 0x02#8 else 0) ||| (if i then 0x04#8 else 0) ||| (if w then 0x08#8 else 0) ||| ((fi &&& 0x03#8) <<< 6)
    (b >>> 6) &&& 0x03#8 = fi ∧ ((b &&& 0x08#8) != 0) = w ∧ ((b &&& 0x04#8) != 0) = i ∧ ((b &&& 0x02#8) != 0) = n ∧ ((b &&& 0x01#8) != 0) = e := by
  decide
theorem status_req_byte : ∀ (fi : Byte) (p : Bool), fi.toNat < 4 →
    ((((if p then 0x01#8 else 0) ||| ((fi &&& 0x03#8) <<< 1)) >>> 1) &&& 0x03#8 = fi) ∧
    ((((if p then 0x01#8 else 0) ||| ((fi &&& 0x03#8) <<< 1)) &&& 0x01#8) != 0) = p := by
  decide
theorem delete_ans_byte (iv nv : Byte) (hi : iv.toNat < 2) (hn : nv.toNat < 2) :
    (((nv &&& 0x01#8) ||| ((iv &&& 0x01#8) <<< 1)) >>> 1) &&& 0x01#8 = iv ∧ ((nv &&& 0x01#8) ||| ((iv &&& 0x01#8) <<< 1)) &&& 0x01#8 = nv :=
  lift2 (P := fun iv nv => (((nv &&& 0x01#8) ||| ((iv &&& 0x01#8) <<< 1)) >>> 1) &&& 0x01#8 = iv ∧ ((nv &&& 0x01#8) ||| ((iv &&& 0x01#8) <<< 1)) &&& 0x01#8 = nv)
    2 2 (by decide) iv nv hi hn
/-- the high byte of a 14-bit counter shares its byte with the 2-bit fragment index -/
theorem hi_index (h fi : Byte) (hh : h.toNat < 64) (hf : fi.toNat < 4) :
    (h ||| ((fi &&& 0x03#8) <<< 6)) >>> 6 = fi ∧ (h ||| ((fi &&& 0x03#8) <<< 6)).toNat = h.toNat + 64 * fi.toNat :=
  lift2 (P := fun h fi => (h ||| ((fi &&& 0x03#8) <<< 6)) >>> 6 = fi ∧ (h ||| ((fi &&& 0x03#8) <<< 6)).toNat = h.toNat + 64 * fi.toNat)
    64 4 (by decide) h fi hh hf

theorem counter14 (n : Nat) (fi : Byte) (hn : n < 2 ^ 14) (hf : fi.toNat < 4) :
    (byteOfNat (n % 16384 / 256) ||| ((fi &&& 0x03#8) <<< 6)) >>> 6 = fi ∧
    leNat [byteOfNat (n % 16384 % 256), byteOfNat (n % 16384 / 256) ||| ((fi &&& 0x03#8) <<< 6)] % 16384 = n := by
  have hh : (byteOfNat (n % 16384 / 256)).toNat < 64 := by simp [byteOfNat]; omega
  obtain ⟨h1, h2⟩ := hi_index _ fi hh hf
  refine ⟨h1, ?_⟩
  simp only [leNat, h2]
  simp [byteOfNat]
  omega

/-! ### decode ∘ encode per payload, per command, per sequence -/

def tailOK (v : AP) (rest : Bytes) : Prop := (restConsuming (some v) = true ∨ exactLength (some v) = true) → rest = []

theorem decItems_encItems (items : List (Byte × Bytes)) (h : itemsOK items = true) (rest : Bytes) :
    decItems items.length (encItems items ++ rest) = some items := by
  induction items with
  | nil => simp [decItems]
  | cons x xs ih =>
    obtain ⟨g, a⟩ := x
    simp only [itemsOK, w, Bool.and_eq_true, decide_eq_true_eq] at h
    obtain ⟨⟨hg, ha⟩, hxs⟩ := h
    match a, ha with
    | [a0, a1, a2, a3], _ =>
      simp [encItems, addrWire, decItems, ih hxs, and3 g hg]

theorem encItems_length (items : List (Byte × Bytes)) (h : itemsOK items = true) : (encItems items).length = 5 * items.length := by
  induction items with
  | nil => rfl
  | cons x xs ih =>
    obtain ⟨g, a⟩ := x
    simp only [itemsOK, w, Bool.and_eq_true, decide_eq_true_eq] at h
    simp [encItems, addrWire, ih h.2, h.1.2]; omega

theorem sessionAns_rt (mk : Bool → Bool → Bool → Byte → Option Nat → AP) (u f d : Bool) (id : Byte) (tts : Option Nat)
    (hid : id.toNat < 4) (hopt : (match tts with | none => hasError u f d | some t => !hasError u f d && wn t 24) = true) (rest : Bytes) :
    ∃ b, sessionAnsEnc u f d id tts = ok b ∧ b.length = (if hasError u f d then 1 else 4) ∧
      sessionAnsDec mk (b ++ rest) = ok (mk u f d id tts) := by
  obtain ⟨h1, h2, h3, h4⟩ := session_byte id u f d hid
  cases tts with
  | none =>
    simp only at hopt
    refine ⟨[sessionAnsByte u f d id], ?_, ?_, ?_⟩
    · simp [sessionAnsEnc, hopt]
    · simp [hopt]
    · simp only [List.cons_append, List.nil_append, sessionAnsDec, h1, h2, h3, h4, hopt, if_true]
  | some t =>
    simp only [wn, Bool.and_eq_true, Bool.not_eq_true', decide_eq_true_eq] at hopt
    refine ⟨sessionAnsByte u f d id :: le24 t, ?_, ?_, ?_⟩
    · simp [sessionAnsEnc, hopt.1]
    · simp [hopt.1, le24]
    · simp only [le24_cons, List.cons_append, List.nil_append, sessionAnsDec, h1, h2, h3, h4, hopt.1, leNat_le24 _ hopt.2]
      simp

macro "iw" h:ident : tactic => `(tactic| simp only [inWidth, w, wn, Bool.and_eq_true, decide_eq_true_eq] at $h:ident)
macro "expose" : tactic => `(tactic| simp only [le32_cons, le24_cons, le16_cons, List.cons_append, List.nil_append, List.append_assoc, AKind.dec, AP.kind])

theorem dec_enc (v : AP) (h : inWidth v = true) (rest : Bytes) (ht : tailOK v rest) :
    ∃ b, v.enc = ok b ∧ b.length = v.size ∧ v.kind.dec (b ++ rest) = ok v := by
  cases v with
  | pkgVersionAns i ver => exact ⟨_, rfl, rfl, rfl⟩
  | appTimeReq t a k =>
    iw h
    refine ⟨_, rfl, rfl, ?_⟩
    expose
    simp only [leNat_le32 _ h.1, (tok_flag k a h.2).1, (tok_flag k a h.2).2]
  | appTimeAns c k =>
    iw h
    refine ⟨_, rfl, rfl, ?_⟩
    expose
    simp only [leNat_le32 _ (u32OfInt_lt c), int32_rt c h.1.1 h.1.2, and15 k h.2]
  | devAppTimePeriodicityReq p =>
    iw h
    refine ⟨_, rfl, rfl, ?_⟩
    expose
    simp only [and15 p h]
  | devAppTimePeriodicityAns n t =>
    iw h
    refine ⟨_, rfl, rfl, ?_⟩
    expose
    simp only [leNat_le32 _ h, flag1]
  | forceDeviceResyncReq n =>
    iw h
    refine ⟨_, rfl, rfl, ?_⟩
    expose
    simp only [and23 n h]
  | mcGroupStatusReq m =>
    refine ⟨_, rfl, rfl, ?_⟩
    expose
    simp only [mask_rt]
  | mcGroupStatusAns nb m items =>
    iw h
    obtain ⟨⟨hnb, hc⟩, hi⟩ := h
    have hl : ¬ items.length > 4 := by
      rcases m with ⟨a, b, c, d⟩
      cases a <;> cases b <;> cases c <;> cases d <;> simp [Mask4.count] at hc <;> omega
    refine ⟨(m.byte ||| ((nb &&& 0x07#8) <<< 4)) :: encItems items, ?_, ?_, ?_⟩
    · simp only [AP.enc, if_neg hl, hc, ne_eq, not_true_eq_false, if_false]
    · simp [AP.size, encItems_length items hi, hc]; omega
    · expose
      simp only [(status_byte nb m hnb).1, (status_byte nb m hnb).2, hc, decItems_encItems items hi rest]
  | mcGroupSetupReq id a k mn mx =>
    iw h
    obtain ⟨⟨⟨⟨hid, ha⟩, hk⟩, hmn⟩, hmx⟩ := h
    refine ⟨_, rfl, ?_, ?_⟩
    · simp [AP.size, addrWire, le32, ha, hk]
    · have hlen : ¬ ((id &&& 0x03#8) :: (addrWire a ++ k ++ le32 mn ++ le32 mx) ++ rest).length < 29 := by
        simp [addrWire, le32, ha, hk]; omega
      have e : ((id &&& 0x03#8) :: (addrWire a ++ k ++ le32 mn ++ le32 mx) ++ rest)
          = (id &&& 0x03#8) :: (addrWire a ++ (k ++ (le32 mn ++ (le32 mx ++ rest)))) := by simp
      simp only [AP.kind, AKind.dec, if_neg hlen]
      rw [e]
      have ha' : (addrWire a).length = 4 := by simp [addrWire, ha]
      have h1 : (List.drop 1 ((id &&& 0x03#8) :: (addrWire a ++ (k ++ (le32 mn ++ (le32 mx ++ rest)))))).take 4 = addrWire a := by
        simp [List.take_left' ha']
      have h5 : List.drop 5 ((id &&& 0x03#8) :: (addrWire a ++ (k ++ (le32 mn ++ (le32 mx ++ rest))))) = k ++ (le32 mn ++ (le32 mx ++ rest)) := by
        show List.drop 4 (addrWire a ++ _) = _
        exact List.drop_left' ha'
      have h21 : List.drop 21 ((id &&& 0x03#8) :: (addrWire a ++ (k ++ (le32 mn ++ (le32 mx ++ rest))))) = le32 mn ++ (le32 mx ++ rest) := by
        have : (21 : Nat) = 5 + 16 := rfl
        rw [this, ← List.drop_drop, h5]
        exact List.drop_left' hk
      have h25 : List.drop 25 ((id &&& 0x03#8) :: (addrWire a ++ (k ++ (le32 mn ++ (le32 mx ++ rest))))) = le32 mx ++ rest := by
        have : (25 : Nat) = 21 + 4 := rfl
        rw [this, ← List.drop_drop, h21]
        exact List.drop_left' (by simp [le32])
      rw [h1, h5, h21, h25, List.take_left' hk, List.take_left' (by simp [le32] : (le32 mn).length = 4),
        List.take_left' (by simp [le32] : (le32 mx).length = 4)]
      simp only [List.headD_cons, and3 id hid, addrWire, List.reverse_reverse, le32, leNat_leBytes]
      congr 2 <;> omega
  | mcGroupSetupAns e id =>
    iw h
    refine ⟨_, rfl, rfl, ?_⟩
    expose
    simp only [(id_flag4 id e h).1, (id_flag4 id e h).2]
  | mcGroupDeleteReq id =>
    iw h
    refine ⟨_, rfl, rfl, ?_⟩
    expose
    simp only [and3 id h]
  | mcGroupDeleteAns u id =>
    iw h
    refine ⟨_, rfl, rfl, ?_⟩
    expose
    simp only [(id_flag4 id u h).1, (id_flag4 id u h).2]
  | mcClassCSessionReq id st t f dr =>
    iw h
    obtain ⟨⟨⟨⟨hid, hst⟩, ht'⟩, hf⟩, hf2⟩ := h
    refine ⟨(id &&& 0x03#8) :: (le32 st ++ [t &&& 0x0f#8] ++ le24 (f / 100) ++ [dr]), ?_, rfl, ?_⟩
    · simp [AP.enc, hf]
    · expose
      simp only [leNat_le32 _ hst, leNat_le24 _ hf2, and3 id hid, and15 t ht']
      congr 2; omega
  | mcClassBSessionReq id st p t f dr =>
    iw h
    obtain ⟨⟨⟨⟨⟨hid, hst⟩, hp⟩, ht'⟩, hf⟩, hf2⟩ := h
    refine ⟨(id &&& 0x03#8) :: (le32 st ++ [(t &&& 0x0f#8) ||| ((p &&& 0x07#8) <<< 4)] ++ le24 (f / 100) ++ [dr]), ?_, rfl, ?_⟩
    · simp [AP.enc, hf]
    · expose
      simp only [leNat_le32 _ hst, leNat_le24 _ hf2, and3 id hid, (timeout_periodicity t p ht' hp).1, (timeout_periodicity t p ht' hp).2]
      congr 2; omega
  | mcClassCSessionAns u f d id tts =>
    simp only [inWidth, w, Bool.and_eq_true, decide_eq_true_eq] at h
    exact sessionAns_rt .mcClassCSessionAns u f d id tts h.1 h.2 rest
  | mcClassBSessionAns u f d id tts =>
    simp only [inWidth, w, Bool.and_eq_true, decide_eq_true_eq] at h
    exact sessionAns_rt .mcClassBSessionAns u f d id tts h.1 h.2 rest
  | fragSessionSetupReq fi m nb fs fm bad pad desc =>
    iw h
    obtain ⟨⟨⟨⟨hfi, hnb⟩, hfm⟩, hbad⟩, hd⟩ := h
    match desc, hd with
    | [d0, d1, d2, d3], _ =>
      refine ⟨_, rfl, rfl, ?_⟩
      expose
      simp only [leNat_le16 _ hnb, (frag_b0 fi m hfi).1, (frag_b0 fi m hfi).2, (frag_control bad fm hbad hfm).1, (frag_control bad fm hbad hfm).2]
  | fragSessionSetupAns fi wd i n e =>
    iw h
    refine ⟨_, rfl, rfl, ?_⟩
    obtain ⟨h1, h2, h3, h4, h5⟩ := setup_ans_byte fi wd i n e h
    expose
    simp only [h1, h2, h3, h4, h5]
  | fragSessionDeleteReq fi =>
    iw h
    refine ⟨_, rfl, rfl, ?_⟩
    expose
    simp only [and3 fi h]
  | fragSessionDeleteAns fi sd =>
    iw h
    refine ⟨_, rfl, rfl, ?_⟩
    expose
    simp only [(id_flag4 fi sd h).1, (id_flag4 fi sd h).2]
  | dataFragment fi n p =>
    iw h
    have hr : rest = [] := ht (Or.inl rfl)
    subst hr
    refine ⟨_, rfl, ?_, ?_⟩
    · simp [AP.size]; omega
    · expose
      simp only [(counter14 n fi h.2 h.1).1, (counter14 n fi h.2 h.1).2, List.append_nil]
  | fragSessionStatusReq fi p =>
    iw h
    refine ⟨_, rfl, rfl, ?_⟩
    expose
    simp only [(status_req_byte fi p h).1, (status_req_byte fi p h).2]
  | fragSessionStatusAns fi nb mf ne =>
    iw h
    refine ⟨_, rfl, rfl, ?_⟩
    expose
    simp only [(counter14 nb fi h.2 h.1).1, (counter14 nb fi h.2 h.1).2, flag1]
  | devVersionReq =>
    have hr : rest = [] := ht (Or.inr rfl)
    subst hr
    exact ⟨_, rfl, rfl, rfl⟩
  | devVersionAns f hw =>
    iw h
    refine ⟨_, rfl, rfl, ?_⟩
    expose
    simp only [leNat_le32 _ h.1, leNat_le32 _ h.2]
  | devRebootTimeReq t =>
    iw h
    refine ⟨_, rfl, rfl, ?_⟩
    expose
    simp only [leNat_le32 _ h]
  | devRebootTimeAns t =>
    iw h
    refine ⟨_, rfl, rfl, ?_⟩
    expose
    simp only [leNat_le32 _ h]
  | devRebootCountdownReq c =>
    iw h
    refine ⟨_, rfl, rfl, ?_⟩
    expose
    simp only [leNat_le24 _ h]
  | devRebootCountdownAns c =>
    iw h
    refine ⟨_, rfl, rfl, ?_⟩
    expose
    simp only [leNat_le24 _ h]
  | devUpgradeImageReq =>
    have hr : rest = [] := ht (Or.inr rfl)
    subst hr
    exact ⟨_, rfl, rfl, rfl⟩
  | devUpgradeImageAns s nx =>
    simp only [inWidth, w, wn, Bool.and_eq_true, decide_eq_true_eq] at h
    obtain ⟨hs, hnx⟩ := h
    cases nx with
    | none =>
      simp only [bne_iff_ne, ne_eq] at hnx
      refine ⟨[s &&& 0x03#8], ?_, ?_, ?_⟩
      · simp [AP.enc, hnx]
      · simp [AP.size, hnx]
      · expose
        simp [and3 s hs, hnx]
    | some v =>
      simp only [Bool.and_eq_true, beq_iff_eq, decide_eq_true_eq] at hnx
      refine ⟨(s &&& 0x03#8) :: le32 v, ?_, ?_, ?_⟩
      · simp [AP.enc, hnx.1]
      · simp [AP.size, hnx.1, le32]
      · expose
        simp [hnx.1, leNat_le32 _ hnx.2]
  | devDeleteImageReq v =>
    iw h
    have hr : rest = [] := ht (Or.inr rfl)
    subst hr
    refine ⟨_, rfl, rfl, ?_⟩
    expose
    simp only [leNat_le32 _ h]
  | devDeleteImageAns iv nv =>
    iw h
    refine ⟨_, rfl, rfl, ?_⟩
    expose
    simp only [(delete_ans_byte iv nv h.1 h.2).1, (delete_ans_byte iv nv h.1 h.2).2]

/-- when a command may be followed by further bytes -/
def cmdTailOK (c : ACmd) (rest : Bytes) : Prop := (restConsuming c.payload = true ∨ exactLength c.payload = true) → rest = []

theorem cmd_rt (p : Pkg) (up : Bool) (c : ACmd) (h : cmdOK p up c = true) (rest : Bytes) (ht : cmdTailOK c rest) :
    ∃ b, c.enc = ok b ∧ b.length = c.size ∧ cmdDec p up (b ++ rest) = ok c := by
  obtain ⟨cid, pl⟩ := c
  unfold cmdOK at h
  cases pl with
  | none =>
    refine ⟨[cid], rfl, rfl, ?_⟩
    simp only [List.cons_append, List.nil_append, cmdDec]
    cases hreg : registry p up cid.toNat with
    | none => rfl
    | some k => simp [hreg] at h
  | some v =>
    cases hreg : registry p up cid.toNat with
    | none => simp [hreg] at h
    | some k =>
      simp only [hreg, Bool.and_eq_true, beq_iff_eq] at h
      obtain ⟨b, he, hl, hd⟩ := dec_enc v h.2 rest (by intro hh; exact ht hh)
      refine ⟨cid :: b, ?_, ?_, ?_⟩
      · show (do let b ← v.enc; ok (cid :: b) : Outcome Bytes) = _
        rw [he]; rfl
      · simp [ACmd.size, hl]
      · simp only [List.cons_append, cmdDec, hreg, ← h.1]
        rw [hd]; rfl

theorem ACmd.size_pos (c : ACmd) : 0 < c.size := by
  unfold ACmd.size; split <;> omega

theorem seq_rt (p : Pkg) (up : Bool) (cs : List ACmd) (hok : seqOK p up cs = true) (hex : noExactBeforeLast cs = true) :
    ∃ b, cmdsEnc cs = ok b ∧ ∀ fuel, b.length ≤ fuel → cmdsDecFuel p up fuel b = ok cs := by
  induction cs with
  | nil => exact ⟨[], rfl, fun fuel _ => by cases fuel <;> rfl⟩
  | cons c r ih =>
    simp only [seqOK, List.all_cons, Bool.and_eq_true] at hok
    obtain ⟨⟨hc, hr⟩, hs⟩ := hok
    have hs' : seqShape r = true := by
      cases r with
      | nil => rfl
      | cons c' r' => simp only [seqShape, Bool.and_eq_true] at hs; exact hs.2
    have hex' : noExactBeforeLast r = true := by
      cases r with
      | nil => rfl
      | cons c' r' => simp only [noExactBeforeLast, Bool.and_eq_true] at hex; exact hex.2
    obtain ⟨br, hbr, hdec⟩ := ih (by simp only [seqOK, Bool.and_eq_true]; exact ⟨hr, hs'⟩) hex'
    have htail : cmdTailOK c br := by
      intro hh
      cases r with
      | nil => simp [cmdsEnc] at hbr; exact hbr
      | cons c' r' =>
        simp only [seqShape, noExactBeforeLast, Bool.and_eq_true, Bool.not_eq_true'] at hs hex
        rcases hh with hh | hh
        · rw [hs.1] at hh; cases hh
        · rw [hex.1] at hh; cases hh
    obtain ⟨b, he, hl, hd⟩ := cmd_rt p up c hc br htail
    refine ⟨b ++ br, ?_, ?_⟩
    · show (do let b ← c.enc; let rest ← cmdsEnc r; ok (b ++ rest) : Outcome Bytes) = _
      rw [he, hbr]; rfl
    · intro fuel hf
      have hpos := ACmd.size_pos c
      cases fuel with
      | zero =>
        have : (b ++ br).length = 0 := by omega
        rw [List.length_append] at this; omega
      | succ fuel =>
        cases hb : b ++ br with
        | nil => simp [List.append_eq_nil_iff] at hb; rw [hb.1] at hl; simp at hl; omega
        | cons x xs =>
          rw [← hb]
          have : cmdsDecFuel p up (fuel + 1) (b ++ br) =
              (do let c ← cmdDec p up (b ++ br); let rest ← cmdsDecFuel p up fuel ((b ++ br).drop c.size); ok (c :: rest) : Outcome _) := by
            rw [hb]; rfl
          rw [this, hd]
          simp only [Outcome.ok_bind]
          rw [← hl, List.drop_left, hdec fuel (by simp at hf; omega)]
          rfl

/-! ### no panics -/

theorem sessionAnsDec_ne_panic (mk) (d : Bytes) : sessionAnsDec mk d ≠ panic := by
  unfold sessionAnsDec; split
  · simp
  · simp only; split
    · simp
    · split <;> simp

theorem dec_ne_panic (k : AKind) (d : Bytes) : k.dec d ≠ panic := by
  unfold AKind.dec
  split <;> (try simp only) <;> (try split) <;> (try split) <;> first | (simp; done) | exact sessionAnsDec_ne_panic _ _

theorem sessionAnsEnc_ne_panic (u f d id tts) : sessionAnsEnc u f d id tts ≠ panic := by
  unfold sessionAnsEnc
  split; · simp
  split; · simp
  simp only; split
  · split <;> simp
  · simp

theorem enc_ne_panic (v : AP) : v.enc ≠ panic := by
  cases v <;> simp only [AP.enc] <;> (try exact sessionAnsEnc_ne_panic _ _ _ _ _) <;> (try split) <;> (try split) <;> (try split) <;> simp

theorem cmdEnc_ne_panic (c : ACmd) : c.enc ≠ panic := by
  unfold ACmd.enc; split
  · simp
  · rename_i p _
    have := enc_ne_panic p
    cases h : p.enc <;> simp_all

theorem cmdsEnc_ne_panic (cs : List ACmd) : cmdsEnc cs ≠ panic := by
  induction cs with
  | nil => simp [cmdsEnc]
  | cons c r ih =>
    have := cmdEnc_ne_panic c
    unfold cmdsEnc
    cases h : c.enc <;> cases h2 : cmdsEnc r <;> simp_all

theorem cmdDec_ne_panic (p up d) : cmdDec p up d ≠ panic := by
  unfold cmdDec; split
  · simp
  · split
    · simp
    · rename_i k _
      have := dec_ne_panic k
      rename_i r _ _
      cases h : k.dec r <;> simp_all

/-- the fuel of the stream decoder is never exhausted: it does not panic (and so always terminates with a value or an error) -/
theorem cmdsDecFuel_ne_panic (p up) (fuel : Nat) (d : Bytes) (h : d.length ≤ fuel) : cmdsDecFuel p up fuel d ≠ panic := by
  induction fuel generalizing d with
  | zero => cases d with
    | nil => simp [cmdsDecFuel]
    | cons x xs => simp at h
  | succ fuel ih =>
    cases d with
    | nil => simp [cmdsDecFuel]
    | cons x xs =>
      unfold cmdsDecFuel
      have h1 := cmdDec_ne_panic p up (x :: xs)
      cases hc : cmdDec p up (x :: xs) with
      | panic => exact absurd hc h1
      | err => simp
      | ok c =>
        have hp := ACmd.size_pos c
        have := ih ((x :: xs).drop c.size) (by simp at h ⊢; omega)
        cases h2 : cmdsDecFuel p up fuel ((x :: xs).drop c.size) <;> simp_all

/-! ### exact-length payloads exist only in firmware management -/

theorem exact_kind (v : AP) (h : exactLength (some v) = true) :
    v.kind = .devVersionReq ∨ v.kind = .devUpgradeImageReq ∨ v.kind = .devDeleteImageReq := by
  cases v <;> simp [exactLength, AP.kind] at h ⊢

set_option maxRecDepth 100000 in
theorem registry_no_exact : ∀ p ∈ [Pkg.cs, .mc, .fr], ∀ up ∈ [true, false], ∀ cid ∈ List.range 256,
    registry p up cid ≠ some .devVersionReq ∧ registry p up cid ≠ some .devUpgradeImageReq ∧ registry p up cid ≠ some .devDeleteImageReq := by
  decide

end LW.App
