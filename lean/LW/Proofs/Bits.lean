/-
  LW.Proofs.Bits — byte-level facts, each proved by kernel evaluation over the *whole* domain
  (all 256 bytes, or all in-range nibble pairs) and lifted to `Byte` variables with range hypotheses.
-/
import LW.Basic
namespace LW.Bits
open LW

theorem byte_of_fin16 (x : Byte) (h : x.toNat ≤ 15) : x = BitVec.ofNat 8 (⟨x.toNat, by omega⟩ : Fin 16).val := by
  simp

/-- lift a statement about all nibble pairs to bytes in range -/
theorem lift16 {P : Byte → Byte → Prop} (key : ∀ a b : Fin 16, P (BitVec.ofNat 8 a) (BitVec.ofNat 8 b))
    (x y : Byte) (hx : x.toNat ≤ 15) (hy : y.toNat ≤ 15) : P x y := by
  have := key ⟨x.toNat, by omega⟩ ⟨y.toNat, by omega⟩
  simpa using this

theorem lift16_8 {P : Byte → Byte → Prop} (key : ∀ (a : Fin 16) (b : Fin 8), P (BitVec.ofNat 8 a) (BitVec.ofNat 8 b))
    (x y : Byte) (hx : x.toNat ≤ 15) (hy : y.toNat ≤ 7) : P x y := by
  have := key ⟨x.toNat, by omega⟩ ⟨y.toNat, by omega⟩
  simpa using this

theorem lift8_8 {P : Byte → Byte → Prop} (key : ∀ (a : Fin 8) (b : Fin 8), P (BitVec.ofNat 8 a) (BitVec.ofNat 8 b))
    (x y : Byte) (hx : x.toNat ≤ 7) (hy : y.toNat ≤ 7) : P x y := by
  have := key ⟨x.toNat, by omega⟩ ⟨y.toNat, by omega⟩
  simpa using this

/-! nibble packing with `^^^` and `|||` -/

theorem xor_lo (x y : Byte) (hx : x.toNat ≤ 15) (hy : y.toNat ≤ 15) : (x ^^^ (y <<< 4)) &&& 0x0f#8 = x :=
  lift16 (P := fun x y => (x ^^^ (y <<< 4)) &&& 0x0f#8 = x) (by decide) x y hx hy
theorem xor_hi (x y : Byte) (hx : x.toNat ≤ 15) (hy : y.toNat ≤ 15) : ((x ^^^ (y <<< 4)) &&& 0xf0#8) >>> 4 = y :=
  lift16 (P := fun x y => ((x ^^^ (y <<< 4)) &&& 0xf0#8) >>> 4 = y) (by decide) x y hx hy
theorem xor_hi7 (x y : Byte) (hx : x.toNat ≤ 15) (hy : y.toNat ≤ 7) : ((x ^^^ (y <<< 4)) &&& 0x70#8) >>> 4 = y :=
  lift16_8 (P := fun x y => ((x ^^^ (y <<< 4)) &&& 0x70#8) >>> 4 = y) (by decide) x y hx hy
theorem or_lo (x y : Byte) (hx : x.toNat ≤ 15) (hy : y.toNat ≤ 15) : (x ||| (y <<< 4)) &&& 0x0f#8 = x :=
  lift16 (P := fun x y => (x ||| (y <<< 4)) &&& 0x0f#8 = x) (by decide) x y hx hy
theorem or_hi (x y : Byte) (hx : x.toNat ≤ 15) (hy : y.toNat ≤ 15) : ((x ||| (y <<< 4)) &&& 0xf0#8) >>> 4 = y :=
  lift16 (P := fun x y => ((x ||| (y <<< 4)) &&& 0xf0#8) >>> 4 = y) (by decide) x y hx hy
theorem or_shr (x y : Byte) (hx : x.toNat ≤ 15) (hy : y.toNat ≤ 15) : (x ||| (y <<< 4)) >>> 4 = y :=
  lift16 (P := fun x y => (x ||| (y <<< 4)) >>> 4 = y) (by decide) x y hx hy
theorem or_hi7 (x y : Byte) (hx : x.toNat ≤ 15) (hy : y.toNat ≤ 7) : ((x ||| (y <<< 4)) &&& 0x70#8) >>> 4 = y :=
  lift16_8 (P := fun x y => ((x ||| (y <<< 4)) &&& 0x70#8) >>> 4 = y) (by decide) x y hx hy
theorem or_lo7 (x y : Byte) (hx : x.toNat ≤ 15) (hy : y.toNat ≤ 7) : (x ||| (y <<< 4)) &&& 0x0f#8 = x :=
  lift16_8 (P := fun x y => (x ||| (y <<< 4)) &&& 0x0f#8 = x) (by decide) x y hx hy
theorem xor_lo7 (x y : Byte) (hx : x.toNat ≤ 15) (hy : y.toNat ≤ 7) : (x ^^^ (y <<< 4)) &&& 0x0f#8 = x :=
  lift16_8 (P := fun x y => (x ^^^ (y <<< 4)) &&& 0x0f#8 = x) (by decide) x y hx hy
/-- ForceRejoinReq second byte: retries | period << 3 -/
theorem or3_lo (x y : Byte) (hx : x.toNat ≤ 7) (hy : y.toNat ≤ 7) : (x ||| (y <<< 3)) &&& 7#8 = x :=
  lift8_8 (P := fun x y => (x ||| (y <<< 3)) &&& 7#8 = x) (by decide) x y hx hy
theorem or3_hi (x y : Byte) (hx : x.toNat ≤ 7) (hy : y.toNat ≤ 7) : ((x ||| (y <<< 3)) &&& 0x38#8) >>> 3 = y :=
  lift8_8 (P := fun x y => ((x ||| (y <<< 3)) &&& 0x38#8) >>> 3 = y) (by decide) x y hx hy

theorem and_0f_of_le (x : Byte) (h : x.toNat ≤ 15) : x &&& 0x0f#8 = x := by
  have : ∀ a : Fin 16, (BitVec.ofNat 8 a : Byte) &&& 0x0f#8 = BitVec.ofNat 8 a := by decide
  simpa using this ⟨x.toNat, by omega⟩
theorem and_7_of_le (x : Byte) (h : x.toNat ≤ 7) : x &&& 7#8 = x := by
  have : ∀ a : Fin 8, (BitVec.ofNat 8 a : Byte) &&& 7#8 = BitVec.ofNat 8 a := by decide
  simpa using this ⟨x.toNat, by omega⟩

/-! arithmetic reading of masks and shifts (all 256 bytes) -/
theorem toNat_and_0f (b : Byte) : (b &&& 0x0f#8).toNat = b.toNat % 16 := by revert b; decide
theorem toNat_hi4 (b : Byte) : ((b &&& 0xf0#8) >>> 4).toNat = b.toNat / 16 := by revert b; decide
theorem toNat_shr4 (b : Byte) : (b >>> 4).toNat = b.toNat / 16 := by revert b; decide
theorem toNat_hi3 (b : Byte) : ((b &&& 0x70#8) >>> 4).toNat = b.toNat / 16 % 8 := by revert b; decide
theorem toNat_and_7 (b : Byte) : (b &&& 7#8).toNat = b.toNat % 8 := by revert b; decide
theorem toNat_and_15 (b : Byte) : (b &&& 15#8).toNat = b.toNat % 16 := by revert b; decide
theorem toNat_mid3 (b : Byte) : ((b &&& 0x38#8) >>> 3).toNat = b.toNat / 8 % 8 := by revert b; decide
theorem toNat_and_3f (b : Byte) : (b &&& 0x3f#8).toNat = b.toNat % 64 := by revert b; decide
theorem toNat_and_3 (b : Byte) : (b &&& 3#8).toNat = b.toNat % 4 := by revert b; decide
theorem toNat_shr5 (b : Byte) : (b >>> 5).toNat = b.toNat / 32 := by revert b; decide
theorem bit_eq (b : Byte) (i : Nat) : bit b i = (b.toNat / 2 ^ i % 2 == 1) := by
  simp [bit, BitVec.getLsbD, Nat.testBit, Nat.shiftRight_eq_div_pow]

end LW.Bits
