/-
  LW.Proofs.FragRecover — recovery from coded fragments (C19): XOR-combining received fragments with coefficients `c`
  gives the fragment whose selection vector is the same combination of the received selection vectors
  (c · (V · R) = (c · V) · R over GF(2)); when that combination is a unit vector the result is a data fragment.
-/
import LW.Proofs.Frag
namespace LW.FragProofs
open LW Outcome

/-- the accumulating loop of `xorSelected` from an arbitrary start -/
def foldSel (acc : Bytes) (line : List Bool) (rows : List Bytes) : Bytes :=
  (line.zip rows).foldl (fun acc (p : Bool × Bytes) => if p.1 then xorBytes acc p.2 else acc) acc

theorem xorSelected_eq (size : Nat) (l : List Bool) (rows : List Bytes) : xorSelected size l rows = foldSel (zeros size) l rows := rfl

/-- selection vectors add pointwise (GF(2)) -/
def xorVec (a b : List Bool) : List Bool := List.zipWith Bool.xor a b

/-- the combination of the selection vectors `vs` chosen by `c` -/
def combVec (w : Nat) (c : List Bool) (vs : List (List Bool)) : List Bool :=
  (c.zip vs).foldl (fun acc (p : Bool × List Bool) => if p.1 then xorVec acc p.2 else acc) (List.replicate w false)

/-- the selection vector of data fragment j among w -/
def unitVec (w j : Nat) : List Bool := (List.replicate w false).set j true

theorem xorBytes_self (r : Bytes) : xorBytes r r = zeros r.length := by
  induction r with
  | nil => rfl
  | cons a as ih => simp only [xorBytes, ih, zeros, List.length_cons, List.replicate_succ, BitVec.xor_self]; rfl

theorem xorBytes_zeros_right (x : Bytes) (n : Nat) (h : x.length ≤ n) : xorBytes x (zeros n) = x := by
  induction x generalizing n with
  | nil => simp [xorBytes]
  | cons a as ih =>
    cases n with
    | zero => simp at h
    | succ n =>
      have := ih n (by simpa using h)
      simp only [zeros] at this
      simp only [zeros, List.replicate_succ, xorBytes, this]; simp

theorem xorBytes_zeros_left (x : Bytes) (n : Nat) (h : x.length ≤ n) : xorBytes (zeros n) x = x := by
  induction x generalizing n with
  | nil => cases n <;> simp [xorBytes, zeros, List.replicate_succ]
  | cons a as ih =>
    cases n with
    | zero => simp at h
    | succ n =>
      have := ih n (by simpa using h)
      simp only [zeros] at this
      simp only [zeros, List.replicate_succ, xorBytes, this]; simp

theorem foldSel_length (acc : Bytes) (l : List Bool) (rows : List Bytes) (size : Nat) (ha : acc.length = size)
    (hr : ∀ r ∈ rows, r.length = size) : (foldSel acc l rows).length = size := by
  induction l generalizing acc rows with
  | nil => simpa [foldSel] using ha
  | cons s ss ih =>
    cases rows with
    | nil => simpa [foldSel] using ha
    | cons r rs =>
      simp only [foldSel, List.zip_cons_cons, List.foldl_cons]
      have hr' : ∀ r ∈ rs, r.length = size := fun x hx => hr x (List.mem_cons_of_mem _ hx)
      cases s
      · exact ih acc rs ha hr'
      · exact ih _ rs (by simp [ha, hr r (List.mem_cons_self ..)]) hr'

/-- additivity of the loop in the selection vector -/
theorem foldSel_add (size : Nat) (a b : List Bool) (rows : List Bytes) (accA accB : Bytes) (hab : a.length = b.length)
    (hA : accA.length = size) (hB : accB.length = size) (hr : ∀ r ∈ rows, r.length = size) :
    foldSel (xorBytes accA accB) (xorVec a b) rows = xorBytes (foldSel accA a rows) (foldSel accB b rows) := by
  induction rows generalizing a b accA accB with
  | nil => simp [foldSel]
  | cons r rs ih =>
    have hr' : ∀ r ∈ rs, r.length = size := fun x hx => hr x (List.mem_cons_of_mem _ hx)
    have hrl : r.length = size := hr r (List.mem_cons_self ..)
    cases a with
    | nil =>
      cases b with
      | nil => simp [foldSel, xorVec]
      | cons _ _ => simp at hab
    | cons x xs =>
      cases b with
      | nil => simp at hab
      | cons y ys =>
        have hl : xs.length = ys.length := by simpa using hab
        simp only [foldSel, xorVec, List.zipWith_cons_cons, List.zip_cons_cons, List.foldl_cons]
        cases x <;> cases y <;> simp only [Bool.xor_false, Bool.xor_true, Bool.not_false, Bool.not_true, Bool.false_eq_true, if_false, if_true]
        · exact ih xs ys accA accB hl hA hB hr'
        · have e : xorBytes (xorBytes accA accB) r = xorBytes accA (xorBytes accB r) := by
            have := xor_interchange accA accB (zeros size) r
            rw [xorBytes_zeros_right accA size (by omega), xorBytes_zeros_left r size (by omega)] at this
            exact this
          rw [e]
          exact ih xs ys accA (xorBytes accB r) hl hA (by simp [hB, hrl]) hr'
        · have e : xorBytes (xorBytes accA accB) r = xorBytes (xorBytes accA r) accB := by
            have := xor_interchange accA accB r (zeros size)
            rw [xorBytes_zeros_right accB size (by omega), xorBytes_zeros_right r size (by omega)] at this
            exact this
          rw [e]
          exact ih xs ys (xorBytes accA r) accB hl (by simp [hA, hrl]) hB hr'
        · have e : xorBytes accA accB = xorBytes (xorBytes accA r) (xorBytes accB r) := by
            rw [xor_interchange, xorBytes_self, hrl, xorBytes_zeros_right _ size (by simp [hA, hB])]
          rw [e]
          exact ih xs ys (xorBytes accA r) (xorBytes accB r) hl (by simp [hA, hrl]) (by simp [hB, hrl]) hr'

theorem foldSel_false (acc : Bytes) (w : Nat) (rows : List Bytes) : foldSel acc (List.replicate w false) rows = acc := by
  induction rows generalizing w with
  | nil => simp [foldSel]
  | cons r rs ih =>
    cases w with
    | zero => simp [foldSel]
    | succ w =>
      simp only [foldSel, List.replicate_succ, List.zip_cons_cons, List.foldl_cons, Bool.false_eq_true, if_false]
      exact ih w

theorem xorSelected_add (size : Nat) (a b : List Bool) (rows : List Bytes) (hab : a.length = b.length)
    (hr : ∀ r ∈ rows, r.length = size) :
    xorSelected size (xorVec a b) rows = xorBytes (xorSelected size a rows) (xorSelected size b rows) := by
  have := foldSel_add size a b rows (zeros size) (zeros size) hab (by simp [zeros]) (by simp [zeros]) hr
  rw [zeros_xor] at this
  exact this

theorem xorVec_length (a b : List Bool) (h : a.length = b.length) : (xorVec a b).length = a.length := by
  simp [xorVec, h]

/-- c · (V · R) = (c · V) · R, from an arbitrary accumulated vector -/
theorem comb_fold (size w : Nat) (rows : List Bytes) (hr : ∀ r ∈ rows, r.length = size)
    (c : List Bool) (vs : List (List Bool)) (hv : ∀ v ∈ vs, v.length = w) (accV : List Bool) (ha : accV.length = w) :
    foldSel (xorSelected size accV rows) c (vs.map (fun v => xorSelected size v rows)) =
      xorSelected size ((c.zip vs).foldl (fun acc (p : Bool × List Bool) => if p.1 then xorVec acc p.2 else acc) accV) rows := by
  induction c generalizing vs accV with
  | nil => simp [foldSel]
  | cons s ss ih =>
    cases vs with
    | nil => simp [foldSel]
    | cons v vr =>
      have hv' : ∀ v ∈ vr, v.length = w := fun x hx => hv x (List.mem_cons_of_mem _ hx)
      have hvl : v.length = w := hv v (List.mem_cons_self ..)
      simp only [foldSel, List.map_cons, List.zip_cons_cons, List.foldl_cons]
      cases s
      · simp only [Bool.false_eq_true, if_false]
        exact ih vr hv' accV ha
      · simp only [if_true]
        rw [← xorSelected_add size accV v rows (by omega) hr]
        exact ih vr hv' (xorVec accV v) (by rw [xorVec_length _ _ (by omega)]; exact ha)

/-- XOR-combining coded fragments gives the coded fragment of the combined selection vector -/
theorem comb_assoc (size w : Nat) (rows : List Bytes) (hr : ∀ r ∈ rows, r.length = size)
    (c : List Bool) (vs : List (List Bool)) (hv : ∀ v ∈ vs, v.length = w) :
    xorSelected size c (vs.map (fun v => xorSelected size v rows)) = xorSelected size (combVec w c vs) rows := by
  have := comb_fold size w rows hr c vs hv (List.replicate w false) (by simp)
  rw [xorSelected_eq size (List.replicate w false), foldSel_false] at this
  exact this

/-- the unit vector selects exactly its data fragment -/
theorem foldSel_unit (acc : Bytes) (w j : Nat) (rows : List Bytes) (r : Bytes) (hj : rows[j]? = some r) (hw : rows.length ≤ w) :
    foldSel acc (unitVec w j) rows = xorBytes acc r := by
  induction rows generalizing w j with
  | nil => simp at hj
  | cons x xs ih =>
    cases w with
    | zero => simp at hw
    | succ w =>
      cases j with
      | zero =>
        simp only [List.getElem?_cons_zero, Option.some.injEq] at hj
        subst hj
        simp only [unitVec, List.replicate_succ, List.set_cons_zero, foldSel, List.zip_cons_cons, List.foldl_cons, if_true]
        exact foldSel_false _ w xs
      | succ j =>
        simp only [List.getElem?_cons_succ] at hj
        simp only [unitVec, List.replicate_succ, List.set_cons_succ, foldSel, List.zip_cons_cons, List.foldl_cons, Bool.false_eq_true, if_false]
        exact ih w j hj (by simpa using hw)

theorem xorSelected_unit (size w j : Nat) (rows : List Bytes) (r : Bytes) (hj : rows[j]? = some r) (hw : rows.length ≤ w)
    (hl : r.length = size) : xorSelected size (unitVec w j) rows = r := by
  rw [xorSelected_eq, foldSel_unit _ w j rows r hj hw, xorBytes_zeros_left r size (by omega)]

/-- the recovery certificate: if the combination `c` of the received selection vectors is the unit vector of data fragment
j, the same combination of the received fragments IS data fragment j -/
theorem recover (size w : Nat) (rows : List Bytes) (hw : rows.length = w) (hr : ∀ r ∈ rows, r.length = size)
    (c : List Bool) (vs : List (List Bool)) (hv : ∀ v ∈ vs, v.length = w) (j : Nat) (r : Bytes) (hj : rows[j]? = some r)
    (hc : combVec w c vs = unitVec w j) :
    xorSelected size c (vs.map (fun v => xorSelected size v rows)) = r := by
  rw [comb_assoc size w rows hr c vs hv, hc]
  exact xorSelected_unit size w j rows r hj (by omega) (hr r (List.mem_of_getElem? hj))

/-! ### the fragments the encoder hands out -/

/-- the selection vector of fragment t (0-based) of an encoding of w data fragments -/
def selOf (line : Nat → Nat → Option (List Bool)) (w t : Nat) : Option (List Bool) :=
  if t < w then some (unitVec w t) else line (t - w + 1) w

theorem unitVec_length (w j : Nat) : (unitVec w j).length = w := by simp [unitVec]

theorem rowsOf_row_length (k size : Nat) (data : Bytes) (h : data.length = k * size) : ∀ r ∈ rowsOf k size data, r.length = size := by
  induction k generalizing data with
  | zero => intro r hr; simp [rowsOf] at hr
  | succ k ih =>
    intro r hr
    simp only [rowsOf, List.mem_cons] at hr
    rcases hr with rfl | hr
    · rw [List.length_take, h, Nat.succ_mul]; omega
    · exact ih (data.drop size) (by rw [List.length_drop, h, Nat.succ_mul]; omega) r hr

/-- every fragment of a successful encoding is the XOR of the data fragments its selection vector names -/
theorem encode_fragment (line : Nat → Nat → Option (List Bool)) (data : Bytes) (size red : Int) (out : List Bytes)
    (h : encodeWith line data size red = ok out) (t : Nat) (f : Bytes) (hf : out[t]? = some f) :
    ∃ v, selOf line (data.length / size.toNat) t = some v ∧
      f = xorSelected size.toNat v (rowsOf (data.length / size.toNat) size.toNat data) := by
  obtain ⟨hs, hd, parity, rfl, hpl, hp⟩ := encode_structure line data size red out h
  have hdl : data.length = data.length / size.toNat * size.toNat := by
    have := Nat.div_add_mod data.length size.toNat
    rw [hd] at this; rw [Nat.mul_comm]; omega
  have hrl := rowsOf_length (data.length / size.toNat) size.toNat data
  by_cases ht : t < data.length / size.toNat
  · refine ⟨unitVec (data.length / size.toNat) t, by simp [selOf, ht], ?_⟩
    rw [List.getElem?_append_left (by omega)] at hf
    exact (xorSelected_unit size.toNat _ t _ f hf (by omega) (rowsOf_row_length _ _ data hdl f (List.mem_of_getElem? hf))).symm
  · rw [List.getElem?_append_right (by omega), hrl] at hf
    have hty : t - data.length / size.toNat < red.toNat := by
      have := (List.getElem?_eq_some_iff.mp hf).1; omega
    obtain ⟨l, hl, hpy⟩ := hp _ hty
    refine ⟨l, by simp [selOf, ht, hl], ?_⟩
    rw [hpy] at hf
    exact (Option.some.inj hf).symm

theorem matrixLine_go_length (fuel m md : Nat) (k x : Nat) (line l : List Bool) (h : matrixLine.go fuel m md k x line = some l) :
    l.length = line.length := by
  induction k generalizing x line with
  | zero => simp only [matrixLine.go] at h; cases h; rfl
  | succ k ih =>
    simp only [matrixLine.go] at h
    split at h
    · rename_i x' r _
      rw [ih x' _ h]; simp
    · contradiction

theorem matrixLine_length (fuel n m : Nat) (l : List Bool) (h : matrixLine fuel n m = some l) : l.length = m := by
  unfold matrixLine at h
  rw [matrixLine_go_length _ _ _ _ _ _ _ h]; simp

end LW.FragProofs
