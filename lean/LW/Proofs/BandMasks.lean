/-
  LW.Proofs.BandMasks — the channel-mask CFList a band offers is exactly its enabled channels (C15).
-/
import LW.Model.Band
namespace LW.BandMasks
open LW

/-- the sum the mask loop accumulates over the first n channels -/
def maskSum (cs : List Channel) (n : Nat) : Nat :=
  (List.range n).foldl (fun acc i => if (cs.getD i default).enabled then acc + 2 ^ i else acc) 0

theorem maskSum_succ (cs : List Channel) (n : Nat) :
    maskSum cs (n + 1) = if (cs.getD n default).enabled then maskSum cs n + 2 ^ n else maskSum cs n := by
  simp [maskSum, List.range_succ, List.foldl_append]

theorem maskSum_lt (cs : List Channel) (n : Nat) : maskSum cs n < 2 ^ n := by
  induction n with
  | zero => simp [maskSum]
  | succ n ih =>
    rw [maskSum_succ, Nat.pow_succ]
    split <;> omega

theorem maskSum_testBit (cs : List Channel) (n k : Nat) :
    (maskSum cs n).testBit k = (decide (k < n) && (cs.getD k default).enabled) := by
  induction n with
  | zero => simp [maskSum]
  | succ n ih =>
    rw [maskSum_succ]
    have hlt := maskSum_lt cs n
    by_cases hk : k < n
    · have h1 : decide (k < n + 1) = true := by simp; omega
      split
      · rw [Nat.add_comm, Nat.testBit_two_pow_add_gt hk, ih]; simp [hk, h1]
      · rw [ih]; simp [hk, h1]
    · by_cases hkn : k = n
      · subst hkn
        split
        · rename_i he
          rw [Nat.add_comm, Nat.testBit_two_pow_add_eq, Nat.testBit_lt_two_pow hlt]; simp at he; simp [he]
        · rename_i he
          rw [Nat.testBit_lt_two_pow hlt]; simp at he; simp [he]
      · have hgt : n + 1 ≤ k := by omega
        have hb : (if (cs.getD n default).enabled then maskSum cs n + 2 ^ n else maskSum cs n) < 2 ^ (n + 1) := by
          rw [Nat.pow_succ]; split <;> omega
        rw [Nat.testBit_lt_two_pow (Nat.lt_of_lt_of_le hb (Nat.pow_le_pow_right (by omega) hgt))]
        have : decide (k < n + 1) = false := by simp; omega
        simp [this]

/-- bit i of the mask of a block = "channel i of the block is enabled" -/
theorem maskOf_bit (cs : List Channel) (hl : cs.length ≤ 16) (i : Nat) (hi : i < 16) :
    (maskOf cs).getLsbD i = (decide (i < cs.length) && (cs.getD i default).enabled) := by
  unfold maskOf
  have : (List.range cs.length).foldl (fun acc i => if (cs.getD i default).enabled then acc + 2 ^ i else acc) 0 = maskSum cs cs.length := rfl
  rw [this, BitVec.getLsbD_ofNat, maskSum_testBit]
  simp [hi]

theorem chunks16_get (fuel : Nat) (l : List Channel) (j : Nat) (hj : 16 * j < l.length) (hf : j < fuel) :
    (chunks16 fuel l)[j]? = some ((l.drop (16 * j)).take 16) := by
  induction fuel generalizing l j with
  | zero => omega
  | succ fuel ih =>
    have hne : l.isEmpty = false := by
      cases l with
      | nil => simp at hj
      | cons _ _ => rfl
    simp only [chunks16, hne, Bool.false_eq_true, if_false]
    cases j with
    | zero => simp
    | succ j =>
      rw [List.getElem?_cons_succ, ih (l.drop 16) j (by rw [List.length_drop]; omega) (by omega), List.drop_drop]
      have : 16 + 16 * j = 16 * (j + 1) := by omega
      rw [this]

/-- C15: the channel-mask CFList is exactly the enabled channels — bit i of mask j is set iff uplink channel 16·j + i exists and is
enabled; type 1 -/
theorem cflist_masks_exact (b : BandState) (l : CFList) (h : b.cfListMasks = some l) :
    l.typ = 1 ∧ ∃ ms, l.payload = .masks ms ∧
      ∀ j i, i < 16 → 16 * j + i < b.up.length →
        ∃ m, ms[j]? = some m ∧ m.getLsbD i = (b.up.getD (16 * j + i) default).enabled := by
  simp only [BandState.cfListMasks, Option.some.injEq] at h
  subst h
  refine ⟨rfl, _, rfl, ?_⟩
  intro j i hi hlt
  have hj : 16 * j < b.up.length := by omega
  have hc := chunks16_get (b.up.length + 1) b.up j hj (by omega)
  have hne : ((chunks16 (b.up.length + 1) b.up).map maskOf).isEmpty = false := by
    cases hcs : chunks16 (b.up.length + 1) b.up with
    | nil => rw [hcs] at hc; simp at hc
    | cons _ _ => rfl
  simp only [hne, Bool.false_eq_true, if_false]
  refine ⟨maskOf ((b.up.drop (16 * j)).take 16), by rw [List.getElem?_map, hc]; rfl, ?_⟩
  rw [maskOf_bit _ (by simp; omega) i hi]
  have hlen : i < ((b.up.drop (16 * j)).take 16).length := by simp; omega
  simp only [hlen, decide_true, Bool.true_and]
  congr 1
  simp only [List.getD_eq_getElem?_getD]
  rw [List.getElem?_take_of_lt hi, List.getElem?_drop]
end LW.BandMasks
