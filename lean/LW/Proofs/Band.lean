/-
  LW.Proofs.Band — unbounded facts about the band accessors (helpers for C12 / C15).
-/
import LW.Spec.BandChecks
import LW.Generated.BandData
namespace LW.BandProofs
open LW LW.Spec Outcome

theorem idxInt_ok {α} (l : List α) (i : Int) (h0 : ¬ i < 0) (h1 : ¬ i > (l.length : Int) - 1) : ∃ a, idxInt l i = ok a := by
  simp only [idxInt, h0, if_false]
  have : i.toNat < l.length := by omega
  rw [List.getElem?_eq_getElem this]
  exact ⟨_, rfl⟩

theorem generic_total (c : BandCfg) (dr off : Int) : c.getRX1DRGeneric dr off ≠ panic := by
  simp only [BandCfg.getRX1DRGeneric]
  split
  · simp
  · rename_i row _
    split
    · simp
    · rename_i h
      have h0 : ¬ off < 0 := fun hx => h (Or.inl hx)
      have h1 : ¬ off > (row.length : Int) - 1 := fun hx => h (Or.inr hx)
      obtain ⟨a, ha⟩ := idxInt_ok row off h0 h1
      rw [ha]; simp

theorem as923_total (dw : Nat) (dr off : Int) : as923RX1DR dw dr off ≠ panic := by
  simp only [as923RX1DR]
  split <;> try simp
  split <;> simp

/-- invalid data-rates or offsets (any integers, negative included) give a value or an error, never a panic -/
theorem rx1dr_total (c : BandCfg) (dr off : Int) : c.getRX1DR dr off ≠ panic := by
  simp only [BandCfg.getRX1DR]
  split
  · exact as923_total _ _ _
  · exact generic_total _ _ _

theorem tmod_tdiv_nonneg (a : Nat) (t : Int) (ht : 0 ≤ t) :
    Int.tmod ((a : Int) + beaconPeriod t) 8 = pingSlotChannel a t := by
  simp only [beaconPeriod, pingSlotChannel]
  have h1 : Int.tdiv t 128000000000 = t / 128000000000 := Int.tdiv_eq_ediv_of_nonneg ht
  rw [h1]
  have h2 : 0 ≤ (a : Int) + t / 128000000000 := by
    have : 0 ≤ t / 128000000000 := Int.ediv_nonneg ht (by decide)
    omega
  exact Int.tmod_eq_emod_of_nonneg h2

theorem ok_inj' {α} {a b : α} (h : (ok a : Outcome α) = ok b) : a = b := by injection h

/-- the immutable part of a channel -/
def chStatic (c : Channel) : Nat × Int × Int × Bool := (c.freq, c.minDR, c.maxDR, c.custom)

inductive BandOp where
  | add (f : Nat) (mn mx : Int)
  | disable (i : Int)
  | enable (i : Int)
  deriving Repr, DecidableEq

/-- one operation on a band; an operation that reports an error leaves the band unchanged -/
def step (b : BandState) : BandOp → BandState
  | .add f mn mx => match b.addChannel f mn mx with | .ok b' => b' | _ => b
  | .disable i => match b.setUplinkEnabled i false with | .ok b' => b' | _ => b
  | .enable i => match b.setUplinkEnabled i true with | .ok b' => b' | _ => b

def run (b : BandState) (ops : List BandOp) : BandState := ops.foldl step b

theorem setEnabled_static (l : List Channel) (i : Nat) (v : Bool) : (setEnabled l i v).map chStatic = l.map chStatic := by
  unfold setEnabled
  split
  · rename_i c hc
    have hi : i < l.length := by
      rcases Nat.lt_or_ge i l.length with h | h
      · exact h
      · rw [List.getElem?_eq_none h] at hc; contradiction
    apply List.ext_getElem?
    intro n
    simp only [List.getElem?_map, List.getElem?_set]
    by_cases hn : i = n
    · subst hn
      have hg : l[i] = c := by
        have := List.getElem?_eq_getElem hi
        rw [hc] at this; exact (Option.some.inj this).symm
      simp [hi, chStatic, hg]
    · simp [hn]
  · rfl

theorem setEnabled_length (l : List Channel) (i : Nat) (v : Bool) : (setEnabled l i v).length = l.length := by
  unfold setEnabled; split <;> simp

/-- Invariant: the channel list is the configuration's standard channels (frequency, DR range and custom flag untouched,
in order) followed by custom channels; the configuration never changes. -/
def Inv (c : BandCfg) (b : BandState) : Prop :=
  b.cfg = c ∧ ∃ extra : List Channel, b.up.map chStatic = c.up.map chStatic ++ extra.map chStatic ∧ ∀ e ∈ extra, e.custom = true

theorem inv_init (c : BandCfg) : Inv c c.init := ⟨rfl, [], by simp [BandCfg.init], by simp⟩

theorem inv_step (c : BandCfg) (b : BandState) (op : BandOp) (h : Inv c b) : Inv c (step b op) := by
  obtain ⟨hc, extra, hs, he⟩ := h
  cases op with
  | add f mn mx =>
    simp only [step, BandState.addChannel]
    by_cases hx : (!b.cfg.supportsExtra) = true
    · simp only [hx, if_true]; exact ⟨hc, extra, hs, he⟩
    · simp only [hx, if_false, Bool.false_eq_true]
      refine ⟨hc, extra ++ [{ freq := f, minDR := mn, maxDR := mx, custom := true, enabled := f != 0 }], ?_, ?_⟩
      · simp only [List.map_append, hs, List.append_assoc]
      · intro e hmem
        rcases List.mem_append.mp hmem with h1 | h1
        · exact he e h1
        · simp at h1; subst h1; rfl
  | disable i =>
    simp only [step, BandState.setUplinkEnabled]
    by_cases hx : i < 0 ∨ i > (b.up.length : Int) - 1
    · simp only [hx, if_true]; exact ⟨hc, extra, hs, he⟩
    · simp only [hx, if_false]
      exact ⟨hc, extra, by simp only [setEnabled_static]; exact hs, he⟩
  | enable i =>
    simp only [step, BandState.setUplinkEnabled]
    by_cases hx : i < 0 ∨ i > (b.up.length : Int) - 1
    · simp only [hx, if_true]; exact ⟨hc, extra, hs, he⟩
    · simp only [hx, if_false]
      exact ⟨hc, extra, by simp only [setEnabled_static]; exact hs, he⟩

/-- the invariant holds after ANY sequence of operations, of any length, with arbitrary integer arguments -/
theorem inv_run (c : BandCfg) (ops : List BandOp) : Inv c (run c.init ops) := by
  suffices h : ∀ b, Inv c b → Inv c (run b ops) from h _ (inv_init c)
  induction ops with
  | nil => intro b hb; exact hb
  | cons op ops ih => intro b hb; exact ih _ (inv_step c b op hb)

/-- the downlink channel list only grows (AddChannel appends; enabling / disabling touches uplink channels only) -/
theorem step_down_len (b : BandState) (op : BandOp) : b.down.length ≤ (step b op).down.length := by
  cases op with
  | add f mn mx =>
    simp only [step, BandState.addChannel]
    split
    · rename_i b' heq
      split at heq
      · cases heq
      · injection heq with heq; subst heq; simp
    · exact Nat.le_refl _
  | disable i =>
    simp only [step, BandState.setUplinkEnabled]
    split
    · rename_i b' heq
      split at heq
      · cases heq
      · injection heq with heq; subst heq; simp
    · exact Nat.le_refl _
  | enable i =>
    simp only [step, BandState.setUplinkEnabled]
    split
    · rename_i b' heq
      split at heq
      · cases heq
      · injection heq with heq; subst heq; simp
    · exact Nat.le_refl _

theorem run_down_len (b : BandState) (ops : List BandOp) : b.down.length ≤ (run b ops).down.length := by
  induction ops generalizing b with
  | nil => exact Nat.le_refl _
  | cons op ops ih => exact Nat.le_trans (step_down_len b op) (ih (step b op))

/-- `idxInt` with an index inside the list does not panic -/
theorem idxInt_ne_panic {α} (l : List α) (i : Int) (h0 : 0 ≤ i) (h1 : i < (l.length : Int)) : idxInt l i ≠ panic := by
  obtain ⟨a, ha⟩ := idxInt_ok l i (by omega) (by omega)
  rw [ha]; intro h; cases h

/-! index sets -/

theorem mem_indicesWhere (l : List Channel) (p : Channel → Bool) (i : Int) :
    i ∈ indicesWhere l p ↔ ∃ n : Nat, i = (n : Int) ∧ ∃ ch, l[n]? = some ch ∧ p ch = true := by
  simp only [indicesWhere, List.mem_filterMap, List.mem_range]
  constructor
  · rintro ⟨n, hn, h⟩
    cases hl : l[n]? with
    | none => simp [hl] at h
    | some ch =>
      simp only [hl] at h
      split at h
      · rename_i hp; cases h; exact ⟨n, rfl, ch, hl, hp⟩
      · contradiction
  · rintro ⟨n, rfl, ch, hl, hp⟩
    have hn : n < l.length := by
      rcases Nat.lt_or_ge n l.length with h | h
      · exact h
      · rw [List.getElem?_eq_none h] at hl; contradiction
    exact ⟨n, hn, by simp [hl, hp]⟩

/-- enabled and disabled partition all channels -/
theorem partition_enabled (b : BandState) (i : Int) :
    (i ∈ b.allIdx ↔ (i ∈ b.enabledIdx ∨ i ∈ b.disabledIdx)) ∧ ¬ (i ∈ b.enabledIdx ∧ i ∈ b.disabledIdx) := by
  simp only [BandState.allIdx, BandState.enabledIdx, BandState.disabledIdx, mem_indicesWhere]
  constructor
  · constructor
    · rintro ⟨n, rfl, ch, hl, _⟩
      cases he : ch.enabled
      · exact Or.inr ⟨n, rfl, ch, hl, by simp [he]⟩
      · exact Or.inl ⟨n, rfl, ch, hl, he⟩
    · rintro (⟨n, rfl, ch, hl, _⟩ | ⟨n, rfl, ch, hl, _⟩) <;> exact ⟨n, rfl, ch, hl, trivial⟩
  · rintro ⟨⟨n, hn, ch, hl, he⟩, ⟨m, hm, ch', hl', hd⟩⟩
    have : n = m := by omega
    subst this
    rw [hl] at hl'; cases hl'
    simp [he] at hd

/-- standard and custom partition all channels -/
theorem partition_custom (b : BandState) (i : Int) :
    (i ∈ b.allIdx ↔ (i ∈ b.stdIdx ∨ i ∈ b.customIdx)) ∧ ¬ (i ∈ b.stdIdx ∧ i ∈ b.customIdx) := by
  simp only [BandState.allIdx, BandState.stdIdx, BandState.customIdx, mem_indicesWhere]
  constructor
  · constructor
    · rintro ⟨n, rfl, ch, hl, _⟩
      cases he : ch.custom
      · exact Or.inl ⟨n, rfl, ch, hl, by simp [he]⟩
      · exact Or.inr ⟨n, rfl, ch, hl, he⟩
    · rintro (⟨n, rfl, ch, hl, _⟩ | ⟨n, rfl, ch, hl, _⟩) <;> exact ⟨n, rfl, ch, hl, trivial⟩
  · rintro ⟨⟨n, hn, ch, hl, he⟩, ⟨m, hm, ch', hl', hd⟩⟩
    have : n = m := by omega
    subst this
    rw [hl] at hl'; cases hl'
    simp [hd] at he

/-! lookups return an index whose channel matches -/

theorem findIdx_some {α} (l : List α) (p : α → Bool) (i : Nat) (h : l.findIdx? p = some i) : ∃ a, l[i]? = some a ∧ p a = true := by
  rw [List.findIdx?_eq_some_iff_getElem] at h
  obtain ⟨hi, hp, _⟩ := h
  exact ⟨l[i], List.getElem?_eq_getElem hi, hp⟩

theorem lookup_freq_sound (b : BandState) (f : Nat) (d : Bool) (i : Int) (h : b.getUplinkChannelIndex f d = ok i) :
    ∃ n : Nat, i = n ∧ ∃ ch, b.up[n]? = some ch ∧ ch.freq = f ∧ ch.custom = !d := by
  simp only [BandState.getUplinkChannelIndex] at h
  split at h
  · rename_i n hn
    cases ok_inj' h
    obtain ⟨ch, hl, hp⟩ := findIdx_some _ _ _ hn
    simp only [Bool.and_eq_true, beq_iff_eq, bne_iff_ne, ne_eq] at hp
    refine ⟨n, rfl, ch, hl, hp.1, ?_⟩
    cases hc : ch.custom <;> cases d <;> simp_all
  · contradiction

theorem getUplinkChannel_ok (b : BandState) (i : Int) (ch : Channel) (h : b.getUplinkChannel i = ok ch) :
    0 ≤ i ∧ b.up[i.toNat]? = some ch := by
  simp only [BandState.getUplinkChannel] at h
  split at h
  · contradiction
  · rename_i hx
    simp only [idxInt] at h
    have h0 : ¬ i < 0 := fun hh => hx (Or.inl hh)
    simp only [h0, if_false] at h
    split at h
    · rename_i a ha; cases ok_inj' h; exact ⟨by omega, ha⟩
    · contradiction

theorem lookup_freq_dr_sound (b : BandState) (f : Nat) (dr : Int) (i : Int) (h : b.getUplinkChannelIndexForFrequencyDR f dr = ok i) :
    ∃ ch, 0 ≤ i ∧ b.up[i.toNat]? = some ch ∧ ch.freq = f ∧ ch.minDR ≤ dr ∧ dr ≤ ch.maxDR := by
  have key : ∀ dflt : Bool, ∀ j : Int,
      (match b.getUplinkChannelIndex f dflt with
       | .ok i => (match b.getUplinkChannel i with
         | .ok c => if c.minDR ≤ dr ∧ c.maxDR ≥ dr then some i else none
         | _ => none)
       | _ => none) = some j →
      ∃ ch, 0 ≤ j ∧ b.up[j.toNat]? = some ch ∧ ch.freq = f ∧ ch.minDR ≤ dr ∧ dr ≤ ch.maxDR := by
    intro dflt j hj
    cases h1 : b.getUplinkChannelIndex f dflt with
    | err => simp [h1] at hj
    | panic => simp [h1] at hj
    | ok k =>
      simp only [h1] at hj
      cases h2 : b.getUplinkChannel k with
      | err => simp [h2] at hj
      | panic => simp [h2] at hj
      | ok c =>
        simp only [h2] at hj
        split at hj
        · rename_i hr
          have hjk : k = j := by injection hj
          subst hjk
          obtain ⟨h0, hl⟩ := getUplinkChannel_ok b k c h2
          obtain ⟨n, hn, ch2, hl2, hf, _⟩ := lookup_freq_sound b f dflt k h1
          subst hn
          simp only [Int.toNat_natCast] at hl
          have hcc : ch2 = c := Option.some.inj (hl2.symm.trans hl)
          subst hcc
          exact ⟨ch2, h0, by simpa using hl2, hf, hr.1, hr.2⟩
        · contradiction
  simp only [BandState.getUplinkChannelIndexForFrequencyDR] at h
  split at h
  · rename_i j hj; cases ok_inj' h; exact key true _ hj
  · split at h
    · rename_i j hj; cases ok_inj' h; exact key false _ hj
    · contradiction

/-! out-of-range or negative indices are errors, never panics -/

theorem getUplinkChannel_total (b : BandState) (i : Int) : b.getUplinkChannel i ≠ panic := by
  simp only [BandState.getUplinkChannel]
  split
  · simp
  · rename_i hx
    obtain ⟨a, ha⟩ := idxInt_ok b.up i (fun h => hx (Or.inl h)) (fun h => hx (Or.inr h))
    rw [ha]; simp

theorem getDownlinkChannel_total (b : BandState) (i : Int) : b.getDownlinkChannel i ≠ panic := by
  simp only [BandState.getDownlinkChannel]
  split
  · simp
  · rename_i hx
    obtain ⟨a, ha⟩ := idxInt_ok b.down i (fun h => hx (Or.inl h)) (fun h => hx (Or.inr h))
    rw [ha]; simp

theorem setEnabled_total (b : BandState) (i : Int) (v : Bool) : b.setUplinkEnabled i v ≠ panic := by
  simp only [BandState.setUplinkEnabled]; split <;> simp

theorem addChannel_total (b : BandState) (f : Nat) (mn mx : Int) : b.addChannel f mn mx ≠ panic := by
  simp only [BandState.addChannel]; split <;> simp

theorem txPower_total (c : BandCfg) (i : Int) : c.getTXPowerOffset i ≠ panic := by
  simp only [BandCfg.getTXPowerOffset]
  split
  · simp
  · rename_i hx
    obtain ⟨a, ha⟩ := idxInt_ok c.txPower i (fun h => hx (Or.inl h)) (fun h => hx (Or.inr h))
    rw [ha]; simp

theorem lookup_total (b : BandState) (f : Nat) (d : Bool) : b.getUplinkChannelIndex f d ≠ panic := by
  simp only [BandState.getUplinkChannelIndex]; split <;> simp

/-! CFList content -/

/-- the channel-list CFList holds only frequencies of custom channels (or 0 padding), at most five -/
theorem cflist_channels_custom (b : BandState) (l : CFList) (h : b.cfListChannels = some l) :
    ∃ fs, l.payload = .channels fs ∧ fs.length = 5 ∧ l.typ = 0 ∧
      ∀ f ∈ fs, f = 0 ∨ ∃ ch ∈ b.up, ch.custom = true ∧ f = BitVec.ofNat 32 ch.freq := by
  simp only [BandState.cfListChannels] at h
  split at h
  · contradiction
  · cases h
    refine ⟨_, rfl, ?_, rfl, ?_⟩
    · simp only [List.length_append, List.length_map, List.length_take, List.length_replicate]
      omega
    · intro f hf
      rcases List.mem_append.mp hf with h1 | h1
      · right
        obtain ⟨ch, hch, rfl⟩ := List.mem_map.mp h1
        have h2 := List.mem_of_mem_take hch
        have h3 := List.mem_filter.mp h2
        have h4 := h3.2
        simp only [Bool.and_eq_true] at h4
        exact ⟨ch, h3.1, h4.1.1, rfl⟩
      · left; exact (List.mem_replicate.mp h1).2

end LW.BandProofs
