/-
  LW.Proofs.Layout — the frame encoder produces exactly the bytes of the layout tables (C06, frame level).
-/
import LW.Spec.Layout
import LW.Proofs.FrameRT
import LW.Proofs.MacSpec

namespace LW.LayoutProofs
open LW Outcome

theorem leBytes_append (a b x y : Nat) (hx : x < 256 ^ a) : leBytes (a + b) (x + 256 ^ a * y) = leBytes a x ++ leBytes b y := by
  induction a generalizing x with
  | zero =>
    have : x = 0 := by simpa using hx
    subst this; simp [leBytes]
  | succ a ih =>
    have e : a + 1 + b = (a + b) + 1 := by omega
    rw [e]
    simp only [leBytes, List.cons_append]
    have hp : 256 ^ (a + 1) = 256 * 256 ^ a := by rw [Nat.pow_succ]; omega
    have hq : 256 ^ (a + 1) * y = 256 * (256 ^ a * y) := by rw [hp, Nat.mul_assoc]
    rw [hq]
    have h1 : (x + 256 * (256 ^ a * y)) % 256 = x % 256 := by omega
    have h2 : (x + 256 * (256 ^ a * y)) / 256 = x / 256 + 256 ^ a * y := by omega
    rw [h1, h2, ih (x / 256) (by rw [hp] at hx; omega)]

theorem leBytes_mod (n x : Nat) : leBytes n (x % 256 ^ n) = leBytes n x := by
  induction n generalizing x with
  | zero => rfl
  | succ n ih =>
    simp only [leBytes]
    have hp : 256 ^ (n + 1) = 256 * 256 ^ n := by rw [Nat.pow_succ]; omega
    have h1 : x % 256 ^ (n + 1) % 256 = x % 256 := by
      rw [hp]; exact Nat.mod_mul_right_mod x 256 (256 ^ n)
    have h2 : x % 256 ^ (n + 1) / 256 = x / 256 % 256 ^ n := by
      rw [hp]; exact Nat.mod_mul_right_div_self x 256 (256 ^ n)
    rw [h1, h2, ih]

/-- the FCtrl byte as the layout prescribes it -/
theorem fctrl_pack : ∀ (adr aar ack fp cb : Bool) (l : Fin 16),
    FCtrl.enc { adr := adr, adrAckReq := aar, ack := ack, fPending := fp, classB := cb, fOptsLen := BitVec.ofNat 8 l.val } =
      ok (byteOfNat (l.val + 16 * Spec.b2n (cb || fp) + 32 * Spec.b2n ack + 64 * Spec.b2n aar + 128 * Spec.b2n adr)) := by decide

theorem mhdr_pack : ∀ (mt : Fin 8) (mj : Fin 4), [mhdrEnc (BitVec.ofNat 8 mt.val) (BitVec.ofNat 8 mj.val)] = Spec.pack 1 Spec.mhdrLayout [mt.val, mj.val] := by decide

theorem b2n_lt (b : Bool) : Spec.b2n b < 2 := by cases b <;> simp [Spec.b2n]

/-- the seven fixed FHDR bytes: one little-endian integer with the fields at their bit offsets = DevAddr | FCtrl | FCnt -/
theorem fhdr_pack (addr fcnt : BitVec 32) (adr aar ack p : Bool) (l : Nat) (hl : l ≤ 15) :
    Spec.pack 7 Spec.fhdrLayout [addr.toNat, l, Spec.b2n p, Spec.b2n ack, Spec.b2n aar, Spec.b2n adr, fcnt.toNat] =
      leBytes 4 addr.toNat ++ [byteOfNat (l + 16 * Spec.b2n p + 32 * Spec.b2n ack + 64 * Spec.b2n aar + 128 * Spec.b2n adr)] ++ leBytes 2 fcnt.toNat := by
  have ha := addr.isLt
  have h1 := b2n_lt p; have h2 := b2n_lt ack; have h3 := b2n_lt aar; have h4 := b2n_lt adr
  simp only [Spec.pack, Spec.fhdrLayout, Spec.packNat]
  have e : addr.toNat % 2 ^ 32 * 2 ^ 0 + (l % 2 ^ 4 * 2 ^ 32 + (Spec.b2n p % 2 ^ 1 * 2 ^ 36 + (Spec.b2n ack % 2 ^ 1 * 2 ^ 37 + (Spec.b2n aar % 2 ^ 1 * 2 ^ 38 +
        (Spec.b2n adr % 2 ^ 1 * 2 ^ 39 + (fcnt.toNat % 2 ^ 16 * 2 ^ 40 + 0))))))
      = addr.toNat + 256 ^ 4 * ((l + 16 * Spec.b2n p + 32 * Spec.b2n ack + 64 * Spec.b2n aar + 128 * Spec.b2n adr) + 256 ^ 1 * (fcnt.toNat % 256 ^ 2)) := by
    omega
  rw [e]
  have e7 : (7 : Nat) = 4 + 3 := rfl
  have e3 : (3 : Nat) = 1 + 2 := rfl
  rw [e7, leBytes_append 4 3 _ _ (by omega), e3, leBytes_append 1 2 _ _ (by omega), leBytes_mod 2]
  have e1 : leBytes 1 (l + 16 * Spec.b2n p + 32 * Spec.b2n ack + 64 * Spec.b2n aar + 128 * Spec.b2n adr) =
      [byteOfNat (l + 16 * Spec.b2n p + 32 * Spec.b2n ack + 64 * Spec.b2n aar + 128 * Spec.b2n adr)] := by
    simp only [leBytes]
    exact MacSpec.cons_congr (MacSpec.byteOfNat_congr (by omega)) rfl
  rw [e1]
  simp

end LW.LayoutProofs

namespace LW.LayoutProofs
open LW Outcome

theorem mac_layout (h : FHDR) (fPort : Option Byte) (frm : List Item) (ob fb : Bytes)
    (ho : encItems h.fOpts = ok ob) (hf : frmEnc fPort frm = ok fb) (hl : ob.length ≤ 15)
    (hn : fPort = none → frm.length = 0) (h0 : fPort = some 0 → h.fOpts.length = 0) :
    macEnc h fPort frm =
      ok (Spec.macPayloadBytes h.devAddr h.fCtrl.adr h.fCtrl.adrAckReq h.fCtrl.ack (h.fCtrl.classB || h.fCtrl.fPending) h.fCnt ob fPort fb) := by
  have hbl : (byteOfNat ob.length).toNat = ob.length := by simp only [byteOfNat, BitVec.toNat_ofNat]; omega
  have hng : ¬ (byteOfNat ob.length).toNat > 15 := by omega
  have hc := fctrl_pack h.fCtrl.adr h.fCtrl.adrAckReq h.fCtrl.ack h.fCtrl.fPending h.fCtrl.classB ⟨ob.length, by omega⟩
  have hfh : h.enc = ok (leBytes 4 h.devAddr.toNat ++
      [byteOfNat (ob.length + 16 * Spec.b2n (h.fCtrl.classB || h.fCtrl.fPending) + 32 * Spec.b2n h.fCtrl.ack + 64 * Spec.b2n h.fCtrl.adrAckReq + 128 * Spec.b2n h.fCtrl.adr)] ++
      leBytes 2 h.fCnt.toNat ++ ob) := by
    simp only [FHDR.enc, ho, Outcome.ok_bind, hng, if_false]
    have : ({ h.fCtrl with fOptsLen := byteOfNat ob.length } : FCtrl) =
        { adr := h.fCtrl.adr, adrAckReq := h.fCtrl.adrAckReq, ack := h.fCtrl.ack, fPending := h.fCtrl.fPending, classB := h.fCtrl.classB, fOptsLen := BitVec.ofNat 8 ob.length } := rfl
    rw [this, hc]
    rfl
  unfold Spec.macPayloadBytes
  rw [fhdr_pack _ _ _ _ _ _ _ hl]
  simp only [macEnc, hfh, Outcome.ok_bind]
  cases fPort with
  | none =>
    have := hn rfl
    have hfb : fb = [] := by
      cases frm with
      | nil => simp only [frmEnc] at hf; exact (MacRT.ok_inj hf).symm
      | cons _ _ => simp at this
    subst hfb
    simp [this]
  | some p =>
    simp only [hf, Outcome.ok_bind]
    by_cases hp : p = 0
    · subst hp
      have := h0 rfl
      simp [this]
    · have : ¬ (h.fOpts.length != 0 ∧ p == 0) := by
        intro ⟨_, h2⟩; exact hp (by simpa using h2)
      rw [if_neg this]
      simp
end LW.LayoutProofs

namespace LW.LayoutProofs
open LW Outcome

theorem joinReq_pack (j d : BitVec 64) (n : BitVec 16) :
    Spec.pack 18 Spec.joinReqLayout [j.toNat, d.toNat, n.toNat] = leBytes 8 j.toNat ++ leBytes 8 d.toNat ++ leBytes 2 n.toNat := by
  have hj := j.isLt; have hd := d.isLt; have hn := n.isLt
  simp only [Spec.pack, Spec.joinReqLayout, Spec.packNat]
  have e : j.toNat % 2 ^ 64 * 2 ^ 0 + (d.toNat % 2 ^ 64 * 2 ^ 64 + (n.toNat % 2 ^ 16 * 2 ^ 128 + 0)) = j.toNat + 256 ^ 8 * (d.toNat + 256 ^ 8 * n.toNat) := by omega
  have e18 : (18 : Nat) = 8 + 10 := rfl
  have e10 : (10 : Nat) = 8 + 2 := rfl
  rw [e, e18, leBytes_append 8 10 _ _ (by omega), e10, leBytes_append 8 2 _ _ (by omega)]
  simp

theorem rejoin02_pack (t : Byte) (n : BitVec 24) (d : BitVec 64) (c : BitVec 16) :
    Spec.pack 14 Spec.rejoin02Layout [t.toNat, n.toNat, d.toNat, c.toNat] = [t] ++ leBytes 3 n.toNat ++ leBytes 8 d.toNat ++ leBytes 2 c.toNat := by
  have ht := t.isLt; have hn := n.isLt; have hd := d.isLt; have hc := c.isLt
  simp only [Spec.pack, Spec.rejoin02Layout, Spec.packNat]
  have e : t.toNat % 2 ^ 8 * 2 ^ 0 + (n.toNat % 2 ^ 24 * 2 ^ 8 + (d.toNat % 2 ^ 64 * 2 ^ 32 + (c.toNat % 2 ^ 16 * 2 ^ 96 + 0))) =
      t.toNat + 256 ^ 1 * (n.toNat + 256 ^ 3 * (d.toNat + 256 ^ 8 * c.toNat)) := by omega
  have e14 : (14 : Nat) = 1 + 13 := rfl
  have e13 : (13 : Nat) = 3 + 10 := rfl
  have e10 : (10 : Nat) = 8 + 2 := rfl
  rw [e, e14, leBytes_append 1 13 _ _ (by omega), e13, leBytes_append 3 10 _ _ (by omega), e10, leBytes_append 8 2 _ _ (by omega)]
  have : leBytes 1 t.toNat = [t] := by
    simp only [leBytes]; exact MacSpec.cons_congr (MacSpec.byte_eq (by omega)).symm rfl
  rw [this]; simp

theorem rejoin1_pack (t : Byte) (j d : BitVec 64) (c : BitVec 16) :
    Spec.pack 19 Spec.rejoin1Layout [t.toNat, j.toNat, d.toNat, c.toNat] = [t] ++ leBytes 8 j.toNat ++ leBytes 8 d.toNat ++ leBytes 2 c.toNat := by
  have ht := t.isLt; have hj := j.isLt; have hd := d.isLt; have hc := c.isLt
  simp only [Spec.pack, Spec.rejoin1Layout, Spec.packNat]
  have e : t.toNat % 2 ^ 8 * 2 ^ 0 + (j.toNat % 2 ^ 64 * 2 ^ 8 + (d.toNat % 2 ^ 64 * 2 ^ 72 + (c.toNat % 2 ^ 16 * 2 ^ 136 + 0))) =
      t.toNat + 256 ^ 1 * (j.toNat + 256 ^ 8 * (d.toNat + 256 ^ 8 * c.toNat)) := by omega
  have e19 : (19 : Nat) = 1 + 18 := rfl
  have e18 : (18 : Nat) = 8 + 10 := rfl
  have e10 : (10 : Nat) = 8 + 2 := rfl
  rw [e, e19, leBytes_append 1 18 _ _ (by omega), e18, leBytes_append 8 10 _ _ (by omega), e10, leBytes_append 8 2 _ _ (by omega)]
  have : leBytes 1 t.toNat = [t] := by
    simp only [leBytes]; exact MacSpec.cons_congr (MacSpec.byte_eq (by omega)).symm rfl
  rw [this]; simp
end LW.LayoutProofs

namespace LW.LayoutProofs
open LW Outcome

theorem leBytes_split (n a b x y : Nat) (hn : n = a + b) (hx : x < 256 ^ a) : leBytes n (x + 256 ^ a * y) = leBytes a x ++ leBytes b y := by
  subst hn; exact leBytes_append a b x y hx

theorem leBytes1 (x : Nat) : leBytes 1 x = [byteOfNat x] := by
  simp only [leBytes]; exact MacSpec.cons_congr (MacSpec.byteOfNat_congr (by omega)) rfl

/-- join-accept without CFList -/
theorem joinAccept_pack (jn : BitVec 32) (nid : BitVec 24) (addr : BitVec 32) (r2 r1 rxd : Byte) (o : Bool)
    (hjn : jn.toNat < 2 ^ 24) (h2 : r2.toNat ≤ 15) (h1 : r1.toNat ≤ 7) (hd : rxd.toNat ≤ 15) :
    Spec.pack 12 Spec.joinAcceptLayout [jn.toNat, nid.toNat, addr.toNat, r2.toNat, r1.toNat, Spec.b2n o, rxd.toNat] =
      leBytes 3 jn.toNat ++ leBytes 3 nid.toNat ++ leBytes 4 addr.toNat ++ [byteOfNat (r2.toNat + 16 * r1.toNat + 128 * Spec.b2n o), rxd] := by
  have hn := nid.isLt; have ha := addr.isLt; have ho := b2n_lt o
  simp only [Spec.pack, Spec.joinAcceptLayout, Spec.packNat]
  have e : jn.toNat % 2 ^ 24 * 2 ^ 0 + (nid.toNat % 2 ^ 24 * 2 ^ 24 + (addr.toNat % 2 ^ 32 * 2 ^ 48 + (r2.toNat % 2 ^ 4 * 2 ^ 80 + (r1.toNat % 2 ^ 3 * 2 ^ 84 +
        (Spec.b2n o % 2 ^ 1 * 2 ^ 87 + (rxd.toNat % 2 ^ 4 * 2 ^ 88 + 0)))))) =
      jn.toNat + 256 ^ 3 * (nid.toNat + 256 ^ 3 * (addr.toNat + 256 ^ 4 * ((r2.toNat + 16 * r1.toNat + 128 * Spec.b2n o) + 256 ^ 1 * rxd.toNat))) := by omega
  have e12 : (12 : Nat) = 3 + 9 := rfl
  have e9 : (9 : Nat) = 3 + 6 := rfl
  have e6 : (6 : Nat) = 4 + 2 := rfl
  have e2 : (2 : Nat) = 1 + 1 := rfl
  rw [e, e12, leBytes_append 3 9 _ _ (by omega), e9, leBytes_append 3 6 _ _ (by omega), e6, leBytes_append 4 2 _ _ (by omega),
    e2, leBytes_append 1 1 _ _ (by omega), leBytes1, leBytes1]
  have : byteOfNat rxd.toNat = rxd := (MacSpec.byte_self rxd).symm
  rw [this]; simp

/-- CFList of type 0: five 24-bit frequency codes and the type byte -/
theorem cfChannels_pack (c0 c1 c2 c3 c4 : Nat) (t : Byte) (h0 : c0 < 2 ^ 24) (h1 : c1 < 2 ^ 24) (h2 : c2 < 2 ^ 24) (h3 : c3 < 2 ^ 24) (h4 : c4 < 2 ^ 24) :
    Spec.pack 16 Spec.cfChannelsLayout [c0, c1, c2, c3, c4, t.toNat] =
      leBytes 3 c0 ++ leBytes 3 c1 ++ leBytes 3 c2 ++ leBytes 3 c3 ++ leBytes 3 c4 ++ [t] := by
  have ht := t.isLt
  simp only [Spec.pack, Spec.cfChannelsLayout, Spec.packNat]
  have e : c0 % 2 ^ 24 * 2 ^ 0 + (c1 % 2 ^ 24 * 2 ^ 24 + (c2 % 2 ^ 24 * 2 ^ 48 + (c3 % 2 ^ 24 * 2 ^ 72 + (c4 % 2 ^ 24 * 2 ^ 96 + (t.toNat % 2 ^ 8 * 2 ^ 120 + 0))))) =
      c0 + 256 ^ 3 * (c1 + 256 ^ 3 * (c2 + 256 ^ 3 * (c3 + 256 ^ 3 * (c4 + 256 ^ 3 * t.toNat)))) := by omega
  have e16 : (16 : Nat) = 3 + 13 := rfl
  have e13 : (13 : Nat) = 3 + 10 := rfl
  have e10 : (10 : Nat) = 3 + 7 := rfl
  have e7 : (7 : Nat) = 3 + 4 := rfl
  have e4 : (4 : Nat) = 3 + 1 := rfl
  rw [e, e16, leBytes_append 3 13 _ _ (by omega), e13, leBytes_append 3 10 _ _ (by omega), e10, leBytes_append 3 7 _ _ (by omega),
    e7, leBytes_append 3 4 _ _ (by omega), e4, leBytes_append 3 1 _ _ (by omega), leBytes1]
  have : byteOfNat t.toNat = t := (MacSpec.byte_self t).symm
  rw [this]; simp

/-- CFList of type 1: seven 16-bit masks, one RFU byte, the type byte -/
theorem cfMasks_pack (m0 m1 m2 m3 m4 m5 m6 : Nat) (t : Byte) (h0 : m0 < 2 ^ 16) (h1 : m1 < 2 ^ 16) (h2 : m2 < 2 ^ 16) (h3 : m3 < 2 ^ 16)
    (h4 : m4 < 2 ^ 16) (h5 : m5 < 2 ^ 16) (h6 : m6 < 2 ^ 16) :
    Spec.pack 16 Spec.cfMasksLayout [m0, m1, m2, m3, m4, m5, m6, t.toNat] =
      leBytes 2 m0 ++ leBytes 2 m1 ++ leBytes 2 m2 ++ leBytes 2 m3 ++ leBytes 2 m4 ++ leBytes 2 m5 ++ leBytes 2 m6 ++ [0, t] := by
  have ht := t.isLt
  simp only [Spec.pack, Spec.cfMasksLayout, Spec.packNat]
  have e : m0 % 2 ^ 16 * 2 ^ 0 + (m1 % 2 ^ 16 * 2 ^ 16 + (m2 % 2 ^ 16 * 2 ^ 32 + (m3 % 2 ^ 16 * 2 ^ 48 + (m4 % 2 ^ 16 * 2 ^ 64 + (m5 % 2 ^ 16 * 2 ^ 80 +
        (m6 % 2 ^ 16 * 2 ^ 96 + (t.toNat % 2 ^ 8 * 2 ^ 120 + 0))))))) =
      m0 + 256 ^ 2 * (m1 + 256 ^ 2 * (m2 + 256 ^ 2 * (m3 + 256 ^ 2 * (m4 + 256 ^ 2 * (m5 + 256 ^ 2 * (m6 + 256 ^ 2 * (0 + 256 ^ 1 * t.toNat))))))) := by omega
  rw [e, leBytes_split 16 2 14 _ _ rfl (by omega), leBytes_split 14 2 12 _ _ rfl (by omega), leBytes_split 12 2 10 _ _ rfl (by omega),
    leBytes_split 10 2 8 _ _ rfl (by omega), leBytes_split 8 2 6 _ _ rfl (by omega), leBytes_split 6 2 4 _ _ rfl (by omega),
    leBytes_split 4 2 2 _ _ rfl (by omega)]
  have e1 : leBytes 2 (0 + 256 ^ 1 * t.toNat) = [0, t] := by
    rw [leBytes_split 2 1 1 _ _ rfl (by omega), leBytes1, leBytes1, (MacSpec.byte_self t).symm]; rfl
  rw [e1]; simp
end LW.LayoutProofs

namespace LW.LayoutProofs
open LW Outcome

theorem cfChannelsEnc_step (f : BitVec 32) (fs : List (BitVec 32)) (c : Nat) (h : Spec.freqCode f = some c) :
    cfChannelsEnc (f :: fs) = (do let r ← cfChannelsEnc fs; ok (leBytes 3 c ++ r)) ∧ c < 2 ^ 24 := by
  unfold Spec.freqCode at h
  split at h
  · rename_i hc
    cases h
    have h1 : (f.toNat % 100 != 0) = false := by simp [hc.1]
    have h2 : ¬ f.toNat / 100 > 16777215 := by omega
    refine ⟨?_, hc.2⟩
    simp only [cfChannelsEnc, h1, Bool.false_eq_true, if_false]
    rw [if_neg h2]
  · cases h

theorem cfChannelsEnc_layout (f0 f1 f2 f3 f4 : BitVec 32) (c0 c1 c2 c3 c4 : Nat)
    (h0 : Spec.freqCode f0 = some c0) (h1 : Spec.freqCode f1 = some c1) (h2 : Spec.freqCode f2 = some c2) (h3 : Spec.freqCode f3 = some c3)
    (h4 : Spec.freqCode f4 = some c4) :
    cfChannelsEnc [f0, f1, f2, f3, f4] = ok (leBytes 3 c0 ++ leBytes 3 c1 ++ leBytes 3 c2 ++ leBytes 3 c3 ++ leBytes 3 c4) ∧
      c0 < 2 ^ 24 ∧ c1 < 2 ^ 24 ∧ c2 < 2 ^ 24 ∧ c3 < 2 ^ 24 ∧ c4 < 2 ^ 24 := by
  obtain ⟨e0, l0⟩ := cfChannelsEnc_step f0 [f1, f2, f3, f4] c0 h0
  obtain ⟨e1, l1⟩ := cfChannelsEnc_step f1 [f2, f3, f4] c1 h1
  obtain ⟨e2, l2⟩ := cfChannelsEnc_step f2 [f3, f4] c2 h2
  obtain ⟨e3, l3⟩ := cfChannelsEnc_step f3 [f4] c3 h3
  obtain ⟨e4, l4⟩ := cfChannelsEnc_step f4 [] c4 h4
  refine ⟨?_, l0, l1, l2, l3, l4⟩
  rw [e0, e1, e2, e3, e4]
  simp [cfChannelsEnc]

theorem take15 (b : Bytes) (t : Byte) (h : b.length = 15) : ((b ++ zeros 16).take 16).take 15 ++ [t] = b ++ [t] := by
  rw [List.take_take]
  have : min 15 16 = 15 := rfl
  rw [this, List.take_append_of_le_length (by omega), List.take_of_length_le (by omega)]

theorem cfList_layout (l : CFList) (sb : Bytes) (h : Spec.cfListBytes l = some sb) : l.enc = ok sb := by
  obtain ⟨pl, t⟩ := l
  cases pl with
  | channels fs =>
    unfold Spec.cfListBytes at h
    simp only at h
    split at h
    · rename_i f0 f1 f2 f3 f4 heq
      cases heq
      split at h
      · rename_i c0 c1 c2 c3 c4 h0 h1 h2 h3 h4
        cases h
        obtain ⟨he, l0, l1, l2, l3, l4⟩ := cfChannelsEnc_layout f0 f1 f2 f3 f4 c0 c1 c2 c3 c4 h0 h1 h2 h3 h4
        rw [cfChannels_pack c0 c1 c2 c3 c4 t l0 l1 l2 l3 l4]
        simp only [CFList.enc, CFListP.enc, he, Outcome.ok_bind]
        rw [take15 _ t (by simp)]
      · cases h
    · cases h
    · rename_i hne; cases hne
  | masks ms =>
    unfold Spec.cfListBytes at h
    simp only at h
    split at h
    · rename_i hlen
      have hz : leBytes 2 0 = [0, 0] := rfl
      have fin : ∀ (m0 m1 m2 m3 m4 m5 m6 : BitVec 16) (b : Bytes),
          b ++ zeros (15 - b.length) = leBytes 2 m0.toNat ++ leBytes 2 m1.toNat ++ leBytes 2 m2.toNat ++ leBytes 2 m3.toNat ++ leBytes 2 m4.toNat ++
            leBytes 2 m5.toNat ++ leBytes 2 m6.toNat ++ [0] → b.length ≤ 15 →
          ((b ++ zeros 16).take 16).take 15 ++ [t] =
            Spec.pack 16 Spec.cfMasksLayout [m0.toNat, m1.toNat, m2.toNat, m3.toNat, m4.toNat, m5.toNat, m6.toNat, t.toNat] := by
        intro m0 m1 m2 m3 m4 m5 m6 b hb hbl
        rw [cfMasks_pack _ _ _ _ _ _ _ t m0.isLt m1.isLt m2.isLt m3.isLt m4.isLt m5.isLt m6.isLt]
        rw [List.take_take]
        have : min 15 16 = 15 := rfl
        rw [this, List.take_append]
        rw [List.take_of_length_le hbl]
        have : (zeros 16).take (15 - b.length) = zeros (15 - b.length) := by
          simp only [zeros, List.take_replicate]; congr 1; omega
        rw [this, hb]; simp
      rcases ms with _ | ⟨a0, _ | ⟨a1, _ | ⟨a2, _ | ⟨a3, _ | ⟨a4, _ | ⟨a5, _ | ⟨a6, r⟩⟩⟩⟩⟩⟩⟩
      · cases h; simp only [CFList.enc, CFListP.enc, cfMasksEnc]; rw [if_neg (by simp)]; simp only [Outcome.ok_bind, List.flatMap_nil]
        exact congrArg ok (fin 0 0 0 0 0 0 0 [] (by simp [zeros, leBytes]; rfl) (by simp))
      · simp only [List.map, List.cons_append, List.nil_append, List.replicate, List.take] at h
        cases h; simp only [CFList.enc, CFListP.enc, cfMasksEnc]; rw [if_neg (by simp)]
        simp only [Outcome.ok_bind, List.flatMap_cons, List.flatMap_nil, chMaskEnc, List.append_nil]
        exact congrArg ok (fin a0 0 0 0 0 0 0 _ (by simp [zeros, leBytes]; rfl) (by simp))
      · simp only [List.map, List.cons_append, List.nil_append, List.replicate, List.take] at h
        cases h; simp only [CFList.enc, CFListP.enc, cfMasksEnc]; rw [if_neg (by simp)]
        simp only [Outcome.ok_bind, List.flatMap_cons, List.flatMap_nil, chMaskEnc, List.append_nil]
        exact congrArg ok (fin a0 a1 0 0 0 0 0 _ (by simp [zeros, leBytes]; rfl) (by simp))
      · simp only [List.map, List.cons_append, List.nil_append, List.replicate, List.take] at h
        cases h; simp only [CFList.enc, CFListP.enc, cfMasksEnc]; rw [if_neg (by simp)]
        simp only [Outcome.ok_bind, List.flatMap_cons, List.flatMap_nil, chMaskEnc, List.append_nil]
        exact congrArg ok (fin a0 a1 a2 0 0 0 0 _ (by simp [zeros, leBytes]; rfl) (by simp))
      · simp only [List.map, List.cons_append, List.nil_append, List.replicate, List.take] at h
        cases h; simp only [CFList.enc, CFListP.enc, cfMasksEnc]; rw [if_neg (by simp)]
        simp only [Outcome.ok_bind, List.flatMap_cons, List.flatMap_nil, chMaskEnc, List.append_nil]
        exact congrArg ok (fin a0 a1 a2 a3 0 0 0 _ (by simp [zeros, leBytes]; rfl) (by simp))
      · simp only [List.map, List.cons_append, List.nil_append, List.replicate, List.take] at h
        cases h; simp only [CFList.enc, CFListP.enc, cfMasksEnc]; rw [if_neg (by simp)]
        simp only [Outcome.ok_bind, List.flatMap_cons, List.flatMap_nil, chMaskEnc, List.append_nil]
        exact congrArg ok (fin a0 a1 a2 a3 a4 0 0 _ (by simp [zeros, leBytes]; rfl) (by simp))
      · simp only [List.map, List.cons_append, List.nil_append, List.replicate, List.take] at h
        cases h; simp only [CFList.enc, CFListP.enc, cfMasksEnc]; rw [if_neg (by simp)]
        simp only [Outcome.ok_bind, List.flatMap_cons, List.flatMap_nil, chMaskEnc, List.append_nil]
        exact congrArg ok (fin a0 a1 a2 a3 a4 a5 0 _ (by simp [zeros, leBytes]; rfl) (by simp))
      · simp at hlen
    · cases h
end LW.LayoutProofs

namespace LW.LayoutProofs
open LW Outcome

theorem payload_layout (pl : MacPL) (sb : Bytes) (h : Spec.payloadBytes pl = some sb) : pl.enc = ok sb := by
  cases pl with
  | mac hd fPort frm =>
    simp only [Spec.payloadBytes] at h
    cases ho : encItems hd.fOpts with
    | ok ob =>
      cases hf : frmEnc fPort frm with
      | ok fb =>
        simp only [ho, hf] at h
        split at h
        · rename_i hc
          cases h
          exact mac_layout hd fPort frm ob fb ho hf hc.1 hc.2.1 hc.2.2
        · cases h
      | err => simp [ho, hf] at h
      | panic => simp [ho, hf] at h
    | err => simp [ho] at h
    | panic => simp [ho] at h
  | joinReq j d n =>
    simp only [Spec.payloadBytes, Option.some.injEq] at h
    subst h
    rw [joinReq_pack]; rfl
  | joinAccept ja =>
    simp only [Spec.payloadBytes] at h
    split at h
    · rename_i hc
      obtain ⟨hjn, h2, h1, hd⟩ := hc
      have hb := joinAccept_pack ja.joinNonce ja.homeNetID ja.devAddr ja.rx2dr ja.rx1off ja.rxDelay ja.optNeg hjn h2 h1 hd
      have hdl : dlSettingsEnc ja.optNeg ja.rx2dr ja.rx1off = ok (byteOfNat (ja.rx2dr.toNat + 16 * ja.rx1off.toNat + 128 * Spec.b2n ja.optNeg)) := by
        simp only [dlSettingsEnc]
        rw [if_neg (by omega), if_neg (by omega), MacSpec.dl_pack _ _ _ h2 h1]
      simp only [MacPL.enc, JoinAccept.enc]
      rw [if_neg (by omega), if_neg (by omega), hdl]
      simp only [Outcome.ok_bind]
      cases hcf : ja.cfList with
      | none =>
        simp only [hcf, Option.some.injEq] at h
        subst h
        rw [hb]
      | some l =>
        simp only [hcf] at h
        cases hl : Spec.cfListBytes l with
        | none => simp [hl] at h
        | some cb =>
          simp only [hl, Option.map_some, Option.some.injEq] at h
          subst h
          simp only [cfList_layout l cb hl, Outcome.ok_bind, hb]
    · cases h
  | rejoin02 t n d c =>
    simp only [Spec.payloadBytes] at h
    split at h
    · rename_i hc
      cases h
      have : ¬ (t != 0 ∧ t != 2) := by
        rcases hc with hc | hc
        · have : t = 0 := BitVec.eq_of_toNat_eq (by simpa using hc)
          simp [this]
        · have : t = 2 := BitVec.eq_of_toNat_eq (by simpa using hc)
          simp [this]
      simp only [MacPL.enc]
      rw [if_neg this, rejoin02_pack]
    · cases h
  | rejoin1 t j d c =>
    simp only [Spec.payloadBytes] at h
    split at h
    · rename_i hc
      cases h
      have ht : t = 1 := BitVec.eq_of_toNat_eq (by simpa using hc)
      simp only [MacPL.enc]
      rw [if_neg (by simp [ht]), rejoin1_pack]
    · cases h
  | data b =>
    simp only [Spec.payloadBytes, Option.some.injEq] at h
    subst h; rfl

/-- C06, frame level: for every frame the specification's layout tables assign bytes to, the encoder produces exactly these bytes -/
theorem frame_layout (f : PHY) (sb : Bytes) (h : Spec.frameBytes f = some sb) : f.enc = ok sb := by
  unfold Spec.frameBytes at h
  cases hp : f.payload with
  | none => simp [hp] at h
  | some pl =>
    simp only [hp] at h
    split at h
    · rename_i hc
      cases hb : Spec.payloadBytes pl with
      | none => simp [hb] at h
      | some b =>
        simp only [hb, Option.map_some, Option.some.injEq] at h
        subst h
        have hm := mhdr_pack ⟨f.mtype.toNat, by omega⟩ ⟨f.major.toNat, by omega⟩
        simp only [BitVec.ofNat_toNat, BitVec.setWidth_eq] at hm
        simp only [PHY.enc, hp, payload_layout pl b hb, Outcome.ok_bind]
        rw [← hm]
    · cases h
end LW.LayoutProofs
