/-
  LW.Proofs.FrameRT — frame decode→encode (canonical form, C08) and encode→decode (C01) on the model.
-/
import LW.Model.Frame
import LW.Proofs.MacRT
import LW.Spec.Frame
namespace LW.FrameRT
open LW Outcome MacRT

theorem mhdr_rt : ∀ b : Byte, b &&& 0x1c#8 = 0#8 → mhdrEnc (b >>> 5) (b &&& 3#8) = b := by decide

theorem fctrl_rt : ∀ c : Byte, FCtrl.enc { FCtrl.dec c with fOptsLen := byteOfNat (c &&& 0x0f#8).toNat } = ok c := by decide

theorem leNat_lt_pow (x : Bytes) (k w : Nat) (hx : x.length = k) (hw : 256 ^ k ≤ 2 ^ w) : leNat x < 2 ^ w := by
  have := leNat_lt x
  rw [hx] at this
  omega

/-- little-endian decode into a `w`-bit vector and re-encode gives the bytes back -/
theorem le_rt (x : Bytes) (k w : Nat) (hx : x.length = k) (hw : 256 ^ k ≤ 2 ^ w) :
    leBytes k (BitVec.ofNat w (leNat x)).toNat = x := by
  have h := leNat_lt_pow x k w hx hw
  rw [BitVec.toNat_ofNat, Nat.mod_eq_of_lt h, ← hx, leBytes_leNat]

theorem split3 (l : Bytes) (a b : Nat) : l = l.take a ++ ((l.drop a).take b ++ l.drop (a + b)) := by
  rw [← List.drop_drop, List.take_append_drop, List.take_append_drop]

theorem phy_split (data : Bytes) (h : ¬ data.length < 5) :
    data = [data.getD 0 0] ++ ((data.drop 1).take (data.length - 5) ++ data.drop (data.length - 4)) := by
  cases data with
  | nil => simp at h
  | cons b rest =>
    simp only [List.getD_cons_zero, List.drop_succ_cons, List.drop_zero, List.length_cons, List.singleton_append]
    congr 1
    have : rest.length + 1 - 4 = (rest.length + 1 - 5) + 1 := by simp at h; omega
    rw [this, List.drop_succ_cons, List.take_append_drop]

theorem getD_eq_getElem (l : Bytes) (i : Nat) (h : i < l.length) : l.getD i 0 = l[i] := by
  simp [List.getD, h]

/-- a list of length ≥ 7 split at 4, 5, 7 -/
theorem split_hdr (hd : Bytes) (h : 7 ≤ hd.length) :
    hd = hd.take 4 ++ ([hd.getD 4 0] ++ ((hd.drop 5).take 2 ++ hd.drop 7)) := by
  have e1 : hd = hd.take 4 ++ hd.drop 4 := (List.take_append_drop 4 hd).symm
  have e2 : hd.drop 4 = [hd.getD 4 0] ++ hd.drop 5 := by
    rw [getD_eq_getElem hd 4 (by omega), List.drop_eq_getElem_cons (show 4 < hd.length by omega)]
    rfl
  have e3 : hd.drop 5 = (hd.drop 5).take 2 ++ hd.drop 7 := by
    have := (List.take_append_drop 2 (hd.drop 5)).symm
    rwa [List.drop_drop] at this
  rw [← e3, ← e2, ← e1]

/-- `FHDR.dec` followed by `FHDR.enc` gives back the header bytes, provided FOptsLen (low nibble of byte 4) is the number of option bytes -/
theorem fhdr_rt (hd : Bytes) (prev : FHDR) (h : FHDR) (hl : hd.length = 7 + ((hd.getD 4 0) &&& 0x0f#8).toNat)
    (hprev : prev.fOpts = []) (hdec : FHDR.dec prev hd = ok h) : h.enc = ok hd := by
  have h7 : ¬ hd.length < 7 := by omega
  simp only [FHDR.dec, h7, if_false] at hdec
  cases ok_inj hdec
  have hopts : encItems (if hd.length > 7 then [Item.data (hd.drop 7)] else []) = ok (hd.drop 7) := by
    split
    · simp [encItems, Item.enc]
    · have : hd.drop 7 = [] := by apply List.drop_eq_nil_of_le; omega
      rw [this]; rfl
  simp only [FHDR.enc, hopts, Outcome.ok_bind]
  have hlen : (hd.drop 7).length = ((hd.getD 4 0) &&& 0x0f#8).toNat := by rw [List.length_drop]; omega
  have hle : ((hd.getD 4 0) &&& 0x0f#8).toNat ≤ 15 := by
    rw [Bits.toNat_and_0f]; omega
  have hb : (byteOfNat (hd.drop 7).length).toNat = (hd.drop 7).length := by
    simp only [byteOfNat, BitVec.toNat_ofNat]; omega
  have hng : ¬ (byteOfNat (hd.drop 7).length).toNat > 15 := by omega
  simp only [hng, if_false]
  rw [hlen, fctrl_rt]
  simp only [Outcome.ok_bind]
  rw [le_rt (hd.take 4) 4 32 (by simp; omega) (by decide), le_rt ((hd.drop 5).take 2) 2 32 (by simp; omega) (by decide)]
  congr 1
  have := split_hdr hd (by omega)
  simp only [List.append_assoc]
  exact this.symm

theorem getD_take (l : Bytes) (i k : Nat) (h : i < k) : (l.take k).getD i 0 = l.getD i 0 := by
  simp [List.getD, List.getElem?_take, h]

/-- `MACPayload.UnmarshalBinary` into a fresh value, then `MarshalBinary`, gives back the bytes -/
theorem mac_rt (body : Bytes) (pl : MacPL) (hdec : macDec {} none [] body = ok pl) : pl.enc = ok body := by
  simp only [macDec] at hdec
  split at hdec <;> try contradiction
  split at hdec <;> try contradiction
  rename_i h7 hfol
  generalize hF : ((body.getD 4 0) &&& 0x0f#8).toNat = fol at *
  have hn : 7 + fol ≤ body.length := by omega
  cases hh : FHDR.dec {} (body.take (7 + fol)) with
  | err => rw [hh] at hdec; contradiction
  | panic => rw [hh] at hdec; contradiction
  | ok h =>
    rw [hh] at hdec
    simp only [Outcome.ok_bind] at hdec
    have hhd : (body.take (7 + fol)).length = 7 + (((body.take (7 + fol)).getD 4 0) &&& 0x0f#8).toNat := by
      rw [getD_take body 4 (7 + fol) (by omega), hF, List.length_take]; omega
    have henc := fhdr_rt (body.take (7 + fol)) {} h hhd rfl hh
    -- the FOpts list is non-empty exactly when fol > 0
    have hfo : h.fOpts.length ≠ 0 ↔ fol > 0 := by
      simp only [FHDR.dec] at hh
      split at hh <;> try contradiction
      cases ok_inj hh
      simp only [List.length_take]
      split
      · simp; omega
      · simp; omega
    split at hdec
    · contradiction
    · rename_i hchk
      split at hdec
      · -- FPort and FRMPayload present
        rename_i hlong
        cases ok_inj hdec
        have hp : body.length > 7 + fol := by omega
        simp only [hp, if_true, MacPL.enc, macEnc, henc, Outcome.ok_bind]
        have hnz : ¬ (h.fOpts.length != 0 ∧ body.getD (7 + fol) 0 == 0) := by
          intro hx
          apply hchk
          exact ⟨hp, by simpa using hx.2, hfo.mp (by simpa using hx.1)⟩
        simp only [hnz, if_false, frmEnc, Item.isCmd, Item.enc, Outcome.ok_bind, List.append_nil, Bool.false_eq_true, false_and]
        congr 1
        have e1 : body = body.take (7 + fol) ++ body.drop (7 + fol) := (List.take_append_drop _ _).symm
        have e2 : body.drop (7 + fol) = [body.getD (7 + fol) 0] ++ body.drop (7 + fol + 1) := by
          rw [getD_eq_getElem body (7 + fol) (by omega), List.drop_eq_getElem_cons (show 7 + fol < body.length by omega)]
          rfl
        rw [List.append_assoc, ← e2, ← e1]
      · rename_i hshort
        cases ok_inj hdec
        by_cases hp : body.length > 7 + fol
        · simp only [hp, if_true, MacPL.enc, macEnc, henc, Outcome.ok_bind]
          have hnz : ¬ (h.fOpts.length != 0 ∧ body.getD (7 + fol) 0 == 0) := by
            intro hx
            apply hchk
            exact ⟨hp, by simpa using hx.2, hfo.mp (by simpa using hx.1)⟩
          simp only [hnz, if_false, frmEnc, Outcome.ok_bind, List.append_nil]
          congr 1
          have e1 : body = body.take (7 + fol) ++ body.drop (7 + fol) := (List.take_append_drop _ _).symm
          have e2 : body.drop (7 + fol) = [body.getD (7 + fol) 0] := by
            rw [getD_eq_getElem body (7 + fol) (by omega), List.drop_eq_getElem_cons (show 7 + fol < body.length by omega)]
            have : body.drop (7 + fol + 1) = [] := by apply List.drop_eq_nil_of_le; omega
            rw [this]
          rw [← e2, ← e1]
        · simp only [hp, if_false, MacPL.enc, macEnc, henc, Outcome.ok_bind, List.length_nil, bne_self_eq_false, Bool.false_eq_true, if_false]
          congr 1
          apply List.take_of_length_le; omega

theorem take_take_drop (l : Bytes) (a b : Nat) : l.take a ++ (l.drop a).take b = l.take (a + b) := by
  rw [List.take_add]

/-- C08 on the model: an accepted byte string (RFU bits of MHDR zero) re-encodes to exactly itself -/
theorem phy_canonical (data : Bytes) (f : PHY) (hdec : PHY.dec data = ok f) (hrfu : (data.getD 0 0) &&& 0x1c#8 = 0#8) :
    f.enc = ok data := by
  simp only [PHY.dec] at hdec
  split at hdec <;> try contradiction
  rename_i h5
  have hsplit := phy_split data h5
  generalize hB : (data.drop 1).take (data.length - 5) = body at *
  generalize hM : data.drop (data.length - 4) = mic at *
  have hm := mhdr_rt (data.getD 0 0) hrfu
  generalize data.getD 0 0 = b0 at *
  split at hdec
  · -- join-request
    split at hdec <;> try contradiction
    rename_i _ hlen
    cases ok_inj hdec
    simp only [PHY.enc, MacPL.enc, Outcome.ok_bind, hm]
    have hl : body.length = 18 := by simpa using hlen
    rw [le_rt (body.take 8) 8 64 (by simp; omega) (by decide), le_rt ((body.drop 8).take 8) 8 64 (by simp; omega) (by decide),
        le_rt (body.drop 16) 2 16 (by simp; omega) (by decide)]
    have e : body.take 8 ++ (body.drop 8).take 8 ++ body.drop 16 = body := by
      rw [List.append_assoc]; exact (split3 body 8 8).symm
    rw [e, hsplit]; simp
  · split at hdec
    · -- join-accept / proprietary: opaque bytes
      cases ok_inj hdec
      simp only [PHY.enc, MacPL.enc, Outcome.ok_bind, hm]
      rw [hsplit]; simp
    · split at hdec
      · -- rejoin-request
        split at hdec
        · split at hdec <;> try contradiction
          rename_i _ _ _ htype hlen
          cases ok_inj hdec
          have hl : body.length = 14 := by simpa using hlen
          have ht : body.getD 0 0 = ([b0] ++ (body ++ mic)).getD 1 0 := by
            cases body with
            | nil => simp at hl
            | cons x xs => simp
          rw [← hsplit] at ht
          have htv : ¬ (data.getD 1 0 != 0 ∧ data.getD 1 0 != 2) := by
            intro hx; rcases htype with h0 | h0 <;> simp_all
          simp only [PHY.enc, MacPL.enc, htv, if_false, Outcome.ok_bind, hm]
          rw [le_rt ((body.drop 1).take 3) 3 24 (by simp; omega) (by decide), le_rt ((body.drop 4).take 8) 8 64 (by simp; omega) (by decide),
              le_rt (body.drop 12) 2 16 (by simp; omega) (by decide)]
          have e : [data.getD 1 0] ++ (body.drop 1).take 3 ++ (body.drop 4).take 8 ++ body.drop 12 = body := by
            rw [← ht]
            cases body with
            | nil => simp at hl
            | cons x xs =>
              simp only [List.getD_cons_zero, List.drop_succ_cons, List.drop_zero, List.singleton_append, List.cons_append]
              congr 1
              rw [List.append_assoc]; exact (split3 xs 3 8).symm
          rw [e]
          conv => rhs; rw [hsplit]
          simp
        · split at hdec
          · split at hdec <;> try contradiction
            rename_i _ _ _ _ htype hlen
            cases ok_inj hdec
            have hl : body.length = 19 := by simpa using hlen
            have ht : body.getD 0 0 = ([b0] ++ (body ++ mic)).getD 1 0 := by
              cases body with
              | nil => simp at hl
              | cons x xs => simp
            rw [← hsplit] at ht
            have htv : ¬ (data.getD 1 0 != 1) := by simp_all
            simp only [PHY.enc, MacPL.enc, htv, if_false, Outcome.ok_bind, hm]
            rw [le_rt ((body.drop 1).take 8) 8 64 (by simp; omega) (by decide), le_rt ((body.drop 9).take 8) 8 64 (by simp; omega) (by decide),
                le_rt (body.drop 17) 2 16 (by simp; omega) (by decide)]
            have e : [data.getD 1 0] ++ (body.drop 1).take 8 ++ (body.drop 9).take 8 ++ body.drop 17 = body := by
              rw [← ht]
              cases body with
              | nil => simp at hl
              | cons x xs =>
                simp only [List.getD_cons_zero, List.drop_succ_cons, List.drop_zero, List.singleton_append, List.cons_append]
                congr 1
                rw [List.append_assoc]; exact (split3 xs 8 8).symm
            rw [e]
            conv => rhs; rw [hsplit]
            simp
          · contradiction
      · -- data frames
        cases hmac : macDec {} none [] body with
        | err => rw [hmac] at hdec; contradiction
        | panic => rw [hmac] at hdec; contradiction
        | ok pl =>
          rw [hmac] at hdec
          simp only [Outcome.ok_bind] at hdec
          cases ok_inj hdec
          simp only [PHY.enc, mac_rt body pl hmac, Outcome.ok_bind, hm]
          rw [hsplit]; simp

theorem fctrl_dec_enc (c : FCtrl) (b : Byte) (h : c.enc = ok b) :
    FCtrl.dec b = { adr := c.adr, adrAckReq := c.adrAckReq, ack := c.ack, fPending := c.classB || c.fPending,
                    classB := c.classB || c.fPending, fOptsLen := c.fOptsLen } ∧ (b &&& 0x0f#8) = c.fOptsLen := by
  obtain ⟨a, r, k, p, cb, l⟩ := c
  simp only [FCtrl.enc] at h
  split at h
  · contradiction
  · rename_i hl
    cases ok_inj h
    have key : ∀ (a r k p cb : Bool) (l : Fin 16),
        FCtrl.dec ((((boolBit a 7 ||| boolBit r 6) ||| boolBit k 5) ||| boolBit (cb || p) 4) ||| (BitVec.ofNat 8 l.val &&& 0x0f#8)) =
          { adr := a, adrAckReq := r, ack := k, fPending := cb || p, classB := cb || p, fOptsLen := BitVec.ofNat 8 l.val } ∧
        ((((boolBit a 7 ||| boolBit r 6) ||| boolBit k 5) ||| boolBit (cb || p) 4) ||| (BitVec.ofNat 8 l.val &&& 0x0f#8)) &&& 0x0f#8 = BitVec.ofNat 8 l.val := by
      decide
    have := key a r k p cb ⟨l.toNat, by simp at hl; omega⟩
    simpa using this

theorem encItems_nil_of_length (is : List Item) (b : Bytes) (h : encItems is = ok b) (hl : is.length = 0) : b = [] := by
  cases is with
  | nil => simp only [encItems] at h; exact (ok_inj h).symm
  | cons _ _ => simp at hl

theorem ofNat_leNat_leBytes (w k x : Nat) (hx : x < 2 ^ w) (hk : 256 ^ k ≤ 2 ^ w) : BitVec.ofNat w (leNat (leBytes k x)) = BitVec.ofNat w (x % 256 ^ k) := by
  rw [leNat_leBytes]

/-- header bytes `A ++ [c] ++ C ++ ob` decode to the expected header -/
theorem fhdr_dec_parts (A C ob : Bytes) (c : Byte) (hA : A.length = 4) (hC : C.length = 2) :
    FHDR.dec {} (A ++ [c] ++ C ++ ob) =
      ok { devAddr := BitVec.ofNat 32 (leNat A), fCtrl := FCtrl.dec c, fCnt := BitVec.ofNat 32 (leNat C),
           fOpts := if ob.length > 0 then [.data ob] else [] } := by
  match A, hA, C, hC with
  | [a0, a1, a2, a3], _, [c0, c1], _ =>
    have h7 : ¬ ([a0, a1, a2, a3] ++ [c] ++ [c0, c1] ++ ob).length < 7 := by simp
    simp only [FHDR.dec, h7, if_false]
    cases ob with
    | nil => simp
    | cons x xs => simp

theorem leBytes_len4 (x : Nat) : ∃ a0 a1 a2 a3, leBytes 4 x = [a0, a1, a2, a3] := ⟨_, _, _, _, leBytes4 x⟩
theorem leBytes_len2 (x : Nat) : ∃ a0 a1, leBytes 2 x = [a0, a1] := ⟨_, _, leBytes2 x⟩

theorem mac_enc_dec (h : FHDR) (fPort : Option Byte) (frm : List Item) (body : Bytes)
    (henc : macEnc h fPort frm = ok body) (hopts : (Spec.itemsBytes h.fOpts).length ≤ 15) :
    macDec {} none [] body = ok (Spec.wirePL (.mac h fPort frm)) := by
  simp only [macEnc, FHDR.enc] at henc
  cases hob : encItems h.fOpts with
  | err => rw [hob] at henc; contradiction
  | panic => rw [hob] at henc; contradiction
  | ok ob =>
    have hib : Spec.itemsBytes h.fOpts = ob := by simp [Spec.itemsBytes, hob]
    rw [hib] at hopts
    rw [hob] at henc
    simp only [Outcome.ok_bind] at henc
    have hbl : (byteOfNat ob.length).toNat = ob.length := by simp only [byteOfNat, BitVec.toNat_ofNat]; omega
    have hng : ¬ (byteOfNat ob.length).toNat > 15 := by omega
    simp only [hng, if_false] at henc
    cases hc : ({ h.fCtrl with fOptsLen := byteOfNat ob.length } : FCtrl).enc with
    | err => rw [hc] at henc; contradiction
    | panic => rw [hc] at henc; contradiction
    | ok c =>
      rw [hc] at henc
      simp only [Outcome.ok_bind] at henc
      obtain ⟨hcd, hcl⟩ := fctrl_dec_enc _ c hc
      simp only at hcd hcl
      have hfol : (c &&& 0x0f#8).toNat = ob.length := by rw [hcl, hbl]
      have hA : (leBytes 4 h.devAddr.toNat).length = 4 := leBytes_length _ _
      have hC : (leBytes 2 h.fCnt.toNat).length = 2 := leBytes_length _ _
      generalize hAe : leBytes 4 h.devAddr.toNat = A at *
      generalize hCe : leBytes 2 h.fCnt.toNat = C at *
      have hdA : BitVec.ofNat 32 (leNat A) = h.devAddr := by
        rw [← hAe, leNat_leBytes]; apply BitVec.eq_of_toNat_eq; have := h.devAddr.isLt; simp only [BitVec.toNat_ofNat]; omega
      have hdC : BitVec.ofNat 32 (leNat C) = BitVec.ofNat 32 (h.fCnt.toNat % 65536) := by
        rw [← hCe, leNat_leBytes]
      have hhdr := fhdr_dec_parts A C ob c hA hC
      have hhl : (A ++ [c] ++ C ++ ob).length = 7 + ob.length := by simp [hA, hC]; omega
      have hg4 : ∀ rest : Bytes, (A ++ [c] ++ C ++ ob ++ rest).getD 4 0 = c := by
        intro rest
        match A, hA with
        | [a0, a1, a2, a3], _ => simp
      have hfb : Spec.frmBytes fPort frm = (match frmEnc fPort frm with | .ok b => b | _ => []) := rfl
      cases fPort with
      | none =>
        simp only at henc
        split at henc <;> try contradiction
        rename_i hfrm
        cases ok_inj henc
        have hfrm0 : frm = [] := by
          cases frm with
          | nil => rfl
          | cons _ _ => simp at hfrm
        subst hfrm0
        have hg := hg4 []
        simp only [List.append_nil] at hg
        have hn7 : ¬ (A ++ [c] ++ C ++ ob).length < 7 := by omega
        simp only [macDec, hn7, if_false, hg, hfol]
        have hn2 : ¬ (A ++ [c] ++ C ++ ob).length < 7 + ob.length := by omega
        simp only [hn2, if_false]
        rw [List.take_of_length_le (by omega), hhdr]
        simp only [Outcome.ok_bind]
        have hn3 : ¬ (A ++ [c] ++ C ++ ob).length > 7 + ob.length := by omega
        have hn4 : ¬ (A ++ [c] ++ C ++ ob).length > 7 + ob.length + 1 := by omega
        simp only [hn3, hn4, false_and, if_false, Spec.wirePL, hib, Spec.frmBytes, frmEnc, hcd, hdA, hdC]
        simp
      | some p =>
        simp only at henc
        split at henc <;> try contradiction
        rename_i hchk
        cases hpb : frmEnc (some p) frm with
        | err => rw [hpb] at henc; contradiction
        | panic => rw [hpb] at henc; contradiction
        | ok pb =>
          rw [hpb] at henc
          simp only [Outcome.ok_bind] at henc
          cases ok_inj henc
          have hg := hg4 ([p] ++ pb)
          rw [← List.append_assoc] at hg
          have hbl2 : (A ++ [c] ++ C ++ ob ++ [p] ++ pb).length = 7 + ob.length + 1 + pb.length := by
            simp only [List.length_append, hhl, List.length_cons, List.length_nil]
          have hn7 : ¬ (A ++ [c] ++ C ++ ob ++ [p] ++ pb).length < 7 := by omega
          simp only [macDec, hn7, if_false, hg, hfol]
          have hn2 : ¬ (A ++ [c] ++ C ++ ob ++ [p] ++ pb).length < 7 + ob.length := by omega
          simp only [hn2, if_false]
          have htake : (A ++ [c] ++ C ++ ob ++ [p] ++ pb).take (7 + ob.length) = A ++ [c] ++ C ++ ob := by
            rw [List.append_assoc (A ++ [c] ++ C ++ ob), List.take_append_of_le_length (by omega), List.take_of_length_le (by omega)]
          rw [htake, hhdr]
          simp only [Outcome.ok_bind]
          have hgp : (A ++ [c] ++ C ++ ob ++ [p] ++ pb).getD (7 + ob.length) 0 = p := by
            rw [List.append_assoc (A ++ [c] ++ C ++ ob), ← hhl, List.getD_eq_getElem?_getD, List.getElem?_append_right (Nat.le_refl _), Nat.sub_self]
            rfl
          have hy1 : (A ++ [c] ++ C ++ ob ++ [p] ++ pb).length > 7 + ob.length := by omega
          have hg' : ¬ (p = 0#8 ∧ 0 < ob.length) := by
            intro hx
            apply hchk
            have : h.fOpts.length ≠ 0 := by
              intro h0
              have := encItems_nil_of_length h.fOpts ob hob h0
              rw [this] at hx; simp at hx
            exact ⟨by simpa using this, by simp [hx.1]⟩
          have hdrop : (A ++ [c] ++ C ++ ob ++ [p] ++ pb).drop (7 + ob.length + 1) = pb := by
            have : (A ++ [c] ++ C ++ ob ++ [p]).length = 7 + ob.length + 1 := by rw [List.length_append, hhl]; rfl
            rw [List.drop_append_of_le_length (by omega), List.drop_of_length_le (by omega)]
            simp
          rw [hgp, hdrop]
          simp only [Spec.wirePL, hib, hfb, hpb, hcd, hdA, hdC]
          by_cases hp0 : pb.length > 0
          · have h1 : (A ++ [c] ++ C ++ ob ++ [p] ++ pb).length > 7 + ob.length + 1 := by omega
            simp only [hy1, h1, hp0, if_true, true_and, beq_iff_eq]
            rw [if_neg (fun hx => hg' ⟨hx.1, hx.2⟩)]
          · have h1 : ¬ (A ++ [c] ++ C ++ ob ++ [p] ++ pb).length > 7 + ob.length + 1 := by omega
            simp only [hy1, h1, hp0, if_true, true_and, beq_iff_eq, if_false]
            rw [if_neg (fun hx => hg' ⟨hx.1, hx.2⟩)]

theorem mhdr_dec_enc (mt mj : Byte) (h1 : mt.toNat ≤ 7) (h2 : mj.toNat ≤ 3) :
    (mhdrEnc mt mj) >>> 5 = mt ∧ (mhdrEnc mt mj) &&& 3#8 = mj := by
  have key : ∀ (a : Fin 8) (b : Fin 4), (mhdrEnc (BitVec.ofNat 8 a) (BitVec.ofNat 8 b)) >>> 5 = BitVec.ofNat 8 a ∧
      (mhdrEnc (BitVec.ofNat 8 a) (BitVec.ofNat 8 b)) &&& 3#8 = BitVec.ofNat 8 b := by decide
  have := key ⟨mt.toNat, by omega⟩ ⟨mj.toNat, by omega⟩
  simpa using this

theorem ofNat_leNat_leBytes' (w k : Nat) (x : BitVec w) (hk : 2 ^ w ≤ 256 ^ k) : BitVec.ofNat w (leNat (leBytes k x.toNat)) = x := by
  rw [leNat_leBytes]
  apply BitVec.eq_of_toNat_eq
  have h0 := x.isLt
  have h1 : x.toNat < 256 ^ k := Nat.lt_of_lt_of_le h0 hk
  rw [BitVec.toNat_ofNat, Nat.mod_eq_of_lt h1, Nat.mod_eq_of_lt h0]

/-- decode of `[m] ++ b ++ mic` splits into header byte, body and MIC -/
theorem phy_parts (m : Byte) (b mic : Bytes) (hm : mic.length = 4) :
    ([m] ++ b ++ mic).length = b.length + 5 ∧ ([m] ++ b ++ mic).getD 0 0 = m ∧
    (([m] ++ b ++ mic).drop 1).take (([m] ++ b ++ mic).length - 5) = b ∧
    ([m] ++ b ++ mic).drop (([m] ++ b ++ mic).length - 4) = mic := by
  have hl : ([m] ++ b ++ mic).length = b.length + 5 := by simp [hm]
  refine ⟨hl, by simp, ?_, ?_⟩
  · rw [hl]; simp
  · rw [hl]
    have : b.length + 5 - 4 = ([m] ++ b).length := by simp
    rw [this, List.drop_left]

theorem phy_enc_dec (f : PHY) (bs : Bytes) (henc : f.enc = ok bs) (hs : Spec.shapeOK f = true) :
    PHY.dec bs = ok (Spec.wire f) := by
  obtain ⟨mt, mj, pl, mic⟩ := f
  simp only [Spec.shapeOK, Bool.and_eq_true, beq_iff_eq, decide_eq_true_eq] at hs
  obtain ⟨⟨⟨hmic, hmt⟩, hmj⟩, hkind⟩ := hs
  cases pl with
  | none => simp at hkind
  | some pl =>
    simp only [PHY.enc] at henc
    cases hb : pl.enc with
    | err => rw [hb] at henc; contradiction
    | panic => rw [hb] at henc; contradiction
    | ok b =>
      rw [hb] at henc
      simp only [Outcome.ok_bind] at henc
      cases ok_inj henc
      obtain ⟨hl, hg0, hbody, hmicd⟩ := phy_parts (mhdrEnc mt mj) b mic hmic
      obtain ⟨hmt', hmj'⟩ := mhdr_dec_enc mt mj hmt hmj
      have hn5 : ¬ ([mhdrEnc mt mj] ++ b ++ mic).length < 5 := by omega
      simp only [PHY.dec, hn5, if_false, hg0, hbody, hmicd, hmt', hmj', Spec.wire, Option.map_some]
      cases pl with
      | joinReq j d n =>
        have hkind : mt = 0 := by simpa using hkind
        subst hkind
        simp only [MacPL.enc] at hb
        cases ok_inj hb
        simp only [BEq.rfl, if_true]
        have hlen : ¬ ((leBytes 8 j.toNat ++ leBytes 8 d.toNat ++ leBytes 2 n.toNat).length != 18) = true := by simp
        simp only [hlen, if_false, Spec.wirePL]
        have t1 : (leBytes 8 j.toNat ++ leBytes 8 d.toNat ++ leBytes 2 n.toNat).take 8 = leBytes 8 j.toNat := by
          rw [List.append_assoc, List.take_left' (by simp)]
        have t2 : ((leBytes 8 j.toNat ++ leBytes 8 d.toNat ++ leBytes 2 n.toNat).drop 8).take 8 = leBytes 8 d.toNat := by
          rw [List.append_assoc, List.drop_left' (by simp), List.take_left' (by simp)]
        have t3 : (leBytes 8 j.toNat ++ leBytes 8 d.toNat ++ leBytes 2 n.toNat).drop 16 = leBytes 2 n.toNat := by
          rw [List.drop_left' (by simp)]
        rw [t1, t2, t3, ofNat_leNat_leBytes' 64 8 j (by decide), ofNat_leNat_leBytes' 64 8 d (by decide), ofNat_leNat_leBytes' 16 2 n (by decide)]
        simp
      | joinAccept ja =>
        have hkind : mt = 1 := by simpa using hkind
        subst hkind
        simp only [MacPL.enc] at hb
        simp [Spec.wirePL, hb]
      | data d =>
        have hkind : mt = 7 := by simpa using hkind
        subst hkind
        simp only [MacPL.enc] at hb
        cases ok_inj hb
        simp [Spec.wirePL]
      | rejoin02 t nid d c =>
        have hkind : mt = 6 := by simpa using hkind
        subst hkind
        simp only [MacPL.enc] at hb
        split at hb <;> try contradiction
        rename_i ht
        cases ok_inj hb
        have ht' : t = 0 ∨ t = 2 := by
          by_cases h0 : t = 0
          · exact Or.inl h0
          · by_cases h2 : t = 2
            · exact Or.inr h2
            · exact absurd ⟨by simpa using h0, by simpa using h2⟩ ht
        have hg1 : ([mhdrEnc 6 mj] ++ ([t] ++ leBytes 3 nid.toNat ++ leBytes 8 d.toNat ++ leBytes 2 c.toNat) ++ mic).getD 1 0 = t := by simp
        have hlen : ([t] ++ leBytes 3 nid.toNat ++ leBytes 8 d.toNat ++ leBytes 2 c.toNat).length = 14 := by simp
        have t1 : (([t] ++ leBytes 3 nid.toNat ++ leBytes 8 d.toNat ++ leBytes 2 c.toNat).drop 1).take 3 = leBytes 3 nid.toNat := by
          simp [List.append_assoc, List.take_left']
        have t2 : (([t] ++ leBytes 3 nid.toNat ++ leBytes 8 d.toNat ++ leBytes 2 c.toNat).drop 4).take 8 = leBytes 8 d.toNat := by
          rw [List.append_assoc ([t] ++ leBytes 3 nid.toNat), List.drop_left' (by simp), List.take_left' (by simp)]
        have t3 : ([t] ++ leBytes 3 nid.toNat ++ leBytes 8 d.toNat ++ leBytes 2 c.toNat).drop 12 = leBytes 2 c.toNat := by
          rw [List.drop_left' (by simp)]
        simp only [hg1, hlen, t1, t2, t3, ofNat_leNat_leBytes' 24 3 nid (by decide), ofNat_leNat_leBytes' 64 8 d (by decide),
          ofNat_leNat_leBytes' 16 2 c (by decide), Spec.wirePL]
        rcases ht' with rfl | rfl <;> simp
      | rejoin1 t j d c =>
        have hkind : mt = 6 := by simpa using hkind
        subst hkind
        simp only [MacPL.enc] at hb
        split at hb <;> try contradiction
        rename_i ht
        cases ok_inj hb
        have ht' : t = 1 := by simpa using ht
        subst ht'
        have eJ := ofNat_leNat_leBytes' 64 8 j (by decide)
        have eD := ofNat_leNat_leBytes' 64 8 d (by decide)
        have eC := ofNat_leNat_leBytes' 16 2 c (by decide)
        have lJ : (leBytes 8 j.toNat).length = 8 := leBytes_length _ _
        have lD : (leBytes 8 d.toNat).length = 8 := leBytes_length _ _
        have lC : (leBytes 2 c.toNat).length = 2 := leBytes_length _ _
        generalize leBytes 8 j.toNat = J at *
        generalize leBytes 8 d.toNat = D at *
        generalize leBytes 2 c.toNat = C at *
        have q1 : List.take 8 (J ++ (D ++ C)) = J := by rw [← lJ, List.take_left]
        have q2 : List.drop 8 (J ++ (D ++ C)) = D ++ C := by rw [← lJ, List.drop_left]
        have q3 : List.take 8 (D ++ C) = D := by rw [← lD, List.take_left]
        have q4 : List.drop 16 (J ++ (D ++ C)) = C := by
          rw [show 16 = J.length + D.length by omega, ← List.drop_drop, List.drop_left, List.drop_left]
        simp [Spec.wirePL, q1, q2, q3, q4, lJ, lD, lC, eJ, eD, eC]
      | mac h fPort frm =>
        simp only [Bool.and_eq_true, Bool.or_eq_true, beq_iff_eq, decide_eq_true_eq] at hkind
        obtain ⟨hk, hopts⟩ := hkind
        simp only [MacPL.enc] at hb
        have hmd := mac_enc_dec h fPort frm b hb hopts
        have h0 : (mt == 0) = false := by rcases hk with ((rfl | rfl) | rfl) | rfl <;> decide
        have h1 : ¬ ((mt == 1) = true ∨ (mt == 7) = true) := by rcases hk with ((rfl | rfl) | rfl) | rfl <;> decide
        have h6 : (mt == 6) = false := by rcases hk with ((rfl | rfl) | rfl) | rfl <;> decide
        simp only [h0, h1, h6, if_false, Bool.false_eq_true, hmd, Outcome.ok_bind]

theorem item_enc_ok (i : Item) (h : Spec.itemOK i = true) : ∃ b, i.enc = ok b := by
  cases i with
  | data b => exact ⟨b, rfl⟩
  | cmd c =>
    obtain ⟨cid, pl⟩ := c
    cases pl with
    | none => exact ⟨[cid], rfl⟩
    | some p =>
      have hp : ∃ pb, p.enc = ok pb := by
        by_cases hk : p.kind = .proprietary
        · cases p <;> simp [MacP.kind] at hk
          exact ⟨_, rfl⟩
        · have : (Spec.toFields p).isSome = true := by
            cases p <;> first | (exfalso; exact hk rfl) | simpa [Spec.itemOK] using h
          have := accepts p this
          cases hb : p.enc with
          | ok pb => exact ⟨pb, rfl⟩
          | err => rw [hb] at this; simp [Outcome.isOk] at this
          | panic => rw [hb] at this; simp [Outcome.isOk] at this
      obtain ⟨pb, hpb⟩ := hp
      exact ⟨cid :: pb, by simp [Item.enc, MacCmd.enc, hpb]⟩

theorem encItems_ok (is : List Item) (h : is.all Spec.itemOK = true) : ∃ b, encItems is = ok b := by
  induction is with
  | nil => exact ⟨[], rfl⟩
  | cons i is ih =>
    simp only [List.all_cons, Bool.and_eq_true] at h
    obtain ⟨b, hb⟩ := item_enc_ok i h.1
    obtain ⟨r, hr⟩ := ih h.2
    exact ⟨b ++ r, by simp [encItems, hb, hr]⟩

theorem frmEnc_ok (fPort : Option Byte) (is : List Item) (h : is.all Spec.itemOK = true)
    (hc : fPort = some 0 ∨ is.all (fun i => !i.isCmd) = true) : ∃ b, frmEnc fPort is = ok b := by
  induction is with
  | nil => exact ⟨[], rfl⟩
  | cons i is ih =>
    simp only [List.all_cons, Bool.and_eq_true] at h
    obtain ⟨b, hb⟩ := item_enc_ok i h.1
    have hc' : fPort = some 0 ∨ is.all (fun i => !i.isCmd) = true := by
      rcases hc with hc | hc
      · exact Or.inl hc
      · simp only [List.all_cons, Bool.and_eq_true] at hc; exact Or.inr hc.2
    obtain ⟨r, hr⟩ := ih h.2 hc'
    have hg : ¬ (i.isCmd = true ∧ (fPort != some 0) = true) := by
      rcases hc with hc | hc
      · simp [hc]
      · simp only [List.all_cons, Bool.and_eq_true] at hc
        intro hx; simp [hx.1] at hc
    exact ⟨b ++ r, by (simp only [frmEnc, hg, if_false, hb, hr, Outcome.ok_bind, Bool.false_eq_true, if_false]; first | rfl | done)⟩

theorem cfChannelsEnc_ok (fs : List (BitVec 32)) (h : fs.all (fun f => (Spec.freqCode f).isSome) = true) : ∃ b, cfChannelsEnc fs = ok b := by
  induction fs with
  | nil => exact ⟨[], rfl⟩
  | cons f fs ih =>
    simp only [List.all_cons, Bool.and_eq_true] at h
    obtain ⟨r, hr⟩ := ih h.2
    have := freqCode_ok f h.1
    have h1 : ¬ f.toNat / 100 > 16777215 := by omega
    exact ⟨_, by (simp only [cfChannelsEnc, this.2, h1, if_false, hr, Outcome.ok_bind, Bool.false_eq_true, if_false]; first | rfl | done)⟩

/-- C01: a value the specification allows is never refused by the encoder -/
theorem encode_total (f : PHY) (hv : Spec.frameValid f = true) : ∃ bs, f.enc = ok bs := by
  obtain ⟨mt, mj, pl, mic⟩ := f
  simp only [Spec.frameValid, Bool.and_eq_true] at hv
  obtain ⟨hs, hp⟩ := hv
  cases pl with
  | none => simp [Spec.shapeOK] at hs
  | some pl =>
    suffices h : ∃ b, pl.enc = ok b by
      obtain ⟨b, hb⟩ := h
      exact ⟨_, by (simp only [PHY.enc, hb, Outcome.ok_bind]; rfl)⟩
    cases pl with
    | joinReq j d n => exact ⟨_, rfl⟩
    | data b => exact ⟨_, rfl⟩
    | rejoin02 t n d c =>
      simp only [Bool.or_eq_true, beq_iff_eq] at hp
      have : ¬ (t != 0 ∧ t != 2) := by rcases hp with rfl | rfl <;> simp
      exact ⟨_, by (simp only [MacPL.enc, this, if_false, Bool.false_eq_true, if_false]; first | rfl | done)⟩
    | rejoin1 t j d c =>
      simp only [beq_iff_eq] at hp
      subst hp
      exact ⟨_, by (simp only [MacPL.enc]; rfl)⟩
    | joinAccept ja =>
      simp only [Bool.and_eq_true, decide_eq_true_eq] at hp
      obtain ⟨⟨⟨⟨h1, h2⟩, h3⟩, h4⟩, h5⟩ := hp
      have g1 : ¬ ja.rxDelay.toNat > 15 := by omega
      have g2 : ¬ ja.joinNonce.toNat ≥ 16777216 := by omega
      have g3 : ¬ ja.rx2dr.toNat > 15 := by omega
      have g4 : ¬ ja.rx1off.toNat > 7 := by omega
      cases hcf : ja.cfList with
      | none => exact ⟨_, by (simp only [MacPL.enc, JoinAccept.enc, g1, g2, dlSettingsEnc, g3, g4, if_false, Outcome.ok_bind, hcf, Bool.false_eq_true, if_false]; first | rfl | done)⟩
      | some l =>
        rw [hcf] at h5
        simp only [Spec.cfListOK] at h5
        have hl : ∃ c, l.enc = ok c := by
          cases hpl : l.payload with
          | channels fs =>
            rw [hpl] at h5
            simp only [Bool.and_eq_true] at h5
            obtain ⟨b, hb⟩ := cfChannelsEnc_ok fs h5.2.2
            exact ⟨_, by (simp only [CFList.enc, hpl, CFListP.enc, hb, Outcome.ok_bind, Bool.false_eq_true, if_false]; first | rfl | done)⟩
          | masks ms =>
            rw [hpl] at h5
            simp only [Bool.and_eq_true, decide_eq_true_eq] at h5
            have : ¬ ms.length > 6 := by omega
            exact ⟨_, by (simp only [CFList.enc, hpl, CFListP.enc, cfMasksEnc, this, if_false, Outcome.ok_bind, Bool.false_eq_true, if_false]; first | rfl | done)⟩
        obtain ⟨c, hc⟩ := hl
        exact ⟨_, by (simp only [MacPL.enc, JoinAccept.enc, g1, g2, dlSettingsEnc, g3, g4, if_false, Outcome.ok_bind, hcf, hc, Bool.false_eq_true, if_false]; first | rfl | done)⟩
    | mac h fPort frm =>
      simp only [Bool.and_eq_true, decide_eq_true_eq] at hp
      obtain ⟨⟨⟨ho, hf⟩, hport⟩, _⟩ := hp
      simp only [Spec.shapeOK, Bool.and_eq_true, decide_eq_true_eq] at hs
      have hlen := hs.2.2
      obtain ⟨ob, hob⟩ := encItems_ok h.fOpts ho
      have hib : Spec.itemsBytes h.fOpts = ob := by simp [Spec.itemsBytes, hob]
      rw [hib] at hlen
      have hbl : (byteOfNat ob.length).toNat = ob.length := by simp only [byteOfNat, BitVec.toNat_ofNat]; omega
      have hng : ¬ (byteOfNat ob.length).toNat > 15 := by omega
      have hfc : ∃ c, ({ h.fCtrl with fOptsLen := byteOfNat ob.length } : FCtrl).enc = ok c :=
        ⟨_, by (simp only [FCtrl.enc, hng, if_false, Bool.false_eq_true, if_false]; first | rfl | done)⟩
      obtain ⟨c, hc⟩ := hfc
      have hhe : ∃ hb, h.enc = ok hb := ⟨_, by (simp only [FHDR.enc, hob, Outcome.ok_bind, hng, if_false, hc, Bool.false_eq_true, if_false]; first | rfl | done)⟩
      obtain ⟨hb, hhb⟩ := hhe
      cases fPort with
      | none =>
        simp only [List.isEmpty_iff] at hport
        subst hport
        exact ⟨hb, by simp [MacPL.enc, macEnc, hhb]⟩
      | some p =>
        simp only [Bool.and_eq_true, Bool.or_eq_true, bne_iff_ne, ne_eq, List.isEmpty_iff, beq_iff_eq] at hport
        obtain ⟨hp1, hp2⟩ := hport
        have hg : ¬ (h.fOpts.length != 0 ∧ p == 0) := by
          intro hx
          rcases hp1 with hp1 | hp1
          · exact hp1 (by simpa using hx.2)
          · rw [hp1] at hx; simp at hx
        obtain ⟨pb, hpb⟩ := frmEnc_ok (some p) frm hf (by
          rcases hp2 with hp2 | hp2
          · exact Or.inl (by rw [hp2])
          · exact Or.inr hp2)
        exact ⟨_, by (simp only [MacPL.enc, macEnc, hhb, Outcome.ok_bind, hg, if_false, hpb, Bool.false_eq_true, if_false]; first | rfl | done)⟩

end LW.FrameRT
