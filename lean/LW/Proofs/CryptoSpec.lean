/-
  LW.Proofs.CryptoSpec — the MIC / encryption code of the model equals the specification's block layouts (helper lemmas for C02–C05).
-/
import LW.Model.Crypto
import LW.Spec.Crypto
import LW.Proofs.MacRT
namespace LW.CryptoSpec
open LW Outcome MacRT

theorem b0_up (addr fcnt : BitVec 32) (len : Nat) :
    setAt (copyAt (copyAt (setAt (zeros 16) 0 0x49#8) 6 (leBytes 4 addr.toNat)) 10 (leBytes 4 fcnt.toNat)) 15 (byteOfNat len)
      = Spec.B0 0 0#8 addr fcnt len := by
  simp [leBytes4, leBytes2, copyAt, setAt, zeros, Spec.B0, List.replicate, byteOfNat]

theorem b1_up (addr fcnt : BitVec 32) (len conf : Nat) (dr ch : Byte) :
    setAt (setAt (copyAt (Spec.B0 0 0#8 addr fcnt len) 1 (leBytes 2 conf)) 3 dr) 4 ch
      = Spec.B1 conf dr ch addr fcnt len := by
  simp [leBytes4, leBytes2, copyAt, setAt, zeros, Spec.B1, Spec.B0, List.replicate, byteOfNat]

theorem b0_down (addr fcnt : BitVec 32) (len conf : Nat) :
    setAt (copyAt (copyAt (setAt (copyAt (setAt (zeros 16) 0 0x49#8) 1 (leBytes 2 conf)) 5 1#8) 6 (leBytes 4 addr.toNat)) 10 (leBytes 4 fcnt.toNat)) 15 (byteOfNat len)
      = Spec.B0 conf 1#8 addr fcnt len := by
  simp [leBytes4, leBytes2, copyAt, setAt, zeros, Spec.B0, List.replicate, byteOfNat]

/-- C02: the uplink data MIC of the model is the specification's, for every block cipher, frame, key, counter -/
theorem up_spec (E : BlockCipher) (ver : Byte) (conf : BitVec 32) (dr ch : Byte) (fk sk : Bytes) (p : PHY)
    (h : FHDR) (fPort : Option Byte) (frm : List Item) (b : Bytes)
    (hp : p.payload = some (.mac h fPort frm)) (hb : macEnc h fPort frm = ok b) :
    calcUplinkDataMIC E ver conf dr ch fk sk p =
      ok (Spec.micUp E (ver != 0) conf dr ch fk sk h.devAddr h.fCnt h.fCtrl.ack (mhdrEnc p.mtype p.major :: b)) := by
  simp only [calcUplinkDataMIC, hp, micBytesOf, hb, Outcome.ok_bind, b0_up, b1_up, Spec.micUp]
  by_cases hv : ver = 0#8 <;> cases ha : h.fCtrl.ack <;> simp [hv, ha]

theorem down_spec (E : BlockCipher) (ver : Byte) (conf : BitVec 32) (key : Bytes) (p : PHY)
    (h : FHDR) (fPort : Option Byte) (frm : List Item) (b : Bytes)
    (hp : p.payload = some (.mac h fPort frm)) (hb : macEnc h fPort frm = ok b) :
    calcDownlinkDataMIC E ver conf key p =
      ok (Spec.micDown E (ver != 0) conf key h.devAddr h.fCnt h.fCtrl.ack (mhdrEnc p.mtype p.major :: b)) := by
  simp only [calcDownlinkDataMIC, hp, micBytesOf, hb, Outcome.ok_bind, b0_down, Spec.micDown]
  by_cases hv : ver = 0#8 <;> cases ha : h.fCtrl.ack <;> simp [hv, ha]

/-! ### C02: what the MIC input binds -/

theorem leBytes_inj (k a b : Nat) (ha : a < 256 ^ k) (hb : b < 256 ^ k) (h : leBytes k a = leBytes k b) : a = b := by
  have := congrArg leNat h
  rwa [leNat_leBytes, leNat_leBytes, Nat.mod_eq_of_lt ha, Nat.mod_eq_of_lt hb] at this

theorem B0_length (c : Nat) (d : Byte) (a f : BitVec 32) (l : Nat) : (Spec.B0 c d a f l).length = 16 := by
  simp [Spec.B0]

theorem B1_length (c : Nat) (x y : Byte) (a f : BitVec 32) (l : Nat) : (Spec.B1 c x y a f l).length = 16 := by
  simp [Spec.B1]

/-- the CMAC input `B0 | msg` determines direction, DevAddr, the full 32-bit FCnt, ConfFCnt (mod 2^16) and the message -/
theorem B0_msg_inj (c c' : Nat) (d d' : Byte) (a a' f f' : BitVec 32) (msg msg' : Bytes)
    (hc : c < 65536) (hc' : c' < 65536)
    (h : Spec.B0 c d a f msg.length ++ msg = Spec.B0 c' d' a' f' msg'.length ++ msg') :
    c = c' ∧ d = d' ∧ a = a' ∧ f = f' ∧ msg = msg' := by
  have h1 := List.append_inj h (by rw [B0_length, B0_length])
  obtain ⟨hb, hm⟩ := h1
  simp only [Spec.B0, leBytes2, leBytes4, List.cons_append, List.nil_append, List.cons.injEq, and_true, true_and] at hb
  obtain ⟨c0, c1, hd, a0, a1, a2, a3, f0, f1, f2, f3, _⟩ := hb
  have e1 : c = c' := by
    have x0 := congrArg BitVec.toNat c0; have x1 := congrArg BitVec.toNat c1
    simp only [byteOfNat, BitVec.toNat_ofNat] at x0 x1; omega
  have e2 : a = a' := by
    apply BitVec.eq_of_toNat_eq
    have := a.isLt; have := a'.isLt
    have x0 := congrArg BitVec.toNat a0; have x1 := congrArg BitVec.toNat a1; have x2 := congrArg BitVec.toNat a2; have x3 := congrArg BitVec.toNat a3
    simp only [byteOfNat, BitVec.toNat_ofNat] at x0 x1 x2 x3; omega
  have e3 : f = f' := by
    apply BitVec.eq_of_toNat_eq
    have := f.isLt; have := f'.isLt
    have x0 := congrArg BitVec.toNat f0; have x1 := congrArg BitVec.toNat f1; have x2 := congrArg BitVec.toNat f2; have x3 := congrArg BitVec.toNat f3
    simp only [byteOfNat, BitVec.toNat_ofNat] at x0 x1 x2 x3; omega
  exact ⟨e1, hd, e2, e3, hm⟩

/-- … and `B1 | msg` additionally TxDr and TxCh -/
theorem B1_msg_inj (c c' : Nat) (x x' y y' : Byte) (a a' f f' : BitVec 32) (msg msg' : Bytes)
    (hc : c < 65536) (hc' : c' < 65536)
    (h : Spec.B1 c x y a f msg.length ++ msg = Spec.B1 c' x' y' a' f' msg'.length ++ msg') :
    c = c' ∧ x = x' ∧ y = y' ∧ a = a' ∧ f = f' ∧ msg = msg' := by
  have h1 := List.append_inj h (by rw [B1_length, B1_length])
  obtain ⟨hb, hm⟩ := h1
  simp only [Spec.B1, leBytes2, leBytes4, List.cons_append, List.nil_append, List.cons.injEq, and_true, true_and] at hb
  obtain ⟨c0, c1, hx, hy, a0, a1, a2, a3, f0, f1, f2, f3, _⟩ := hb
  have e1 : c = c' := by
    have x0 := congrArg BitVec.toNat c0; have x1 := congrArg BitVec.toNat c1
    simp only [byteOfNat, BitVec.toNat_ofNat] at x0 x1; omega
  have e2 : a = a' := by
    apply BitVec.eq_of_toNat_eq
    have := a.isLt; have := a'.isLt
    have x0 := congrArg BitVec.toNat a0; have x1 := congrArg BitVec.toNat a1; have x2 := congrArg BitVec.toNat a2; have x3 := congrArg BitVec.toNat a3
    simp only [byteOfNat, BitVec.toNat_ofNat] at x0 x1 x2 x3; omega
  have e3 : f = f' := by
    apply BitVec.eq_of_toNat_eq
    have := f.isLt; have := f'.isLt
    have x0 := congrArg BitVec.toNat f0; have x1 := congrArg BitVec.toNat f1; have x2 := congrArg BitVec.toNat f2; have x3 := congrArg BitVec.toNat f3
    simp only [byteOfNat, BitVec.toNat_ofNat] at x0 x1 x2 x3; omega
  exact ⟨e1, hx, hy, e2, e3, hm⟩

/-! ### C03: keystream -/

theorem aBlock_spec (up : Bool) (addr fcnt : BitVec 32) (i : Nat) :
    aBlock (0 : Byte) up addr fcnt (byteOfNat i) = Spec.Ablock (Spec.dirByte up) addr fcnt i := by
  cases up <;> simp [aBlock, leBytes4, copyAt, setAt, zeros, Spec.Ablock, Spec.dirByte, List.replicate, byteOfNat]

theorem aFopts_spec (af up : Bool) (addr fcnt : BitVec 32) :
    aBlock (if af then 2#8 else 1#8) up addr fcnt 1#8 = Spec.AFopts af up addr fcnt := by
  cases up <;> cases af <;> simp [aBlock, leBytes4, copyAt, setAt, zeros, Spec.AFopts, Spec.dirByte, List.replicate, byteOfNat]

theorem xorBytes_append (a b c d : Bytes) (h : a.length = c.length) : xorBytes (a ++ b) (c ++ d) = xorBytes a c ++ xorBytes b d := by
  induction a generalizing c with
  | nil => cases c with
    | nil => rfl
    | cons _ _ => simp at h
  | cons x xs ih => cases c with
    | nil => simp at h
    | cons y ys =>
      simp only [List.cons_append, xorBytes]
      rw [ih ys (by simpa using h)]

theorem xorBytes_take (a b : Bytes) (k : Nat) : (xorBytes a b).take k = xorBytes (a.take k) b := by
  induction a generalizing b k with
  | nil => simp [xorBytes]
  | cons x xs ih => cases b with
    | nil => cases k <;> simp [xorBytes]
    | cons y ys => cases k with
      | zero => simp [xorBytes]
      | succ k => simp [xorBytes, ih]

theorem xorBytes_nil_right (a : Bytes) : xorBytes a [] = [] := by cases a <;> rfl

theorem keystream_length (E : BlockCipher) (hE : E.Lawful) (key : Bytes) (dir : Byte) (addr fcnt : BitVec 32) (n i : Nat) :
    (Spec.keystream E key dir addr fcnt n i).length = 16 * n := by
  induction n generalizing i with
  | zero => rfl
  | succ n ih => simp only [Spec.keystream, List.length_append, hE.enc_len, ih]; omega

/-- the block loop of `EncryptFRMPayload` is the XOR with the specification's keystream -/
theorem frmLoop_spec (E : BlockCipher) (hE : E.Lawful) (key : Bytes) (up : Bool) (addr fcnt : BitVec 32) (n i : Nat) (data : Bytes)
    (hl : data.length = 16 * n) :
    frmLoop (E.enc key) up addr fcnt n i data = xorBytes data (Spec.keystream E key (Spec.dirByte up) addr fcnt n (i + 1)) := by
  induction n generalizing i data with
  | zero =>
    have : data = [] := List.eq_nil_of_length_eq_zero (by simpa using hl)
    subst this; rfl
  | succ n ih =>
    simp only [frmLoop, Spec.keystream]
    rw [aBlock_spec, ih (i + 1) (data.drop 16) (by rw [List.length_drop]; omega)]
    conv => rhs; rw [← List.take_append_drop 16 data]
    rw [xorBytes_append _ _ _ _ (by rw [List.length_take, hE.enc_len]; omega)]

/-- C03: `EncryptFRMPayload` = payload ⊕ S_1|S_2|…, for every length, key, direction, DevAddr and 32-bit counter -/
theorem frm_spec (E : BlockCipher) (hE : E.Lawful) (key : Bytes) (up : Bool) (addr fcnt : BitVec 32) (data : Bytes) :
    encryptFRMPayload E key up addr fcnt data = Spec.cryptFRM E key up addr fcnt data := by
  simp only [encryptFRMPayload, Spec.cryptFRM]
  by_cases hm : data.length % 16 = 0
  · have h1 : ¬ (data.length % 16 != 0) = true := by simp [hm]
    simp only [h1, if_false, Bool.false_eq_true]
    have hn : data.length = 16 * (data.length / 16) := by omega
    rw [frmLoop_spec E hE key up addr fcnt (data.length / 16) 0 data hn]
    have : (data.length + 15) / 16 = data.length / 16 := by omega
    rw [this, xorBytes_take, List.take_of_length_le (Nat.le_refl _)]
  · have h1 : (data.length % 16 != 0) = true := by simp [hm]
    simp only [h1, if_true]
    have hpl : (data ++ zeros (16 - data.length % 16)).length = 16 * ((data.length + 15) / 16) := by
      simp [zeros]; omega
    have hdiv : (data ++ zeros (16 - data.length % 16)).length / 16 = (data.length + 15) / 16 := by rw [hpl]; omega
    rw [hdiv, frmLoop_spec E hE key up addr fcnt _ 0 _ hpl, xorBytes_take]
    simp

theorem xorBytes_length_le (a b : Bytes) (h : a.length ≤ b.length) : (xorBytes a b).length = a.length := by
  rw [xorBytes_length]; omega

/-- XOR with the same (long enough) keystream twice restores the data -/
theorem xorBytes_invol (a k : Bytes) (h : a.length ≤ k.length) : xorBytes (xorBytes a k) k = a := by
  induction a generalizing k with
  | nil => simp [xorBytes]
  | cons x xs ih => cases k with
    | nil => simp at h
    | cons y ys =>
      simp only [xorBytes]
      rw [ih ys (by simpa using h)]
      congr 1
      rw [BitVec.xor_assoc, BitVec.xor_self, BitVec.xor_zero]

theorem cryptFRM_length (E : BlockCipher) (hE : E.Lawful) (key : Bytes) (up : Bool) (addr fcnt : BitVec 32) (data : Bytes) :
    (Spec.cryptFRM E key up addr fcnt data).length = data.length := by
  simp only [Spec.cryptFRM]
  rw [xorBytes_length_le]
  rw [keystream_length E hE]; omega

theorem cryptFRM_invol (E : BlockCipher) (hE : E.Lawful) (key : Bytes) (up : Bool) (addr fcnt : BitVec 32) (data : Bytes) :
    Spec.cryptFRM E key up addr fcnt (Spec.cryptFRM E key up addr fcnt data) = data := by
  have hl := cryptFRM_length E hE key up addr fcnt data
  simp only [Spec.cryptFRM] at hl ⊢
  rw [hl]
  apply xorBytes_invol
  rw [keystream_length E hE]; omega

theorem fopts_spec (E : BlockCipher) (key : Bytes) (af up : Bool) (addr fcnt : BitVec 32) (data : Bytes) :
    encryptFOpts E key af up addr fcnt data =
      if data.length > 15 then err else ok (Spec.cryptFOpts E key af up addr fcnt data) := by
  simp only [encryptFOpts, aFopts_spec, Spec.cryptFOpts]

theorem cryptFOpts_invol (E : BlockCipher) (hE : E.Lawful) (key : Bytes) (af up : Bool) (addr fcnt : BitVec 32) (data : Bytes)
    (h : data.length ≤ 16) :
    Spec.cryptFOpts E key af up addr fcnt (Spec.cryptFOpts E key af up addr fcnt data) = data := by
  simp only [Spec.cryptFOpts]
  apply xorBytes_invol
  rw [hE.enc_len]; exact h

theorem cryptFOpts_length (E : BlockCipher) (hE : E.Lawful) (key : Bytes) (af up : Bool) (addr fcnt : BitVec 32) (data : Bytes)
    (h : data.length ≤ 16) : (Spec.cryptFOpts E key af up addr fcnt data).length = data.length := by
  simp only [Spec.cryptFOpts]
  rw [xorBytes_length_le]; rw [hE.enc_len]; exact h

/-! ### C04: join MICs and join-accept encryption -/

theorem ecb_spec (f : Bytes → Bytes) (n : Nat) (data : Bytes) : ecb f n data = ((Spec.blocks n data).map f).flatten := by
  induction n generalizing data with
  | zero => rfl
  | succ n ih => simp [ecb, Spec.blocks, ih]

theorem ecb_length (f : Bytes → Bytes) (hf : ∀ b, (f b).length = 16) (n : Nat) (data : Bytes) : (ecb f n data).length = 16 * n := by
  induction n generalizing data with
  | zero => rfl
  | succ n ih => simp only [ecb, List.length_append, hf, ih]; omega

/-- ECB with `g` undoes ECB with `f` when `g ∘ f = id` on 16-byte blocks -/
theorem ecb_ecb (f g : Bytes → Bytes) (hf : ∀ b, (f b).length = 16) (hgf : ∀ b, b.length = 16 → g (f b) = b)
    (n : Nat) (data : Bytes) (hl : data.length = 16 * n) : ecb g n (ecb f n data) = data := by
  induction n generalizing data with
  | zero =>
    have : data = [] := List.eq_nil_of_length_eq_zero (by simpa using hl)
    subst this; rfl
  | succ n ih =>
    simp only [ecb]
    rw [List.take_left' (hf _), List.drop_left' (hf _), hgf _ (by rw [List.length_take]; omega),
        ih _ (by rw [List.length_drop]; omega), List.take_append_drop]

theorem join_mic_spec (E : BlockCipher) (key : Bytes) (p : PHY) (pl : MacPL) (b : Bytes)
    (hp : p.payload = some pl) (hb : pl.enc = ok b) :
    calcUplinkJoinMIC E key p = ok (Spec.micJoin E key (mhdrEnc p.mtype p.major) b) := by
  simp only [calcUplinkJoinMIC, hp, hb, Outcome.ok_bind, Spec.micJoin]

theorem ja_mic_spec (E : BlockCipher) (jt : Byte) (eui : BitVec 64) (dn : BitVec 16) (key : Bytes) (p : PHY) (ja : JoinAccept) (b : Bytes)
    (hp : p.payload = some (.joinAccept ja)) (hb : ja.enc = ok b) :
    calcDownlinkJoinMIC E jt eui dn key p = ok (Spec.micJoinAccept E key ja.optNeg jt eui dn (mhdrEnc p.mtype p.major) b) := by
  simp only [calcDownlinkJoinMIC, hp, hb, Outcome.ok_bind, Spec.micJoinAccept]

/-- `EncryptJoinAcceptPayload` produces exactly the specification's ciphertext (aes128_decrypt in ECB over payload|MIC),
split into the new opaque payload (all but the last 4 bytes) and the new MIC (the last 4 bytes) -/
theorem ja_encrypt_spec (E : BlockCipher) (key : Bytes) (p : PHY) (ja : JoinAccept) (b : Bytes)
    (hp : p.payload = some (.joinAccept ja)) (hb : ja.enc = ok b) (hm : p.mic.length = 4) (hl : (b ++ p.mic).length % 16 = 0) :
    p.encryptJA E key =
      ok { p with payload := some (.data ((Spec.encryptJoinAccept E key (b ++ p.mic)).take ((Spec.encryptJoinAccept E key (b ++ p.mic)).length - 4))),
                  mic := (Spec.encryptJoinAccept E key (b ++ p.mic)).drop ((Spec.encryptJoinAccept E key (b ++ p.mic)).length - 4) } := by
  have hmic : p.mic.take 4 = p.mic := List.take_of_length_le (by omega)
  have hn : ¬ ((b ++ p.mic).length % 16 != 0) = true := by simp only [hl]; decide
  simp only [PHY.encryptJA, hp, hb, Outcome.ok_bind, hmic, hn, if_false, Bool.false_eq_true, Spec.encryptJoinAccept, ecb_spec]

/-- the device recovers payload|MIC with aes128_encrypt -/
theorem ja_device (E : BlockCipher) (hE : E.Lawful) (key : Bytes) (pm : Bytes) (hl : pm.length % 16 = 0) :
    Spec.deviceDecryptJoinAccept E key (Spec.encryptJoinAccept E key pm) = pm := by
  have hlen : (Spec.encryptJoinAccept E key pm).length = pm.length := by
    rw [Spec.encryptJoinAccept, ← ecb_spec, ecb_length _ (hE.dec_len key)]; omega
  rw [Spec.deviceDecryptJoinAccept, hlen, ← ecb_spec, Spec.encryptJoinAccept, ← ecb_spec]
  exact ecb_ecb _ _ (hE.dec_len key) (hE.enc_dec key) _ pm (by omega)

end LW.CryptoSpec
