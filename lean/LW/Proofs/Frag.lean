/-
  LW.Proofs.Frag — structure, error and linearity proofs for the fragmentation encoder (C19).
-/
import LW.Model.Frag
import LW.Spec.Frag
import LW.Proofs.CryptoSpec
namespace LW.FragProofs
open LW Outcome

theorem ok_inj'' {α} {a b : α} (h : (ok a : Outcome α) = ok b) : a = b := by injection h

theorem rowsOf_length (k size : Nat) (data : Bytes) : (rowsOf k size data).length = k := by
  induction k generalizing data with
  | zero => rfl
  | succ k ih => simp [rowsOf, ih]

/-- the data rows are the data, in order: concatenating them gives the data back -/
theorem rowsOf_flatten (k size : Nat) (data : Bytes) (h : data.length = k * size) : (rowsOf k size data).flatten = data := by
  induction k generalizing data with
  | zero =>
    have : data = [] := List.eq_nil_of_length_eq_zero (by simpa using h)
    subst this; rfl
  | succ k ih =>
    simp only [rowsOf, List.flatten_cons]
    rw [ih (data.drop size) (by rw [List.length_drop, h]; rw [Nat.succ_mul]; omega), List.take_append_drop]

theorem parityRows_spec (line : Nat → Nat → Option (List Bool)) (size w : Nat) (rows : List Bytes) (k y0 : Nat) (ps : List Bytes)
    (h : parityRows line size w rows k y0 = some ps) :
    ps.length = k ∧ ∀ j, j < k → ∃ l, line (y0 + j + 1) w = some l ∧ ps[j]? = some (xorSelected size l rows) := by
  induction k generalizing y0 ps with
  | zero => simp only [parityRows] at h; cases h; exact ⟨rfl, by intro j hj; omega⟩
  | succ k ih =>
    simp only [parityRows] at h
    cases hl : line (y0 + 1) w with
    | none => simp [hl] at h
    | some l =>
      simp only [hl] at h
      cases hr : parityRows line size w rows k (y0 + 1) with
      | none => simp [hr] at h
      | some rest =>
        simp only [hr, Option.map_some, Option.some.injEq] at h
        subst h
        obtain ⟨h1, h2⟩ := ih (y0 + 1) rest hr
        refine ⟨by simp [h1], ?_⟩
        intro j hj
        cases j with
        | zero => exact ⟨l, by simpa using hl, by simp⟩
        | succ j =>
          obtain ⟨l', hl', hp'⟩ := h2 j (by omega)
          exact ⟨l', by rw [← hl']; congr 1; omega, by simpa using hp'⟩

/-- the structure of a successful encoding, for ANY parity-line function: data fragments unchanged and in order, followed by
exactly `red` parity fragments, parity fragment y being the XOR of the data fragments selected by `line (y+1) w` -/
theorem encode_structure (line : Nat → Nat → Option (List Bool)) (data : Bytes) (size red : Int) (out : List Bytes)
    (h : encodeWith line data size red = ok out) :
    0 < size ∧ data.length % size.toNat = 0 ∧
    ∃ parity : List Bytes,
      out = rowsOf (data.length / size.toNat) size.toNat data ++ parity ∧
      parity.length = red.toNat ∧
      ∀ y, y < red.toNat → ∃ l, line (y + 1) (data.length / size.toNat) = some l ∧
        parity[y]? = some (xorSelected size.toNat l (rowsOf (data.length / size.toNat) size.toNat data)) := by
  simp only [encodeWith] at h
  split at h
  · contradiction
  · rename_i hs
    split at h
    · contradiction
    · rename_i hm
      refine ⟨by omega, by simpa using hm, ?_⟩
      split at h
      · rename_i ps hp
        cases ok_inj'' h
        obtain ⟨h1, h2⟩ := parityRows_spec _ _ _ _ _ 0 ps hp
        exact ⟨ps, rfl, h1, fun y hy => by simpa using h2 y hy⟩
      · contradiction

/-- invalid sizes (zero, negative, non-dividing) are errors, never panics -/
theorem encode_errors (line : Nat → Nat → Option (List Bool)) (data : Bytes) (size red : Int)
    (h : size ≤ 0 ∨ data.length % size.toNat ≠ 0) : encodeWith line data size red = err := by
  simp only [encodeWith]
  rcases h with h | h
  · simp [h]
  · by_cases hs : size ≤ 0
    · simp [hs]
    · simp [hs, h]

/-! ### linearity over XOR -/

theorem xor_interchange (x y u v : Bytes) : xorBytes (xorBytes x y) (xorBytes u v) = xorBytes (xorBytes x u) (xorBytes y v) := by
  induction x generalizing y u v with
  | nil => simp [xorBytes]
  | cons a as ih =>
    cases y with
    | nil => cases u <;> simp [xorBytes]
    | cons b bs =>
      cases u with
      | nil => simp [xorBytes]
      | cons c cs =>
        cases v with
        | nil => simp [xorBytes, CryptoSpec.xorBytes_nil_right]
        | cons d ds =>
          simp only [xorBytes, ih]
          congr 1
          rw [BitVec.xor_assoc, BitVec.xor_assoc]
          congr 1
          rw [← BitVec.xor_assoc, ← BitVec.xor_assoc, BitVec.xor_comm b c]

theorem xor_take (a b : Bytes) (n : Nat) : (xorBytes a b).take n = xorBytes (a.take n) (b.take n) := by
  induction a generalizing b n with
  | nil => simp [xorBytes]
  | cons x xs ih =>
    cases b with
    | nil => cases n <;> simp [xorBytes, CryptoSpec.xorBytes_nil_right]
    | cons y ys => cases n with
      | zero => simp [xorBytes]
      | succ n => simp [xorBytes, ih]

theorem xor_drop (a b : Bytes) (n : Nat) : (xorBytes a b).drop n = xorBytes (a.drop n) (b.drop n) := by
  induction a generalizing b n with
  | nil => simp [xorBytes]
  | cons x xs ih =>
    cases b with
    | nil => cases n <;> simp [xorBytes, CryptoSpec.xorBytes_nil_right]
    | cons y ys => cases n with
      | zero => simp [xorBytes]
      | succ n => simp [xorBytes, ih]

def zipXor : List Bytes → List Bytes → List Bytes
  | a :: as, b :: bs => xorBytes a b :: zipXor as bs
  | _, _ => []

theorem rowsOf_xor (k size : Nat) (a b : Bytes) : rowsOf k size (xorBytes a b) = zipXor (rowsOf k size a) (rowsOf k size b) := by
  induction k generalizing a b with
  | zero => rfl
  | succ k ih => simp only [rowsOf, zipXor, xor_take, xor_drop, ih]

theorem fold_xor (l : List Bool) (ra rb : List Bytes) (accA accB : Bytes) (hl : ra.length = rb.length) :
    (l.zip (zipXor ra rb)).foldl (fun acc (p : Bool × Bytes) => if p.1 then xorBytes acc p.2 else acc) (xorBytes accA accB) =
    xorBytes ((l.zip ra).foldl (fun acc (p : Bool × Bytes) => if p.1 then xorBytes acc p.2 else acc) accA)
             ((l.zip rb).foldl (fun acc (p : Bool × Bytes) => if p.1 then xorBytes acc p.2 else acc) accB) := by
  induction l generalizing ra rb accA accB with
  | nil => simp
  | cons s ss ih =>
    cases ra with
    | nil => cases rb with
      | nil => simp [zipXor]
      | cons _ _ => simp at hl
    | cons x xs => cases rb with
      | nil => simp at hl
      | cons y ys =>
        simp only [zipXor, List.zip_cons_cons, List.foldl_cons]
        cases s
        · simp only [Bool.false_eq_true, if_false]; exact ih xs ys accA accB (by simpa using hl)
        · simp only [if_true]
          rw [xor_interchange]
          exact ih xs ys _ _ (by simpa using hl)

theorem zeros_xor (n : Nat) : xorBytes (zeros n) (zeros n) = zeros n := by
  induction n with
  | zero => rfl
  | succ n ih => simp only [zeros, List.replicate_succ, xorBytes] at ih ⊢; rw [ih]; simp

/-- a parity fragment of the XOR of two blocks is the XOR of their parity fragments -/
theorem xorSelected_linear (size : Nat) (l : List Bool) (ra rb : List Bytes) (hl : ra.length = rb.length) :
    xorSelected size l (zipXor ra rb) = xorBytes (xorSelected size l ra) (xorSelected size l rb) := by
  simp only [xorSelected]
  have := fold_xor l ra rb (zeros size) (zeros size) hl
  rw [zeros_xor] at this
  exact this

theorem parityRows_linear (line : Nat → Nat → Option (List Bool)) (size w : Nat) (ra rb : List Bytes) (hl : ra.length = rb.length)
    (k y : Nat) (pa pb : List Bytes) (ha : parityRows line size w ra k y = some pa) (hb : parityRows line size w rb k y = some pb) :
    parityRows line size w (zipXor ra rb) k y = some (zipXor pa pb) := by
  induction k generalizing y pa pb with
  | zero => simp only [parityRows] at ha hb ⊢; cases ha; cases hb; rfl
  | succ k ih =>
    simp only [parityRows] at ha hb ⊢
    cases hline : line (y + 1) w with
    | none => simp [hline] at ha
    | some l =>
      simp only [hline] at ha hb ⊢
      cases hra : parityRows line size w ra k (y + 1) with
      | none => simp [hra] at ha
      | some ra' =>
        cases hrb : parityRows line size w rb k (y + 1) with
        | none => simp [hrb] at hb
        | some rb' =>
          simp only [hra, hrb, Option.map_some, Option.some.injEq] at ha hb
          subst ha; subst hb
          rw [ih (y + 1) ra' rb' hra hrb]
          simp only [Option.map_some, zipXor, xorSelected_linear size l ra rb hl]

theorem zipXor_append (a1 a2 b1 b2 : List Bytes) (h : a1.length = b1.length) : zipXor (a1 ++ a2) (b1 ++ b2) = zipXor a1 b1 ++ zipXor a2 b2 := by
  induction a1 generalizing b1 with
  | nil => cases b1 with
    | nil => rfl
    | cons _ _ => simp at h
  | cons x xs ih => cases b1 with
    | nil => simp at h
    | cons y ys => simp only [List.cons_append, zipXor, ih ys (by simpa using h)]

/-- C19 linearity: encode (a ⊕ b) = encode a ⊕ encode b, fragment by fragment, for any line function, sizes and redundancy -/
theorem encode_linear (line : Nat → Nat → Option (List Bool)) (a b : Bytes) (size red : Int) (hab : a.length = b.length)
    (oa ob : List Bytes) (h1 : encodeWith line a size red = ok oa) (h2 : encodeWith line b size red = ok ob) :
    encodeWith line (xorBytes a b) size red = ok (zipXor oa ob) := by
  have hlen : (xorBytes a b).length = a.length := by rw [xorBytes_length]; omega
  simp only [encodeWith] at h1 h2 ⊢
  split at h1
  · contradiction
  · rename_i hs
    simp only [hs, if_false] at h2 ⊢
    split at h1
    · contradiction
    · rename_i hm
      rw [hlen]
      rw [← hab] at h2
      simp only [hm, if_false, Bool.false_eq_true] at h2 ⊢
      split at h1
      · rename_i pa hpa
        split at h2
        · rename_i pb hpb
          cases ok_inj'' h1; cases ok_inj'' h2
          rw [rowsOf_xor]
          rw [parityRows_linear line _ _ _ _ (by rw [rowsOf_length, rowsOf_length]) _ _ pa pb hpa hpb]
          simp only
          rw [zipXor_append _ _ _ _ (by rw [rowsOf_length, rowsOf_length])]
        · contradiction
      · contradiction

/-! ### the parity matrix line is the TS004 pseudo-code -/

theorem prbs23_spec (x : Nat) : prbs23 x = Spec.prbs23 x := by
  unfold prbs23 Spec.prbs23
  rw [Nat.shiftRight_eq_div_pow, Nat.shiftRight_eq_div_pow, Nat.shiftLeft_eq, Nat.and_one_is_mod, Nat.and_one_is_mod]

theorem drawCoeff_spec (m md fuel x : Nat) : drawCoeff m md fuel x = Spec.drawCoeff m md fuel x := by
  induction fuel generalizing x with
  | zero => rfl
  | succ f ih => simp only [drawCoeff, Spec.drawCoeff, prbs23_spec, ih]

theorem matrixLine_spec (fuel n m : Nat) : matrixLine fuel n m = Spec.matrixLine fuel n m := by
  simp only [matrixLine, Spec.matrixLine, isPower2, Spec.isPower2]
  have : ∀ (k x : Nat) (line : List Bool), matrixLine.go fuel m (m + if (m != 0 && Nat.land m (m - 1) == 0) = true then 1 else 0) k x line
      = Spec.matrixLine.go fuel m (m + if (m != 0 && Nat.land m (m - 1) == 0) = true then 1 else 0) k x line := by
    intro k
    induction k with
    | zero => intro x line; rfl
    | succ k ih =>
      intro x line
      simp only [matrixLine.go, Spec.matrixLine.go, drawCoeff_spec]
      cases Spec.drawCoeff m (m + if (m != 0 && Nat.land m (m - 1) == 0) = true then 1 else 0) fuel x with
      | none => rfl
      | some p => exact ih _ _
  exact this _ _ _

end LW.FragProofs
