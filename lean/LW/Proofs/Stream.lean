/-
  LW.Proofs.Stream — the MAC-command stream decoder inverts concatenated encodings, for ANY registry
  (hence for every history of proprietary registrations).
-/
import LW.Proofs.MacRT
namespace LW.Stream
open LW Outcome MacRT

/-- a command is framed consistently with registry `reg` in direction `up` -/
def WellFramed (reg : Registry) (up : Bool) (c : MacCmd) : Prop :=
  match c.payload with
  | none => reg.lookup up c.cid.toNat = none
  | some p => ∃ e bs, reg.lookup up c.cid.toNat = some e ∧ e.kind = p.kind ∧ p.enc = ok bs ∧ e.size = (bs.length : Int) ∧ 0 < bs.length

/-- what a command looks like after the wire (DeviceTimeAns is rounded to 1/256 s) -/
def normCmd (c : MacCmd) : MacCmd := { c with payload := c.payload.map Spec.wireNorm }

theorem aux_nil (reg : Registry) (up : Bool) (fuel : Nat) (acc : List MacCmd) :
    decodeStreamAux reg up fuel [] acc = ok acc.reverse := by
  cases fuel <;> rfl

theorem stream_aux (reg : Registry) (up : Bool) (cmds : List MacCmd) :
    ∀ (bs : Bytes) (fuel : Nat) (acc : List MacCmd), (∀ c ∈ cmds, WellFramed reg up c) → encodeCmds cmds = ok bs →
      bs.length ≤ fuel → decodeStreamAux reg up fuel bs acc = ok (acc.reverse ++ cmds.map normCmd) := by
  induction cmds with
  | nil =>
    intro bs fuel acc _ he _
    simp only [encodeCmds] at he
    cases ok_inj he
    simp [aux_nil]
  | cons c cs ih =>
    intro bs fuel acc hw he hf
    have hwc := hw c (List.mem_cons_self)
    have hws : ∀ c' ∈ cs, WellFramed reg up c' := fun c' h => hw c' (List.mem_cons_of_mem _ h)
    simp only [encodeCmds] at he
    cases hc : c.enc with
    | err => rw [hc] at he; contradiction
    | panic => rw [hc] at he; contradiction
    | ok cb =>
      rw [hc] at he
      simp only [Outcome.ok_bind] at he
      cases hr : encodeCmds cs with
      | err => rw [hr] at he; contradiction
      | panic => rw [hr] at he; contradiction
      | ok rb =>
        rw [hr] at he
        simp only [Outcome.ok_bind] at he
        cases ok_inj he
        obtain ⟨cid, pl⟩ := c
        cases pl with
        | none =>
          simp only [MacCmd.enc] at hc
          cases ok_inj hc
          simp only [WellFramed] at hwc
          cases fuel with
          | zero => simp at hf
          | succ f =>
            simp only [List.cons_append, List.nil_append, decodeStreamAux, hwc]
            simp only [Int.toNat_zero, List.take_zero, List.drop_zero, MacCmd.dec]
            have : ¬ ((0 : Int) < 0) := by omega
            simp only [this, if_false]
            have h0 : ¬ (rb.length < 0) := by omega
            simp only [h0, if_false]
            rw [ih rb f _ hws hr (by simp at hf; omega)]
            simp [normCmd]
        | some p =>
          simp only [MacCmd.enc] at hc
          cases hp : p.enc with
          | err => rw [hp] at hc; contradiction
          | panic => rw [hp] at hc; contradiction
          | ok pb =>
            rw [hp] at hc
            simp only [Outcome.ok_bind] at hc
            cases ok_inj hc
            simp only [WellFramed] at hwc
            obtain ⟨e, bs', hl, hk, hpe, hsz, hpos⟩ := hwc
            rw [hp] at hpe
            cases ok_inj hpe
            cases fuel with
            | zero => simp at hf
            | succ f =>
              simp only [List.cons_append, decodeStreamAux, hl, hsz]
              have h1 : ¬ ((pb.length : Int) < 0) := by omega
              simp only [h1, if_false, Int.toNat_natCast]
              have h2 : ¬ ((pb ++ rb).length < pb.length) := by simp
              simp only [h2, if_false, List.take_left', List.drop_left']
              have hd : MacCmd.dec reg up (cid :: pb) = ok ({ cid := cid, payload := some (Spec.wireNorm p) }, true) := by
                cases pb with
                | nil => simp at hpos
                | cons x xs =>
                  simp only [MacCmd.dec, hl, hk]
                  rw [lossless p (x :: xs) hp]
              rw [hd]
              simp only
              rw [ih rb f _ hws hr (by simp at hf; omega)]
              simp [normCmd]

/-- C07 stream clause on the model: any well-framed command sequence, of any length, under any registry -/
theorem stream_rt (reg : Registry) (up : Bool) (cmds : List MacCmd) (bs : Bytes)
    (hw : ∀ c ∈ cmds, WellFramed reg up c) (he : encodeCmds cmds = ok bs) :
    decodeStream reg up bs = ok (cmds.map normCmd) := by
  have := stream_aux reg up cmds bs bs.length [] hw he (Nat.le_refl _)
  simpa [decodeStream] using this

end LW.Stream
