/-
  LW.Proofs.JoinAcceptRT — CFList and JoinAcceptPayload: decode ∘ encode = id on the values the encoder accepts
  (five channel frequencies, or canonical channel masks: at most six, no trailing all-zero mask).
-/
import LW.Model.Frame
import LW.Proofs.FrameRT
import LW.Proofs.MacRT
import LW.Proofs.CryptoSpec
namespace LW.FrameRT
open LW Outcome MacRT

/-! ### CFList and JoinAccept: decode ∘ encode -/

theorem freq100_rt (f : BitVec 32) (h1 : f.toNat % 100 = 0) (h2 : f.toNat / 100 ≤ 16777215) :
    freq100Dec (leBytes 3 (f.toNat / 100)) = f := by
  unfold freq100Dec
  rw [leNat_leBytes, show (256:Nat) ^ 3 = 16777216 from rfl]
  apply BitVec.eq_of_toNat_eq
  have := f.isLt
  generalize hq : f.toNat / 100 = q at *
  have hf : f.toNat = 100 * q := by omega
  simp only [BitVec.toNat_ofNat, hf]
  rw [Nat.mod_eq_of_lt (show q < 16777216 by omega), Nat.mod_eq_of_lt (by omega)]
  omega

/-- five channel frequencies encode to 15 bytes that decode to the same five -/
theorem cfChannels_rt (f0 f1 f2 f3 f4 : BitVec 32) (b : Bytes) (h : cfChannelsEnc [f0, f1, f2, f3, f4] = ok b) :
    b.length = 15 ∧ cfChannelsDec (List.replicate 5 0) b = ok [f0, f1, f2, f3, f4] := by
  simp only [cfChannelsEnc] at h
  repeat (split at h; · contradiction)
  simp only [Outcome.ok_bind, List.append_nil] at h
  cases ok_inj h
  rename_i a0 b0 a1 b1 a2 b2 a3 b3 a4 b4
  have e0 := freq100_rt f0 (by simpa using a0) (by omega)
  have e1 := freq100_rt f1 (by simpa using a1) (by omega)
  have e2 := freq100_rt f2 (by simpa using a2) (by omega)
  have e3 := freq100_rt f3 (by simpa using a3) (by omega)
  have e4 := freq100_rt f4 (by simpa using a4) (by omega)
  refine ⟨by simp, ?_⟩
  simp only [cfChannelsDec, List.length_append, leBytes_length]
  simp only [show ¬ (3 + (3 + (3 + (3 + 3))) > 15) by decide, if_false, show ((3 + (3 + (3 + (3 + 3)))) % 3 != 0) = false by decide, Bool.false_eq_true,
    show (3 + (3 + (3 + (3 + 3)))) / 3 = 5 from rfl, List.range, List.range.loop, List.map, List.drop_replicate]
  simp only [leBytes] at e0 e1 e2 e3 e4 ⊢
  simp [e0, e1, e2, e3, e4]


/-! channel masks: trailing all-zero masks are not preserved by the decoder (they are indistinguishable from padding) -/

theorem masksLoop_zero_step (xs p acc : List (BitVec 16)) : cfMasksLoop (0 :: xs) p acc = cfMasksLoop xs (p ++ [0]) acc := by
  simp [cfMasksLoop]

theorem masksLoop_nonzero_step (m : BitVec 16) (hm : m ≠ 0) (xs p acc : List (BitVec 16)) :
    cfMasksLoop (m :: xs) p acc = cfMasksLoop xs [] (acc ++ p ++ [m]) := by
  simp only [cfMasksLoop]
  rw [if_pos (by simpa using hm)]

theorem masksLoop_zeros (k : Nat) (p acc : List (BitVec 16)) : cfMasksLoop (List.replicate k 0) p acc = acc := by
  induction k generalizing p with
  | zero => rfl
  | succ k ih => rw [List.replicate_succ, masksLoop_zero_step, ih]

theorem masksLoop_prefix (ys : List (BitVec 16)) (m : BitVec 16) (hm : m ≠ 0) (rest p acc : List (BitVec 16)) :
    cfMasksLoop (ys ++ m :: rest) p acc = cfMasksLoop rest [] (acc ++ p ++ ys ++ [m]) := by
  induction ys generalizing p acc with
  | nil => rw [List.nil_append, masksLoop_nonzero_step m hm, List.append_nil]
  | cons y ys ih =>
    rw [List.cons_append]
    by_cases hy : y = 0
    · subst hy; rw [masksLoop_zero_step, ih]; simp [List.append_assoc]
    · rw [masksLoop_nonzero_step y hy, ih]; simp [List.append_assoc]

theorem pairsLE_masks (ms : List (BitVec 16)) (tail : Bytes) : pairsLE (ms.flatMap chMaskEnc ++ tail) = ms ++ pairsLE tail := by
  induction ms with
  | nil => simp
  | cons m ms ih =>
    have : chMaskEnc m = [byteOfNat (m.toNat % 256), byteOfNat (m.toNat / 256 % 256)] := rfl
    simp only [List.flatMap_cons, this, List.cons_append, List.nil_append, pairsLE, ih, List.cons.injEq, and_true]
    apply BitVec.eq_of_toNat_eq
    have := m.isLt
    simp [leNat, byteOfNat]
    omega


/-- a list of channel masks without trailing all-zero mask (canonical: those are indistinguishable from the padding) -/
def masksCanonical : List (BitVec 16) → Bool
  | [] => true
  | ms => ms.getLast? != some 0

theorem masksLoop_canonical (ms : List (BitVec 16)) (hc : masksCanonical ms = true) (k : Nat) :
    cfMasksLoop (ms ++ List.replicate k 0) [] [] = ms := by
  cases hms : ms.reverse with
  | nil =>
    have : ms = [] := by simpa using hms
    subst this
    exact masksLoop_zeros k [] []
  | cons m rest =>
    have hsplit : ms = rest.reverse ++ [m] := by
      have := congrArg List.reverse hms; simpa using this
    have hm : m ≠ 0 := by
      intro h0
      rw [hsplit, h0] at hc
      have hl : (rest.reverse ++ [(0 : BitVec 16)]).getLast? = some 0 := List.getLast?_concat
      cases hr : rest.reverse ++ [(0 : BitVec 16)] with
      | nil => simp at hr
      | cons x xs => rw [hr] at hc hl; simp [masksCanonical, hl] at hc
    rw [hsplit, List.append_assoc, List.singleton_append, masksLoop_prefix _ m hm, masksLoop_zeros]
    simp

theorem flatMap_chMask_length (ms : List (BitVec 16)) : (ms.flatMap chMaskEnc).length = 2 * ms.length := by
  induction ms with
  | nil => rfl
  | cons m ms ih =>
    have : (chMaskEnc m).length = 2 := by simp [chMaskEnc]
    simp only [List.flatMap_cons, List.length_append, List.length_cons, this, ih]; omega

theorem pairsLE_zeros (k : Nat) : pairsLE (zeros k) = List.replicate (k / 2) 0 := by
  induction k using Nat.strongRecOn with
  | _ k ih =>
    match k with
    | 0 => rfl
    | 1 => rfl
    | k+2 =>
      have : zeros (k + 2) = 0 :: 0 :: zeros k := by simp [zeros, List.replicate_succ]
      rw [this, pairsLE, ih k (by omega)]
      have : (k + 2) / 2 = k / 2 + 1 := by omega
      rw [this, List.replicate_succ]
      congr 1

/-- channel masks (at most 6, no trailing all-zero mask) encode to bytes that decode to the same masks -/
theorem cfMasks_rt (ms : List (BitVec 16)) (b : Bytes) (hc : masksCanonical ms = true) (h : cfMasksEnc ms = ok b) :
    cfMasksDec [] (((b ++ zeros 16).take 16).take 15) = ok ms := by
  simp only [cfMasksEnc] at h
  split at h; · contradiction
  rename_i hl
  cases ok_inj h
  have hlen := flatMap_chMask_length ms
  have h15 : ((ms.flatMap chMaskEnc ++ zeros 16).take 16).take 15 = ms.flatMap chMaskEnc ++ zeros (15 - 2 * ms.length) := by
    rw [List.take_take, show min 15 16 = 15 from rfl, List.take_append]
    have h1 : (ms.flatMap chMaskEnc).take 15 = ms.flatMap chMaskEnc := List.take_of_length_le (by omega)
    rw [h1, hlen]
    congr 1
    simp only [zeros, List.take_replicate]
    congr 1
    omega
  rw [h15]
  simp only [cfMasksDec]
  have hle : ¬ (ms.flatMap chMaskEnc ++ zeros (15 - 2 * ms.length)).length > 15 := by simp [hlen, zeros]; omega
  rw [if_neg hle, pairsLE_masks, pairsLE_zeros, masksLoop_canonical ms hc]


/-- a CFList the codec reproduces exactly: five channel frequencies under any type other than 1, or canonical channel masks under type 1 -/
def cfListCanonical (l : CFList) : Bool :=
  match l.payload with
  | .channels fs => fs.length == 5 && l.typ != 1
  | .masks ms => masksCanonical ms && l.typ == 1

theorem cflist_rt (l : CFList) (b : Bytes) (hc : cfListCanonical l = true) (h : l.enc = ok b) : b.length = 16 ∧ CFList.dec b = ok l := by
  obtain ⟨pl, t⟩ := l
  cases pl with
  | channels fs =>
    simp only [cfListCanonical, Bool.and_eq_true, beq_iff_eq, bne_iff_ne, ne_eq] at hc
    match fs, hc.1 with
    | [f0, f1, f2, f3, f4], _ =>
      simp only [CFList.enc, CFListP.enc] at h
      cases hb : cfChannelsEnc [f0, f1, f2, f3, f4] with
      | err => rw [hb] at h; contradiction
      | panic => rw [hb] at h; contradiction
      | ok cb =>
        rw [hb] at h; simp only [Outcome.ok_bind] at h; cases ok_inj h
        obtain ⟨hl, hd⟩ := cfChannels_rt f0 f1 f2 f3 f4 cb hb
        have h15 : ((cb ++ zeros 16).take 16).take 15 = cb := by
          rw [List.take_take, show min 15 16 = 15 from rfl, ← hl, List.take_left' rfl]
        have hlen : (((cb ++ zeros 16).take 16).take 15 ++ [t]).length = 16 := by rw [h15]; simp [hl]
        refine ⟨hlen, ?_⟩
        have hne : ¬ ((((cb ++ zeros 16).take 16).take 15 ++ [t]).length != 16) = true := by rw [hlen]; decide
        simp only [CFList.dec, hne, if_false, Bool.false_eq_true]
        rw [h15]
        have ht : (cb ++ [t]).getD 15 0 = t := by simp [List.getD, List.getElem?_append_right, hl]
        have htk : (cb ++ [t]).take 15 = cb := by rw [← hl]; exact List.take_left' rfl
        rw [ht, htk]
        have : (t == 1) = false := by simpa using hc.2
        simp only [this, Bool.false_eq_true, if_false, hd, Outcome.ok_bind]
  | masks ms =>
    simp only [cfListCanonical, Bool.and_eq_true, beq_iff_eq] at hc
    obtain ⟨hcan, ht1⟩ := hc
    subst ht1
    simp only [CFList.enc, CFListP.enc] at h
    cases hb : cfMasksEnc ms with
    | err => rw [hb] at h; contradiction
    | panic => rw [hb] at h; contradiction
    | ok cb =>
      rw [hb] at h; simp only [Outcome.ok_bind] at h; cases ok_inj h
      have hd := cfMasks_rt ms cb hcan hb
      have hcl : cb.length ≤ 12 := by
        simp only [cfMasksEnc] at hb
        split at hb; · contradiction
        cases ok_inj hb
        rw [flatMap_chMask_length]; omega
      have hl15 : (((cb ++ zeros 16).take 16).take 15).length = 15 := by simp [zeros]
      have hlen : (((cb ++ zeros 16).take 16).take 15 ++ [(1 : Byte)]).length = 16 := by rw [List.length_append, hl15]; rfl
      refine ⟨hlen, ?_⟩
      have hne : ¬ ((((cb ++ zeros 16).take 16).take 15 ++ [(1 : Byte)]).length != 16) = true := by rw [hlen]; decide
      simp only [CFList.dec, hne, if_false, Bool.false_eq_true]
      have ht : (((cb ++ zeros 16).take 16).take 15 ++ [(1 : Byte)]).getD 15 0 = 1 := by
        simp only [List.getD]; rw [List.getElem?_append_right (by omega)]; simp [hl15]
      have htk : (((cb ++ zeros 16).take 16).take 15 ++ [(1 : Byte)]).take 15 = ((cb ++ zeros 16).take 16).take 15 :=
        List.take_left' hl15
      rw [ht, htk]
      simp only [beq_self_eq_true, if_true, hd, Outcome.ok_bind]


theorem dls_rt : ∀ (o : Bool), ∀ (r2 r1 : Fin 16), r1.val < 8 →
    dlSettingsDec (((BitVec.ofNat 8 r2.val) ||| ((BitVec.ofNat 8 r1.val) <<< 4)) ||| (if o then 0x80#8 else 0#8)) = (o, BitVec.ofNat 8 r2.val, BitVec.ofNat 8 r1.val) := by
  decide

/-- JoinAcceptPayload: every value the encoder accepts (CFList absent or canonical) decodes to itself -/
theorem joinaccept_rt (ja : JoinAccept) (b : Bytes) (hcf : ∀ l, ja.cfList = some l → cfListCanonical l = true) (h : ja.enc = ok b) :
    JoinAccept.dec {} b = ok ja := by
  obtain ⟨jn, nid, addr, o, r2, r1, rxd, cf⟩ := ja
  simp only [JoinAccept.enc] at h
  split at h; · contradiction
  split at h; · contradiction
  rename_i hrx hjn
  simp only [dlSettingsEnc] at h
  split at h; · contradiction
  split at h; · contradiction
  rename_i h2 h1
  simp only [Outcome.ok_bind] at h
  have hd := dls_rt o ⟨r2.toNat, by omega⟩ ⟨r1.toNat, by omega⟩ (by simp; omega)
  simp only [BitVec.ofNat_toNat, BitVec.setWidth_eq] at hd
  have e1 : BitVec.ofNat 32 (leNat (leBytes 3 jn.toNat)) = jn := by
    rw [leNat_leBytes]; apply BitVec.eq_of_toNat_eq; have := jn.isLt; simp; omega
  have e2 : BitVec.ofNat 24 (leNat (leBytes 3 nid.toNat)) = nid := by
    rw [leNat_leBytes]; apply BitVec.eq_of_toNat_eq; have := nid.isLt; simp; omega
  have e3 : BitVec.ofNat 32 (leNat (leBytes 4 addr.toNat)) = addr := by
    rw [leNat_leBytes]; apply BitVec.eq_of_toNat_eq; have := addr.isLt; simp; omega
  cases cf with
  | none =>
    simp only at h
    cases ok_inj h
    simp only [JoinAccept.dec, List.length_append, leBytes_length, List.length_cons, List.length_nil]
    simp only [show ¬ ((3 + 3 + 4 + (0 + 1 + 1) != 12) = true ∧ (3 + 3 + 4 + (0 + 1 + 1) != 28) = true) by decide, if_false,
      show (3 + 3 + 4 + (0 + 1 + 1) == 28) = false by decide, Bool.false_eq_true]
    have t1 : (leBytes 3 jn.toNat ++ leBytes 3 nid.toNat ++ leBytes 4 addr.toNat ++ [(r2 ||| r1 <<< 4) ||| (if o then 0x80#8 else 0#8), rxd]).take 3 = leBytes 3 jn.toNat := by
      simp only [List.append_assoc]; exact List.take_left' (by simp)
    have t2 : ((leBytes 3 jn.toNat ++ leBytes 3 nid.toNat ++ leBytes 4 addr.toNat ++ [(r2 ||| r1 <<< 4) ||| (if o then 0x80#8 else 0#8), rxd]).drop 3).take 3 = leBytes 3 nid.toNat := by
      simp only [List.append_assoc]; rw [List.drop_left' (by simp)]; exact List.take_left' (by simp)
    have t3 : ((leBytes 3 jn.toNat ++ leBytes 3 nid.toNat ++ leBytes 4 addr.toNat ++ [(r2 ||| r1 <<< 4) ||| (if o then 0x80#8 else 0#8), rxd]).drop 6).take 4 = leBytes 4 addr.toNat := by
      simp only [List.append_assoc]
      rw [show (6 : Nat) = 3 + 3 from rfl, ← List.drop_drop, List.drop_left' (by simp), List.drop_left' (by simp)]
      exact List.take_left' (by simp)
    rw [t1, t2, t3, e1, e2, e3]
    simp only [leBytes, List.cons_append, List.nil_append, List.getD_cons_succ, List.getD_cons_zero, hd]
  | some l =>
    simp only at h
    cases hc : l.enc with
    | err => rw [hc] at h; contradiction
    | panic => rw [hc] at h; contradiction
    | ok c =>
      rw [hc] at h; simp only [Outcome.ok_bind] at h
      cases ok_inj h
      obtain ⟨hcl, hcd⟩ := cflist_rt l c (hcf l rfl) hc
      simp only [JoinAccept.dec, List.length_append, leBytes_length, List.length_cons, List.length_nil, hcl]
      simp only [show ¬ ((3 + 3 + 4 + (0 + 1 + 1) + 16 != 12) = true ∧ (3 + 3 + 4 + (0 + 1 + 1) + 16 != 28) = true) by decide, if_false,
        show (3 + 3 + 4 + (0 + 1 + 1) + 16 == 28) = true by decide, if_true]
      have t1 : (leBytes 3 jn.toNat ++ leBytes 3 nid.toNat ++ leBytes 4 addr.toNat ++ [(r2 ||| r1 <<< 4) ||| (if o then 0x80#8 else 0#8), rxd] ++ c).take 3 = leBytes 3 jn.toNat := by
        simp only [List.append_assoc]; exact List.take_left' (by simp)
      have t2 : ((leBytes 3 jn.toNat ++ leBytes 3 nid.toNat ++ leBytes 4 addr.toNat ++ [(r2 ||| r1 <<< 4) ||| (if o then 0x80#8 else 0#8), rxd] ++ c).drop 3).take 3 = leBytes 3 nid.toNat := by
        simp only [List.append_assoc]; rw [List.drop_left' (by simp)]; exact List.take_left' (by simp)
      have t3 : ((leBytes 3 jn.toNat ++ leBytes 3 nid.toNat ++ leBytes 4 addr.toNat ++ [(r2 ||| r1 <<< 4) ||| (if o then 0x80#8 else 0#8), rxd] ++ c).drop 6).take 4 = leBytes 4 addr.toNat := by
        simp only [List.append_assoc]
        rw [show (6 : Nat) = 3 + 3 from rfl, ← List.drop_drop, List.drop_left' (by simp), List.drop_left' (by simp)]
        exact List.take_left' (by simp)
      have t4 : (leBytes 3 jn.toNat ++ leBytes 3 nid.toNat ++ leBytes 4 addr.toNat ++ [(r2 ||| r1 <<< 4) ||| (if o then 0x80#8 else 0#8), rxd] ++ c).drop 12 = c :=
        List.drop_left' (by simp)
      rw [t1, t2, t3, t4, e1, e2, e3, hcd]
      simp only [leBytes, List.cons_append, List.nil_append, List.getD_cons_succ, List.getD_cons_zero, hd, Outcome.ok_bind]

/-- join-accept: encrypt, then decrypt with the same key, gives the frame back (payload decoded, MIC restored) -/
theorem ja_encrypt_decrypt (E : BlockCipher) (hE : E.Lawful) (key : Bytes) (p q : PHY) (ja : JoinAccept)
    (hp : p.payload = some (.joinAccept ja)) (hcf : ∀ l, ja.cfList = some l → cfListCanonical l = true) (hm : p.mic.length = 4)
    (henc : p.encryptJA E key = ok q) : q.decryptJA E key = ok p := by
  cases hb : ja.enc with
  | err => simp [PHY.encryptJA, hp, hb] at henc
  | panic => simp [PHY.encryptJA, hp, hb] at henc
  | ok b =>
    have hmt : p.mic.take 4 = p.mic := List.take_of_length_le (by omega)
    have hl : (b ++ p.mic).length % 16 = 0 := by
      simp only [PHY.encryptJA, hp, hb, Outcome.ok_bind, hmt] at henc
      split at henc
      · contradiction
      · rename_i h; simpa using h
    rw [CryptoSpec.ja_encrypt_spec E key p ja b hp hb hm hl] at henc
    cases ok_inj henc
    have hctl : (Spec.encryptJoinAccept E key (b ++ p.mic)).length = (b ++ p.mic).length := by
      rw [Spec.encryptJoinAccept, ← CryptoSpec.ecb_spec, CryptoSpec.ecb_length _ (hE.dec_len key)]; omega
    have hdec := CryptoSpec.ja_device E hE key (b ++ p.mic) hl
    simp only [PHY.decryptJA, List.take_append_drop]
    rw [hctl]
    have hn : ¬ ((b ++ p.mic).length % 16 != 0) = true := by rw [hl]; decide
    rw [if_neg hn, CryptoSpec.ecb_spec, ← hctl]
    have : ((Spec.blocks ((Spec.encryptJoinAccept E key (b ++ p.mic)).length / 16) (Spec.encryptJoinAccept E key (b ++ p.mic))).map (E.enc key)).flatten = b ++ p.mic := hdec
    rw [this]
    have hlen : (b ++ p.mic).length = b.length + 4 := by simp [hm]
    have h4 : ¬ (b ++ p.mic).length < 4 := by omega
    rw [if_neg h4]
    have ht : (b ++ p.mic).take ((b ++ p.mic).length - 4) = b := by rw [hlen]; simp
    have hd : (b ++ p.mic).drop ((b ++ p.mic).length - 4) = p.mic := by rw [hlen]; simp
    rw [ht, hd, joinaccept_rt ja b hcf hb]
    simp only [Outcome.ok_bind]
    congr 1
    cases p; simp_all

end LW.FrameRT
