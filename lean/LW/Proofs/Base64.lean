/-
  LW.Proofs.Base64 — base64 (StdEncoding) text of any byte string decodes to that byte string (C01 text clause).
-/
import LW.Model.Base64
namespace LW.Base64
open LW
set_option maxRecDepth 100000

theorem dec6_enc6_fin : ∀ n : Fin 64, dec6 (enc6 n.val) = some n.val := by decide
theorem dec6_enc6 (m : Nat) : dec6 (enc6 m) = some (m % 64) := by
  have := dec6_enc6_fin ⟨m % 64, Nat.mod_lt _ (by decide)⟩
  simp only [enc6, Nat.mod_mod] at this ⊢
  exact this
theorem enc6_plain_fin : ∀ n : Fin 64, enc6 n.val ≠ '=' ∧ enc6 n.val ≠ '\n' ∧ enc6 n.val ≠ '\r' := by decide
theorem enc6_plain (m : Nat) : enc6 m ≠ '=' ∧ enc6 m ≠ '\n' ∧ enc6 m ≠ '\r' := by
  have := enc6_plain_fin ⟨m % 64, Nat.mod_lt _ (by decide)⟩
  simp only [enc6, Nat.mod_mod] at this ⊢
  exact this

theorem byte_eq (x : Nat) (b : Byte) (h : x % 256 = b.toNat) : byteOfNat x = b := by
  apply BitVec.eq_of_toNat_eq
  simp [byteOfNat, h]

theorem decodeQuads_encode (bs : Bytes) : decodeQuads (encode bs) = some bs := by
  induction bs using encode.induct with
  | case1 a b c rest ih =>
    simp only [encode]
    have h1 := (enc6_plain ((a.toNat * 65536 + b.toNat * 256 + c.toNat) / 64)).1
    have h2 := (enc6_plain (a.toNat * 65536 + b.toNat * 256 + c.toNat)).1
    have ha := a.isLt
    have hb := b.isLt
    have hc := c.isLt
    rw [decodeQuads]
    · simp only [dec6_enc6, Option.bind_eq_bind, Option.bind_some, ih]
      congr 2
      · apply byte_eq; omega
      · congr 1
        · apply byte_eq; omega
        · congr 1
          apply byte_eq; omega
    · intro x; intros; exact h1 x
    · intro x; intros; exact h2 x
  | case2 a b =>
    simp only [encode]
    have ha := a.isLt
    have hb := b.isLt
    have h1 := (enc6_plain ((a.toNat * 65536 + b.toNat * 256) / 64)).1
    rw [decodeQuads]
    · simp only [dec6_enc6, Option.bind_eq_bind, Option.bind_some]
      congr 2
      · apply byte_eq; omega
      · congr 1
        apply byte_eq; omega
    · intro x; exact h1 x
  | case3 a =>
    simp only [encode]
    have ha := a.isLt
    rw [decodeQuads]
    simp only [dec6_enc6, Option.bind_eq_bind, Option.bind_some]
    congr 2
    apply byte_eq; omega
  | case4 => rfl

theorem encode_plain (bs : Bytes) : ∀ ch ∈ encode bs, ch ≠ '\n' ∧ ch ≠ '\r' := by
  induction bs using encode.induct with
  | case1 a b c rest ih =>
    intro ch h
    simp only [encode, List.mem_cons] at h
    rcases h with rfl | rfl | rfl | rfl | h
    · exact (enc6_plain _).2
    · exact (enc6_plain _).2
    · exact (enc6_plain _).2
    · exact (enc6_plain _).2
    · exact ih ch h
  | case2 a b =>
    intro ch h
    simp only [encode, List.mem_cons, List.not_mem_nil, or_false] at h
    rcases h with rfl | rfl | rfl | rfl
    · exact (enc6_plain _).2
    · exact (enc6_plain _).2
    · exact (enc6_plain _).2
    · decide
  | case3 a =>
    intro ch h
    simp only [encode, List.mem_cons, List.not_mem_nil, or_false] at h
    rcases h with rfl | rfl | rfl | rfl
    · exact (enc6_plain _).2
    · exact (enc6_plain _).2
    · decide
    · decide
  | case4 => intro ch h; simp [encode] at h

/-- base64 text of any byte string decodes to that byte string -/
theorem decode_encode (bs : Bytes) : decode (encode bs) = some bs := by
  unfold decode
  rw [List.filter_eq_self.mpr, decodeQuads_encode]
  intro ch h
  have := encode_plain bs ch h
  simp [this.1, this.2]
end LW.Base64
