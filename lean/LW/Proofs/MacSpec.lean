/-
  LW.Proofs.MacSpec — the model codecs of the MAC payloads agree with the table-driven specification
  (helper lemmas for C06). 1-byte payloads: kernel evaluation over all 256 bytes; multi-byte payloads:
  per-field arithmetic (`omega`) after reading masks/shifts arithmetically.
-/
import LW.Proofs.MacRT
namespace LW.MacSpec
open LW Outcome Bits MacRT


theorem fieldOf_def (n off w : Nat) : Spec.fieldOf n ⟨off, w⟩ = n / 2 ^ off % 2 ^ w := rfl

theorem dec_linkADRReq (b0 b1 b2 b3 : Byte) :
    (Kind.dec0 .linkADRReq [b0, b1, b2, b3]).toOption = Spec.dec .linkADRReq [b0, b1, b2, b3] := by
  have h0 := b0.isLt; have h1 := b1.isLt; have h2 := b2.isLt; have h3 := b3.isLt
  simp only [Kind.dec0, Kind.dec, Kind.zero, Outcome.toOption, Spec.dec, Spec.layout, Spec.unpack, List.map, fieldOf_def,
    Spec.ofFields, List.length, if_true, leNat4, leNat2, Spec.byteN]
  congr 1
  congr 1
  · apply BitVec.eq_of_toNat_eq; simp only [toNat_hi4, BitVec.toNat_ofNat]; omega
  · apply BitVec.eq_of_toNat_eq; simp only [toNat_and_0f, BitVec.toNat_ofNat]; omega
  · apply BitVec.eq_of_toNat_eq; simp only [BitVec.toNat_ofNat]; omega
  · apply BitVec.eq_of_toNat_eq; simp only [toNat_hi3, BitVec.toNat_ofNat]; omega
  · apply BitVec.eq_of_toNat_eq; simp only [toNat_and_0f, BitVec.toNat_ofNat]; omega

theorem dec_linkCheckAns (b0 b1 : Byte) :
    (Kind.dec0 .linkCheckAns [b0, b1]).toOption = Spec.dec .linkCheckAns [b0, b1] := by
  have h0 := b0.isLt; have h1 := b1.isLt
  simp only [Kind.dec0, Kind.dec, Outcome.toOption, Spec.dec, Spec.layout, Spec.unpack, List.map, fieldOf_def,
    Spec.ofFields, List.length, if_true, leNat2, Spec.byteN]
  congr 1
  congr 1
  · apply BitVec.eq_of_toNat_eq; simp only [BitVec.toNat_ofNat]; omega
  · apply BitVec.eq_of_toNat_eq; simp only [BitVec.toNat_ofNat]; omega

theorem dec_forceRejoinReq (b0 b1 : Byte) :
    (Kind.dec0 .forceRejoinReq [b0, b1]).toOption = Spec.dec .forceRejoinReq [b0, b1] := by
  have h0 := b0.isLt; have h1 := b1.isLt
  simp only [Kind.dec0, Kind.dec, Outcome.toOption, Spec.dec, Spec.layout, Spec.unpack, List.map, fieldOf_def,
    Spec.ofFields, List.length, if_true, leNat2, Spec.byteN]
  congr 1
  congr 1
  · apply BitVec.eq_of_toNat_eq; simp only [toNat_mid3, BitVec.toNat_ofNat]; omega
  · apply BitVec.eq_of_toNat_eq; simp only [toNat_and_7, BitVec.toNat_ofNat]; omega
  · apply BitVec.eq_of_toNat_eq; simp only [toNat_hi3, BitVec.toNat_ofNat]; omega
  · apply BitVec.eq_of_toNat_eq; simp only [toNat_and_0f, BitVec.toNat_ofNat]; omega

theorem freq100Dec_toNat (a b c : Byte) : (freq100Dec [a, b, c]).toNat = (a.toNat + 256 * (b.toNat + 256 * c.toNat)) * 100 := by
  have h0 := a.isLt; have h1 := b.isLt; have h2 := c.isLt
  simp only [freq100Dec, leNat3, BitVec.toNat_ofNat]
  omega

theorem dec_beaconFreqReq (b0 b1 b2 : Byte) :
    (Kind.dec0 .beaconFreqReq [b0, b1, b2]).toOption = Spec.dec .beaconFreqReq [b0, b1, b2] := by
  have h0 := b0.isLt; have h1 := b1.isLt; have h2 := b2.isLt
  simp only [Kind.dec0, Kind.dec, Outcome.toOption, Spec.dec, Spec.layout, Spec.unpack, List.map, fieldOf_def,
    Spec.ofFields, List.length, if_true, leNat3, Spec.byteN]
  congr 1
  congr 1
  have e : (b0.toNat + 256 * (b1.toNat + 256 * b2.toNat)) / 2 ^ 0 % 2 ^ 24 = b0.toNat + 256 * (b1.toNat + 256 * b2.toNat) := by
    simp only [Nat.pow_zero, Nat.div_one]; omega
  rw [e]
  apply BitVec.eq_of_toNat_eq; simp only [freq100Dec_toNat, BitVec.toNat_ofNat]; omega

theorem dec_dlChannelReq (b0 b1 b2 b3 : Byte) :
    (Kind.dec0 .dlChannelReq [b0, b1, b2, b3]).toOption = Spec.dec .dlChannelReq [b0, b1, b2, b3] := by
  have h0 := b0.isLt; have h1 := b1.isLt; have h2 := b2.isLt; have h3 := b3.isLt
  simp only [Kind.dec0, Kind.dec, Outcome.toOption, Spec.dec, Spec.layout, Spec.unpack, List.map, fieldOf_def,
    Spec.ofFields, List.length, if_true, leNat4, Spec.byteN]
  congr 1
  congr 1
  · apply BitVec.eq_of_toNat_eq; simp only [BitVec.toNat_ofNat]; omega
  · have e : (b0.toNat + 256 * (b1.toNat + 256 * (b2.toNat + 256 * b3.toNat))) / 2 ^ 8 % 2 ^ 24 = b1.toNat + 256 * (b2.toNat + 256 * b3.toNat) := by
      omega
    rw [e]
    apply BitVec.eq_of_toNat_eq; simp only [freq100Dec_toNat, BitVec.toNat_ofNat]; omega

theorem dec_pingSlotChannelReq (b0 b1 b2 b3 : Byte) :
    (Kind.dec0 .pingSlotChannelReq [b0, b1, b2, b3]).toOption = Spec.dec .pingSlotChannelReq [b0, b1, b2, b3] := by
  have h0 := b0.isLt; have h1 := b1.isLt; have h2 := b2.isLt; have h3 := b3.isLt
  simp only [Kind.dec0, Kind.dec, Outcome.toOption, Spec.dec, Spec.layout, Spec.unpack, List.map, fieldOf_def,
    Spec.ofFields, List.length, if_true, leNat4, Spec.byteN]
  congr 1
  congr 1
  · have e : (b0.toNat + 256 * (b1.toNat + 256 * (b2.toNat + 256 * b3.toNat))) / 2 ^ 0 % 2 ^ 24 = b0.toNat + 256 * (b1.toNat + 256 * b2.toNat) := by
      simp only [Nat.pow_zero, Nat.div_one]; omega
    rw [e]
    apply BitVec.eq_of_toNat_eq; simp only [freq100Dec_toNat, BitVec.toNat_ofNat]; omega
  · apply BitVec.eq_of_toNat_eq; simp only [toNat_and_0f, BitVec.toNat_ofNat]; omega

theorem margin_byte : ∀ m : Byte, (if (m &&& 0x3f#8).toNat > 31 then (m &&& 0x3f#8) - 64#8 else m &&& 0x3f#8) =
    BitVec.ofInt 8 (if m.toNat % 64 ≥ 32 then ((m.toNat % 64 : Nat) : Int) - 64 else ((m.toNat % 64 : Nat) : Int)) := by decide

theorem dec_devStatusAns (b0 b1 : Byte) :
    (Kind.dec0 .devStatusAns [b0, b1]).toOption = Spec.dec .devStatusAns [b0, b1] := by
  have h0 := b0.isLt; have h1 := b1.isLt
  simp only [Kind.dec0, Kind.dec, Outcome.toOption, Spec.dec, Spec.layout, Spec.unpack, List.map, fieldOf_def,
    Spec.ofFields, List.length, if_true, leNat2, Spec.byteN]
  have e : (b0.toNat + 256 * b1.toNat) / 2 ^ 8 % 2 ^ 6 = b1.toNat % 64 := by omega
  rw [e, margin_byte b1]
  congr 1
  congr 1
  apply BitVec.eq_of_toNat_eq; simp only [BitVec.toNat_ofNat]; omega

theorem optneg_byte : ∀ b : Byte, (b &&& 0x80#8 != 0#8) = Spec.n2b (b.toNat / 128 % 2) := by decide

theorem dec_rxParamSetupReq (b0 b1 b2 b3 : Byte) :
    (Kind.dec0 .rxParamSetupReq [b0, b1, b2, b3]).toOption = Spec.dec .rxParamSetupReq [b0, b1, b2, b3] := by
  have h0 := b0.isLt; have h1 := b1.isLt; have h2 := b2.isLt; have h3 := b3.isLt
  simp only [Kind.dec0, Kind.dec, dlSettingsDec, Outcome.toOption, Spec.dec, Spec.layout, Spec.unpack, List.map, fieldOf_def,
    Spec.ofFields, List.length, if_true, leNat4, Spec.byteN]
  have e : (b0.toNat + 256 * (b1.toNat + 256 * (b2.toNat + 256 * b3.toNat))) / 2 ^ 8 % 2 ^ 24 = b1.toNat + 256 * (b2.toNat + 256 * b3.toNat) := by
    omega
  have e2 : (b0.toNat + 256 * (b1.toNat + 256 * (b2.toNat + 256 * b3.toNat))) / 2 ^ 7 % 2 ^ 1 = b0.toNat / 128 % 2 := by omega
  rw [e, e2, optneg_byte b0]
  congr 1
  congr 1
  all_goals (apply BitVec.eq_of_toNat_eq; simp only [freq100Dec_toNat, toNat_and_0f, toNat_hi3, BitVec.toNat_ofNat]; omega)

theorem dec_newChannelReq (b0 b1 b2 b3 b4 : Byte) :
    (Kind.dec0 .newChannelReq [b0, b1, b2, b3, b4]).toOption = Spec.dec .newChannelReq [b0, b1, b2, b3, b4] := by
  have h0 := b0.isLt; have h1 := b1.isLt; have h2 := b2.isLt; have h3 := b3.isLt; have h4 := b4.isLt
  have e5 : leNat [b0, b1, b2, b3, b4] = b0.toNat + 256 * (b1.toNat + 256 * (b2.toNat + 256 * (b3.toNat + 256 * b4.toNat))) := by simp [leNat]
  simp only [Kind.dec0, Kind.dec, Outcome.toOption, Spec.dec, Spec.layout, Spec.unpack, List.map, fieldOf_def,
    Spec.ofFields, List.length, if_true, leNat3, Spec.byteN]
  simp only [e5]
  have e : (b0.toNat + 256 * (b1.toNat + 256 * (b2.toNat + 256 * (b3.toNat + 256 * b4.toNat)))) / 2 ^ 8 % 2 ^ 24 = b1.toNat + 256 * (b2.toNat + 256 * b3.toNat) := by
    omega
  rw [e]
  by_cases hc : b1.toNat + 256 * (b2.toNat + 256 * b3.toNat) ≥ 12000000 <;> simp only [hc, if_true, if_false] <;>
  (congr 1; congr 1) <;>
  (apply BitVec.eq_of_toNat_eq; simp only [toNat_and_0f, toNat_hi4, BitVec.toNat_ofNat]; omega)

theorem dec_deviceTimeAns (b0 b1 b2 b3 b4 : Byte) :
    (Kind.dec0 .deviceTimeAns [b0, b1, b2, b3, b4]).toOption = Spec.dec .deviceTimeAns [b0, b1, b2, b3, b4] := by
  have h0 := b0.isLt; have h1 := b1.isLt; have h2 := b2.isLt; have h3 := b3.isLt; have h4 := b4.isLt
  have e5 : leNat [b0, b1, b2, b3, b4] = b0.toNat + 256 * (b1.toNat + 256 * (b2.toNat + 256 * (b3.toNat + 256 * b4.toNat))) := by simp [leNat]
  simp only [Kind.dec0, Kind.dec, Outcome.toOption, Spec.dec, Spec.layout, Spec.unpack, List.map, fieldOf_def,
    Spec.ofFields, List.length, if_true, leNat4, second]
  simp only [e5]
  have e : (b0.toNat + 256 * (b1.toNat + 256 * (b2.toNat + 256 * (b3.toNat + 256 * b4.toNat)))) / 2 ^ 0 % 2 ^ 32 = b0.toNat + 256 * (b1.toNat + 256 * (b2.toNat + 256 * b3.toNat)) := by
    simp only [Nat.pow_zero, Nat.div_one]; omega
  have e' : (b0.toNat + 256 * (b1.toNat + 256 * (b2.toNat + 256 * (b3.toNat + 256 * b4.toNat)))) / 2 ^ 32 % 2 ^ 8 = b4.toNat := by
    omega
  rw [e, e']



def oneByteKinds : List Kind :=
  [.resetInd, .resetConf, .rekeyInd, .rekeyConf, .linkADRAns, .dutyCycleReq, .rxParamSetupAns, .newChannelAns,
   .rxTimingSetupReq, .txParamSetupReq, .dlChannelAns, .pingSlotInfoReq, .beaconFreqAns, .pingSlotChannelAns,
   .adrParamSetupReq, .rejoinParamSetupReq, .rejoinParamSetupAns, .deviceModeInd, .deviceModeConf]

/-- for a byte `b`: the value it decodes to is either not encoded as `[b]` by the model, or outside the specification's ranges or the
specification encodes it as exactly `[b]` -/
def enc1ok (k : Kind) (b : Byte) : Bool :=
  match k.dec0 [b] with
  | ok v => v.enc != ok [b] || Spec.enc v == none || Spec.enc v == some [b]
  | _ => false

set_option maxRecDepth 100000 in
theorem enc1 : ∀ k ∈ oneByteKinds, ∀ b : Byte, enc1ok k b = true := by decide +kernel



theorem xor_pack (x y : Byte) (hx : x.toNat ≤ 15) (hy : y.toNat ≤ 15) : x ^^^ (y <<< 4) = byteOfNat (x.toNat + 16 * y.toNat) :=
  lift16 (P := fun x y => x ^^^ (y <<< 4) = byteOfNat (x.toNat + 16 * y.toNat)) (by decide) x y hx hy
theorem or_pack (x y : Byte) (hx : x.toNat ≤ 15) (hy : y.toNat ≤ 15) : x ||| (y <<< 4) = byteOfNat (x.toNat + 16 * y.toNat) :=
  lift16 (P := fun x y => x ||| (y <<< 4) = byteOfNat (x.toNat + 16 * y.toNat)) (by decide) x y hx hy
theorem or3_pack (x y : Byte) (hx : x.toNat ≤ 7) (hy : y.toNat ≤ 7) : x ||| (y <<< 3) = byteOfNat (x.toNat + 8 * y.toNat) :=
  lift8_8 (P := fun x y => x ||| (y <<< 3) = byteOfNat (x.toNat + 8 * y.toNat)) (by decide) x y hx hy
theorem byte_self (x : Byte) : x = byteOfNat x.toNat := by simp [byteOfNat]

theorem packNat_cons (f : Spec.Field) (fs : List Spec.Field) (v : Nat) (vs : List Nat) :
    Spec.packNat (f :: fs) (v :: vs) = v % 2 ^ f.width * 2 ^ f.off + Spec.packNat fs vs := rfl
theorem packNat_nil : Spec.packNat [] [] = 0 := rfl

theorem byteOfNat_congr {a b : Nat} (h : a % 256 = b % 256) : byteOfNat a = byteOfNat b := by
  apply BitVec.eq_of_toNat_eq; simpa [byteOfNat] using h

theorem byte_eq {x : Byte} {n : Nat} (h : x.toNat = n % 256) : x = byteOfNat n := by
  apply BitVec.eq_of_toNat_eq; simpa [byteOfNat] using h

theorem cons_congr {α} {a b : α} {l m : List α} (h1 : a = b) (h2 : l = m) : a :: l = b :: m := by subst h1 h2; rfl

theorem enc_linkADRReq (dr txp : Byte) (mask : BitVec 16) (cntl nb : Byte) (sb : Bytes)
    (h : Spec.enc (.linkADRReq dr txp mask cntl nb) = some sb) : (MacP.linkADRReq dr txp mask cntl nb).enc = ok sb := by
  simp only [Spec.enc, Spec.toFields, Spec.lt, decide_eq_true_eq] at h
  split at h
  · rename_i hc
    have hm := mask.isLt
    simp only [Option.map_some, Option.some.injEq, MacP.kind, Spec.layout, Spec.pack, packNat_cons, packNat_nil] at h
    subst h
    have h1 : ¬ dr.toNat > 15 := by omega
    have h2 : ¬ txp.toNat > 15 := by omega
    have h3 : ¬ nb.toNat > 15 := by omega
    have h4 : ¬ cntl.toNat > 7 := by omega
    simp only [MacP.enc, redundancyEnc, h1, h2, h3, h4, if_false, Outcome.ok_bind, chMaskEnc, leBytes2, leBytes4,
      List.cons_append, List.nil_append]
    rw [xor_pack txp dr (by omega) (by omega), xor_pack nb cntl (by omega) (by omega)]
    congr 1
    refine cons_congr ?_ (cons_congr ?_ (cons_congr ?_ (cons_congr ?_ rfl)))
    all_goals first | (apply byteOfNat_congr; omega) | (apply byte_eq; omega)
  · simp at h

theorem enc_linkCheckAns (a b : Byte) (sb : Bytes)
    (h : Spec.enc (.linkCheckAns a b) = some sb) : (MacP.linkCheckAns a b).enc = ok sb := by
  have ha := a.isLt; have hb := b.isLt
  simp only [Spec.enc, Spec.toFields, Option.map_some, Option.some.injEq, MacP.kind, Spec.layout, Spec.pack, packNat_cons, packNat_nil] at h
  subst h
  simp only [MacP.enc, leBytes2]
  congr 1
  refine cons_congr ?_ (cons_congr ?_ rfl)
  all_goals first | (apply byteOfNat_congr; omega) | (apply byte_eq; omega)

theorem margin_toNat : ∀ m : Byte, -32 ≤ m.toInt → m.toInt ≤ 31 →
    (if m.toInt < 0 then 64#8 + m else m).toNat = (m.toInt % 64).toNat := by decide

theorem enc_devStatusAns (bat m : Byte) (sb : Bytes)
    (h : Spec.enc (.devStatusAns bat m) = some sb) : (MacP.devStatusAns bat m).enc = ok sb := by
  have hb := bat.isLt
  simp only [Spec.enc, Spec.toFields] at h
  split at h
  · rename_i hc
    simp only [Option.map_some, Option.some.injEq, MacP.kind, Spec.layout, Spec.pack, packNat_cons, packNat_nil] at h
    subst h
    have h1 : ¬ m.toInt < -32 := by omega
    have h2 : ¬ m.toInt > 31 := by omega
    have hr : (m.toInt % 64).toNat < 64 := by omega
    have hif : (if m.toInt < 0 then (ok [bat, 64#8 + m] : Outcome Bytes) else ok [bat, m]) =
        ok [bat, if m.toInt < 0 then 64#8 + m else m] := by split <;> rfl
    simp only [MacP.enc, h1, h2, if_false, leBytes2]
    rw [hif]
    congr 1
    refine cons_congr ?_ (cons_congr ?_ rfl)
    · apply byte_eq; omega
    · apply byte_eq; rw [margin_toNat m hc.1 hc.2]; omega
  · simp at h

theorem enc_forceRejoinReq (p r t d : Byte) (sb : Bytes)
    (h : Spec.enc (.forceRejoinReq p r t d) = some sb) : (MacP.forceRejoinReq p r t d).enc = ok sb := by
  simp only [Spec.enc, Spec.toFields, Spec.lt, decide_eq_true_eq] at h
  split at h
  · rename_i hc
    simp only [Option.map_some, Option.some.injEq, MacP.kind, Spec.layout, Spec.pack, packNat_cons, packNat_nil] at h
    subst h
    have h1 : ¬ p.toNat > 7 := by omega
    have h2 : ¬ r.toNat > 7 := by omega
    have h4 : ¬ d.toNat > 15 := by omega
    have h3 : ¬ (t != 0 ∧ t != 2) := by
      rcases hc.2.2.1 with h0 | h0
      · have : t = 0 := BitVec.eq_of_toNat_eq (by simpa using h0)
        simp [this]
      · have : t = 2 := BitVec.eq_of_toNat_eq (by simpa using h0)
        simp [this]
    simp only [MacP.enc, h1, h2, h3, h4, if_false, leBytes2]
    rw [or_pack d t (by omega) (by omega), or3_pack r p (by omega) (by omega)]
    congr 1
    refine cons_congr ?_ (cons_congr ?_ rfl)
    all_goals first | (apply byteOfNat_congr; omega) | (apply byte_eq; omega)
  · simp at h

theorem dl_pack (r2 r1 : Byte) (o : Bool) (h2 : r2.toNat ≤ 15) (h1 : r1.toNat ≤ 7) :
    (r2 ||| (r1 <<< 4)) ||| (if o then 0x80#8 else 0#8) = byteOfNat (r2.toNat + 16 * r1.toNat + 128 * Spec.b2n o) := by
  have key : ∀ (a : Fin 16) (b : Fin 8) (o : Bool),
      ((BitVec.ofNat 8 a ||| (BitVec.ofNat 8 b <<< 4)) ||| (if o then 0x80#8 else 0#8) : Byte) = byteOfNat (a.val + 16 * b.val + 128 * Spec.b2n o) := by decide
  have := key ⟨r2.toNat, by omega⟩ ⟨r1.toNat, by omega⟩ o
  simpa using this

theorem b2n_le (o : Bool) : Spec.b2n o ≤ 1 := by cases o <;> simp [Spec.b2n]

theorem freqCode_some (f : BitVec 32) (c : Nat) (h : Spec.freqCode f = some c) :
    c = f.toNat / 100 ∧ f.toNat % 100 = 0 ∧ f.toNat / 100 < 16777216 := by
  simp only [Spec.freqCode] at h
  split at h
  · rename_i hc; cases h; exact ⟨rfl, hc.1, by omega⟩
  · simp at h

theorem enc_rxParamSetupReq (f : BitVec 32) (o : Bool) (r2 r1 : Byte) (sb : Bytes)
    (h : Spec.enc (.rxParamSetupReq f o r2 r1) = some sb) : (MacP.rxParamSetupReq f o r2 r1).enc = ok sb := by
  simp only [Spec.enc, Spec.toFields] at h
  cases hfc : Spec.freqCode f with
  | none => simp [hfc] at h
  | some c =>
    obtain ⟨rfl, hf1, hf2⟩ := freqCode_some f c hfc
    simp only [hfc, Spec.lt, decide_eq_true_eq] at h
    split at h
    · rename_i hc
      simp only [Option.map_some, Option.some.injEq, MacP.kind, Spec.layout, Spec.pack, packNat_cons, packNat_nil] at h
      subst h
      have h1 : ¬ f.toNat / 100 ≥ 16777216 := by omega
      have h2 : ¬ (f.toNat % 100 != 0) = true := by simp [hf1]
      have h3 : ¬ r2.toNat > 15 := by omega
      have h4 : ¬ r1.toNat > 7 := by omega
      have hb := b2n_le o
      simp only [MacP.enc, dlSettingsEnc, h1, h2, h3, h4, if_false, Bool.false_eq_true, Outcome.ok_bind, leBytes3, leBytes4]
      rw [dl_pack r2 r1 o (by omega) (by omega)]
      congr 1
      refine cons_congr ?_ (cons_congr ?_ (cons_congr ?_ (cons_congr ?_ rfl)))
      all_goals first | (apply byteOfNat_congr; omega) | (apply byte_eq; omega)
    · simp at h

theorem enc_dlChannelReq (ch : Byte) (f : BitVec 32) (sb : Bytes)
    (h : Spec.enc (.dlChannelReq ch f) = some sb) : (MacP.dlChannelReq ch f).enc = ok sb := by
  have hch := ch.isLt
  simp only [Spec.enc, Spec.toFields] at h
  cases hfc : Spec.freqCode f with
  | none => simp [hfc] at h
  | some c =>
    obtain ⟨rfl, hf1, hf2⟩ := freqCode_some f c hfc
    simp only [hfc, Option.map_some, Option.some.injEq, MacP.kind, Spec.layout, Spec.pack, packNat_cons, packNat_nil] at h
    subst h
    have h1 : ¬ f.toNat / 100 ≥ 16777216 := by omega
    have h2 : ¬ (f.toNat % 100 != 0) = true := by simp [hf1]
    simp only [MacP.enc, freq100Enc, h1, h2, if_false, Bool.false_eq_true, Outcome.ok_bind, leBytes3, leBytes4]
    congr 1
    refine cons_congr ?_ (cons_congr ?_ (cons_congr ?_ (cons_congr ?_ rfl)))
    all_goals first | (apply byteOfNat_congr; omega) | (apply byte_eq; omega)

theorem enc_beaconFreqReq (f : BitVec 32) (sb : Bytes)
    (h : Spec.enc (.beaconFreqReq f) = some sb) : (MacP.beaconFreqReq f).enc = ok sb := by
  simp only [Spec.enc, Spec.toFields] at h
  cases hfc : Spec.freqCode f with
  | none => simp [hfc] at h
  | some c =>
    obtain ⟨rfl, hf1, hf2⟩ := freqCode_some f c hfc
    simp only [hfc, Option.map_some, Option.some.injEq, MacP.kind, Spec.layout, Spec.pack, packNat_cons, packNat_nil] at h
    subst h
    have h1 : ¬ f.toNat / 100 ≥ 16777216 := by omega
    have h2 : ¬ (f.toNat % 100 != 0) = true := by simp [hf1]
    simp only [MacP.enc, freq100Enc, h1, h2, if_false, Bool.false_eq_true, leBytes3]
    congr 1
    refine cons_congr ?_ (cons_congr ?_ (cons_congr ?_ rfl))
    all_goals first | (apply byteOfNat_congr; omega) | (apply byte_eq; omega)

theorem enc_pingSlotChannelReq (f : BitVec 32) (d : Byte) (sb : Bytes)
    (h : Spec.enc (.pingSlotChannelReq f d) = some sb) : (MacP.pingSlotChannelReq f d).enc = ok sb := by
  simp only [Spec.enc, Spec.toFields] at h
  cases hfc : Spec.freqCode f with
  | none => simp [hfc] at h
  | some c =>
    obtain ⟨rfl, hf1, hf2⟩ := freqCode_some f c hfc
    simp only [hfc, Spec.lt, decide_eq_true_eq] at h
    split at h
    · rename_i hc
      simp only [Option.map_some, Option.some.injEq, MacP.kind, Spec.layout, Spec.pack, packNat_cons, packNat_nil] at h
      subst h
      have h1 : ¬ f.toNat / 100 ≥ 16777216 := by omega
      have h2 : ¬ (f.toNat % 100 != 0) = true := by simp [hf1]
      have h3 : ¬ d.toNat ≥ 16 := by omega
      simp only [MacP.enc, freq100Enc, h1, h2, h3, if_false, Bool.false_eq_true, Outcome.ok_bind, leBytes3, leBytes4, List.cons_append, List.nil_append]
      congr 1
      refine cons_congr ?_ (cons_congr ?_ (cons_congr ?_ (cons_congr ?_ rfl)))
      all_goals first | (apply byteOfNat_congr; omega) | (apply byte_eq; omega)
    · simp at h

theorem enc_newChannelReq (ch : Byte) (f : BitVec 32) (mx mn : Byte) (sb : Bytes)
    (h : Spec.enc (.newChannelReq ch f mx mn) = some sb) : (MacP.newChannelReq ch f mx mn).enc = ok sb := by
  have hch := ch.isLt
  have hfl := f.isLt
  simp only [Spec.enc, Spec.toFields] at h
  cases hfc : Spec.freqCodeNC f with
  | none => simp [hfc] at h
  | some c =>
    simp only [hfc, Spec.lt, decide_eq_true_eq] at h
    split at h
    · rename_i hc
      simp only [Option.map_some, Option.some.injEq, MacP.kind, Spec.layout, Spec.pack, packNat_cons, packNat_nil] at h
      subst h
      have h5 : ¬ mx.toNat > 15 := by omega
      have h6 : ¬ mn.toNat > 15 := by omega
      simp only [Spec.freqCodeNC] at hfc
      by_cases hb : f.toNat ≥ 2400000000
      · simp only [hb, if_true] at hfc
        split at hfc
        · rename_i h2
          cases hfc
          have a1 : ¬ 16777216 ≤ f.toNat / 2 / 100 := by omega
          have m100 : f.toNat % 100 = 0 := by omega
          have m200 : f.toNat % 200 = 0 := h2.1
          have a4 : ¬ f.toNat < 2400000000 := by omega
          have h5' : ¬ 15 < mx.toNat := by omega
          have h6' : ¬ 15 < mn.toNat := by omega
          have henc : (MacP.newChannelReq ch f mx mn).enc = ok ([ch] ++ leBytes 3 (f.toNat / 2 / 100) ++ [mn ^^^ (mx <<< 4)]) := by
            simp [MacP.enc, hb, m100, m200, a1, a4, h5', h6']
          rw [henc, xor_pack mn mx (by omega) (by omega)]
          simp only [leBytes, List.cons_append, List.nil_append]
          congr 1
          refine cons_congr ?_ (cons_congr ?_ (cons_congr ?_ (cons_congr ?_ (cons_congr ?_ rfl))))
          all_goals first | (apply byteOfNat_congr; omega) | (apply byte_eq; omega)
        · simp at hfc
      · simp only [hb, if_false] at hfc
        split at hfc
        · rename_i h2
          cases hfc
          have a1 : ¬ 16777216 ≤ f.toNat / 100 := by omega
          have m100 : f.toNat % 100 = 0 := h2.1
          have a4 : ¬ 12000000 ≤ f.toNat / 100 := by omega
          have hb' : ¬ 2400000000 ≤ f.toNat := by omega
          have h5' : ¬ 15 < mx.toNat := by omega
          have h6' : ¬ 15 < mn.toNat := by omega
          have henc : (MacP.newChannelReq ch f mx mn).enc = ok ([ch] ++ leBytes 3 (f.toNat / 100) ++ [mn ^^^ (mx <<< 4)]) := by
            simp [MacP.enc, hb', m100, a1, a4, h5', h6']
          rw [henc, xor_pack mn mx (by omega) (by omega)]
          simp only [leBytes, List.cons_append, List.nil_append]
          congr 1
          refine cons_congr ?_ (cons_congr ?_ (cons_congr ?_ (cons_congr ?_ (cons_congr ?_ rfl))))
          all_goals first | (apply byteOfNat_congr; omega) | (apply byte_eq; omega)
        · simp at hfc
    · simp at h

theorem enc_deviceTimeAns (ns : Int) (sb : Bytes)
    (h : Spec.enc (.deviceTimeAns ns) = some sb) : (MacP.deviceTimeAns ns).enc = ok sb := by
  simp only [Spec.enc, Spec.toFields] at h
  split at h
  · rename_i hc
    simp only [Option.map_some, Option.some.injEq, MacP.kind, Spec.layout, Spec.pack, packNat_cons, packNat_nil] at h
    subst h
    obtain ⟨n, rfl⟩ := Int.eq_ofNat_of_zero_le hc.1
    have e1 : tdiv (n : Int) second = ((n / 1000000000 : Nat) : Int) := by
      simp only [tdiv, second]
      rw [Int.tdiv_eq_ediv_of_nonneg (by omega)]; rfl
    have hg : ¬ ((n : Int) < 0 ∨ tdiv (n : Int) second > 4294967295) := by
      rw [e1]; omega
    have e2 : ((((n / 1000000000 : Nat) : Int)) % 4294967296).toNat = n / 1000000000 := by omega
    have e3 : wrap64 ((n : Int) - ((n / 1000000000 : Nat) : Int) * second) = ((n % 1000000000 : Nat) : Int) := by
      simp only [wrap64, second]
      omega
    have e4 : tdiv (((n % 1000000000 : Nat) : Int)) 3906250 = ((n % 1000000000 / 3906250 : Nat) : Int) := by
      simp only [tdiv]
      rw [Int.tdiv_eq_ediv_of_nonneg (by omega)]; rfl
    have s1 : ((n : Int) / 1000000000).toNat = n / 1000000000 := by omega
    have s2 : ((n : Int) % 1000000000 / 3906250).toNat = n % 1000000000 / 3906250 := by omega
    have hg' : ¬ ((n : Int) < 0 ∨ ((n / 1000000000 : Nat) : Int) > 4294967295) := by omega
    have e5 : ∀ k : Nat, BitVec.ofInt 8 (k : Int) = byteOfNat k := fun k => by simp [byteOfNat, BitVec.ofInt_natCast]
    simp only [MacP.enc, e1, hg', if_false, e2, e3, e4, s1, s2, e5, leBytes4, List.cons_append, List.nil_append]
    simp only [leBytes, List.cons_append, List.nil_append]
    have hs : n / 1000000000 < 4294967296 := by omega
    have hfr : n % 1000000000 / 3906250 < 256 := by omega
    generalize n / 1000000000 = s at hs ⊢
    generalize n % 1000000000 / 3906250 = fr at hfr ⊢
    clear hc e1 hg e2 e3 e4 s1 s2 hg'
    congr 1
    refine cons_congr ?_ (cons_congr ?_ (cons_congr ?_ (cons_congr ?_ (cons_congr ?_ rfl))))
    all_goals (apply byteOfNat_congr; omega)
  · simp at h

set_option maxRecDepth 100000 in
theorem dec1 : ∀ k ∈ oneByteKinds, ∀ b : Byte, (k.dec0 [b]).toOption = Spec.dec k [b] := by decide +kernel


theorem toFields_isSome_of_enc (v : MacP) (hp : v.kind ≠ .proprietary) (sb : Bytes) (h : Spec.enc v = some sb) :
    (Spec.toFields v).isSome = true := by
  cases v <;> first | (exfalso; exact hp rfl) | (simp only [Spec.enc] at h; cases hf : Spec.toFields _ <;> simp_all)

/-- 1-byte payloads: the value is the decoding of the byte the model produces (round trip), and for all 256 bytes the
specification's encoding of that decoded value is that byte (`enc1`, kernel evaluation). -/
theorem enc_spec_onebyte (v : MacP) (hk : v.kind ∈ oneByteKinds) (hn : Spec.wireNorm v = v) (sb : Bytes)
    (h : Spec.enc v = some sb) : v.enc = ok sb := by
  have hp : v.kind ≠ .proprietary := by intro hx; rw [hx] at hk; revert hk; decide
  have hacc := MacRT.accepts v (toFields_isSome_of_enc v hp sb h)
  cases hb : v.enc with
  | err => rw [hb] at hacc; simp [Outcome.isOk] at hacc
  | panic => rw [hb] at hacc; simp [Outcome.isOk] at hacc
  | ok bs =>
    have hrt := MacRT.lossless v bs hb
    rw [hn] at hrt
    have hws : v.kind.wireSize = some 1 := by revert hk; generalize v.kind = k; intro hk; revert k; decide
    have hlen : bs.length = 1 := by
      revert hrt hws
      generalize v.kind = k
      intro hrt hws
      cases k <;> simp [Kind.wireSize] at hws <;> simp only [Kind.dec0, Kind.dec] at hrt <;> split at hrt <;> simp_all
    match bs, hlen with
    | [b], _ =>
      have := enc1 v.kind hk b
      simp only [enc1ok, hrt, hb, bne_self_eq_false, Bool.false_or, h] at this
      simp at this
      rw [this]

end LW.MacSpec
