/-
  LW.Proofs.Exchange — the sender pipeline followed by the receiver pipeline gives the frame back (C05),
  composed from the codec round trip (FrameRT), the MIC specification (CryptoSpec), the encryption involutions
  (CryptoSpec) and the command-stream round trip (Stream).
-/
import LW.Model.Exchange
import LW.Proofs.CryptoSpec
import LW.Proofs.FrameRT
import LW.Proofs.Stream
namespace LW.ExchangeProofs
open LW Outcome

/-- FOpts / FRMPayload given as MAC commands -/
def cmdItems (cs : List MacCmd) : List Item := cs.map Item.cmd
/-- … and as the receiver sees them -/
def normItems (cs : List MacCmd) : List Item := cs.map (fun c => Item.cmd (Stream.normCmd c))

theorem encItems_cmds (cs : List MacCmd) : encItems (cmdItems cs) = encodeCmds cs := by
  induction cs with
  | nil => rfl
  | cons c cs ih => simp only [cmdItems, List.map_cons, encItems, encodeCmds, Item.enc] at ih ⊢; rw [ih]

theorem frmEnc_cmds0 (cs : List MacCmd) : frmEnc (some 0) (cmdItems cs) = encodeCmds cs := by
  induction cs with
  | nil => rfl
  | cons c cs ih =>
    simp only [cmdItems, List.map_cons, frmEnc, encodeCmds, Item.enc] at ih ⊢
    rw [ih]; simp

theorem cmd_enc_pos (c : MacCmd) (b : Bytes) (h : c.enc = ok b) : 0 < b.length := by
  unfold MacCmd.enc at h
  split at h
  · cases MacRT.ok_inj h; simp
  · cases hp : MacP.enc ‹_› with
    | ok x => rw [hp] at h; cases MacRT.ok_inj h; simp
    | err => rw [hp] at h; contradiction
    | panic => rw [hp] at h; contradiction

theorem encodeCmds_nil (cs : List MacCmd) (h : encodeCmds cs = ok []) : cs = [] := by
  cases cs with
  | nil => rfl
  | cons c cs =>
    simp only [encodeCmds] at h
    cases hc : c.enc with
    | err => rw [hc] at h; contradiction
    | panic => rw [hc] at h; contradiction
    | ok cb =>
      rw [hc] at h
      cases hr : encodeCmds cs with
      | err => rw [hr] at h; contradiction
      | panic => rw [hr] at h; contradiction
      | ok rb =>
        rw [hr] at h
        have := cmd_enc_pos c cb hc
        have h' := MacRT.ok_inj h
        have h2 : (cb ++ rb).length = 0 := by rw [h']; rfl
        rw [List.length_append] at h2; omega

theorem cmac_length (E : BlockCipher) (hE : E.Lawful) (k msg : Bytes) : (cmac (E.enc k) msg).length = 16 := by
  unfold cmac; exact hE.enc_len _ _

theorem micUp_length (E : BlockCipher) (hE : E.Lawful) (v : Bool) (c : BitVec 32) (dr ch : Byte) (fk sk : Bytes) (a f : BitVec 32) (ack : Bool)
    (msg : Bytes) : (Spec.micUp E v c dr ch fk sk a f ack msg).length = 4 := by
  unfold Spec.micUp
  cases v <;> simp [cmac_length E hE]

theorem micDown_length (E : BlockCipher) (hE : E.Lawful) (v : Bool) (c : BitVec 32) (k : Bytes) (a f : BitVec 32) (ack : Bool)
    (msg : Bytes) : (Spec.micDown E v c k a f ack msg).length = 4 := by
  unfold Spec.micDown
  simp [cmac_length E hE]

/-- the FOpts / FRMPayload field of a decoded frame carrying bytes `b` -/
def wireItems (b : Bytes) : List Item := if b.length > 0 then [.data b] else []

theorem decodeItems_cmds (reg : Registry) (up : Bool) (cs : List MacCmd) (b : Bytes)
    (hw : ∀ c ∈ cs, Stream.WellFramed reg up c) (he : encodeCmds cs = ok b) :
    decodeItems reg up [.data b] = ok (normItems cs) := by
  simp only [decodeItems, Stream.stream_rt reg up cs b hw he, Outcome.ok_bind, normItems, List.map_map]
  rfl

/-- `PHYPayload.EncryptFOpts` with the AFCntDown choice written as in the specification -/
theorem phy_encryptFOpts_eq (E : BlockCipher) (key : Bytes) (mt mj : Byte) (mic : Bytes) (h : FHDR) (fPort : Option Byte) (frm : List Item)
    (hne : (h.fOpts.length == 0) = false) :
    PHY.encryptFOpts E key { mtype := mt, major := mj, mic := mic, payload := some (.mac h fPort frm) } =
      (do let macB ← encItems h.fOpts
          let data ← LW.encryptFOpts E key (Spec.useAFCntDown (isUplinkMType mt) fPort) (isUplinkMType mt) h.devAddr h.fCnt macB
          ok { mtype := mt, major := mj, mic := mic, payload := some (.mac { h with fOpts := [.data data] } fPort frm) }) := by
  simp only [PHY.encryptFOpts, hne, Bool.false_eq_true, if_false, PHY.isUplink]
  cases fPort <;> simp [Spec.useAFCntDown]

/-- receiver, LoRaWAN 1.1: decrypting the FOpts of the decoded frame gives the sender's commands -/
theorem rx_fopts_11 (E : BlockCipher) (hE : E.Lawful) (reg : Registry) (key : Bytes) (mt mj : Byte) (mic : Bytes)
    (addr fcnt : BitVec 32) (ctrl : FCtrl) (fPort : Option Byte) (frmq : List Item) (fo : List MacCmd) (macB : Bytes)
    (hm : encodeCmds fo = ok macB) (hl : macB.length ≤ 15) (hw : ∀ c ∈ fo, Stream.WellFramed reg (isUplinkMType mt) c) :
    PHY.decryptFOpts E reg key
      { mtype := mt, major := mj, mic := mic,
        payload := some (.mac { devAddr := addr, fCtrl := ctrl, fCnt := fcnt, fOpts := wireItems (Spec.cryptFOpts E key (Spec.useAFCntDown (isUplinkMType mt) fPort) (isUplinkMType mt) addr fcnt macB) } fPort frmq) }
      = ok { mtype := mt, major := mj, mic := mic,
             payload := some (.mac { devAddr := addr, fCtrl := ctrl, fCnt := fcnt, fOpts := normItems fo } fPort frmq) } := by
  have hlen := CryptoSpec.cryptFOpts_length E hE key (Spec.useAFCntDown (isUplinkMType mt) fPort) (isUplinkMType mt) addr fcnt macB (by omega)
  have hinv := CryptoSpec.cryptFOpts_invol E hE key (Spec.useAFCntDown (isUplinkMType mt) fPort) (isUplinkMType mt) addr fcnt macB (by omega)
  have h10 : ((1 : Nat) == 0) = false := by decide
  by_cases h0 : macB.length = 0
  · have : macB = [] := List.eq_nil_of_length_eq_zero h0
    subst this
    have hfo := encodeCmds_nil fo hm
    subst hfo
    have : wireItems (Spec.cryptFOpts E key (Spec.useAFCntDown (isUplinkMType mt) fPort) (isUplinkMType mt) addr fcnt []) = [] := by
      simp [wireItems, hlen]
    rw [this]
    simp [PHY.decryptFOpts, PHY.encryptFOpts, PHY.decodeFOpts, normItems]
  · have : wireItems (Spec.cryptFOpts E key (Spec.useAFCntDown (isUplinkMType mt) fPort) (isUplinkMType mt) addr fcnt macB)
        = [.data (Spec.cryptFOpts E key (Spec.useAFCntDown (isUplinkMType mt) fPort) (isUplinkMType mt) addr fcnt macB)] := by
      rw [wireItems, hlen, if_pos (by omega)]
    rw [this]
    simp only [PHY.decryptFOpts]
    rw [phy_encryptFOpts_eq E key mt mj mic _ fPort frmq (by simp)]
    simp only [encItems, Item.enc, Outcome.ok_bind, List.append_nil, CryptoSpec.fopts_spec, hlen]
    rw [if_neg (by omega)]
    simp only [Outcome.ok_bind, hinv, PHY.decodeFOpts, PHY.isUplink, List.length_singleton, h10, Bool.false_eq_true, if_false,
      decodeItems_cmds reg _ fo macB hw hm]

/-- receiver, LoRaWAN 1.0: the FOpts are not encrypted, decoding gives the sender's commands -/
theorem rx_fopts_10 (reg : Registry) (mt mj : Byte) (mic : Bytes)
    (addr fcnt : BitVec 32) (ctrl : FCtrl) (fPort : Option Byte) (frmq : List Item) (fo : List MacCmd) (macB : Bytes)
    (hm : encodeCmds fo = ok macB) (hw : ∀ c ∈ fo, Stream.WellFramed reg (isUplinkMType mt) c) :
    PHY.decodeFOpts reg
      { mtype := mt, major := mj, mic := mic,
        payload := some (.mac { devAddr := addr, fCtrl := ctrl, fCnt := fcnt, fOpts := wireItems macB } fPort frmq) }
      = ok { mtype := mt, major := mj, mic := mic,
             payload := some (.mac { devAddr := addr, fCtrl := ctrl, fCnt := fcnt, fOpts := normItems fo } fPort frmq) } := by
  have h10 : ((1 : Nat) == 0) = false := by decide
  by_cases h0 : macB.length = 0
  · have : macB = [] := List.eq_nil_of_length_eq_zero h0
    subst this
    have hfo := encodeCmds_nil fo hm
    subst hfo
    simp [wireItems, PHY.decodeFOpts, normItems]
  · rw [wireItems, if_pos (by omega)]
    simp only [PHY.decodeFOpts, PHY.isUplink, List.length_singleton, h10, Bool.false_eq_true, if_false,
      decodeItems_cmds reg _ fo macB hw hm, Outcome.ok_bind]

/-- what the receiver should end up with in FRMPayload: commands on port 0, the application bytes otherwise -/
inductive Content where
  | absent
  | cmds (cs : List MacCmd)
  | app (port : Byte) (b : Bytes)

def Content.fPort : Content → Option Byte
  | .absent => none | .cmds _ => some 0 | .app p _ => some p
def Content.frm : Content → List Item
  | .absent => [] | .cmds cs => cmdItems cs | .app _ b => wireItems b
def Content.rx : Content → List Item
  | .absent => [] | .cmds cs => normItems cs | .app _ b => wireItems b
def Content.OK (reg : Registry) (up : Bool) : Content → Prop
  | .absent => True | .cmds cs => ∀ c ∈ cs, Stream.WellFramed reg up c | .app p _ => p ≠ 0

theorem frmEnc_wire (p : Option Byte) (b : Bytes) : frmEnc p (wireItems b) = ok b := by
  unfold wireItems
  split
  · simp [frmEnc, Item.isCmd, Item.enc]
  · have : b = [] := List.eq_nil_of_length_eq_zero (by omega)
    subst this; rfl

/-- the plain FRMPayload bytes of a content -/
theorem content_bytes (c : Content) (data : Bytes) (h : frmEnc c.fPort c.frm = ok data) :
    match c with
    | .absent => data = []
    | .cmds cs => encodeCmds cs = ok data
    | .app _ b => data = b := by
  cases c with
  | absent => exact (MacRT.ok_inj h).symm
  | cmds cs => show encodeCmds cs = ok data; rw [← frmEnc_cmds0]; exact h
  | app p b => simp only [Content.fPort, Content.frm, frmEnc_wire] at h; exact (MacRT.ok_inj h).symm

/-- receiver: decrypting (and on port 0 decoding) the FRMPayload of the decoded frame gives the sender's content -/
theorem rx_frm (E : BlockCipher) (hE : E.Lawful) (reg : Registry) (key : Bytes) (mt mj : Byte) (mic : Bytes) (hh : FHDR)
    (c : Content) (data : Bytes) (hd : frmEnc c.fPort c.frm = ok data) (hok : c.OK reg (isUplinkMType mt)) :
    PHY.decryptFRM E reg key
      { mtype := mt, major := mj, mic := mic,
        payload := some (.mac hh c.fPort (wireItems (Spec.cryptFRM E key (isUplinkMType mt) hh.devAddr hh.fCnt data))) }
      = ok { mtype := mt, major := mj, mic := mic, payload := some (.mac hh c.fPort c.rx) } := by
  have hlen := CryptoSpec.cryptFRM_length E hE key (isUplinkMType mt) hh.devAddr hh.fCnt data
  have hinv := CryptoSpec.cryptFRM_invol E hE key (isUplinkMType mt) hh.devAddr hh.fCnt data
  have h10 : ((1 : Nat) == 0) = false := by decide
  have hcb := content_bytes c data hd
  by_cases h0 : data.length = 0
  · have : data = [] := List.eq_nil_of_length_eq_zero h0
    subst this
    have hw : wireItems (Spec.cryptFRM E key (isUplinkMType mt) hh.devAddr hh.fCnt []) = [] := by
      simp [wireItems, hlen]
    rw [hw]
    cases c with
    | absent => simp [PHY.decryptFRM, PHY.encryptFRM, Content.fPort, Content.rx]
    | cmds cs =>
      have := encodeCmds_nil cs hcb
      subst this
      simp [PHY.decryptFRM, PHY.encryptFRM, PHY.decodeFRM, Content.fPort, Content.rx, normItems]
    | app p b =>
      simp only at hcb
      subst hcb
      simp only [Content.OK] at hok
      simp [PHY.decryptFRM, PHY.encryptFRM, Content.fPort, Content.rx, wireItems]
      intro h; exact absurd h hok
  · have hw : wireItems (Spec.cryptFRM E key (isUplinkMType mt) hh.devAddr hh.fCnt data)
        = [.data (Spec.cryptFRM E key (isUplinkMType mt) hh.devAddr hh.fCnt data)] := by
      rw [wireItems, hlen, if_pos (by omega)]
    rw [hw]
    simp only [PHY.decryptFRM, PHY.encryptFRM, PHY.isUplink, List.length_singleton, h10, Bool.false_eq_true, if_false]
    have hfe : frmEnc c.fPort [.data (Spec.cryptFRM E key (isUplinkMType mt) hh.devAddr hh.fCnt data)]
        = ok (Spec.cryptFRM E key (isUplinkMType mt) hh.devAddr hh.fCnt data) := by
      simp [frmEnc, Item.isCmd, Item.enc]
    rw [hfe]
    simp only [Outcome.ok_bind, CryptoSpec.frm_spec E hE, hinv]
    cases c with
    | absent => simp only at hcb; subst hcb; simp at h0
    | cmds cs =>
      simp only at hcb
      simp only [Content.OK] at hok
      simp only [Content.fPort, Content.rx, beq_self_eq_true, if_true, PHY.decodeFRM, PHY.isUplink, List.length_singleton, h10,
        Bool.false_eq_true, if_false, decodeItems_cmds reg _ cs data hok hcb, Outcome.ok_bind]
    | app p b =>
      simp only at hcb
      subst hcb
      simp only [Content.OK] at hok
      have : (p == 0) = false := by simpa using hok
      simp only [Content.fPort, Content.rx, this, Bool.false_eq_true, if_false]
      rw [wireItems, if_pos (by omega)]

theorem fcnt_restore (f : BitVec 32) : (f &&& 0xffff0000#32) ||| (BitVec.ofNat 32 (f.toNat % 65536) &&& 0xffff#32) = f := by
  have h1 : BitVec.ofNat 32 (f.toNat % 65536) = f &&& 0xffff#32 := by
    apply BitVec.eq_of_toNat_eq
    simp only [BitVec.toNat_ofNat, BitVec.toNat_and]
    have : (65535 % 2 ^ 32 : Nat) = 2 ^ 16 - 1 := by decide
    rw [this, Nat.and_two_pow_sub_one_eq_mod]
    omega
  rw [h1, BitVec.and_assoc, BitVec.and_self, ← BitVec.and_or_distrib_left]
  have : (0xffff0000#32 ||| 0xffff#32) = BitVec.allOnes 32 := by decide
  rw [this, BitVec.and_allOnes]

theorem encItems_wire (b : Bytes) : encItems (wireItems b) = ok b := by
  unfold wireItems
  split
  · simp [encItems, Item.enc]
  · have : b = [] := List.eq_nil_of_length_eq_zero (by omega)
    subst this; rfl

/-- the FCtrl of a decoded frame -/
def rxCtrl (c : FCtrl) (n : Nat) : FCtrl :=
  { adr := c.adr, adrAckReq := c.adrAckReq, ack := c.ack, fPending := c.classB || c.fPending, classB := c.classB || c.fPending,
    fOptsLen := byteOfNat n }

/-- the decoded frame (with the counter restored) serialises to the same MACPayload bytes as the frame that was sent:
this is what makes the receiver's MIC the sender's MIC -/
theorem macEnc_rx (addr fcnt : BitVec 32) (ctrl : FCtrl) (fo2 : List Item) (ob : Bytes) (fPort : Option Byte) (frm : List Item) (b : Bytes)
    (ho : encItems fo2 = ok ob) (h : macEnc { devAddr := addr, fCtrl := ctrl, fCnt := fcnt, fOpts := fo2 } fPort frm = ok b) :
    macEnc { devAddr := addr, fCtrl := rxCtrl ctrl ob.length, fCnt := fcnt, fOpts := wireItems ob } fPort frm = ok b := by
  have hfh : FHDR.enc { devAddr := addr, fCtrl := rxCtrl ctrl ob.length, fCnt := fcnt, fOpts := wireItems ob }
      = FHDR.enc { devAddr := addr, fCtrl := ctrl, fCnt := fcnt, fOpts := fo2 } := by
    simp only [FHDR.enc, encItems_wire, ho, Outcome.ok_bind, rxCtrl, FCtrl.enc, Bool.or_self]
  simp only [macEnc, hfh] at h ⊢
  cases hh : FHDR.enc { devAddr := addr, fCtrl := ctrl, fCnt := fcnt, fOpts := fo2 } with
  | err => rw [hh] at h; contradiction
  | panic => rw [hh] at h; contradiction
  | ok hb =>
    rw [hh] at h
    simp only [Outcome.ok_bind] at h ⊢
    cases fPort with
    | none => exact h
    | some p =>
      simp only at h ⊢
      by_cases hc : fo2.length != 0 ∧ p == 0
      · rw [if_pos hc] at h; contradiction
      · rw [if_neg hc] at h
        have hc' : ¬ ((wireItems ob).length != 0 ∧ p == 0) := by
          intro ⟨h1, h2⟩
          apply hc
          refine ⟨?_, h2⟩
          cases fo2 with
          | nil =>
            simp only [encItems] at ho
            cases MacRT.ok_inj ho
            simp [wireItems] at h1
          | cons _ _ => simp
        rw [if_neg hc']
        exact h

theorem encodeCmds_cons_pos (c : MacCmd) (cs : List MacCmd) (b : Bytes) (h : encodeCmds (c :: cs) = ok b) : 0 < b.length := by
  cases b with
  | nil => have := encodeCmds_nil _ h; contradiction
  | cons _ _ => simp

theorem wireItems_of_pos (b : Bytes) (h : 0 < b.length) : wireItems b = [.data b] := by
  rw [wireItems, if_pos h]

theorem wireItems_nil : wireItems [] = [] := rfl

/-- sender: `EncryptFRMPayload` on a frame whose FRMPayload is a `Content` -/
theorem tx_frm (E : BlockCipher) (hE : E.Lawful) (key : Bytes) (mt mj : Byte) (mic : Bytes) (hh : FHDR) (c : Content) :
    PHY.encryptFRM E key { mtype := mt, major := mj, mic := mic, payload := some (.mac hh c.fPort c.frm) } =
      (do let data ← frmEnc c.fPort c.frm
          ok { mtype := mt, major := mj, mic := mic,
               payload := some (.mac hh c.fPort (wireItems (Spec.cryptFRM E key (isUplinkMType mt) hh.devAddr hh.fCnt data))) }) := by
  have hnil : wireItems (Spec.cryptFRM E key (isUplinkMType mt) hh.devAddr hh.fCnt []) = [] := by
    have := CryptoSpec.cryptFRM_length E hE key (isUplinkMType mt) hh.devAddr hh.fCnt []
    simp [wireItems, this]
  have hpos : ∀ data : Bytes, 0 < data.length →
      wireItems (Spec.cryptFRM E key (isUplinkMType mt) hh.devAddr hh.fCnt data) = [.data (Spec.cryptFRM E key (isUplinkMType mt) hh.devAddr hh.fCnt data)] := by
    intro data hd
    apply wireItems_of_pos
    rw [CryptoSpec.cryptFRM_length E hE]; exact hd
  have hne : ∀ (fp : Option Byte) (frm : List Item), (frm.length == 0) = false →
      PHY.encryptFRM E key { mtype := mt, major := mj, mic := mic, payload := some (.mac hh fp frm) } =
      (do let data ← frmEnc fp frm
          ok { mtype := mt, major := mj, mic := mic,
               payload := some (.mac hh fp [.data (Spec.cryptFRM E key (isUplinkMType mt) hh.devAddr hh.fCnt data)]) }) := by
    intro fp frm h
    simp only [PHY.encryptFRM, h, Bool.false_eq_true, if_false, PHY.isUplink, CryptoSpec.frm_spec E hE]
  cases c with
  | absent => simp [Content.fPort, Content.frm, PHY.encryptFRM, frmEnc, hnil]
  | cmds cs =>
    cases cs with
    | nil => simp [Content.fPort, Content.frm, cmdItems, PHY.encryptFRM, frmEnc, hnil]
    | cons x xs =>
      simp only [Content.fPort, Content.frm]
      rw [hne _ _ (by simp [cmdItems])]
      have hfe : frmEnc (some 0) (cmdItems (x :: xs)) = encodeCmds (x :: xs) := frmEnc_cmds0 (x :: xs)
      cases hd : frmEnc (some 0) (cmdItems (x :: xs)) with
      | err => rfl
      | panic => rfl
      | ok data =>
        simp only [Outcome.ok_bind]
        rw [hpos data (encodeCmds_cons_pos x xs data (by rw [← hfe]; exact hd))]
  | app p b =>
    simp only [Content.fPort, Content.frm]
    by_cases hb : 0 < b.length
    · rw [wireItems_of_pos b hb, hne _ _ (by simp)]
      have : frmEnc (some p) [.data b] = ok b := by simp [frmEnc, Item.isCmd, Item.enc]
      rw [this]
      simp only [Outcome.ok_bind, hpos b hb]
    · have : b = [] := List.eq_nil_of_length_eq_zero (by omega)
      subst this
      simp [wireItems_nil, PHY.encryptFRM, frmEnc, hnil]

/-- sender, LoRaWAN 1.1: `EncryptFOpts` on a frame whose FOpts are commands -/
theorem tx_fopts (E : BlockCipher) (hE : E.Lawful) (key : Bytes) (mt mj : Byte) (mic : Bytes) (addr fcnt : BitVec 32) (ctrl : FCtrl)
    (fo : List MacCmd) (fPort : Option Byte) (frm : List Item) :
    PHY.encryptFOpts E key
      { mtype := mt, major := mj, mic := mic,
        payload := some (.mac { devAddr := addr, fCtrl := ctrl, fCnt := fcnt, fOpts := cmdItems fo } fPort frm) } =
      (do let macB ← encodeCmds fo
          if macB.length > 15 then err else
          ok { mtype := mt, major := mj, mic := mic,
               payload := some (.mac { devAddr := addr, fCtrl := ctrl, fCnt := fcnt, fOpts := wireItems (Spec.cryptFOpts E key (Spec.useAFCntDown (isUplinkMType mt) fPort) (isUplinkMType mt) addr fcnt macB) } fPort frm) }) := by
  cases fo with
  | nil =>
    have := CryptoSpec.cryptFOpts_length E hE key (Spec.useAFCntDown (isUplinkMType mt) fPort) (isUplinkMType mt) addr fcnt [] (by simp)
    simp [PHY.encryptFOpts, cmdItems, encodeCmds, wireItems, this]
  | cons x xs =>
    rw [phy_encryptFOpts_eq E key mt mj mic _ fPort frm (by simp [cmdItems])]
    simp only [encItems_cmds]
    cases hm : encodeCmds (x :: xs) with
    | err => rfl
    | panic => rfl
    | ok macB =>
      simp only [Outcome.ok_bind, CryptoSpec.fopts_spec]
      by_cases hl : macB.length > 15
      · simp only [hl, if_true]; rfl
      · simp only [hl, if_false, Outcome.ok_bind]
        rw [wireItems_of_pos]
        rw [CryptoSpec.cryptFOpts_length E hE _ _ _ _ _ _ (by omega)]
        exact encodeCmds_cons_pos x xs macB hm

/-! ### the MIC of either direction -/

def calcMIC (E : BlockCipher) (lp : LinkParams) (p : PHY) : Outcome Bytes :=
  if isUpData p.mtype then calcUplinkDataMIC E lp.ver lp.conf lp.txDr lp.txCh lp.fKey lp.sKey p
  else calcDownlinkDataMIC E lp.ver lp.conf lp.sKey p

def specMIC (E : BlockCipher) (lp : LinkParams) (mt : Byte) (addr fcnt : BitVec 32) (ack : Bool) (msg : Bytes) : Bytes :=
  if isUpData mt then Spec.micUp E (lp.ver != 0) lp.conf lp.txDr lp.txCh lp.fKey lp.sKey addr fcnt ack msg
  else Spec.micDown E (lp.ver != 0) lp.conf lp.sKey addr fcnt ack msg

theorem calcMIC_spec (E : BlockCipher) (lp : LinkParams) (p : PHY) (h : FHDR) (fPort : Option Byte) (frm : List Item) (b : Bytes)
    (hp : p.payload = some (.mac h fPort frm)) (hb : macEnc h fPort frm = ok b) :
    calcMIC E lp p = ok (specMIC E lp p.mtype h.devAddr h.fCnt h.fCtrl.ack (mhdrEnc p.mtype p.major :: b)) := by
  unfold calcMIC specMIC
  split
  · exact CryptoSpec.up_spec E lp.ver lp.conf lp.txDr lp.txCh lp.fKey lp.sKey p h fPort frm b hp hb
  · exact CryptoSpec.down_spec E lp.ver lp.conf lp.sKey p h fPort frm b hp hb

theorem calcMIC_fail (E : BlockCipher) (lp : LinkParams) (p : PHY) (h : FHDR) (fPort : Option Byte) (frm : List Item)
    (hp : p.payload = some (.mac h fPort frm)) (hb : ∀ b, macEnc h fPort frm ≠ ok b) (m : Bytes) : calcMIC E lp p ≠ ok m := by
  unfold calcMIC
  cases hm : macEnc h fPort frm with
  | ok b => exact absurd hm (hb b)
  | err => split <;> simp [calcUplinkDataMIC, calcDownlinkDataMIC, hp, micBytesOf, hm]
  | panic => split <;> simp [calcUplinkDataMIC, calcDownlinkDataMIC, hp, micBytesOf, hm]

theorem specMIC_length (E : BlockCipher) (hE : E.Lawful) (lp : LinkParams) (mt : Byte) (addr fcnt : BitVec 32) (ack : Bool) (msg : Bytes) :
    (specMIC E lp mt addr fcnt ack msg).length = 4 := by
  unfold specMIC; split
  · exact micUp_length E hE _ _ _ _ _ _ _ _ _ _
  · exact micDown_length E hE _ _ _ _ _ _ _

/-- from the frame as it leaves the encryption steps to the receiver's result -/
theorem finish (E : BlockCipher) (hE : E.Lawful) (reg : Registry) (lp : LinkParams) (ek ak : Bytes) (mt mj : Byte) (mic0 : Bytes)
    (addr fcnt : BitVec 32) (ctrl : FCtrl) (fo2 : List Item) (ob : Bytes) (c : Content) (data bs : Bytes) (fo : List MacCmd)
    (hmt : mt = 2#8 ∨ mt = 3#8 ∨ mt = 4#8 ∨ mt = 5#8) (hmj : mj.toNat ≤ 3)
    (ho : encItems fo2 = ok ob) (hol : ob.length ≤ 15)
    (hd : frmEnc c.fPort c.frm = ok data) (hc : c.OK reg (isUplinkMType mt))
    (hrx : ∀ mic : Bytes,
      (if lp.ver != 0 then PHY.decryptFOpts E reg ek
          { mtype := mt, major := mj, mic := mic,
            payload := some (.mac { devAddr := addr, fCtrl := rxCtrl ctrl ob.length, fCnt := fcnt, fOpts := wireItems ob } c.fPort
              (wireItems (Spec.cryptFRM E (frmKeyOf c.fPort ek ak) (isUplinkMType mt) addr fcnt data))) }
       else PHY.decodeFOpts reg
          { mtype := mt, major := mj, mic := mic,
            payload := some (.mac { devAddr := addr, fCtrl := rxCtrl ctrl ob.length, fCnt := fcnt, fOpts := wireItems ob } c.fPort
              (wireItems (Spec.cryptFRM E (frmKeyOf c.fPort ek ak) (isUplinkMType mt) addr fcnt data))) })
        = ok { mtype := mt, major := mj, mic := mic,
               payload := some (.mac { devAddr := addr, fCtrl := rxCtrl ctrl ob.length, fCnt := fcnt, fOpts := normItems fo } c.fPort
                 (wireItems (Spec.cryptFRM E (frmKeyOf c.fPort ek ak) (isUplinkMType mt) addr fcnt data))) })
    (hs : (do let p3 ← setMIC
                { mtype := mt, major := mj, mic := mic0,
                  payload := some (.mac { devAddr := addr, fCtrl := ctrl, fCnt := fcnt, fOpts := fo2 } c.fPort
                    (wireItems (Spec.cryptFRM E (frmKeyOf c.fPort ek ak) (isUplinkMType mt) addr fcnt data))) }
                (calcMIC E lp
                  { mtype := mt, major := mj, mic := mic0,
                    payload := some (.mac { devAddr := addr, fCtrl := ctrl, fCnt := fcnt, fOpts := fo2 } c.fPort
                      (wireItems (Spec.cryptFRM E (frmKeyOf c.fPort ek ak) (isUplinkMType mt) addr fcnt data))) })
              p3.enc) = ok bs) :
    ∃ mic, receiver E reg lp ek ak (fcnt &&& 0xffff0000#32) bs =
      .accepted { mtype := mt, major := mj, mic := mic,
                  payload := some (.mac { devAddr := addr, fCtrl := rxCtrl ctrl ob.length, fCnt := fcnt, fOpts := normItems fo } c.fPort c.rx) } := by
  generalize hct : Spec.cryptFRM E (frmKeyOf c.fPort ek ak) (isUplinkMType mt) addr fcnt data = ct at hrx hs
  cases hb : macEnc { devAddr := addr, fCtrl := ctrl, fCnt := fcnt, fOpts := fo2 } c.fPort (wireItems ct) with
  | err =>
    exfalso
    cases hm : calcMIC E lp { mtype := mt, major := mj, mic := mic0, payload := some (.mac { devAddr := addr, fCtrl := ctrl, fCnt := fcnt, fOpts := fo2 } c.fPort (wireItems ct)) } with
    | ok m => exact calcMIC_fail E lp _ _ _ _ rfl (by intro b; rw [hb]; exact fun h => by cases h) m hm
    | err => rw [hm] at hs; contradiction
    | panic => rw [hm] at hs; contradiction
  | panic =>
    exfalso
    cases hm : calcMIC E lp { mtype := mt, major := mj, mic := mic0, payload := some (.mac { devAddr := addr, fCtrl := ctrl, fCnt := fcnt, fOpts := fo2 } c.fPort (wireItems ct)) } with
    | ok m => exact calcMIC_fail E lp _ _ _ _ rfl (by intro b; rw [hb]; exact fun h => by cases h) m hm
    | err => rw [hm] at hs; contradiction
    | panic => rw [hm] at hs; contradiction
  | ok b =>
    rw [calcMIC_spec E lp _ _ _ _ b rfl hb] at hs
    simp only [setMIC, Outcome.ok_bind] at hs
    generalize hmic : specMIC E lp mt addr fcnt ctrl.ack (mhdrEnc mt mj :: b) = micv at hs
    have hml : micv.length = 4 := by rw [← hmic]; exact specMIC_length E hE lp mt addr fcnt ctrl.ack _
    refine ⟨micv, ?_⟩
    have hshape : Spec.shapeOK { mtype := mt, major := mj, mic := micv, payload := some (.mac { devAddr := addr, fCtrl := ctrl, fCnt := fcnt, fOpts := fo2 } c.fPort (wireItems ct)) } = true := by
      have hib : Spec.itemsBytes fo2 = ob := by simp [Spec.itemsBytes, ho]
      simp only [Spec.shapeOK, hml, hib, beq_self_eq_true, Bool.true_and, Bool.and_eq_true, decide_eq_true_eq, Bool.or_eq_true, beq_iff_eq]
      rcases hmt with rfl | rfl | rfl | rfl <;> simp [hmj, hol]
    have hdec := FrameRT.phy_enc_dec _ bs hs hshape
    have hwire : Spec.wire { mtype := mt, major := mj, mic := micv, payload := some (.mac { devAddr := addr, fCtrl := ctrl, fCnt := fcnt, fOpts := fo2 } c.fPort (wireItems ct)) }
        = { mtype := mt, major := mj, mic := micv, payload := some (.mac { devAddr := addr, fCtrl := rxCtrl ctrl ob.length, fCnt := BitVec.ofNat 32 (fcnt.toNat % 65536), fOpts := wireItems ob } c.fPort (wireItems ct)) } := by
      simp only [Spec.wire, Option.map_some, Spec.wirePL, Spec.itemsBytes, ho, Spec.frmBytes, frmEnc_wire]
      rfl
    rw [hwire] at hdec
    have hbq := macEnc_rx addr fcnt ctrl fo2 ob c.fPort (wireItems ct) b ho hb
    have hval : validateMIC { mtype := mt, major := mj, mic := micv, payload := some (.mac { devAddr := addr, fCtrl := rxCtrl ctrl ob.length, fCnt := fcnt, fOpts := wireItems ob } c.fPort (wireItems ct)) }
        (calcMIC E lp { mtype := mt, major := mj, mic := micv, payload := some (.mac { devAddr := addr, fCtrl := rxCtrl ctrl ob.length, fCnt := fcnt, fOpts := wireItems ob } c.fPort (wireItems ct)) })
        = ok true := by
      rw [calcMIC_spec E lp _ _ _ _ b rfl hbq]
      simp only [validateMIC, Outcome.ok_bind, rxCtrl]
      rw [hmic]; simp
    unfold receiver
    rw [hdec]
    simp only [fcnt_restore]
    have hfrm := rx_frm E hE reg (frmKeyOf c.fPort ek ak) mt mj micv { devAddr := addr, fCtrl := rxCtrl ctrl ob.length, fCnt := fcnt, fOpts := normItems fo } c data hd hc
    simp only [hct] at hfrm
    have hval2 := hval
    unfold calcMIC at hval2
    by_cases hu : isUpData mt = true
    · simp only [hu, if_true] at hval2 ⊢
      rw [hval2]
      simp only [hrx micv, hfrm]
    · have hu' : isUpData mt = false := by simpa using hu
      simp only [hu', Bool.false_eq_true, if_false] at hval2 ⊢
      rw [hval2]
      simp only [hrx micv, hfrm]

theorem setMIC_if (E : BlockCipher) (lp : LinkParams) (mt : Byte) (p2 : PHY) (hm : p2.mtype = mt) :
    (if isUpData mt then (do let p3 ← setMIC p2 (calcUplinkDataMIC E lp.ver lp.conf lp.txDr lp.txCh lp.fKey lp.sKey p2); p3.enc)
     else (do let p3 ← setMIC p2 (calcDownlinkDataMIC E lp.ver lp.conf lp.sKey p2); p3.enc)) = (do let p3 ← setMIC p2 (calcMIC E lp p2); p3.enc) := by
  unfold calcMIC; rw [hm]; split <;> rfl

/-- C05, first clause: sender pipeline then receiver pipeline -/
theorem exchange (E : BlockCipher) (hE : E.Lawful) (reg : Registry) (lp : LinkParams) (ek ak : Bytes) (mt mj : Byte) (mic0 : Bytes)
    (addr fcnt : BitVec 32) (ctrl : FCtrl) (fo : List MacCmd) (c : Content) (bs : Bytes)
    (hmt : mt = 2#8 ∨ mt = 3#8 ∨ mt = 4#8 ∨ mt = 5#8) (hmj : mj.toNat ≤ 3)
    (hwf : ∀ x ∈ fo, Stream.WellFramed reg (isUplinkMType mt) x) (hc : c.OK reg (isUplinkMType mt))
    (hfol : ∀ macB, encodeCmds fo = ok macB → macB.length ≤ 15)
    (hs : sender E lp ek ak { mtype := mt, major := mj, mic := mic0, payload := some (.mac { devAddr := addr, fCtrl := ctrl, fCnt := fcnt, fOpts := cmdItems fo } c.fPort c.frm) } = ok bs) :
    ∃ mic macB, encodeCmds fo = ok macB ∧ macB.length ≤ 15 ∧
      receiver E reg lp ek ak (fcnt &&& 0xffff0000#32) bs =
        .accepted { mtype := mt, major := mj, mic := mic, payload := some (.mac { devAddr := addr, fCtrl := rxCtrl ctrl macB.length, fCnt := fcnt, fOpts := normItems fo } c.fPort c.rx) } := by
  simp only [sender] at hs
  rw [tx_frm E hE] at hs
  cases hd : frmEnc c.fPort c.frm with
  | err => rw [hd] at hs; contradiction
  | panic => rw [hd] at hs; contradiction
  | ok data =>
    rw [hd] at hs
    simp only [Outcome.ok_bind] at hs
    by_cases hv : (lp.ver != 0) = true
    · simp only [hv, if_true] at hs
      rw [tx_fopts E hE] at hs
      cases hm : encodeCmds fo with
      | err => rw [hm] at hs; contradiction
      | panic => rw [hm] at hs; contradiction
      | ok macB =>
        rw [hm] at hs
        simp only [Outcome.ok_bind] at hs
        by_cases hl : macB.length > 15
        · simp only [hl, if_true] at hs; contradiction
        · simp only [hl, if_false, Outcome.ok_bind] at hs
          rw [setMIC_if E lp mt _ rfl] at hs
          have hlen := CryptoSpec.cryptFOpts_length E hE ek (Spec.useAFCntDown (isUplinkMType mt) c.fPort) (isUplinkMType mt) addr fcnt macB (by omega)
          obtain ⟨mic, hr⟩ := finish E hE reg lp ek ak mt mj mic0 addr fcnt ctrl _ _ c data bs fo hmt hmj (encItems_wire _) (by omega) hd hc
            (by
              intro mic
              simp only [hv, if_true]
              rw [hlen]
              exact rx_fopts_11 E hE reg ek mt mj mic addr fcnt (rxCtrl ctrl macB.length) c.fPort _ fo macB hm (by omega) hwf)
            hs
          rw [hlen] at hr
          exact ⟨mic, macB, rfl, by omega, hr⟩
    · have hv' : (lp.ver != 0) = false := by simpa using hv
      simp only [hv', Bool.false_eq_true, if_false, Outcome.ok_bind] at hs
      rw [setMIC_if E lp mt _ rfl] at hs
      have hfail : ∀ frm : List Item, (∀ m, encodeCmds fo ≠ ok m) → ∀ b,
          macEnc { devAddr := addr, fCtrl := ctrl, fCnt := fcnt, fOpts := cmdItems fo } c.fPort frm ≠ ok b := by
        intro frm hne b
        cases hm : encodeCmds fo with
        | ok m => exact absurd hm (hne m)
        | err => simp [macEnc, FHDR.enc, encItems_cmds, hm]
        | panic => simp [macEnc, FHDR.enc, encItems_cmds, hm]
      cases hm : encodeCmds fo with
      | err =>
        exfalso
        cases hcm : calcMIC E lp { mtype := mt, major := mj, mic := mic0, payload := some (.mac { devAddr := addr, fCtrl := ctrl, fCnt := fcnt, fOpts := cmdItems fo } c.fPort (wireItems (Spec.cryptFRM E (frmKeyOf c.fPort ek ak) (isUplinkMType mt) addr fcnt data))) } with
        | ok m => exact calcMIC_fail E lp _ _ _ _ rfl (hfail _ (by rw [hm]; intro m h; cases h)) m hcm
        | err => rw [hcm] at hs; contradiction
        | panic => rw [hcm] at hs; contradiction
      | panic =>
        exfalso
        cases hcm : calcMIC E lp { mtype := mt, major := mj, mic := mic0, payload := some (.mac { devAddr := addr, fCtrl := ctrl, fCnt := fcnt, fOpts := cmdItems fo } c.fPort (wireItems (Spec.cryptFRM E (frmKeyOf c.fPort ek ak) (isUplinkMType mt) addr fcnt data))) } with
        | ok m => exact calcMIC_fail E lp _ _ _ _ rfl (hfail _ (by rw [hm]; intro m h; cases h)) m hcm
        | err => rw [hcm] at hs; contradiction
        | panic => rw [hcm] at hs; contradiction
      | ok macB =>
        have hl := hfol macB hm
        obtain ⟨mic, hr⟩ := finish E hE reg lp ek ak mt mj mic0 addr fcnt ctrl (cmdItems fo) macB c data bs fo hmt hmj (by rw [encItems_cmds]; exact hm) hl hd hc
          (by
            intro mic
            simp only [hv', Bool.false_eq_true, if_false]
            exact rx_fopts_10 reg mt mj mic addr fcnt (rxCtrl ctrl macB.length) c.fPort _ fo macB hm hwf)
          hs
        exact ⟨mic, macB, rfl, hl, hr⟩

end LW.ExchangeProofs
