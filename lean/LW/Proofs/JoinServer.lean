/-
  LW.Proofs.JoinServer — C16 helper proofs: the join-server model composed from the frame / MIC / join-accept-encryption
  theorems of C04, the join-accept layout and the key-envelope theorems of C17.
-/
import LW.Model.JoinServer
import LW.Spec.JoinServer
import LW.Proofs.Backend
import LW.Proofs.CryptoSpec
import LW.Proofs.App
namespace LW.JS
open LW Outcome

/-- every answer mirrors sender, receiver and transaction id, whatever the request and the configuration -/
theorem serve_mirrors (E : BlockCipher) (q : Req) (c : Conf) :
    (serve E q c).sender = q.receiver ∧ (serve E q c).receiver = q.sender ∧ (serve E q c).txid = q.txid ∧
    (serve E q c).msgType = (if q.rejoin then "RejoinAns" else "JoinAns") := by
  unfold serve
  cases c.device with
  | none => exact ⟨rfl, rfl, rfl, rfl⟩
  | some d =>
    obtain ⟨nwkKey, appKey, nonce⟩ := d
    simp only
    split <;> (try split) <;> exact ⟨rfl, rfl, rfl, rfl⟩

theorem serve_unknown (E : BlockCipher) (q : Req) (c : Conf) (h : c.device = none) :
    (serve E q c).code = 400 ∧ (serve E q c).result = "UnknownDevEUI" := by
  unfold serve; rw [h]; exact ⟨rfl, rfl⟩

/-- the session keys the code derives with OptNeg are the LoRaWAN 1.1 ones, without OptNeg the 1.0 ones -/
theorem sessionKeys_11 (E : BlockCipher) (nwkKey appKey : Bytes) (netID : BitVec 24) (joinEUI : BitVec 64) (jn : Nat) (dn : BitVec 16) :
    (sessionKeys E true nwkKey appKey netID joinEUI jn dn).fNwkSIntKey = Spec.JS.skey11 E 0x01 nwkKey jn joinEUI dn ∧
    (sessionKeys E true nwkKey appKey netID joinEUI jn dn).appSKey = Spec.JS.skey11 E 0x02 appKey jn joinEUI dn ∧
    (sessionKeys E true nwkKey appKey netID joinEUI jn dn).sNwkSIntKey = Spec.JS.skey11 E 0x03 nwkKey jn joinEUI dn ∧
    (sessionKeys E true nwkKey appKey netID joinEUI jn dn).nwkSEncKey = Spec.JS.skey11 E 0x04 nwkKey jn joinEUI dn :=
  ⟨rfl, rfl, rfl, rfl⟩

theorem sessionKeys_10 (E : BlockCipher) (nwkKey appKey : Bytes) (netID : BitVec 24) (joinEUI : BitVec 64) (jn : Nat) (dn : BitVec 16) :
    (sessionKeys E false nwkKey appKey netID joinEUI jn dn).fNwkSIntKey = Spec.JS.skey10 E 0x01 nwkKey jn netID dn ∧
    (sessionKeys E false nwkKey appKey netID joinEUI jn dn).appSKey = Spec.JS.skey10 E 0x02 nwkKey jn netID dn :=
  ⟨rfl, rfl⟩

theorem jsKeys (E : BlockCipher) (nwkKey : Bytes) (devEUI : BitVec 64) :
    getJSKey E 0x06 devEUI nwkKey = Spec.JS.jsIntKey E nwkKey devEUI ∧ getJSKey E 0x05 devEUI nwkKey = Spec.JS.jsEncKey E nwkKey devEUI :=
  ⟨rfl, rfl⟩

/-- an envelope the join-server creates is opened by the receiving server (with its KEK when one is configured) to the key put in -/
theorem envelope_opens (E : BlockCipher) (hE : E.Lawful) (label : Bool) (kek key : Bytes) (hk : kek = [] ∨ Backend.validKEK kek)
    (hkey : key.length = 16) (e : Option (Bool × Bytes)) (h : envelope E label kek key = .ok e) :
    ∃ l k, e = some (l, k) ∧ Spec.JS.unwrapEnvelope E kek l k = some key ∧ (l = (label && !kek.isEmpty)) := by
  unfold envelope at h
  by_cases hclear : (!label || kek.length == 0) = true
  · have : Backend.newKeyEnvelope E label kek key = ok (false, key) := by simp [Backend.newKeyEnvelope, hclear]
    rw [this] at h
    injection h with h; subst h
    refine ⟨false, key, rfl, by simp [Spec.JS.unwrapEnvelope], ?_⟩
    simp only [Bool.or_eq_true, Bool.not_eq_true', beq_iff_eq, List.length_eq_zero_iff] at hclear
    rcases hclear with h1 | h1 <;> simp [h1]
  · simp only [Bool.or_eq_true, Bool.not_eq_true', beq_iff_eq, not_or, Bool.not_eq_false] at hclear
    obtain ⟨hl, hne⟩ := hclear
    have hv : Backend.validKEK kek := by
      rcases hk with h0 | hv
      · subst h0; simp at hne
      · exact hv
    subst hl
    obtain ⟨ct, h1, h2, h3⟩ := Backend.envelope_roundtrip E hE kek key hv hkey
    rw [h1] at h
    injection h with h; subst h
    refine ⟨true, ct, rfl, ?_, ?_⟩
    · have := Backend.unwrap_is_rfc3394 E kek ct hv h2
      rw [h3] at this
      simp only [Spec.JS.unwrapEnvelope, h2, beq_self_eq_true, if_true]
      cases hu : Spec.Backend.unwrap (E.dec kek) ct with
      | none => rw [hu] at this; cases this
      | some p => rw [hu] at this; injection this with this; rw [this]
    · have : kek ≠ [] := by intro h0; subst h0; simp at hne
      cases kek with
      | nil => exact absurd rfl this
      | cons x xs => simp


/-- what "opens to" means for an optional envelope field of the answer -/
def opens (E : BlockCipher) (kek : Bytes) (e : Option (Bool × Bytes)) (key : Bytes) : Prop :=
  ∃ l k, e = some (l, k) ∧ Spec.JS.unwrapEnvelope E kek l k = some key ∧ l = !kek.isEmpty

theorem envelope_opens' (E : BlockCipher) (hE : E.Lawful) (label : Bool) (kek key : Bytes) (hk : kek = [] ∨ Backend.validKEK kek)
    (hkey : key.length = 16) (hl : label = true ∨ kek = []) (e : Option (Bool × Bytes)) (h : envelope E label kek key = .ok e) :
    opens E kek e key := by
  obtain ⟨l, k, h1, h2, h3⟩ := envelope_opens E hE label kek key hk hkey e h
  refine ⟨l, k, h1, h2, ?_⟩
  rcases hl with hl | hl
  · subst hl; simpa using h3
  · subst hl; simpa using h3

theorem joinBody_11 (E : BlockCipher) (hE : E.Lawful) (q : Req) (c : Conf) (ks : Keys) (b : Bytes) (body : Body)
    (ho : q.optNeg = true) (hns : c.nsKEK = [] ∨ Backend.validKEK c.nsKEK) (has : c.asKEK = [] ∨ Backend.validKEK c.asKEK)
    (hal : c.asLabel = true ∨ c.asKEK = [])
    (hk : ks.fNwkSIntKey.length = 16 ∧ ks.appSKey.length = 16 ∧ ks.sNwkSIntKey.length = 16 ∧ ks.nwkSEncKey.length = 16)
    (h : joinBody E q c ks b = .ok body) :
    body.phy = b ∧ opens E c.nsKEK body.fNwkSIntKey ks.fNwkSIntKey ∧ opens E c.nsKEK body.sNwkSIntKey ks.sNwkSIntKey ∧
    opens E c.nsKEK body.nwkSEncKey ks.nwkSEncKey ∧ opens E c.asKEK body.appSKey ks.appSKey ∧ body.nwkSKey = none := by
  unfold joinBody at h
  simp only [ho, if_true] at h
  cases h0 : envelope E c.asLabel c.asKEK ks.appSKey with
  | error x => rw [h0] at h; cases h
  | ok ea =>
    cases h1 : envelope E true c.nsKEK ks.fNwkSIntKey with
    | error x => rw [h0, h1] at h; cases h
    | ok ef =>
      cases h2 : envelope E true c.nsKEK ks.sNwkSIntKey with
      | error x => rw [h0, h1, h2] at h; cases h
      | ok es =>
        cases h3 : envelope E true c.nsKEK ks.nwkSEncKey with
        | error x => rw [h0, h1, h2, h3] at h; cases h
        | ok en =>
          rw [h0, h1, h2, h3] at h
          injection h with h; subst h
          exact ⟨rfl, envelope_opens' E hE true _ _ hns hk.1 (Or.inl rfl) _ h1, envelope_opens' E hE true _ _ hns hk.2.2.1 (Or.inl rfl) _ h2,
            envelope_opens' E hE true _ _ hns hk.2.2.2 (Or.inl rfl) _ h3, envelope_opens' E hE _ _ _ has hk.2.1 hal _ h0, rfl⟩

theorem joinBody_10 (E : BlockCipher) (hE : E.Lawful) (q : Req) (c : Conf) (ks : Keys) (b : Bytes) (body : Body)
    (ho : q.optNeg = false) (hns : c.nsKEK = [] ∨ Backend.validKEK c.nsKEK) (has : c.asKEK = [] ∨ Backend.validKEK c.asKEK)
    (hal : c.asLabel = true ∨ c.asKEK = [])
    (hk : ks.fNwkSIntKey.length = 16 ∧ ks.appSKey.length = 16)
    (h : joinBody E q c ks b = .ok body) :
    body.phy = b ∧ opens E c.nsKEK body.nwkSKey ks.fNwkSIntKey ∧ opens E c.asKEK body.appSKey ks.appSKey ∧
    body.fNwkSIntKey = none ∧ body.sNwkSIntKey = none ∧ body.nwkSEncKey = none := by
  unfold joinBody at h
  simp only [ho, Bool.false_eq_true, if_false] at h
  cases h0 : envelope E c.asLabel c.asKEK ks.appSKey with
  | error x => rw [h0] at h; cases h
  | ok ea =>
    cases h1 : envelope E true c.nsKEK ks.fNwkSIntKey with
    | error x => rw [h0, h1] at h; cases h
    | ok ef =>
      rw [h0, h1] at h
      injection h with h; subst h
      exact ⟨rfl, envelope_opens' E hE true _ _ hns hk.1 (Or.inl rfl) _ h1, envelope_opens' E hE _ _ _ has hk.2 hal _ h0, rfl, rfl, rfl⟩

theorem sessionKeys_len (E : BlockCipher) (hE : E.Lawful) (o : Bool) (nwkKey appKey : Bytes) (netID : BitVec 24) (joinEUI : BitVec 64) (jn : Nat) (dn : BitVec 16) :
    (sessionKeys E o nwkKey appKey netID joinEUI jn dn).fNwkSIntKey.length = 16 ∧ (sessionKeys E o nwkKey appKey netID joinEUI jn dn).appSKey.length = 16 ∧
    (sessionKeys E o nwkKey appKey netID joinEUI jn dn).sNwkSIntKey.length = 16 ∧ (sessionKeys E o nwkKey appKey netID joinEUI jn dn).nwkSEncKey.length = 16 := by
  simp [sessionKeys, getSKey, hE.enc_len]


theorem cmac_length (E : BlockCipher) (hE : E.Lawful) (key msg : Bytes) : (cmac (E.enc key) msg).length = 16 := by
  unfold cmac; exact hE.enc_len _ _

theorem micJA_length (E : BlockCipher) (hE : E.Lawful) (key : Bytes) (o : Bool) (jt : Byte) (eui : BitVec 64) (dn : BitVec 16) (m : Byte) (b : Bytes) :
    (Spec.micJoinAccept E key o jt eui dn m b).length = 4 := by
  simp [Spec.micJoinAccept, cmac_length E hE]

/-- MIC, encryption and serialisation of the join-accept: the frame is 0x20 followed by the specification's ciphertext of
payload | MIC, the MIC being the specification's join-accept MIC -/
theorem frame_core (E : BlockCipher) (hE : E.Lawful) (ja : JoinAccept) (b : Bytes) (hb : ja.enc = ok b) (hlen : b.length = 12 ∨ b.length = 28)
    (jt : Byte) (eui : BitVec 64) (dn : BitVec 16) (micKey encKey : Bytes) :
    (do let phy : PHY := { mtype := 1, major := 0, payload := some (.joinAccept ja) }
        let phy ← liftO (setMIC phy (calcDownlinkJoinMIC E jt eui dn micKey phy))
        let phy ← liftO (phy.encryptJA E encKey)
        liftO phy.enc : R Bytes) =
      .ok (0x20#8 :: Spec.encryptJoinAccept E encKey (b ++ Spec.micJoinAccept E micKey ja.optNeg jt eui dn 0x20#8 b)) := by
  have hm := CryptoSpec.ja_mic_spec E jt eui dn micKey { mtype := 1, major := 0, payload := some (.joinAccept ja) } ja b rfl hb
  have hmh : mhdrEnc 1 0 = 0x20#8 := by decide
  rw [hmh] at hm
  generalize hmic : Spec.micJoinAccept E micKey ja.optNeg jt eui dn 0x20#8 b = mic at hm
  have hml : mic.length = 4 := by rw [← hmic]; exact micJA_length E hE _ _ _ _ _ _ _
  have hl16 : (b ++ mic).length % 16 = 0 := by rcases hlen with h | h <;> simp [h, hml]
  have he := CryptoSpec.ja_encrypt_spec E encKey { mtype := 1, major := 0, payload := some (.joinAccept ja), mic := mic } ja b rfl hb hml hl16
  simp only [hm, setMIC, Outcome.ok_bind, liftO]
  show (do let phy ← liftO (PHY.encryptJA E encKey { mtype := 1, major := 0, payload := some (.joinAccept ja), mic := mic }); liftO phy.enc : R Bytes) = _
  rw [he]
  simp only [liftO, Bind.bind, Except.bind, PHY.enc, MacPL.enc, hmh, List.cons_append, List.nil_append]
  simp only [Outcome.bind, List.take_append_drop]


theorem encryptJA_length (E : BlockCipher) (hE : E.Lawful) (key pm : Bytes) (hl : pm.length % 16 = 0) :
    (Spec.encryptJoinAccept E key pm).length = pm.length := by
  rw [Spec.encryptJoinAccept, ← CryptoSpec.ecb_spec, CryptoSpec.ecb_length _ (hE.dec_len key)]; omega

/-- the requesting device decrypts the frame to the payload and accepts its MIC -/
theorem device_accepts (E : BlockCipher) (hE : E.Lawful) (nwkKey : Bytes) (devEUI joinEUI : BitVec 64) (dn : BitVec 16) (jt : Byte) (rejoin : Bool)
    (b : Bytes) (hlen : b.length = 12 ∨ b.length = 28) :
    let o := (b.getD 10 0).getLsbD 7
    let micKey := if o then Spec.JS.jsIntKey E nwkKey devEUI else nwkKey
    let encKey := if rejoin then Spec.JS.jsEncKey E nwkKey devEUI else nwkKey
    Spec.JS.deviceReceive E nwkKey devEUI joinEUI dn jt rejoin
      (0x20#8 :: Spec.encryptJoinAccept E encKey (b ++ Spec.micJoinAccept E micKey o jt joinEUI dn 0x20#8 b)) = some (b, true) := by
  intro o micKey encKey
  generalize hmic : Spec.micJoinAccept E micKey o jt joinEUI dn 0x20#8 b = mic
  have hml : mic.length = 4 := by rw [← hmic]; exact micJA_length E hE _ _ _ _ _ _ _
  have hl16 : (b ++ mic).length % 16 = 0 := by rcases hlen with h | h <;> simp [h, hml]
  have hctl := encryptJA_length E hE encKey (b ++ mic) hl16
  have hdec := CryptoSpec.ja_device E hE encKey (b ++ mic) hl16
  have hlen2 : (b ++ mic).length = b.length + 4 := by simp [hml]
  have hc1 : ¬ (((Spec.encryptJoinAccept E encKey (b ++ mic)).length % 16 != 0 || decide ((Spec.encryptJoinAccept E encKey (b ++ mic)).length < 16)) = true) := by
    rw [hctl]; rcases hlen with h | h <;> simp [hlen2, h]
  simp only [Spec.JS.deviceReceive]
  rw [if_neg hc1]
  show some (_, _) = _
  have hkey : (if rejoin = true then Spec.JS.jsEncKey E nwkKey devEUI else nwkKey) = encKey := rfl
  rw [hkey, hdec]
  have ht : (b ++ mic).take ((b ++ mic).length - 4) = b := by rw [hlen2]; simp
  have hd : (b ++ mic).drop ((b ++ mic).length - 4) = mic := by rw [hlen2]; simp
  rw [ht, hd]
  have hmk : (if (b.getD 10 0).getLsbD 7 = true then Spec.JS.jsIntKey E nwkKey devEUI else nwkKey) = micKey := rfl
  rw [hmk, hmic]
  simp


theorem dls_byte (o : Bool) (r2 r1 : Byte) (h2 : r2.toNat < 16) (h1 : r1.toNat < 8) :
    ((r2 ||| (r1 <<< 4)) ||| (if o then 0x80#8 else 0#8)) = byteOfNat ((if o then 128 else 0) + r1.toNat * 16 + r2.toNat) ∧
    ((r2 ||| (r1 <<< 4)) ||| (if o then 0x80#8 else 0#8)).getLsbD 7 = o := by
  cases o
  · exact App.lift2 (P := fun r2 r1 => ((r2 ||| (r1 <<< 4)) ||| (if false then 0x80#8 else 0#8)) = byteOfNat ((if false then 128 else 0) + r1.toNat * 16 + r2.toNat) ∧
      ((r2 ||| (r1 <<< 4)) ||| (if false then 0x80#8 else 0#8)).getLsbD 7 = false) 16 8 (by decide) r2 r1 h2 h1
  · exact App.lift2 (P := fun r2 r1 => ((r2 ||| (r1 <<< 4)) ||| (if true then 0x80#8 else 0#8)) = byteOfNat ((if true then 128 else 0) + r1.toNat * 16 + r2.toNat) ∧
      ((r2 ||| (r1 <<< 4)) ||| (if true then 0x80#8 else 0#8)).getLsbD 7 = true) 16 8 (by decide) r2 r1 h2 h1

/-- the join-accept payload the code serialises is the specification's layout of the requested fields -/
theorem ja_enc_layout (jn : Nat) (netID : BitVec 24) (devAddr : BitVec 32) (o : Bool) (r2 r1 : Byte) (rxDelay : Nat) (cf : Option CFList) (cfBytes : Bytes)
    (hjn : jn < 16777216) (hrx : rxDelay ≤ 15) (h2 : r2.toNat < 16) (h1 : r1.toNat < 8)
    (hcf : match cf with | none => cfBytes = [] | some l => l.enc = ok cfBytes) :
    JoinAccept.enc { joinNonce := BitVec.ofNat 32 jn, homeNetID := netID, devAddr := devAddr, optNeg := o, rx2dr := r2, rx1off := r1,
                     rxDelay := byteOfNat rxDelay, cfList := cf } =
      ok (Spec.JS.joinAcceptBytes jn netID devAddr o r2.toNat r1.toNat rxDelay cfBytes) := by
  have hjn' : (BitVec.ofNat 32 jn).toNat = jn := by simp; omega
  have hrx' : ¬ (byteOfNat rxDelay).toNat > 15 := by simp [byteOfNat]; omega
  have hd : dlSettingsEnc o r2 r1 = ok ((r2 ||| (r1 <<< 4)) ||| (if o then 0x80#8 else 0#8)) := by
    simp only [dlSettingsEnc]; rw [if_neg (by omega), if_neg (by omega)]
  simp only [JoinAccept.enc, hjn', if_neg hrx', if_neg (show ¬ jn ≥ 16777216 by omega), hd, Outcome.ok_bind, (dls_byte o r2 r1 h2 h1).1,
    Spec.JS.joinAcceptBytes]
  cases cf with
  | none => simp only at hcf; subst hcf; simp
  | some l => simp only at hcf; simp [hcf]

theorem joinAcceptBytes_facts (jn : Nat) (netID : BitVec 24) (devAddr : BitVec 32) (o : Bool) (r2 r1 : Byte) (rxDelay : Nat) (cfBytes : Bytes)
    (h2 : r2.toNat < 16) (h1 : r1.toNat < 8) (hc : cfBytes.length = 0 ∨ cfBytes.length = 16) :
    ((Spec.JS.joinAcceptBytes jn netID devAddr o r2.toNat r1.toNat rxDelay cfBytes).getD 10 0).getLsbD 7 = o ∧
    ((Spec.JS.joinAcceptBytes jn netID devAddr o r2.toNat r1.toNat rxDelay cfBytes).length = 12 ∨
     (Spec.JS.joinAcceptBytes jn netID devAddr o r2.toNat r1.toNat rxDelay cfBytes).length = 28) := by
  constructor
  · have := (dls_byte o r2 r1 h2 h1)
    simp only [Spec.JS.joinAcceptBytes, leBytes, List.cons_append, List.nil_append, List.getD_cons_succ, List.getD_cons_zero, ← this.1, this.2]
  · rcases hc with h | h <;> simp [Spec.JS.joinAcceptBytes, h]


/-- the requested CFList is absent, or 16 bytes that the CFList codec reproduces exactly (decidable; e.g. every channel list of type 0) -/
def cfListOK (c : Bytes) : Prop := c = [] ∨ ∃ l, CFList.dec c = ok l ∧ l.enc = ok c ∧ c.length = 16

/-- The join-accept both flows build is accepted by the requesting device: it decrypts (NwkKey, or JSEncKey after a rejoin-request)
to exactly the specification's layout of JoinNonce | NetID | requested DevAddr | DLSettings | RxDelay | CFList, and its MIC verifies. -/
theorem build_device (E : BlockCipher) (hE : E.Lawful) (q : Req) (netID : BitVec 24) (jn : Nat) (jt : Byte) (joinEUI : BitVec 64) (dn : BitVec 16)
    (nwkKey : Bytes) (rejoin : Bool)
    (hcf : cfListOK q.cfList) (hjn : jn < 16777216) (hrx : 0 ≤ q.rxDelay ∧ q.rxDelay ≤ 15) (h2 : q.rx2dr.toNat < 16) (h1 : q.rx1off.toNat < 8) :
    ∃ frame,
      buildJoinAccept E q netID jn jt joinEUI dn (if q.optNeg then Spec.JS.jsIntKey E nwkKey q.devEUI else nwkKey)
        (if rejoin then Spec.JS.jsEncKey E nwkKey q.devEUI else nwkKey) = .ok frame ∧
      Spec.JS.deviceReceive E nwkKey q.devEUI joinEUI dn jt rejoin frame =
        some (Spec.JS.joinAcceptBytes jn netID q.devAddr q.optNeg q.rx2dr.toNat q.rx1off.toNat q.rxDelay.toNat q.cfList, true) := by
  have hrxb : BitVec.ofInt 8 q.rxDelay = byteOfNat q.rxDelay.toNat := by
    obtain ⟨a, _⟩ := hrx
    match hq : q.rxDelay, a with
    | .ofNat n, _ => simp [byteOfNat]
  -- the CFList the flow decodes and the bytes it re-encodes
  obtain ⟨cf, hcfdec, hcfenc, hcflen⟩ : ∃ cf : Option CFList,
      ((if q.cfList.isEmpty then pure none else do let l ← liftO (CFList.dec q.cfList); pure (some l)) : R (Option CFList)) = .ok cf ∧
      (match cf with | none => q.cfList = [] | some l => l.enc = ok q.cfList) ∧ (q.cfList.length = 0 ∨ q.cfList.length = 16) := by
    rcases hcf with h | ⟨l, hd, he, hl⟩
    · exact ⟨none, by simp [h]; rfl, h, Or.inl (by simp [h])⟩
    · have hne : q.cfList.isEmpty = false := by cases hq : q.cfList with | nil => simp [hq] at hl | cons x xs => rfl
      refine ⟨some l, ?_, he, Or.inr hl⟩
      simp only [hne, Bool.false_eq_true, if_false, hd, liftO]; rfl
  have hlay := ja_enc_layout jn netID q.devAddr q.optNeg q.rx2dr q.rx1off q.rxDelay.toNat cf q.cfList hjn (by omega) h2 h1 hcfenc
  obtain ⟨hbit, hlen⟩ := joinAcceptBytes_facts jn netID q.devAddr q.optNeg q.rx2dr q.rx1off q.rxDelay.toNat q.cfList h2 h1 hcflen
  have hcore := frame_core E hE _ _ hlay hlen jt joinEUI dn (if q.optNeg then Spec.JS.jsIntKey E nwkKey q.devEUI else nwkKey)
    (if rejoin then Spec.JS.jsEncKey E nwkKey q.devEUI else nwkKey)
  refine ⟨?_, ?_, ?_⟩
  rotate_left
  · unfold buildJoinAccept
    rw [hcfdec]
    simp only [hrxb]
    exact hcore
  · have hd := device_accepts E hE nwkKey q.devEUI joinEUI dn jt rejoin _ hlen
    simp only [hbit] at hd
    exact hd


theorem envelope_total (E : BlockCipher) (label : Bool) (kek key : Bytes) (hk : kek = [] ∨ Backend.validKEK kek) :
    ∃ e, envelope E label kek key = .ok e := by
  unfold envelope
  by_cases hclear : (!label || kek.length == 0) = true
  · exact ⟨some (false, key), by simp [Backend.newKeyEnvelope, hclear]⟩
  · have hv : (kek.length == 16 || kek.length == 24 || kek.length == 32) = true := by
      rcases hk with h | h
      · subst h; simp at hclear
      · rcases h with h | h | h <;> simp [h]
    exact ⟨some (true, Backend.wrap16 (E.enc kek) key), by simp [Backend.newKeyEnvelope, hclear, hv]⟩

theorem joinBody_total (E : BlockCipher) (q : Req) (c : Conf) (ks : Keys) (b : Bytes)
    (hns : c.nsKEK = [] ∨ Backend.validKEK c.nsKEK) (has : c.asKEK = [] ∨ Backend.validKEK c.asKEK) : ∃ body, joinBody E q c ks b = .ok body := by
  obtain ⟨e0, h0⟩ := envelope_total E c.asLabel c.asKEK ks.appSKey has
  obtain ⟨e1, h1⟩ := envelope_total E true c.nsKEK ks.fNwkSIntKey hns
  obtain ⟨e2, h2⟩ := envelope_total E true c.nsKEK ks.sNwkSIntKey hns
  obtain ⟨e3, h3⟩ := envelope_total E true c.nsKEK ks.nwkSEncKey hns
  unfold joinBody
  rw [h0]
  cases q.optNeg
  · exact ⟨_, by simp only [Bool.false_eq_true, if_false]; rw [h1]; rfl⟩
  · exact ⟨_, by simp only [if_true]; rw [h1, h2, h3]; rfl⟩

/-- what the request must satisfy beyond carrying a valid frame and MIC -/
structure GoodRequest (q : Req) (c : Conf) : Prop where
  cf : cfListOK q.cfList
  rxDelay : 0 ≤ q.rxDelay ∧ q.rxDelay ≤ 15
  rx2dr : q.rx2dr.toNat < 16
  rx1off : q.rx1off.toNat < 8
  nsKEK : c.nsKEK = [] ∨ Backend.validKEK c.nsKEK
  asKEK : c.asKEK = [] ∨ Backend.validKEK c.asKEK
  asLabel : c.asLabel = true ∨ c.asKEK = []

/-- JOIN-REQUEST, main theorem: when the context tasks succeed (frame parses, IDs parse, MIC valid, JoinNonce in range) the flow
succeeds, the device accepts the join-accept (decrypts to the echoed fields, MIC verifies) and the key envelopes open, with the
configured KEKs, to exactly the session keys the device derives for the negotiated version. -/
theorem join_success (E : BlockCipher) (hE : E.Lawful) (q : Req) (c : Conf) (nwkKey appKey : Bytes) (nonce : Int) (x : Ctx)
    (hctx : joinContext E q nwkKey nonce = .ok x) (hjn : x.joinNonce < 16777216) (hg : GoodRequest q c) :
    ∃ body, joinFlow E q c nwkKey appKey nonce = .ok body ∧
      Spec.JS.deviceReceive E nwkKey q.devEUI x.joinEUI x.devNonce x.joinType false body.phy =
        some (Spec.JS.joinAcceptBytes x.joinNonce x.netID q.devAddr q.optNeg q.rx2dr.toNat q.rx1off.toNat q.rxDelay.toNat q.cfList, true) ∧
      (q.optNeg = true →
        opens E c.nsKEK body.fNwkSIntKey (Spec.JS.skey11 E 0x01 nwkKey x.joinNonce x.joinEUI x.devNonce) ∧
        opens E c.nsKEK body.sNwkSIntKey (Spec.JS.skey11 E 0x03 nwkKey x.joinNonce x.joinEUI x.devNonce) ∧
        opens E c.nsKEK body.nwkSEncKey (Spec.JS.skey11 E 0x04 nwkKey x.joinNonce x.joinEUI x.devNonce) ∧
        opens E c.asKEK body.appSKey (Spec.JS.skey11 E 0x02 appKey x.joinNonce x.joinEUI x.devNonce) ∧ body.nwkSKey = none) ∧
      (q.optNeg = false →
        opens E c.nsKEK body.nwkSKey (Spec.JS.skey10 E 0x01 nwkKey x.joinNonce x.netID x.devNonce) ∧
        opens E c.asKEK body.appSKey (Spec.JS.skey10 E 0x02 nwkKey x.joinNonce x.netID x.devNonce) ∧
        body.fNwkSIntKey = none ∧ body.sNwkSIntKey = none ∧ body.nwkSEncKey = none) := by
  obtain ⟨frame, hb, hdev⟩ := build_device E hE q x.netID x.joinNonce x.joinType x.joinEUI x.devNonce nwkKey false hg.cf hjn hg.rxDelay hg.rx2dr hg.rx1off
  have hb' : buildJoinAccept E q x.netID x.joinNonce x.joinType x.joinEUI x.devNonce (if q.optNeg then getJSKey E 0x06 q.devEUI nwkKey else nwkKey) nwkKey = .ok frame := hb
  obtain ⟨body, hbody⟩ := joinBody_total E q c (sessionKeys E q.optNeg nwkKey appKey x.netID x.joinEUI x.joinNonce x.devNonce) frame hg.nsKEK hg.asKEK
  have hflow : joinFlow E q c nwkKey appKey nonce = .ok body := by
    unfold joinFlow
    rw [hctx]
    show (do let b ← buildJoinAccept E q x.netID x.joinNonce x.joinType x.joinEUI x.devNonce (if q.optNeg then getJSKey E 0x06 q.devEUI nwkKey else nwkKey) nwkKey
             joinBody E q c (sessionKeys E q.optNeg nwkKey appKey x.netID x.joinEUI x.joinNonce x.devNonce) b : R Body) = _
    rw [hb']
    exact hbody
  have hlen := sessionKeys_len E hE q.optNeg nwkKey appKey x.netID x.joinEUI x.joinNonce x.devNonce
  refine ⟨body, hflow, ?_, ?_, ?_⟩
  · cases ho : q.optNeg
    · rw [ho] at hbody hlen
      have := joinBody_10 E hE q c _ frame body ho hg.nsKEK hg.asKEK hg.asLabel ⟨hlen.1, hlen.2.1⟩ hbody
      rw [this.1]; rw [ho] at hdev; exact hdev
    · rw [ho] at hbody hlen
      have := joinBody_11 E hE q c _ frame body ho hg.nsKEK hg.asKEK hg.asLabel hlen hbody
      rw [this.1]; rw [ho] at hdev; exact hdev
  · intro ho
    rw [ho] at hbody hlen
    obtain ⟨_, h1, h2, h3, h4, h5⟩ := joinBody_11 E hE q c _ frame body ho hg.nsKEK hg.asKEK hg.asLabel hlen hbody
    exact ⟨h1, h2, h3, h4, h5⟩
  · intro ho
    rw [ho] at hbody hlen
    obtain ⟨_, h1, h2, h3, h4, h5⟩ := joinBody_10 E hE q c _ frame body ho hg.nsKEK hg.asKEK hg.asLabel ⟨hlen.1, hlen.2.1⟩ hbody
    exact ⟨h1, h2, h3, h4, h5⟩


/-- a join-request whose frame and IDs parse but whose MIC does not verify is answered MICFailed -/
theorem serve_wrong_mic (E : BlockCipher) (q : Req) (c : Conf) (nwkKey appKey : Bytes) (nonce : Int) (phy : PHY) (netID joinEUI : Nat)
    (je de : BitVec 64) (dn : BitVec 16)
    (hr : q.rejoin = false) (hd : c.device = some (nwkKey, appKey, nonce)) (hlf : c.lookupFails = false)
    (hp : PHY.dec q.phy = ok phy) (hn : idOfText 3 q.sender = ok netID)
    (hj : idOfText 8 q.receiver = ok joinEUI) (hpl : phy.payload = some (.joinReq je de dn))
    (hm : validateMIC phy (calcUplinkJoinMIC E nwkKey phy) = ok false) :
    (serve E q c).result = "MICFailed" ∧ (serve E q c).code = 200 := by
  have hctx : joinContext E q nwkKey nonce = .error .mic := by
    unfold joinContext
    simp only [hp, hn, hj, hpl, hm, liftO, Bind.bind, Except.bind, pure, Except.pure]
    rfl
  have hflow : joinFlow E q c nwkKey appKey nonce = .error .mic := by
    unfold joinFlow; rw [hctx]; rfl
  unfold serve
  simp only [hd, hr, hlf, Bool.false_eq_true, if_false, hflow]
  trivial

/-- a key-encryption-key or label lookup that fails never yields a Success answer (which would carry session keys in clear or
under a key the receiver does not hold) -/
theorem serve_lookup_fails (E : BlockCipher) (q : Req) (c : Conf) (d : Bytes × Bytes × Int) (hd : c.device = some d) (hlf : c.lookupFails = true) :
    (serve E q c).result = "Other" ∧ (serve E q c).code = 500 ∧ (serve E q c).phy = [] ∧ (serve E q c).appSKey = none ∧ (serve E q c).nwkSKey = none := by
  obtain ⟨a, b, n⟩ := d
  unfold serve
  simp only [hd, hlf, if_true]
  trivial

theorem rejoinBody_keys (E : BlockCipher) (hE : E.Lawful) (c : Conf) (ks : Keys) (b : Bytes) (body : Body)
    (hns : c.nsKEK = [] ∨ Backend.validKEK c.nsKEK) (has : c.asKEK = [] ∨ Backend.validKEK c.asKEK) (hal : c.asLabel = true ∨ c.asKEK = [])
    (hk : ks.fNwkSIntKey.length = 16 ∧ ks.appSKey.length = 16 ∧ ks.sNwkSIntKey.length = 16 ∧ ks.nwkSEncKey.length = 16)
    (h : rejoinBody E c ks b = .ok body) :
    body.phy = b ∧ opens E c.nsKEK body.fNwkSIntKey ks.fNwkSIntKey ∧ opens E c.nsKEK body.sNwkSIntKey ks.sNwkSIntKey ∧
    opens E c.nsKEK body.nwkSEncKey ks.nwkSEncKey ∧ opens E c.asKEK body.appSKey ks.appSKey := by
  unfold rejoinBody at h
  cases h0 : envelope E c.asLabel c.asKEK ks.appSKey with
  | error x => rw [h0] at h; cases h
  | ok ea =>
    cases h1 : envelope E true c.nsKEK ks.fNwkSIntKey with
    | error x => rw [h0, h1] at h; cases h
    | ok ef =>
      cases h2 : envelope E true c.nsKEK ks.sNwkSIntKey with
      | error x => rw [h0, h1, h2] at h; cases h
      | ok es =>
        cases h3 : envelope E true c.nsKEK ks.nwkSEncKey with
        | error x => rw [h0, h1, h2, h3] at h; cases h
        | ok en =>
          rw [h0, h1, h2, h3] at h
          injection h with h; subst h
          exact ⟨rfl, envelope_opens' E hE true _ _ hns hk.1 (Or.inl rfl) _ h1, envelope_opens' E hE true _ _ hns hk.2.2.1 (Or.inl rfl) _ h2,
            envelope_opens' E hE true _ _ hns hk.2.2.2 (Or.inl rfl) _ h3, envelope_opens' E hE _ _ _ has hk.2.1 hal _ h0⟩

theorem rejoinBody_total (E : BlockCipher) (c : Conf) (ks : Keys) (b : Bytes)
    (hns : c.nsKEK = [] ∨ Backend.validKEK c.nsKEK) (has : c.asKEK = [] ∨ Backend.validKEK c.asKEK) : ∃ body, rejoinBody E c ks b = .ok body := by
  obtain ⟨e0, h0⟩ := envelope_total E c.asLabel c.asKEK ks.appSKey has
  obtain ⟨e1, h1⟩ := envelope_total E true c.nsKEK ks.fNwkSIntKey hns
  obtain ⟨e2, h2⟩ := envelope_total E true c.nsKEK ks.sNwkSIntKey hns
  obtain ⟨e3, h3⟩ := envelope_total E true c.nsKEK ks.nwkSEncKey hns
  unfold rejoinBody
  rw [h0, h1, h2, h3]
  exact ⟨_, rfl⟩

/-- REJOIN-REQUEST, proved part: the answer is Success, the device (LoRaWAN 1.1: OptNeg requested) decrypts the join-accept with
JSEncKey to the echoed fields and accepts its MIC (JSIntKey, 1.1 form). The session keys in the answer are the NetID-based 1.0
derivation with NwkKey for AppSKey — NOT what the 1.1 device derives (`rejoin_keys_differ`): known finding c16-rejoin-session-keys. -/
theorem rejoin_success_partial (E : BlockCipher) (hE : E.Lawful) (q : Req) (c : Conf) (nwkKey appKey : Bytes) (nonce : Int) (x : Ctx)
    (hctx : rejoinContext q nonce = .ok x) (hjn : x.joinNonce < 16777216) (hg : GoodRequest q c) (ho : q.optNeg = true) :
    ∃ body, rejoinFlow E q c nwkKey appKey nonce = .ok body ∧
      Spec.JS.deviceReceive E nwkKey q.devEUI x.joinEUI x.devNonce x.joinType true body.phy =
        some (Spec.JS.joinAcceptBytes x.joinNonce x.netID q.devAddr true q.rx2dr.toNat q.rx1off.toNat q.rxDelay.toNat q.cfList, true) ∧
      opens E c.nsKEK body.fNwkSIntKey (Spec.JS.skey10 E 0x01 nwkKey x.joinNonce x.netID x.devNonce) ∧
      opens E c.asKEK body.appSKey (Spec.JS.skey10 E 0x02 nwkKey x.joinNonce x.netID x.devNonce) := by
  obtain ⟨frame, hb, hdev⟩ := build_device E hE q x.netID x.joinNonce x.joinType x.joinEUI x.devNonce nwkKey true hg.cf hjn hg.rxDelay hg.rx2dr hg.rx1off
  rw [ho] at hb hdev
  have hb' : buildJoinAccept E q x.netID x.joinNonce x.joinType x.joinEUI x.devNonce (getJSKey E 0x06 q.devEUI nwkKey) (getJSKey E 0x05 q.devEUI nwkKey) = .ok frame := hb
  obtain ⟨body, hbody⟩ := rejoinBody_total E c (sessionKeys E false nwkKey appKey x.netID x.joinEUI x.joinNonce x.devNonce) frame hg.nsKEK hg.asKEK
  have hflow : rejoinFlow E q c nwkKey appKey nonce = .ok body := by
    unfold rejoinFlow
    rw [hctx]
    show (do let b ← buildJoinAccept E q x.netID x.joinNonce x.joinType x.joinEUI x.devNonce (getJSKey E 0x06 q.devEUI nwkKey) (getJSKey E 0x05 q.devEUI nwkKey)
             rejoinBody E c (sessionKeys E false nwkKey appKey x.netID x.joinEUI x.joinNonce x.devNonce) b : R Body) = _
    rw [hb']
    exact hbody
  have hlen := sessionKeys_len E hE false nwkKey appKey x.netID x.joinEUI x.joinNonce x.devNonce
  obtain ⟨h0, h1, _, _, h4⟩ := rejoinBody_keys E hE c _ frame body hg.nsKEK hg.asKEK hg.asLabel hlen hbody
  exact ⟨body, hflow, by rw [h0]; exact hdev, h1, h4⟩

/-- a lawful block cipher is injective on blocks: different derivation inputs give different keys -/
theorem enc_injective (E : BlockCipher) (hE : E.Lawful) (key a b : Bytes) (ha : a.length = 16) (hb : b.length = 16) (h : E.enc key a = E.enc key b) : a = b := by
  have := congrArg (E.dec key) h
  rwa [hE.dec_enc _ _ ha, hE.dec_enc _ _ hb] at this

/-- the 1.0-style key the rejoin answer carries differs from the key a 1.1 device derives whenever NetID | DevNonce | 0… differs from
JoinEUI | DevNonce (e.g. whenever the JoinEUI's low three bytes are not the NetID) -/
theorem rejoin_keys_differ (E : BlockCipher) (hE : E.Lawful) (typ : Byte) (root : Bytes) (jn : Nat) (netID : BitVec 24) (joinEUI : BitVec 64) (dn : BitVec 16)
    (hne : leBytes 3 netID.toNat ++ leBytes 2 dn.toNat ++ List.replicate 7 0 ≠ leBytes 8 joinEUI.toNat ++ leBytes 2 dn.toNat ++ List.replicate 2 0) :
    Spec.JS.skey10 E typ root jn netID dn ≠ Spec.JS.skey11 E typ root jn joinEUI dn := by
  intro h
  have := enc_injective E hE root _ _ (by simp) (by simp) h
  simp only [List.cons.injEq, true_and, List.append_assoc] at this
  have h3 := List.append_cancel_left this
  exact hne (by simpa [List.append_assoc] using h3)

end LW.JS
