/-
  LW.Proofs.Addr — DevAddr / NetID prefix algebra, bit by bit, and identifier representation round trips (helpers for C11).
-/
import LW.Model.NetID
import LW.Spec.Addr
namespace LW.AddrProofs
open LW Outcome

theorem allOnes_bit (j : Nat) : (0xffffffff#32).getLsbD j = decide (j < 32) := by
  have : (0xffffffff#32) = BitVec.allOnes 32 := by decide
  rw [this, BitVec.getLsbD_allOnes]

/-- bit view of `setAddrPrefixRaw`, for any prefix length and NwkID width that fit -/
theorem raw_bit (a : BitVec 32) (pl nb : Nat) (n : BitVec 24) (i : Nat) (hi : i < 32) (h : pl + nb ≤ 32) (hpl : 1 ≤ pl) :
    (setAddrPrefixRaw a pl nb n).getLsbD i =
      if i < 32 - pl - nb then a.getLsbD i
      else if i < 32 - pl then (netIDID n).getLsbD (i - (32 - pl - nb))
      else (254#32).getLsbD (i - (32 - pl)) := by
  simp only [setAddrPrefixRaw, BitVec.getLsbD_or, BitVec.getLsbD_and, BitVec.getLsbD_not, BitVec.getLsbD_shiftLeft,
    BitVec.getLsbD_ushiftRight, allOnes_bit]
  by_cases h1 : i < 32 - pl - nb
  · have e2 : i < 32 - pl := by omega
    have e3 : pl + i < 32 - nb := by omega
    have e4 : pl + i < 32 := by omega
    simp [hi, h1, e2, e3, e4]
  · by_cases h2 : i < 32 - pl
    · have e3 : ¬ (pl + i < 32 - nb) := by omega
      have e4 : pl + i < 32 := by omega
      have e6 : pl + i - (32 - nb) = i - (32 - pl - nb) := by omega
      simp [hi, h1, h2, e3, e4, e6]
      intro _ hx; omega
    · have e4 : ¬ (pl + i < 32) := by omega
      simp [hi, h1, h2, e4]
      intro _ hx; omega

theorem lit254_bit (k : Nat) : (254#32).getLsbD k = decide (1 ≤ k ∧ k < 8) := by
  by_cases h : k < 32
  · have : ∀ j : Fin 32, (254#32).getLsbD j.val = decide (1 ≤ j.val ∧ j.val < 8) := by decide
    exact this ⟨k, h⟩
  · have h1 : (254#32).getLsbD k = false := BitVec.getLsbD_of_ge _ _ (by omega)
    rw [h1]; simp; omega

theorem getID_bit (n : BitVec 24) (bits j : Nat) (hb : bits ≤ 32) (hj : j < 32) :
    (netIDgetID n bits).getLsbD j = (decide (j < bits) && n.getLsbD j) := by
  simp only [netIDgetID, BitVec.getLsbD_ushiftRight, BitVec.getLsbD_shiftLeft, BitVec.getLsbD_setWidth]
  by_cases h1 : j < bits
  · have e1 : 32 - bits + j < 32 := by omega
    have e2 : ¬ (32 - bits + j < 32 - bits) := by omega
    have e3 : 32 - bits + j - (32 - bits) = j := by omega
    simp [h1, e1, e2, e3, hj]
  · have e1 : ¬ (32 - bits + j < 32) := by omega
    simp [h1, e1]

theorem netIDType_eq (n : BitVec 24) : netIDType n = n.toNat / 2 ^ 21 := by
  simp [netIDType, BitVec.toNat_ushiftRight, Nat.shiftRight_eq_div_pow]

theorem netIDType_lt (n : BitVec 24) : netIDType n < 8 := by
  rw [netIDType_eq]; have := n.isLt; omega

theorem prefixTable_spec (t : Nat) (ht : t < 8) :
    prefixTable t = (t + 1, Spec.nwkIDWidth t) := by
  have : t = 0 ∨ t = 1 ∨ t = 2 ∨ t = 3 ∨ t = 4 ∨ t = 5 ∨ t = 6 ∨ t = 7 := by omega
  rcases this with rfl | rfl | rfl | rfl | rfl | rfl | rfl | rfl <;> rfl

theorem idBits_spec (t : Nat) (ht : t < 8) : netIDIdBits t = Spec.netIDWidth t := by
  have : t = 0 ∨ t = 1 ∨ t = 2 ∨ t = 3 ∨ t = 4 ∨ t = 5 ∨ t = 6 ∨ t = 7 := by omega
  rcases this with rfl | rfl | rfl | rfl | rfl | rfl | rfl | rfl <;> rfl

theorem widths (t : Nat) (ht : t < 8) : t + 1 + Spec.nwkIDWidth t ≤ 25 ∧ Spec.nwkIDWidth t ≤ Spec.netIDWidth t ∧ Spec.netIDWidth t ≤ 21 ∧ 6 ≤ Spec.nwkIDWidth t := by
  have : t = 0 ∨ t = 1 ∨ t = 2 ∨ t = 3 ∨ t = 4 ∨ t = 5 ∨ t = 6 ∨ t = 7 := by omega
  rcases this with rfl | rfl | rfl | rfl | rfl | rfl | rfl | rfl <;> decide

/-- C11: every bit of the address produced by `SetAddrPrefix` is the one the addressing rules prescribe -/
theorem setPrefix_bits (n : BitVec 24) (a : BitVec 32) (i : Nat) (hi : i < 32) :
    (setAddrPrefix a n).getLsbD i = Spec.addrBit n.getLsbD (n.toNat / 2 ^ 21) a.getLsbD i := by
  have ht := netIDType_lt n
  have hte := netIDType_eq n
  simp only [setAddrPrefix, prefixTable_spec _ ht]
  obtain ⟨hw1, hw2, hw3, hw4⟩ := widths _ ht
  rw [raw_bit a _ _ n i hi (by omega) (by omega)]
  simp only [Spec.addrBit, ← hte, netIDID]
  generalize netIDType n = t at *
  have e1 : 32 - (t + 1) - Spec.nwkIDWidth t = 31 - t - Spec.nwkIDWidth t := by omega
  have e2 : 32 - (t + 1) = 31 - t := by omega
  rw [e1, e2]
  by_cases h1 : i < 31 - t - Spec.nwkIDWidth t
  · simp [h1]
  · by_cases h2 : i < 31 - t
    · simp only [h1, h2, if_true, if_false]
      rw [getID_bit n _ _ (by rw [idBits_spec _ ht]; omega) (by omega), idBits_spec _ ht]
      rw [Bool.and_comm]
    · simp only [h1, h2, if_false, lit254_bit]
      by_cases h3 : i = 31 - t
      · simp [h3]
      · have : 1 ≤ i - (31 - t) ∧ i - (31 - t) < 8 := by omega
        simp [h3, this]

/-- membership test = "carries the NetID's type prefix and NwkID": the bits above the NwkAddr agree with the rule -/
theorem isNetID_iff (n : BitVec 24) (a : BitVec 32) :
    isNetID a n = true ↔
      ∀ i, i < 32 → 31 - n.toNat / 2 ^ 21 - Spec.nwkIDWidth (n.toNat / 2 ^ 21) ≤ i →
        a.getLsbD i = Spec.addrBit n.getLsbD (n.toNat / 2 ^ 21) a.getLsbD i := by
  simp only [isNetID, beq_iff_eq]
  constructor
  · intro h i hi _
    rw [← setPrefix_bits n a i hi, ← h]
  · intro h
    apply BitVec.eq_of_getLsbD_eq
    intro i hi
    rw [setPrefix_bits n a i hi]
    by_cases hlow : 31 - n.toNat / 2 ^ 21 - Spec.nwkIDWidth (n.toNat / 2 ^ 21) ≤ i
    · exact h i hi hlow
    · simp only [Spec.addrBit]
      have : i < 31 - n.toNat / 2 ^ 21 - Spec.nwkIDWidth (n.toNat / 2 ^ 21) := by omega
      simp [this]

/-! representations -/

theorem hexpair : ∀ b : Byte, hexVal (hexDigit (b.toNat / 16)) = some (b.toNat / 16) ∧ hexVal (hexDigit (b.toNat % 16)) = some (b.toNat % 16) := by
  decide

theorem hex_roundtrip (bs : Bytes) : hexDecodeChars (bs.flatMap hexOfByte) = some bs := by
  induction bs with
  | nil => rfl
  | cons b bs ih =>
    simp only [List.flatMap_cons, hexOfByte, List.cons_append, List.nil_append, hexDecodeChars, (hexpair b).1, (hexpair b).2, ih]
    congr 2
    apply BitVec.eq_of_toNat_eq
    have := b.isLt
    simp only [byteOfNat, BitVec.toNat_ofNat]; omega

theorem hexOfBytes_toList (bs : Bytes) : (hexOfBytes bs).toList = bs.flatMap hexOfByte := by
  simp [hexOfBytes]

theorem flatMap_hex_ne_0x (bs : Bytes) : ∀ rest, bs.flatMap hexOfByte ≠ '0' :: 'x' :: rest := by
  intro rest h
  cases bs with
  | nil => simp at h
  | cons b bs =>
    simp only [List.flatMap_cons, hexOfByte, List.cons_append, List.nil_append, List.cons.injEq] at h
    have : ∀ k : Fin 16, hexDigit k.val ≠ 'x' := by decide
    exact this ⟨b.toNat % 16, by omega⟩ h.2.1

theorem strip0x_hex (bs : Bytes) : strip0x (bs.flatMap hexOfByte) = bs.flatMap hexOfByte := by
  have hne := flatMap_hex_ne_0x bs
  unfold strip0x
  split
  · rename_i rest heq; exact absurd heq (hne rest)
  · rfl

theorem text_roundtrip (k v : Nat) (hv : v < 256 ^ k) : idOfText k (idText k v) = ok v := by
  simp only [idOfText, idText, hexOfBytes_toList, strip0x_hex, hex_roundtrip]
  simp [idBytes, leNat_leBytes, Nat.mod_eq_of_lt hv]

theorem text_roundtrip_0x (k v : Nat) (hv : v < 256 ^ k) : idOfText k ("0x" ++ idText k v) = ok v := by
  have h0 : ("0x" ++ idText k v).toList = '0' :: 'x' :: (idBytes k v).flatMap hexOfByte := by
    simp [idText, hexOfBytes_toList]
  simp only [idOfText, h0, strip0x, hex_roundtrip]
  simp [idBytes, leNat_leBytes, Nat.mod_eq_of_lt hv]

theorem binary_roundtrip (k v : Nat) (hv : v < 256 ^ k) : idOfBinary k (idBinary k v) = ok v := by
  simp [idOfBinary, idBinary, leNat_leBytes, Nat.mod_eq_of_lt hv]

theorem scan_roundtrip (k v : Nat) (hv : v < 256 ^ k) : idOfScan k (idBytes k v) = ok v := by
  simp [idOfScan, idBytes, leNat_leBytes, Nat.mod_eq_of_lt hv]

/-- the binary form is the byte-reversed value form -/
theorem binary_is_reversed (k v : Nat) : idBinary k v = (idBytes k v).reverse := by simp [idBinary, idBytes]

end LW.AddrProofs
