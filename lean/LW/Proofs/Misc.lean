/-
  LW.Proofs.Misc — GPS time, airtime and EIRP helper proofs (C20).
-/
import LW.Spec.Misc
import LW.Generated.LeapTable
import LW.Generated.EirpTable
namespace LW.MiscProofs
open LW Outcome

/-- total leap correction that applies at instant t -/
def cnt : List (Int × Int) → Int → Int
  | [], _ => 0
  | (s, d) :: rest, t => (if s + nsPerSec ≤ t then d else 0) + cnt rest t

theorem foldl_cnt (l : List (Int × Int)) (t a : Int) :
    l.foldl (fun acc (ls : Int × Int) => if ls.1 + nsPerSec ≤ t then acc + ls.2 else acc) a = a + cnt l t := by
  induction l generalizing a with
  | nil => simp [cnt]
  | cons x xs ih =>
    obtain ⟨s, d⟩ := x
    simp only [List.foldl_cons, cnt]
    rw [ih]
    split <;> omega

theorem toGPS_eq (tbl : LeapTable) (t : Int) : toGPS tbl t = t - tbl.epoch + cnt tbl.entries t := by
  simp only [toGPS, foldl_cnt]; omega

/-- table is usable: instants in non-decreasing order, non-negative durations -/
def Sorted : List (Int × Int) → Prop
  | [] => True
  | (s, d) :: rest => 0 ≤ d ∧ (∀ e ∈ rest, s ≤ e.1) ∧ Sorted rest

theorem cnt_zero_of_before (l : List (Int × Int)) (t : Int) (h : ∀ e ∈ l, t < e.1 + nsPerSec) : cnt l t = 0 := by
  induction l with
  | nil => rfl
  | cons x xs ih =>
    obtain ⟨s, d⟩ := x
    have h1 := h (s, d) List.mem_cons_self
    have : ¬ s + nsPerSec ≤ t := by simp only at h1; omega
    simp only [cnt, this, if_false, Int.zero_add]
    exact ih (fun e he => h e (List.mem_cons_of_mem _ he))

theorem cnt_nonneg (l : List (Int × Int)) (t : Int) (hs : Sorted l) : 0 ≤ cnt l t := by
  induction l with
  | nil => simp [cnt]
  | cons x xs ih =>
    obtain ⟨s, d⟩ := x
    simp only [Sorted] at hs
    have := ih hs.2.2
    simp only [cnt]; split <;> omega

theorem fold_noop (l : List (Int × Int)) (c : Int) (h : ∀ e ∈ l, c < e.1 + nsPerSec) :
    l.foldl (fun t (ls : Int × Int) => if ls.1 + nsPerSec ≤ t then t - ls.2 else t) c = c := by
  induction l with
  | nil => rfl
  | cons x xs ih =>
    obtain ⟨s, d⟩ := x
    have h1 := h (s, d) List.mem_cons_self
    have : ¬ s + nsPerSec ≤ c := by simp only at h1; omega
    simp only [List.foldl_cons, this, if_false]
    exact ih (fun e he => h e (List.mem_cons_of_mem _ he))

/-- the sequential correction undoes the cumulative offset, for ANY sorted table -/
theorem fold_undo (l : List (Int × Int)) (t : Int) (hs : Sorted l) :
    l.foldl (fun c (ls : Int × Int) => if ls.1 + nsPerSec ≤ c then c - ls.2 else c) (t + cnt l t) = t := by
  induction l with
  | nil => simp [cnt]
  | cons x xs ih =>
    obtain ⟨s, d⟩ := x
    simp only [Sorted] at hs
    obtain ⟨hd, hle, hrest⟩ := hs
    simp only [List.foldl_cons, cnt]
    by_cases h : s + nsPerSec ≤ t
    · have hc := cnt_nonneg xs t hrest
      have : s + nsPerSec ≤ t + (d + cnt xs t) := by omega
      simp only [h, if_true, this]
      have e : t + (d + cnt xs t) - d = t + cnt xs t := by omega
      rw [e]; exact ih hrest
    · have hz : cnt xs t = 0 := cnt_zero_of_before xs t (fun e he => by have := hle e he; omega)
      simp only [h, if_false, hz, Int.add_zero]
      exact fold_noop xs t (fun e he => by have := hle e he; omega)

/-- C20: UTC → time since GPS epoch → UTC is the identity, for every instant and every sorted leap table
(so a new leap second appended to the table cannot break it) -/
theorem gps_roundtrip (tbl : LeapTable) (hs : Sorted tbl.entries) (t : Int) : fromGPS tbl (toGPS tbl t) = t := by
  rw [toGPS_eq]
  simp only [fromGPS]
  have : tbl.epoch + (t - tbl.epoch + cnt tbl.entries t) = t + cnt tbl.entries t := by omega
  rw [this]
  exact fold_undo tbl.entries t hs

theorem cnt_mono (l : List (Int × Int)) (t1 t2 : Int) (hs : Sorted l) (h : t1 ≤ t2) : cnt l t1 ≤ cnt l t2 := by
  induction l with
  | nil => simp [cnt]
  | cons x xs ih =>
    obtain ⟨s, d⟩ := x
    simp only [Sorted] at hs
    have := ih hs.2.2
    simp only [cnt]
    split <;> split <;> omega

/-- the mapping is strictly increasing -/
theorem gps_strict_mono (tbl : LeapTable) (hs : Sorted tbl.entries) (t1 t2 : Int) (h : t1 < t2) : toGPS tbl t1 < toGPS tbl t2 := by
  rw [toGPS_eq, toGPS_eq]
  have := cnt_mono tbl.entries t1 t2 hs (by omega)
  omega



/-! the regenerated table -/

def sortedB : List (Int × Int) → Bool
  | [] => true
  | (s, d) :: rest => decide (0 ≤ d) && rest.all (fun e => decide (s ≤ e.1)) && sortedB rest

theorem sortedB_sound (l : List (Int × Int)) (h : sortedB l = true) : Sorted l := by
  induction l with
  | nil => trivial
  | cons x xs ih =>
    obtain ⟨s, d⟩ := x
    simp only [sortedB, Bool.and_eq_true, decide_eq_true_eq, List.all_eq_true] at h
    exact ⟨h.1.1, h.1.2, ih h.2⟩

theorem generated_sorted : sortedB Generated.leapTable.entries = true := by decide +kernel

/-- the regenerated table is the published one: each entry's offset applies from the IERS date at 00:00:00 UTC, is one
second, and the epoch is 1980-01-06 -/
theorem generated_is_published :
    Generated.leapTable.entries.map (fun e => (e.1 + nsPerSec, e.2)) = Spec.leapInstants.map (fun u => (u, nsPerSec)) ∧
    Generated.leapTable.epoch = Spec.gpsEpoch := by decide +kernel

theorem cnt_published (l : List (Int × Int)) (us : List Int) (t : Int)
    (h : l.map (fun e => (e.1 + nsPerSec, e.2)) = us.map (fun u => (u, nsPerSec))) :
    cnt l t = ((us.filter (· ≤ t)).length : Int) * nsPerSec := by
  induction l generalizing us with
  | nil =>
    cases us with
    | nil => simp [cnt]
    | cons _ _ => simp at h
  | cons x xs ih =>
    obtain ⟨s, d⟩ := x
    cases us with
    | nil => simp at h
    | cons u us' =>
      simp only [List.map_cons, List.cons.injEq, Prod.mk.injEq] at h
      obtain ⟨⟨h1, h2⟩, h3⟩ := h
      simp only [cnt, ih us' h3, List.filter_cons]
      rw [h1, h2]
      by_cases hu : u ≤ t
      · simp only [hu, if_true, decide_true, List.length_cons]; simp only [nsPerSec]; omega
      · simp only [hu, if_false, decide_false]; simp

/-- C20: the offset applied equals the published GPS − UTC leap-second count, for every instant -/
theorem gps_offset (t : Int) : toGPS Generated.leapTable t = t - Spec.gpsEpoch + (Spec.gpsUtcOffset t : Int) * nsPerSec := by
  rw [toGPS_eq, cnt_published _ _ t generated_is_published.1, generated_is_published.2]
  rfl

/-! ### airtime -/

def abOf (pl sf : Int) (header ldro : Bool) : Int × Int :=
  (8 * pl - 4 * sf + 28 + 16 - 20 * (if !header then 1 else 0), 4 * (sf - 2 * (if ldro then 1 else 0)))

/-- the float64 expression `math.Ceil(a/b)` of the code equals the exact ⌈a/b⌉ on the property's whole domain
(payload 0..255 × SF 5..12 × header × low-data-rate: 8192 quotients, each evaluated by the kernel with the exact binary64 model) -/
theorem ceil_exact : ∀ (pl : Fin 256) (s : Fin 8) (header ldro : Bool),
    fdivCeil (abOf pl.val (s.val + 5) header ldro).1 (abOf pl.val (s.val + 5) header ldro).2 =
    Spec.ceilDiv (abOf pl.val (s.val + 5) header ldro).1 (abOf pl.val (s.val + 5) header ldro).2 := by decide +kernel

/-- on the property's domain the model (= the code's float64 expression) is the Semtech formula -/
theorem paysym_formula (pl : Fin 256) (s : Fin 8) (cr : Int) (hcr : 1 ≤ cr ∧ cr ≤ 4) (header ldro : Bool) :
    payloadSymbols pl.val (s.val + 5) cr header ldro = ok (Spec.nPayload pl.val (s.val + 5) cr header ldro) := by
  have hc : ¬ (cr < 1 ∨ cr > 4) := by omega
  have hb : ¬ (4 * (((s.val : Nat) : Int) + 5 - 2 * (if ldro then 1 else 0)) ≤ 0) := by
    have := s.isLt; cases ldro <;> simp <;> omega
  have hce := ceil_exact pl s header ldro
  simp only [abOf] at hce
  simp only [payloadSymbols, hc, if_false, hb, Spec.nPayload]
  rw [hce]
  congr 1
  have hh : (if (!header) = true then (1 : Int) else 0) = (if header = true then 0 else 1) := by cases header <;> rfl
  rw [hh]
  generalize Spec.ceilDiv _ _ * (cr + 4) = q
  by_cases hq : q > 0
  · simp only [hq, if_true]; omega
  · simp only [hq, if_false]; omega


/-- time on air never decreases with the payload size (any payload sizes, any parameters with SF − 2·DE > 0, CR ≥ 0) -/
theorem ceilDiv_mono (a a' b : Int) (hb : 0 < b) (h : a ≤ a') : Spec.ceilDiv a b ≤ Spec.ceilDiv a' b := by
  simp only [Spec.ceilDiv]
  have : (-a') / b ≤ (-a) / b := Int.ediv_le_ediv hb (by omega)
  omega

theorem nPayload_mono (pl pl' sf cr : Int) (header ldro : Bool) (h : pl ≤ pl') (hsf : 0 < sf - 2 * (if ldro then 1 else 0)) (hcr : 0 ≤ cr) :
    Spec.nPayload pl sf cr header ldro ≤ Spec.nPayload pl' sf cr header ldro := by
  simp only [Spec.nPayload]
  have hm := ceilDiv_mono (8 * pl - 4 * sf + 28 + 16 - 20 * (if header = true then 0 else 1)) (8 * pl' - 4 * sf + 28 + 16 - 20 * (if header = true then 0 else 1))
    (4 * (sf - 2 * (if ldro then 1 else 0))) (by omega) (by omega)
  have hmul := Int.mul_le_mul_of_nonneg_right hm (show 0 ≤ cr + 4 by omega)
  omega

theorem timeOnAir_mono (pl pl' sf bw preamble cr : Int) (header ldro : Bool) (h : pl ≤ pl')
    (hsf : 0 < sf - 2 * (if ldro then 1 else 0)) (hcr : 0 ≤ cr) (hbw : 0 < bw) :
    Spec.timeOnAir pl sf bw preamble cr header ldro ≤ Spec.timeOnAir pl' sf bw preamble cr header ldro := by
  simp only [Spec.timeOnAir]
  have hn := nPayload_mono pl pl' sf cr header ldro h hsf hcr
  have hp : (0 : Int) ≤ 2 ^ sf.toNat := Int.pow_nonneg (by decide)
  have ht : 0 ≤ (2 ^ sf.toNat * 1000000 : Int) / bw := Int.ediv_nonneg (by omega) (by omega)
  generalize (2 ^ sf.toNat * 1000000 : Int) / bw = tsym at ht
  have := Int.mul_le_mul_of_nonneg_right hn ht
  omega

/-! ### EIRP -/

/-- the scan of `GetTXParamSetupEIRPIndex` over ANY table: the result is an index into the table (or 0), its entry is not
greater than x when the first entry is not, and no later entry that is not greater than x was skipped -/
theorem eirp_go_spec (x : F32) (tbl : List Nat) :
    ∀ (i out : Nat), (∀ e ∈ tbl, ∀ e' ∈ tbl, True) →
      eirpIndex.go x tbl i out = (match tbl.findIdx? (fun e => natGtF32 e x) with
        | some 0 => out
        | some (k+1) => i + k
        | none => if tbl.isEmpty then out else i + tbl.length - 1) := by
  induction tbl with
  | nil => intro i out _; simp [eirpIndex.go]
  | cons e es ih =>
    intro i out _
    simp only [eirpIndex.go, List.findIdx?_cons]
    by_cases hg : natGtF32 e x = true
    · simp [hg]
    · simp only [hg, if_false, Bool.false_eq_true]
      rw [ih (i + 1) i (fun _ _ _ _ => trivial)]
      cases hf : es.findIdx? (fun e => natGtF32 e x) with
      | none =>
        simp only [Option.map_none]
        cases es with
        | nil => simp
        | cons _ _ => simp; omega
      | some k =>
        cases k with
        | zero => simp
        | succ k => simp only [Option.map_some]; show i + 1 + k = i + (k + 1); omega



theorem natGt_mono (x : F32) (e e' : Nat) (h : e ≤ e') (hg : natGtF32 e x = true) : natGtF32 e' x = true := by
  cases x with
  | nan => simp [natGtF32] at hg
  | inf neg => simpa [natGtF32] using hg
  | fin neg num den2 scale2 =>
    simp only [natGtF32] at hg ⊢
    cases neg
    · simp only [Bool.false_eq_true, if_false, decide_eq_true_eq] at hg ⊢
      exact Nat.lt_of_lt_of_le hg (Nat.mul_le_mul_right _ h)
    · simp only [if_true, decide_eq_true_eq] at hg ⊢; omega

/-- strictly increasing table -/
def strictInc : List Nat → Bool
  | a :: b :: rest => decide (a < b) && strictInc (b :: rest)
  | _ => true

theorem strictInc_le (tbl : List Nat) (h : strictInc tbl = true) (i j : Nat) (hij : i ≤ j) (hj : j < tbl.length) :
    tbl.getD i 0 ≤ tbl.getD j 0 := by
  induction tbl generalizing i j with
  | nil => simp at hj
  | cons a rest ih =>
    cases rest with
    | nil =>
      have : j = 0 := by simp at hj; omega
      subst this; have : i = 0 := by omega
      subst this; simp
    | cons b rest' =>
      simp only [strictInc, Bool.and_eq_true, decide_eq_true_eq] at h
      cases j with
      | zero => have : i = 0 := by omega
                subst this; simp
      | succ j =>
        cases i with
        | zero =>
          have h0 := ih h.2 0 j (by omega) (by simpa using hj)
          simp only [List.getD_cons_zero, List.getD_cons_succ] at h0 ⊢
          omega
        | succ i =>
          have := ih h.2 i j (by omega) (by simpa using hj)
          simpa using this

/-- C20 EIRP: for any strictly increasing table and any float32 x that is not below the first entry (NaN excluded by the
second hypothesis), the chosen index holds the largest entry not exceeding x -/
theorem eirp_largest (tbl : List Nat) (x : F32) (hinc : strictInc tbl = true) (hne : tbl ≠ [])
    (h0 : natGtF32 (tbl.getD 0 0) x = false) :
    let idx := eirpIndex tbl x
    idx < tbl.length ∧ natGtF32 (tbl.getD idx 0) x = false ∧
      ∀ j, j < tbl.length → natGtF32 (tbl.getD j 0) x = false → tbl.getD j 0 ≤ tbl.getD idx 0 := by
  intro idx
  have hidx : idx = eirpIndex.go x tbl 0 0 := rfl
  rw [eirp_go_spec x tbl 0 0 (fun _ _ _ _ => trivial)] at hidx
  have hlen : 0 < tbl.length := List.length_pos_iff.mpr hne
  cases hf : tbl.findIdx? (fun e => natGtF32 e x) with
  | none =>
    rw [hf] at hidx
    have hemp : tbl.isEmpty = false := by cases tbl <;> simp_all
    simp only [hemp, Bool.false_eq_true, if_false, Nat.zero_add] at hidx
    have hall : ∀ j, j < tbl.length → natGtF32 (tbl.getD j 0) x = false := by
      intro j hj
      have := List.findIdx?_eq_none_iff.mp hf (tbl[j]) (List.getElem_mem hj)
      simp only [List.getD, List.getElem?_eq_getElem hj, Option.getD_some]
      simpa using this
    refine ⟨by omega, hall idx (by omega), ?_⟩
    intro j hj _
    exact strictInc_le tbl hinc j idx (by omega) (by omega)
  | some k =>
    rw [hf] at hidx
    obtain ⟨hk, hgk, hbefore⟩ := List.findIdx?_eq_some_iff_getElem.mp hf
    cases k with
    | zero =>
      exfalso
      have : natGtF32 (tbl.getD 0 0) x = true := by
        simp only [List.getD, List.getElem?_eq_getElem hk, Option.getD_some]; exact hgk
      rw [h0] at this; contradiction
    | succ k =>
      simp only [Nat.zero_add] at hidx
      rw [hidx]
      refine ⟨by omega, ?_, ?_⟩
      · have := hbefore k (by omega)
        simp only [List.getD, List.getElem?_eq_getElem (show k < tbl.length by omega), Option.getD_some]
        simpa using this
      · intro j hj hng
        by_cases hjk : j ≤ k
        · exact strictInc_le tbl hinc j k hjk (by omega)
        · exfalso
          have hmono := natGt_mono x (tbl.getD (k+1) 0) (tbl.getD j 0) (strictInc_le tbl hinc (k+1) j (by omega) hj)
            (by simp only [List.getD, List.getElem?_eq_getElem hk, Option.getD_some]; exact hgk)
          rw [hng] at hmono; contradiction

/-- the index decodes to that entry -/
theorem eirp_decode (tbl : List Nat) (x : F32) (hinc : strictInc tbl = true) (hne : tbl ≠ []) (h0 : natGtF32 (tbl.getD 0 0) x = false) :
    eirpOfIndex tbl (eirpIndex tbl x) = ok (tbl.getD (eirpIndex tbl x) 0) := by
  have := (eirp_largest tbl x hinc hne h0).1
  simp only [eirpOfIndex]
  have h1 : ¬ eirpIndex tbl x > tbl.length - 1 := by omega
  simp only [h1, if_false, List.getD, List.getElem?_eq_getElem this, Option.getD_some]

theorem generated_eirp : Generated.eirpTable = Spec.eirpTable ∧ strictInc Generated.eirpTable = true := by decide


/-- instants in non-decreasing order, non-negative durations, and each later leap at least its own duration after an earlier one -/
def SortedGap : List (Int × Int) → Prop
  | [] => True
  | (s, d) :: rest => 0 ≤ d ∧ (∀ e ∈ rest, s + e.2 ≤ e.1 ∧ 0 ≤ e.2) ∧ SortedGap rest

/-- the GPS-time intervals covered by the inserted leap seconds (`off` = leap seconds already inserted) -/
def leapIntervals (epoch : Int) : List (Int × Int) → Int → List (Int × Int)
  | [], _ => []
  | (s, d) :: rest, off => (s + nsPerSec - epoch + off, s + nsPerSec - epoch + off + d) :: leapIntervals epoch rest (off + d)

/-- a GPS duration that falls inside an inserted leap second -/
def inLeapSecond (tbl : LeapTable) (d : Int) : Prop := ∃ iv ∈ leapIntervals tbl.epoch tbl.entries 0, iv.1 ≤ d ∧ d < iv.2

/-- operational form: the running value of the sequential correction lands inside [S, S + d) -/
def landsInLeap : List (Int × Int) → Int → Prop
  | [], _ => False
  | (s, d) :: rest, c => if s + nsPerSec ≤ c then (c < s + nsPerSec + d ∨ landsInLeap rest (c - d)) else landsInLeap rest c

theorem lands_false_of_before (l : List (Int × Int)) (c : Int) (h : ∀ e ∈ l, c < e.1 + nsPerSec) : ¬ landsInLeap l c := by
  induction l with
  | nil => simp [landsInLeap]
  | cons x xs ih =>
    obtain ⟨s, d⟩ := x
    have h1 := h (s, d) List.mem_cons_self
    have : ¬ s + nsPerSec ≤ c := by simp only at h1; omega
    simp only [landsInLeap, this, if_false]
    exact ih (fun e he => h e (List.mem_cons_of_mem _ he))

theorem lands_imp_interval (epoch : Int) (l : List (Int × Int)) (hs : SortedGap l) (c off : Int) (h : landsInLeap l c) :
    ∃ iv ∈ leapIntervals epoch l off, iv.1 ≤ c - epoch + off ∧ c - epoch + off < iv.2 := by
  induction l generalizing c off with
  | nil => simp [landsInLeap] at h
  | cons x xs ih =>
    obtain ⟨s, d⟩ := x
    simp only [SortedGap] at hs
    obtain ⟨hd, hgap, hrest⟩ := hs
    simp only [landsInLeap] at h
    by_cases hc : s + nsPerSec ≤ c
    · simp only [hc, if_true] at h
      rcases h with h | h
      · exact ⟨_, List.mem_cons_self, by simp only; omega, by simp only; omega⟩
      · obtain ⟨iv, hiv, h1, h2⟩ := ih hrest (c - d) (off + d) h
        exact ⟨iv, List.mem_cons_of_mem _ hiv, by omega, by omega⟩
    · simp only [hc, if_false] at h
      exfalso
      exact lands_false_of_before xs c (fun e he => by have := (hgap e he); omega) h

/-- the core: if the running value never lands inside a leap second, the sequential correction subtracts exactly the
leap seconds that apply at the resulting instant -/
theorem fold_cnt (l : List (Int × Int)) (hs : SortedGap l) (c L : Int) (hL : L ≤ c) (hLg : ∀ e ∈ l, L + e.2 ≤ e.1 + nsPerSec)
    (hn : ¬ landsInLeap l c) :
    L ≤ l.foldl (fun c (ls : Int × Int) => if ls.1 + nsPerSec ≤ c then c - ls.2 else c) c ∧
    c - l.foldl (fun c (ls : Int × Int) => if ls.1 + nsPerSec ≤ c then c - ls.2 else c) c =
      cnt l (l.foldl (fun c (ls : Int × Int) => if ls.1 + nsPerSec ≤ c then c - ls.2 else c) c) := by
  induction l generalizing c L with
  | nil => simp [cnt]; exact hL
  | cons x xs ih =>
    obtain ⟨s, d⟩ := x
    simp only [SortedGap] at hs
    obtain ⟨hd, hgap, hrest⟩ := hs
    simp only [landsInLeap] at hn
    simp only [List.foldl_cons]
    by_cases hc : s + nsPerSec ≤ c
    · simp only [hc, if_true] at hn ⊢
      have hn1 : ¬ c < s + nsPerSec + d := fun h => hn (Or.inl h)
      have hn2 : ¬ landsInLeap xs (c - d) := fun h => hn (Or.inr h)
      obtain ⟨h1, h2⟩ := ih hrest (c - d) (s + nsPerSec) (by omega) (fun e he => by have := hgap e he; omega) hn2
      refine ⟨?_, ?_⟩
      · have := hLg (s, d) List.mem_cons_self; simp only at this; omega
      · simp only [cnt, h1, if_true]; omega
    · simp only [hc, if_false] at hn ⊢
      have hnoop := fold_noop xs c (fun e he => by have := (hgap e he); omega)
      rw [hnoop]
      refine ⟨hL, ?_⟩
      have hz : cnt xs c = 0 := cnt_zero_of_before xs c (fun e he => by have := (hgap e he); omega)
      simp only [cnt, hc, if_false, hz]; omega

theorem exists_lower (l : List (Int × Int)) (c : Int) : ∃ L, L ≤ c ∧ ∀ e ∈ l, L + e.2 ≤ e.1 + nsPerSec := by
  induction l with
  | nil => exact ⟨c, Int.le_refl _, by simp⟩
  | cons x xs ih =>
    obtain ⟨L, h1, h2⟩ := ih
    refine ⟨min L (x.1 + nsPerSec - x.2), by omega, ?_⟩
    intro e he
    rcases List.mem_cons.mp he with rfl | he'
    · omega
    · have := h2 e he'; omega

/-- C20: GPS duration → UTC → GPS duration is the identity, except for durations inside an inserted leap second -/
theorem gps_inverse (tbl : LeapTable) (hs : SortedGap tbl.entries) (d : Int) (hd : ¬ inLeapSecond tbl d) :
    toGPS tbl (fromGPS tbl d) = d := by
  have hn : ¬ landsInLeap tbl.entries (tbl.epoch + d) := by
    intro h
    obtain ⟨iv, hiv, h1, h2⟩ := lands_imp_interval tbl.epoch tbl.entries hs (tbl.epoch + d) 0 h
    exact hd ⟨iv, hiv, by omega, by omega⟩
  obtain ⟨L, hL1, hL2⟩ := exists_lower tbl.entries (tbl.epoch + d)
  obtain ⟨_, h2⟩ := fold_cnt tbl.entries hs (tbl.epoch + d) L hL1 hL2 hn
  rw [toGPS_eq]
  simp only [fromGPS]
  omega

def sortedGapB : List (Int × Int) → Bool
  | [] => true
  | (s, d) :: rest => decide (0 ≤ d) && rest.all (fun e => decide (s + e.2 ≤ e.1) && decide (0 ≤ e.2)) && sortedGapB rest

theorem sortedGapB_sound (l : List (Int × Int)) (h : sortedGapB l = true) : SortedGap l := by
  induction l with
  | nil => trivial
  | cons x xs ih =>
    obtain ⟨s, d⟩ := x
    simp only [sortedGapB, Bool.and_eq_true, decide_eq_true_eq, List.all_eq_true] at h
    exact ⟨h.1.1, fun e he => h.1.2 e he, ih h.2⟩

theorem generated_sortedGap : sortedGapB Generated.leapTable.entries = true := by decide +kernel


end LW.MiscProofs
