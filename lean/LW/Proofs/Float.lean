/-
  LW.Proofs.Float — the binary64 error analysis behind C17's Frequency clause.
  This is the only module of the project that imports Mathlib tactics (nlinarith / linarith / ring for the non-linear
  integer inequalities); it is not imported by the compiled driver.
  Kernel note: terms like `m * 1000000` with a variable left factor must never be unfolded by the kernel
  (Nat.mul recurses on the literal), so the final composition uses generic lemmas instead of definitional unfolding.
-/
import Mathlib.Tactic.Linarith
import Mathlib.Tactic.Ring
import LW.Model.Backend
namespace LW.Backend
open LW

theorem rne_bounds (a b : Nat) (hb : 0 < b) : 2 * rne a b * b ≤ 2 * a + b ∧ 2 * a ≤ 2 * rne a b * b + b := by
  have hdm := Nat.div_add_mod a b
  have hr := Nat.mod_lt a hb
  unfold rne
  simp only
  generalize a / b = q at *
  generalize a % b = r at *
  split
  · constructor <;> nlinarith
  · split
    · constructor <;> nlinarith
    · split <;> (constructor <;> nlinarith)

theorem rne_one (a : Nat) : rne a 1 = a := by
  unfold rne; simp [Nat.mod_one]

theorem expOf_ge (n d : Nat) : min 1074 (51 - (Nat.log2 n : Int) + (Nat.log2 d : Int)) ≤ expOf n d := by
  unfold expOf
  simp only
  split <;> split <;> (try split) <;> omega

theorem expOf_le (n d : Nat) : expOf n d ≤ 1074 := by
  unfold expOf; simp only; split <;> omega

theorem log2_le_of_lt {n k : Nat} (hn : n ≠ 0) (h : n < 2 ^ (k + 1)) : Nat.log2 n ≤ k := by
  have := (Nat.log2_lt hn).2 h; omega


theorem roundPos_some (n d : Nat) (hn : n ≠ 0) (hk : -971 < expOf n d) :
    roundPos n d = some (rne (scaled n d (expOf n d)).1 (scaled n d (expOf n d)).2, expOf n d) := by
  unfold roundPos
  simp only [hn, if_false]
  rw [if_neg]
  omega

theorem scaled_nonneg (n d : Nat) (k : Int) (hk : 0 ≤ k) : scaled n d k = (n * 2 ^ k.toNat, d) := by
  unfold scaled; simp [hk]

theorem two_pow_ge {a b : Nat} (h : a ≤ b) : 2 ^ a ≤ 2 ^ b := Nat.pow_le_pow_right (by decide) h

/-- float64(f) for 0 < f < 2^32 is exact -/
theorem float_of_nat (f : Nat) (h0 : f ≠ 0) (hf : f < 2 ^ 32) :
    ∃ k1 : Nat, roundPos f 1 = some (f * 2 ^ k1, (k1 : Int)) := by
  have hl : Nat.log2 f ≤ 31 := log2_le_of_lt h0 hf
  have hge := expOf_ge f 1
  have h1 : Nat.log2 1 = 0 := by decide
  rw [h1] at hge
  have hk : 0 ≤ expOf f 1 := by omega
  refine ⟨(expOf f 1).toNat, ?_⟩
  rw [roundPos_some f 1 h0 (by omega), scaled_nonneg _ _ _ hk, rne_one]
  simp [Int.toNat_of_nonneg hk]


theorem div_step (f k1 : Nat) (h0 : f ≠ 0) (hf : f < 2 ^ 32) :
    ∃ m2 k2 : Nat, divInt (f * 2 ^ k1, (k1 : Int)) 1000000 = some (m2, (k2 : Int)) ∧ 39 ≤ k2 ∧
      2 * m2 * 1000000 ≤ 2 * f * 2 ^ k2 + 1000000 ∧ 2 * f * 2 ^ k2 ≤ 2 * m2 * 1000000 + 1000000 := by
  have hP : 0 < 2 ^ k1 := Nat.pow_pos (by decide)
  have hn2 : f * 2 ^ k1 ≠ 0 := Nat.mul_ne_zero h0 (by omega)
  have hd2 : 1000000 * 2 ^ k1 ≠ 0 := Nat.mul_ne_zero (by decide) (by omega)
  have hl2 : Nat.log2 (f * 2 ^ k1) ≤ 31 + k1 := by
    apply log2_le_of_lt hn2
    have : (2:Nat) ^ (31 + k1 + 1) = 2 ^ 32 * 2 ^ k1 := by rw [show 31 + k1 + 1 = 32 + k1 by omega, Nat.pow_add]
    rw [this]; exact Nat.mul_lt_mul_of_pos_right hf hP
  have hld : 19 + k1 ≤ Nat.log2 (1000000 * 2 ^ k1) := by
    rw [Nat.le_log2 hd2, Nat.pow_add]
    exact Nat.mul_le_mul_right _ (by decide)
  have hge := expOf_ge (f * 2 ^ k1) (1000000 * 2 ^ k1)
  have hk : 39 ≤ expOf (f * 2 ^ k1) (1000000 * 2 ^ k1) := by omega
  have hk0 : 0 ≤ expOf (f * 2 ^ k1) (1000000 * 2 ^ k1) := by omega
  have hdiv : divInt (f * 2 ^ k1, (k1 : Int)) 1000000 = roundPos (f * 2 ^ k1) (1000000 * 2 ^ k1) := by
    simp [divInt]
  refine ⟨rne (f * 2 ^ k1 * 2 ^ (expOf (f * 2 ^ k1) (1000000 * 2 ^ k1)).toNat) (1000000 * 2 ^ k1),
    (expOf (f * 2 ^ k1) (1000000 * 2 ^ k1)).toNat, ?_, by omega, ?_, ?_⟩
  · rw [hdiv, roundPos_some _ _ hn2 (by omega), scaled_nonneg _ _ _ hk0]
    simp [Int.toNat_of_nonneg hk0]
  · have hb := (rne_bounds (f * 2 ^ k1 * 2 ^ (expOf (f * 2 ^ k1) (1000000 * 2 ^ k1)).toNat) (1000000 * 2 ^ k1) (by omega)).1
    apply Nat.le_of_mul_le_mul_right _ hP
    nlinarith [hb]
  · have hb := (rne_bounds (f * 2 ^ k1 * 2 ^ (expOf (f * 2 ^ k1) (1000000 * 2 ^ k1)).toNat) (1000000 * 2 ^ k1) (by omega)).2
    apply Nat.le_of_mul_le_mul_right _ hP
    nlinarith [hb]


theorem round_half_away_eq (m K f : Nat) (hK : 0 < K) (h1 : 2 * m < 2 * f * K + K) (h2 : 2 * f * K < 2 * m + K) :
    (if 2 * (m % K) ≥ K then m / K + 1 else m / K) = f := by
  have hdm := Nat.div_add_mod m K
  have hr := Nat.mod_lt m hK
  generalize m / K = q at *
  generalize m % K = r at *
  split
  · -- q + 1 = f
    have a : q < f := by
      by_contra hc
      have : f ≤ q := by omega
      nlinarith [Nat.mul_le_mul_right K this]
    have b : f ≤ q + 1 := by
      by_contra hc
      have : q + 2 ≤ f := by omega
      nlinarith [Nat.mul_le_mul_right K this]
    omega
  · have a : f ≤ q := by
      by_contra hc
      have : q + 1 ≤ f := by omega
      nlinarith [Nat.mul_le_mul_right K this]
    have b : q ≤ f := by
      by_contra hc
      have : f + 1 ≤ q := by omega
      nlinarith [Nat.mul_le_mul_right K this]
    omega

theorem mul_round_step (f m2 k2 : Nat) (h0 : f ≠ 0) (hf : f < 2 ^ 32) (hk2 : 39 ≤ k2)
    (A1 : 2 * m2 * 1000000 ≤ 2 * f * 2 ^ k2 + 1000000) (A2 : 2 * f * 2 ^ k2 ≤ 2 * m2 * 1000000 + 1000000) :
    unmarshalScaled 1000000 false (m2, (k2 : Int)) = some (f : Int) := by
  have hK2 : 2 ^ 39 ≤ 2 ^ k2 := two_pow_ge hk2
  have hK2v : (2:Nat) ^ 39 = 549755813888 := by decide
  have hf1 : 1 ≤ f := Nat.pos_of_ne_zero h0
  generalize hK : 2 ^ k2 = K2 at *
  have hm2 : 0 < m2 := by
    by_contra hc
    have : m2 = 0 := by omega
    subst this
    nlinarith
  have hn3 : m2 * 1000000 ≠ 0 := by omega
  have hd3 : K2 ≠ 0 := by omega
  have hl3 : Nat.log2 (m2 * 1000000) ≤ 32 + k2 := by
    apply log2_le_of_lt hn3
    rw [show 32 + k2 + 1 = 33 + k2 by omega, Nat.pow_add, hK]
    have : (2:Nat) ^ 33 = 8589934592 := by decide
    rw [this]
    nlinarith
  have hld : Nat.log2 K2 = k2 := by rw [← hK, Nat.log2_two_pow]
  have hge := expOf_ge (m2 * 1000000) K2
  have hk3 : 19 ≤ expOf (m2 * 1000000) K2 := by omega
  have hk30 : 0 ≤ expOf (m2 * 1000000) K2 := by omega
  have hmul : mulInt (m2, (k2 : Int)) 1000000 = roundPos (m2 * 1000000) K2 := by
    simp [mulInt, hK]
  obtain ⟨k3, hk3e⟩ : ∃ k3 : Nat, expOf (m2 * 1000000) K2 = (k3 : Int) := ⟨_, (Int.toNat_of_nonneg hk30).symm⟩
  have hk3n : 19 ≤ k3 := by omega
  have hK3 : 2 ^ 19 ≤ 2 ^ k3 := two_pow_ge hk3n
  have hK3v : (2:Nat) ^ 19 = 524288 := by decide
  have hb := rne_bounds (m2 * 1000000 * 2 ^ k3) K2 (by omega)
  generalize hM : rne (m2 * 1000000 * 2 ^ k3) K2 = m3 at hb
  unfold unmarshalScaled
  rw [hmul, roundPos_some _ _ hn3 (by omega), hk3e, scaled_nonneg _ _ _ (by omega)]
  simp only [Int.toNat_natCast, hM, Option.bind_eq_bind, Option.bind_some, roundHalfAway]
  have hpos : ¬ ((k3 : Int) ≤ 0) := by omega
  rw [if_neg hpos]
  simp only [Bool.false_eq_true, if_false, Option.pure_def, Option.some.injEq]
  generalize hK3g : 2 ^ k3 = K3 at *
  have h1 : 2 * m3 < 2 * f * K3 + K3 := by
    have : 2 * m3 * K2 < (2 * f * K3 + K3) * K2 := by nlinarith [Nat.mul_le_mul_right K3 A1, hb.1]
    exact Nat.lt_of_mul_lt_mul_right this
  have h2 : 2 * f * K3 < 2 * m3 + K3 := by
    have : 2 * f * K3 * K2 < (2 * m3 + K3) * K2 := by nlinarith [Nat.mul_le_mul_right K3 A2, hb.2]
    exact Nat.lt_of_mul_lt_mul_right this
  have := round_half_away_eq m3 K3 f (by omega) h1 h2
  exact_mod_cast this



theorem marshal_of (scale : Nat) (v : Int) (x y : Nat × Int) (h1 : roundPos v.natAbs 1 = some x) (h2 : divInt x scale = some y) :
    marshalScaled scale v = some (decide (v < 0), y) := by
  unfold marshalScaled
  rw [h1]
  show (divInt x scale).bind (fun y => some (decide (v < 0), y)) = _
  rw [h2]
  rfl

theorem roundTrip_of (scale : Nat) (v : Int) (neg : Bool) (x : Nat × Int) (r : Int)
    (h1 : marshalScaled scale v = some (neg, x)) (h2 : unmarshalScaled scale neg x = some r) : roundTripScaled scale v = some r := by
  unfold roundTripScaled
  rw [h1]
  exact h2

theorem roundTrip_zero (scale : Nat) (hs : scale ≠ 0) : roundTripScaled scale 0 = some 0 := by
  have h1 : marshalScaled scale 0 = some (false, (0, 0)) := by
    unfold marshalScaled
    show ((roundPos 0 1).bind fun x => (divInt x scale).bind fun y => some (decide ((0:Int) < 0), y)) = _
    have : roundPos 0 1 = some (0, 0) := by unfold roundPos; rfl
    rw [this]
    show ((divInt (0, 0) scale).bind fun y => some (decide ((0:Int) < 0), y)) = _
    have : divInt (0, 0) scale = some (0, 0) := by unfold divInt roundPos; simp
    rw [this]
    rfl
  have h2 : unmarshalScaled scale false (0, 0) = some 0 := by
    unfold unmarshalScaled
    have : mulInt (0, 0) scale = some (0, 0) := by unfold mulInt roundPos; simp
    rw [this]
    simp [roundHalfAway]
  exact roundTrip_of scale 0 false (0, 0) 0 h1 h2

/-- every frequency 0 ≤ f < 2^32 Hz survives MarshalJSON (÷ 10^6 in binary64) followed by UnmarshalJSON (× 10^6, math.Round) -/
theorem frequency_roundtrip (f : Nat) (hf : f < 2 ^ 32) : roundTripScaled 1000000 (f : Int) = some (f : Int) := by
  by_cases h0 : f = 0
  · subst h0; exact roundTrip_zero 1000000 (by decide)
  · obtain ⟨k1, hx⟩ := float_of_nat f h0 hf
    obtain ⟨m2, k2, hy, hk2, A1, A2⟩ := div_step f k1 h0 hf
    have hneg : decide ((f : Int) < 0) = false := by simp
    have hm := marshal_of 1000000 (f : Int) _ _ (by rw [Int.natAbs_natCast]; exact hx) hy
    rw [hneg] at hm
    exact roundTrip_of 1000000 (f : Int) false (m2, (k2 : Int)) (f : Int) hm (mul_round_step f m2 k2 h0 hf hk2 A1 A2)
end LW.Backend
