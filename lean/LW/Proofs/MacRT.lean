/-
  LW.Proofs.MacRT — MAC payload encode→decode round trips on the model (helper lemmas for C07/C06/C01).
-/
import LW.Spec.Mac
import LW.Proofs.Bits
namespace LW.MacRT
open LW Outcome Bits

theorem ok_inj {α} {a b : α} (h : (ok a : Outcome α) = ok b) : a = b := by injection h

theorem le2_rt (m : BitVec 16) : BitVec.ofNat 16 (leNat (leBytes 2 m.toNat)) = m := by
  rw [leNat_leBytes]
  apply BitVec.eq_of_toNat_eq
  have := m.isLt
  simp only [BitVec.toNat_ofNat]
  omega

theorem leBytes2 (n : Nat) : leBytes 2 n = [byteOfNat (n % 256), byteOfNat (n / 256 % 256)] := by
  simp [leBytes]
theorem leBytes3 (n : Nat) : leBytes 3 n = [byteOfNat (n % 256), byteOfNat (n / 256 % 256), byteOfNat (n / 256 / 256 % 256)] := by
  simp [leBytes]
theorem leBytes4 (n : Nat) : leBytes 4 n = [byteOfNat (n % 256), byteOfNat (n / 256 % 256), byteOfNat (n / 256 / 256 % 256),
    byteOfNat (n / 256 / 256 / 256 % 256)] := by
  simp [leBytes]

theorem leNat3 (a b c : Byte) : leNat [a, b, c] = a.toNat + 256 * (b.toNat + 256 * c.toNat) := by simp [leNat]
theorem leNat2 (a b : Byte) : leNat [a, b] = a.toNat + 256 * b.toNat := by simp [leNat]
theorem leNat4 (a b c d : Byte) : leNat [a, b, c, d] = a.toNat + 256 * (b.toNat + 256 * (c.toNat + 256 * d.toNat)) := by simp [leNat]

/-- decoding the 3 little-endian bytes of `n < 2^24` gives `n` back -/
theorem le3_rt (n : Nat) (h : n < 16777216) :
    leNat [byteOfNat (n % 256), byteOfNat (n / 256 % 256), byteOfNat (n / 256 / 256 % 256)] = n := by
  simp only [leNat3, byteOfNat, BitVec.toNat_ofNat]
  omega

theorem le4_rt (n : Nat) (h : n < 4294967296) :
    leNat [byteOfNat (n % 256), byteOfNat (n / 256 % 256), byteOfNat (n / 256 / 256 % 256), byteOfNat (n / 256 / 256 / 256 % 256)] = n := by
  simp only [leNat4, byteOfNat, BitVec.toNat_ofNat]
  omega

/-- a frequency that passes the 100 Hz checks survives `freq100Dec ∘ leBytes 3` -/
theorem freq_rt (f : BitVec 32) (h1 : ¬ f.toNat / 100 ≥ 16777216) (h2 : f.toNat % 100 = 0) :
    freq100Dec [byteOfNat (f.toNat / 100 % 256), byteOfNat (f.toNat / 100 / 256 % 256), byteOfNat (f.toNat / 100 / 256 / 256 % 256)] = f := by
  unfold freq100Dec
  rw [le3_rt _ (by omega)]
  apply BitVec.eq_of_toNat_eq
  have := f.isLt
  simp only [BitVec.toNat_ofNat]
  omega

set_option maxRecDepth 4000

theorem rt_version (m : Byte) (h : ¬ m.toNat > 7) : m &&& 0x0f#8 = m := and_0f_of_le m (by omega)

theorem lossless (v : MacP) (bs : Bytes) (h : v.enc = ok bs) : v.kind.dec0 bs = ok (Spec.wireNorm v) := by
  cases v with
  | resetInd m | resetConf m | rekeyInd m | rekeyConf m =>
    simp only [MacP.enc] at h
    split at h
    · contradiction
    · cases ok_inj h
      simp [MacP.kind, Kind.dec0, Kind.dec, Spec.wireNorm, rt_version m ‹_›]
  | linkCheckAns a b =>
    cases ok_inj h
    simp [MacP.kind, Kind.dec0, Kind.dec, Spec.wireNorm]
  | linkADRReq dr txp mask cntl nb =>
    simp only [MacP.enc, redundancyEnc] at h
    split at h <;> try contradiction
    split at h <;> try contradiction
    split at h <;> try contradiction
    split at h <;> try contradiction
    cases ok_inj h
    simp only [chMaskEnc, leBytes2, List.cons_append, List.nil_append, MacP.kind, Kind.dec0, Kind.dec, Kind.zero, Spec.wireNorm]
    rw [xor_hi txp dr (by omega) (by omega), xor_lo txp dr (by omega) (by omega),
        xor_hi7 nb cntl (by omega) (by omega), xor_lo7 nb cntl (by omega) (by omega)]
    rw [← leBytes2, le2_rt]
  | linkADRAns a b c =>
    cases ok_inj h
    cases a <;> cases b <;> cases c <;> decide
  | rxParamSetupAns a b c =>
    cases ok_inj h
    cases a <;> cases b <;> cases c <;> decide
  | dutyCycleReq d =>
    simp only [MacP.enc] at h
    split at h
    · contradiction
    · cases ok_inj h
      simp [MacP.kind, Kind.dec0, Kind.dec, Spec.wireNorm]
  | rxParamSetupReq f o r2 r1 =>
    simp only [MacP.enc, dlSettingsEnc] at h
    split at h <;> try contradiction
    split at h <;> try contradiction
    split at h <;> try contradiction
    split at h <;> try contradiction
    cases ok_inj h
    rename_i h1 h2 h3 h4
    simp only [leBytes3, MacP.kind, Kind.dec0, Kind.dec, Kind.zero, Spec.wireNorm, dlSettingsDec]
    rw [freq_rt f h1 (by simpa using h2)]
    have hk : ∀ (a : Fin 16) (b : Fin 8) (o : Bool),
        let x : Byte := (BitVec.ofNat 8 a ||| (BitVec.ofNat 8 b <<< 4)) ||| (if o then 0x80#8 else 0#8)
        (x &&& 0x80#8 != 0#8) = o ∧ x &&& 0x0f#8 = BitVec.ofNat 8 a ∧ (x &&& 0x70#8) >>> 4 = BitVec.ofNat 8 b := by decide
    have := hk ⟨r2.toNat, by omega⟩ ⟨r1.toNat, by omega⟩ o
    simp only [BitVec.ofNat_toNat, BitVec.setWidth_eq] at this
    simp [this.1, this.2.1, this.2.2]
  | devStatusAns bat m =>
    simp only [MacP.enc] at h
    have hk : ∀ m : Byte, (¬ m.toInt < -32) → (¬ m.toInt > 31) →
        (let e := (if m.toInt < 0 then 64#8 + m else m) &&& 0x3f#8
         (if e.toNat > 31 then e - 64#8 else e) = m) := by decide
    split at h <;> try contradiction
    split at h <;> try contradiction
    rename_i h1 h2
    have := hk m h1 h2
    split at h
    · cases ok_inj h
      rename_i h3
      simp only [h3, if_true] at this
      simp only [MacP.kind, Kind.dec0, Kind.dec, Spec.wireNorm]
      rw [this]
    · cases ok_inj h
      rename_i h3
      simp only [h3, if_false] at this
      simp only [MacP.kind, Kind.dec0, Kind.dec, Spec.wireNorm]
      rw [this]
  | newChannelAns a b =>
    cases ok_inj h
    cases a <;> cases b <;> decide
  | dlChannelAns a b =>
    cases ok_inj h
    cases a <;> cases b <;> decide
  | pingSlotChannelAns a b =>
    cases ok_inj h
    cases a <;> cases b <;> decide
  | beaconFreqAns a =>
    cases ok_inj h
    cases a <;> decide
  | rejoinParamSetupAns a =>
    cases ok_inj h
    cases a <;> decide
  | rxTimingSetupReq d =>
    simp only [MacP.enc] at h
    split at h
    · contradiction
    · cases ok_inj h
      simp [MacP.kind, Kind.dec0, Kind.dec, Spec.wireNorm, and_0f_of_le d (by omega)]
  | pingSlotInfoReq d =>
    simp only [MacP.enc] at h
    split at h
    · contradiction
    · cases ok_inj h
      simp [MacP.kind, Kind.dec0, Kind.dec, Spec.wireNorm, and_7_of_le d (by omega)]
  | deviceModeInd c =>
    cases ok_inj h
    simp [MacP.kind, Kind.dec0, Kind.dec, Spec.wireNorm]
  | deviceModeConf c =>
    cases ok_inj h
    simp [MacP.kind, Kind.dec0, Kind.dec, Spec.wireNorm]
  | proprietary b =>
    cases ok_inj h
    simp [MacP.kind, Kind.dec0, Kind.dec, Spec.wireNorm]
  | adrParamSetupReq l d =>
    simp only [MacP.enc] at h
    split at h <;> try contradiction
    split at h <;> try contradiction
    cases ok_inj h
    simp [MacP.kind, Kind.dec0, Kind.dec, Spec.wireNorm, or_shr d l (by omega) (by omega), or_lo d l (by omega) (by omega)]
  | rejoinParamSetupReq t c =>
    simp only [MacP.enc] at h
    split at h <;> try contradiction
    split at h <;> try contradiction
    cases ok_inj h
    simp [MacP.kind, Kind.dec0, Kind.dec, Spec.wireNorm, or_hi c t (by omega) (by omega), or_lo c t (by omega) (by omega)]
  | dlChannelReq ch f =>
    simp only [MacP.enc, freq100Enc] at h
    split at h <;> try contradiction
    split at h <;> try contradiction
    rename_i h1 h2
    cases ok_inj h
    simp only [leBytes3, MacP.kind, Kind.dec0, Kind.dec, Spec.wireNorm]
    rw [freq_rt f h1 (by simpa using h2)]
  | beaconFreqReq f =>
    simp only [MacP.enc, freq100Enc] at h
    split at h <;> try contradiction
    split at h <;> try contradiction
    rename_i h1 h2
    cases ok_inj h
    simp only [leBytes3, MacP.kind, Kind.dec0, Kind.dec, Spec.wireNorm]
    rw [freq_rt f h1 (by simpa using h2)]
  | pingSlotChannelReq f dr =>
    simp only [MacP.enc, freq100Enc] at h
    split at h <;> try contradiction
    split at h <;> try contradiction
    rename_i h1 h2
    simp only [Outcome.ok_bind] at h
    split at h <;> try contradiction
    cases ok_inj h
    simp only [leBytes3, List.cons_append, List.nil_append, MacP.kind, Kind.dec0, Kind.dec, Spec.wireNorm]
    rw [freq_rt f h1 (by simpa using h2), and_0f_of_le dr (by omega)]
  | forceRejoinReq p r t d =>
    simp only [MacP.enc] at h
    split at h <;> try contradiction
    split at h <;> try contradiction
    split at h <;> try contradiction
    split at h <;> try contradiction
    rename_i h1 h2 h3 h4
    cases ok_inj h
    have ht : t.toNat ≤ 7 := by
      have : t = 0 ∨ t = 2 := by
        by_cases h0 : t = 0
        · exact Or.inl h0
        · by_cases h2' : t = 2
          · exact Or.inr h2'
          · exact absurd ⟨by simpa using h0, by simpa using h2'⟩ h3
      rcases this with rfl | rfl <;> decide
    simp only [MacP.kind, Kind.dec0, Kind.dec, Spec.wireNorm]
    rw [or3_hi r p (by omega) (by omega), or3_lo r p (by omega) (by omega), or_hi7 d t (by omega) ht, or_lo7 d t (by omega) ht]
  | newChannelReq ch f mx mn =>
    simp only [MacP.enc] at h
    have hf := f.isLt
    by_cases hb : f.toNat ≥ 2400000000
    · simp only [hb, if_true, true_and] at h
      split at h <;> try contradiction
      split at h <;> try contradiction
      split at h <;> try contradiction
      split at h <;> try contradiction
      split at h <;> try contradiction
      split at h <;> try contradiction
      rename_i h1 h2 h3 h4 h5 h6
      cases ok_inj h
      simp only [leBytes3, List.cons_append, List.nil_append, MacP.kind, Kind.dec0, Kind.dec, Spec.wireNorm]
      rw [xor_hi mn mx (by omega) (by omega), xor_lo mn mx (by omega) (by omega)]
      rw [le3_rt _ (by omega)]
      have h200 : f.toNat % 200 = 0 := by simpa using h3
      have : f.toNat / 2 / 100 ≥ 12000000 := by omega
      simp only [this, if_true]
      congr 2
      apply BitVec.eq_of_toNat_eq
      simp only [BitVec.toNat_ofNat]
      omega
    · simp only [hb, if_false, false_and] at h
      split at h <;> try contradiction
      split at h <;> try contradiction
      split at h <;> try contradiction
      split at h <;> try contradiction
      split at h <;> try contradiction
      rename_i h1 h2 h4 h5 h6
      cases ok_inj h
      simp only [leBytes3, List.cons_append, List.nil_append, MacP.kind, Kind.dec0, Kind.dec, Spec.wireNorm]
      rw [xor_hi mn mx (by omega) (by omega), xor_lo mn mx (by omega) (by omega)]
      rw [le3_rt _ (by omega)]
      have h100 : f.toNat % 100 = 0 := by simpa using h2
      have : ¬ f.toNat / 100 ≥ 12000000 := by
        intro hx
        exact h4 ⟨by omega, hx⟩
      simp only [this, if_false]
      congr 2
      apply BitVec.eq_of_toNat_eq
      simp only [BitVec.toNat_ofNat]
      omega
  | txParamSetupReq dn up e =>
    simp only [MacP.enc] at h
    split at h <;> try contradiction
    split at h <;> try contradiction
    split at h <;> try contradiction
    rename_i h1 h2 h3
    cases ok_inj h
    have hk : ∀ (a : Fin 16) (u d : Bool),
        let x : Byte := (BitVec.ofNat 8 a ^^^ (if u then 0x10#8 else 0#8)) ^^^ (if d then 0x20#8 else 0#8)
        bit x 5 = d ∧ bit x 4 = u ∧ x &&& 15#8 = BitVec.ofNat 8 a := by decide
    have hu : up = 0 ∨ up = 1 := by
      by_cases h0 : up = 0
      · exact Or.inl h0
      · by_cases h1' : up = 1
        · exact Or.inr h1'
        · exact absurd ⟨by simpa using h0, by simpa using h1'⟩ h2
    have hd : dn = 0 ∨ dn = 1 := by
      by_cases h0 : dn = 0
      · exact Or.inl h0
      · by_cases h1' : dn = 1
        · exact Or.inr h1'
        · exact absurd ⟨by simpa using h0, by simpa using h1'⟩ h3
    simp only [MacP.kind, Kind.dec0, Kind.dec, Kind.zero, Spec.wireNorm]
    rcases hu with rfl | rfl <;> rcases hd with rfl | rfl
    · have := hk ⟨e.toNat, by omega⟩ false false
      simp only [BitVec.ofNat_toNat, BitVec.setWidth_eq] at this
      simp at this ⊢
      simp [this.1, this.2.1, this.2.2]
    · have := hk ⟨e.toNat, by omega⟩ false true
      simp only [BitVec.ofNat_toNat, BitVec.setWidth_eq] at this
      simp at this ⊢
      simp [this.1, this.2.1, this.2.2]
    · have := hk ⟨e.toNat, by omega⟩ true false
      simp only [BitVec.ofNat_toNat, BitVec.setWidth_eq] at this
      simp at this ⊢
      simp [this.1, this.2.1, this.2.2]
    · have := hk ⟨e.toNat, by omega⟩ true true
      simp only [BitVec.ofNat_toNat, BitVec.setWidth_eq] at this
      simp at this ⊢
      simp [this.1, this.2.1, this.2.2]
  | deviceTimeAns ns =>
    simp only [MacP.enc] at h
    split at h <;> try contradiction
    rename_i h1
    cases ok_inj h
    have hn : 0 ≤ ns := by
      by_cases hx : ns < 0
      · exact absurd (Or.inl hx) h1
      · omega
    obtain ⟨n, rfl⟩ := Int.eq_ofNat_of_zero_le hn
    have hs : n / 1000000000 ≤ 4294967295 := by
      by_cases hx : tdiv (n : Int) second > 4294967295
      · exact absurd (Or.inr hx) h1
      · simp only [tdiv, second] at hx
        have : Int.tdiv (n : Int) 1000000000 = ((n / 1000000000 : Nat) : Int) := by
          rw [Int.tdiv_eq_ediv_of_nonneg (by omega)]; rfl
        rw [this] at hx
        omega
    have e1 : tdiv (n : Int) second = ((n / 1000000000 : Nat) : Int) := by
      simp only [tdiv, second]
      rw [Int.tdiv_eq_ediv_of_nonneg (by omega)]; rfl
    have e2 : ((((n / 1000000000 : Nat) : Int)) % 4294967296).toNat = n / 1000000000 := by omega
    have e3 : wrap64 ((n : Int) - ((n / 1000000000 : Nat) : Int) * second) = ((n % 1000000000 : Nat) : Int) := by
      simp only [wrap64, second]
      omega
    have e4 : tdiv (((n % 1000000000 : Nat) : Int)) 3906250 = ((n % 1000000000 / 3906250 : Nat) : Int) := by
      simp only [tdiv]
      rw [Int.tdiv_eq_ediv_of_nonneg (by omega)]; rfl
    simp only [e1, e2, e3, e4, leBytes4, List.cons_append, List.nil_append, MacP.kind, Kind.dec0, Kind.dec, Spec.wireNorm]
    rw [le4_rt _ (by omega)]
    apply congrArg ok
    apply congrArg MacP.deviceTimeAns
    have e5 : (BitVec.ofInt 8 ((n % 1000000000 / 3906250 : Nat) : Int)).toNat = n % 1000000000 / 3906250 := by
      simp only [BitVec.ofInt_natCast, BitVec.toNat_ofNat]
      omega
    rw [e5]
    simp only [second]
    omega


theorem freqCode_ok (f : BitVec 32) (h : (Spec.freqCode f).isSome = true) :
    ¬ (f.toNat / 100 ≥ 16777216) ∧ ¬ ((f.toNat % 100 != 0) = true) := by
  simp only [Spec.freqCode] at h
  split at h
  · rename_i hc
    constructor
    · omega
    · simp [hc.1]
  · simp at h

theorem freq100Enc_ok (f : BitVec 32) (h : (Spec.freqCode f).isSome = true) : freq100Enc f = ok (leBytes 3 (f.toNat / 100)) := by
  have := freqCode_ok f h
  simp only [freq100Enc, this.1, this.2, if_false]
  simp

theorem isSome_match {α β} {o : Option α} {f : α → Option β} (h : (match o with | some c => f c | none => none).isSome = true) :
    o.isSome = true := by
  cases o <;> simp_all

theorem accepts (v : MacP) (h : (Spec.toFields v).isSome = true) : v.enc.isOk = true := by
  cases v with
  | rxParamSetupReq f o r2 r1 =>
    simp only [Spec.toFields] at h
    have hf := freqCode_ok f (by
      cases hc : Spec.freqCode f with
      | none => rw [hc] at h; simp at h
      | some c => rfl)
    cases hfc : Spec.freqCode f with
    | none => simp [hfc] at h
    | some c =>
      simp only [hfc, Spec.lt, decide_eq_true_eq] at h
      split at h
      · rename_i hc
        have h1 : ¬ r2.toNat > 15 := by omega
        have h2 : ¬ r1.toNat > 7 := by omega
        simp [MacP.enc, dlSettingsEnc, hf.1, h1, h2, Outcome.isOk]
        have := hf.2
        simp at this
        simp [this, Outcome.isOk]
      · simp at h
  | newChannelReq ch f mx mn =>
    simp only [Spec.toFields] at h
    cases hfc : Spec.freqCodeNC f with
    | none => simp [hfc] at h
    | some c =>
      simp only [hfc, Spec.lt, decide_eq_true_eq] at h
      split at h
      · rename_i hc
        simp only [Spec.freqCodeNC] at hfc
        simp only [MacP.enc]
        by_cases hb : f.toNat ≥ 2400000000
        · simp only [hb, if_true] at hfc ⊢
          split at hfc
          · rename_i h2
            have a1 : ¬ f.toNat / 2 / 100 ≥ 16777216 := by omega
            have a2 : f.toNat % 100 = 0 := by omega
            simp [a1, a2, h2.1, Outcome.isOk]
            have b1 : ¬ 15 < mx.toNat := by omega
            have b2 : ¬ 15 < mn.toNat := by omega
            have b3 : ¬ f.toNat < 2400000000 := by omega
            simp [b1, b2, b3, Outcome.isOk]
          · simp at hfc
        · simp only [hb, if_false] at hfc ⊢
          split at hfc
          · rename_i h2
            have a1 : ¬ f.toNat / 100 ≥ 16777216 := by omega
            simp [a1, h2.1, Outcome.isOk]
            have b1 : ¬ 15 < mx.toNat := by omega
            have b2 : ¬ 15 < mn.toNat := by omega
            have b3 : ¬ 12000000 ≤ f.toNat / 100 := by omega
            have b4 : ¬ 2400000000 ≤ f.toNat := by omega
            simp [b1, b2, b3, b4, Outcome.isOk]
          · simp at hfc
      · simp at h
  | dlChannelReq ch f =>
    simp only [Spec.toFields] at h
    have hf : (Spec.freqCode f).isSome = true := (by
      cases hc : Spec.freqCode f with
      | none => rw [hc] at h; simp at h
      | some c => rfl)
    simp [MacP.enc, freq100Enc_ok f hf, Outcome.isOk]
  | beaconFreqReq f =>
    simp only [Spec.toFields] at h
    have hf : (Spec.freqCode f).isSome = true := (by
      cases hc : Spec.freqCode f with
      | none => rw [hc] at h; simp at h
      | some c => rfl)
    simp [MacP.enc, freq100Enc_ok f hf, Outcome.isOk]
  | pingSlotChannelReq f d =>
    simp only [Spec.toFields] at h
    have hf : (Spec.freqCode f).isSome = true := (by
      cases hc : Spec.freqCode f with
      | none => rw [hc] at h; simp at h
      | some c => rfl)
    cases hfc : Spec.freqCode f with
    | none => simp [hfc] at hf
    | some c =>
      simp only [hfc, Spec.lt, decide_eq_true_eq] at h
      split at h
      · rename_i hc
        have : ¬ d.toNat ≥ 16 := by omega
        simp [MacP.enc, freq100Enc_ok f hf, this, Outcome.isOk]
      · simp at h
  | deviceTimeAns ns =>
    simp only [Spec.toFields] at h
    split at h
    · rename_i hc
      obtain ⟨n, rfl⟩ := Int.eq_ofNat_of_zero_le hc.1
      have e1 : tdiv (n : Int) second = ((n / 1000000000 : Nat) : Int) := by
        simp only [tdiv, second]
        rw [Int.tdiv_eq_ediv_of_nonneg (by omega)]; rfl
      have : ¬ ((n : Int) < 0 ∨ tdiv (n : Int) second > 4294967295) := by
        rw [e1]; omega
      simp only [MacP.enc, this, if_false, Outcome.isOk]
    · simp at h
  | forceRejoinReq p r t d =>
    simp only [Spec.toFields, Spec.lt, decide_eq_true_eq] at h
    split at h
    · rename_i hc
      have h1 : ¬ p.toNat > 7 := by omega
      have h2 : ¬ r.toNat > 7 := by omega
      have h4 : ¬ d.toNat > 15 := by omega
      have h3 : ¬ (t != 0 ∧ t != 2) := by
        rcases hc.2.2.1 with h0 | h0
        · have : t = 0 := BitVec.eq_of_toNat_eq (by simpa using h0)
          simp [this]
        · have : t = 2 := BitVec.eq_of_toNat_eq (by simpa using h0)
          simp [this]
      simp only [MacP.enc, h1, h2, h3, h4, if_false, Outcome.isOk]
    · simp at h
  | _ =>
    simp only [Spec.toFields, Spec.lt, decide_eq_true_eq] at h <;>
    simp only [MacP.enc, redundancyEnc, dlSettingsEnc, freq100Enc] <;>
    (try (repeat' split) <;> simp_all [Outcome.isOk] <;> omega)

end LW.MacRT
