/-
  LW.Known — decidable regions of the *known findings* (defects of the unchanged code that were recorded
  instead of repaired). They are the explicit guards of the `_partial` theorems and the only way a spec
  verdict becomes `KNOWN:<id>` instead of `VIOL:`. See /verif/known_findings.json.
-/
import LW.Model.Crypto
namespace LW.Known
open LW

end LW.Known
