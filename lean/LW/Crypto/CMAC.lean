/-
  LW.Crypto.CMAC — block-cipher interface and RFC 4493 AES-CMAC, generic in the cipher.
-/
import LW.Crypto.AES
namespace LW

/-- A block cipher on 16-byte blocks, keyed by a byte string. Theorems quantify over *every* such
pair of functions (plus `Lawful` where invertibility is needed); the driver instantiates it with AES. -/
structure BlockCipher where
  enc : Bytes → Bytes → Bytes
  dec : Bytes → Bytes → Bytes

structure BlockCipher.Lawful (E : BlockCipher) : Prop where
  enc_len : ∀ k b, (E.enc k b).length = 16
  dec_len : ∀ k b, (E.dec k b).length = 16
  dec_enc : ∀ k b, b.length = 16 → E.dec k (E.enc k b) = b
  enc_dec : ∀ k b, b.length = 16 → E.enc k (E.dec k b) = b

def aesCipher : BlockCipher := { enc := AES.encrypt, dec := AES.decrypt }

/-- big-endian value of a byte string -/
def beNat : Bytes → Nat
  | [] => 0
  | b :: bs => b.toNat * 256 ^ bs.length + beNat bs

def beBytes (n : Nat) (x : Nat) : Bytes := (leBytes n x).reverse

/-- RFC 4493 subkey doubling in GF(2^128) -/
def cmacDbl (x : Bytes) : Bytes :=
  let n := beNat x
  let s := (2 * n) % 2 ^ 128
  beBytes 16 (if n ≥ 2 ^ 127 then Nat.xor s 0x87 else s)

/-- CBC-MAC over complete 16-byte blocks -/
def cbcMac (E : Bytes → Bytes) : Nat → Bytes → Bytes → Bytes
  | 0, x, _ => x
  | n+1, x, msg => cbcMac E n (E (xorBytes x (msg.take 16))) (msg.drop 16)

/-- RFC 4493 AES-CMAC with `E = enc key`. -/
def cmac (E : Bytes → Bytes) (msg : Bytes) : Bytes :=
  let l := E (zeros 16)
  let k1 := cmacDbl l
  let k2 := cmacDbl k1
  let n := if msg.length == 0 then 1 else (msg.length + 15) / 16
  let complete := msg.length != 0 && msg.length % 16 == 0
  let last := msg.drop (16 * (n - 1))
  let lastBlock :=
    if complete then xorBytes last k1
    else xorBytes (last ++ [0x80#8] ++ zeros (15 - last.length)) k2
  let x := cbcMac E (n - 1) (zeros 16) msg
  E (xorBytes x lastBlock)

end LW
