/-
  LW.Crypto.AES — executable FIPS-197 AES (128/192/256-bit keys), used by the driver as the concrete
  block cipher. No theorem depends on this file: every crypto theorem is proved for an arbitrary
  `BlockCipher`. It is validated against Go's crypto/aes by the correspondence runs.
-/
import LW.Basic
namespace LW.AES

/-- multiplication by x in GF(2^8) -/
@[inline] def xtime (b : UInt8) : UInt8 :=
  let s := b <<< 1
  if b &&& 0x80 != 0 then s ^^^ 0x1b else s

def gmul (a b : UInt8) : UInt8 := Id.run do
  let mut r : UInt8 := 0
  let mut x := a
  let mut y := b
  for _ in [0:8] do
    if y &&& 1 != 0 then r := r ^^^ x
    x := xtime x
    y := y >>> 1
  return r

/-- multiplicative inverse in GF(2^8) (0 ↦ 0) by exhaustive search; only used to build the S-box once. -/
def ginv (a : UInt8) : UInt8 :=
  if a == 0 then 0 else
  match (List.range 256).find? (fun x => gmul a x.toUInt8 == 1) with
  | some x => x.toUInt8
  | none => 0

@[inline] def rotl8 (x : UInt8) (n : UInt8) : UInt8 := (x <<< n) ||| (x >>> (8 - n))

def sboxByte (a : UInt8) : UInt8 :=
  let b := ginv a
  b ^^^ rotl8 b 1 ^^^ rotl8 b 2 ^^^ rotl8 b 3 ^^^ rotl8 b 4 ^^^ 0x63

def sbox : Array UInt8 := (Array.range 256).map (fun i => sboxByte i.toUInt8)

def invSbox : Array UInt8 := Id.run do
  let mut t : Array UInt8 := Array.replicate 256 0
  for i in [0:256] do
    t := t.set! (sbox[i]!).toNat i.toUInt8
  return t

@[inline] def sub (b : UInt8) : UInt8 := sbox[b.toNat]!
@[inline] def isub (b : UInt8) : UInt8 := invSbox[b.toNat]!

/-- key expansion: returns 4*(Nr+1) words as a flat byte array -/
def expandKey (key : Array UInt8) : Array UInt8 := Id.run do
  let nk := key.size / 4
  let nr := nk + 6
  let total := 4 * (nr + 1)
  let mut w := key
  let mut rcon : UInt8 := 1
  for i in [nk:total] do
    let mut t0 := w[4*(i-1)]!
    let mut t1 := w[4*(i-1)+1]!
    let mut t2 := w[4*(i-1)+2]!
    let mut t3 := w[4*(i-1)+3]!
    if i % nk == 0 then
      let a0 := sub t1 ^^^ rcon
      let a1 := sub t2
      let a2 := sub t3
      let a3 := sub t0
      t0 := a0; t1 := a1; t2 := a2; t3 := a3
      rcon := xtime rcon
    else if nk > 6 && i % nk == 4 then
      t0 := sub t0; t1 := sub t1; t2 := sub t2; t3 := sub t3
    w := w.push (w[4*(i-nk)]! ^^^ t0)
    w := w.push (w[4*(i-nk)+1]! ^^^ t1)
    w := w.push (w[4*(i-nk)+2]! ^^^ t2)
    w := w.push (w[4*(i-nk)+3]! ^^^ t3)
  return w

@[inline] def addRoundKey (s : Array UInt8) (w : Array UInt8) (round : Nat) : Array UInt8 :=
  (Array.range 16).map (fun i => s[i]! ^^^ w[16*round + i]!)

/-- state is column-major: s[4*c + r] -/
def shiftRows (s : Array UInt8) : Array UInt8 :=
  (Array.range 16).map (fun i => let c := i / 4; let r := i % 4; s[4*((c + r) % 4) + r]!)

def invShiftRows (s : Array UInt8) : Array UInt8 :=
  (Array.range 16).map (fun i => let c := i / 4; let r := i % 4; s[4*((c + 4 - r) % 4) + r]!)

def mixColumns (s : Array UInt8) : Array UInt8 :=
  (Array.range 16).map (fun i =>
    let c := i / 4; let r := i % 4
    let a (k : Nat) := s[4*c + (r + k) % 4]!
    xtime (a 0) ^^^ (xtime (a 1) ^^^ a 1) ^^^ a 2 ^^^ a 3)

def invMixColumns (s : Array UInt8) : Array UInt8 :=
  (Array.range 16).map (fun i =>
    let c := i / 4; let r := i % 4
    let a (k : Nat) := s[4*c + (r + k) % 4]!
    gmul (a 0) 0x0e ^^^ gmul (a 1) 0x0b ^^^ gmul (a 2) 0x0d ^^^ gmul (a 3) 0x09)

def encryptBlockW (w : Array UInt8) (nr : Nat) (inp : Array UInt8) : Array UInt8 := Id.run do
  let mut s := addRoundKey inp w 0
  for round in [1:nr] do
    s := addRoundKey (mixColumns (shiftRows (s.map sub))) w round
  return addRoundKey (shiftRows (s.map sub)) w nr

def decryptBlockW (w : Array UInt8) (nr : Nat) (inp : Array UInt8) : Array UInt8 := Id.run do
  let mut s := addRoundKey inp w nr
  for k in [1:nr] do
    let round := nr - k
    s := invMixColumns (addRoundKey ((invShiftRows s).map isub) w round)
  return addRoundKey ((invShiftRows s).map isub) w 0

def toU8 (bs : Bytes) : Array UInt8 := (bs.map (fun b => b.toNat.toUInt8)).toArray
def ofU8 (a : Array UInt8) : Bytes := a.toList.map (fun b => BitVec.ofNat 8 b.toNat)

/-- AES block encryption; key of 16, 24 or 32 bytes, block of 16 bytes. -/
def encrypt (key block : Bytes) : Bytes :=
  let k := toU8 key
  ofU8 (encryptBlockW (expandKey k) (k.size / 4 + 6) (toU8 ((block ++ zeros 16).take 16)))

def decrypt (key block : Bytes) : Bytes :=
  let k := toU8 key
  ofU8 (decryptBlockW (expandKey k) (k.size / 4 + 6) (toU8 ((block ++ zeros 16).take 16)))

end LW.AES
