/-
  C19 — the fragmentation encoder is systematic, linear and uses the TS004 parity matrix.
  `encodeWith line` is the encoder for an ARBITRARY parity-line function; `encode = encodeWith (matrixLine fuel)`.
  All theorems hold for every data block, fragment size and redundancy (no bound).
-/
import LW.Proofs.Frag
namespace LW.C19
open LW Outcome FragProofs

/-- systematic + count + parity: a successful encoding consists of the data fragments unchanged and in order, followed by
exactly `redundancy` parity fragments, fragment y (1-based) being the XOR of exactly the data fragments selected by line y -/
theorem C19_structure (line : Nat → Nat → Option (List Bool)) (data : Bytes) (size red : Int) (out : List Bytes)
    (h : encodeWith line data size red = ok out) :
    0 < size ∧ data.length % size.toNat = 0 ∧
    ∃ parity : List Bytes,
      out = rowsOf (data.length / size.toNat) size.toNat data ++ parity ∧
      parity.length = red.toNat ∧
      ∀ y, y < red.toNat → ∃ l, line (y + 1) (data.length / size.toNat) = some l ∧
        parity[y]? = some (xorSelected size.toNat l (rowsOf (data.length / size.toNat) size.toNat data)) :=
  encode_structure line data size red out h

/-- the data fragments are the data: concatenated they give the block back -/
theorem C19_systematic (k size : Nat) (data : Bytes) (h : data.length = k * size) : (rowsOf k size data).flatten = data :=
  rowsOf_flatten k size data h

/-- linear over XOR: encode (a ⊕ b) = encode a ⊕ encode b, fragment by fragment -/
theorem C19_linear (line : Nat → Nat → Option (List Bool)) (a b : Bytes) (size red : Int) (hab : a.length = b.length)
    (oa ob : List Bytes) (h1 : encodeWith line a size red = ok oa) (h2 : encodeWith line b size red = ok ob) :
    encodeWith line (xorBytes a b) size red = ok (zipXor oa ob) :=
  encode_linear line a b size red hab oa ob h1 h2

/-- the parity line the code uses is the TS004 pseudo-code (bit-operation form), both branches of is_power2 -/
theorem C19_matrix (fuel n m : Nat) : matrixLine fuel n m = Spec.matrixLine fuel n m := matrixLine_spec fuel n m

/-- invalid sizes — zero, negative, non-dividing — are reported as errors, never panics
(size ≤ 0 was a divide-by-zero panic / a silently empty result before the repair recorded as c19-encode-invalid-size) -/
theorem C19_errors (line : Nat → Nat → Option (List Bool)) (data : Bytes) (size red : Int)
    (h : size ≤ 0 ∨ data.length % size.toNat ≠ 0) : encodeWith line data size red = err :=
  encode_errors line data size red h

/-- with a line function that always answers (no fuel exhaustion) a valid request never fails -/
theorem C19_total (line : Nat → Nat → Option (List Bool)) (hline : ∀ n m, (line n m).isSome) (data : Bytes) (size red : Int)
    (hs : 0 < size) (hd : data.length % size.toNat = 0) : (encodeWith line data size red).isOk = true := by
  have key : ∀ (rows : List Bytes) (w k y : Nat), (parityRows line size.toNat w rows k y).isSome := by
    intro rows w k
    induction k with
    | zero => intro y; rfl
    | succ k ih =>
      intro y
      simp only [parityRows]
      cases hl : line (y + 1) w with
      | none => have := hline (y + 1) w; simp [hl] at this
      | some l => simp only [Option.isSome_map]; exact ih (y + 1)
  simp only [encodeWith]
  have h1 : ¬ size ≤ 0 := by omega
  have h2 : ¬ (data.length % size.toNat != 0) = true := by simp [hd]
  simp only [h1, h2, if_false]
  cases hp : parityRows line size.toNat (data.length / size.toNat) (rowsOf (data.length / size.toNat) size.toNat data) red.toNat 0 with
  | none => have := key (rowsOf (data.length / size.toNat) size.toNat data) (data.length / size.toNat) red.toNat 0; simp [hp] at this
  | some ps => rfl

/-! non-vacuity -/
example : (encode [1, 2, 3, 4, 5, 6, 7, 8] 2 2).isOk = true := by decide

end LW.C19
