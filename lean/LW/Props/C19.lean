/-
  C19 — the fragmentation encoder is systematic, linear and uses the TS004 parity matrix.
  `encodeWith line` is the encoder for an ARBITRARY parity-line function; `encode = encodeWith (matrixLine fuel)`.
  All theorems hold for every data block, fragment size and redundancy (no bound).
  Recovery (C19_recovery, C19_recovery_block) is stated for ANY collection of received fragments, in certificate form.
-/
import LW.Proofs.Frag
import LW.Proofs.FragRecover
namespace LW.C19
open LW Outcome FragProofs

/-- systematic + count + parity: a successful encoding consists of the data fragments unchanged and in order, followed by
exactly `redundancy` parity fragments, fragment y (1-based) being the XOR of exactly the data fragments selected by line y -/
theorem C19_structure (line : Nat → Nat → Option (List Bool)) (data : Bytes) (size red : Int) (out : List Bytes)
    (h : encodeWith line data size red = ok out) :
    0 < size ∧ data.length % size.toNat = 0 ∧
    ∃ parity : List Bytes,
      out = rowsOf (data.length / size.toNat) size.toNat data ++ parity ∧
      parity.length = red.toNat ∧
      ∀ y, y < red.toNat → ∃ l, line (y + 1) (data.length / size.toNat) = some l ∧
        parity[y]? = some (xorSelected size.toNat l (rowsOf (data.length / size.toNat) size.toNat data)) :=
  encode_structure line data size red out h

/-- the data fragments are the data: concatenated they give the block back -/
theorem C19_systematic (k size : Nat) (data : Bytes) (h : data.length = k * size) : (rowsOf k size data).flatten = data :=
  rowsOf_flatten k size data h

/-- linear over XOR: encode (a ⊕ b) = encode a ⊕ encode b, fragment by fragment -/
theorem C19_linear (line : Nat → Nat → Option (List Bool)) (a b : Bytes) (size red : Int) (hab : a.length = b.length)
    (oa ob : List Bytes) (h1 : encodeWith line a size red = ok oa) (h2 : encodeWith line b size red = ok ob) :
    encodeWith line (xorBytes a b) size red = ok (zipXor oa ob) :=
  encode_linear line a b size red hab oa ob h1 h2

/-- the parity line the code uses is the TS004 pseudo-code (bit-operation form), both branches of is_power2 -/
theorem C19_matrix (fuel n m : Nat) : matrixLine fuel n m = Spec.matrixLine fuel n m := matrixLine_spec fuel n m

/-- invalid sizes — zero, negative, non-dividing — are reported as errors, never panics
(size ≤ 0 was a divide-by-zero panic / a silently empty result before the repair recorded as c19-encode-invalid-size) -/
theorem C19_errors (line : Nat → Nat → Option (List Bool)) (data : Bytes) (size red : Int)
    (h : size ≤ 0 ∨ data.length % size.toNat ≠ 0) : encodeWith line data size red = err :=
  encode_errors line data size red h

/-- with a line function that always answers (no fuel exhaustion) a valid request never fails -/
theorem C19_total (line : Nat → Nat → Option (List Bool)) (hline : ∀ n m, (line n m).isSome) (data : Bytes) (size red : Int)
    (hs : 0 < size) (hd : data.length % size.toNat = 0) : (encodeWith line data size red).isOk = true := by
  have key : ∀ (rows : List Bytes) (w k y : Nat), (parityRows line size.toNat w rows k y).isSome := by
    intro rows w k
    induction k with
    | zero => intro y; rfl
    | succ k ih =>
      intro y
      simp only [parityRows]
      cases hl : line (y + 1) w with
      | none => have := hline (y + 1) w; simp [hl] at this
      | some l => simp only [Option.isSome_map]; exact ih (y + 1)
  simp only [encodeWith]
  have h1 : ¬ size ≤ 0 := by omega
  have h2 : ¬ (data.length % size.toNat != 0) = true := by simp [hd]
  simp only [h1, h2, if_false]
  cases hp : parityRows line size.toNat (data.length / size.toNat) (rowsOf (data.length / size.toNat) size.toNat data) red.toNat 0 with
  | none => have := key (rowsOf (data.length / size.toNat) size.toNat data) (data.length / size.toNat) red.toNat 0; simp [hp] at this
  | some ps => rfl

/-- every fragment the encoder hands out — data or parity — is the XOR of the data fragments named by its selection vector
(unit vector for data fragment t, parity-matrix line t − w + 1 for a parity fragment) -/
theorem C19_fragment_selection (line : Nat → Nat → Option (List Bool)) (data : Bytes) (size red : Int) (out : List Bytes)
    (h : encodeWith line data size red = ok out) (t : Nat) (f : Bytes) (hf : out[t]? = some f) :
    ∃ v, selOf line (data.length / size.toNat) t = some v ∧
      f = xorSelected size.toNat v (rowsOf (data.length / size.toNat) size.toNat data) :=
  encode_fragment line data size red out h t f hf

/-- recovery, one data fragment: `recv` is ANY collection of fragments of the encoding that arrived, each with its selection
vector.  If a combination `c` of the received selection vectors is the unit vector of data fragment j (such a `c` exists for
every j exactly when the vectors have full rank — it is what Gaussian elimination computes), then the same combination of
the received fragments is data fragment j.  `hlen` holds for the code's line function (`C19_matrix_line_length`). -/
theorem C19_recovery (line : Nat → Nat → Option (List Bool)) (data : Bytes) (size red : Int) (out : List Bytes)
    (h : encodeWith line data size red = ok out)
    (hlen : ∀ n l, line n (data.length / size.toNat) = some l → l.length = data.length / size.toNat)
    (recv : List (List Bool × Bytes))
    (hrecv : ∀ p ∈ recv, ∃ t, out[t]? = some p.2 ∧ selOf line (data.length / size.toNat) t = some p.1)
    (c : List Bool) (j : Nat) (r : Bytes) (hj : (rowsOf (data.length / size.toNat) size.toNat data)[j]? = some r)
    (hc : combVec (data.length / size.toNat) c (recv.map (·.1)) = unitVec (data.length / size.toNat) j) :
    xorSelected size.toNat c (recv.map (·.2)) = r := by
  obtain ⟨hs, hd, -⟩ := encode_structure line data size red out h
  have hdl : data.length = data.length / size.toNat * size.toNat := by
    have := Nat.div_add_mod data.length size.toNat
    rw [hd] at this; rw [Nat.mul_comm]; omega
  have e : recv.map (·.2) = (recv.map (·.1)).map (fun v => xorSelected size.toNat v (rowsOf (data.length / size.toNat) size.toNat data)) := by
    rw [List.map_map]
    apply List.map_congr_left
    intro p hp
    obtain ⟨t, ht, hsel⟩ := hrecv p hp
    obtain ⟨v, hv, hf⟩ := encode_fragment line data size red out h t p.2 ht
    rw [hsel] at hv
    cases hv
    exact hf
  rw [e]
  refine recover size.toNat _ _ (rowsOf_length _ _ _) (rowsOf_row_length _ _ data hdl) c _ ?_ j r hj hc
  intro v hv
  obtain ⟨p, hp, rfl⟩ := List.mem_map.mp hv
  obtain ⟨t, -, hsel⟩ := hrecv p hp
  unfold selOf at hsel
  split at hsel
  · rw [← Option.some.inj hsel]; exact unitVec_length _ _
  · exact hlen _ _ hsel

/-- recovery, whole block: with one such combination per data fragment (full rank) the independent decoder gets the
original block back, whatever subset of fragments arrived -/
theorem C19_recovery_block (line : Nat → Nat → Option (List Bool)) (data : Bytes) (size red : Int) (out : List Bytes)
    (h : encodeWith line data size red = ok out)
    (hlen : ∀ n l, line n (data.length / size.toNat) = some l → l.length = data.length / size.toNat)
    (recv : List (List Bool × Bytes))
    (hrecv : ∀ p ∈ recv, ∃ t, out[t]? = some p.2 ∧ selOf line (data.length / size.toNat) t = some p.1)
    (cs : List (List Bool)) (hcs : cs.length = data.length / size.toNat)
    (hfull : ∀ j c, cs[j]? = some c → combVec (data.length / size.toNat) c (recv.map (·.1)) = unitVec (data.length / size.toNat) j) :
    (cs.map (fun c => xorSelected size.toNat c (recv.map (·.2)))).flatten = data := by
  obtain ⟨hs, hd, -⟩ := encode_structure line data size red out h
  have hdl : data.length = data.length / size.toNat * size.toNat := by
    have := Nat.div_add_mod data.length size.toNat
    rw [hd] at this; rw [Nat.mul_comm]; omega
  have e : cs.map (fun c => xorSelected size.toNat c (recv.map (·.2))) = rowsOf (data.length / size.toNat) size.toNat data := by
    apply List.ext_getElem?
    intro j
    rw [List.getElem?_map]
    cases hcj : cs[j]? with
    | none =>
      have : cs.length ≤ j := by simpa using hcj
      have hl := rowsOf_length (data.length / size.toNat) size.toNat data
      simp only [Option.map_none]
      exact (List.getElem?_eq_none (by omega)).symm
    | some c =>
      have hjl : j < cs.length := (List.getElem?_eq_some_iff.mp hcj).1
      have hl := rowsOf_length (data.length / size.toNat) size.toNat data
      have hjr : j < (rowsOf (data.length / size.toNat) size.toNat data).length := by omega
      simp only [Option.map_some]
      rw [C19_recovery line data size red out h hlen recv hrecv c j _ (List.getElem?_eq_getElem hjr) (hfull j c hcj)]
      exact (List.getElem?_eq_getElem hjr).symm
  rw [e]
  exact rowsOf_flatten _ _ data hdl

/-- the code's parity-matrix line has one entry per data fragment -/
theorem C19_matrix_line_length (fuel n m : Nat) (l : List Bool) (h : matrixLine fuel n m = some l) : l.length = m :=
  matrixLine_length fuel n m l h

/-! non-vacuity -/
/- 6 data fragments of 2 bytes, 3 parity fragments; data fragment 0 is lost, fragment 1 and parity fragment 1 (line
[1,1,0,0,0,0]) arrive: their XOR is data fragment 0, and the hypotheses of C19_recovery are met by this instance -/
example : xorSelected 2 [true, true] [[3, 4], [2, 6]] = ([1, 2] : Bytes) := by
  have h : encodeWith (matrixLine fragFuel) [1, 2, 3, 4, 5, 6, 7, 8, 9, 10, 11, 12] 2 3
      = ok [[1, 2], [3, 4], [5, 6], [7, 8], [9, 10], [11, 12], [2, 6], [15, 0], [5, 14]] := by decide
  exact C19_recovery (matrixLine fragFuel) [1, 2, 3, 4, 5, 6, 7, 8, 9, 10, 11, 12] 2 3 _ h
    (fun n l hl => matrixLine_length fragFuel n _ l hl)
    [(unitVec 6 1, [3, 4]), ([true, true, false, false, false, false], [2, 6])]
    (by
      intro p hp
      simp only [List.mem_cons, List.not_mem_nil, or_false] at hp
      rcases hp with rfl | rfl
      · exact ⟨1, by decide, by decide⟩
      · exact ⟨6, by decide, by decide⟩)
    [true, true] 0 [1, 2] (by decide) (by decide)
example : (encode [1, 2, 3, 4, 5, 6, 7, 8] 2 2).isOk = true := by decide

end LW.C19
