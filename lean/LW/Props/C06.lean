/-
  C06 — wire format of MAC commands (and the frame headers, see below) matches an independently written,
  table-driven description (LW.Spec.Mac: bit-offset layout tables over the little-endian payload integer,
  generic pack/unpack), not the library's own inverse.
-/
import LW.Proofs.MacSpec
import LW.Generated.Registry
namespace LW.C06
open LW Outcome MacSpec

/-- Decoding: for every payload type and EVERY byte string (any length), the model decoder and the specification
decoder agree: same acceptance (exact length) and same field values. The specification's `unpack` never looks at
RFU bits, so this is also "reserved bits of received bytes are ignored". -/
theorem C06_dec_spec (k : Kind) (bs : Bytes) : (k.dec0 bs).toOption = Spec.dec k bs := by
  cases k
  case proprietary => rfl
  all_goals
    first
    | (match bs with
       | [] => rfl
       | [b] => first | exact dec1 _ (by decide) b | rfl
       | [a, b] => first | exact dec_linkCheckAns a b | exact dec_devStatusAns a b | exact dec_forceRejoinReq a b | rfl
       | [a, b, c] => first | exact dec_beaconFreqReq a b c | rfl
       | [a, b, c, d] => first | exact dec_linkADRReq a b c d | exact dec_rxParamSetupReq a b c d | exact dec_dlChannelReq a b c d | exact dec_pingSlotChannelReq a b c d | rfl
       | [a, b, c, d, e] => first | exact dec_newChannelReq a b c d e | exact dec_deviceTimeAns a b c d e | rfl
       | _ :: _ :: _ :: _ :: _ :: _ :: _ => rfl)

/-- Encoding: every value inside the specification's ranges is encoded to exactly the bytes the layout table
prescribes (field order, little-endian multi-byte fields, bit positions and widths, 100 Hz frequency units,
6-bit signed margin, 1/256 s fractional time, RFU bits zero). -/
theorem C06_enc_spec (v : MacP) (sb : Bytes) (h : Spec.enc v = some sb) : v.enc = ok sb := by
  cases v
  case linkADRReq a b c d e => exact enc_linkADRReq a b c d e sb h
  case linkCheckAns a b => exact enc_linkCheckAns a b sb h
  case devStatusAns a b => exact enc_devStatusAns a b sb h
  case forceRejoinReq a b c d => exact enc_forceRejoinReq a b c d sb h
  case rxParamSetupReq a b c d => exact enc_rxParamSetupReq a b c d sb h
  case dlChannelReq a b => exact enc_dlChannelReq a b sb h
  case beaconFreqReq a => exact enc_beaconFreqReq a sb h
  case pingSlotChannelReq a b => exact enc_pingSlotChannelReq a b sb h
  case newChannelReq a b c d => exact enc_newChannelReq a b c d sb h
  case deviceTimeAns a => exact enc_deviceTimeAns a sb h
  case proprietary b => simp only [Spec.enc] at h; cases h; rfl
  all_goals exact enc_spec_onebyte _ (by simp only [MacP.kind]; decide) rfl sb h

set_option maxRecDepth 100000 in
/-- the regenerated registry maps every (direction, CID) to the payload type and size of the specification's table -/
theorem C06_registry : ∀ up : Bool, ∀ cid : Fin 256, Generated.registry.lookup up cid.val = Spec.registry.lookup up cid.val := by
  decide

/-! ### non-vacuity -/
example : Spec.enc (.rxParamSetupReq 868100000#32 false 3 2) = some [0x23, 0x28, 0x76, 0x84] := by decide
example : (Kind.dec0 .devStatusAns [0x10, 0xff]).toOption = some (.devStatusAns 0x10 (-1)) := by decide

end LW.C06
