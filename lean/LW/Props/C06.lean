/-
  C06 — wire format of MAC commands and of the frames (MHDR, FHDR / FCtrl, join-request, join-accept, rejoin-requests,
  CFList) matches an independently written, table-driven description (LW.Spec.Mac and LW.Spec.Layout: bit-offset layout
  tables over the little-endian integer, generic pack/unpack), not the library's own inverse.
-/
import LW.Proofs.MacSpec
import LW.Generated.Registry
import LW.Proofs.Layout
namespace LW.C06
open LW Outcome MacSpec

/-- Decoding: for every payload type and EVERY byte string (any length), the model decoder and the specification
decoder agree: same acceptance (exact length) and same field values. The specification's `unpack` never looks at
RFU bits, so this is also "reserved bits of received bytes are ignored". -/
theorem C06_dec_spec (k : Kind) (bs : Bytes) : (k.dec0 bs).toOption = Spec.dec k bs := by
  cases k
  case proprietary => rfl
  all_goals
    first
    | (match bs with
       | [] => rfl
       | [b] => first | exact dec1 _ (by decide) b | rfl
       | [a, b] => first | exact dec_linkCheckAns a b | exact dec_devStatusAns a b | exact dec_forceRejoinReq a b | rfl
       | [a, b, c] => first | exact dec_beaconFreqReq a b c | rfl
       | [a, b, c, d] => first | exact dec_linkADRReq a b c d | exact dec_rxParamSetupReq a b c d | exact dec_dlChannelReq a b c d | exact dec_pingSlotChannelReq a b c d | rfl
       | [a, b, c, d, e] => first | exact dec_newChannelReq a b c d e | exact dec_deviceTimeAns a b c d e | rfl
       | _ :: _ :: _ :: _ :: _ :: _ :: _ => rfl)

/-- Encoding: every value inside the specification's ranges is encoded to exactly the bytes the layout table
prescribes (field order, little-endian multi-byte fields, bit positions and widths, 100 Hz frequency units,
6-bit signed margin, 1/256 s fractional time, RFU bits zero). -/
theorem C06_enc_spec (v : MacP) (sb : Bytes) (h : Spec.enc v = some sb) : v.enc = ok sb := by
  cases v
  case linkADRReq a b c d e => exact enc_linkADRReq a b c d e sb h
  case linkCheckAns a b => exact enc_linkCheckAns a b sb h
  case devStatusAns a b => exact enc_devStatusAns a b sb h
  case forceRejoinReq a b c d => exact enc_forceRejoinReq a b c d sb h
  case rxParamSetupReq a b c d => exact enc_rxParamSetupReq a b c d sb h
  case dlChannelReq a b => exact enc_dlChannelReq a b sb h
  case beaconFreqReq a => exact enc_beaconFreqReq a sb h
  case pingSlotChannelReq a b => exact enc_pingSlotChannelReq a b sb h
  case newChannelReq a b c d => exact enc_newChannelReq a b c d sb h
  case deviceTimeAns a => exact enc_deviceTimeAns a sb h
  case proprietary b => simp only [Spec.enc] at h; cases h; rfl
  all_goals exact enc_spec_onebyte _ (by simp only [MacP.kind]; decide) rfl sb h

set_option maxRecDepth 100000 in
/-- the regenerated registry maps every (direction, CID) to the payload type and size of the specification's table -/
theorem C06_registry : ∀ up : Bool, ∀ cid : Fin 256, Generated.registry.lookup up cid.val = Spec.registry.lookup up cid.val := by
  decide

/-- Frames, encoding: for every frame value the layout tables assign bytes to (MHDR MType / Major; FHDR = DevAddr | FCtrl bits |
FCnt mod 2^16 as one 56-bit little-endian integer, then FOpts, FPort, FRMPayload; join-request; join-accept with DLSettings bits,
RxDelay and both CFList kinds; rejoin-request types 0 / 2 and 1; MIC last) the encoder produces exactly these bytes -/
theorem C06_frame_layout (f : PHY) (sb : Bytes) (h : Spec.frameBytes f = some sb) : f.enc = ok sb :=
  LayoutProofs.frame_layout f sb h

/-- Frames, decoding: the bytes the layout tables prescribe for a frame decode to that frame (as seen over the wire) -/
theorem C06_frame_decode (f : PHY) (sb : Bytes) (h : Spec.frameBytes f = some sb) (hs : Spec.shapeOK f = true) :
    PHY.dec sb = ok (Spec.wire f) :=
  FrameRT.phy_enc_dec f sb (LayoutProofs.frame_layout f sb h) hs

/-- … and every accepted byte string (reserved MHDR bits zero) IS the layout of the frame it decodes to: the decoded field values
are the fields the tables read out of the input -/
theorem C06_frame_fields (bs : Bytes) (f : PHY) (hd : PHY.dec bs = ok f) (hrfu : (bs.getD 0 0) &&& 0x1c#8 = 0#8)
    (sb : Bytes) (h : Spec.frameBytes f = some sb) : sb = bs := by
  have h1 := LayoutProofs.frame_layout f sb h
  have h2 := FrameRT.phy_canonical bs f hd hrfu
  rw [h1] at h2
  exact MacRT.ok_inj h2

/-! ### non-vacuity -/
def sampleData : PHY :=
  { mtype := 2, major := 0, mic := [1, 2, 3, 4], payload := some (.mac { devAddr := 0x01020304#32, fCtrl := { adr := true, ack := true }, fCnt := 0x10007#32, fOpts := [.cmd { cid := 2, payload := none }] } (some 1) [.data [0xaa, 0xbb]]) }
example : Spec.frameBytes sampleData
    = some [0x40, 0x04, 0x03, 0x02, 0x01, 0xa1, 0x07, 0x00, 0x02, 0x01, 0xaa, 0xbb, 1, 2, 3, 4] := by decide
example : Spec.frameBytes { mtype := 0, major := 0, mic := [9, 9, 9, 9], payload := some (.joinReq 0x0102030405060708#64 0x1112131415161718#64 0x2122#16) }
    = some [0x00, 8, 7, 6, 5, 4, 3, 2, 1, 0x18, 0x17, 0x16, 0x15, 0x14, 0x13, 0x12, 0x11, 0x22, 0x21, 9, 9, 9, 9] := by decide
example : Spec.enc (.rxParamSetupReq 868100000#32 false 3 2) = some [0x23, 0x28, 0x76, 0x84] := by decide
example : (Kind.dec0 .devStatusAns [0x10, 0xff]).toOption = some (.devStatusAns 0x10 (-1)) := by decide

end LW.C06
