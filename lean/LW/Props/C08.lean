/-
  C08 — accepted frames are canonical: every byte string the frame decoder accepts (with the three reserved MHDR
  bits zero) re-encodes without error to exactly the received bytes, and decoding that output again gives an equal frame.
  Model: LW.Model.Frame (mirror of phypayload.go / macpayload.go / fhdr.go / payload.go).
-/
import LW.Proofs.FrameRT
namespace LW.C08
open LW Outcome

/-- all byte strings, all lengths, all 8 MTypes -/
theorem C08_canonical (data : Bytes) (f : PHY) (hdec : PHY.dec data = ok f) (hrfu : (data.getD 0 0) &&& 0x1c#8 = 0#8) :
    f.enc = ok data :=
  FrameRT.phy_canonical data f hdec hrfu

/-- … and decoding the re-encoding yields an equal frame (so verify-MIC / forward / log never change a received frame) -/
theorem C08_stable (data : Bytes) (f : PHY) (hdec : PHY.dec data = ok f) (hrfu : (data.getD 0 0) &&& 0x1c#8 = 0#8) :
    ∃ out, f.enc = ok out ∧ out = data ∧ PHY.dec out = ok f :=
  ⟨data, C08_canonical data f hdec hrfu, rfl, hdec⟩

/-! non-vacuity: a concrete accepted frame -/
example : (PHY.dec [0x40, 4, 3, 2, 1, 0x80, 7, 0, 1, 0xaa, 0xbb, 1, 2, 3, 4]).isOk = true := by decide

end LW.C08
