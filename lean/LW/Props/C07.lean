/-
  C07 — MAC-command encoding is lossless-or-error; command streams are self-delimiting.
  Property theorems only (helper lemmas are in LW/Proofs). The model is LW.Model.Mac (mirror of
  /repo/mac_commands.go, tied by the correspondence run); the registry is regenerated from /repo.
-/
import LW.Proofs.Stream
import LW.Generated.Registry
namespace LW.C07
open LW Outcome

/-- Lossless or error, over the FULL Go field domains of all 30 payload types (no range hypothesis):
whenever the encoder returns bytes, decoding them into a fresh value gives the same value back
(`Spec.wireNorm`: DeviceTimeAns is rounded down to the 1/256 s wire resolution, everything else unchanged). -/
theorem C07_lossless (v : MacP) (bs : Bytes) (h : v.enc = ok bs) :
    v.kind.dec0 bs = ok (Spec.wireNorm v) :=
  MacRT.lossless v bs h

/-- Every value inside the specification's field ranges is accepted by the encoder. -/
theorem C07_accepts (v : MacP) (h : (Spec.toFields v).isSome = true) : v.enc.isOk = true :=
  MacRT.accepts v h

/-- An out-of-range value is never silently turned into a *different* command: if it is accepted at all,
the bytes decode to exactly that value (corollary of `C07_lossless`, stated for emphasis). -/
theorem C07_never_truncates (v : MacP) (bs : Bytes) (v' : MacP) (h : v.enc = ok bs) (hd : v.kind.dec0 bs = ok v') :
    v' = Spec.wireNorm v := by
  rw [C07_lossless v bs h] at hd
  exact (MacRT.ok_inj hd).symm

/-- the encoded length of every payload is the length its decoder insists on -/
theorem C07_enc_length (v : MacP) (bs : Bytes) (n : Nat) (h : v.enc = ok bs) (hn : v.kind.wireSize = some n) : bs.length = n := by
  have hd := C07_lossless v bs h
  cases v <;> simp [MacP.kind, Kind.wireSize] at hn <;> subst hn <;>
    simp only [MacP.kind, Kind.dec0, Kind.dec] at hd <;> split at hd <;> simp_all

/-- Registered sizes (REGENERATED from /repo on every run) equal the decoder's length for the registered payload type,
hence (previous theorem) the encoded length: this is what makes the stream decoder's `i += size` correct. -/
theorem C07_registry_sizes : ∀ e ∈ Generated.registry, e.kind.wireSize = some e.size.toNat ∧ 0 < e.size := by decide

set_option maxRecDepth 100000 in
/-- The regenerated registry is exactly the specification's (CID, direction) table: same payload type and size for
all 2 × 256 keys, nothing more, nothing less. -/
theorem C07_registry_is_spec :
    ∀ up : Bool, ∀ cid : Fin 256, Generated.registry.lookup up cid.val = Spec.registry.lookup up cid.val := by decide

/-- Streams are self-delimiting, for ANY registry (so for every history of proprietary registrations), any direction and
command lists of ANY length: a sequence of commands framed consistently with the registry, concatenated, decodes into
exactly that sequence. -/
theorem C07_stream (reg : Registry) (up : Bool) (cmds : List MacCmd) (bs : Bytes)
    (hw : ∀ c ∈ cmds, Stream.WellFramed reg up c) (he : encodeCmds cmds = ok bs) :
    decodeStream reg up bs = ok (cmds.map Stream.normCmd) :=
  Stream.stream_rt reg up cmds bs hw he

/-- A proprietary registration is visible with its size in its own direction … -/
theorem C07_register_framed (reg reg' : Registry) (up : Bool) (cid : Nat) (size : Int)
    (h : reg.register up cid size = ok reg') (hs : size ≠ 0) :
    reg'.lookup up cid = some { uplink := up, cid := cid, size := size, kind := .proprietary } := by
  simp only [Registry.register] at h
  split at h <;> try contradiction
  split at h <;> try contradiction
  split at h
  · rename_i h0; simp at h0; exact absurd h0 hs
  · cases MacRT.ok_inj h
    simp [Registry.lookup, List.find?]

/-- … and in that direction only: the other direction's lookup is unchanged for every CID. -/
theorem C07_register_dir (reg reg' : Registry) (up : Bool) (cid : Nat) (size : Int) (c : Nat)
    (h : reg.register up cid size = ok reg') : reg'.lookup (!up) c = reg.lookup (!up) c := by
  simp only [Registry.register] at h
  split at h <;> try contradiction
  split at h <;> try contradiction
  split at h
  · cases MacRT.ok_inj h; rfl
  · cases MacRT.ok_inj h
    simp only [Registry.lookup]
    have hne : ((up == !up) && (cid == c)) = false := by cases up <;> simp
    simp only [List.find?, hne]
    clear h
    induction reg with
    | nil => rfl
    | cons e es ih =>
      simp only [List.filter]
      by_cases he : (e.uplink == up && e.cid == cid) = true
      · simp only [he, Bool.not_true]
        have : (e.uplink == !up && e.cid == c) = false := by
          have : e.uplink = up := by simp at he; exact he.1
          subst this; cases e.uplink <;> simp
        simp only [List.find?, this]
        exact ih
      · simp only [Bool.not_eq_true] at he
        simp only [he, Bool.not_false, List.find?]
        split
        · rfl
        · exact ih

/-- registration only accepts the proprietary CID range 0x80–0xFF and non-negative sizes -/
theorem C07_register_range (reg : Registry) (up : Bool) (cid : Nat) (size : Int) :
    (reg.register up cid size).isOk = (decide (128 ≤ cid ∧ cid ≤ 255) && decide (0 ≤ size)) := by
  simp only [Registry.register]
  by_cases h1 : 128 ≤ cid ∧ cid ≤ 255 <;> by_cases h2 : size < 0 <;> by_cases h3 : size = 0 <;>
    simp [h1, h2, h3, Outcome.isOk] <;> omega

/-! ### non-vacuity: concrete values meet the hypotheses -/

example : (Spec.toFields (.linkADRReq 5 3 0xff00 6 1)).isSome = true := by decide
example : (MacP.linkADRReq 5 3 0xff00 6 1).enc = ok [0x53, 0x00, 0xff, 0x61] := by decide
example : Stream.WellFramed Generated.registry false { cid := 3, payload := some (.linkADRReq 5 3 0xff00 6 1) } :=
  ⟨{ uplink := false, cid := 3, size := 4, kind := .linkADRReq }, [0x53, 0x00, 0xff, 0x61], by decide, rfl, by decide, by decide, by decide⟩
example : Stream.WellFramed Generated.registry true { cid := 2, payload := none } := by
  show Generated.registry.lookup true 2 = none
  decide

end LW.C07
