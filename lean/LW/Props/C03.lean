/-
  C03 — FRMPayload and FOpts encryption equal the specification keystream and are involutions; each operation either
  applies the transform or returns an error. For every lawful block cipher (16-byte blocks), every key, direction,
  DevAddr, 32-bit FCnt and payload length (no bound; the 1-byte block counter wraps modulo 256 in model and spec alike).
-/
import LW.Proofs.CryptoSpec
namespace LW.C03
open LW Outcome

/-- `EncryptFRMPayload` XORs the payload with S_1 | S_2 | … , S_i = E(K, A_i), i = 1..⌈len/16⌉ -/
theorem C03_frm_spec (E : BlockCipher) (hE : E.Lawful) (key : Bytes) (up : Bool) (addr fcnt : BitVec 32) (data : Bytes) :
    encryptFRMPayload E key up addr fcnt data = Spec.cryptFRM E key up addr fcnt data :=
  CryptoSpec.frm_spec E hE key up addr fcnt data

theorem C03_frm_len (E : BlockCipher) (hE : E.Lawful) (key : Bytes) (up : Bool) (addr fcnt : BitVec 32) (data : Bytes) :
    (encryptFRMPayload E key up addr fcnt data).length = data.length := by
  rw [C03_frm_spec E hE]; exact CryptoSpec.cryptFRM_length E hE key up addr fcnt data

/-- applying the same operation again restores the plaintext -/
theorem C03_frm_involution (E : BlockCipher) (hE : E.Lawful) (key : Bytes) (up : Bool) (addr fcnt : BitVec 32) (data : Bytes) :
    encryptFRMPayload E key up addr fcnt (encryptFRMPayload E key up addr fcnt data) = data := by
  rw [C03_frm_spec E hE, C03_frm_spec E hE]; exact CryptoSpec.cryptFRM_invol E hE key up addr fcnt data

/-- `EncryptFOpts`: at most 15 bytes, XOR with the single block E(K, A) in the erratum form (A[4] ∈ {1,2}, A[15] = 1); longer input is an error -/
theorem C03_fopts_spec (E : BlockCipher) (key : Bytes) (af up : Bool) (addr fcnt : BitVec 32) (data : Bytes) :
    encryptFOpts E key af up addr fcnt data =
      if data.length > 15 then err else ok (Spec.cryptFOpts E key af up addr fcnt data) :=
  CryptoSpec.fopts_spec E key af up addr fcnt data

theorem C03_fopts_limit (E : BlockCipher) (key : Bytes) (af up : Bool) (addr fcnt : BitVec 32) (data : Bytes) (h : data.length > 15) :
    encryptFOpts E key af up addr fcnt data = err := by
  rw [C03_fopts_spec]; simp [h]

theorem C03_fopts_involution (E : BlockCipher) (hE : E.Lawful) (key : Bytes) (af up : Bool) (addr fcnt : BitVec 32) (data ct : Bytes)
    (h : encryptFOpts E key af up addr fcnt data = ok ct) :
    ct.length = data.length ∧ encryptFOpts E key af up addr fcnt ct = ok data := by
  rw [C03_fopts_spec] at h
  split at h
  · contradiction
  · rename_i hl
    cases MacRT.ok_inj h
    have hlen := CryptoSpec.cryptFOpts_length E hE key af up addr fcnt data (by omega)
    refine ⟨hlen, ?_⟩
    rw [C03_fopts_spec, hlen]
    simp only [hl, if_false]
    rw [CryptoSpec.cryptFOpts_invol E hE key af up addr fcnt data (by omega)]

/-- `PHYPayload.EncryptFOpts` uses the AFCntDown variant exactly for downlinks with FPort > 0, and never reports success
while leaving non-empty FOpts untransformed: on success the FOpts are the single block of transformed bytes. -/
theorem C03_phy_fopts (E : BlockCipher) (key : Bytes) (p p' : PHY) (h : FHDR) (fPort : Option Byte) (frm : List Item)
    (hp : p.payload = some (.mac h fPort frm)) (hne : h.fOpts.length ≠ 0) (hr : p.encryptFOpts E key = ok p') :
    ∃ macB, encItems h.fOpts = ok macB ∧ macB.length ≤ 15 ∧
      p' = { p with payload := some (.mac { h with fOpts := [.data (Spec.cryptFOpts E key
              (Spec.useAFCntDown p.isUplink fPort) p.isUplink h.devAddr h.fCnt macB)] } fPort frm) } := by
  simp only [PHY.encryptFOpts, hp] at hr
  have h0 : ¬ (h.fOpts.length == 0) = true := by simpa using hne
  simp only [h0, if_false] at hr
  cases hm : encItems h.fOpts with
  | err => rw [hm] at hr; contradiction
  | panic => rw [hm] at hr; contradiction
  | ok macB =>
    rw [hm] at hr
    simp only [Outcome.ok_bind, C03_fopts_spec, Bool.false_eq_true, if_false] at hr
    by_cases hl : macB.length > 15
    · simp only [hl, if_true] at hr; contradiction
    · simp only [hl, if_false, Outcome.ok_bind] at hr
      refine ⟨macB, rfl, by omega, ?_⟩
      rw [← MacRT.ok_inj hr]
      cases fPort <;> simp [Spec.useAFCntDown]

/-- `DecryptFOpts` = `EncryptFOpts` followed by decoding; an error of the first step is returned, never swallowed
(this was false before the repair recorded as c03-decryptfopts-swallows-error) -/
theorem C03_decrypt_never_silent (E : BlockCipher) (reg : Registry) (key : Bytes) (p : PHY) (h : p.encryptFOpts E key = err) :
    p.decryptFOpts E reg key = err := by
  simp [PHY.decryptFOpts, h]

/-- `PHYPayload.EncryptFRMPayload`: on success a non-empty FRMPayload has been replaced by its transformed bytes -/
theorem C03_phy_frm (E : BlockCipher) (hE : E.Lawful) (key : Bytes) (p p' : PHY) (h : FHDR) (fPort : Option Byte) (frm : List Item)
    (hp : p.payload = some (.mac h fPort frm)) (hne : frm.length ≠ 0) (hr : p.encryptFRM E key = ok p') :
    ∃ data, frmEnc fPort frm = ok data ∧
      p' = { p with payload := some (.mac h fPort [.data (Spec.cryptFRM E key p.isUplink h.devAddr h.fCnt data)]) } := by
  simp only [PHY.encryptFRM, hp] at hr
  have h0 : ¬ (frm.length == 0) = true := by simpa using hne
  simp only [h0, if_false] at hr
  cases hm : frmEnc fPort frm with
  | err => rw [hm] at hr; contradiction
  | panic => rw [hm] at hr; contradiction
  | ok data =>
    rw [hm] at hr
    simp only [Outcome.ok_bind, C03_frm_spec E hE, Bool.false_eq_true, if_false] at hr
    exact ⟨data, rfl, (MacRT.ok_inj hr).symm⟩

end LW.C03
