/-
  C12 — band RX1 / RX2 / ping-slot parameters are consistent and follow the regional rules.
  The data of all 56 configurations (14 names × repeater × dwell-time) is REGENERATED from /repo on every run
  (LW/Generated/BandData.lean); the rules are LW/Spec/Regional.lean. The table-shaped clauses are evaluated by the Lean
  kernel over the whole finite domain the property names (every channel, DR -2..16 × offset -2..9); the clauses over
  integers / DevAddr / beacon time are proved for all values.
-/
import LW.Proofs.Band
namespace LW.C12
open LW LW.Spec Outcome

set_option maxRecDepth 1000000

/-- for every uplink channel of every configuration: the RX1 channel index follows the region's rule (same channel /
index mod 8 / mod 48), exists as a downlink channel, and the frequency route yields that channel's frequency, which is the
region's downlink plan frequency (or the uplink frequency where RX1 uses the same channel) -/
theorem C12_rx1_channel : ∀ c ∈ Generated.allConfigs, rx1ChanViolations c = [] := by decide +kernel

/-- every accepted (uplink DR, offset) pair — DR -2..16 × offset -2..9 — maps to a defined downlink data-rate, equals the
region's formula wherever the region defines the pair, no pair the region defines is rejected, and nothing panics -/
theorem C12_rx1_datarate : ∀ c ∈ Generated.allConfigs, rx1DRViolations c = [] := by decide +kernel

/-- over the region's positive offsets the RX1 data-rate never increases and moves down by at most one defined downlink
data-rate per offset unit -/
theorem C12_rx1_monotone : ∀ c ∈ Generated.allConfigs, rx1MonoViolations c = [] := by decide +kernel

/-- ping-slot data: the fixed frequency of the region, or the 8 hopping channels of its downlink plan -/
theorem C12_pingslot_data : ∀ c ∈ Generated.allConfigs, pingViolations c = [] := by decide +kernel

/-- invalid data-rates or offsets — ANY integers, negative ones included — yield a value or an error, never a panic;
for every configuration value whatsoever (not only the generated ones) -/
theorem C12_total (c : BandCfg) (dr off : Int) : c.getRX1DR dr off ≠ panic :=
  BandProofs.rx1dr_total c dr off

/-- hopping rule for every DevAddr and every non-negative beacon time: channel (DevAddr + ⌊t / 128 s⌋) mod 8 -/
theorem C12_pingslot_hopping (a : BitVec 32) (t : Int) (ht : 0 ≤ t) :
    Int.tmod ((a.toNat : Int) + beaconPeriod t) 8 = pingSlotChannel a.toNat t :=
  BandProofs.tmod_tdiv_nonneg a.toNat t ht

/-- … so the ping-slot accessor of a hopping band returns the frequency of that downlink channel -/
theorem C12_pingslot_us (b : BandState) (a : BitVec 32) (t : Int) (ht : 0 ≤ t) (hf : b.cfg.family = .us915 ∨ b.cfg.family = .au915) :
    b.pingSlot a t = (do let c ← idxInt b.down (pingSlotChannel a.toNat t); ok c.freq) := by
  rcases hf with hf | hf <;> simp only [BandState.pingSlot, hf, C12_pingslot_hopping a t ht]

/-- the hopping bands of the regenerated tables have at least the eight downlink channels the hopping rule indexes -/
theorem C12_hopping_downlinks : ∀ c ∈ Generated.allConfigs, (c.family = .us915 ∨ c.family = .au915) → 8 ≤ c.down.length := by
  decide +kernel

/-- the ping-slot accessor never panics: for every regenerated configuration, after ANY history of AddChannel / Disable / Enable,
every DevAddr and every non-negative beacon time, `GetPingSlotFrequency` yields a value (the index (DevAddr + ⌊t / 128 s⌋) mod 8 is
inside the downlink list of a hopping band and inside CN470's eight ping-slot frequencies). A negative beacon time is outside the
property (time since the GPS epoch). -/
theorem C12_pingslot_total (c : BandCfg) (hc : c ∈ Generated.allConfigs) (ops : List BandProofs.BandOp) (a : BitVec 32) (t : Int) (ht : 0 ≤ t) :
    (BandProofs.run c.init ops).pingSlot a t ≠ panic := by
  have hcfg : (BandProofs.run c.init ops).cfg = c := (BandProofs.inv_run c ops).1
  have hlen : c.down.length ≤ (BandProofs.run c.init ops).down.length := BandProofs.run_down_len c.init ops
  have hk := BandProofs.tmod_tdiv_nonneg a.toNat t ht
  have hb : 0 ≤ (a.toNat : Int) + t / 128000000000 := by
    have : 0 ≤ t / 128000000000 := Int.ediv_nonneg ht (by decide)
    omega
  have hk0 : 0 ≤ pingSlotChannel a.toNat t := by simp only [pingSlotChannel]; omega
  have hk8 : pingSlotChannel a.toNat t < 8 := by simp only [pingSlotChannel]; omega
  simp only [BandState.pingSlot, hk, hcfg]
  cases hf : c.family <;> simp only []
  case us915 =>
    have h8 := C12_hopping_downlinks c hc (Or.inl hf)
    have hne := BandProofs.idxInt_ne_panic (BandProofs.run c.init ops).down _ hk0 (by omega)
    cases hi : idxInt (BandProofs.run c.init ops).down (pingSlotChannel a.toNat t) with
    | ok ch => simp [Outcome.ok_bind]
    | err => simp [Outcome.err_bind]
    | panic => exact absurd hi hne
  case au915 =>
    have h8 := C12_hopping_downlinks c hc (Or.inr hf)
    have hne := BandProofs.idxInt_ne_panic (BandProofs.run c.init ops).down _ hk0 (by omega)
    cases hi : idxInt (BandProofs.run c.init ops).down (pingSlotChannel a.toNat t) with
    | ok ch => simp [Outcome.ok_bind]
    | err => simp [Outcome.err_bind]
    | panic => exact absurd hi hne
  case cn470 => exact BandProofs.idxInt_ne_panic cn470PingSlots _ hk0 (by simp [cn470PingSlots]; omega)
  all_goals (intro h; cases h)

/-- the bands whose RX1 channel is the uplink index modulo 8 / 48 have at least that many downlink channels in the regenerated tables -/
theorem C12_rx1_downlinks : ∀ c ∈ Generated.allConfigs,
    ((c.family = .us915 ∨ c.family = .au915) → 8 ≤ c.down.length) ∧ (c.family = .cn470 → 48 ≤ c.down.length) := by
  decide +kernel

/-- the RX1-frequency accessor never panics: for every regenerated configuration, after ANY history of AddChannel / Disable / Enable and for
every uplink frequency, `GetRX1FrequencyForUplinkFrequency` yields a value or an error — the index (uplink channel mod 8 / mod 48) it uses
into the downlink list is always inside it -/
theorem C12_rx1freq_total (c : BandCfg) (hc : c ∈ Generated.allConfigs) (ops : List BandProofs.BandOp) (f : Nat) :
    (BandProofs.run c.init ops).rx1Frequency f ≠ panic := by
  have hcfg : (BandProofs.run c.init ops).cfg = c := (BandProofs.inv_run c ops).1
  have hlen : c.down.length ≤ (BandProofs.run c.init ops).down.length := BandProofs.run_down_len c.init ops
  obtain ⟨hus, hcn⟩ := C12_rx1_downlinks c hc
  generalize hb : BandProofs.run c.init ops = b at *
  have key : ∀ m : Int, 0 < m → (m : Int) ≤ b.down.length → ∀ i : Int, 0 ≤ i → idxInt b.down (Int.tmod i m) ≠ panic := by
    intro m hm hml i hi
    have h1 : Int.tmod i m = i % m := Int.tmod_eq_emod_of_nonneg hi
    have h2 : 0 ≤ i % m := Int.emod_nonneg i (by omega)
    have h3 : i % m < m := Int.emod_lt_of_pos i hm
    exact BandProofs.idxInt_ne_panic b.down _ (by omega) (by omega)
  simp only [BandState.rx1Frequency, hcfg]
  cases hf : c.family <;> simp only []
  case us915 =>
    cases hi : b.getUplinkChannelIndex f true with
    | ok i =>
      obtain ⟨n, hn, _⟩ := BandProofs.lookup_freq_sound b f true i hi
      have := key 8 (by decide) (by have := hus (Or.inl hf); omega) i (by omega)
      simp only [Outcome.ok_bind, BandState.rx1ChannelIndex, hcfg, hf]
      cases hj : idxInt b.down (Int.tmod i 8) with
      | ok ch => simp
      | err => simp
      | panic => exact absurd hj this
    | err => simp
    | panic => simp only [BandState.getUplinkChannelIndex] at hi; split at hi <;> cases hi
  case au915 =>
    cases hi : b.getUplinkChannelIndex f true with
    | ok i =>
      obtain ⟨n, hn, _⟩ := BandProofs.lookup_freq_sound b f true i hi
      have := key 8 (by decide) (by have := hus (Or.inr hf); omega) i (by omega)
      simp only [Outcome.ok_bind, BandState.rx1ChannelIndex, hcfg, hf]
      cases hj : idxInt b.down (Int.tmod i 8) with
      | ok ch => simp
      | err => simp
      | panic => exact absurd hj this
    | err => simp
    | panic => simp only [BandState.getUplinkChannelIndex] at hi; split at hi <;> cases hi
  case cn470 =>
    cases hi : b.getUplinkChannelIndex f true with
    | ok i =>
      obtain ⟨n, hn, _⟩ := BandProofs.lookup_freq_sound b f true i hi
      have := key 48 (by decide) (by have := hcn hf; omega) i (by omega)
      simp only [Outcome.ok_bind, BandState.rx1ChannelIndex, hcfg, hf]
      cases hj : idxInt b.down (Int.tmod i 48) with
      | ok ch => simp
      | err => simp
      | panic => exact absurd hj this
    | err => simp
    | panic => simp only [BandState.getUplinkChannelIndex] at hi; split at hi <;> cases hi
  all_goals (intro h; cases h)

/-- … and the RX1 channel-index accessor answers for every integer -/
theorem C12_rx1chan_total (b : BandState) (i : Int) : b.rx1ChannelIndex i ≠ panic := by
  simp only [BandState.rx1ChannelIndex]
  split <;> (intro h; cases h)

/-! non-vacuity -/
example : Generated.allConfigs.length = 56 := by decide
example : (Generated.allConfigs.map fun c => c.up.length).sum > 900 := by decide +kernel

end LW.C12
