/-
  C13 — band data-rate, channel-plan and max-payload tables are closed and consistent.
  All obligations are about the tables REGENERATED from /repo on every run; each is decided by the Lean kernel over the
  complete finite domain (56 configurations, every version × revision key present, every data-rate, every channel).
-/
import LW.Proofs.Band
namespace LW.C13
open LW LW.Spec Outcome

set_option maxRecDepth 1000000

/-- every data-rate index the band refers to (channel DR ranges, RX1 results, RX2 default, enabled uplink data-rates) is defined -/
theorem C13_closure : ∀ c ∈ Generated.allConfigs, closureViolations c = [] := by decide +kernel

/-- looking a defined data-rate up by its parameters in a direction it supports returns the same index … -/
theorem C13_lookup : ∀ c ∈ Generated.allConfigs, lookupViolations c = [] := by decide +kernel

/-- … and the parameters identify at most one data-rate per direction, so Go's random map iteration order cannot matter -/
theorem C13_lookup_unambiguous : ∀ c ∈ Generated.allConfigs, ambiguousParams c = [] := by decide +kernel

/-- under the latest (fallback) table every defined data-rate has a size, and unknown version / revision strings resolve to it -/
theorem C13_latest : ∀ c ∈ Generated.allConfigs, latestViolations c = [] := by decide +kernel

/-- the max-payload tables are filed under keys of the right kind (protocol versions outside, regional-parameters revisions inside,
"latest" in both): no table is out of reach of the (version, revision) lookup, and a string that is not a protocol version
resolves to the latest table.  (False before the repair recorded as c13-as923-rp002-table-misfiled: the AS923 configuration
"not repeater compatible, no dwell time" kept its RP002-1.0.0 table under the protocol-version key "RP002-1.0.0".) -/
theorem C13_keys : ∀ c ∈ Generated.allConfigs, keyKindViolations c = [] := by decide +kernel

/-- every listed size satisfies M = N + 8 and N ≤ 242 ((0,0) is the Regional Parameters' "N/A" marker) -/
theorem C13_sizes : ∀ c ∈ Generated.allConfigs, sizeViolations c = [] := by decide +kernel

/-- the "N/A" marker occurs only for data-rates excluded by a dwell-time limit (or CN470 DR0 with repeater) -/
theorem C13_na_cells : ∀ c ∈ Generated.allConfigs, ∀ cell ∈ allCells c,
    isNA cell.2.2.2.1 cell.2.2.2.2 = true → (c.dwell = 1 ∨ c.family = .cn470 ∨ c.family = .au915 ∨ c.family = .as923) := by decide +kernel

/-- repeater-compatible sizes never exceed the non-repeater ones, per (version, revision, data-rate) -/
theorem C13_repeater : ∀ cr ∈ Generated.allConfigs, ∀ cn ∈ Generated.allConfigs,
    cr.repeater = true → cn.repeater = false → cr.key = cn.key → cr.dwell = cn.dwell → repeaterViolations cr cn = [] := by decide +kernel

/-- sizes never shrink as the spreading factor decreases at equal bandwidth (between data-rates usable in a common direction) -/
theorem C13_sf_monotone : ∀ c ∈ Generated.allConfigs, sfMonoViolations c = [] := by decide +kernel

/-- default channel frequencies, RX2 defaults, TX-power steps of -2 dB and LoRa data-rate definitions equal the Regional Parameters values -/
theorem C13_defaults : ∀ c ∈ Generated.allConfigs, defaultsViolations c = [] := by decide +kernel

/-- the two-level fallback, for ANY table: a version key and revision key that are not present resolve to (latest, latest) -/
theorem C13_unknown_resolves (c : BandCfg) (ver rev : Nat) (dr : Int)
    (hv : lookupNat c.maxPayload ver = none)
    (hr : ∀ m, lookupNat c.maxPayload keyLatest = some m → lookupNat m rev = none) :
    c.getMaxPayload ver rev dr = c.getMaxPayload keyLatest keyLatest dr := by
  simp only [BandCfg.getMaxPayload, hv]
  cases h : lookupNat c.maxPayload keyLatest with
  | none => rfl
  | some m =>
    simp only [hr m h]
    cases lookupNat m keyLatest <;> rfl

end LW.C13
