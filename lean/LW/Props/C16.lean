/-
  C16 — join-server answers are usable by a spec-conformant device and network server.
  Model: LW.Model.JoinServer (the JoinReq / RejoinReq flows of backend/joinserver as a function of the request and of what the
  configuration callbacks return). Device and server side: LW.Spec.JoinServer (written from the LoRaWAN 1.0.x / 1.1 specifications).
  All theorems hold for ANY lawful block cipher, all keys, EUIs, nonces, NetIDs, addresses and settings.
-/
import LW.Proofs.JoinServer
namespace LW.C16
open LW Outcome LW.JS

/-- every answer mirrors sender, receiver and transaction id (whatever the request, also on errors) -/
theorem C16_mirror (E : BlockCipher) (q : Req) (c : Conf) :
    (serve E q c).sender = q.receiver ∧ (serve E q c).receiver = q.sender ∧ (serve E q c).txid = q.txid ∧
    (serve E q c).msgType = (if q.rejoin then "RejoinAns" else "JoinAns") := serve_mirrors E q c

/-- unknown DevEUI -/
theorem C16_unknown_device (E : BlockCipher) (q : Req) (c : Conf) (h : c.device = none) :
    (serve E q c).code = 400 ∧ (serve E q c).result = "UnknownDevEUI" := serve_unknown E q c h

/-- wrong MIC on a join-request -/
theorem C16_wrong_mic (E : BlockCipher) (q : Req) (c : Conf) (nwkKey appKey : Bytes) (nonce : Int) (phy : PHY) (netID joinEUI : Nat)
    (je de : BitVec 64) (dn : BitVec 16)
    (hr : q.rejoin = false) (hd : c.device = some (nwkKey, appKey, nonce)) (hlf : c.lookupFails = false)
    (hp : PHY.dec q.phy = ok phy) (hn : idOfText 3 q.sender = ok netID)
    (hj : idOfText 8 q.receiver = ok joinEUI) (hpl : phy.payload = some (.joinReq je de dn))
    (hm : validateMIC phy (calcUplinkJoinMIC E nwkKey phy) = ok false) :
    (serve E q c).result = "MICFailed" ∧ (serve E q c).code = 200 :=
  serve_wrong_mic E q c nwkKey appKey nonce phy netID joinEUI je de dn hr hd hlf hp hn hj hpl hm

/-- a key-encryption-key / label lookup that fails (the configuration callbacks return an error) never yields Success: no
join-accept and no session keys are handed out -/
theorem C16_lookup_failure (E : BlockCipher) (q : Req) (c : Conf) (d : Bytes × Bytes × Int) (hd : c.device = some d) (hlf : c.lookupFails = true) :
    (serve E q c).result = "Other" ∧ (serve E q c).code = 500 ∧ (serve E q c).phy = [] ∧ (serve E q c).appSKey = none ∧ (serve E q c).nwkSKey = none :=
  serve_lookup_fails E q c d hd hlf

/-- a device-key store that fails (with anything but "not found") never yields Success, a frame or keys; the answer is still mirrored;
when the store works the answer is `serve`'s, to which the theorems of this file apply -/
theorem C16_store_failure (E : BlockCipher) (q : Req) (c : Conf) :
    (serveStore true E q c).result = "Other" ∧ (serveStore true E q c).code = 400 ∧ (serveStore true E q c).phy = [] ∧
    (serveStore true E q c).appSKey = none ∧ (serveStore true E q c).nwkSKey = none ∧ (serveStore true E q c).fNwkSIntKey = none ∧
    (serveStore true E q c).sender = q.receiver ∧ (serveStore true E q c).receiver = q.sender ∧ (serveStore true E q c).txid = q.txid ∧
    serveStore false E q c = serve E q c := by
  simp [serveStore]

/-- JOIN-REQUEST with a correct MIC for a known device: Success; the device decrypts the join-accept (aes128_encrypt under NwkKey)
to exactly JoinNonce | NetID | requested DevAddr | DLSettings | RxDelay | CFList, its MIC verifies (1.0 form under NwkKey, or 1.1 form
under JSIntKey when OptNeg), and the key envelopes open with the configured KEKs (in clear when none) to the session keys the device
derives: FNwkSIntKey / SNwkSIntKey / NwkSEncKey from NwkKey and AppSKey from AppKey over JoinNonce | JoinEUI | DevNonce with OptNeg,
NwkSKey / AppSKey from the single root key over AppNonce | NetID | DevNonce without. -/
theorem C16_join_success (E : BlockCipher) (hE : E.Lawful) (q : Req) (c : Conf) (nwkKey appKey : Bytes) (nonce : Int) (x : Ctx)
    (hctx : joinContext E q nwkKey nonce = .ok x) (hjn : x.joinNonce < 16777216) (hg : GoodRequest q c) :
    ∃ body, joinFlow E q c nwkKey appKey nonce = .ok body ∧
      Spec.JS.deviceReceive E nwkKey q.devEUI x.joinEUI x.devNonce x.joinType false body.phy =
        some (Spec.JS.joinAcceptBytes x.joinNonce x.netID q.devAddr q.optNeg q.rx2dr.toNat q.rx1off.toNat q.rxDelay.toNat q.cfList, true) ∧
      (q.optNeg = true →
        opens E c.nsKEK body.fNwkSIntKey (Spec.JS.skey11 E 0x01 nwkKey x.joinNonce x.joinEUI x.devNonce) ∧
        opens E c.nsKEK body.sNwkSIntKey (Spec.JS.skey11 E 0x03 nwkKey x.joinNonce x.joinEUI x.devNonce) ∧
        opens E c.nsKEK body.nwkSEncKey (Spec.JS.skey11 E 0x04 nwkKey x.joinNonce x.joinEUI x.devNonce) ∧
        opens E c.asKEK body.appSKey (Spec.JS.skey11 E 0x02 appKey x.joinNonce x.joinEUI x.devNonce) ∧ body.nwkSKey = none) ∧
      (q.optNeg = false →
        opens E c.nsKEK body.nwkSKey (Spec.JS.skey10 E 0x01 nwkKey x.joinNonce x.netID x.devNonce) ∧
        opens E c.asKEK body.appSKey (Spec.JS.skey10 E 0x02 nwkKey x.joinNonce x.netID x.devNonce) ∧
        body.fNwkSIntKey = none ∧ body.sNwkSIntKey = none ∧ body.nwkSEncKey = none) :=
  join_success E hE q c nwkKey appKey nonce x hctx hjn hg

/-- REJOIN-REQUEST, proved part (the session-key clause fails for rejoin: known finding c16-rejoin-session-keys) -/
theorem C16_rejoin_success_partial (E : BlockCipher) (hE : E.Lawful) (q : Req) (c : Conf) (nwkKey appKey : Bytes) (nonce : Int) (x : Ctx)
    (hctx : rejoinContext q nonce = .ok x) (hjn : x.joinNonce < 16777216) (hg : GoodRequest q c) (ho : q.optNeg = true) :
    ∃ body, rejoinFlow E q c nwkKey appKey nonce = .ok body ∧
      Spec.JS.deviceReceive E nwkKey q.devEUI x.joinEUI x.devNonce x.joinType true body.phy =
        some (Spec.JS.joinAcceptBytes x.joinNonce x.netID q.devAddr true q.rx2dr.toNat q.rx1off.toNat q.rxDelay.toNat q.cfList, true) ∧
      opens E c.nsKEK body.fNwkSIntKey (Spec.JS.skey10 E 0x01 nwkKey x.joinNonce x.netID x.devNonce) ∧
      opens E c.asKEK body.appSKey (Spec.JS.skey10 E 0x02 nwkKey x.joinNonce x.netID x.devNonce) :=
  rejoin_success_partial E hE q c nwkKey appKey nonce x hctx hjn hg ho

/-- the witness family for the known finding: the NetID-based key the rejoin answer carries is not the JoinEUI-based key the 1.1 device
derives, for every lawful cipher, whenever the two derivation inputs differ -/
theorem C16_rejoin_keys_differ (E : BlockCipher) (hE : E.Lawful) (typ : Byte) (root : Bytes) (jn : Nat) (netID : BitVec 24) (joinEUI : BitVec 64) (dn : BitVec 16)
    (hne : leBytes 3 netID.toNat ++ leBytes 2 dn.toNat ++ List.replicate 7 0 ≠ leBytes 8 joinEUI.toNat ++ leBytes 2 dn.toNat ++ List.replicate 2 0) :
    Spec.JS.skey10 E typ root jn netID dn ≠ Spec.JS.skey11 E typ root jn joinEUI dn :=
  rejoin_keys_differ E hE typ root jn netID joinEUI dn hne

/-- the code's derivations are the specification's (both versions), and JSIntKey / JSEncKey -/
theorem C16_key_derivations (E : BlockCipher) (nwkKey appKey : Bytes) (netID : BitVec 24) (joinEUI devEUI : BitVec 64) (jn : Nat) (dn : BitVec 16) :
    (sessionKeys E true nwkKey appKey netID joinEUI jn dn).fNwkSIntKey = Spec.JS.skey11 E 0x01 nwkKey jn joinEUI dn ∧
    (sessionKeys E true nwkKey appKey netID joinEUI jn dn).appSKey = Spec.JS.skey11 E 0x02 appKey jn joinEUI dn ∧
    (sessionKeys E false nwkKey appKey netID joinEUI jn dn).fNwkSIntKey = Spec.JS.skey10 E 0x01 nwkKey jn netID dn ∧
    (sessionKeys E false nwkKey appKey netID joinEUI jn dn).appSKey = Spec.JS.skey10 E 0x02 nwkKey jn netID dn ∧
    getJSKey E 0x06 devEUI nwkKey = Spec.JS.jsIntKey E nwkKey devEUI ∧ getJSKey E 0x05 devEUI nwkKey = Spec.JS.jsEncKey E nwkKey devEUI :=
  ⟨rfl, rfl, rfl, rfl, rfl, rfl⟩

/-! non-vacuity: a request meeting `GoodRequest` (CFList of type 0 is reproduced exactly by the codec) -/
example : cfListOK [0x28, 0x76, 0x84, 0xf8, 0x7d, 0x84, 0, 0, 0, 0, 0, 0, 0, 0, 0, 0] := by
  refine Or.inr ⟨{ payload := .channels [868100000, 868300000, 0, 0, 0], typ := 0 }, ?_, ?_, rfl⟩ <;> decide
example : cfListOK [] := Or.inl rfl

end LW.C16
