/-
  C09 — decoders are total: any bytes give a value or an error, never a panic.
  Two layers: (1) LW.Model.Checked transcribes the Go index expressions (`data[i]`, `data[lo:hi]`, cursor and offset arithmetic)
  with primitives that panic exactly when Go's bounds checks would; the theorems below show that no input reaches a panic and
  that the transcriptions equal the total decoders of LW.Model.Frame / LW.Model.App, which the correspondence runs compare with
  the Go code on every op (and which the driver cross-checks against the transcriptions on every op);
  (2) the harness observes the real decoders: PANIC, HANG (10 s watchdog) and writes to the input buffer or the 16 canary
  bytes of spare capacity behind it are violations.
  Not expressible in the model (observed only): running time, writes to the input buffer, json.Unmarshal of the payload structs.
-/
import LW.Proofs.Checked
import LW.Proofs.App
import LW.Proofs.Stream
import LW.Generated.Registry
namespace LW.C09
open LW Outcome LW.Checked

/-- frame decoder: the Go index expressions never leave the buffer, and the transcription is the total decoder -/
theorem C09_phy_total (data : Bytes) : phyDec data ≠ panic ∧ phyDec data = PHY.dec data :=
  ⟨phyDec_never_panics data, phyDec_eq data⟩

/-- MACPayload: `data[4:5]`, `data[0:7+FOptsLen]`, `data[7+FOptsLen]`, `data[7+FOptsLen+1:]` -/
theorem C09_macpayload_total (data : Bytes) : Checked.macDec data ≠ panic ∧ Checked.macDec data = LW.macDec {} none [] data :=
  ⟨macDec_never_panics data, macDec_eq data⟩

/-- FHDR: `data[0:4]`, `data[4:5]`, `data[5:7]`, `data[7:]` -/
theorem C09_fhdr_total (data : Bytes) : fhdrDec data ≠ panic ∧ fhdrDec data = FHDR.dec {} data :=
  ⟨fhdrDec_never_panics data, fhdrDec_eq data⟩

/-- CFList and join-accept payload (the bytes a device decrypts): `data[15]`, `data[:15]`, `data[i*3+k]`, `data[i*2 : i*2+2]`,
`data[0:3]`, `data[3:6]`, `data[6:10]`, `data[10:11]`, `data[11]`, `data[12:]` -/
theorem C09_joinaccept_total (data : Bytes) :
    joinAcceptDec data ≠ panic ∧ joinAcceptDec data = JoinAccept.dec {} data ∧ cfListDec data ≠ panic ∧ cfListDec data = CFList.dec data :=
  ⟨joinAccept_never_panics data, joinAcceptDec_eq data, cfList_never_panics data, cfListDec_eq data⟩

/-- MAC-command stream loop (`Bytes[i]`, `Bytes[i:i+1+plLen]`, `i += plLen`) for every registry with non-negative sizes
(what RegisterProprietaryMACCommand guarantees since the repair c07-register-negative-size) -/
theorem C09_stream_total (reg : Registry) (hreg : RegNonneg reg) (up : Bool) (data : Bytes) : Checked.stream reg up data ≠ panic :=
  stream_never_panics reg hreg up data

/-- the registry regenerated from /repo has non-negative sizes -/
theorem C09_generated_registry_nonneg : RegNonneg Generated.registry := by
  have all : ∀ e ∈ Generated.registry, 0 ≤ e.size := by decide
  intro up cid e h
  unfold Registry.lookup at h
  exact all e (List.mem_of_find?_eq_some h)

/-- application layer: offsets derived from mask bits / status bits (`1 + i*5`, `data[offset+1:offset+5]`, `data[1:4]`, `data[1:5]`, `data[2:]`) -/
theorem C09_app_offsets_total (data : Bytes) (mk : Bool → Bool → Bool → Byte → Option Nat → App.AP) :
    statusAnsDec data ≠ panic ∧ sessionAnsDec mk data ≠ panic ∧ upgradeAnsDec data ≠ panic ∧ dataFragmentDec data ≠ panic :=
  ⟨statusAnsDec_never_panics data, sessionAnsDec_never_panics mk data, upgradeAnsDec_never_panics data, dataFragmentDec_never_panics data⟩

/-- application layer: the four command-stream decoders return a value or an error on every input, both directions
(the cursor advances by Size() ≥ 1: the fuel of the model is never exhausted) -/
theorem C09_app_streams_total (p : App.Pkg) (up : Bool) (data : Bytes) : App.cmdsDec p up data ≠ panic :=
  App.cmdsDecFuel_ne_panic p up data.length data (Nat.le_refl _)

/-- every application-layer payload decoder -/
theorem C09_app_payloads_total (k : App.AKind) (data : Bytes) : k.dec data ≠ panic := App.dec_ne_panic k data

end LW.C09
