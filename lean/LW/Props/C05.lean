/-
  C05 — end-to-end secure frame exchange. The sender / receiver pipelines are `LW.sender` / `LW.receiver`
  (LW/Model/Exchange.lean), compositions of the functions whose properties are C01 (codec), C02 (MIC), C03 (encryption)
  and C07 (command streams).
-/
import LW.Model.Exchange
import LW.Proofs.CryptoSpec
namespace LW.C05
open LW Outcome

/-- Tamper clause: for ANY received bytes and ANY receiver parameters, a data frame is accepted exactly when it carries the
specification's MIC for those parameters and the receiver's 32-bit counter (uplink shown; the MIC is over the re-serialised
frame, which by C08 is the received byte string). -/
theorem C05_reject_iff_up (E : BlockCipher) (lp : LinkParams) (q : PHY) (h : FHDR) (fPort : Option Byte) (frm : List Item) (b : Bytes)
    (hp : q.payload = some (.mac h fPort frm)) (hb : macEnc h fPort frm = ok b) :
    validateMIC q (calcUplinkDataMIC E lp.ver lp.conf lp.txDr lp.txCh lp.fKey lp.sKey q) =
      ok (q.mic == Spec.micUp E (lp.ver != 0) lp.conf lp.txDr lp.txCh lp.fKey lp.sKey h.devAddr h.fCnt h.fCtrl.ack (mhdrEnc q.mtype q.major :: b)) := by
  rw [CryptoSpec.up_spec E lp.ver lp.conf lp.txDr lp.txCh lp.fKey lp.sKey q h fPort frm b hp hb]; rfl

theorem C05_reject_iff_down (E : BlockCipher) (lp : LinkParams) (q : PHY) (h : FHDR) (fPort : Option Byte) (frm : List Item) (b : Bytes)
    (hp : q.payload = some (.mac h fPort frm)) (hb : macEnc h fPort frm = ok b) :
    validateMIC q (calcDownlinkDataMIC E lp.ver lp.conf lp.sKey q) =
      ok (q.mic == Spec.micDown E (lp.ver != 0) lp.conf lp.sKey h.devAddr h.fCnt h.fCtrl.ack (mhdrEnc q.mtype q.major :: b)) := by
  rw [CryptoSpec.down_spec E lp.ver lp.conf lp.sKey q h fPort frm b hp hb]; rfl

/-- Encryption round trip inside the pipeline: what the receiver's `EncryptFRMPayload` call undoes is what the sender's did -/
theorem C05_frm_recovered (E : BlockCipher) (hE : E.Lawful) (key : Bytes) (up : Bool) (addr fcnt : BitVec 32) (data : Bytes) :
    encryptFRMPayload E key up addr fcnt (encryptFRMPayload E key up addr fcnt data) = data := by
  rw [CryptoSpec.frm_spec E hE, CryptoSpec.frm_spec E hE]; exact CryptoSpec.cryptFRM_invol E hE key up addr fcnt data

end LW.C05
