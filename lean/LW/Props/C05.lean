/-
  C05 — end-to-end secure frame exchange. The sender / receiver pipelines are `LW.sender` / `LW.receiver`
  (LW/Model/Exchange.lean), compositions of the functions whose properties are C01 (codec), C02 (MIC), C03 (encryption)
  and C07 (command streams).  C05_exchange is the composed statement (proof: LW/Proofs/Exchange.lean).
-/
import LW.Model.Exchange
import LW.Proofs.CryptoSpec
import LW.Proofs.Exchange
namespace LW.C05
open LW Outcome ExchangeProofs

/-- First clause, composed: ANY data frame (uplink or downlink, confirmed or not: MType 2..5) whose FOpts are MAC commands
`fo` (at most 15 bytes encoded) and whose FRMPayload is a `Content` — absent, MAC commands on port 0, or application bytes on
a port ≠ 0 — that the sender pipeline (encrypt FRMPayload → 1.1: encrypt FOpts → set MIC → marshal) turns into bytes `bs`
is ACCEPTED by the receiver pipeline (unmarshal → restore the 32-bit counter → validate MIC → 1.1: decrypt / 1.0: decode
FOpts → decrypt FRMPayload) holding the same keys, parameters and the upper 16 counter bits, and the receiver ends up with
exactly the sender's commands (`normItems`: DeviceTimeAns rounded to 1/256 s, as C07 states), payload bytes, port, DevAddr,
full 32-bit FCnt and FCtrl flags (FPending / ClassB share one bit on the wire: `rxCtrl`).  Both MAC versions (`lp.ver`), any
lawful block cipher, any keys, any registry (any history of proprietary registrations under which the commands are framed).
Composition of C01 (codec), C02 (MIC = spec), C03 (involutions) and C07 (streams). -/
theorem C05_exchange (E : BlockCipher) (hE : E.Lawful) (reg : Registry) (lp : LinkParams) (ek ak : Bytes) (mt mj : Byte) (mic0 : Bytes)
    (addr fcnt : BitVec 32) (ctrl : FCtrl) (fo : List MacCmd) (c : Content) (bs : Bytes)
    (hmt : mt = 2#8 ∨ mt = 3#8 ∨ mt = 4#8 ∨ mt = 5#8) (hmj : mj.toNat ≤ 3)
    (hwf : ∀ x ∈ fo, Stream.WellFramed reg (isUplinkMType mt) x) (hc : c.OK reg (isUplinkMType mt))
    (hfol : ∀ macB, encodeCmds fo = ok macB → macB.length ≤ 15)
    (hs : sender E lp ek ak { mtype := mt, major := mj, mic := mic0, payload := some (.mac { devAddr := addr, fCtrl := ctrl, fCnt := fcnt, fOpts := cmdItems fo } c.fPort c.frm) } = ok bs) :
    ∃ mic macB, encodeCmds fo = ok macB ∧ macB.length ≤ 15 ∧
      receiver E reg lp ek ak (fcnt &&& 0xffff0000#32) bs =
        .accepted { mtype := mt, major := mj, mic := mic, payload := some (.mac { devAddr := addr, fCtrl := rxCtrl ctrl macB.length, fCnt := fcnt, fOpts := normItems fo } c.fPort c.rx) } :=
  exchange E hE reg lp ek ak mt mj mic0 addr fcnt ctrl fo c bs hmt hmj hwf hc hfol hs

/-- Tamper clause: for ANY received bytes and ANY receiver parameters, a data frame is accepted exactly when it carries the
specification's MIC for those parameters and the receiver's 32-bit counter (uplink shown; the MIC is over the re-serialised
frame, which by C08 is the received byte string). -/
theorem C05_reject_iff_up (E : BlockCipher) (lp : LinkParams) (q : PHY) (h : FHDR) (fPort : Option Byte) (frm : List Item) (b : Bytes)
    (hp : q.payload = some (.mac h fPort frm)) (hb : macEnc h fPort frm = ok b) :
    validateMIC q (calcUplinkDataMIC E lp.ver lp.conf lp.txDr lp.txCh lp.fKey lp.sKey q) =
      ok (q.mic == Spec.micUp E (lp.ver != 0) lp.conf lp.txDr lp.txCh lp.fKey lp.sKey h.devAddr h.fCnt h.fCtrl.ack (mhdrEnc q.mtype q.major :: b)) := by
  rw [CryptoSpec.up_spec E lp.ver lp.conf lp.txDr lp.txCh lp.fKey lp.sKey q h fPort frm b hp hb]; rfl

theorem C05_reject_iff_down (E : BlockCipher) (lp : LinkParams) (q : PHY) (h : FHDR) (fPort : Option Byte) (frm : List Item) (b : Bytes)
    (hp : q.payload = some (.mac h fPort frm)) (hb : macEnc h fPort frm = ok b) :
    validateMIC q (calcDownlinkDataMIC E lp.ver lp.conf lp.sKey q) =
      ok (q.mic == Spec.micDown E (lp.ver != 0) lp.conf lp.sKey h.devAddr h.fCnt h.fCtrl.ack (mhdrEnc q.mtype q.major :: b)) := by
  rw [CryptoSpec.down_spec E lp.ver lp.conf lp.sKey q h fPort frm b hp hb]; rfl

/-- The direction is a parameter of the receiver too: taking a frame for the opposite direction is validating it with the other
function, to which `C05_reject_iff_up` / `C05_reject_iff_down` apply whatever the MType says (their `Spec.micUp` / `Spec.micDown`
carry the direction byte 0 / 1 of the validating side); with the frame's own direction it is the receiver of `C05_exchange`. -/
theorem C05_receiver_own_direction (E : BlockCipher) (reg : Registry) (lp : LinkParams) (ek ak : Bytes) (hi : BitVec 32) (bs : Bytes) :
    receiverDir false E reg lp ek ak hi bs = receiver E reg lp ek ak hi bs := by
  unfold receiverDir receiver
  simp

/-- Encryption round trip inside the pipeline: what the receiver's `EncryptFRMPayload` call undoes is what the sender's did -/
theorem C05_frm_recovered (E : BlockCipher) (hE : E.Lawful) (key : Bytes) (up : Bool) (addr fcnt : BitVec 32) (data : Bytes) :
    encryptFRMPayload E key up addr fcnt (encryptFRMPayload E key up addr fcnt data) = data := by
  rw [CryptoSpec.frm_spec E hE, CryptoSpec.frm_spec E hE]; exact CryptoSpec.cryptFRM_invol E hE key up addr fcnt data

/-! non-vacuity: a toy lawful cipher, an unconfirmed uplink with LinkCheckReq in FOpts and three application bytes on port 10,
LoRaWAN 1.1, counter 0x12345: the sender succeeds, so the hypotheses of C05_exchange are met -/
def toyCipher : BlockCipher := { enc := fun _ b => (b ++ zeros 16).take 16, dec := fun _ b => (b ++ zeros 16).take 16 }
theorem toy_lawful : toyCipher.Lawful := by
  refine ⟨?_, ?_, ?_, ?_⟩ <;> intros <;> simp_all [toyCipher, zeros]
example : (sender toyCipher { ver := 1, conf := 0, txDr := 0, txCh := 0, fKey := zeros 16, sKey := zeros 16 } (zeros 16) (zeros 16)
    { mtype := 2, major := 0, mic := [0, 0, 0, 0], payload := some (.mac { devAddr := 0x01020304#32, fCtrl := {}, fCnt := 0x12345#32, fOpts := cmdItems [{ cid := 2, payload := none }] } (Content.app 10 [1, 2, 3]).fPort (Content.app 10 [1, 2, 3]).frm) }).isOk = true := by
  decide
example : ∀ x ∈ [({ cid := 2, payload := none } : MacCmd)], Stream.WellFramed [] true x := by
  intro x hx; simp at hx; subst hx; rfl

end LW.C05
