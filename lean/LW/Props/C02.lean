/-
  C02 — data-frame MIC equals the specification value; set/validate agree.
  Every theorem holds for EVERY block cipher `E` (AES is only the driver's instance), every frame, key, MAC version,
  32-bit counter, txDR/txCh and message length.
-/
import LW.Proofs.CryptoSpec
namespace LW.C02
open LW Outcome

/-- uplink: B0 form for 1.0, cmacS[0..1]|cmacF[0..1] over B1/B0 for 1.1, ConfFCnt (mod 2^16) only when ACK is set;
full 32-bit FCnt, DevAddr, direction and message length (mod 256, the specification's 1-byte field) bound in -/
theorem C02_up (E : BlockCipher) (ver : Byte) (conf : BitVec 32) (dr ch : Byte) (fk sk : Bytes) (p : PHY)
    (h : FHDR) (fPort : Option Byte) (frm : List Item) (b : Bytes)
    (hp : p.payload = some (.mac h fPort frm)) (hb : macEnc h fPort frm = ok b) :
    calcUplinkDataMIC E ver conf dr ch fk sk p =
      ok (Spec.micUp E (ver != 0) conf dr ch fk sk h.devAddr h.fCnt h.fCtrl.ack (mhdrEnc p.mtype p.major :: b)) :=
  CryptoSpec.up_spec E ver conf dr ch fk sk p h fPort frm b hp hb

/-- downlink: B0 with direction 1, ConfFCnt only in 1.1 and only when ACK is set -/
theorem C02_down (E : BlockCipher) (ver : Byte) (conf : BitVec 32) (key : Bytes) (p : PHY)
    (h : FHDR) (fPort : Option Byte) (frm : List Item) (b : Bytes)
    (hp : p.payload = some (.mac h fPort frm)) (hb : macEnc h fPort frm = ok b) :
    calcDownlinkDataMIC E ver conf key p =
      ok (Spec.micDown E (ver != 0) conf key h.devAddr h.fCnt h.fCtrl.ack (mhdrEnc p.mtype p.major :: b)) :=
  CryptoSpec.down_spec E ver conf key p h fPort frm b hp hb

/-- validation returns true exactly when the frame carries the specification's value (uplink) -/
theorem C02_validate_up_iff (E : BlockCipher) (ver : Byte) (conf : BitVec 32) (dr ch : Byte) (fk sk : Bytes) (p : PHY)
    (h : FHDR) (fPort : Option Byte) (frm : List Item) (b : Bytes)
    (hp : p.payload = some (.mac h fPort frm)) (hb : macEnc h fPort frm = ok b) :
    validateMIC p (calcUplinkDataMIC E ver conf dr ch fk sk p) =
      ok (p.mic == Spec.micUp E (ver != 0) conf dr ch fk sk h.devAddr h.fCnt h.fCtrl.ack (mhdrEnc p.mtype p.major :: b)) := by
  rw [C02_up E ver conf dr ch fk sk p h fPort frm b hp hb]; rfl

theorem C02_validate_down_iff (E : BlockCipher) (ver : Byte) (conf : BitVec 32) (key : Bytes) (p : PHY)
    (h : FHDR) (fPort : Option Byte) (frm : List Item) (b : Bytes)
    (hp : p.payload = some (.mac h fPort frm)) (hb : macEnc h fPort frm = ok b) :
    validateMIC p (calcDownlinkDataMIC E ver conf key p) =
      ok (p.mic == Spec.micDown E (ver != 0) conf key h.devAddr h.fCnt h.fCtrl.ack (mhdrEnc p.mtype p.major :: b)) := by
  rw [C02_down E ver conf key p h fPort frm b hp hb]; rfl

/-- set then validate (same parameters) is true: the MIC does not depend on the MIC field -/
theorem C02_set_validate_up (E : BlockCipher) (ver : Byte) (conf : BitVec 32) (dr ch : Byte) (fk sk : Bytes) (p p' : PHY)
    (hs : setMIC p (calcUplinkDataMIC E ver conf dr ch fk sk p) = ok p') :
    validateMIC p' (calcUplinkDataMIC E ver conf dr ch fk sk p') = ok true := by
  cases hc : calcUplinkDataMIC E ver conf dr ch fk sk p with
  | err => rw [hc] at hs; contradiction
  | panic => rw [hc] at hs; contradiction
  | ok mic =>
    rw [hc] at hs
    cases MacRT.ok_inj hs
    have : calcUplinkDataMIC E ver conf dr ch fk sk { p with mic := mic } = calcUplinkDataMIC E ver conf dr ch fk sk p := rfl
    rw [this, hc]; simp [validateMIC]

theorem C02_set_validate_down (E : BlockCipher) (ver : Byte) (conf : BitVec 32) (key : Bytes) (p p' : PHY)
    (hs : setMIC p (calcDownlinkDataMIC E ver conf key p) = ok p') :
    validateMIC p' (calcDownlinkDataMIC E ver conf key p') = ok true := by
  cases hc : calcDownlinkDataMIC E ver conf key p with
  | err => rw [hc] at hs; contradiction
  | panic => rw [hc] at hs; contradiction
  | ok mic =>
    rw [hc] at hs
    cases MacRT.ok_inj hs
    have : calcDownlinkDataMIC E ver conf key { p with mic := mic } = calcDownlinkDataMIC E ver conf key p := rfl
    rw [this, hc]; simp [validateMIC]

/-- `ValidateUplinkDataMICF` compares exactly the cmacF half (bytes 2..3 of the 1.1 MIC computed with FNwkSIntKey) -/
theorem C02_validateF (E : BlockCipher) (fk : Bytes) (p : PHY)
    (h : FHDR) (fPort : Option Byte) (frm : List Item) (b : Bytes)
    (hp : p.payload = some (.mac h fPort frm)) (hb : macEnc h fPort frm = ok b) :
    validateUplinkDataMICF E fk p =
      ok (p.mic.drop 2 == (Spec.micUp E true 0 0 0 fk fk h.devAddr h.fCnt h.fCtrl.ack (mhdrEnc p.mtype p.major :: b)).drop 2) := by
  simp only [validateUplinkDataMICF]
  rw [C02_up E 1 0 0 0 fk fk p h fPort frm b hp hb]; rfl

/-! inputs the specification excludes from the MIC do not affect it -/

/-- ConfFCnt is irrelevant when ACK is clear, and only its low 16 bits matter when ACK is set -/
theorem C02_indep_conf (E : BlockCipher) (v11 : Bool) (c c' : BitVec 32) (dr ch : Byte) (fk sk : Bytes) (a f : BitVec 32) (ack : Bool) (msg : Bytes)
    (h : ack = false ∨ c.toNat % 65536 = c'.toNat % 65536) :
    Spec.micUp E v11 c dr ch fk sk a f ack msg = Spec.micUp E v11 c' dr ch fk sk a f ack msg := by
  rcases h with h | h
  · subst h; simp [Spec.micUp]
  · simp [Spec.micUp, h]

/-- in 1.0, TxDr, TxCh, SNwkSIntKey and ConfFCnt are not part of the uplink MIC -/
theorem C02_indep_v10_up (E : BlockCipher) (c c' : BitVec 32) (dr dr' ch ch' : Byte) (fk sk sk' : Bytes) (a f : BitVec 32) (ack : Bool) (msg : Bytes) :
    Spec.micUp E false c dr ch fk sk a f ack msg = Spec.micUp E false c' dr' ch' fk sk' a f ack msg := by
  simp [Spec.micUp]

/-- in 1.0 (or with ACK clear) ConfFCnt is not part of the downlink MIC -/
theorem C02_indep_down (E : BlockCipher) (v11 : Bool) (c c' : BitVec 32) (key : Bytes) (a f : BitVec 32) (ack : Bool) (msg : Bytes)
    (h : v11 = false ∨ ack = false ∨ c.toNat % 65536 = c'.toNat % 65536) :
    Spec.micDown E v11 c key a f ack msg = Spec.micDown E v11 c' key a f ack msg := by
  rcases h with h | h | h
  · subst h; simp [Spec.micDown]
  · subst h; simp [Spec.micDown]
  · simp [Spec.micDown, h]

/-- What is authenticated: the CMAC input `B0 | msg` determines direction, DevAddr, the full 32-bit FCnt, ConfFCnt mod 2^16 and
the serialised frame — so a change to any of them changes what is MAC'ed. (That a different CMAC input gives a different
4-byte MIC is the cryptographic assumption; it is not provable.) -/
theorem C02_bound_inputs_B0 (c c' : Nat) (d d' : Byte) (a a' f f' : BitVec 32) (msg msg' : Bytes)
    (hc : c < 65536) (hc' : c' < 65536)
    (h : Spec.B0 c d a f msg.length ++ msg = Spec.B0 c' d' a' f' msg'.length ++ msg') :
    c = c' ∧ d = d' ∧ a = a' ∧ f = f' ∧ msg = msg' :=
  CryptoSpec.B0_msg_inj c c' d d' a a' f f' msg msg' hc hc' h

theorem C02_bound_inputs_B1 (c c' : Nat) (x x' y y' : Byte) (a a' f f' : BitVec 32) (msg msg' : Bytes)
    (hc : c < 65536) (hc' : c' < 65536)
    (h : Spec.B1 c x y a f msg.length ++ msg = Spec.B1 c' x' y' a' f' msg'.length ++ msg') :
    c = c' ∧ x = x' ∧ y = y' ∧ a = a' ∧ f = f' ∧ msg = msg' :=
  CryptoSpec.B1_msg_inj c c' x x' y y' a a' f f' msg msg' hc hc' h

/-! non-vacuity: the hypotheses are met by a concrete frame -/
example : macEnc { devAddr := 0x01020304#32, fCnt := 0x10001#32 } (some 1) [.data [1, 2, 3]] = ok [4, 3, 2, 1, 0, 1, 0, 1, 1, 2, 3] := by decide

end LW.C02
