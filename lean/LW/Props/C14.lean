/-
  C14 — LinkADRReq channel-mask planning reaches exactly the network's channel set.
  Model: LW/Model/Band.lean (planGeneric / planUS / applyGeneric / applyUSLoop mirror band.go:538-623 and the US915/AU915
  overrides). The theorems are for EVERY band state (hence every history of AddChannel/Disable/Enable), every device channel
  set inside the plan, in any order, with duplicates — nothing is enumerated.
  `targetMask b dev` is the specification: channel j is in the result iff it is enabled on the network and is a standard
  channel or a custom channel already active on the device.
-/
import LW.Proofs.Plan
import LW.Generated.BandData
namespace LW.C14
open LW Outcome BandProofs PlanProofs

/-- generic bands (every plan of at most 128 channels, i.e. ChMaskCntl 0..7): applying the generated payloads to the
device's channel set yields exactly the target -/
theorem C14_generic (b : BandState) (dev : List Int) (hn : b.up.length ≤ 128)
    (hdev : ∀ c ∈ dev, 0 ≤ c ∧ c < (b.up.length : Int)) :
    b.applyGeneric dev (b.planGeneric dev) = ok (maskToIdx (targetMask b dev)) :=
  plan_apply_generic b dev hn hdev

/-- US915 / AU915 (72 channels): whichever of the two candidate plans is shorter is used, and applying it — with the
ChMaskCntl 6/7 semantics — yields the target -/
theorem C14_us915_au915 (b : BandState) (dev : List Int) (hf : b.cfg.family = .us915 ∨ b.cfg.family = .au915)
    (hn : b.up.length = 72) (hnc : ∀ ch ∈ b.up, ch.custom = false)
    (hdev : ∀ c ∈ dev, 0 ≤ c ∧ c < (b.up.length : Int)) :
    b.apply dev (b.plan dev) = ok (maskToIdx (targetMask b dev)) :=
  plan_apply_us b dev hf hn hnc hdev

/-- the hypotheses of the previous theorem hold in every reachable state of the regenerated US915 / AU915 configurations -/
theorem C14_us_reachable : ∀ c ∈ Generated.allConfigs, (c.family = .us915 ∨ c.family = .au915) →
    c.supportsExtra = false ∧ c.up.length = 72 ∧ (c.up.map chStatic).all (fun s => !s.2.2.2) = true := by decide +kernel

theorem C14_us_reachable_state (c : BandCfg) (hc : c ∈ Generated.allConfigs) (hf : c.family = .us915 ∨ c.family = .au915) (ops : List BandOp) :
    (run c.init ops).cfg.family = c.family ∧ (run c.init ops).up.length = 72 ∧ ∀ ch ∈ (run c.init ops).up, ch.custom = false := by
  obtain ⟨h1, h2, h3⟩ := C14_us_reachable c hc hf
  obtain ⟨r1, r2⟩ := run_static_noextra c ops h1
  refine ⟨by rw [r1], ?_, ?_⟩
  · have := congrArg List.length r2; simpa [h2] using this
  · intro ch hch
    have hm : chStatic ch ∈ (run c.init ops).up.map chStatic := List.mem_map_of_mem hch
    rw [r2] at hm
    have := List.all_eq_true.mp h3 _ hm
    simpa [chStatic] using this

/-- nothing is produced when the device already matches -/
theorem C14_noop (b : BandState) (dev : List Int) (hdev : ∀ c ∈ dev, 0 ≤ c ∧ c < (b.up.length : Int))
    (hmatch : ∀ j, j < b.up.length → dev.contains (Int.ofNat j) = tbit b dev j) : b.planGeneric dev = [] :=
  plan_noop b dev hdev hmatch

/-- every generated payload is encodable by the MAC layer (ChMaskCntl ≤ 7; DataRate, TXPower, NbRep are zero) -/
theorem C14_encodable (b : BandState) (dev : List Int) (hn : b.up.length ≤ 128) (hdev : ∀ c ∈ dev, 0 ≤ c ∧ c < (b.up.length : Int)) :
    ∀ p ∈ b.planGeneric dev, p.cntl.toNat ≤ 7 ∧ ((MacP.linkADRReq 0 0 p.mask p.cntl 0).enc).isOk = true :=
  plan_encodable b dev hn hdev

/-- at most one payload per 16-channel block (the US915/AU915 alternative adds at most the one ChMaskCntl=7 payload and is
only used when it is not longer) -/
theorem C14_count (b : BandState) (dev : List Int) (hdev : ∀ c ∈ dev, 0 ≤ c ∧ c < (b.up.length : Int)) :
    (b.planGeneric dev).length ≤ (b.up.length + 15) / 16 :=
  plan_count b dev hdev

theorem C14_count_us (b : BandState) (dev : List Int) (hdev : ∀ c ∈ dev, 0 ≤ c ∧ c < (b.up.length : Int)) :
    (b.planUS dev).length ≤ (b.up.length + 15) / 16 := by
  simp only [BandState.planUS]
  split
  · exact plan_count b dev hdev
  · rename_i h; have := plan_count b dev hdev; omega

/-- applying payloads never panics on the generic bands, whatever the payloads and the device set are -/
theorem C14_apply_total (b : BandState) (dev : List Int) (pls : List Plan) : b.applyGeneric dev pls ≠ panic := by
  simp only [BandState.applyGeneric]
  have key : ∀ (pls : List Plan) (m : List Bool), applyGenericLoop b.up.length pls m ≠ panic := by
    intro pls
    induction pls with
    | nil => intro m; simp [applyGenericLoop]
    | cons p ps ih =>
      intro m
      simp only [applyGenericLoop, applyBlock]
      split
      · simp
      · exact ih _
  cases h : applyGenericLoop b.up.length pls (devMask b.up.length dev) with
  | ok m => simp
  | err => simp
  | panic => exact absurd h (key _ _)

/-! non-vacuity: a reachable EU868 state with custom channels and a device set meeting the hypotheses -/
def sampleState : BandState := run (Generated.allConfigs.headD default).init [.add 867100000 0 5, .add 867300000 0 5, .disable 1]
example : sampleState.up.length = 5 ∧ sampleState.planGeneric [0, 1, 2, 3] = [{ cntl := 0, mask := 0x000d#16 }] := by decide
example : sampleState.applyGeneric [0, 1, 2, 3] (sampleState.planGeneric [0, 1, 2, 3]) = ok [0, 2, 3] := by decide

end LW.C14
