/-
  C14 — LinkADRReq channel-mask planning reaches exactly the network's channel set.
  (Theorems are added to this file as the refinement proof progresses; see LW/Proofs/Plan.lean.)
-/
import LW.Proofs.Band
namespace LW.C14
open LW Outcome BandProofs

/-- applying payloads never panics on the generic bands, whatever the payloads and the device set are -/
theorem C14_apply_total (b : BandState) (dev : List Int) (pls : List Plan) : b.applyGeneric dev pls ≠ panic := by
  simp only [BandState.applyGeneric]
  have key : ∀ (pls : List Plan) (m : List Bool), applyGenericLoop b.up.length pls m ≠ panic := by
    intro pls
    induction pls with
    | nil => intro m; simp [applyGenericLoop]
    | cons p ps ih =>
      intro m
      simp only [applyGenericLoop, applyBlock]
      split
      · simp
      · exact ih _
  cases h : applyGenericLoop b.up.length pls (devMask b.up.length dev) with
  | ok m => simp
  | err => simp
  | panic => exact absurd h (key _ _)

end LW.C14
