/-
  C11 — DevAddr/NetID prefix algebra and identifier representations.
  All 2^24 NetIDs × all 2^32 DevAddrs by reasoning (per-bit characterisation); representations for every identifier value.
-/
import LW.Proofs.Addr
import LW.Proofs.AddrArith
namespace LW.C11
open LW Outcome

/-- Assigning a NetID's prefix: every bit of the result is the one the addressing rules prescribe — type prefix 1^t 0 on
top, then the low w_t bits of the NetID's ID field (w = 6/6/9/11/12/13/15/17), the NwkAddr bits below untouched. -/
theorem C11_setPrefix (n : BitVec 24) (a : BitVec 32) (i : Nat) (hi : i < 32) :
    (setAddrPrefix a n).getLsbD i = Spec.addrBit n.getLsbD (n.toNat / 2 ^ 21) a.getLsbD i :=
  AddrProofs.setPrefix_bits n a i hi

/-- the same rule in arithmetic form — prefix · 2^(31−t) + (ID mod 2^w) · 2^rest + (address mod 2^rest), the oracle every Go result is
compared with — is exactly what the code computes, for all 2^24 × 2^32 pairs -/
theorem C11_setPrefix_arith (n : BitVec 24) (a : BitVec 32) : (setAddrPrefix a n).toNat = Spec.addrWithPrefix n.toNat a.toNat :=
  Spec.setAddrPrefix_arith n a

/-- … and so is the membership test: "the address has the NetID's type (number of leading ones) and its NwkID field equals the low
w bits of the NetID's ID" -/
theorem C11_isNetID_arith (n : BitVec 24) (a : BitVec 32) : isNetID a n = Spec.addrInNetID n.toNat a.toNat :=
  Spec.isNetID_arith n a

/-- the NwkAddr bits are untouched -/
theorem C11_nwkaddr_untouched (n : BitVec 24) (a : BitVec 32) (i : Nat)
    (hi : i < 31 - n.toNat / 2 ^ 21 - Spec.nwkIDWidth (n.toNat / 2 ^ 21)) :
    (setAddrPrefix a n).getLsbD i = a.getLsbD i := by
  rw [C11_setPrefix n a i (by omega)]
  simp only [Spec.addrBit]
  rw [if_pos hi]

/-- the membership test is true exactly for addresses carrying that type prefix and NwkID -/
theorem C11_isNetID_iff (n : BitVec 24) (a : BitVec 32) :
    isNetID a n = true ↔
      ∀ i, i < 32 → 31 - n.toNat / 2 ^ 21 - Spec.nwkIDWidth (n.toNat / 2 ^ 21) ≤ i →
        a.getLsbD i = Spec.addrBit n.getLsbD (n.toNat / 2 ^ 21) a.getLsbD i :=
  AddrProofs.isNetID_iff n a

/-- an address that was given the prefix is a member; assigning is idempotent -/
theorem C11_prefixed_is_member (n : BitVec 24) (a : BitVec 32) : isNetID (setAddrPrefix a n) n = true := by
  rw [C11_isNetID_iff]
  intro i hi hlow
  rw [C11_setPrefix n a i hi]
  simp only [Spec.addrBit]
  have : ¬ i < 31 - n.toNat / 2 ^ 21 - Spec.nwkIDWidth (n.toNat / 2 ^ 21) := by omega
  rw [if_neg this, if_neg this]

/-- NetID type = top 3 bits -/
theorem C11_netIDType (n : BitVec 24) : netIDType n = n.toNat / 2 ^ 21 := AddrProofs.netIDType_eq n

/-- NetID ID field = low 6 / 9 / 21 bits by type -/
theorem C11_netIDID (n : BitVec 24) (j : Nat) (hj : j < 32) :
    (netIDID n).getLsbD j = (decide (j < Spec.netIDWidth (n.toNat / 2 ^ 21)) && n.getLsbD j) := by
  have ht := AddrProofs.netIDType_lt n
  rw [netIDID, AddrProofs.getID_bit n _ j (by rw [AddrProofs.idBits_spec _ ht]; have := (AddrProofs.widths _ ht).2.2.1; omega) hj,
    AddrProofs.idBits_spec _ ht, AddrProofs.netIDType_eq]

/-- identifiers (EUI64 k=8, DevAddr k=4, NetID k=3, AES128Key k=16) survive text (hex, optional 0x), binary
(byte-reversed) and database representations; the binary form is the reversed value form -/
theorem C11_text (k v : Nat) (hv : v < 256 ^ k) : idOfText k (idText k v) = ok v := AddrProofs.text_roundtrip k v hv
theorem C11_text_0x (k v : Nat) (hv : v < 256 ^ k) : idOfText k ("0x" ++ idText k v) = ok v := AddrProofs.text_roundtrip_0x k v hv
theorem C11_binary (k v : Nat) (hv : v < 256 ^ k) : idOfBinary k (idBinary k v) = ok v := AddrProofs.binary_roundtrip k v hv
theorem C11_scan (k v : Nat) (hv : v < 256 ^ k) : idOfScan k (idBytes k v) = ok v := AddrProofs.scan_roundtrip k v hv
theorem C11_binary_reversed (k v : Nat) : idBinary k v = (idBytes k v).reverse := AddrProofs.binary_is_reversed k v

/-- wrong-length inputs are rejected by all three decoders -/
theorem C11_wrong_length (k : Nat) (b : Bytes) (h : b.length ≠ k) : idOfBinary k b = err ∧ idOfScan k b = err := by
  simp [idOfBinary, idOfScan, h]

theorem C11_text_wrong_length (k : Nat) (b : Bytes) (h : b.length ≠ k) : idOfText k (hexOfBytes b) = err := by
  simp only [idOfText, AddrProofs.hexOfBytes_toList, AddrProofs.strip0x_hex, AddrProofs.hex_roundtrip]
  simp [h]

/-! non-vacuity -/
example : setAddrPrefix 0xffffffff#32 0x600001#24 = 0xe003ffff#32 := by decide
example : isNetID 0xe003ffff#32 0x600001#24 = true := by decide

end LW.C11
