/-
  C17 — backend-interface value types round-trip without loss; key envelopes follow RFC 3394.
  Model: LW.Model.Backend (exact integer model of binary64, RFC 3339 text, go-aes-key-wrap for two blocks);
  RFC 3394 as the RFC states it: LW.Spec.Backend.
  Proved here: Frequency (every integer 0 ≤ f < 2^32 Hz), Percentage (0..1000 by kernel evaluation), HEXBytes (all byte
  strings), ISO8601Time (every instant of the years 0..9999 in every whole-minute zone), key envelopes (all keys, all KEKs,
  any lawful block cipher).
  NOT a theorem (checked by the differential runs and judged against the property at run time only): the composition of
  the 23 payload structs through encoding/json.
-/
import LW.Proofs.Float
import LW.Proofs.Backend
import LW.Proofs.Time
namespace LW.C17
open LW Outcome LW.Backend

/-- Frequency: every integer number of Hz in 0 ≤ f < 2^32 survives MarshalJSON (float64(f) / 10^6, printed and re-read
exactly) followed by UnmarshalJSON (× 10^6 in binary64, math.Round). Error analysis over exact integer arithmetic: two
roundings of relative size 2^-53 leave the product within 2^-20 of f.
(Before the repair c17-frequency-truncation the decoder truncated: 128200000 came back as 128199999.) -/
theorem C17_frequency_roundtrip (f : Nat) (hf : f < 2 ^ 32) : roundTripScaled 1000000 (f : Int) = some (f : Int) :=
  frequency_roundtrip f hf

/-- Percentage: every integer 0..1000 (the property asks for 0..100) by kernel evaluation of the exact model -/
theorem C17_percentage_roundtrip : ∀ p : Fin 1001, roundTripScaled 100 (p.val : Int) = some (p.val : Int) :=
  percentage_roundtrip

/-- HEXBytes: every byte string, with and without the optional 0x prefix -/
theorem C17_hex_roundtrip (b : Bytes) : hexParse (hexText b) = ok b ∧ hexParse ('0' :: 'x' :: hexText b) = ok b :=
  ⟨hex_text_roundtrip b, hex_text_roundtrip_0x b⟩

/-- a key wrapped with a KEK (16, 24 or 32 bytes, non-empty label) unwraps to the same key with that KEK -/
theorem C17_envelope_roundtrip (E : BlockCipher) (hE : E.Lawful) (kek key : Bytes) (hk : validKEK kek) (hkey : key.length = 16) :
    ∃ ct, newKeyEnvelope E true kek key = ok (true, ct) ∧ ct.length = 24 ∧ unwrapEnvelope E kek ct = ok key :=
  envelope_roundtrip E hE kek key hk hkey

/-- the wrapped key is the RFC 3394 ciphertext -/
theorem C17_wrap_is_rfc3394 (E : BlockCipher) (kek key : Bytes) (hk : validKEK kek) (hkey : key.length = 16) :
    newKeyEnvelope E true kek key = ok (true, Spec.Backend.wrap (E.enc kek) key) := by
  have hk0 : ¬ (kek.length == 0) = true := by rcases hk with h | h | h <;> simp [h]
  have hkv : (kek.length == 16 || kek.length == 24 || kek.length == 32) = true := by rcases hk with h | h | h <;> simp [h]
  simp [newKeyEnvelope, hk0, hkv, wrap16_is_rfc3394 _ key hkey]

/-- unwrapping a 24-byte value succeeds exactly when the RFC 3394 integrity check passes, and yields the RFC's plaintext -/
theorem C17_unwrap_iff_integrity (E : BlockCipher) (kek ct : Bytes) (hk : validKEK kek) (h : ct.length = 24) :
    unwrapEnvelope E kek ct = (match Spec.Backend.unwrap (E.dec kek) ct with | some p => ok p | none => err) :=
  unwrap_is_rfc3394 E kek ct hk h

/-- any other length is an error, never a panic (shorter values made the key-wrap library panic before the repair
c17-unwrap-length) -/
theorem C17_unwrap_rejects_other_lengths (E : BlockCipher) (kek ct : Bytes) (h : ct.length ≠ 24) : unwrapEnvelope E kek ct = err := by
  simp [unwrapEnvelope, h]

/-- without a KEK label (or without a KEK) the key is carried in clear -/
theorem C17_clear_without_label (E : BlockCipher) (kek key : Bytes) :
    newKeyEnvelope E false kek key = ok (false, key) ∧ newKeyEnvelope E true [] key = ok (false, key) := by
  constructor <;> simp [newKeyEnvelope]

/-- ISO8601Time: the RFC 3339 text of the instant `sec` (Unix seconds; the layout drops the nanoseconds) shown in a zone
`offMin` whole minutes east of UTC parses back to exactly `sec`, for every instant whose year in that zone is 0..9999 (the
years the four-digit layout can write) and every offset below a day.  Rests on the correctness of the days ↔ civil date
conversion over whole 400-year eras (`civilFromDays_ok`, below). -/
theorem C17_time_roundtrip (sec offMin : Int) (ho : -1440 < offMin ∧ offMin < 1440)
    (hy : 0 ≤ (civilFromDays ((sec + offMin * 60) / 86400)).1 ∧ (civilFromDays ((sec + offMin * 60) / 86400)).1 ≤ 9999) :
    parseRFC3339 (formatRFC3339 sec offMin) = some (sec, 0) :=
  parse_format sec offMin ho.1 ho.2 hy.1 hy.2

/-- the calendar under it: for EVERY day number the civil date is a real date (month 1..12, day 1..length of that month,
leap years by the Gregorian rule) and converts back to the same day number -/
theorem C17_calendar (z : Int) :
    1 ≤ (civilFromDays z).2.1 ∧ (civilFromDays z).2.1 ≤ 12 ∧ 1 ≤ (civilFromDays z).2.2 ∧
      (civilFromDays z).2.2 ≤ daysIn (civilFromDays z).1 (civilFromDays z).2.1 ∧
      daysFromCivil (civilFromDays z).1 (civilFromDays z).2.1 (civilFromDays z).2.2 = z :=
  civilFromDays_ok z

/-! non-vacuity -/
example : civilFromDays ((-62167219200 + 0 * 60) / 86400) = (0, 1, 1) := by decide
example : civilFromDays ((253402300799 + 0 * 60) / 86400) = (9999, 12, 31) := by decide
example : civilFromDays ((1583020800 + 0 * 60) / 86400) = (2020, 3, 1) ∧ civilFromDays ((1582934400 + 0 * 60) / 86400) = (2020, 2, 29) := by decide
example : parseRFC3339 (formatRFC3339 1582934399 (-330)) = some (1582934399, 0) := by decide
example : (128200000 : Nat) < 2 ^ 32 := by decide
example : validKEK ((List.range 24).map byteOfNat) := by simp [validKEK]

end LW.C17
