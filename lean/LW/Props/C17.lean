/-
  C17 — backend-interface value types round-trip without loss; key envelopes follow RFC 3394.
  Model: LW.Model.Backend (exact integer model of binary64, RFC 3339 text, go-aes-key-wrap for two blocks);
  RFC 3394 as the RFC states it: LW.Spec.Backend.
  Proved here: Frequency (every integer 0 ≤ f < 2^32 Hz), Percentage (0..1000 by kernel evaluation), HEXBytes (all byte
  strings), key envelopes (all keys, all KEKs, any lawful block cipher).
  NOT yet a theorem (checked by the differential runs and judged against the property at run time only): the ISO8601Time
  text round trip and the composition of the 23 payload structs through encoding/json.
-/
import LW.Proofs.Float
import LW.Proofs.Backend
namespace LW.C17
open LW Outcome LW.Backend

/-- Frequency: every integer number of Hz in 0 ≤ f < 2^32 survives MarshalJSON (float64(f) / 10^6, printed and re-read
exactly) followed by UnmarshalJSON (× 10^6 in binary64, math.Round). Error analysis over exact integer arithmetic: two
roundings of relative size 2^-53 leave the product within 2^-20 of f.
(Before the repair c17-frequency-truncation the decoder truncated: 128200000 came back as 128199999.) -/
theorem C17_frequency_roundtrip (f : Nat) (hf : f < 2 ^ 32) : roundTripScaled 1000000 (f : Int) = some (f : Int) :=
  frequency_roundtrip f hf

/-- Percentage: every integer 0..1000 (the property asks for 0..100) by kernel evaluation of the exact model -/
theorem C17_percentage_roundtrip : ∀ p : Fin 1001, roundTripScaled 100 (p.val : Int) = some (p.val : Int) :=
  percentage_roundtrip

/-- HEXBytes: every byte string, with and without the optional 0x prefix -/
theorem C17_hex_roundtrip (b : Bytes) : hexParse (hexText b) = ok b ∧ hexParse ('0' :: 'x' :: hexText b) = ok b :=
  ⟨hex_text_roundtrip b, hex_text_roundtrip_0x b⟩

/-- a key wrapped with a KEK (16, 24 or 32 bytes, non-empty label) unwraps to the same key with that KEK -/
theorem C17_envelope_roundtrip (E : BlockCipher) (hE : E.Lawful) (kek key : Bytes) (hk : validKEK kek) (hkey : key.length = 16) :
    ∃ ct, newKeyEnvelope E true kek key = ok (true, ct) ∧ ct.length = 24 ∧ unwrapEnvelope E kek ct = ok key :=
  envelope_roundtrip E hE kek key hk hkey

/-- the wrapped key is the RFC 3394 ciphertext -/
theorem C17_wrap_is_rfc3394 (E : BlockCipher) (kek key : Bytes) (hk : validKEK kek) (hkey : key.length = 16) :
    newKeyEnvelope E true kek key = ok (true, Spec.Backend.wrap (E.enc kek) key) := by
  have hk0 : ¬ (kek.length == 0) = true := by rcases hk with h | h | h <;> simp [h]
  have hkv : (kek.length == 16 || kek.length == 24 || kek.length == 32) = true := by rcases hk with h | h | h <;> simp [h]
  simp [newKeyEnvelope, hk0, hkv, wrap16_is_rfc3394 _ key hkey]

/-- unwrapping a 24-byte value succeeds exactly when the RFC 3394 integrity check passes, and yields the RFC's plaintext -/
theorem C17_unwrap_iff_integrity (E : BlockCipher) (kek ct : Bytes) (hk : validKEK kek) (h : ct.length = 24) :
    unwrapEnvelope E kek ct = (match Spec.Backend.unwrap (E.dec kek) ct with | some p => ok p | none => err) :=
  unwrap_is_rfc3394 E kek ct hk h

/-- any other length is an error, never a panic (shorter values made the key-wrap library panic before the repair
c17-unwrap-length) -/
theorem C17_unwrap_rejects_other_lengths (E : BlockCipher) (kek ct : Bytes) (h : ct.length ≠ 24) : unwrapEnvelope E kek ct = err := by
  simp [unwrapEnvelope, h]

/-- without a KEK label (or without a KEK) the key is carried in clear -/
theorem C17_clear_without_label (E : BlockCipher) (kek key : Bytes) :
    newKeyEnvelope E false kek key = ok (false, key) ∧ newKeyEnvelope E true [] key = ok (false, key) := by
  constructor <;> simp [newKeyEnvelope]

/-! non-vacuity -/
example : (128200000 : Nat) < 2 ^ 32 := by decide
example : validKEK ((List.range 24).map byteOfNat) := by simp [validKEK]

end LW.C17
