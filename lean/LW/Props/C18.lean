/-
  C18 — application-layer package commands round-trip; multicast keys follow TS005.
  Model: LW.Model.App (mirror of applayer/{clocksync,multicastsetup,fragmentation,firmwaremanagement});
  "in-width" and "command of a package/direction": LW.Spec.App. All theorems are for every value (no bound).
-/
import LW.Proofs.App
import LW.Generated.AppRegistry
namespace LW.C18
open LW Outcome LW.App LW.Spec.App

def lookupGenerated (p : Pkg) (up : Bool) (cid : Nat) : Option AKind :=
  (Generated.appRegistry.find? (fun e => e.1 == p && e.2.1 == up && e.2.2.1 == cid)).map (·.2.2.2)

set_option maxRecDepth 100000 in
/-- the registry the theorems quantify over is the one dumped from the current source (all 4 x 2 x 256 keys) -/
theorem C18_registry_regenerated :
    ∀ p ∈ Pkg.all, ∀ up ∈ [true, false], ∀ cid ∈ List.range 256, registry p up cid = lookupGenerated p up cid := by
  decide

/-- size + round trip of a single payload: every in-width value encodes (no error) to exactly `Size()` bytes and decodes back
to itself, also when further bytes follow — except for the payloads that consume the rest of the buffer (DataFragment, by
specification) or insist on an exact length (three firmware-management requests), which must come last. -/
theorem C18_payload_roundtrip (v : AP) (h : inWidth v = true) (rest : Bytes) (ht : tailOK v rest) :
    ∃ b, v.enc = ok b ∧ b.length = v.size ∧ v.kind.dec (b ++ rest) = ok v :=
  dec_enc v h rest ht

/-- the same at `Command` level, for a command of package `p` in direction `up` (registry lookup included; a command the
package defines no payload for — PackageVersionReq, unknown CIDs — is the bare CID) -/
theorem C18_command_roundtrip (p : Pkg) (up : Bool) (c : ACmd) (h : cmdOK p up c = true) (rest : Bytes) (ht : cmdTailOK c rest) :
    ∃ b, c.enc = ok b ∧ b.length = c.size ∧ cmdDec p up (b ++ rest) = ok c :=
  cmd_rt p up c h rest ht

/-- sequence clause, proved part: any sequence of in-width commands of one package and direction, with DataFragment only last
(TS004 gives it no length) and with no exact-length firmware request before another command, encodes and decodes to itself.
The full clause (without `noExactBeforeLast`) is false of the code: see `C18_sequence_exact_length_counterexample`
(known finding c18-fw-exact-length-commands). -/
theorem C18_sequence_roundtrip_partial (p : Pkg) (up : Bool) (cs : List ACmd) (hok : seqOK p up cs = true)
    (hex : noExactBeforeLast cs = true) :
    ∃ b, cmdsEnc cs = ok b ∧ cmdsDec p up b = ok cs := by
  obtain ⟨b, he, hd⟩ := seq_rt p up cs hok hex
  exact ⟨b, he, hd b.length (Nat.le_refl _)⟩

/-- for the three packages other than firmware management the guard is vacuous: the sequence clause holds in full -/
theorem C18_sequence_roundtrip (p : Pkg) (hp : p ≠ .fw) (up : Bool) (cs : List ACmd) (hok : seqOK p up cs = true) :
    ∃ b, cmdsEnc cs = ok b ∧ cmdsDec p up b = ok cs := by
  apply C18_sequence_roundtrip_partial p up cs hok
  have key : ∀ c, cmdOK p up c = true → exactLength c.payload = false := by
    intro c hc
    obtain ⟨cid, pl⟩ := c
    cases pl with
    | none => rfl
    | some v =>
      unfold cmdOK at hc
      cases hreg : registry p up cid.toNat with
      | none => simp [hreg] at hc
      | some k =>
        simp only [hreg, Bool.and_eq_true, beq_iff_eq] at hc
        cases hx : exactLength (some v) with
        | false => rfl
        | true =>
          exfalso
          have hk := exact_kind v hx
          rw [hc.1] at hk
          have hp' : p ∈ [Pkg.cs, .mc, .fr] := by cases p <;> simp at hp ⊢
          have hup : up ∈ [true, false] := by cases up <;> simp
          have := registry_no_exact p hp' up hup cid.toNat (List.mem_range.mpr cid.isLt)
          rw [hreg] at this
          rcases hk with hk | hk | hk <;> simp [hk] at this
  simp only [seqOK, Bool.and_eq_true, List.all_eq_true] at hok
  have hall := hok.1
  clear hok
  induction cs with
  | nil => rfl
  | cons c r ih =>
    cases r with
    | nil => rfl
    | cons c' r' =>
      simp only [noExactBeforeLast, Bool.and_eq_true, Bool.not_eq_true']
      exact ⟨key c (hall c (by simp)), ih (fun x hx => hall x (by simp [hx]))⟩

/-- the negation witness for firmware management: DevVersionReq followed by DevRebootTimeReq is a sequence of in-width
downlink commands that encodes to 01 02 05 00 00 00 and is rejected by the decoder -/
theorem C18_sequence_exact_length_counterexample :
    let cs : List ACmd := [⟨1#8, some .devVersionReq⟩, ⟨2#8, some (.devRebootTimeReq 5)⟩]
    seqOK .fw false cs = true ∧ cmdsEnc cs = ok [1, 2, 5, 0, 0, 0] ∧ cmdsDec .fw false [1, 2, 5, 0, 0, 0] = err := by
  decide

/-- encoding never panics — for ANY value, in width or not (DevUpgradeImageAns with status 3 and no version was a nil
dereference before the repair recorded as c18-upgrade-image-ans-nil) -/
theorem C18_encode_never_panics (v : AP) : v.enc ≠ panic := enc_ne_panic v
theorem C18_sequence_encode_never_panics (cs : List ACmd) : cmdsEnc cs ≠ panic := cmdsEnc_ne_panic cs

/-- the stream decoder returns a value or an error on every input (its fuel is never exhausted) -/
theorem C18_sequence_decode_total (p : Pkg) (up : Bool) (data : Bytes) : cmdsDec p up data ≠ panic :=
  cmdsDecFuel_ne_panic p up data.length data (Nat.le_refl _)

/-- multicast keys: the code's derivations are the TS005 ones, for any block cipher, key and 4-byte address -/
theorem C18_keys (E : BlockCipher) (k a : Bytes) (ha : a.length = 4) :
    mcRootKeyForGenAppKey E k = Spec.App.mcRootKey10 E k ∧ mcRootKeyForAppKey E k = Spec.App.mcRootKey11 E k ∧
    App.mcKEKey E k = Spec.App.mcKEKey E k ∧ App.mcAppSKey E k a = Spec.App.mcAppSKey E k a ∧
    App.mcNetSKey E k a = Spec.App.mcNetSKey E k a := by
  match a, ha with
  | [a0, a1, a2, a3], _ => exact ⟨rfl, rfl, rfl, rfl, rfl⟩

/-! non-vacuity: the hypotheses are met by non-trivial values -/
example : inWidth (.mcClassBSessionReq 2 100 3 9 868100000 5) = true := by decide
example : cmdOK .mc false ⟨5#8, some (.mcClassBSessionReq 2 100 3 9 868100000 5)⟩ = true := by decide
example : seqOK .mc true [⟨1#8, some (.mcGroupStatusAns 3 ⟨true, false, true, false⟩ [(2, [1, 2, 3, 4]), (1, [10, 11, 12, 13])])⟩,
    ⟨4#8, some (.mcClassCSessionAns false false false 1 (some 16777215))⟩, ⟨0#8, some (.pkgVersionAns 2 1)⟩] = true := by decide
example : seqOK .fr false [⟨2#8, some (.fragSessionSetupReq 3 ⟨true, false, true, true⟩ 65535 255 7 7 255 [1, 2, 3, 4])⟩,
    ⟨8#8, some (.dataFragment 3 16383 [1, 2, 3])⟩] = true := by decide

end LW.C18
