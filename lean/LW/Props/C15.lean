/-
  C15 — channel-plan state machine, CFList and MAC-layer encodability of band outputs.
  State machine: `BandProofs.step` over {AddChannel(f,minDR,maxDR), Disable(i), Enable(i)} with ARBITRARY integer arguments;
  every theorem below is for all states / all histories of any length (the "~30" of the quantifier is only the harness bound).
-/
import LW.Proofs.Band
import LW.Proofs.FrameRT
import LW.Generated.BandData
import LW.Proofs.BandMasks
import LW.Proofs.MacRT
namespace LW.C15
open LW Outcome BandProofs

/-- After any history the channel list is the configuration's standard channels — frequency, data-rate range and custom flag
untouched, in order — followed by custom channels. (Standard channels are never altered; only their enabled flag can change.) -/
theorem C15_inv_reachable (c : BandCfg) (ops : List BandOp) : Inv c (run c.init ops) := inv_run c ops

theorem C15_inv_init (c : BandCfg) : Inv c c.init := inv_init c
theorem C15_inv_step (c : BandCfg) (b : BandState) (op : BandOp) (h : Inv c b) : Inv c (step b op) := inv_step c b op h

/-- enabled and disabled partition all channels; standard and custom partition all channels — in every state -/
theorem C15_partition_enabled (b : BandState) (i : Int) :
    (i ∈ b.allIdx ↔ (i ∈ b.enabledIdx ∨ i ∈ b.disabledIdx)) ∧ ¬ (i ∈ b.enabledIdx ∧ i ∈ b.disabledIdx) := partition_enabled b i
theorem C15_partition_custom (b : BandState) (i : Int) :
    (i ∈ b.allIdx ↔ (i ∈ b.stdIdx ∨ i ∈ b.customIdx)) ∧ ¬ (i ∈ b.stdIdx ∧ i ∈ b.customIdx) := partition_custom b i

/-- lookup by frequency returns an index whose channel has that frequency and the requested default/custom kind -/
theorem C15_lookup_freq (b : BandState) (f : Nat) (d : Bool) (i : Int) (h : b.getUplinkChannelIndex f d = ok i) :
    ∃ n : Nat, i = n ∧ ∃ ch, b.up[n]? = some ch ∧ ch.freq = f ∧ ch.custom = !d := lookup_freq_sound b f d i h

/-- lookup by frequency + data-rate returns an index whose channel has that frequency and a range containing the data-rate -/
theorem C15_lookup_freq_dr (b : BandState) (f : Nat) (dr : Int) (i : Int) (h : b.getUplinkChannelIndexForFrequencyDR f dr = ok i) :
    ∃ ch, 0 ≤ i ∧ b.up[i.toNat]? = some ch ∧ ch.freq = f ∧ ch.minDR ≤ dr ∧ dr ≤ ch.maxDR := lookup_freq_dr_sound b f dr i h

/-- out-of-range or negative indices (any integer) are reported as errors, never as panics -/
theorem C15_nopanic (b : BandState) (i : Int) (v : Bool) (f : Nat) (mn mx : Int) (d : Bool) :
    b.getUplinkChannel i ≠ panic ∧ b.getDownlinkChannel i ≠ panic ∧ b.setUplinkEnabled i v ≠ panic ∧
    b.addChannel f mn mx ≠ panic ∧ b.cfg.getTXPowerOffset i ≠ panic ∧ b.getUplinkChannelIndex f d ≠ panic :=
  ⟨getUplinkChannel_total b i, getDownlinkChannel_total b i, setEnabled_total b i v, addChannel_total b f mn mx,
   txPower_total b.cfg i, lookup_total b f d⟩

/-- the channel-list CFList contains only custom channels' frequencies (zero padded), exactly five entries, type 0 -/
theorem C15_cflist_channels (b : BandState) (l : CFList) (h : b.cfListChannels = some l) :
    ∃ fs, l.payload = .channels fs ∧ fs.length = 5 ∧ l.typ = 0 ∧
      ∀ f ∈ fs, f = 0 ∨ ∃ ch ∈ b.up, ch.custom = true ∧ f = BitVec.ofNat 32 ch.freq := cflist_channels_custom b l h

/-- the channel-mask CFList (US915, AU915, CN470 style bands) is exactly the enabled channels: type 1, and bit i of mask j is set
iff uplink channel 16·j + i is enabled, for every channel of the plan after any history -/
theorem C15_cflist_masks (b : BandState) (l : CFList) (h : b.cfListMasks = some l) :
    l.typ = 1 ∧ ∃ ms, l.payload = .masks ms ∧
      ∀ j i, i < 16 → 16 * j + i < b.up.length →
        ∃ m, ms[j]? = some m ∧ m.getLsbD i = (b.up.getD (16 * j + i) default).enabled :=
  BandMasks.cflist_masks_exact b l h

/-- MAC-layer encodability: a channel-list CFList whose frequencies are multiples of 100 Hz below 2^24·100 Hz is accepted by
the join-accept encoder. (ISM2400 frequencies violate the hypothesis: known finding c15-ism2400-frequencies-not-encodable.) -/
theorem C15_cflist_encodable_partial (fs : List (BitVec 32)) (h : fs.all (fun f => (Spec.freqCode f).isSome) = true) :
    ∃ bs, ({ payload := .channels fs, typ := 0 } : CFList).enc = ok bs := by
  obtain ⟨b, hb⟩ := FrameRT.cfChannelsEnc_ok fs h
  exact ⟨_, by simp only [CFList.enc, CFListP.enc, hb, Outcome.ok_bind]; rfl⟩

/-- MAC-layer encodability of reported channels: every channel whose frequency lies on the grid the specification gives
NewChannelReq (multiples of 100 Hz below 2.4 GHz with code < 12 000 000, multiples of 200 Hz from 2.4 GHz upwards — the ISM2400
channels included) and whose data-rates fit their 4-bit fields is encoded by NewChannelReq, in exactly five bytes, and decodes back
to the same index, frequency and data-rate range. (Run-time counterpart: the `chanmac` op on every channel a band reports.) -/
theorem C15_newchannelreq_carries (ch : Byte) (f : BitVec 32) (mx mn : Byte)
    (hf : (Spec.freqCodeNC f).isSome = true) (hmx : mx.toNat < 16) (hmn : mn.toNat < 16) :
    ∃ bs, (MacP.newChannelReq ch f mx mn).enc = ok bs ∧ bs.length = 5 ∧
      Kind.dec0 .newChannelReq bs = ok (.newChannelReq ch f mx mn) := by
  have hacc : (MacP.newChannelReq ch f mx mn).enc.isOk = true := by
    apply MacRT.accepts
    cases hc : Spec.freqCodeNC f with
    | none => rw [hc] at hf; cases hf
    | some c => simp [Spec.toFields, hc, Spec.lt, hmx, hmn]
  cases he : (MacP.newChannelReq ch f mx mn).enc with
  | ok bs =>
    have hd := MacRT.lossless _ bs he
    refine ⟨bs, rfl, ?_, hd⟩
    simp only [MacP.kind, Kind.dec0, Kind.dec] at hd
    split at hd <;> simp_all
  | err => rw [he] at hacc; cases hacc
  | panic => rw [he] at hacc; cases hacc

/-- non-vacuity: an ISM2400 frequency that is an odd multiple of 200 Hz, and a sub-GHz one -/
example : (Spec.freqCodeNC 2403000200#32).isSome = true ∧ (Spec.freqCodeNC 868100000#32).isSome = true := by decide
example : (MacP.newChannelReq 3 2403000200#32 7 0).enc = ok [3, 0x99, 0x55, 0xb7, 0x70] := by decide

/-- witness of the known finding: a 2.4 GHz frequency is refused by the CFList encoder -/
theorem C15_ism2400_witness : ({ payload := .channels [2403200000#32, 0, 0, 0, 0], typ := 0 } : CFList).enc = err := by decide

/-! non-vacuity: a reachable non-trivial state -/
example : (run (Generated.allConfigs.headD default).init [.add 867100000 0 5, .disable 1, .enable 7, .disable (-3)]).up.length = 4 := by decide

end LW.C15
