/-
  C01 — frame encode/decode round trip for every message type.
  `Spec.frameValid` is the explicit, decidable "spec-valid frame" predicate; `Spec.wire` is the stated notion of equality
  after the wire (FCnt mod 2^16, FOpts/FRMPayload as the bytes they carry, shared FPending/ClassB bit).
  A join-accept travels encrypted: `C01_roundtrip` covers the frame with its opaque payload, `C01_joinaccept_roundtrip` the
  payload itself (and C04 the encryption between the two).
-/
import LW.Proofs.FrameRT
import LW.Proofs.Stream
import LW.Proofs.JoinAcceptRT
import LW.Proofs.Base64
namespace LW.C01
open LW Outcome

/-- Encoding then decoding yields the original frame (as seen over the wire), for every frame of the right shape that the
encoder accepts: all 8 MTypes, any flags, any FOpts ≤ 15 bytes, FPort absent/0/1..255, FRMPayload of any length. -/
theorem C01_roundtrip (f : PHY) (bs : Bytes) (henc : f.enc = ok bs) (hs : Spec.shapeOK f = true) :
    PHY.dec bs = ok (Spec.wire f) :=
  FrameRT.phy_enc_dec f bs henc hs

/-- A value the specification allows (explicit decidable predicate `Spec.frameValid`) is never refused by the encoder;
contrapositive: a value the encoder refuses is never one the specification allows. -/
theorem C01_encode_total (f : PHY) (hv : Spec.frameValid f = true) : ∃ bs, f.enc = ok bs :=
  FrameRT.encode_total f hv

/-- the two together: every spec-valid frame encodes, and decodes back to itself -/
theorem C01_valid_roundtrip (f : PHY) (hv : Spec.frameValid f = true) : ∃ bs, f.enc = ok bs ∧ PHY.dec bs = ok (Spec.wire f) := by
  obtain ⟨bs, h⟩ := C01_encode_total f hv
  have hs : Spec.shapeOK f = true := by
    simp only [Spec.frameValid, Bool.and_eq_true] at hv; exact hv.1
  exact ⟨bs, h, C01_roundtrip f bs h hs⟩

/-- the text form: `MarshalText` = base64 (StdEncoding) of `MarshalBinary`, `UnmarshalText` = `UnmarshalBinary` of the
decoded text (driver ops `phytextenc` / `phytextdec`).  For every spec-valid frame the text exists and decodes to the
original frame; the base64 layer is lossless for every byte string. -/
theorem C01_text_roundtrip (f : PHY) (hv : Spec.frameValid f = true) :
    ∃ bs, f.enc = ok bs ∧ (Base64.decode (Base64.encode bs)).map PHY.dec = some (ok (Spec.wire f)) := by
  obtain ⟨bs, h, hd⟩ := C01_valid_roundtrip f hv
  exact ⟨bs, h, by rw [Base64.decode_encode]; simp [hd]⟩

theorem C01_base64 (bs : Bytes) : Base64.decode (Base64.encode bs) = some bs := Base64.decode_encode bs

/-- "compared as the MAC commands they carry": the opaque FOpts / port-0 FRMPayload bytes of the decoded frame decode
(C07 stream theorem, any registry) into exactly the commands the sender put in. -/
theorem C01_commands (reg : Registry) (up : Bool) (cmds : List MacCmd) (bs : Bytes)
    (hw : ∀ c ∈ cmds, Stream.WellFramed reg up c) (he : encodeCmds cmds = ok bs) :
    decodeStream reg up bs = ok (cmds.map Stream.normCmd) :=
  Stream.stream_rt reg up cmds bs hw he

/-- join-accept payload (what the device sees after decryption): every value the encoder accepts — CFList absent, five channel
frequencies, or canonical channel masks (at most six, no trailing all-zero mask, which the wire cannot distinguish from
padding) — decodes to itself -/
theorem C01_joinaccept_roundtrip (ja : JoinAccept) (b : Bytes) (hcf : ∀ l, ja.cfList = some l → FrameRT.cfListCanonical l = true)
    (h : ja.enc = ok b) : JoinAccept.dec {} b = ok ja :=
  FrameRT.joinaccept_rt ja b hcf h

/-- CFList alone: 16 bytes that decode to the same list -/
theorem C01_cflist_roundtrip (l : CFList) (b : Bytes) (hc : FrameRT.cfListCanonical l = true) (h : l.enc = ok b) :
    b.length = 16 ∧ CFList.dec b = ok l :=
  FrameRT.cflist_rt l b hc h

/-! non-vacuity -/
example : FrameRT.cfListCanonical { payload := .masks [0x00ff, 0, 0x0001], typ := 1 } = true := by decide
example : FrameRT.cfListCanonical { payload := .channels [868100000, 868300000, 0, 0, 0], typ := 0 } = true := by decide
def sampleFHDR : FHDR := { devAddr := 0x01020304#32, fCnt := 0x10007#32, fOpts := [.cmd { cid := 2, payload := none }] }
def sampleFrame : PHY := { mtype := 2, major := 0, mic := [1, 2, 3, 4], payload := some (.mac sampleFHDR (some 1) [.data [0xaa, 0xbb]]) }
example : Spec.shapeOK sampleFrame = true := by decide
example : Spec.frameValid sampleFrame = true := by decide

end LW.C01
