/-
  C20 — GPS-time conversion, airtime and EIRP coding helpers match their definitions.
  GPS: instants and durations are integer nanoseconds (any integer — no 1980..2100 bound); the leap table and the GPS epoch are
  REGENERATED from /repo through the gps hook. Airtime: the float64 expression of the code is modelled exactly.
-/
import LW.Proofs.Misc
namespace LW.C20
open LW Outcome MiscProofs

/-- UTC → time-since-GPS-epoch → UTC returns the same instant: for EVERY instant and ANY sorted leap table
(appending a future leap second cannot break it) -/
theorem C20_gps_roundtrip (tbl : LeapTable) (hs : Sorted tbl.entries) (t : Int) : fromGPS tbl (toGPS tbl t) = t :=
  gps_roundtrip tbl hs t

/-- the mapping is strictly increasing -/
theorem C20_gps_strict_mono (tbl : LeapTable) (hs : Sorted tbl.entries) (t1 t2 : Int) (h : t1 < t2) : toGPS tbl t1 < toGPS tbl t2 :=
  gps_strict_mono tbl hs t1 t2 h

/-- GPS duration → UTC → GPS duration is the identity except for durations inside an inserted leap second -/
theorem C20_gps_inverse (tbl : LeapTable) (hs : SortedGap tbl.entries) (d : Int) (hd : ¬ inLeapSecond tbl d) :
    toGPS tbl (fromGPS tbl d) = d :=
  gps_inverse tbl hs d hd

/-- the regenerated table satisfies the hypotheses of the three theorems above … -/
theorem C20_generated_table_ok : Sorted Generated.leapTable.entries ∧ SortedGap Generated.leapTable.entries :=
  ⟨sortedB_sound _ generated_sorted, sortedGapB_sound _ generated_sortedGap⟩

/-- … and is the published one (IERS dates, one second each, epoch 1980-01-06), so that for EVERY instant the offset applied
equals the published GPS − UTC leap-second count (this was false inside the last UTC second of each leap day before the
repair recorded as c20-gps-leap-boundary) -/
theorem C20_gps_offset (t : Int) : toGPS Generated.leapTable t = t - Spec.gpsEpoch + (Spec.gpsUtcOffset t : Int) * nsPerSec :=
  gps_offset t

/-- airtime bridge: the code's `math.Ceil(a/b)` on float64 equals the exact ⌈a/b⌉ on the property's whole domain
(payload 0..255 × SF 5..12 × header × low-data-rate optimisation) — kernel evaluation of the exact binary64 model -/
theorem C20_ceil_exact : ∀ (pl : Fin 256) (s : Fin 8) (header ldro : Bool),
    fdivCeil (abOf pl.val (s.val + 5) header ldro).1 (abOf pl.val (s.val + 5) header ldro).2 =
    Spec.ceilDiv (abOf pl.val (s.val + 5) header ldro).1 (abOf pl.val (s.val + 5) header ldro).2 := ceil_exact

/-- hence the payload-symbol count is the Semtech AN1200.13 formula for all coding rates on that domain … -/
theorem C20_airtime_formula (pl : Fin 256) (s : Fin 8) (cr : Int) (hcr : 1 ≤ cr ∧ cr ≤ 4) (header ldro : Bool) :
    payloadSymbols pl.val (s.val + 5) cr header ldro = ok (Spec.nPayload pl.val (s.val + 5) cr header ldro) :=
  paysym_formula pl s cr hcr header ldro

/-- … and the whole time on air is the formula with the fixed-point floors, for every bandwidth and preamble length -/
theorem C20_airtime_total (pl : Fin 256) (s : Fin 8) (bw pre cr : Int) (hcr : 1 ≤ cr ∧ cr ≤ 4) (hbw : 0 < bw) (hpre : 0 ≤ pre) (header ldro : Bool) :
    airtime pl.val (s.val + 5) bw pre cr header ldro = ok (Spec.timeOnAir pl.val (s.val + 5) bw pre cr header ldro) := by
  have hs := s.isLt
  have h1 : ¬ (bw == 0) = true := by simp; omega
  have h2 : ¬ ((((s.val : Nat) : Int) + 5 < 0) ∨ (((s.val : Nat) : Int) + 5 > 40)) := by omega
  simp only [airtime, symbolDuration, h1, if_false, h2, Outcome.ok_bind, C20_airtime_formula pl s cr hcr header ldro,
    preambleDuration, Spec.timeOnAir, Bool.false_eq_true]
  have hp : (0 : Int) ≤ 2 ^ (((s.val : Nat) : Int) + 5).toNat := Int.pow_nonneg (by decide)
  have e1 : Int.tdiv (2 ^ (((s.val : Nat) : Int) + 5).toNat * 1000000) bw = (2 ^ (((s.val : Nat) : Int) + 5).toNat * 1000000 : Int) / bw :=
    Int.tdiv_eq_ediv_of_nonneg (by omega)
  rw [e1]
  have ht : 0 ≤ (2 ^ (((s.val : Nat) : Int) + 5).toNat * 1000000 : Int) / bw := Int.ediv_nonneg (by omega) (by omega)
  generalize (2 ^ (((s.val : Nat) : Int) + 5).toNat * 1000000 : Int) / bw = tsym at ht
  have e2 : Int.tdiv ((100 * pre + 425) * tsym) 100 = (100 * pre + 425) * tsym / 100 :=
    Int.tdiv_eq_ediv_of_nonneg (Int.mul_nonneg (by omega) ht)
  rw [e2]

/-- time on air never decreases with the payload size — for ALL payload sizes and parameters (integer formula) -/
theorem C20_airtime_mono (pl pl' sf bw preamble cr : Int) (header ldro : Bool) (h : pl ≤ pl')
    (hsf : 0 < sf - 2 * (if ldro then 1 else 0)) (hcr : 0 ≤ cr) (hbw : 0 < bw) :
    Spec.timeOnAir pl sf bw preamble cr header ldro ≤ Spec.timeOnAir pl' sf bw preamble cr header ldro :=
  timeOnAir_mono pl pl' sf bw preamble cr header ldro h hsf hcr hbw

/-- EIRP: the regenerated table is the specification's and strictly increasing … -/
theorem C20_eirp_table : Generated.eirpTable = Spec.eirpTable ∧ strictInc Generated.eirpTable = true := generated_eirp

/-- … and for every float32 x (given by its bits, exact rational comparison) that is not below the first entry, the index chosen
is the largest table entry not exceeding x, and decodes to that entry -/
theorem C20_eirp (x : F32) (h0 : natGtF32 8 x = false) :
    let idx := eirpIndex Generated.eirpTable x
    idx < 16 ∧ natGtF32 (Generated.eirpTable.getD idx 0) x = false ∧
      (∀ j, j < 16 → natGtF32 (Generated.eirpTable.getD j 0) x = false → Generated.eirpTable.getD j 0 ≤ Generated.eirpTable.getD idx 0) ∧
      eirpOfIndex Generated.eirpTable idx = ok (Generated.eirpTable.getD idx 0) := by
  have hne : Generated.eirpTable ≠ [] := by decide
  have h0' : natGtF32 (Generated.eirpTable.getD 0 0) x = false := h0
  obtain ⟨a, b, c⟩ := eirp_largest Generated.eirpTable x generated_eirp.2 hne h0'
  exact ⟨a, b, c, eirp_decode Generated.eirpTable x generated_eirp.2 hne h0'⟩

/-! non-vacuity -/
example : toGPS Generated.leapTable 1483228799500000000 = 1167264016500000000 := by decide   -- 2016-12-31T23:59:59.5Z: offset 17
example : natGtF32 8 (f32OfBits 0x41a80000) = false ∧ eirpIndex Generated.eirpTable (f32OfBits 0x41a80000) = 8 := by decide  -- 21.0 dBm

end LW.C20
