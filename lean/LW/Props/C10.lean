/-
  C10 — isolation: no aliasing of caller buffers, no hidden shared state, race-free.
  What a pure model can carry, and what it cannot:
  * memory outside the slice given to EncryptFRMPayload: LW.Model.Slice models a Go slice with spare capacity and Go's append;
    C10_encryptfrm_memory is the clause for the repaired code, C10_old_code_wrote_spare_capacity states the repaired defect;
  * decoding into a used value: the model's decoders take the previous value of the receiver; the theorems state that no field of the
    result depends on it (every field is assigned from the input);
  * aliasing between decoded values / encoded output and caller buffers, band instances, data races: these are properties of Go's
    memory and scheduler. The model's functions are pure, so the model says "no aliasing" by construction; the harness OBSERVES the
    implementation (overwrite-and-look-again, canaries, two band instances, the race detector) and any observation other than
    `same` / `clean` is a violation. That part is testing, labelled as such (PARTIAL).
-/
import LW.Model.Slice
import LW.Proofs.CryptoSpec
import LW.Model.App
namespace LW.C10
open LW Outcome LW.Slice

theorem encFRM_length (E : BlockCipher) (hE : E.Lawful) (key : Bytes) (up : Bool) (addr fcnt : BitVec 32) (data : Bytes) :
    (encryptFRMPayload E key up addr fcnt data).length = data.length := by
  rw [CryptoSpec.frm_spec E hE, CryptoSpec.cryptFRM_length E hE]

/-- EncryptFRMPayload never modifies memory outside the slice it was given: whatever the spare capacity behind the slice holds,
it holds the same afterwards, and the backing array keeps its size -/
theorem C10_encryptfrm_memory (E : BlockCipher) (hE : E.Lawful) (key : Bytes) (up : Bool) (addr fcnt : BitVec 32) (s : GoSlice) (hs : s.len ≤ s.arr.length) :
    ((encryptFRMPayloadMem E key up addr fcnt s).2).drop s.len = s.arr.drop s.len ∧
    ((encryptFRMPayloadMem E key up addr fcnt s).2).length = s.arr.length ∧
    (encryptFRMPayloadMem E key up addr fcnt s).1 = encryptFRMPayload E key up addr fcnt s.bytes := by
  have hl : (encryptFRMPayload E key up addr fcnt s.bytes).length = s.len := by
    rw [encFRM_length E hE]; simp [GoSlice.bytes]; omega
  unfold encryptFRMPayloadMem
  by_cases h : s.len % 16 = 0
  · simp only [h, if_true, overwrite, hl]
    refine ⟨?_, ?_, trivial⟩
    · rw [List.drop_append_of_le_length (by omega)]
      have : (encryptFRMPayload E key up addr fcnt s.bytes).drop s.len = [] := List.drop_eq_nil_of_le (by omega)
      rw [this]; simp
    · simp [hl]; omega
  · simp only [h, if_false]
    exact ⟨trivial, trivial, trivial⟩

/-- EncryptFOpts (the other exported encryption function) transforms its argument in place and touches nothing behind it; more
than 15 bytes are refused without touching anything -/
theorem C10_encryptfopts_memory (E : BlockCipher) (hE : E.Lawful) (key : Bytes) (af up : Bool) (addr fcnt : BitVec 32) (s : GoSlice) (hs : s.len ≤ s.arr.length) :
    ((encryptFOptsMem E key af up addr fcnt s).2).drop s.len = s.arr.drop s.len ∧
    ((encryptFOptsMem E key af up addr fcnt s).2).length = s.arr.length ∧
    (encryptFOptsMem E key af up addr fcnt s).1 = LW.encryptFOpts E key af up addr fcnt s.bytes := by
  have hb : s.bytes.length = s.len := by simp [GoSlice.bytes]; omega
  unfold encryptFOptsMem
  rw [CryptoSpec.fopts_spec]
  by_cases h : s.bytes.length > 15
  · simp only [h, if_true]; exact ⟨trivial, trivial, trivial⟩
  · simp only [h, if_false]
    have hl : (Spec.cryptFOpts E key af up addr fcnt s.bytes).length = s.len := by
      rw [CryptoSpec.cryptFOpts_length E hE _ _ _ _ _ _ (by omega), hb]
    refine ⟨?_, ?_, trivial⟩
    · simp only [overwrite, hl]
      rw [List.drop_append_of_le_length (by omega)]
      have : (Spec.cryptFOpts E key af up addr fcnt s.bytes).drop s.len = [] := List.drop_eq_nil_of_le (by omega)
      rw [this]; simp
    · simp [overwrite, hl]; omega

/-- the defect that was repaired, stated on the model of the old code: with enough spare capacity behind a non block-aligned
slice the caller's array afterwards starts with the ciphertext of the PADDED payload, i.e. the `16 - len % 16` bytes after the
slice have been replaced by key-stream bytes -/
theorem C10_old_code_wrote_spare_capacity (E : BlockCipher) (key : Bytes) (up : Bool) (addr fcnt : BitVec 32) (s : GoSlice)
    (h : s.len % 16 ≠ 0) (hcap : s.len + (16 - s.len % 16) ≤ s.arr.length) :
    (encryptFRMPayloadMemOld E key up addr fcnt s).2 =
      overwrite (s.arr.take s.len ++ zeros (16 - s.len % 16) ++ s.arr.drop (s.len + (16 - s.len % 16)))
        (encryptFRMPayload E key up addr fcnt (s.arr.take s.len ++ zeros (16 - s.len % 16))) := by
  have hz : (zeros (16 - s.len % 16)).length = 16 - s.len % 16 := by simp [zeros]
  have hfit : s.len + (zeros (16 - s.len % 16)).length ≤ s.arr.length := by rw [hz]; exact hcap
  have hlt : (s.arr.take s.len).length = s.len := by simp; omega
  simp only [encryptFRMPayloadMemOld, if_neg h, goAppend, if_pos hfit, hz, if_pos hcap, GoSlice.bytes]
  congr 2
  exact List.take_left' (by rw [List.length_append, hlt, hz])

/-! ### decoding into a used value = decoding into a fresh one (the receiver-passing decoders of the model) -/

theorem C10_mac_payload_receiver_independent (k : Kind) (prev : MacP) (data : Bytes) : k.dec prev data = k.dec0 data := by
  unfold Kind.dec0 Kind.dec
  rfl

theorem C10_chmask_receiver_independent (prev : BitVec 16) (data : Bytes) : chMaskDec prev data = chMaskDec 0 data := rfl

theorem C10_fhdr_receiver_independent (prev : FHDR) (data : Bytes) : FHDR.dec prev data = FHDR.dec {} data := rfl

theorem C10_macpayload_receiver_independent (ph : FHDR) (pp : Option Byte) (pf : List Item) (data : Bytes) :
    macDec ph pp pf data = macDec {} none [] data := rfl

theorem C10_joinaccept_receiver_independent (prev : JoinAccept) (data : Bytes) : JoinAccept.dec prev data = JoinAccept.dec {} data := rfl

theorem C10_cflist_receiver_independent (p1 : List (BitVec 32)) (p2 : List (BitVec 16)) (data : Bytes) :
    cfChannelsDec p1 data = cfChannelsDec (List.replicate 5 0) data ∧ cfMasksDec p2 data = cfMasksDec [] data := ⟨rfl, rfl⟩
end LW.C10
