/-
  C04 — join / rejoin / join-accept MICs and join-accept encryption follow the specification.
  For every block cipher; `Lawful` (enc/dec inverse on 16-byte blocks, 16-byte outputs) only where decryption is involved.
-/
import LW.Proofs.CryptoSpec
import LW.Proofs.JoinAcceptRT
namespace LW.C04
open LW Outcome

/-- join-request and rejoin-request (types 0, 1, 2): MIC = cmac(key, MHDR | payload)[0..3] -/
theorem C04_join_mic (E : BlockCipher) (key : Bytes) (p : PHY) (pl : MacPL) (b : Bytes)
    (hp : p.payload = some pl) (hb : pl.enc = ok b) :
    calcUplinkJoinMIC E key p = ok (Spec.micJoin E key (mhdrEnc p.mtype p.major) b) :=
  CryptoSpec.join_mic_spec E key p pl b hp hb

/-- join-accept: 1.0 form over MHDR | payload, or with OptNeg the 1.1 form additionally covering JoinReqType | JoinEUI(LE) | DevNonce(LE) -/
theorem C04_ja_mic (E : BlockCipher) (jt : Byte) (eui : BitVec 64) (dn : BitVec 16) (key : Bytes) (p : PHY) (ja : JoinAccept) (b : Bytes)
    (hp : p.payload = some (.joinAccept ja)) (hb : ja.enc = ok b) :
    calcDownlinkJoinMIC E jt eui dn key p = ok (Spec.micJoinAccept E key ja.optNeg jt eui dn (mhdrEnc p.mtype p.major) b) :=
  CryptoSpec.ja_mic_spec E jt eui dn key p ja b hp hb

/-- the ciphertext is exactly the specification's: aes128_decrypt in ECB over payload | MIC -/
theorem C04_ja_encrypt (E : BlockCipher) (key : Bytes) (p : PHY) (ja : JoinAccept) (b : Bytes)
    (hp : p.payload = some (.joinAccept ja)) (hb : ja.enc = ok b) (hm : p.mic.length = 4) (hl : (b ++ p.mic).length % 16 = 0) :
    p.encryptJA E key =
      ok { p with payload := some (.data ((Spec.encryptJoinAccept E key (b ++ p.mic)).take ((Spec.encryptJoinAccept E key (b ++ p.mic)).length - 4))),
                  mic := (Spec.encryptJoinAccept E key (b ++ p.mic)).drop ((Spec.encryptJoinAccept E key (b ++ p.mic)).length - 4) } :=
  CryptoSpec.ja_encrypt_spec E key p ja b hp hb hm hl

/-- a device applying aes128_encrypt block-wise recovers payload | MIC (12+4 and 28+4 bytes are the multiples of 16) -/
theorem C04_ja_device (E : BlockCipher) (hE : E.Lawful) (key : Bytes) (pm : Bytes) (hl : pm.length % 16 = 0) :
    Spec.deviceDecryptJoinAccept E key (Spec.encryptJoinAccept E key pm) = pm :=
  CryptoSpec.ja_device E hE key pm hl

/-- the two join-accept sizes -/
theorem C04_ja_sizes (ja : JoinAccept) (b : Bytes) (h : ja.enc = ok b) :
    (ja.cfList = none → b.length = 12) ∧ (ja.cfList ≠ none → b.length = 28) := by
  simp only [JoinAccept.enc] at h
  split at h <;> try contradiction
  split at h <;> try contradiction
  cases hd : dlSettingsEnc ja.optNeg ja.rx2dr ja.rx1off with
  | err => rw [hd] at h; contradiction
  | panic => rw [hd] at h; contradiction
  | ok d =>
    rw [hd] at h
    simp only [Outcome.ok_bind] at h
    cases hc : ja.cfList with
    | none => rw [hc] at h; cases MacRT.ok_inj h; simp
    | some l =>
      rw [hc] at h
      simp only at h
      cases hl : l.enc with
      | err => rw [hl] at h; contradiction
      | panic => rw [hl] at h; contradiction
      | ok c =>
        rw [hl] at h
        cases MacRT.ok_inj h
        have : c.length = 16 := by
          simp only [CFList.enc] at hl
          cases hp : l.payload.enc with
          | err => rw [hp] at hl; contradiction
          | panic => rw [hp] at hl; contradiction
          | ok x =>
            rw [hp] at hl
            cases MacRT.ok_inj hl
            simp [zeros]
        simp [this]

/-- the whole round trip at the library's own level: EncryptJoinAcceptPayload followed by DecryptJoinAcceptPayload with the same key
gives back the frame — payload decoded to the same JoinAcceptPayload (CFList absent or canonical), MIC restored -/
theorem C04_ja_encrypt_decrypt (E : BlockCipher) (hE : E.Lawful) (key : Bytes) (p q : PHY) (ja : JoinAccept)
    (hp : p.payload = some (.joinAccept ja)) (hcf : ∀ l, ja.cfList = some l → FrameRT.cfListCanonical l = true) (hm : p.mic.length = 4)
    (henc : p.encryptJA E key = ok q) : q.decryptJA E key = ok p :=
  FrameRT.ja_encrypt_decrypt E hE key p q ja hp hcf hm henc

end LW.C04
