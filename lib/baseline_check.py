#!/usr/bin/env python3
"""Run /repo's test-suite (guard off) and compare with /root/.vp/BASELINE.json's stable_pass list."""
import json, subprocess, sys, os
base = json.load(open('/root/.vp/BASELINE.json'))
want = set(base['stable_pass'])
env = dict(os.environ, GOFLAGS='-mod=mod', GOPROXY='off', GOSUMDB='off')
p = subprocess.run(['go', 'test', '-json', '-vet=off', '-count=1', '-timeout', '25m', './...'], cwd='/repo', env=env, capture_output=True, text=True)
passed = set()
for line in p.stdout.splitlines():
    try:
        e = json.loads(line)
    except Exception:
        continue
    if e.get('Action') == 'pass' and e.get('Test'):
        passed.add(e['Package'] + '::' + e['Test'])
missing = sorted(want - passed)
print(f"stable_pass={len(want)} passed_now={len(passed & want)} missing={len(missing)}")
for m in missing[:20]:
    print("  MISSING", m)
sys.exit(1 if missing else 0)
