#!/usr/bin/env python3
"""Regenerate MANIFEST.json from lib/props.py (claimed checks) and properties.jsonl (everything else -> not_applicable)."""
import json, os, sys
sys.path.insert(0, os.path.dirname(os.path.abspath(__file__)))
from props import PROPS, MANIFEST_TEXT
ROOT = os.path.dirname(os.path.dirname(os.path.abspath(__file__)))
ids = [json.loads(l)['id'] for l in open(os.path.join(ROOT, 'properties.jsonl'))]
base = json.load(open('/root/.vp/BASELINE.json')) if os.path.exists('/root/.vp/BASELINE.json') else None
old = json.load(open(os.path.join(ROOT, 'MANIFEST.json')))
hooks = old['hooks']
if base:
    hooks['baseline_off_cmd'] = base['cmd']
checks = []
for i in ids:
    if i in PROPS and i in MANIFEST_TEXT:
        t = MANIFEST_TEXT[i]
        checks.append({
            'property_id': i,
            'quick_cmd': f'./check {i} --tier quick',
            'thorough_cmd': f'./check {i} --tier thorough',
            'evidence_file': f'evidence/{i}.json',
            'replay_cmd_template': f'./check {i} --replay {{path}}',
            'engine': 'lean4+go-differential',
            'level_claimed': {'category': 'proof', 'text': t['text'], 'design_ref': t.get('design_ref', 'DESIGN.md section 6, ' + i)},
            'level_note': t['note'],
            'technique': t['technique'],
        })
na = [{'property_id': i, 'reason': 'check not built yet (work in progress; DESIGN.md section 6 has the plan)'} for i in ids if not (i in PROPS and i in MANIFEST_TEXT)]
m = {'version': 1, 'setup_cmd': './setup.sh', 'hooks': hooks,
     'engines': [{'name': 'lean4+go-differential', 'path': 'lean/', 'serves_properties': [c['property_id'] for c in checks],
                  'kind_free_text': 'Lean 4 model + specification + theorems (lean/LW); Go harness calling the real code in-process (harness/); compiled Lean driver compared over a line protocol; data tables regenerated from /repo into lean/LW/Generated on every run'}],
     'checks': checks,
     'notes': 'See DESIGN.md. Every check: go build -tags verif against /repo working tree -> regenerate lean/LW/Generated -> lake build of the property theorems + #print axioms audit -> ops on the real code -> Lean driver (model result + spec verdict) -> verdict + evidence.',
     'not_applicable': na}
json.dump(m, open(os.path.join(ROOT, 'MANIFEST.json'), 'w'), indent=1)
print('claimed:', [c['property_id'] for c in checks])
