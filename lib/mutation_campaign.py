#!/usr/bin/env python3
"""Mutation campaign (tooling for DESIGN.md section 12, not part of any check).

For a sample of small source mutations of /repo (tools/mutgen) that still compile and still pass the repository's own
tests, run the quick-tier generators + corpus of all twenty properties through the harness built against the mutated
copy and compare the implementation's results with those of the unchanged tree.  Because the Lean model agrees with the
unchanged tree on exactly these operations (that is what ./check verifies), any difference is a model / implementation
disagreement that ./check would report.  Survivors (no difference anywhere) are listed for inspection.

usage: mutation_campaign.py <out.jsonl> [--workers N] [--sample spec] [--seed S] [--survivors-of earlier.jsonl] [--exclude-done earlier.jsonl]
Scratch copies live under /tmp/mc and are removed at the end."""
import json, os, random, shutil, subprocess, sys, time, multiprocessing, glob, hashlib

ROOT = os.path.dirname(os.path.dirname(os.path.abspath(__file__)))
PROPS = [f'C{i:02d}' for i in range(1, 21)]
ENV = dict(os.environ, GOFLAGS='-mod=mod', GOPROXY='off', GOSUMDB='off', GOTOOLCHAIN='local', CGO_ENABLED='0', GOMEMLIMIT='2GiB')
MC = '/tmp/mc'
ENV['GOCACHE'] = MC + '/gocache'   # not the user's cache: every mutant adds objects to it (135 GB after 12 000 mutants); removed at the end (≈ 11 MB per mutant)
SKIP_FILES = ('_string.go', 'backend/client.go', 'sensitivity/', 'doc.go')


def sh(cmd, cwd=None, timeout=600, inp=None, env=None):
    try:
        p = subprocess.run(cmd, cwd=cwd, env=env or ENV, capture_output=True, text=True, timeout=timeout, input=inp, shell=isinstance(cmd, str))
        return p.returncode, p.stdout + p.stderr
    except subprocess.TimeoutExpired:
        return 124, 'TIMEOUT'


def setup_worker(w):
    d = f'{MC}/{w}'
    shutil.rmtree(d, ignore_errors=True)
    os.makedirs(d + '/repo')
    subprocess.run(f'git -C /repo archive HEAD | tar -x -C {d}/repo', shell=True, check=True)
    shutil.copytree(ROOT + '/harness', d + '/harness')
    gm = open(d + '/harness/go.mod').read().replace('=> /repo', f'=> {d}/repo')
    open(d + '/harness/go.mod', 'w').write(gm)
    shutil.copy(d + '/repo/go.sum', d + '/harness/go.sum')
    return d


def run_ops(d):
    """outputs of gen|exec (+ corpus) per property; None on build failure"""
    rc, out = sh(['go', 'build', '-tags', 'verif', '-o', d + '/lwharness', '.'], cwd=d + '/harness')
    if rc != 0:
        return None, out
    res = {}
    for p in PROPS:
        corpus = ''
        for f in sorted(glob.glob(f'{ROOT}/corpus/{p}/*.ops')):
            corpus += open(f).read() + '\n'
        try:
            g = subprocess.run([d + '/lwharness', 'gen', p, 'quick', '1'], env=ENV, capture_output=True, text=True, timeout=300)
            e = subprocess.run([d + '/lwharness', 'exec'], env=ENV, capture_output=True, text=True, timeout=300, input=corpus + g.stdout)
            res[p] = e.stdout if e.returncode == 0 else e.stdout + f'\nEXIT {e.returncode}'
        except subprocess.TimeoutExpired:
            res[p] = 'TIMEOUT'
    return res, ''


def apply(d, m):
    p = f"{d}/repo/{m['file']}"
    src = open(p, 'rb').read()
    assert src[m['start']:m['end']].decode() == m['old'], (m, src[m['start']:m['end']])
    open(p, 'wb').write(src[:m['start']] + m['new'].encode() + src[m['end']:])
    return src


def tests_pass(d):
    rc, out = sh('go build ./... && go test -vet=off -timeout 10m ./... 2>&1', cwd=d + '/repo', timeout=900)
    fails = [l for l in out.splitlines() if l.startswith('--- FAIL') or l.startswith('panic:') or 'build failed' in l or l.startswith('FAIL')]
    bad = [l for l in fails if 'TestAsyncClient' not in l and not l.startswith('FAIL\tgithub.com/brocaar/lorawan/backend\t') and l.strip() != 'FAIL']
    if 'cannot' in out and rc != 0 and not fails:
        return 'nocompile', out[-300:]
    if rc != 0 and not fails:
        return 'nocompile', out[-300:]
    return ('pass' if not bad else 'fail'), '; '.join(bad[:3])


def worker(args):
    w, muts, base = args
    d = setup_worker(w)
    out = []
    for m in muts:
        t0 = time.time()
        orig = apply(d, m)
        rec = dict(m)
        try:
            st, info = tests_pass(d)
            rec['tests'] = st
            if st == 'pass':
                res, err = run_ops(d)
                if res is None:
                    rec['tests'] = 'harness-nocompile'
                else:
                    diff = {}
                    for p in PROPS:
                        if res[p] != base[p]:
                            a, b = base[p].splitlines(), res[p].splitlines()
                            ex = next((y for x, y in zip(a, b) if x != y), (b[len(a):] or a[len(b):] or ['?'])[0])
                            diff[p] = ex[:200]
                    rec['detected_by'] = sorted(diff)
                    rec['example'] = diff
            else:
                rec['info'] = info[:200]
        finally:
            open(f"{d}/repo/{m['file']}", 'wb').write(orig)
        rec['secs'] = round(time.time() - t0, 1)
        out.append(rec)
        with open(f'{MC}/progress.{w}.jsonl', 'a') as f:
            f.write(json.dumps(rec) + '\n')
    shutil.rmtree(d, ignore_errors=True)
    return out


def main():
    global PROPS
    outp = sys.argv[1]
    nw = int(sys.argv[sys.argv.index('--workers') + 1]) if '--workers' in sys.argv else 12
    seed = int(sys.argv[sys.argv.index('--seed') + 1]) if '--seed' in sys.argv else 1
    spec = sys.argv[sys.argv.index('--sample') + 1] if '--sample' in sys.argv else 'guard:all,droperr:all,not:all,op:500,lit:500'
    os.makedirs(MC, exist_ok=True)
    sh(['go', 'build', '-o', ROOT + '/build/mutgen', '.'], cwd=ROOT + '/tools/mutgen')
    rc, out = sh([ROOT + '/build/mutgen', os.environ.get('MUTGEN_SRC', '/repo')])   # MUTGEN_SRC: a clean export of HEAD when /repo's working tree is in use
    muts = [json.loads(l) for l in out.splitlines() if l.startswith('{')]
    muts = [m for m in muts if not any(s in m['file'] for s in SKIP_FILES)]
    rnd = random.Random(seed)
    want = dict(x.split(':') for x in spec.split(','))
    chosen = []
    for kind, n in want.items():
        pool = [m for m in muts if (m['kind'].startswith('lit') if kind == 'lit' else m['kind'] == kind)]
        rnd.shuffle(pool)
        chosen += pool if n == 'all' else pool[:int(n)]
    if '--survivors-of' in sys.argv:   # re-run only the survivors of an earlier campaign (after strengthening the checks)
        prev = [json.loads(l) for l in open(sys.argv[sys.argv.index('--survivors-of') + 1])]
        keys = {(r['file'], r['start'], r['end'], r['new']) for r in prev if r['tests'] == 'pass' and not r.get('detected_by')}
        chosen = [m for m in muts if (m['file'], m['start'], m['end'], m['new']) in keys]
    if '--exclude-done' in sys.argv:   # leave out what an earlier campaign already ran
        prev = [json.loads(l) for l in open(sys.argv[sys.argv.index('--exclude-done') + 1])]
        done = {(r['file'], r['start'], r['end'], r['new']) for r in prev}
        chosen = [m for m in chosen if (m['file'], m['start'], m['end'], m['new']) not in done]
    rnd.shuffle(chosen)
    print(f'{len(muts)} candidate mutations, {len(chosen)} chosen', flush=True)
    d0 = setup_worker('base')
    base, err = run_ops(d0)
    assert base is not None, err
    # determinism of the unchanged tree: a second run must give identical output
    base2, _ = run_ops(d0)
    unstable = [p for p in PROPS if base[p] != base2[p]]
    print('unstable properties (excluded from comparison):', unstable, flush=True)
    for p in unstable:
        base[p] = None
    shutil.rmtree(d0, ignore_errors=True)
    PROPS = [p for p in PROPS if p not in unstable]
    base = {p: base[p] for p in PROPS}
    chunks = [(w, chosen[w::nw], base) for w in range(nw)]
    with multiprocessing.Pool(nw) as pool:
        results = pool.map(worker, chunks)
    recs = [r for rs in results for r in rs]
    shutil.rmtree(MC + '/gocache', ignore_errors=True)
    with open(outp, 'w') as f:
        for r in recs:
            f.write(json.dumps(r) + '\n')
    surv = [r for r in recs if r['tests'] == 'pass' and not r.get('detected_by')]
    live = [r for r in recs if r['tests'] == 'pass']
    print(f"mutants: {len(recs)}; do not compile: {sum(r['tests'] in ('nocompile', 'harness-nocompile') for r in recs)}; "
          f"killed by the repository's tests: {sum(r['tests'] == 'fail' for r in recs)}; pass the tests: {len(live)}; "
          f"of these detected: {len(live) - len(surv)}; survivors: {len(surv)}")
    for r in surv:
        print('SURVIVOR', r['file'], r['line'], r['func'], r['kind'], repr(r['old']), '->', repr(r['new']))
    for f in glob.glob(f'{MC}/progress.*.jsonl'):
        os.remove(f)


if __name__ == '__main__':
    main()
