#!/usr/bin/env python3
"""Shared machinery of ./check: build, regenerate, prove, correspond, decide, write evidence."""
import fcntl, hashlib, json, os, re, subprocess, sys, time, collections, glob, random

ROOT = os.path.dirname(os.path.dirname(os.path.abspath(__file__)))
LEAN = os.path.join(ROOT, 'lean')
BUILD = os.path.join(ROOT, 'build')
HARNESS = os.path.join(BUILD, 'lwharness')
DRIVER = os.path.join(LEAN, '.lake', 'build', 'bin', 'lwdriver')
ALLOWED_AXIOMS = {'propext', 'Classical.choice', 'Quot.sound'}
FORBIDDEN = re.compile(r'\b(sorry|admit|native_decide|bv_decide|implemented_by|unsafe)\b|^\s*axiom\s|maxHeartbeats\s+0', re.M)

GOENV = dict(os.environ, GOFLAGS='-mod=mod', GOPROXY='off', GOSUMDB='off', GOTOOLCHAIN='local',
             CGO_ENABLED='0', GOMEMLIMIT='3GiB')


def sh(cmd, cwd=None, env=None, inp=None, timeout=None):
    p = subprocess.run(cmd, cwd=cwd, env=env, input=inp, capture_output=True, text=True, timeout=timeout)
    return p.returncode, p.stdout, p.stderr


class Lock:
    def __enter__(self):
        os.makedirs(BUILD, exist_ok=True)
        self.f = open(os.path.join(BUILD, '.lock'), 'w')
        fcntl.flock(self.f, fcntl.LOCK_EX)
        return self

    def __exit__(self, *a):
        fcntl.flock(self.f, fcntl.LOCK_UN)
        self.f.close()


def build_harness():
    """go build -tags verif against /repo's current working tree."""
    hd = os.path.join(ROOT, 'harness')
    subprocess.run(['cp', '/repo/go.sum', os.path.join(hd, 'go.sum')], check=False)
    rc, out, err = sh(['go', 'build', '-tags', 'verif', '-o', HARNESS, '.'], cwd=hd, env=GOENV)
    return rc == 0, (out + err)


def build_race():
    """harness/race built with the race detector against /repo's current working tree (C10)."""
    hd = os.path.join(ROOT, 'harness')
    rc, out, err = sh(['go', 'build', '-race', '-tags', 'verif', '-o', os.path.join(ROOT, 'build', 'lwrace'), './race'], cwd=hd, env=dict(GOENV, CGO_ENABLED='1'), timeout=1200)
    return rc == 0, (out + err)


def regenerate():
    """translator: rewrite lean/LW/Generated from the current source."""
    rc, out, err = sh([HARNESS, 'dump', os.path.join(LEAN, 'LW', 'Generated')], env=GOENV, timeout=600)
    return rc == 0, out + err


def lake_build(targets, timeout=3600):
    rc, out, err = sh(['lake', 'build'] + targets, cwd=LEAN, timeout=timeout)
    return rc == 0, out + err


def generated_hashes():
    h = {}
    for p in sorted(glob.glob(os.path.join(LEAN, 'LW', 'Generated', '*.lean'))):
        h[os.path.basename(p)] = hashlib.sha256(open(p, 'rb').read()).hexdigest()
    return h


def theorems_of(prop):
    """(names of theorems, forbidden-token hits) of LW/Props/<prop>.lean and the proof files it owns."""
    path = os.path.join(LEAN, 'LW', 'Props', prop + '.lean')
    src = open(path).read()
    # strip comments before grepping
    nocom = re.sub(r'/-.*?-/', '', src, flags=re.S)
    nocom = re.sub(r'--.*', '', nocom)
    names = re.findall(r'^\s*theorem\s+([A-Za-z0-9_\.\']+)', nocom, flags=re.M)
    ns = re.search(r'^namespace\s+(\S+)', nocom, flags=re.M)
    prefix = ns.group(1) + '.' if ns else ''
    hits = FORBIDDEN.findall(nocom)
    return [prefix + n for n in names], hits


def forbidden_scan():
    bad = []
    for p in glob.glob(os.path.join(LEAN, '**', '*.lean'), recursive=True):
        if '/.lake/' in p:
            continue
        src = open(p).read()
        nocom = re.sub(r'/-.*?-/', '', src, flags=re.S)
        nocom = re.sub(r'--.*', '', nocom)
        if FORBIDDEN.search(nocom):
            bad.append(os.path.relpath(p, ROOT))
    return bad


def audit(prop, names):
    """#print axioms on every property theorem; returns {theorem: [axioms]} and raw output."""
    os.makedirs(os.path.join(BUILD, 'audit'), exist_ok=True)
    f = os.path.join(BUILD, 'audit', prop + '.lean')
    with open(f, 'w') as w:
        w.write(f'import LW.Props.{prop}\n')
        for n in names:
            w.write(f'#print axioms {n}\n')
    rc, out, err = sh(['lake', 'env', 'lean', f], cwd=LEAN, timeout=1200)
    res = {}
    txt = out + err
    for m in re.finditer(r"'([^']+)' depends on axioms: \[([^\]]*)\]", txt, flags=re.S):
        res[m.group(1)] = [a.strip() for a in m.group(2).replace('\n', ' ').split(',') if a.strip()]
    for m in re.finditer(r"'([^']+)' does not depend on any axioms", txt):
        res[m.group(1)] = []
    return rc == 0, res, txt


def lw_imports(mod, seen=None):
    """the module and every LW.Proofs / LW.Props module it imports, transitively (import lines of the sources)."""
    seen = seen if seen is not None else []
    if mod in seen:
        return seen
    path = os.path.join(LEAN, *mod.split('.')) + '.lean'
    if not os.path.exists(path):
        return seen
    if mod.startswith('LW.Props.') or mod.startswith('LW.Proofs.'):
        seen.append(mod)
    for m in re.findall(r'^import\s+(LW\.[A-Za-z0-9_.]+)', open(path).read(), flags=re.M):
        if m.startswith('LW.Proofs.') or m.startswith('LW.Props.'):
            lw_imports(m, seen)
    return seen


def leanchecker(mods):
    """Lean's independent checker replays the declarations of the compiled modules through the kernel."""
    rc, out, err = sh(['lake', 'env', 'leanchecker'] + mods, cwd=LEAN, timeout=3600)
    return rc == 0, out + err


def failing_theorem(prop, lake_out):
    """name of the first theorem of Props/<prop>.lean (or imported proof file) that no longer checks."""
    m = re.search(r'error: (LW/[A-Za-z0-9_/]+\.lean):(\d+):(\d+)', lake_out)
    if not m:
        return None, None
    path, line = m.group(1), int(m.group(2))
    try:
        lines = open(os.path.join(LEAN, path)).read().splitlines()
    except Exception:
        return path, None
    name = None
    for i in range(min(line, len(lines)) - 1, -1, -1):
        mm = re.match(r'\s*(?:private\s+)?(?:theorem|lemma|def|example|instance)\s+([A-Za-z0-9_\.\']+)?', lines[i])
        if mm:
            name = mm.group(1) or 'example'
            break
    return path, name


def run_ops(prop, tier, seed, corpus=True, extra_files=()):
    """generate + execute ops on the real code; returns path of the ops file (op => go result)."""
    os.makedirs(os.path.join(BUILD, 'ops'), exist_ok=True)
    path = os.path.join(BUILD, 'ops', f'{prop}-{tier}-{seed}.ops')
    with open(path, 'w') as w:
        files = list(extra_files)
        if corpus:
            files += sorted(glob.glob(os.path.join(ROOT, 'corpus', prop, '*.ops')))
        for cf in files:
            with open(cf) as r:
                p = subprocess.run([HARNESS, 'exec'], stdin=r, stdout=w, env=GOENV)
        p = subprocess.run([HARNESS, 'gen', prop, tier, str(seed)], stdout=w, stderr=subprocess.PIPE, env=GOENV, text=True)
        rc = p.returncode
    return path, rc


def run_driver(prop, ops_path):
    with open(ops_path) as r:
        p = subprocess.run([DRIVER, prop], stdin=r, capture_output=True, text=True)
    anomalies = []
    stats = None
    for line in p.stdout.splitlines():
        if line.startswith('STATS'):
            stats = dict(kv.split('=') for kv in line.split()[1:])
            continue
        parts = line.split('\t')
        if len(parts) == 3 and parts[0].isdigit():
            anomalies.append((int(parts[0]), parts[1], parts[2]))
    return anomalies, stats, p.returncode, p.stderr


def load_ops(path):
    ops = []
    with open(path) as r:
        for line in r:
            line = line.rstrip('\n')
            if not line or line.startswith('#'):
                continue
            ops.append(line)
    return ops


def op_stats(ops):
    kinds = collections.Counter()
    results = collections.Counter()
    seen = set()
    nontrivial = 0
    for line in ops:
        lhs, _, res = line.partition(' => ')
        kinds[lhs.split(' ', 1)[0]] += 1
        rk = res.split(' ', 1)[0] if res else '?'
        results[rk] += 1
        if lhs not in seen:
            seen.add(lhs)
            if rk == 'ok':
                nontrivial += 1
    return kinds, results, len(seen), nontrivial


def known_findings():
    p = os.path.join(ROOT, 'known_findings.json')
    if not os.path.exists(p):
        return []
    return json.load(open(p))


def shrink_history(prop, ops, pred, budget=60):
    """delta-debug an op list: keep the smallest prefix-closed sublist on which pred(ops) still holds."""
    cur = list(ops)
    n = 2
    t0 = time.time()
    while len(cur) >= 2 and time.time() - t0 < budget:
        chunk = max(1, len(cur) // n)
        reduced = False
        for i in range(0, len(cur), chunk):
            cand = cur[:i] + cur[i + chunk:]
            if cand and pred(cand):
                cur = cand
                n = max(n - 1, 2)
                reduced = True
                break
        if not reduced:
            if chunk == 1:
                break
            n = min(n * 2, len(cur))
    return cur


def replay_ops(prop, op_lines):
    """re-run op lines on the current tree; returns (anomalies, ops-with-results)."""
    os.makedirs(os.path.join(BUILD, 'ops'), exist_ok=True)
    tmp = os.path.join(BUILD, 'ops', f'{prop}-replay-{os.getpid()}.in')
    out = os.path.join(BUILD, 'ops', f'{prop}-replay-{os.getpid()}.ops')
    with open(tmp, 'w') as w:
        for l in op_lines:
            w.write(l.split(' => ')[0] + '\n')
    with open(tmp) as r, open(out, 'w') as w:
        subprocess.run([HARNESS, 'exec'], stdin=r, stdout=w, env=GOENV)
    an, stats, rc, err = run_driver(prop, out)
    ops = load_ops(out)
    os.remove(tmp)
    os.remove(out)
    return an, ops
