#!/bin/bash
# Re-applies every confirmed seeded change under seeded/ to /repo, runs the quick check of its property and reports whether the
# change is still detected (VIOLATION with a concrete input). Tooling for DESIGN.md section 12; restores /repo and evidence.
cd "$(dirname "$0")/.."
ok=0; bad=0
for d in seeded/C*/; do
  id=$(basename "$d"); prop=${id%%-*}
  git -C /repo apply "$PWD/$d/patch.diff" || { echo "$id: PATCH DOES NOT APPLY"; bad=$((bad+1)); continue; }
  out=$(./check "$prop" 2>&1 | grep "^VIOLATION" | head -1)
  git -C /repo checkout -- .
  if [ -z "$out" ]; then echo "$id: NOT DETECTED"; bad=$((bad+1));
  elif echo "$out" | grep -q "no-failing-input-found"; then echo "$id: detected without input: $out"; bad=$((bad+1));
  else ok=$((ok+1)); fi
done
git checkout -- evidence
echo "seeded changes detected with a concrete input: $ok; other: $bad"
