"""Per-property configuration of ./check."""

TB_COMMON = [
    "Lean 4.33 kernel; axioms allowed in property theorems: propext, Classical.choice, Quot.sound (checked by #print axioms on every run)",
    "LW/Spec/*: hand transcription of the LoRaWAN documents (DESIGN.md appendix A) - the statements are only as right as it is",
    "tie model<->code: Go harness (harness/), canonical printers on both sides, compiled Lean driver, textual comparison of every op result",
]

ASSUME_COMMON = [
    "the Lean model mirrors /repo only as far as the correspondence run exercises it (generated + exhaustive-small + corpus inputs)",
]

def P(rule, trusted=(), assume=(), **kw):
    d = dict(rule=rule, trusted_base=TB_COMMON + list(trusted), assumptions=ASSUME_COMMON + list(assume))
    d.update(kw)
    return d

PROPS = {
    "C06": P("structure-aware generation from the repo's own payload types (in-range / full Go domain / boundary values per field), every 1-byte payload exhaustively, "
             "2-byte payloads exhaustively in the thorough tier, all 256 MHDR and FCtrl bytes, all 512 registry keys; an op is non-trivial when the implementation returns ok; distinct = distinct op text",
             trusted=["encoding/binary (PutUint16/32) is modelled as little-endian arithmetic"],
             exhaustive_parts=["all 256 values of every 1-byte MAC payload decoder", "all 256 MHDR bytes", "all FCtrl bytes (both directions)", "registry: all 2x256 (direction, CID) keys"]),
    "C07": P("as C06 for single payloads over the FULL Go field domains (out-of-range included), plus command sequences (<=15 / <=242 bytes, both directions, encoded by the implementation and decoded back), "
             "plus histories of proprietary registrations (each history op is part of the replay); non-trivial = implementation returned ok",
             trusted=["Go map semantics of macPayloadRegistry modelled as an association list", "sync.RWMutex not modelled (sequential histories only)"],
             stateful=True, history_ops=("register",),
             exhaustive_parts=["all 256 values of every 1-byte MAC payload", "registry: all 2x256 keys"]),
}

# texts for MANIFEST.json (lib/manifest.py)
MANIFEST_TEXT = {
    "C06": dict(
        text="Lean theorems C06_dec_spec / C06_enc_spec: for all 30 MAC payload types, every byte string and every in-range value, the model codec equals a table-driven "
             "bit-layout specification (RFU bits ignored on receive, zero on transmit); C06_registry: the registry regenerated from /repo equals the specification's (CID, direction) table. "
             "The model is tied to the Go code by differential runs (exhaustive for 1-byte payloads); every Go result is also judged directly against the specification.",
        note="Trusted: Lean kernel; the hand-transcribed layout tables (LW/Spec/Mac.lean); the harness/driver comparison. Frame headers / join payloads / CFList are compared against the spec at run time and proved in C01/C08 as round trips; their layout theorems are work in progress.",
        technique="Lean 4 proof (model = layout spec) + differential correspondence with the Go code"),
    "C07": dict(
        text="Lean theorems: C07_lossless (encode ok => decode gives the same value, all 30 payload types over their FULL Go field domains), C07_accepts (every in-spec value is accepted), "
             "C07_stream (any well-framed command sequence of any length decodes to itself under ANY registry, hence every history of proprietary registrations), "
             "C07_registry_sizes / C07_registry_is_spec over the registry regenerated from /repo, C07_register_dir/_framed/_range. Tied to the Go code by differential runs incl. registration histories.",
        note="Trusted: Lean kernel; Spec ranges (LW/Spec/Mac.lean); Go map modelled as association list; RWMutex not modelled. Six genuine defects were found by this check and repaired in /repo (known_findings.json, status fixed).",
        technique="Lean 4 proof (round trip + stream induction over arbitrary registries) + differential correspondence"),
}
