"""Per-property configuration of ./check."""

TB_COMMON = [
    "Lean 4.33 kernel; axioms allowed in property theorems: propext, Classical.choice, Quot.sound (checked by #print axioms on every run)",
    "LW/Spec/*: hand transcription of the LoRaWAN documents (DESIGN.md appendix A) - the statements are only as right as it is",
    "tie model<->code: Go harness (harness/), canonical printers on both sides, compiled Lean driver, textual comparison of every op result",
]

ASSUME_COMMON = [
    "the Lean model mirrors /repo only as far as the correspondence run exercises it (generated + exhaustive-small + corpus inputs)",
]

def P(rule, trusted=(), assume=(), **kw):
    d = dict(rule=rule, trusted_base=TB_COMMON + list(trusted), assumptions=ASSUME_COMMON + list(assume))
    d.update(kw)
    return d

PROPS = {
    "C06": P("structure-aware generation from the repo's own payload types (in-range / full Go domain / boundary values per field), every 1-byte payload exhaustively, "
             "2-byte payloads exhaustively in the thorough tier, all 256 MHDR and FCtrl bytes, all 512 registry keys; an op is non-trivial when the implementation returns ok; distinct = distinct op text",
             trusted=["encoding/binary (PutUint16/32) is modelled as little-endian arithmetic"],
             exhaustive_parts=["all 256 values of every 1-byte MAC payload decoder", "all 256 MHDR bytes", "all FCtrl bytes (both directions)", "registry: all 2x256 (direction, CID) keys"]),
    "C07": P("as C06 for single payloads over the FULL Go field domains (out-of-range included), plus command sequences (<=15 / <=242 bytes, both directions, encoded by the implementation and decoded back), "
             "plus histories of proprietary registrations (each history op is part of the replay); non-trivial = implementation returned ok",
             trusted=["Go map semantics of macPayloadRegistry modelled as an association list", "sync.RWMutex not modelled (sequential histories only)"],
             stateful=True, history_ops=("register",),
             exhaustive_parts=["all 256 values of every 1-byte MAC payload", "registry: all 2x256 keys"]),
    "C01": P("frames generated from the repo's own types over all 8 MTypes (join-request, join-accept with both CFList kinds, rejoin 0/1/2, data up/down confirmed/unconfirmed, proprietary), "
             "all flag combinations, FOpts 0..15 bytes as commands or opaque bytes, FPort absent/0/1..255, FRMPayload lengths biased to 0,1,15,16,17,...,242,255; 1 in 5 deliberately invalid; "
             "each is encoded AND decoded by the implementation (phyrt), plus base64 text and join-accept encrypt/decrypt; non-trivial = implementation returned ok",
             trusted=["encoding/base64 modelled (LW/Model/Base64.lean): the model's decode-of-encode identity is a theorem (C01_base64); that the model is encoding/base64.StdEncoding is validated by correspondence (every text op)", "channel-mask CFLists round-trip up to trailing zero masks (hypothesis cfListCanonical of C01_cflist_roundtrip)"]),
    "C02": P("data frames (up/down, confirmed/unconfirmed, FOpts/FPort/FRMPayload incl. multi-block lengths to 255 bytes) x random 128-bit keys x both MAC versions x FCnt/ConfFCnt biased to 0,1,0xFFFF,0x10000,2^32-1 x all txDR/txCh bytes x ACK set/unset; "
             "for each: set MIC, validate the frame carrying it, validate a frame carrying another MIC, cmacF-only validation; the specification MIC is computed with the driver's own AES/CMAC",
             trusted=["crypto/aes and jacobsa/crypto/cmac are modelled by an arbitrary block cipher in the theorems; the driver's executable AES-128 + RFC 4493 CMAC is validated against them on every op",
                      "that a different CMAC input yields a different 4-byte MIC is a cryptographic assumption"]),
    "C03": P("every payload length 0..255 (1..16 keystream blocks) x random keys, both directions, boundary counters; FOpts lengths 0..18 (16+ must be rejected); "
             "PHYPayload methods on data frames with commands or opaque bytes, FPort absent/0/>0, and on non-data frames; encrypt followed by decrypt",
             trusted=["crypto/aes modelled as an arbitrary lawful block cipher; executable AES validated by correspondence", "spare-capacity effects of EncryptFRMPayload are the subject of C10, not of this check"],
             exhaustive_parts=["all payload lengths 0..255", "all FOpts lengths 0..18"]),
    "C04": P("join-request / rejoin 0,1,2 / join-accept frames with random EUIs, nonces, NetID, DevAddr, DLSettings (OptNeg both ways), RXDelay 0..15, CFList absent / channels / masks, all four JoinReqType values, random keys; "
             "MIC set + validate, encrypt, decrypt with the right and a wrong key; 1 in 10 invalid",
             trusted=["crypto/aes modelled as an arbitrary lawful block cipher; executable AES validated by correspondence"]),
    "C05": P("full sender pipeline (encrypt FRMPayload -> encrypt FOpts (1.1) -> set MIC -> marshal) and receiver pipeline (unmarshal -> set 32-bit FCnt -> validate -> decrypt/decode FOpts -> decrypt FRMPayload) "
             "through the public API on valid data frames, both directions, both versions; per frame 1 untampered run + single-bit corruptions at random positions and single-parameter mismatches "
             "(FNwkSIntKey, SNwkSIntKey, FCnt upper 16 bits, ConfFCnt, txDR, txCh, version); four proprietary commands are registered first (one direction each) "
             "and occur in the generated frames",
             trusted=["crypto/aes as C02", "the 32-bit FCnt reconstruction (upper 16 bits) is supplied by the caller, as in a real network server"],
             stateful=True, history_ops=("register",)),
    "C11": P("quick: every NetID type x {ID all-zero, all-one, one-hot, random} x boundary and random DevAddrs; thorough: ALL 2^24 NetIDs x rotating boundary/random DevAddrs; "
             "for each: assign prefix, membership of the original / the prefixed / a one-bit-flipped address, NetID type+ID, NwkID; all 256 first bytes for NetIDType; "
             "representations of the four identifier types: text (lower/upper case, 0x), binary, Scan/Value, and malformed inputs (wrong length, odd digits, bad characters, doubled prefix, non-[]byte Scan source)",
             trusted=["encoding/hex modelled (LW.Basic hexDecodeChars), database/sql/driver.Value carried as []byte"],
             exhaustive_parts=["thorough tier: all 2^24 NetIDs", "all 256 leading DevAddr bytes"]),
    "C12": P("finite and fully enumerated in both tiers: 56 configurations (14 names x repeater x dwell-time) x uplink DR -2..16 x RX1 offset -2..9, every uplink channel index and frequency through both RX1 routes, "
             "plus DevAddr x beacon-time samples for the ping-slot (boundary DevAddrs, beacon times at and around multiples of 128 s) and custom channels; non-trivial = the accessor returned a value",
             trusted=["the hook band.VerifSnapshotOf (read-only copy of the unexported tables)", "LW/Spec/Regional.lean: RX1 / ping-slot rules written from the Regional Parameters as remembered (no documents in the sandbox)"],
             exhaustive_parts=["all 56 configs x DR -2..16 x offset -2..9", "every uplink channel of every config, both RX1 routes"]),
    "C13": P("finite and fully enumerated: 56 configurations x 7 protocol versions (6 known + unknown) x 8 revisions (7 known + unknown) x DR -1..15 through GetMaxPayloadSizeForDataRateIndex, "
             "every data-rate looked up by index and by its parameters in both directions, TX power indices -1..16, defaults, CFList per version",
             trusted=["the hook band.VerifSnapshotOf", "LW/Spec/Regional.lean defaults: cells tagged pinned only freeze the reviewed value (US915 TX-power count, CN470 DR6)"],
             exhaustive_parts=["56 configs x 7 versions x 8 revisions x DR -1..15", "all data-rates of all configs, both directions"]),
    "C14": P("random histories (<= 12 ops) of AddChannel / Disable / Enable on all 56 configurations x device channel sets (random subset, equal to the network set, one sub-band, all, none, few flips; shuffled order); "
             "sub-band patterns for US915 / AU915 / CN470; all 2^k device subsets of <= 16-channel plans (sampled in quick, exhaustive in thorough); each op plans AND applies on the real band",
             trusted=["the hook (state observation)", "sort.Ints modelled as insertion sort"]),
    "C15": P("random histories up to length 30 over {AddChannel(f,minDR,maxDR), Disable(i), Enable(i)} with valid and wild arguments (negative / huge indices, non-100 Hz frequencies, inverted DR ranges) on all 56 configurations; "
             "after each history: full state observation, channel / frequency / frequency+DR lookups, CFList per protocol version, TX power, plan+apply; ISM2400 histories add spec-valid 2.4 GHz channels",
             trusted=["the hook (state observation)"]),
    "C19": P("fragment sizes 1..64 x fragment counts 1..300 (power-of-two counts 1..256 forced: they take the other modulus branch) x redundancy 0..100, random data; zero and single-bit blocks (linearity probes); "
             "invalid sizes {0, negative, non-dividing} x redundancy {0,1,5,-1}; every Go output is checked against the TS004 matrix line computed by the specification side",
             trusted=["termination of the `for r >= m` loop is modelled with fuel (100000 draws per coefficient); the Go loop itself is only observed to terminate"]),
    "C20": P("GPS: every leap second of the regenerated table with offsets -2 s .. +3 s at sub-second resolution (both directions, incl. durations inside the inserted second), random instants 1980..2100 at ns resolution; "
             "airtime: payload-symbol count exhaustively over payload 0..255 x SF 5..12 x CR 1..4 x header x LDRO (quick) and the full 10.6 M-cell product with bandwidth {125,250,500,812,1625} x preamble in thorough; "
             "EIRP: all 256 index bytes, +-3 ulp around every table entry, random float32 bit patterns, infinities, NaN, denormals",
             trusted=["gps hook VerifLeapTable", "time.Time arithmetic modelled as integer nanoseconds (no saturation inside 1678..2262)", "IEEE-754 binary64 division modelled exactly on integers (LW.fdivCeil), validated against Go on every payload-symbol op"],
             exhaustive_parts=["payload-symbol count: payload 0..255 x SF 5..12 x CR 1..4 x header x LDRO", "all 256 EIRP index bytes", "thorough: full airtime product"]),
    "C09": P("every frame length 0..512 for each MType (binary and base64), all 1-byte frames (all 2-byte frames in thorough), uniform strings at the lengths the decoders single out, structure-aware mutations (bit flip, truncate, extend, splice, overwrite, delete; up to two rounds) of valid frames of all kinds, "
             "the FOptsLen x remaining-length grid; decrypt-then-decode of FOpts / FRMPayload and join-accept decryption with random keys on all of these; every MAC payload type at every length 0..size+4, MACCommand for all 2x256 CIDs, command streams (random, mutated valid streams, registry CIDs with random tails); "
             "CFList at every length 0..40; the four application-layer decoders in both directions (all 256 CIDs, every length 0..64, registry CIDs with wrong-size tails); backend text types on arbitrary bytes; key envelopes of every length 0..56; json.Unmarshal of the 23 payload structs on valid, mutated and random text; identifier text / binary forms. "
             "For every op: result, PANIC, HANG (10 s watchdog) and whether the input buffer or the 16 canary bytes behind it were written",
             trusted=["LW/Model/Checked.lean is a hand transcription of the Go index expressions; the driver compares it with the total decoders on every op and the theorems prove equality / absence of panics for all inputs",
                      "running time is only bounded by the 10 s watchdog per op (no complexity claim is proved)",
                      "json.Unmarshal into the payload structs and base64 decoding are observed, not modelled beyond LW/Model/Base64.lean"],
             exhaustive_parts=["all 1-byte frames; all 2-byte frames in the thorough tier", "all 2x256 CIDs through MACCommand.UnmarshalBinary and the four application-layer Command decoders", "FOptsLen 0..15 x remaining length 0..29"]),
    "C10": P("overwrite-and-look-again on decoded frames (valid, mutated and random inputs), proprietary / data payloads and application-layer command lists; every encoder output (frame, text, each reachable payload) overwritten; Validate* / Marshal* with random keys on frames of all kinds; "
             "EncryptFRMPayload at every length 0..64 and EncryptFOpts at every length 0..18 with 16 canary bytes of spare capacity behind the slice; decoding into a used value for every MAC payload type (receiver all-ones / random, input all-zero / random), PHYPayload, MACPayload (with and without FOpts / FPort / FRMPayload in both orders), "
             "JoinAcceptPayload (28 then 12 bytes and back), both CFList payloads, every application-layer payload and command list; two band instances per configuration with random histories on one of them; "
             "the concurrent workload of harness/race (decode from shared buffers, MIC / crypto on own values, registry reads vs registrations, own band instances, application layer, join-server handler) under the Go race detector: 8 goroutines x 150 rounds (quick), 16 x 2500 x 3 seeds + 4 x 4000 + 32 x 600 (thorough)",
             trusted=["aliasing, band-instance isolation and data races are OBSERVED on the implementation (overwrite-and-look-again, canaries, race detector): a pure model cannot exhibit them - this part is testing",
                      "LW/Model/Slice.lean: Go's append / spare-capacity semantics as a model of one backing array",
                      "the race detector only sees the interleavings that occur; GOMAXPROCS = available cores"],
             race=True, widen_thorough=False),
    "C16": P("requests through http.Handler.ServeHTTP (httptest recorder) built from the repo's own payload structs: join-requests and rejoin-requests type 0/1/2 with random keys, EUIs, nonces, NetIDs, DevAddrs, DLSettings (OptNeg both ways), "
             "RxDelay, CFList absent / channel list / channel masks, NS and AS KEKs of 16/24/32 bytes or absent, boundary JoinNonces; 1 in 3 deliberately off: unknown DevEUI, wrong MIC, malformed SenderID / ReceiverID, JoinNonce overflow / negative, RxDelay out of range, "
             "malformed CFList, invalid KEK sizes, wrong frame kind, truncated frame, DevEUI mismatch; plus batches of 3..8 requests sent from 2..8 goroutines at once through one handler and compared with the sequential answers",
             trusted=["net/http, encoding/json transport and logrus are not modelled: the harness builds the JSON request and parses the JSON answer with the repo's own structs",
                      "crypto/aes modelled by an arbitrary lawful block cipher in the theorems; the driver's executable AES is compared on every op",
                      "the configuration callbacks are modelled by their return values (device keys, KEKs by label)",
                      "independence of concurrent requests is observed (jsconc), not proved: the handler keeps no state between requests in the model by construction",
                      "LW/Spec/JoinServer.lean: device-side processing and key derivations of LoRaWAN 1.0.x / 1.1 as remembered"],
             stateful=False),
    "C17": P("Frequency: every Hz value 0..2999 (300000 in thorough), the 12.5 kHz raster 100 MHz..3 GHz, +-3 around every power of two and ten, random uint32 and +-2^52 values; Percentage: -200..300 exhaustively + random int32; "
             "JSON number texts (fixed boundary list: ties, subnormals, overflow, malformed; generated decimals with exponents, 1 in 5 mutated); HEX texts (upper/lower, 0x, odd length, bad characters); "
             "instants over years 0..9999 with whole-minute zone offsets -12h..+14h (year / leap-day / century boundaries forced), RFC 3339 texts incl. fractions, 24:00 offsets and character-level mutations; "
             "key envelopes with 16/24/32-byte and invalid KEKs: wrap, unwrap, wrong KEK, single-bit corruption, truncation, extension, all lengths 0..56 incl. the bare RFC 3394 IV; 23 payload struct types x random in-domain values (implementation-only round trip)",
             trusted=["strconv: shortest float printing and correctly rounded parsing (json.Marshal(float64) then ParseFloat is the identity) - the JSON text between the two conversions is not modelled",
                      "crypto/aes modelled by an arbitrary lawful block cipher in the theorems; executable AES-128/192/256 compared on every key-envelope op; RFC 3394 section 4 vectors in the corpus",
                      "time.Time.Format / time.Parse(RFC3339) modelled by hand (LW.Backend.formatRFC3339 / parseRFC3339, proleptic Gregorian civil-date algorithms): the round trip of the model is a theorem (C17_time_roundtrip, C17_calendar); that the model is package time is validated by correspondence (timeenc / timedec / timert ops)",
                      "encoding/json object encoding (omitempty, embedded structs, pointers) is not modelled: the payload structs are round-tripped by the implementation only and compared field by field (a test, not a proof)",
                      "LW/Proofs/Float.lean and LW/Proofs/Time.lean use Mathlib tactics (nlinarith, linarith, ring, interval_cases, norm_num); their theorems depend on propext, Classical.choice, Quot.sound only"],
             exhaustive_parts=["Percentage 0..100 (theorem: 0..1000 by kernel evaluation)", "key-envelope input lengths 0..56"]),
    "C18": P("for every (package, direction, CID) of the four regenerated registries: in-width values of the payload type (3 in 4; boundary values forced 1 in 4) and full-Go-domain values (1 in 4), each encoded (Size + MarshalBinary) and sent through Commands encode->decode; "
             "EXHAUSTIVE for the 11 single-byte payload types (all in-width values, all 256 wire bytes); raw Command decodes at every length 0..Size+7; commands without payload and unknown CIDs 0..11 in both directions; payloads under a foreign CID; "
             "sequences of 2..6 commands per package and direction (rest-consuming / exact-length payloads mostly last, 1 in 6 in the middle; 1 in 12 out-of-width); raw command streams; random and NIST-vector keys x multicast addresses",
             trusted=["encoding/binary modelled as little-endian arithmetic", "crypto/aes modelled by an arbitrary block cipher in the theorem; the driver's executable AES-128 is compared with it on every mckeys op",
                      "payload decoders are modelled on a fresh receiver (what Command.UnmarshalBinary constructs); DevUpgradeImageAns.nextFirmwareVersion (unexported) is set by the harness through reflect/unsafe",
                      "LW/Spec/App.lean: field widths of TS003/TS004/TS005/TS006 and the TS005 key-derivation blocks as remembered (no documents in the sandbox)"],
             exhaustive_parts=["all in-width values and all 256 wire bytes of the 11 single-byte payload types", "all 4 x 2 x 256 registry keys (regenerated, kernel-compared with the model's registry)"]),
    "C08": P("byte strings of every length 0..256 for each of the 8 MTypes (uniform), uniform strings at the lengths the decoders single out, structure-aware mutations (bit flip, truncate, extend, splice, overwrite, delete) of valid frames of all kinds, "
             "and the full FOptsLen x FPort x payload-length grid; each accepted string is re-encoded by the implementation; non-trivial = accepted",
             exhaustive_parts=["all lengths 0..256 x 8 MTypes (one uniform sample each)", "FOptsLen 0..15 x {no port, port 0, port 1, port 255} x payload 0..2 x 4 data MTypes"]),
}

# texts for MANIFEST.json (lib/manifest.py)
MANIFEST_TEXT = {
    "C01": dict(
        text="Lean theorems C01_roundtrip (encode then decode = the frame as seen over the wire, all 8 MTypes, FOpts <= 15 bytes, any FRMPayload length), C01_encode_total (an explicit decidable spec-validity predicate implies the encoder accepts), "
             "C01_valid_roundtrip, C01_commands (the decoded opaque FOpts / port-0 bytes decode to the sender's commands, via the C07 stream theorem), C01_joinaccept_roundtrip / C01_cflist_roundtrip (stand-alone join-accept payload, both CFList kinds), "
             "C01_base64 (base64 StdEncoding text of ANY byte string decodes to it) and C01_text_roundtrip (every spec-valid frame has a text form that decodes to the frame). The model is tied to the Go code by encode+decode runs (binary and text) on generated frames.",
        note="Trusted: Lean kernel; Spec.frameValid / Spec.wire definitions (LW/Spec/Frame.lean); the base64 model of encoding/base64 (compared per op). Channel-mask CFLists are canonical up to trailing zero masks (hypothesis cfListCanonical).",
        technique="Lean 4 proof (encode/decode round trip on the model) + differential correspondence"),
    "C02": dict(
        text="Lean theorems for EVERY block cipher: C02_up / C02_down (model MIC = specification B0/B1 CMAC, ACK gating, ConfFCnt mod 2^16, 1.0 vs 1.1 composition), C02_validate_*_iff, C02_set_validate_*, C02_validateF, "
             "C02_indep_* (excluded inputs do not matter), C02_bound_inputs_B0/B1 (the CMAC input is injective in direction, DevAddr, 32-bit FCnt, ConfFCnt, TxDr, TxCh, message). Every Go MIC is also compared with the spec MIC computed by the driver's AES-CMAC.",
        note="Trusted: Lean kernel; Spec.micUp/micDown transcription; executable AES/CMAC (validated against crypto/aes + jacobsa/cmac by every op); collision resistance of the 4-byte MIC is assumed.",
        technique="Lean 4 proof (model = spec, generic in the cipher) + differential correspondence"),
    "C03": dict(
        text="Lean theorems for every lawful block cipher and every length: C03_frm_spec (EncryptFRMPayload = payload XOR S_1|S_2|...), C03_frm_len, C03_frm_involution, C03_fopts_spec / _limit / _involution, "
             "C03_phy_fopts (AFCntDown exactly for downlink with FPort>0; success implies transformed), C03_phy_frm, C03_decrypt_never_silent. Every Go ciphertext is compared with the spec keystream computed by the driver.",
        note="Trusted: Lean kernel; Spec keystream transcription; executable AES. One genuine defect found and repaired (DecryptFOpts swallowed errors).",
        technique="Lean 4 proof (model = spec keystream, involution) + differential correspondence"),
    "C04": dict(
        text="Lean theorems: C04_join_mic, C04_ja_mic (1.0 / OptNeg forms), C04_ja_encrypt (ciphertext = aes128_decrypt ECB over payload|MIC), C04_ja_device (device recovers payload|MIC with aes128_encrypt, any lawful cipher), C04_ja_sizes (12/28 bytes). "
             "Every Go MIC / ciphertext is compared with the specification value; decrypt(encrypt) is compared with the model.",
        note="Trusted: Lean kernel; Spec transcription; executable AES. C04_ja_encrypt_decrypt: encrypt then decrypt gives the payload back (with the C01 join-accept round trip).",
        technique="Lean 4 proof (model = spec, ECB inverse) + differential correspondence"),
    "C05": dict(
        text="Lean theorem C05_exchange: for ANY data frame (MType 2..5, both directions, both MAC versions, any lawful cipher, keys, registry, 32-bit counter) with MAC commands in FOpts and absent / port-0 command / application FRMPayload, the bytes produced by the sender pipeline "
             "(encrypt FRMPayload -> encrypt FOpts -> MIC -> marshal) are ACCEPTED by the receiver pipeline (unmarshal -> restore FCnt -> validate -> decrypt/decode FOpts -> decrypt FRMPayload) which ends with exactly the sender's commands, payload, port, address, counter and flags. "
             "C05_reject_iff_up/_down: for ANY received bytes and ANY receiver parameters the frame is accepted iff it carries the specification MIC for those parameters. C05_frm_recovered. "
             "The pipelines (LW/Model/Exchange.lean) are executed against the real API step by step; "
             "the spec verdict checks (a) untampered valid frames are accepted with exactly the original commands/payload and (b) a tampered frame is accepted iff the specification MIC over the received bytes under the receiver's parameters matches.",
        note="Trusted: as C01-C03 and C07. Hypotheses of C05_exchange: the commands are framed consistently with the registry (C07), FOpts at most 15 bytes, application bytes on a port other than 0. That different parameters give a different 4-byte MIC is cryptographic and not claimed.",
        technique="Lean 4 proof (composition of codec round trip, MIC specification, encryption involutions and command streams) + executable composition compared with the Go pipeline + spec-MIC oracle"),
    "C11": dict(
        text="Lean theorems over ALL 2^24 NetIDs x 2^32 DevAddrs: C11_setPrefix (each of the 32 result bits is the one the addressing rules prescribe: prefix 1^t 0, low w_t bits of the ID field, NwkAddr untouched), "
             "C11_isNetID_iff, C11_prefixed_is_member, C11_netIDType, C11_netIDID; and for every identifier value: C11_text / _text_0x / _binary / _scan round trips, C11_binary_reversed, wrong lengths rejected. "
             "C11_setPrefix_arith / C11_isNetID_arith: the arithmetic form of the rules (prefix * 2^(31-t) + (ID mod 2^w) * 2^rest + address mod 2^rest; type = number of leading ones, NwkID field = ID mod 2^w), with which every Go result is compared, is exactly what the code computes for all pairs.",
        note="Trusted: Lean kernel; the rule tables in LW/Spec/Addr.lean (bit-level and arithmetic forms, proved equivalent); hex codec model.",
        technique="Lean 4 proof (bit-level characterisation via getLsbD extensionality, testBit arithmetic per address type, no bv_decide) + differential correspondence"),
    "C12": dict(
        text="Per-run kernel evaluation over the band data REGENERATED from /repo of the enumerators C12_rx1_channel, C12_rx1_datarate (defined downlink DR, equals region formula, nothing rejected that the region defines, no panic), "
             "C12_rx1_monotone, C12_pingslot_data for all 56 configurations; unbounded theorems C12_total (no panic for ANY integers, any configuration) and C12_pingslot_hopping (all DevAddr, all t >= 0). "
             "Every Go accessor result is compared with the model and judged against the regional rule.",
        note="Trusted: Lean kernel; the translator (hook + dump); LW/Spec/Regional.lean written from memory of RP002. Five genuine defects found and repaired (negative offset panic, ISM2400 / IN865 / KR920 cells). One spec cell of mine (IN865 DR7 row) was wrong and corrected (DESIGN: false alarms).",
        technique="Lean 4 proof by kernel evaluation over regenerated tables + unbounded lemmas + differential correspondence"),
    "C13": dict(
        text="Per-run kernel evaluation over the regenerated tables: C13_closure, C13_lookup (+ unambiguous parameters, which makes Go's map iteration order irrelevant), C13_latest, C13_sizes (M = N + 8, N <= 242), C13_na_cells, "
             "C13_repeater, C13_sf_monotone, C13_defaults (frequencies, RX2, -2 dB steps, LoRa DR definitions), C13_keys (every table is filed under a protocol-version key outside and a revision key inside, so none is out of reach and non-version strings resolve to latest); C13_unknown_resolves for any table. "
             "Every max-payload answer of the implementation is judged against the cell that the property's version / revision fallback rule selects in the regenerated tables.",
        note="Trusted: as C12. Regional default cells tagged pinned are not independent. Two genuine defects found and repaired (ISM2400 DR2 M=248; AS923 RP002-1.0.0 table filed under the protocol-version key).",
        technique="Lean 4 proof by kernel evaluation over regenerated tables + differential correspondence"),
    "C14": dict(
        text="Lean refinement theorems for EVERY band state (any history) and every device channel set in any order: C14_generic (apply(plan) = target for plans of <= 128 channels), "
             "C14_us915_au915 (both candidate plans, ChMaskCntl 6/7 semantics, shorter one chosen) with C14_us_reachable(_state) discharging its hypotheses on the regenerated configurations, "
             "C14_noop, C14_encodable, C14_count(_us), C14_apply_total. The model is tied to the Go planner/apply by differential runs; every Go result is also judged against the target set.",
        note="Trusted: Lean kernel; hook + dump; sort.Ints modelled as insertion sort (only membership and sortedness are used); the model's total lookup for uplinkChannels[c].custom (justified in LW/Model/Band.lean). "
             "Hypotheses the proof forces: device indices inside the plan and at most 128 channels (beyond that ChMaskCntl > 7 is not encodable - recorded in DESIGN.md, outside the property's bounded custom channels).",
        technique="Lean 4 proof (refinement: blocks emitted + pointwise effect of apply, induction over lists) + differential correspondence"),
    "C15": dict(
        text="Lean theorems about the channel-plan state machine for all states / all integer arguments: C15_inv_reachable (invariant over every history), C15_partition_enabled / _custom, C15_lookup_freq / _freq_dr, C15_nopanic, "
             "C15_cflist_channels (only custom channels, five entries), C15_cflist_masks (bit i of mask j is set iff channel 16j+i is enabled), C15_cflist_encodable_partial + C15_ism2400_witness; differential runs of random histories with full observation; spec verdicts on the Go observations: "
             "partitions, unaltered standard channels, lookups return matching channels, CFList content and MAC-layer encodability.",
        note="Trusted: hook, model. Known finding (recorded, not repaired): ISM2400 frequencies are not encodable in CFList / 24-bit frequency MAC commands. Two genuine defects repaired (negative index panics).",
        technique="Lean 4 proof (invariants over all op histories) + differential correspondence"),
    "C19": dict(
        text="Lean theorems for an ARBITRARY parity-line function, any block, size and redundancy: C19_structure (systematic, count, each parity fragment = XOR of exactly the selected data fragments), C19_systematic, "
             "C19_linear (encode(a xor b) = encode a xor encode b), C19_matrix (the code's line = TS004 pseudo-code in bit-operation form, both is_power2 branches), C19_errors, C19_total, "
             "C19_fragment_selection + C19_recovery + C19_recovery_block (for ANY subset of fragments that arrives: a GF(2) combination of the received selection vectors equal to the unit vector of data fragment j, applied to the received fragments, gives data fragment j; one per fragment - i.e. full rank - gives the block back), C19_matrix_line_length. "
             "Every Go output is re-derived from the specification side.",
        note="Trusted: Lean kernel; TS004 transcription (LW/Spec/Frag.lean); fuel for the PRBS draw loop. The recovery clause is proved in certificate form (the combinations are what Gaussian elimination computes; that elimination finds them whenever the rank is full is standard linear algebra, not proved here). One genuine defect repaired (size <= 0).",
        technique="Lean 4 proof (structural induction, linearity) + differential correspondence"),
    "C20": dict(
        text="Lean theorems: C20_gps_roundtrip / _strict_mono / _inverse for EVERY instant or duration and ANY sorted leap table, C20_generated_table_ok + C20_gps_offset (regenerated table = published IERS list, offset = published count for every instant), "
             "C20_ceil_exact (exact binary64 model, kernel-evaluated over the whole domain), C20_airtime_formula / _total / _mono, C20_eirp_table + C20_eirp (largest entry not exceeding x, for every float32). Go results are also judged against the spec formulas.",
        note="Trusted: Lean kernel; hooks + dump; the IERS date list and Semtech formula as transcribed; integer model of time.Time; the exact-float model. One genuine defect repaired (leap boundary one second early). sensitivity.go carries no clause and is not modelled.",
        technique="Lean 4 proof (induction over the leap table, kernel evaluation of an exact float model, monotonicity) + differential correspondence"),
    "C09": dict(
        text="Lean theorems for EVERY byte string: C09_phy_total / C09_macpayload_total / C09_fhdr_total / C09_joinaccept_total (join-accept payload and both CFList kinds) (the Go index expressions, transcribed with panicking slice / index primitives, never leave the buffer and equal the total decoders), "
             "C09_stream_total (cursor arithmetic of the MAC-command loop, any registry with non-negative sizes) + C09_generated_registry_nonneg, C09_app_offsets_total (offsets derived from mask / status bits), C09_app_streams_total, C09_app_payloads_total. "
             "The harness runs every decoder entry point (and the 25 sub-structure decoders directly) on generated, mutated, extremal and exhaustive-small inputs, first on exact-capacity buffers and then on guarded ones, and reports PANIC, HANG, capacity-dependent results and writes to the input buffer; the driver cross-checks the transcriptions against the total decoders on every op.",
        note="PARTIAL: running time (only a 10 s watchdog), writes to the input buffer, base64 and json.Unmarshal of the payload structs are observed, not proved. The transcription of the index expressions is by hand. "
             "Panics found earlier by this machinery and repaired are listed under C07 / C12 / C15 / C17 / C18 / C19.",
        technique="Lean 4 proof (bounds of every index expression; checked = total decoder) + differential correspondence with panic / hang / input-write observation"),
    "C10": dict(
        text="Lean theorems: C10_encryptfrm_memory (EncryptFRMPayload leaves every byte outside the slice unchanged, for any spare capacity, any lawful cipher; model of Go slices with append), C10_encryptfopts_memory (the same for EncryptFOpts: in place, nothing behind the slice, more than 15 bytes refused untouched), C10_old_code_wrote_spare_capacity (the repaired defect), "
             "C10_*_receiver_independent (no field of a decoded MAC payload / ChMask / FHDR / MACPayload / JoinAccept / CFList payload depends on what the receiver held). "
             "Aliasing, inspect-only operations, band-instance isolation and data races are observed on the implementation: overwrite-and-look-again, canaries, two instances, Go race detector.",
        note="PARTIAL by nature: aliasing and data races live in Go's memory model and scheduler; the model's functions are pure and cannot exhibit them, so for those clauses the check is a (structured, seeded) test with the race detector. "
             "Four genuine defects found and repaired (input aliasing, marshal aliasing, spare-capacity overwrite, decode into a used value).",
        technique="Lean 4 proof (slice / append memory model, receiver independence) + differential observation + go build -race"),
    "C16": dict(
        text="Lean theorems for ANY lawful block cipher and all keys / EUIs / nonces / settings: C16_join_success (correct MIC + known device => Success; the device, modelled from the specification, decrypts the join-accept to exactly "
             "JoinNonce | NetID | requested DevAddr | DLSettings | RxDelay | CFList, accepts its MIC, and the key envelopes open with the configured KEKs to the keys the device derives, 1.0 or 1.1 by OptNeg), C16_wrong_mic, C16_unknown_device, "
             "C16_mirror (every answer), C16_key_derivations, C16_rejoin_success_partial + C16_rejoin_keys_differ. Composed from the C04 (MIC / join-accept encryption) and C17 (RFC 3394) theorems. "
             "Differential runs through the real http.Handler; every Go answer is judged by the device-side specification.",
        note="Known finding (recorded, not repaired: three pinned tests freeze the behaviour): rejoin answers carry 1.0-style session keys. Concurrency clause: observed with concurrent batches (and -race in the thorough tier of C10), not proved. "
             "Trusted: JSON/HTTP transport, callbacks as return values, the specification transcription.",
        technique="Lean 4 proof (composition of MIC, ECB, layout and key-wrap theorems over an abstract cipher) + differential correspondence through ServeHTTP"),
    "C17": dict(
        text="Lean theorems: C17_frequency_roundtrip (EVERY integer 0 <= f < 2^32 Hz survives float64 division by 10^6, exact print/parse, multiplication by 10^6 and math.Round - error analysis over an exact integer model of binary64), "
             "C17_percentage_roundtrip (0..1000, kernel evaluation), C17_hex_roundtrip (all byte strings, with/without 0x), C17_time_roundtrip (every instant of the years 0..9999 in every whole-minute zone: RFC 3339 text parses back to the same second) over C17_calendar (days <-> civil date correct for EVERY day number, leap years included), C17_envelope_roundtrip (all keys, all 16/24/32-byte KEKs, any lawful block cipher), "
             "C17_wrap_is_rfc3394 / C17_unwrap_iff_integrity (the code's key wrap = RFC 3394 as stated in the RFC; success iff the integrity check passes), C17_unwrap_rejects_other_lengths, C17_clear_without_label. "
             "Differential runs tie the model (floats bit-exact, RFC 3339 text, envelopes) to the Go code; every Go result is judged against the property.",
        note="PARTIAL: the JSON composition of the 23 payload structs is checked by implementation-only runs and run-time verdicts, not by a theorem. "
             "Two genuine defects repaired (decoder truncation; Unwrap panics / silent truncation for AESKey lengths other than 24). Zone offsets with seconds cannot be expressed in RFC 3339 and are outside the quantifier.",
        technique="Lean 4 proof (exact binary64 error analysis, kernel evaluation, calendar arithmetic by case split + omega, induction over the RFC 3394 rounds) + differential correspondence"),
    "C18": dict(
        text="Lean theorems over the model of all four packages (33 payload types): C18_payload_roundtrip (every in-width value encodes without error to exactly Size() bytes and decodes to itself, also with trailing bytes), "
             "C18_command_roundtrip (registry lookup included), C18_sequence_roundtrip (any sequence, any length, clocksync / multicastsetup / fragmentation), C18_sequence_roundtrip_partial + C18_sequence_exact_length_counterexample (firmwaremanagement), "
             "C18_encode_never_panics / C18_sequence_encode_never_panics (ANY value), C18_sequence_decode_total, C18_keys (= TS005 for any cipher), C18_registry_regenerated (registry dumped from /repo = model registry, all 2048 keys). "
             "Tied to the Go code by differential runs; every Go result is judged against the property directly (size = length, decodes to itself, keys = TS005).",
        note="Trusted: Lean kernel; field widths / key blocks as transcribed in LW/Spec/App.lean; harness + driver comparison. Three genuine defects repaired (Class-B session masks, delete-image flag, nil dereference). "
             "Known finding (recorded, not repaired because two pinned tests demand the current behaviour): exact-length firmware requests reject any following command. DataFragment has no length field by specification and must be last.",
        technique="Lean 4 proof (per-payload decode-encode identities from kernel-decided byte facts, induction over command sequences) + differential correspondence"),
    "C08": dict(
        text="Lean theorems C08_canonical (for ALL byte strings of all lengths: accepted with RFU bits zero => re-encodes to exactly the input) and C08_stable. Tied to the Go decoder/encoder by decode+re-encode runs on uniform and mutated inputs.",
        note="Trusted: Lean kernel; the model of the frame codec. One genuine defect found and repaired (FOpts + FPort 0 + empty FRMPayload accepted but not encodable).",
        technique="Lean 4 proof (decode then encode = identity on accepted strings) + differential correspondence"),
    "C06": dict(
        text="Lean theorems C06_dec_spec / C06_enc_spec: for all 30 MAC payload types, every byte string and every in-range value, the model codec equals a table-driven "
             "bit-layout specification (RFU bits ignored on receive, zero on transmit); C06_registry: the registry regenerated from /repo equals the specification's (CID, direction) table; "
             "C06_frame_layout / C06_frame_decode / C06_frame_fields: MHDR, FHDR / FCtrl (DevAddr | FCtrl bits | FCnt as one 56-bit little-endian integer), join-request, join-accept (DLSettings bits, RxDelay, both CFList kinds), "
             "rejoin-requests and the PHYPayload framing equal the layout tables of LW/Spec/Layout.lean, written with the same generic pack as the MAC commands: the encoder produces the table's bytes, these bytes decode to the frame, and every accepted byte string is the layout of what it decodes to. "
             "The model is tied to the Go code by differential runs (exhaustive for 1-byte payloads, all 256 FCtrl / MHDR bytes); every Go result - MAC payloads and frames, both directions - is also judged directly against the specification.",
        note="Trusted: Lean kernel; the hand-transcribed layout tables (LW/Spec/Mac.lean, LW/Spec/Layout.lean); the harness/driver comparison. At frame level FOpts / FRMPayload enter as the byte strings their own layouts give.",
        technique="Lean 4 proof (model = layout spec) + differential correspondence with the Go code"),
    "C07": dict(
        text="Lean theorems: C07_lossless (encode ok => decode gives the same value, all 30 payload types over their FULL Go field domains), C07_accepts (every in-spec value is accepted), "
             "C07_stream (any well-framed command sequence of any length decodes to itself under ANY registry, hence every history of proprietary registrations), "
             "C07_registry_sizes / C07_registry_is_spec over the registry regenerated from /repo, C07_register_dir/_framed/_range. Tied to the Go code by differential runs incl. registration histories.",
        note="Trusted: Lean kernel; Spec ranges (LW/Spec/Mac.lean); Go map modelled as association list; RWMutex not modelled. Six genuine defects were found by this check and repaired in /repo (known_findings.json, status fixed).",
        technique="Lean 4 proof (round trip + stream induction over arbitrary registries) + differential correspondence"),
}
