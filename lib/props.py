"""Per-property configuration of ./check."""

TB_COMMON = [
    "Lean 4.33 kernel; axioms allowed in property theorems: propext, Classical.choice, Quot.sound (checked by #print axioms on every run)",
    "LW/Spec/*: hand transcription of the LoRaWAN documents (DESIGN.md appendix A) - the statements are only as right as it is",
    "tie model<->code: Go harness (harness/), canonical printers on both sides, compiled Lean driver, textual comparison of every op result",
]

ASSUME_COMMON = [
    "the Lean model mirrors /repo only as far as the correspondence run exercises it (generated + exhaustive-small + corpus inputs)",
]

def P(rule, trusted=(), assume=(), **kw):
    d = dict(rule=rule, trusted_base=TB_COMMON + list(trusted), assumptions=ASSUME_COMMON + list(assume))
    d.update(kw)
    return d

PROPS = {
    "C06": P("structure-aware generation from the repo's own payload types (in-range / full Go domain / boundary values per field), every 1-byte payload exhaustively, "
             "2-byte payloads exhaustively in the thorough tier, all 256 MHDR and FCtrl bytes, all 512 registry keys; an op is non-trivial when the implementation returns ok; distinct = distinct op text",
             trusted=["encoding/binary (PutUint16/32) is modelled as little-endian arithmetic"],
             exhaustive_parts=["all 256 values of every 1-byte MAC payload decoder", "all 256 MHDR bytes", "all FCtrl bytes (both directions)", "registry: all 2x256 (direction, CID) keys"]),
    "C07": P("as C06 for single payloads over the FULL Go field domains (out-of-range included), plus command sequences (<=15 / <=242 bytes, both directions, encoded by the implementation and decoded back), "
             "plus histories of proprietary registrations (each history op is part of the replay); non-trivial = implementation returned ok",
             trusted=["Go map semantics of macPayloadRegistry modelled as an association list", "sync.RWMutex not modelled (sequential histories only)"],
             stateful=True, history_ops=("register",),
             exhaustive_parts=["all 256 values of every 1-byte MAC payload", "registry: all 2x256 keys"]),
}
