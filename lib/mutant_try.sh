#!/bin/bash
# usage: lib/mutant_try.sh <patch.diff> <property>...   applies the patch to /repo, runs the quick checks, undoes it
set -u
patch=$1; shift
cd /verif
if [ -n "$(git -C /repo status --porcelain)" ]; then echo "/repo not clean"; exit 2; fi
git -C /repo apply "$patch" || { echo "patch does not apply"; exit 2; }
for p in "$@"; do
  out=$(./check "$p" 2>&1); rc=$?
  echo "== $p exit=$rc"
  echo "$out" | grep -v "^KNOWN-FINDING" | tail -4
  for r in $(echo "$out" | grep -o "replay=[^ ]*" | cut -d= -f2 | head -2); do python3 -c "
import json,sys;d=json.load(open('$r'));print('   replay:',d.get('clause'),'|',(d.get('ops') or [''])[-1][:200])"; done
done
git -C /repo checkout -- . ; git -C /repo status --short
# the evidence files now describe the changed tree: restore the committed ones
git -C /verif checkout -- evidence 2>/dev/null
