#!/usr/bin/env python3
"""MANIFEST.setup_cmd: build the Go harness against /repo, regenerate LW/Generated, build the Lean project. Offline."""
import os, sys, time
sys.path.insert(0, os.path.dirname(os.path.abspath(__file__)))
import runner as R

t0 = time.time()
with R.Lock():
    ok, out = R.build_harness()
    if not ok:
        print(out); sys.exit(1)
    ok, out = R.regenerate()
    if not ok:
        print(out); sys.exit(1)
    ok, out = R.lake_build(['LW', 'lwdriver'])
    print(out[-3000:])
    if not ok:
        sys.exit(1)
print(f'setup done in {time.time()-t0:.0f} s')
