package main

import (
	"fmt"
	"strings"
)

func init() { generators["C11"] = genC11 }

var idKinds = map[string]int{"EUI64": 8, "DevAddr": 4, "NetID": 3, "AES128Key": 16}

func genC11(g *Gen) {
	boundaryAddrs := []uint32{0, 0xffffffff, 0x7fffffff, 0x80000000, 0xfe000000, 0x01ffffff, 0xaaaaaaaa, 0x55555555}
	netid := func(i int) uint32 {
		if g.thorough() {
			return uint32(i)
		}
		// every type, with boundary and random ID bits
		t := uint32(i % 8)
		id := g.r.U32() & 0x1fffff
		switch (i / 8) % 4 {
		case 0:
			id = 0
		case 1:
			id = 0x1fffff
		case 2:
			id = uint32(1) << uint(g.r.Intn(21))
		}
		return t<<21 | id
	}
	n := g.scale(6000, 1<<24)
	for i := 0; i < n; i++ {
		nid := netid(i)
		a := boundaryAddrs[i%len(boundaryAddrs)]
		if !g.thorough() || i%3 == 0 {
			if i%2 == 0 {
				a = g.r.U32()
			}
		}
		g.addf("setprefix %d %d", nid, a)
		if !g.thorough() || i%16 == 0 {
			g.addf("isnetid %d %d", nid, a)
			// an address that does carry the prefix
			res := execOp(fmt.Sprintf("setprefix %d %d", nid, a))
			if strings.HasPrefix(res, "ok ") {
				g.addf("isnetid %d %s", nid, res[3:])
				if g.r.Chance(1, 2) {
					// flip one bit: membership must change iff the bit is inside prefix|NwkID
					var v uint32
					fmt.Sscan(res[3:], &v)
					g.addf("isnetid %d %d", nid, v^(1<<uint(g.r.Intn(32))))
				}
			}
			g.addf("netidinfo %d", nid)
			g.addf("nwkid %d", a)
		}
	}
	for i := 0; i < 256; i++ {
		g.addf("nwkid %d", uint32(i)<<24|g.r.U32()&0xffffff)
	}
	// representations
	for _, kind := range []string{"EUI64", "DevAddr", "NetID", "AES128Key"} { // fixed order: the op list must be a function of the seed
		k := idKinds[kind]
		for i := 0; i < g.scale(300, 20000); i++ {
			b := g.r.Bytes(k)
			if i%7 == 0 {
				for j := range b {
					b[j] = byte(g.r.Pick(0, 0xff))
				}
			}
			g.addf("idrepr %s %s", kind, hx(b))
			h := hx(b)[1:]
			switch i % 6 {
			case 0:
				g.addf("idparse %s text t%s", kind, h)
			case 1:
				g.addf("idparse %s text t0x%s", kind, h)
			case 2:
				g.addf("idparse %s text t%s", kind, strings.ToUpper(h))
			case 3:
				g.addf("idparse %s bin %s", kind, hx(b))
			case 4:
				g.addf("idparse %s scan %s", kind, hx(b))
			default:
				// malformed: wrong length, odd digits, bad characters, doubled prefix
				bad := []string{h[2:], h + "00", h[1:], "0x0x" + h, "g" + h[1:], "", "0x", h + " ", "0X" + h}
				g.addf("idparse %s text t%s", kind, bad[g.r.Intn(len(bad))])
				g.addf("idparse %s bin %s", kind, hx(g.r.Bytes(g.r.Pick(0, k-1, k+1, 2*k))))
				g.addf("idparse %s scan %s", kind, hx(g.r.Bytes(g.r.Pick(0, k-1, k+1, 2*k))))
				g.addf("idparse %s scanstr %s", kind, h)
			}
		}
	}
}
