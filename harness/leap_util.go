package main

import (
	"strconv"

	"github.com/brocaar/lorawan/gps"
)

func leapTimes() (int64, []int64) {
	epoch, times, _ := gps.VerifLeapTable()
	var out []int64
	for _, t := range times {
		out = append(out, t.UnixNano())
	}
	return epoch.UnixNano(), out
}

func itoa(v int64) string { return strconv.FormatInt(v, 10) }
