package main

// C17 generator: Frequency / Percentage sweeps, JSON number texts, HEX texts, RFC 3339 instants and texts,
// key envelopes, payload struct round trips.

import (
	"fmt"
	"strings"
)

func init() { generators["C17"] = genC17 }

func hexOfText(s string) string { return hx([]byte(s)) }

func mutateText(r *RNG, s string, alphabet string) string {
	b := []byte(s)
	switch r.Intn(6) {
	case 0: // replace a character
		if len(b) > 0 {
			b[r.Intn(len(b))] = alphabet[r.Intn(len(alphabet))]
		}
	case 1: // delete
		if len(b) > 0 {
			i := r.Intn(len(b))
			b = append(b[:i], b[i+1:]...)
		}
	case 2: // insert
		i := r.Intn(len(b) + 1)
		b = append(b[:i], append([]byte{alphabet[r.Intn(len(alphabet))]}, b[i:]...)...)
	case 3: // change a digit
		for k := 0; k < 8; k++ {
			if len(b) == 0 {
				break
			}
			i := r.Intn(len(b))
			if b[i] >= '0' && b[i] <= '9' {
				b[i] = byte('0' + r.Intn(10))
				break
			}
		}
	case 4: // truncate
		if len(b) > 0 {
			b = b[:r.Intn(len(b))]
		}
	default: // append
		b = append(b, alphabet[r.Intn(len(alphabet))])
	}
	return string(b)
}

func genC17(g *Gen) {
	r := g.r
	// ---- Frequency ----
	for f := 0; f < g.scale(3000, 300000); f++ {
		g.addf("freqrt %d", f)
	}
	for _, f := range []int64{128200000, 868100000, 868300000, 902300000, 2403000000, 4294967295, 4294967296, 1, 999999, 1000000, 1000001, 16777216, 9007199254740992, 9007199254740993, -1, -868100000} {
		g.addf("freqrt %d", f)
		g.addf("freqenc %d", f)
	}
	// every 100 kHz / 25 kHz / 12.5 kHz channel raster point in 100 MHz .. 3 GHz (the values the bands use)
	step := int64(g.scale(2500000, 12500))
	for f := int64(100000000); f <= 3000000000; f += step {
		g.addf("freqrt %d", f)
	}
	// around powers of two and ten (binade / decade boundaries of the MHz value)
	for e := 0; e < 33; e++ {
		for d := int64(-3); d <= 3; d++ {
			g.addf("freqrt %d", (int64(1)<<uint(e))+d)
		}
	}
	for p := int64(1); p <= 10000000000; p *= 10 {
		for d := int64(-3); d <= 3; d++ {
			g.addf("freqrt %d", p+d)
		}
	}
	for i := 0; i < g.scale(20000, 2000000); i++ {
		switch i % 5 {
		case 0, 1, 2:
			g.addf("freqrt %d", r.U32())
		case 3:
			g.addf("freqenc %d", r.U32())
		default:
			g.addf("freqrt %d", int64(r.U64()%(1<<53))-(1<<52))
		}
	}
	// ---- Percentage ----
	for p := -200; p <= 1000; p++ {
		g.addf("pctrt %d", p)
		g.addf("pctenc %d", p)
	}
	for i := 0; i < g.scale(500, 20000); i++ {
		g.addf("pctrt %d", int64(int32(r.U32())))
	}
	// ---- JSON number texts ----
	fixed := []string{"null", " 868.1 ", "868.1x", "01", "1.", ".5", "+1", "1e", "-0", "1E+2", "1e-400", "4e-324", "2e-324", "3e-324", "1e400", "1e308", "1.8e308", "1.7976931348623157e308",
		"1.7976931348623159e308", "\"1\"", "true", "[1]", "{}", "0x10", "1_0", "NaN", "Infinity", "-", "", "1e3", "0.29", "-0.29", "00", "-01", "1.5e+", "2.5E-1", "0.0000005", "0.00000049999999", "0.0000015",
		"868.1000005", "868.1000004999", "128.2", "0.57", "0.58", "0.285", "0.295", "0.005", "0.015", "0.025", "1e22", "1e23", "9007199254740993", "9007199254740992.5", "0.1", "0.30000000000000004",
		"2.2250738585072011e-308", "2.2250738585072014e-308", "4.9406564584124654e-324", "2.4703282292062327e-324", "2.4703282292062328e-324", "\t1\n", "1 2", "1,2", "-", "--1", "1e+-2", "1.2.3", "1ee2", "9223372036854.775807"}
	for _, t := range fixed {
		g.add("freqdec " + hexOfText(t))
		g.add("pctdec " + hexOfText(t))
	}
	for i := 0; i < g.scale(4000, 200000); i++ {
		var t string
		switch i % 6 {
		case 0:
			t = fmt.Sprintf("%d.%06d", r.Intn(4295), r.Intn(1000000))
		case 1:
			t = fmt.Sprintf("%d.%d", r.Intn(5000), r.U32())
		case 2:
			t = fmt.Sprintf("%d.%de%d", r.Intn(1000), r.Intn(100000), r.Intn(40)-20)
		case 3:
			t = fmt.Sprintf("%d%sE%s%d", r.U32(), []string{"", ".5", ".25", ".0"}[r.Intn(4)], []string{"", "+", "-"}[r.Intn(3)], r.Intn(30))
		case 4:
			t = fmt.Sprintf("0.%02d%s", r.Intn(100), []string{"", "5", "4999999999", "5000000001"}[r.Intn(4)])
		default:
			t = fmt.Sprintf("%d.%07d", r.Intn(3000), r.Intn(10000000))
		}
		if r.Chance(1, 8) {
			t = "-" + t
		}
		if r.Chance(1, 5) {
			t = mutateText(r, t, "0123456789.eE+-x \"")
		}
		if i%2 == 0 {
			g.add("freqdec " + hexOfText(t))
		} else {
			g.add("pctdec " + hexOfText(t))
		}
	}
	// ---- HEXBytes ----
	for l := 0; l <= 40; l++ {
		g.add("hexenc " + hx(r.Bytes(l)))
	}
	for _, t := range []string{"", "0x", "0x0x", "0x0x00", "0X00", "00", "0", "0g", "aA", "Ff00", "0xff", "x", "0x0", " 00", "00 ", "zz", "0x0X", "0xx0"} {
		g.add("hexdec " + hexOfText(t))
	}
	for i := 0; i < g.scale(1500, 50000); i++ {
		b := r.Bytes(r.Intn(24))
		t := fmt.Sprintf("%x", b)
		switch r.Intn(5) {
		case 0:
			t = strings.ToUpper(t)
		case 1:
			t = "0x" + t
		case 2:
			t = mutateText(r, t, "0123456789abcdefABCDEFxXgG ")
		}
		g.add("hexdec " + hexOfText(t))
	}
	// ---- ISO8601Time ----
	offs := []int64{0, 0, 60, -60, 90, -330, 345, 720, -720, 840, 1, -1, 59, 1439, -1439}
	lo, hi := int64(-62167219200), int64(253402300799) // 0000-01-01 .. 9999-12-31T23:59:59
	for i := 0; i < g.scale(3000, 300000); i++ {
		var s int64
		switch i % 4 {
		case 0:
			s = lo + int64(r.U64()%uint64(hi-lo+1))
		case 1:
			s = int64(r.U64() % 4102444800) // 1970..2100
		case 2: // around a year / leap-day / century boundary
			y := int64(r.Intn(10000))
			days := y*365 + y/4 - y/100 + y/400 - 719528
			s = days*86400 + int64(r.Intn(5)-2)*86400 + int64(r.Intn(86400)) + int64(r.Intn(2))*59*86400
		default:
			s = int64(r.Intn(86400*800)) - 86400*400
		}
		off := offs[r.Intn(len(offs))]
		g.addf("timert %d %d %d", s, r.Intn(1000000000), off)
		if i%10 == 0 {
			g.addf("timeenc %d %d %d", s, r.Intn(1000000000), off)
		}
	}
	for _, s := range []int64{lo, lo - 1, lo + 86399, hi, hi + 1, -62135596800, -62135596801, 0, -1, 951782400, 951868800, 4107542400, 253402300800 + 86400*400, lo - 86400*800} {
		for _, off := range []int64{0, 60, -60, 840, -720} {
			g.addf("timert %d 0 %d", s, off)
		}
	}
	tfixed := []string{"2020-09-13T12:26:40Z", "2020-09-13T12:26:40.5+01:30", "2020-09-13T5:26:40,1234567899999-24:60", "2020-13-01T00:00:00Z", "2020-00-01T00:00:00Z", "2020-02-30T00:00:00Z", "2020-02-29T00:00:00Z",
		"1900-02-29T00:00:00Z", "2000-02-29T00:00:00Z", "2020-12-01T24:00:00Z", "2020-12-01T23:60:00Z", "2020-12-01T23:59:60Z", "2020-12-01T23:59:59+25:00", "2020-12-01T23:59:59+24:61",
		"2020-12-01T23:59:59+24:60", "2020-12-01t23:59:59Z", "2020-12-01T23:59:59z", "2020-12-01 23:59:59Z", "2020-12-01T23:59:59", "2020-12-01T23:59:59+0100", "2020-12-01T23:59:59+01", "20-12-01T23:59:59Z",
		"02020-12-01T23:59:59Z", "2020-1-01T23:59:59Z", "2020-01-1T23:59:59Z", "2020-01-01T23:5:59Z", "2020-01-01T23:59:5Z", "2020-01-01T23:59:59.Z", "2020-01-01T23:59:59.1.2Z", "0000-01-01T00:00:00Z",
		"9999-12-31T23:59:59-00:00", "2020-01-01T23:59:59ZZ", "2020-01-01T23:59:59Z ", " 2020-01-01T23:59:59Z", "", "T", "2020-01-00T00:00:00Z", "2020-04-31T00:00:00Z", "2021-02-29T00:00:00Z", "-020-01-01T00:00:00Z",
		"2020-01-01T00:00:00+1a:00", "2020-01-01T00:00:00.000000000999Z", "2020-01-01T00:00:00,5Z", "2020-01-01T00:00:00;5Z"}
	for _, t := range tfixed {
		g.add("timedec " + hexOfText(t))
	}
	for i := 0; i < g.scale(3000, 200000); i++ {
		s := lo + int64(r.U64()%uint64(hi-lo+1))
		res := execOp(fmt.Sprintf("timeenc %d 0 %d", s, offs[r.Intn(len(offs))]))
		if !strings.HasPrefix(res, "ok x") {
			continue
		}
		tb, _ := unhx(res[3:])
		t := string(tb)
		if r.Chance(1, 4) {
			t = strings.Replace(t, "Z", []string{".5Z", ",25Z", ".123456789Z", ".1234567891Z", "+00:00", "-00:00", "+24:00", "+23:60"}[r.Intn(8)], 1)
		}
		n := r.Intn(3)
		for k := 0; k < n; k++ {
			t = mutateText(r, t, "0123456789-:TZ+., tz")
		}
		g.add("timedec " + hexOfText(t))
	}
	// ---- key envelopes ----
	for _, kl := range []int{16, 24, 32} {
		for i := 0; i < g.scale(60, 3000); i++ {
			kek, key := r.Bytes(kl), r.Bytes(16)
			op := fmt.Sprintf("kwrap 1 %s %s", hx(kek), hx(key))
			g.add(op)
			res := execOp(op)
			if strings.HasPrefix(res, "ok 1 x") {
				ct := res[5:]
				g.addf("kunwrap %s %s", hx(kek), ct)
				cb, _ := unhx(ct)
				// wrong KEK, single-bit corruption, truncation, extension
				g.addf("kunwrap %s %s", hx(r.Bytes(kl)), ct)
				c2 := append([]byte{}, cb...)
				c2[r.Intn(len(c2))] ^= 1 << uint(r.Intn(8))
				g.addf("kunwrap %s %s", hx(kek), hx(c2))
				g.addf("kunwrap %s %s", hx(kek), hx(cb[:r.Intn(len(cb))]))
				g.addf("kunwrap %s %s", hx(kek), hx(append(cb, r.Bytes(1+r.Intn(16))...)))
			}
			g.addf("kwrap 0 %s %s", hx(kek), hx(key))
		}
	}
	for _, kl := range []int{0, 1, 8, 15, 17, 23, 25, 31, 33, 48, 64} {
		g.addf("kwrap 1 %s %s", hx(r.Bytes(kl)), hx(r.Bytes(16)))
		g.addf("kwrap 0 %s %s", hx(r.Bytes(kl)), hx(r.Bytes(16)))
		g.addf("kunwrap %s %s", hx(r.Bytes(kl)), hx(r.Bytes(24)))
	}
	for l := 0; l <= 48; l++ {
		g.addf("kunwrap %s %s", hx(r.Bytes(16)), hx(r.Bytes(l)))
		// the RFC 3394 IV as a prefix: a short input that passes the library's integrity comparison
		b := append([]byte{0xa6, 0xa6, 0xa6, 0xa6, 0xa6, 0xa6, 0xa6, 0xa6}, r.Bytes(l)...)
		g.addf("kunwrap %s %s", hx(r.Bytes(16)), hx(b))
	}
	g.add("kwrap 1 x000102030405060708090a0b0c0d0e0f x00112233445566778899aabbccddeeff")
	g.add("kwrap 1 x000102030405060708090a0b0c0d0e0f1011121314151617 x00112233445566778899aabbccddeeff")
	g.add("kwrap 1 x000102030405060708090a0b0c0d0e0f101112131415161718191a1b1c1d1e1f x00112233445566778899aabbccddeeff")
	// ---- payload structs (implementation-only round trip; the model answers "same") ----
	for ti := range backendPayloadTypes {
		for i := 0; i < g.scale(25, 1000); i++ {
			g.addf("payloadrt %d %d", ti, r.U64()%1000000007)
		}
	}
}
