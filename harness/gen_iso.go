package main

// C09 (decoder totality) and C10 (isolation) generators.

import (
	"crypto/aes"
	"encoding/base64"
	"encoding/json"
	"fmt"
	"reflect"
	"strings"
)

func init() {
	generators["C09"] = genC09
	generators["C10"] = genC10
}

// rawOrMutated returns uniform bytes, a valid frame, or a structure-aware mutation of a valid frame.
func (g *Gen) rawOrMutated(reg []regEntry, i int) []byte {
	switch i % 4 {
	case 0:
		l := g.r.Pick(0, 1, 4, 5, 8, 12, 13, 14, 17, 19, 23, 24, 33, 20, 10)
		if g.r.Bool() {
			l = g.r.Intn(80)
		}
		b := g.r.Bytes(l)
		if l > 0 {
			b[0] = byte(g.r.Intn(8)<<5) | byte(g.r.Intn(4))
		}
		return b
	default:
		f := g.genAnyFrame(reg, true)
		b := encodeFrameTok(f)
		if b == nil {
			return g.r.Bytes(g.r.Intn(30))
		}
		if i%4 == 1 {
			return b
		}
		b = g.mutateBytes(b)
		if g.r.Chance(1, 3) {
			b = g.mutateBytes(b)
		}
		return b
	}
}

// extremal byte strings of length l
func extremal(l int) [][]byte {
	mk := func(fill byte) []byte {
		b := make([]byte, l)
		for i := range b {
			b[i] = fill
		}
		return b
	}
	out := [][]byte{mk(0), mk(0xff)}
	if l > 0 {
		for _, t := range []byte{1, 2, 3, 0x80, 0xff} {
			b := mk(0)
			b[l-1] = t
			c := mk(0)
			c[0] = t
			d := mk(0xff)
			d[l-1] = t
			out = append(out, b, c, d)
		}
	}
	return out
}

func genC09(g *Gen) {
	reg := builtinRegistry()
	r := g.r
	// ---- frames: every length 0..512, every MType; binary and base64 ----
	for l := 0; l <= 512; l++ {
		b := r.Bytes(l)
		if l > 0 {
			b[0] = byte((l%8)<<5) | (b[0] & 0x1f)
		}
		g.add("phydec " + hx(b))
		g.add("phytextdec t" + base64.StdEncoding.EncodeToString(b))
		if l%4 == 0 {
			g.addf("rawcrypt %s %s", g.key(), hx(b))
			g.addf("rawja %s %s", g.key(), hx(b))
		}
	}
	// all one-byte and (thorough) all two-byte frames; five-byte frames over all first bytes
	for x := 0; x < 256; x++ {
		g.addf("phydec x%02x", x)
		g.addf("phydec x%02x%s", x, hx(r.Bytes(4))[1:])
		g.addf("rawcrypt %s x%02x%s", g.key(), x, hx(r.Bytes(11 + r.Intn(12)))[1:])
	}
	if g.thorough() {
		for x := 0; x < 65536; x++ {
			g.addf("phydec x%04x", x)
		}
	}
	n := g.scale(4000, 300000)
	for i := 0; i < n; i++ {
		b := g.rawOrMutated(reg, i)
		switch i % 5 {
		case 0:
			g.add("phydec " + hx(b))
		case 1:
			g.addf("rawcrypt %s %s", g.key(), hx(b))
		case 2:
			g.addf("rawja %s %s", g.key(), hx(b))
		case 3:
			t := base64.StdEncoding.EncodeToString(b)
			if r.Chance(1, 3) {
				t = mutateText(r, t, "ABCabc019+/=-_. ")
				t = strings.ReplaceAll(t, " ", "")
			}
			g.add("phytextdec t" + t)
		default:
			g.add("phycanon " + hx(b))
		}
	}
	// FOptsLen x remaining-length grid (index arithmetic 7+FOptsLen+1)
	for fol := 0; fol < 16; fol++ {
		for total := 0; total < 30; total++ {
			for _, mt := range []int{2, 3} {
				b := append([]byte{byte(mt << 5), 1, 2, 3, 4, byte(fol), 9, 0}, r.Bytes(total)...)
				g.add("phydec " + hx(b))
				g.addf("rawcrypt %s %s", g.key(), hx(b))
			}
		}
	}
	// ---- MAC commands: single payloads at every length, MACCommand, streams ----
	for _, e := range reg {
		for l := 0; l <= e.size+4; l++ {
			for k := 0; k < g.scale(3, 40); k++ {
				g.addf("macdec %s %s", e.name, hx(r.Bytes(l)))
			}
		}
	}
	for _, up := range []int{0, 1} {
		for cid := 0; cid < 256; cid++ {
			g.addf("cmddec %d x%02x", up, cid)
			for k := 0; k < g.scale(2, 12); k++ {
				g.addf("cmddec %d x%02x%s", up, cid, hx(r.Bytes(r.Intn(8)))[1:])
			}
		}
		g.addf("cmddec %d x", up)
		for i := 0; i < g.scale(1500, 100000); i++ {
			var b []byte
			switch i % 3 {
			case 0:
				b = r.Bytes(r.Intn(40))
			case 1: // a valid stream, mutated
				cs := g.genCmds(reg, up == 1, 30, 0)
				res := execOp(fmt.Sprintf("streamrt %d %s", up, itemsTok(cs)))
				if strings.HasPrefix(res, "ok x") {
					f := strings.Fields(res[3:])
					b, _ = unhx(f[0])
					b = g.mutateBytes(b)
				}
			default: // CIDs from the registry with random tails
				for j := 0; j < 1+r.Intn(6); j++ {
					e := reg[r.Intn(len(reg))]
					b = append(b, byte(e.cid))
					b = append(b, r.Bytes(r.Intn(e.size+2))...)
				}
			}
			g.addf("stream %d %s", up, hx(b))
		}
	}
	// ---- CFList, join-accept payloads ----
	for l := 0; l <= 40; l++ {
		for k := 0; k < g.scale(4, 60); k++ {
			b := r.Bytes(l)
			if l == 16 && k%2 == 0 {
				b[15] = byte(k % 4)
			}
			g.add("cflistdec " + hx(b))
		}
	}
	// extremal byte strings (all zero, all 0xff, one distinguished first / last byte) for the fixed-layout decoders:
	// CFList of every length, and join-accept plaintexts (the ciphertext is made with the inverse block operation, so that
	// DecryptJoinAcceptPayload sees exactly these bytes)
	for l := 0; l <= 33; l++ {
		for _, b := range extremal(l) {
			g.add("cflistdec " + hx(b))
		}
	}
	for _, l := range []int{16, 32} {
		for _, pt := range extremal(l) {
			k := r.Bytes(16)
			blk, _ := aes.NewCipher(k)
			ct := make([]byte, l)
			for i := 0; i < l; i += 16 {
				blk.Decrypt(ct[i:i+16], pt[i:i+16])
			}
			g.addf("rawja %s %s", hx(k), hx(append([]byte{0x20}, ct...)))
		}
	}
	for up := 0; up < 2; up++ {
		for l := 1; l <= 20; l++ {
			for _, b := range extremal(l) {
				g.addf("stream %d %s", up, hx(b))
			}
		}
	}
	// every exported sub-structure decoder, called directly with every short length
	for _, kind := range subDecoderNames {
		for l := 0; l <= 34; l++ {
			for _, b := range extremal(l) {
				g.addf("subdec %s %d %s", kind, l%2, hx(b))
			}
			for k := 0; k < g.scale(2, 40); k++ {
				g.addf("subdec %s %d %s", kind, k%2, hx(r.Bytes(l)))
			}
		}
	}
	// ---- application layer: the four command decoders, both directions ----
	for _, pn := range appPkgNames {
		for up := 0; up < 2; up++ {
			for l := 0; l <= 64; l++ {
				g.addf("appdecs %s %d %s", pn, up, hx(r.Bytes(l)))
			}
			for cid := 0; cid < 256; cid++ {
				g.addf("appdec %s %d x%02x", pn, up, cid)
				g.addf("appdec %s %d x%02x%s", pn, up, cid, hx(r.Bytes(1 + r.Intn(6)))[1:])
			}
			for i := 0; i < g.scale(600, 40000); i++ {
				var b []byte
				es := appRegistry[pn]
				for j := 0; j < 1+r.Intn(5); j++ {
					e := es[r.Intn(len(es))]
					b = append(b, byte(e.cid))
					l := e.size
					if r.Chance(1, 3) {
						l = r.Intn(e.size + 8)
					}
					b = append(b, r.Bytes(l)...)
				}
				if r.Chance(1, 4) {
					b = g.mutateBytes(b)
				}
				g.addf("appdecs %s %d %s", pn, up, hx(b))
			}
		}
	}
	// ---- backend text / JSON types: arbitrary bytes as text ----
	for i := 0; i < g.scale(1500, 60000); i++ {
		var t []byte
		switch i % 4 {
		case 0:
			t = r.Bytes(r.Intn(40))
		case 1:
			t = []byte(mutateText(r, "2020-09-13T12:26:40.5+01:30", "0123456789-:TZ+.,\x00\xff é"))
		case 2:
			t = []byte(mutateText(r, fmt.Sprintf("%d.%d", r.Intn(3000), r.U32()), "0123456789eE+-.\x00\xff\""))
		default:
			t = []byte(mutateText(r, fmt.Sprintf("%x", r.Bytes(r.Intn(12))), "0123456789abcdefxX\x00\xff "))
		}
		op := []string{"timedec", "freqdec", "pctdec", "hexdec"}[r.Intn(4)]
		g.add(op + " " + hx(t))
	}
	// every text of length 0..2 over the characters the text decoders look at (prefix handling, signs, separators)
	alpha := []byte("01x9aAgG-+.eE:TZ\" ,\x00\xff")
	var shortTexts [][]byte
	shortTexts = append(shortTexts, []byte{})
	for _, a := range alpha {
		shortTexts = append(shortTexts, []byte{a})
		for _, b := range alpha {
			shortTexts = append(shortTexts, []byte{a, b})
		}
	}
	for _, t := range shortTexts {
		for _, op := range []string{"hexdec", "timedec", "freqdec", "pctdec"} {
			g.add(op + " " + hx(t))
		}
		// the same text inside a JSON string field of type HEXBytes / ISO8601Time / Frequency
		if len(t) > 0 && t[0] != '"' && t[0] != '\\' && t[0] >= 0x20 && t[0] < 0x7f && (len(t) < 2 || (t[1] != '"' && t[1] != '\\' && t[1] >= 0x20 && t[1] < 0x7f)) {
			g.addf("jsonpl 0 %s", hexOfText(`{"PHYPayload":"`+string(t)+`"}`))
			g.addf("jsonpl 6 %s", hexOfText(`{"ULMetaData":{"RecvTime":"`+string(t)+`"}}`))
			g.addf("jsonpl 21 %s", hexOfText(`{"PingSlotFreq":`+string(t)+`}`))
		}
	}
	for l := 0; l <= 48; l++ {
		g.addf("kunwrap %s %s", hx(r.Bytes(16)), hx(r.Bytes(l)))
		g.addf("kunwrap %s %s", hx(r.Bytes(r.Intn(40))), hx(append([]byte{0xa6, 0xa6, 0xa6, 0xa6, 0xa6, 0xa6, 0xa6, 0xa6}, r.Bytes(l)...)))
	}
	// JSON payload structs: valid encodings, mutated encodings, garbage
	for ti, t := range backendPayloadTypes {
		for i := 0; i < g.scale(20, 1500); i++ {
			v := reflect.New(t)
			fillBackend(r, v.Elem(), 0)
			b, err := json.Marshal(v.Interface())
			if err != nil {
				b = []byte("{}")
			}
			switch i % 4 {
			case 1:
				b = g.mutateBytes(b)
			case 2:
				b = []byte(mutateText(r, string(b), "{}[]\":,0123456789nulltruefalse\\u \x00"))
			case 3:
				b = r.Bytes(r.Intn(60))
			}
			g.addf("jsonpl %d %s", ti, hx(b))
		}
	}
	for _, t := range []string{"", "null", "{", "}", "[]", "{\"PHYPayload\":\"zz\"}", "{\"PHYPayload\":5}", "{\"DevEUI\":\"01\"}", "{\"ULMetaData\":{\"RecvTime\":\"x\"}}",
		"{\"DeviceProfile\":{\"PingSlotFreq\":\"868.1\"}}", "{\"DeviceProfile\":{\"PingSlotFreq\":1e999}}", "{\"DLSettings\":\"zz\"}", "{\"TransactionID\":-1}", "{\"TransactionID\":4294967296}"} {
		for ti := range backendPayloadTypes {
			g.addf("jsonpl %d %s", ti, hexOfText(t))
		}
	}
	// identifier text / binary forms
	for i := 0; i < g.scale(300, 10000); i++ {
		kind := []string{"EUI64", "DevAddr", "NetID", "AES128Key"}[r.Intn(4)]
		how := []string{"text", "bin", "scan"}[r.Intn(3)]
		if how == "text" {
			g.addf("idparse %s text t%s", kind, strings.ReplaceAll(mutateText(r, fmt.Sprintf("%x", r.Bytes(r.Pick(8, 4, 3, 16))), "0123456789abcdefxXg"), " ", ""))
		} else {
			g.addf("idparse %s %s %s", kind, how, hx(r.Bytes(r.Intn(20))))
		}
	}
}

func genC10(g *Gen) {
	reg := builtinRegistry()
	r := g.r
	// ---- aliasing of decoder inputs and encoder outputs ----
	for i := 0; i < g.scale(1500, 60000); i++ {
		b := g.rawOrMutated(reg, i%3+1)
		g.add("alias_dec " + hx(b))
		if i%3 == 0 {
			g.add("alias_prop " + hx(r.Bytes(r.Intn(20))))
			g.add("alias_data " + hx(r.Bytes(r.Intn(40))))
		}
	}
	for i := 0; i < g.scale(1200, 50000); i++ {
		f := g.genAnyFrame(reg, true)
		g.add("alias_enc " + f)
		g.addf("inspect %s %s", g.key(), f)
		if i%2 == 0 {
			g.addf("alias_crypt %s %s", g.key(), f)
		}
	}
	// application payloads of every length 0..64 (whole key-stream blocks included) through the in-place encryption
	for n := 0; n <= 64; n++ {
		for _, mt := range []int{2, 3} {
			g.addf("alias_crypt %s %d 0 %s MAC %d 00000 %d 0 %d 1 D:%s", g.key(), mt, hx(r.Bytes(4)), r.U32(), r.U32Edge(), 1+r.Intn(223), hx(r.Bytes(n)))
		}
	}
	for _, pn := range appPkgNames {
		for up := 0; up < 2; up++ {
			for i := 0; i < g.scale(150, 5000); i++ {
				var b []byte
				es := appRegistry[pn]
				for j := 0; j < 1+r.Intn(4); j++ {
					e := es[r.Intn(len(es))]
					b = append(b, byte(e.cid))
					l := e.size
					if e.name == "DataFragment" {
						l = 2 + r.Intn(20)
					}
					b = append(b, r.Bytes(l)...)
				}
				g.addf("alias_app %s %d %s", pn, up, hx(b))
			}
		}
	}
	// ---- guard bytes around the slices given to the encryption functions: every length 0..64 ----
	for l := 0; l <= 64; l++ {
		for k := 0; k < g.scale(4, 60); k++ {
			g.addf("guardfrm %s %d %d %d %s", g.key(), r.Intn(2), r.U32(), r.U32(), hx(r.Bytes(l)))
		}
	}
	for l := 0; l <= 18; l++ {
		for k := 0; k < g.scale(4, 60); k++ {
			g.addf("guardfopts %s %d %d %d %d %s", g.key(), r.Intn(2), r.Intn(2), r.U32(), r.U32(), hx(r.Bytes(l)))
		}
	}
	// ---- decode into a used value ----
	for _, e := range reg {
		for i := 0; i < g.scale(40, 1500); i++ {
			// the used value holds the decoding of other bytes; all-ones / all-zero receivers forced
			b1 := r.Bytes(e.size)
			if i%3 == 0 {
				for j := range b1 {
					b1[j] = 0xff
				}
			}
			res := execOp(fmt.Sprintf("macdec %s %s", e.name, hx(b1)))
			if !strings.HasPrefix(res, "ok ") {
				continue
			}
			b2 := r.Bytes(e.size)
			if i%4 == 1 {
				for j := range b2 {
					b2[j] = 0
				}
			}
			g.addf("macdecinto %s %s", res[3:], hx(b2))
		}
	}
	for i := 0; i < g.scale(800, 40000); i++ {
		b1, b2 := g.rawOrMutated(reg, 1), g.rawOrMutated(reg, i%3+1)
		g.addf("reuse_phy %s %s", hx(b1), hx(b2))
		if len(b1) > 5 && len(b2) > 5 && (b1[0]>>5 >= 2 && b1[0]>>5 <= 5) {
			g.addf("reuse_macpl %d %s %s", r.Intn(2), hx(b1[1:len(b1)-4]), hx(b2[1:len(b2)-4]))
		}
	}
	// MACPayload: with FOpts / FPort / FRMPayload first, then without
	for fol := 0; fol < 16; fol++ {
		for extra := 0; extra < 4; extra++ {
			b1 := append([]byte{1, 2, 3, 4, byte(fol), 9, 0}, r.Bytes(fol)...)
			b1 = append(b1, byte(1+r.Intn(200)))
			b1 = append(b1, r.Bytes(1+r.Intn(8))...)
			b2 := []byte{1, 2, 3, 4, 0, 9, 0}
			if extra > 0 {
				b2 = append(b2, byte(r.Intn(3)))
				b2 = append(b2, r.Bytes(extra-1)...)
			}
			for up := 0; up < 2; up++ {
				g.addf("reuse_macpl %d %s %s", up, hx(b1), hx(b2))
				g.addf("reuse_macpl %d %s %s", up, hx(b2), hx(b1))
			}
		}
	}
	for i := 0; i < g.scale(200, 5000); i++ {
		ja28, ja12 := r.Bytes(28), r.Bytes(12)
		ja28[27] = byte(r.Intn(2))
		g.addf("reuse_ja %s %s", hx(ja28), hx(ja12))
		g.addf("reuse_ja %s %s", hx(ja12), hx(ja28))
		g.addf("reuse_cfl 1 %s %s", hx(r.Bytes(2*r.Intn(8))), hx(r.Bytes(2*r.Intn(8))))
		g.addf("reuse_cfl 0 %s %s", hx(r.Bytes(3*r.Intn(6))), hx(r.Bytes(3*r.Intn(6))))
	}
	for _, pn := range appPkgNames {
		for _, e := range appRegistry[pn] {
			up := int(b2i(e.up))
			for i := 0; i < g.scale(25, 800); i++ {
				l1, l2 := e.size, e.size
				if e.name == "McGroupStatusAns" || e.name == "DataFragment" || strings.HasSuffix(e.name, "SessionAns") || e.name == "DevUpgradeImageAns" {
					l1, l2 = 21, 21
				}
				b1, b2 := r.Bytes(l1), r.Bytes(l2)
				if i%3 == 0 {
					for j := range b1 {
						b1[j] = 0xff
					}
					for j := range b2 {
						b2[j] = 0
					}
				}
				g.addf("reuse_apppl %s %d %d %s %s", pn, up, e.cid, hx(b1), hx(b2))
				g.addf("reuse_app %s %d %s %s", pn, up, hx(append([]byte{byte(e.cid)}, b1...)), hx(append([]byte{byte(e.cid)}, b2...)))
			}
		}
	}
	// ---- band instances share no mutable state ----
	for _, k := range allCfgKeys() {
		for i := 0; i < g.scale(2, 40); i++ {
			g.addf("bandiso %s %s", k, g.genHistory(k, 10, i%4 == 3))
		}
	}
}
