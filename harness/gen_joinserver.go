package main

// C16 generator: join / rejoin requests for known and unknown devices, right and wrong MICs, both OptNeg values,
// CFList present / absent / malformed, KEKs configured / absent / of invalid size, malformed sender / receiver IDs,
// wrong frame types, and batches of requests sent concurrently through one handler.

import (
	"fmt"
	"strings"

	lw "github.com/brocaar/lorawan"
)

func init() { generators["C16"] = genC16 }

type jsGenOpts struct {
	rejoinType int // -1 = join-request, 0 / 1 / 2
	good       bool
}

func genJSRequestArgs(r *RNG, forceGood bool) string {
	var nwk, app lw.AES128Key
	copy(nwk[:], r.Bytes(16))
	copy(app[:], r.Bytes(16))
	var devEUI, joinEUI lw.EUI64
	copy(devEUI[:], r.Bytes(8))
	copy(joinEUI[:], r.Bytes(8))
	var netID lw.NetID
	copy(netID[:], r.Bytes(3))
	var devAddr lw.DevAddr
	copy(devAddr[:], r.Bytes(4))
	nonce := int(r.U32() & 0xffffff)
	if r.Chance(1, 6) {
		nonce = []int{0, 1, 0xffffff, 0xfffffe, 65536}[r.Intn(5)]
	}
	devNonce := r.U16()
	rejoin := r.Chance(2, 5)
	rjType := r.Intn(3)
	optNeg := r.Bool()
	if rejoin {
		optNeg = !r.Chance(1, 10)
	}
	known, micOK := true, true
	sender := netID.String()
	receiver := joinEUI.String()
	rxDelay := r.Intn(16)
	rx2dr, rx1off := r.Intn(16), r.Intn(8)
	var cfList []byte
	switch r.Intn(3) {
	case 1:
		cf := lw.CFList{CFListType: lw.CFListChannel, Payload: &lw.CFListChannelPayload{Channels: [5]uint32{uint32(r.Intn(1<<24)) * 100, uint32(r.Intn(1<<24)) * 100, 0, 868700000, 0}}}
		cfList, _ = cf.MarshalBinary()
	case 2:
		var m lw.CFListChannelMaskPayload
		for i := 0; i < 1+r.Intn(6); i++ {
			var cm lw.ChMask
			for j := range cm {
				cm[j] = r.Bool()
			}
			m.ChannelMasks = append(m.ChannelMasks, cm)
		}
		cf := lw.CFList{CFListType: lw.CFListChannelMask, Payload: &m}
		cfList, _ = cf.MarshalBinary()
	}
	nsKEK, asKEK := []byte{}, []byte{}
	asLabel := r.Bool()
	if r.Bool() {
		nsKEK = r.Bytes([]int{16, 24, 32}[r.Intn(3)])
	}
	if asLabel && !r.Chance(1, 5) {
		asKEK = r.Bytes([]int{16, 24, 32}[r.Intn(3)])
	}
	frameDevEUI := devEUI
	wrongFrame := false
	if !forceGood {
		switch r.Intn(14) {
		case 0:
			known = false
		case 1:
			micOK = false
		case 2:
			sender = []string{"", "0102", "01020304", "zz0203", "0x010203", "0X010203", "010203 "}[r.Intn(7)]
		case 3:
			receiver = []string{"", "01", "010203040506070809", "0x0102030405060708", "qq02030405060708"}[r.Intn(5)]
		case 4:
			nonce = []int{1 << 24, 1<<24 + 5, -1, 1 << 31}[r.Intn(4)]
		case 5:
			rxDelay = []int{16, 255, 256, 257, -1, 1 << 20}[r.Intn(6)]
		case 6:
			cfList = r.Bytes([]int{1, 15, 17, 16, 32}[r.Intn(5)])
			if len(cfList) == 16 {
				cfList[15] = byte(2 + r.Intn(200)) // unknown CFList type
			}
		case 7:
			nsKEK = r.Bytes([]int{1, 8, 15, 17, 33}[r.Intn(5)])
		case 8:
			asLabel = true
			asKEK = r.Bytes([]int{1, 8, 15, 17, 33}[r.Intn(5)])
		case 9:
			wrongFrame = true
		case 10:
			copy(frameDevEUI[:], r.Bytes(8))
		}
	}
	if !forceGood && r.Chance(1, 6) { // two faults at once: the wrong MIC is what has to be reported, whatever else is wrong after it
		micOK = false
	}
	// the uplink frame
	phy := lw.PHYPayload{MHDR: lw.MHDR{Major: lw.LoRaWANR1}}
	if !rejoin {
		phy.MHDR.MType = lw.JoinRequest
		phy.MACPayload = &lw.JoinRequestPayload{JoinEUI: joinEUI, DevEUI: frameDevEUI, DevNonce: lw.DevNonce(devNonce)}
	} else {
		phy.MHDR.MType = lw.RejoinRequest
		if rjType == 1 {
			phy.MACPayload = &lw.RejoinRequestType1Payload{RejoinType: lw.RejoinRequestType1, JoinEUI: joinEUI, DevEUI: frameDevEUI, RJCount1: devNonce}
		} else {
			phy.MACPayload = &lw.RejoinRequestType02Payload{RejoinType: lw.JoinType(rjType), NetID: netID, DevEUI: frameDevEUI, RJCount0: devNonce}
		}
	}
	micKey := nwk
	if !micOK {
		copy(micKey[:], r.Bytes(16))
	}
	phy.SetUplinkJoinMIC(micKey)
	b, _ := phy.MarshalBinary()
	if wrongFrame {
		switch r.Intn(4) {
		case 0:
			b = r.Bytes(r.Intn(30))
		case 1:
			b = b[:len(b)-1-r.Intn(4)]
		case 2: // the other request kind
			if rejoin {
				b[0] = byte(lw.JoinRequest) << 5
			} else {
				b[0] = byte(lw.RejoinRequest) << 5
			}
		default: // a data frame
			b = append([]byte{0x40}, r.Bytes(11+r.Intn(10))...)
		}
	}
	kind := "J"
	if rejoin {
		kind = "R"
	}
	kv := b2i(known)
	if known && !forceGood && r.Chance(1, 12) { // a KEK / label store that fails
		kv = int64(2 + r.Intn(4)) // 5: the device-key store fails
	}
	return fmt.Sprintf("%s %d %s %s %d s%s s%s %d %s %s %s %d %d %d %d %s %s %d %s", kind, kv, hx(nwk[:]), hx(app[:]), nonce, sender, receiver, r.U32(),
		hx(b), hx(devEUI[:]), hx(devAddr[:]), b2i(optNeg), rx2dr, rx1off, rxDelay, hx(cfList), hx(nsKEK), b2i(asLabel), hx(asKEK))
}

func genC16(g *Gen) {
	for i := 0; i < g.scale(1500, 60000); i++ {
		g.add("jsreq " + genJSRequestArgs(g.r, i%3 != 0))
	}
	// HomeNSReq, and bodies the handler cannot dispatch
	for i := 0; i < g.scale(150, 5000); i++ {
		g.addf("jshome %d %s %s s%s s%s %d", b2i(!g.r.Chance(1, 4)), hx(g.r.Bytes(8)), hx(g.r.Bytes(3)), fmt.Sprintf("%x", g.r.Bytes(3)), fmt.Sprintf("%x", g.r.Bytes(8)), g.r.U32())
	}
	for _, t := range []string{"", "{", "null", "[]", "{}", `{"MessageType":"JoinAns"}`, `{"MessageType":"XmitDataReq"}`, `{"MessageType":5}`, `{"MessageType":"JoinReq","PHYPayload":"zz"}`,
		`{"MessageType":"RejoinReq","DevEUI":"01"}`, `{"MessageType":"HomeNSReq","DevEUI":"0102030405060708zz"}`, `{"MessageType":"JoinReq","TransactionID":-1}`} {
		g.add("jsraw " + hexOfText(t))
	}
	// concurrent batches through one handler
	for i := 0; i < g.scale(20, 400); i++ {
		n := 2 + g.r.Intn(7)
		var parts []string
		for k := 0; k < 3+g.r.Intn(6); k++ {
			parts = append(parts, genJSRequestArgs(g.r, g.r.Chance(3, 4)))
		}
		g.addf("jsconc %d | %s", n, strings.Join(parts, " | "))
	}
}
