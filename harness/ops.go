package main

// Execution of one op line against the real library. Every op is self-contained
// (hex bytes, decimal ints), so a line replays exactly without the PRNG.

import (
	"fmt"
	"strconv"
	"strings"

	lw "github.com/brocaar/lorawan"
)

const (
	resERR   = "ERR"
	resPANIC = "PANIC"
)

func okStr(s string) string { return "ok " + s }

func upPHY(uplink bool) *lw.PHYPayload {
	if uplink {
		return &lw.PHYPayload{MHDR: lw.MHDR{MType: lw.UnconfirmedDataUp}}
	}
	return &lw.PHYPayload{MHDR: lw.MHDR{MType: lw.UnconfirmedDataDown}}
}

type opFunc func(r *tokReader) (string, error)

var opTable = map[string]opFunc{}

func init() {
	opTable["macenc"] = func(r *tokReader) (string, error) {
		s, err := r.next()
		if err != nil {
			return "", err
		}
		p, err := parsePayload(s)
		if err != nil {
			return "", err
		}
		b, e := p.MarshalBinary()
		if e != nil {
			return resERR, nil
		}
		return okStr(hx(b)), nil
	}
	opTable["macdec"] = func(r *tokReader) (string, error) {
		name, err := r.next()
		if err != nil {
			return "", err
		}
		data, err := r.hex()
		if err != nil {
			return "", err
		}
		var zero []int64
		if name != "ProprietaryMACCommandPayload" {
			zero = make([]int64, payloadArity[name])
		}
		p, err := mkPayload(name, zero, nil)
		if err != nil {
			return "", err
		}
		if e := p.UnmarshalBinary(data); e != nil {
			return resERR, nil
		}
		return okStr(fmtPayload(p)), nil
	}
	opTable["macdecinto"] = func(r *tokReader) (string, error) {
		s, err := r.next()
		if err != nil {
			return "", err
		}
		p, err := parsePayload(s)
		if err != nil {
			return "", err
		}
		data, err := r.hex()
		if err != nil {
			return "", err
		}
		if e := p.UnmarshalBinary(data); e != nil {
			return resERR, nil
		}
		return okStr(fmtPayload(p)), nil
	}
	opTable["cmdenc"] = func(r *tokReader) (string, error) {
		s, err := r.next()
		if err != nil {
			return "", err
		}
		it, err := parseItem(s)
		if err != nil {
			return "", err
		}
		b, e := it.MarshalBinary()
		if e != nil {
			return resERR, nil
		}
		return okStr(hx(b)), nil
	}
	opTable["stream"] = func(r *tokReader) (string, error) {
		up, err := r.boolean()
		if err != nil {
			return "", err
		}
		data, err := r.hex()
		if err != nil {
			return "", err
		}
		zero := uint8(0)
		p := upPHY(up)
		p.MACPayload = &lw.MACPayload{FPort: &zero, FRMPayload: []lw.Payload{&lw.DataPayload{Bytes: data}}}
		if e := p.DecodeFRMPayloadToMACCommands(); e != nil {
			return resERR, nil
		}
		return okStr(strings.Join(fmtItems(p.MACPayload.(*lw.MACPayload).FRMPayload), " ")), nil
	}
	opTable["streamrt"] = func(r *tokReader) (string, error) {
		up, err := r.boolean()
		if err != nil {
			return "", err
		}
		items, err := r.items()
		if err != nil {
			return "", err
		}
		var enc []byte
		for _, it := range items {
			b, e := it.MarshalBinary()
			if e != nil {
				return resERR, nil
			}
			enc = append(enc, b...)
		}
		zero := uint8(0)
		p := upPHY(up)
		p.MACPayload = &lw.MACPayload{FPort: &zero, FRMPayload: []lw.Payload{&lw.DataPayload{Bytes: append([]byte{}, enc...)}}}
		if e := p.DecodeFRMPayloadToMACCommands(); e != nil {
			return resERR, nil
		}
		return okStr(hx(enc) + " " + strings.Join(fmtItems(p.MACPayload.(*lw.MACPayload).FRMPayload), " ")), nil
	}
	opTable["register"] = func(r *tokReader) (string, error) {
		up, err := r.boolean()
		if err != nil {
			return "", err
		}
		cid, err := r.u64()
		if err != nil {
			return "", err
		}
		size, err := r.i64()
		if err != nil {
			return "", err
		}
		if e := lw.RegisterProprietaryMACCommand(up, lw.CID(cid), int(size)); e != nil {
			return resERR, nil
		}
		return "ok", nil
	}
	opTable["getsize"] = func(r *tokReader) (string, error) {
		up, err := r.boolean()
		if err != nil {
			return "", err
		}
		cid, err := r.u64()
		if err != nil {
			return "", err
		}
		p, n, e := lw.GetMACPayloadAndSize(up, lw.CID(cid))
		if e != nil {
			return resERR, nil
		}
		name, _, _, _ := payloadFields(p)
		return okStr(fmt.Sprintf("%d %s", n, name)), nil
	}
	opTable["phydec"] = func(r *tokReader) (string, error) {
		data, err := r.hex()
		if err != nil {
			return "", err
		}
		var p lw.PHYPayload
		if e := p.UnmarshalBinary(data); e != nil {
			return resERR, nil
		}
		return okStr(fmtFrame(&p)), nil
	}
	opTable["phyenc"] = func(r *tokReader) (string, error) {
		p, err := parseFrame(r)
		if err != nil {
			return "", err
		}
		b, e := p.MarshalBinary()
		if e != nil {
			return resERR, nil
		}
		return okStr(hx(b)), nil
	}
	// decode, then re-encode what was accepted (C08)
	opTable["phycanon"] = func(r *tokReader) (string, error) {
		data, err := r.hex()
		if err != nil {
			return "", err
		}
		var p lw.PHYPayload
		if e := p.UnmarshalBinary(data); e != nil {
			return resERR, nil
		}
		out := fmtFrame(&p) + " | "
		b, e := p.MarshalBinary()
		if e != nil {
			return okStr(out + resERR), nil
		}
		return okStr(out + hx(b)), nil
	}
	// encode, then decode what was produced (C01)
	opTable["phyrt"] = func(r *tokReader) (string, error) {
		p, err := parseFrame(r)
		if err != nil {
			return "", err
		}
		b, e := p.MarshalBinary()
		if e != nil {
			return resERR, nil
		}
		var q lw.PHYPayload
		if e := q.UnmarshalBinary(b); e != nil {
			return okStr(hx(b) + " | " + resERR), nil
		}
		return okStr(hx(b) + " | " + fmtFrame(&q)), nil
	}
	// phytextrt <frame>: MarshalText, then UnmarshalText of that text into a fresh value
	opTable["phytextrt"] = func(r *tokReader) (string, error) {
		p, err := parseFrame(r)
		if err != nil {
			return "", err
		}
		t, e := p.MarshalText()
		if e != nil {
			return resERR, nil
		}
		var q lw.PHYPayload
		if e := q.UnmarshalText(t); e != nil {
			return okStr("t" + string(t) + " | " + resERR), nil
		}
		return okStr("t" + string(t) + " | " + fmtFrame(&q)), nil
	}
	// jart <join-accept frame>: JoinAcceptPayload.MarshalBinary, then UnmarshalBinary into a fresh value (the payload as the
	// device sees it after decryption)
	opTable["jart"] = func(r *tokReader) (string, error) {
		p, err := parseFrame(r)
		if err != nil {
			return "", err
		}
		ja, ok := p.MACPayload.(*lw.JoinAcceptPayload)
		if !ok {
			return "", fmt.Errorf("join-accept frame expected")
		}
		b, e := ja.MarshalBinary()
		if e != nil {
			return resERR, nil
		}
		var q lw.JoinAcceptPayload
		if e := q.UnmarshalBinary(false, b); e != nil {
			return okStr(hx(b) + " | " + resERR), nil
		}
		return okStr(hx(b) + " | " + fmtFrame(&lw.PHYPayload{MHDR: p.MHDR, MACPayload: &q, MIC: p.MIC})), nil
	}
	opTable["phytextenc"] = func(r *tokReader) (string, error) {
		p, err := parseFrame(r)
		if err != nil {
			return "", err
		}
		b, e := p.MarshalText()
		if e != nil {
			return resERR, nil
		}
		return okStr("t" + string(b)), nil
	}
	opTable["phytextdec"] = func(r *tokReader) (string, error) {
		s, err := r.next()
		if err != nil {
			return "", err
		}
		var p lw.PHYPayload
		if e := p.UnmarshalText([]byte(s[1:])); e != nil {
			return resERR, nil
		}
		return okStr(fmtFrame(&p)), nil
	}

	// ---- MICs
	micOp := func(set bool, f func(r *tokReader) (func(p *lw.PHYPayload) error, func(p *lw.PHYPayload) (bool, error), error)) opFunc {
		return func(r *tokReader) (string, error) {
			setF, valF, err := f(r)
			if err != nil {
				return "", err
			}
			p, err := parseFrame(r)
			if err != nil {
				return "", err
			}
			if set {
				if e := setF(p); e != nil {
					return resERR, nil
				}
				return okStr(hx(p.MIC[:])), nil
			}
			ok, e := valF(p)
			if e != nil {
				return resERR, nil
			}
			return okStr(strconv.FormatInt(b2i(ok), 10)), nil
		}
	}
	upArgs := func(r *tokReader) (func(p *lw.PHYPayload) error, func(p *lw.PHYPayload) (bool, error), error) {
		ver, err := r.u64()
		if err != nil {
			return nil, nil, err
		}
		conf, err := r.u64()
		if err != nil {
			return nil, nil, err
		}
		dr, err := r.u64()
		if err != nil {
			return nil, nil, err
		}
		ch, err := r.u64()
		if err != nil {
			return nil, nil, err
		}
		fk, err := r.key()
		if err != nil {
			return nil, nil, err
		}
		sk, err := r.key()
		if err != nil {
			return nil, nil, err
		}
		return func(p *lw.PHYPayload) error {
				return p.SetUplinkDataMIC(lw.MACVersion(ver), uint32(conf), uint8(dr), uint8(ch), fk, sk)
			}, func(p *lw.PHYPayload) (bool, error) {
				return p.ValidateUplinkDataMIC(lw.MACVersion(ver), uint32(conf), uint8(dr), uint8(ch), fk, sk)
			}, nil
	}
	opTable["micup"] = micOp(true, upArgs)
	opTable["valup"] = micOp(false, upArgs)
	opTable["valupf"] = micOp(false, func(r *tokReader) (func(p *lw.PHYPayload) error, func(p *lw.PHYPayload) (bool, error), error) {
		fk, err := r.key()
		if err != nil {
			return nil, nil, err
		}
		return nil, func(p *lw.PHYPayload) (bool, error) { return p.ValidateUplinkDataMICF(fk) }, nil
	})
	downArgs := func(r *tokReader) (func(p *lw.PHYPayload) error, func(p *lw.PHYPayload) (bool, error), error) {
		ver, err := r.u64()
		if err != nil {
			return nil, nil, err
		}
		conf, err := r.u64()
		if err != nil {
			return nil, nil, err
		}
		k, err := r.key()
		if err != nil {
			return nil, nil, err
		}
		return func(p *lw.PHYPayload) error { return p.SetDownlinkDataMIC(lw.MACVersion(ver), uint32(conf), k) },
			func(p *lw.PHYPayload) (bool, error) {
				return p.ValidateDownlinkDataMIC(lw.MACVersion(ver), uint32(conf), k)
			}, nil
	}
	opTable["micdown"] = micOp(true, downArgs)
	opTable["valdown"] = micOp(false, downArgs)
	joinArgs := func(r *tokReader) (func(p *lw.PHYPayload) error, func(p *lw.PHYPayload) (bool, error), error) {
		k, err := r.key()
		if err != nil {
			return nil, nil, err
		}
		return func(p *lw.PHYPayload) error { return p.SetUplinkJoinMIC(k) },
			func(p *lw.PHYPayload) (bool, error) { return p.ValidateUplinkJoinMIC(k) }, nil
	}
	opTable["micjoin"] = micOp(true, joinArgs)
	opTable["valjoin"] = micOp(false, joinArgs)
	jaArgs := func(r *tokReader) (func(p *lw.PHYPayload) error, func(p *lw.PHYPayload) (bool, error), error) {
		jt, err := r.u64()
		if err != nil {
			return nil, nil, err
		}
		eui, err := r.u64()
		if err != nil {
			return nil, nil, err
		}
		dn, err := r.u64()
		if err != nil {
			return nil, nil, err
		}
		k, err := r.key()
		if err != nil {
			return nil, nil, err
		}
		var e lw.EUI64
		putBE(e[:], eui)
		return func(p *lw.PHYPayload) error { return p.SetDownlinkJoinMIC(lw.JoinType(jt), e, lw.DevNonce(dn), k) },
			func(p *lw.PHYPayload) (bool, error) {
				return p.ValidateDownlinkJoinMIC(lw.JoinType(jt), e, lw.DevNonce(dn), k)
			}, nil
	}
	opTable["micja"] = micOp(true, jaArgs)
	opTable["valja"] = micOp(false, jaArgs)

	// ---- encryption functions
	opTable["encfrm"] = func(r *tokReader) (string, error) {
		k, err := r.key()
		if err != nil {
			return "", err
		}
		up, err := r.boolean()
		if err != nil {
			return "", err
		}
		a, err := r.u64()
		if err != nil {
			return "", err
		}
		c, err := r.u64()
		if err != nil {
			return "", err
		}
		data, err := r.hex()
		if err != nil {
			return "", err
		}
		var da lw.DevAddr
		putBE(da[:], a)
		out, e := lw.EncryptFRMPayload(k, up, da, uint32(c), data)
		if e != nil {
			return resERR, nil
		}
		return okStr(hx(out)), nil
	}
	opTable["encfopts"] = func(r *tokReader) (string, error) {
		k, err := r.key()
		if err != nil {
			return "", err
		}
		af, err := r.boolean()
		if err != nil {
			return "", err
		}
		up, err := r.boolean()
		if err != nil {
			return "", err
		}
		a, err := r.u64()
		if err != nil {
			return "", err
		}
		c, err := r.u64()
		if err != nil {
			return "", err
		}
		data, err := r.hex()
		if err != nil {
			return "", err
		}
		var da lw.DevAddr
		putBE(da[:], a)
		out, e := lw.EncryptFOpts(k, af, up, da, uint32(c), data)
		if e != nil {
			return resERR, nil
		}
		return okStr(hx(out)), nil
	}
	phyKeyOp := func(f func(p *lw.PHYPayload, k lw.AES128Key) error) opFunc {
		return func(r *tokReader) (string, error) {
			k, err := r.key()
			if err != nil {
				return "", err
			}
			p, err := parseFrame(r)
			if err != nil {
				return "", err
			}
			if e := f(p, k); e != nil {
				return resERR, nil
			}
			return okStr(fmtFrame(p)), nil
		}
	}
	opTable["phyencfopts"] = phyKeyOp(func(p *lw.PHYPayload, k lw.AES128Key) error { return p.EncryptFOpts(k) })
	opTable["phydecfopts"] = phyKeyOp(func(p *lw.PHYPayload, k lw.AES128Key) error { return p.DecryptFOpts(k) })
	opTable["phyencfrm"] = phyKeyOp(func(p *lw.PHYPayload, k lw.AES128Key) error { return p.EncryptFRMPayload(k) })
	opTable["phydecfrm"] = phyKeyOp(func(p *lw.PHYPayload, k lw.AES128Key) error { return p.DecryptFRMPayload(k) })
	opTable["encja"] = phyKeyOp(func(p *lw.PHYPayload, k lw.AES128Key) error { return p.EncryptJoinAcceptPayload(k) })
	opTable["decja"] = phyKeyOp(func(p *lw.PHYPayload, k lw.AES128Key) error { return p.DecryptJoinAcceptPayload(k) })
	phyOp := func(f func(p *lw.PHYPayload) error) opFunc {
		return func(r *tokReader) (string, error) {
			p, err := parseFrame(r)
			if err != nil {
				return "", err
			}
			if e := f(p); e != nil {
				return resERR, nil
			}
			return okStr(fmtFrame(p)), nil
		}
	}
	opTable["phydecodefopts"] = phyOp(func(p *lw.PHYPayload) error { return p.DecodeFOptsToMACCommands() })
	opTable["phydecodefrm"] = phyOp(func(p *lw.PHYPayload) error { return p.DecodeFRMPayloadToMACCommands() })
}

// execOp runs one op (the text left of " => ") and returns its canonical result.
func execOp(op string) (res string) {
	defer func() {
		if x := recover(); x != nil {
			res = resPANIC
		}
	}()
	toks := strings.Fields(op)
	if len(toks) == 0 {
		return "BADOP empty"
	}
	f, ok := opTable[toks[0]]
	if !ok {
		return "BADOP unknown " + toks[0]
	}
	if noWriteOps[toks[0]] {
		// decoders / inspectors run twice. First on buffers whose capacity equals their length: an index or slice expression
		// beyond the input panics (spare capacity would hide `data[a:b]` with b > len). Then on guarded buffers: they must leave
		// the input and the spare capacity behind it untouched, and the result must not depend on what lies behind the slice.
		out, err := f(&tokReader{t: toks[1:], exact: true})
		if err != nil {
			return "BADOP " + strings.ReplaceAll(err.Error(), "\n", " ")
		}
		r := &tokReader{t: toks[1:]}
		out2, err := f(r)
		if err != nil {
			return "BADOP " + strings.ReplaceAll(err.Error(), "\n", " ")
		}
		for _, g := range r.inputs {
			if g.written() {
				return out + " WROTE-INPUT"
			}
		}
		if out2 != out {
			return out + " CAPACITY-DEPENDENT"
		}
		return out
	}
	r := &tokReader{t: toks[1:]}
	out, err := f(r)
	if err != nil {
		return "BADOP " + strings.ReplaceAll(err.Error(), "\n", " ")
	}
	return out
}
