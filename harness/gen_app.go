package main

// C18 generator: in-width values of every payload type (exhaustive for the single-byte payloads), out-of-width values,
// raw decodes, sequences of up to 6 commands per package and direction, multicast keys.

import (
	"fmt"
	"strings"
)

func init() { generators["C18"] = genC18 }

type appField struct {
	bits int // specified width
	typ  int // Go type width in bits
}

// genAppPayload returns the canonical payload text of a value of the given type; inWidth keeps every field inside its
// specified width (and the optional fields consistent with the status bits).
func genAppPayload(r *RNG, name string, inWidth bool) string {
	u := func(bits, typ int) string {
		if inWidth {
			if r.Chance(1, 4) {
				return fmt.Sprint(uint64(1)<<uint(bits) - 1 - uint64(r.Intn(2)))
			}
			return fmt.Sprint(r.U64() & (uint64(1)<<uint(bits) - 1))
		}
		return fmt.Sprint(r.U64() & (uint64(1)<<uint(typ) - 1))
	}
	b := func() string { return fmt.Sprint(r.Intn(2)) }
	mask := func() (string, int) {
		var t []string
		n := 0
		for i := 0; i < 4; i++ {
			x := r.Intn(2)
			n += x
			t = append(t, fmt.Sprint(x))
		}
		return strings.Join(t, ","), n
	}
	freq := func() string {
		if inWidth {
			return fmt.Sprint(uint64(r.U32()&0xffffff) * 100)
		}
		if r.Bool() {
			return fmt.Sprint(r.U32())
		}
		return fmt.Sprint(uint64(r.U32()%42949672) * 100)
	}
	sessionAns := func() string {
		st := []string{b(), b(), b()}
		if r.Bool() {
			st = []string{"0", "0", "0"}
		}
		hasErr := st[0] != "0" || st[1] != "0" || st[2] != "0"
		tts := "nil"
		if !hasErr {
			tts = u(24, 32)
		}
		if !inWidth && r.Chance(1, 3) {
			if tts == "nil" {
				tts = u(24, 32)
			} else {
				tts = "nil"
			}
		}
		return strings.Join(st, ",") + "," + u(2, 8) + "," + tts
	}
	var f string
	switch name {
	case "PackageVersionAns":
		f = u(8, 8) + "," + u(8, 8)
	case "AppTimeReq":
		f = u(32, 32) + "," + b() + "," + u(4, 8)
	case "AppTimeAns":
		f = fmt.Sprint(int32(r.U32())) + "," + u(4, 8)
	case "DeviceAppTimePeriodicityReq":
		f = u(4, 8)
	case "DeviceAppTimePeriodicityAns":
		f = b() + "," + u(32, 32)
	case "ForceDeviceResyncReq":
		f = u(3, 8)
	case "McGroupStatusReq":
		f, _ = mask()
	case "McGroupStatusAns":
		m, n := mask()
		if !inWidth && r.Chance(1, 3) {
			n = r.Intn(6)
		}
		f = u(3, 8) + "," + m + "," + fmt.Sprint(n)
		for i := 0; i < n; i++ {
			f += "," + u(2, 8) + "," + hx(r.Bytes(4))
		}
	case "McGroupSetupReq":
		f = u(2, 8) + "," + hx(r.Bytes(4)) + "," + hx(r.Bytes(16)) + "," + u(32, 32) + "," + u(32, 32)
	case "McGroupSetupAns", "McGroupDeleteAns":
		f = b() + "," + u(2, 8)
	case "McGroupDeleteReq":
		f = u(2, 8)
	case "McClassCSessionReq":
		f = u(2, 8) + "," + u(32, 32) + "," + u(4, 8) + "," + freq() + "," + u(8, 8)
	case "McClassBSessionReq":
		f = u(2, 8) + "," + u(32, 32) + "," + u(3, 8) + "," + u(4, 8) + "," + freq() + "," + u(8, 8)
	case "McClassCSessionAns", "McClassBSessionAns":
		f = sessionAns()
	case "FragSessionSetupReq":
		m, _ := mask()
		f = u(2, 8) + "," + m + "," + u(16, 16) + "," + u(8, 8) + "," + u(3, 8) + "," + u(3, 8) + "," + u(8, 8) + "," + hx(r.Bytes(4))
	case "FragSessionSetupAns":
		f = u(2, 8) + "," + b() + "," + b() + "," + b() + "," + b()
	case "FragSessionDeleteReq":
		f = u(2, 8)
	case "FragSessionDeleteAns", "FragSessionStatusReq":
		f = u(2, 8) + "," + b()
	case "DataFragment":
		f = u(2, 8) + "," + u(14, 16) + "," + hx(r.Bytes(r.Intn(12)))
	case "FragSessionStatusAns":
		f = u(2, 8) + "," + u(14, 16) + "," + u(8, 8) + "," + b()
	case "DevVersionReq", "DevUpgradeImageReq":
		f = ""
	case "DevVersionAns":
		f = u(32, 32) + "," + u(32, 32)
	case "DevRebootTimeReq", "DevRebootTimeAns", "DevDeleteImageReq":
		f = u(32, 32)
	case "DevRebootCountdownReq", "DevRebootCountdownAns":
		f = u(24, 32)
	case "DevUpgradeImageAns":
		st := r.Intn(4)
		if !inWidth && r.Bool() {
			st = int(r.Byte())
		}
		nx := "nil"
		if st == 3 {
			nx = u(32, 32)
		}
		if !inWidth && r.Chance(1, 3) {
			if nx == "nil" {
				nx = u(32, 32)
			} else {
				nx = "nil"
			}
		}
		f = fmt.Sprint(st) + "," + nx
	case "DevDeleteImageAns":
		f = u(1, 8) + "," + u(1, 8)
	default:
		panic("genAppPayload: " + name)
	}
	return name + "(" + f + ")"
}

// single-byte payloads: every in-width value, listed field by field (value ranges)
var appSingleByte = map[string][]int{
	"DeviceAppTimePeriodicityReq": {16}, "ForceDeviceResyncReq": {8}, "McGroupStatusReq": {2, 2, 2, 2},
	"McGroupSetupAns": {2, 4}, "McGroupDeleteReq": {4}, "McGroupDeleteAns": {2, 4},
	"FragSessionSetupAns": {4, 2, 2, 2, 2}, "FragSessionDeleteReq": {4}, "FragSessionDeleteAns": {4, 2}, "FragSessionStatusReq": {4, 2},
	"DevDeleteImageAns": {2, 2},
}

func enumFields(ranges []int, f func(vals []int)) {
	vals := make([]int, len(ranges))
	var rec func(i int)
	rec = func(i int) {
		if i == len(ranges) {
			f(vals)
			return
		}
		for v := 0; v < ranges[i]; v++ {
			vals[i] = v
			rec(i + 1)
		}
	}
	rec(0)
}

func genC18(g *Gen) {
	perKind := g.scale(40, 1500)
	for _, pn := range appPkgNames {
		// direction -> registered entries
		byDir := map[bool][]appRegEntry{}
		for _, e := range appRegistry[pn] {
			byDir[e.up] = append(byDir[e.up], e)
		}
		b01 := func(b bool) int { return int(b2i(b)) }
		for _, e := range appRegistry[pn] {
			// exhaustive single-byte payloads: all in-width values and all 256 wire bytes
			if rs, ok := appSingleByte[e.name]; ok {
				enumFields(rs, func(vals []int) {
					var t []string
					for _, v := range vals {
						t = append(t, fmt.Sprint(v))
					}
					c := fmt.Sprintf("A:%d:%s(%s)", e.cid, e.name, strings.Join(t, ","))
					g.addf("appenc %s %s", pn, c)
					g.addf("appseq %s %d 1 %s", pn, b01(e.up), c)
				})
				for x := 0; x < 256; x++ {
					g.addf("appdec %s %d %s", pn, b01(e.up), hx([]byte{byte(e.cid), byte(x)}))
				}
			}
			for i := 0; i < perKind; i++ {
				c := fmt.Sprintf("A:%d:%s", e.cid, genAppPayload(g.r, e.name, i%4 != 3))
				g.addf("appenc %s %s", pn, c)
				g.addf("appseq %s %d 1 %s", pn, b01(e.up), c)
			}
			// raw decodes: every length up to past the size, random content
			for l := 0; l <= e.size+7 && l < 40; l++ {
				for k := 0; k < g.scale(2, 20); k++ {
					g.addf("appdec %s %d %s", pn, b01(e.up), hx(append([]byte{byte(e.cid)}, g.r.Bytes(l)...)))
				}
			}
		}
		// commands without payload / unknown CIDs / payload on the wrong CID or direction
		for _, up := range []bool{false, true} {
			for cid := 0; cid < 12; cid++ {
				g.addf("appenc %s A:%d:-", pn, cid)
				g.addf("appseq %s %d 1 A:%d:-", pn, b01(up), cid)
				g.addf("appdec %s %d %s", pn, b01(up), hx([]byte{byte(cid)}))
			}
			g.addf("appdec %s %d x", pn, b01(up))
			g.addf("appdecs %s %d x", pn, b01(up))
			g.addf("appseq %s %d 0", pn, b01(up))
			for i := 0; i < g.scale(10, 100); i++ {
				e := appRegistry[pn][g.r.Intn(len(appRegistry[pn]))]
				g.addf("appseq %s %d 1 A:%d:%s", pn, b01(up), g.r.Intn(10), genAppPayload(g.r, e.name, true))
			}
		}
		// sequences
		for _, up := range []bool{false, true} {
			es := byDir[up]
			var nilCIDs []int
			for cid := 0; cid < 10; cid++ {
				if p, ok := appPkgs[pn].get(up, byte(cid)); !ok || p == nil {
					nilCIDs = append(nilCIDs, cid)
				}
			}
			for i := 0; i < g.scale(300, 20000); i++ {
				n := 2 + g.r.Intn(5)
				var toks []string
				for j := 0; j < n; j++ {
					if g.r.Chance(1, 8) && len(nilCIDs) > 0 {
						toks = append(toks, fmt.Sprintf("A:%d:-", nilCIDs[g.r.Intn(len(nilCIDs))]))
						continue
					}
					e := es[g.r.Intn(len(es))]
					// rest-consuming / exact-length payloads mostly last, sometimes in the middle
					if (e.name == "DataFragment" || e.name == "DevVersionReq" || e.name == "DevUpgradeImageReq" || e.name == "DevDeleteImageReq") &&
						j != n-1 && !g.r.Chance(1, 6) {
						j--
						continue
					}
					toks = append(toks, fmt.Sprintf("A:%d:%s", e.cid, genAppPayload(g.r, e.name, !g.r.Chance(1, 12))))
				}
				g.addf("appseq %s %d %d %s", pn, b01(up), len(toks), strings.Join(toks, " "))
			}
			// raw streams: concatenations of registry CIDs and random bytes
			for i := 0; i < g.scale(200, 10000); i++ {
				var raw []byte
				for j := 0; j < 1+g.r.Intn(5); j++ {
					e := es[g.r.Intn(len(es))]
					raw = append(raw, byte(e.cid))
					l := e.size
					if g.r.Chance(1, 4) {
						l = g.r.Intn(12)
					}
					raw = append(raw, g.r.Bytes(l)...)
				}
				g.addf("appdecs %s %d %s", pn, b01(up), hx(raw))
			}
		}
	}
	// keys
	g.add("mckeys x00000000000000000000000000000000 x00000000")
	g.add("mckeys x2b7e151628aed2a6abf7158809cf4f3c x01020304")
	for i := 0; i < g.scale(150, 5000); i++ {
		g.addf("mckeys %s %s", hx(g.r.Bytes(16)), hx(g.r.Bytes(4)))
		// the same questions again after other keys went through (a derivation must not depend on the ones before it)
		if i%10 == 3 {
			g.add("mckeys x00000000000000000000000000000000 x00000000")
			g.add("mckeys x2b7e151628aed2a6abf7158809cf4f3c x01020304")
			g.addf("mckeys x000000000000000000000000000000%02x %s", i%3, hx(g.r.Bytes(4)))
		}
	}
}
